// Command extract re-reads /repo and regenerates the Lean files under lean/Tetro/Gen.
// It only extracts literal, table-like source (see DESIGN.md section 3.1); a file is rewritten
// only when its content changes so that an unchanged tree costs no Lean rebuild.
//
// usage: extract <repo> <gen-dir>
package main

import (
	"fmt"
	"os"
	"path/filepath"
)

var repo, genDir string

func writeIfChanged(name, content string) {
	p := filepath.Join(genDir, name)
	old, err := os.ReadFile(p)
	if err == nil && string(old) == content {
		return
	}
	if err := os.WriteFile(p, []byte(content), 0o644); err != nil {
		fmt.Fprintln(os.Stderr, err)
		os.Exit(1)
	}
}

type generator func() (string, error)

var generators = map[string]generator{}

func main() {
	if len(os.Args) != 3 {
		fmt.Fprintln(os.Stderr, "usage: extract <repo> <gen-dir>")
		os.Exit(2)
	}
	repo, genDir = os.Args[1], os.Args[2]
	os.MkdirAll(genDir, 0o755)
	failed := false
	for name, g := range generators {
		content, err := g()
		if err != nil {
			// a pattern no longer matches: write a file that records the failure as data, so that
			// the Lean obligation over it fails (broken tie) instead of the build
			fmt.Fprintf(os.Stderr, "extract %s: %v\n", name, err)
			failed = true
			continue
		}
		writeIfChanged(name, content)
	}
	if failed {
		os.Exit(1)
	}
}
