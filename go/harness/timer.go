package main

import (
	"fmt"
	"strconv"
	"strings"

	"github.com/scottyw/tetromino/gameboy/timer"
)

// mode timer: timer.Timer through its public API (+ the verif hook for the 16-bit counter).
// ops:
//
//	reset <counter-hex4>                      timer.New(); VerifSetCounter(counter)
//	reset <counter-hex4> <tima> <tma> <tac>   timer.New(); WriteTAC; WriteTIMA; WriteTMA;
//	                                          VerifSetCounter(counter-4); EndMachineCycle()
//	t | wdiv | wtima <hex2> | wtma <hex2> | wtac <hex2>
//
// out (`spec-determined ; internal`):
//
//	reset, t in guest shape   DIV TIMA TMA TAC IRQ ; COUNTER
//	t in free shape           DIV TMA TAC ; COUNTER TIMA IRQ
//	writes                    DIV TMA TAC ; COUNTER TIMA
//
// "guest shape" = no machine cycle since the last reset contained more than one write (one bus
// access per machine cycle); theorem c12_refines covers TIMA and the IRQ after the ticks of such
// schedules, c12_regs_free covers DIV/TMA/TAC after every call.
func init() { modes["timer"] = modeFn{gen: timerGen, replay: timerReplay} }

type timerRun struct {
	c      *ctx
	tm     *timer.Timer
	mc     *machine // the timer sits behind the real Mapper: register accesses use FF04-FF07
	writes int      // writes since the last tick
	free   bool     // some cycle since the last reset had more than one write
	// coverage bookkeeping (computed from the public API and the counter hook only)
	sinceIrq int
	seen     map[int]bool
	buf      []byte
}

func timerSignal(tm *timer.Timer) bool {
	tac := tm.ReadTAC()
	bit := []uint{9, 3, 5, 7}[tac&3]
	return tac&4 != 0 && tm.VerifCounter()&(1<<bit) != 0
}

const hexdigits = "0123456789abcdef"

func fx2(b []byte, v uint8) []byte { return append(b, hexdigits[v>>4], hexdigits[v&15]) }
func fx4(b []byte, v uint16) []byte {
	return append(b, hexdigits[v>>12], hexdigits[(v>>8)&15], hexdigits[(v>>4)&15], hexdigits[v&15])
}
func f01(b []byte, v bool) []byte {
	if v {
		return append(b, '1')
	}
	return append(b, '0')
}

// regs: DIV TMA TAC
func (r *timerRun) regs(b []byte) []byte {
	b = fx2(b, r.mc.mapper.Read(0xff04))
	b = append(b, ' ')
	b = fx2(b, r.mc.mapper.Read(0xff06))
	b = append(b, ' ')
	return fx2(b, r.mc.mapper.Read(0xff07))
}

// full: DIV TIMA TMA TAC IRQ
func (r *timerRun) full(b []byte, irq bool) []byte {
	b = fx2(b, r.mc.mapper.Read(0xff04))
	b = append(b, ' ')
	b = fx2(b, r.mc.mapper.Read(0xff05))
	b = append(b, ' ')
	b = fx2(b, r.mc.mapper.Read(0xff06))
	b = append(b, ' ')
	b = fx2(b, r.mc.mapper.Read(0xff07))
	b = append(b, ' ')
	return f01(b, irq)
}

func (r *timerRun) counterPart(b []byte) []byte {
	b = append(b, " ; "...)
	return fx4(b, r.tm.VerifCounter())
}

func timaClass(v uint8) int {
	switch v {
	case 0xff:
		return 2
	case 0:
		return 1
	}
	return 0
}

func bi(b bool) int {
	if b {
		return 1
	}
	return 0
}

func (r *timerRun) do(op string) string {
	w := strings.Fields(op)
	out := guard(func() (res0 string) {
		defer func() {
			if e := recover(); e != nil {
				if _, ok := e.(badOp); ok {
					res0 = "bad-op"
					return
				}
				panic(e)
			}
		}()
		if len(w) == 0 {
			return "bad-op"
		}
		if w[0] == "reset" {
			switch len(w) {
			case 2:
				r.newTimer()
				r.tm.VerifSetCounter(uint16(unhex4(w[1])))
				r.writes, r.free, r.sinceIrq = 0, false, 99
				return string(r.counterPart(r.full(nil, false)))
			case 5:
				cnt, a, m, k := unhex4(w[1]), unhex2(w[2]), unhex2(w[3]), unhex2(w[4])
				r.newTimer()
				r.mc.mapper.Write(0xff07, uint8(k))
				r.mc.mapper.Write(0xff05, uint8(a))
				r.mc.mapper.Write(0xff06, uint8(m))
				r.tm.VerifSetCounter(uint16(cnt) - 4)
				irq := r.tm.EndMachineCycle()
				r.writes, r.free, r.sinceIrq = 0, false, 99
				if irq {
					r.sinceIrq = 0
				}
				return string(r.counterPart(r.full(nil, irq)))
			}
			return "bad-op"
		}
		sig0 := timerSignal(r.tm)
		tac0 := r.mc.mapper.Read(0xff07) & 7
		tima0 := r.mc.mapper.Read(0xff05)
		phase := 0
		if r.sinceIrq == 0 {
			phase = 1
		} else if r.sinceIrq == 1 {
			phase = 2
		}
		kind := 0
		res := r.buf[:0]
		irq := false
		switch w[0] {
		case "t":
			if len(w) != 1 {
				return "bad-op"
			}
			irq = r.tm.EndMachineCycle()
			if r.free {
				res = r.counterPart(r.regs(res))
				res = append(res, ' ')
				res = fx2(res, r.mc.mapper.Read(0xff05))
				res = append(res, ' ')
				res = f01(res, irq)
			} else {
				res = r.counterPart(r.full(res, irq))
			}
			r.writes = 0
			if irq {
				r.sinceIrq = 0
			} else if r.sinceIrq < 99 {
				r.sinceIrq++
			}
		case "wdiv":
			if len(w) != 1 {
				return "bad-op"
			}
			r.mc.mapper.Write(0xff04, 0)
			kind = 1
		case "wtima", "wtma", "wtac":
			if len(w) != 2 {
				return "bad-op"
			}
			v := uint8(unhex2(w[1]))
			switch w[0] {
			case "wtima":
				r.mc.mapper.Write(0xff05, v)
				kind = 2
			case "wtma":
				r.mc.mapper.Write(0xff06, v)
				kind = 3
			default:
				r.mc.mapper.Write(0xff07, v)
				kind = 4
			}
		default:
			return "bad-op"
		}
		if w[0] != "t" {
			if r.writes >= 1 {
				r.free = true
			}
			r.writes++
			res = r.counterPart(r.regs(res))
			res = append(res, ' ')
			res = fx2(res, r.mc.mapper.Read(0xff05))
		}
		sig1 := timerSignal(r.tm)
		edge := 0
		switch {
		case sig0 && !sig1:
			edge = 1
		case !sig0 && sig1:
			edge = 2
		case sig0 && sig1:
			edge = 3
		}
		// one class per (TAC low bits before, signal transition, reload phase, op kind, TIMA class
		// before, TIMA class after, irq, shape)
		key := int(tac0)
		key = key*4 + edge
		key = key*3 + phase
		key = key*5 + kind
		key = key*3 + timaClass(tima0)
		key = key*3 + timaClass(r.mc.mapper.Read(0xff05))
		key = key*2 + bi(irq)
		key = key*2 + bi(r.free)
		if !r.seen[key] {
			r.seen[key] = true
			r.c.class(fmt.Sprintf("tac%d/%s/%s/%s/tima %s>%s/irq%d/%s", tac0,
				[]string{"lo", "fall", "rise", "hi"}[edge], []string{"N", "Z", "L"}[phase], w[0],
				[]string{"xx", "00", "ff"}[timaClass(tima0)], []string{"xx", "00", "ff"}[timaClass(r.mc.mapper.Read(0xff05))],
				bi(irq), []string{"guest", "free"}[bi(r.free)]))
		}
		r.buf = res
		return string(res)
	})
	r.c.emit(op, out)
	return out
}

// unhex2/unhex4 accept exactly what the Lean driver accepts; anything else is reported as bad-op.
type badOp struct{}

func unhexN(s string, digits int, max uint64) int {
	n, err := strconv.ParseUint(s, 16, 64)
	if err != nil || n > max || len(s) > digits || strings.ContainsAny(s, "+-_") {
		panic(badOp{})
	}
	return int(n)
}
func unhex2(s string) int { return unhexN(s, 2, 0xff) }
func unhex4(s string) int { return unhexN(s, 4, 0xffff) }

func timerReplay(c *ctx, ops []string) {
	r := &timerRun{c: c, sinceIrq: 99, seen: map[int]bool{}}
	r.newTimer()
	for _, op := range ops {
		r.do(op)
	}
}

type timerStart struct {
	counter        uint16
	tima, tma, tac uint8
}

// timerStarts: cycle-boundary start states around every edge bit (3/5/7/9), around the counter
// wrap, with TIMA about to overflow / just below / zero, under every TAC value.
func timerStarts() []timerStart {
	var s []timerStart
	period := map[uint8]uint16{4: 1024, 5: 16, 6: 64, 7: 256}
	for _, tac := range []uint8{5, 6, 7, 4} {
		p := period[tac]
		// next tick falls / falls in two ticks / signal low, rises at next tick
		for _, c := range []uint16{p - 4, p - 8, p/2 - 4} {
			s = append(s, timerStart{c, 0xff, 0x42, tac})
			s = append(s, timerStart{0x1000 + c, 0xfe, 0xff, tac})
		}
	}
	// all four candidate bits high, all fall at the next tick; counter wrap
	for _, c := range []uint16{0x03fc, 0x03f8, 0xfffc, 0xfff8} {
		for _, tac := range []uint8{5, 4} {
			s = append(s, timerStart{c, 0xff, 0xff, tac})
		}
	}
	// disabled timer, every selection, TIMA about to overflow as soon as it is enabled and disabled
	for tac := uint8(0); tac < 4; tac++ {
		s = append(s, timerStart{0x03fc, 0xff, 0x00, tac})
	}
	// odd phases of the counter (only reachable through the hook) and a quiet state
	s = append(s, timerStart{0x000e, 0xff, 0x10, 5}, timerStart{0xfffd, 0xff, 0xfe, 7},
		timerStart{0x0000, 0x00, 0x00, 5}, timerStart{0xabcc, 0x00, 0x00, 0})
	return s
}

func (st timerStart) op() string {
	return fmt.Sprintf("reset %04x %02x %02x %02x", st.counter, st.tima, st.tma, st.tac)
}

// enumerate all words of the given length over the alphabet, each from a fresh start
func (r *timerRun) allWords(start string, alphabet []string, length int) int {
	idx := make([]int, length)
	n := 0
	for {
		r.do(start)
		for _, i := range idx {
			r.do(alphabet[i])
		}
		n++
		k := length - 1
		for k >= 0 {
			idx[k]++
			if idx[k] < len(alphabet) {
				break
			}
			idx[k] = 0
			k--
		}
		if k < 0 {
			return n
		}
	}
}

func timerGen(c *ctx) {
	r := &timerRun{c: c, sinceIrq: 99, seen: map[int]bool{}}
	r.newTimer()
	starts := timerStarts()
	alphabet := []string{"t", "wdiv", "wtima ff", "wtima 31", "wtima 00", "wtma ff", "wtma 31", "wtac 05", "wtac 06", "wtac 00"}
	// quick: all words of length 4 from every start, length 5 from every fourth start;
	// thorough: length 5 from every start, length 6 from every third start, one more letter.
	freeLen, guestLen, deepEvery := 4, 4, 4
	walks, steps := 200, 10000
	if c.thorough() {
		alphabet = append(alphabet, "wtac 07")
		freeLen, guestLen, deepEvery = 5, 5, 3
		walks, steps = 1000, 10000
	}
	// Part 0: the fresh timer and the plain `reset <counter>` form, around the pinned tests' shapes.
	for _, cnt := range []uint16{0xabcc, 0x0000, 0xfffc, 0x000c} {
		for _, tac := range []string{"04", "05", "06", "07"} {
			r.do(fmt.Sprintf("reset %04x", cnt))
			r.do("wtac " + tac)
			r.do("wdiv")
			for i := 0; i < 300; i++ {
				r.do("t")
			}
		}
	}
	// Part 1 (free shape, exhaustive): every call sequence of length freeLen over the alphabet from
	// every start.  Sequences that happen to contain at most one write per cycle are in guest shape.
	words, deepWords := 0, 0
	for i, st := range starts {
		if i%deepEvery == 0 {
			deepWords += r.allWords(st.op(), alphabet, freeLen+1)
		} else {
			words += r.allWords(st.op(), alphabet, freeLen)
		}
	}
	c.notes["free_words"] = words
	c.notes["free_word_length"] = freeLen
	c.notes["free_deep_words"] = deepWords
	c.notes["free_deep_word_length"] = freeLen + 1
	// Part 2 (guest shape, exhaustive): every schedule of guestLen machine cycles, each cycle being
	// "no write" or one write of the alphabet followed by the tick.
	cycles := []string{"t"}
	for _, a := range alphabet[1:] {
		cycles = append(cycles, a+"|t")
	}
	gw := 0
	for _, st := range starts {
		idx := make([]int, guestLen)
		for {
			r.do(st.op())
			for _, i := range idx {
				for _, op := range strings.Split(cycles[i], "|") {
					r.do(op)
				}
			}
			gw++
			k := guestLen - 1
			for k >= 0 {
				idx[k]++
				if idx[k] < len(cycles) {
					break
				}
				idx[k] = 0
				k--
			}
			if k < 0 {
				break
			}
		}
	}
	c.notes["guest_schedules"] = gw
	c.notes["guest_schedule_cycles"] = guestLen
	c.notes["starts"] = len(starts)
	c.notes["alphabet"] = strings.Join(alphabet, ",")
	// Part 3: long seeded random schedules, half in guest shape, half free; biased towards the fast
	// timer so that overflows, reloads and the two special cycles occur often.
	tacs := []int{5, 5, 5, 6, 7, 4, 0, 1, 13, 0xfd}
	vals := []int{0xff, 0xfe, 0xfd, 0x00, 0x01, 0x80}
	for w := 0; w < walks; w++ {
		guest := w%2 == 0
		if c.rng.chance(50) {
			r.do(fmt.Sprintf("reset %04x", c.rng.u16()))
		} else {
			r.do(fmt.Sprintf("reset %04x %02x %02x %02x", c.rng.u16(), c.rng.pick(vals), c.rng.pick(vals), c.rng.pick(tacs)))
		}
		for s := 0; s < steps; {
			var op string
			switch x := c.rng.intn(100); {
			case x < 45:
				op = "t"
			case x < 55:
				op = "wdiv"
			case x < 70:
				if c.rng.chance(70) {
					op = fmt.Sprintf("wtima %02x", c.rng.pick(vals))
				} else {
					op = fmt.Sprintf("wtima %02x", c.rng.byte())
				}
			case x < 82:
				if c.rng.chance(70) {
					op = fmt.Sprintf("wtma %02x", c.rng.pick(vals))
				} else {
					op = fmt.Sprintf("wtma %02x", c.rng.byte())
				}
			default:
				if c.rng.chance(80) {
					op = fmt.Sprintf("wtac %02x", c.rng.pick(tacs))
				} else {
					op = fmt.Sprintf("wtac %02x", c.rng.byte())
				}
			}
			r.do(op)
			s++
			if guest && op != "t" {
				r.do("t")
				s++
			}
			// let the timer run for a while now and then so that slow modes overflow too
			if c.rng.chance(2) {
				n := c.rng.intn(300)
				for i := 0; i < n; i++ {
					r.do("t")
					s++
				}
			}
		}
	}
	c.notes["random_walks"] = walks
	c.notes["random_walk_ops"] = steps
}

// newTimer builds a whole machine (as gameboy.New wires it) and uses its timer
func (r *timerRun) newTimer() {
	if r.mc == nil {
		r.mc = newMachine(make([]byte, 0x8000), false)
		r.tm = r.mc.timer
	}
	r.tm.VerifReset()
}
