package main

import (
	"fmt"
	"strings"

	"github.com/scottyw/tetromino/gameboy/memory"
)

// mode rtc: the MBC3 real-time clock through the Mapper (writes to 0000-7FFF / A000-BFFF, reads of
// A000-BFFF) plus the verif hooks VerifRTCSet/Get/Tick/Increment to place and observe the counters.
//
// ops:  reset                              32 KiB image, type 0x10 (MBC3+TIMER+RAM+BATT), RAM size 3,
//
//	                                   then Write(0x0000, 0x0a)                      -> ok
//	set <s> <m> <h> <d> <carry> <halt> <ticks>   (decimal) VerifRTCSet               -> <get>
//	tick <n>                           n x VerifRTCTick                              -> <get>
//	inc                                VerifRTCIncrement                             -> <get>
//	get                                VerifRTCGet                                   -> <get>
//	w <addr4> <val2>                   Mapper.Write                                  -> ok | crash
//	r <addr4>                          Mapper.Read                                   -> <val2> | crash
//
// <get> = "ss mm hh dddd carry halt ticks" (hex fields, 0/1 flags, decimal sub-second count): the live
// counters, about which C10's theorems speak directly.
func init() { modes["rtc"] = modeFn{gen: rtcGen, replay: rtcReplay} }

type rtcRun struct {
	c *ctx
	m *memory.Mapper
}

func rtcImage() []byte { return rtcImageOf(0x10, 0x03) }

func rtcImageOf(typ, ramSize uint8) []byte {
	img := make([]byte, 0x8000)
	img[0x147], img[0x148], img[0x149] = typ, 0x00, ramSize
	return img
}

func (r *rtcRun) get() string {
	v := r.m.VerifRTCGet()
	return fmt.Sprintf("%02x %02x %02x %04x %s %s %d", v.S, v.M, v.H, v.D, b01(v.Carry), b01(v.Halt), v.Ticks)
}

func (r *rtcRun) fresh() {
	r.m = newMapper(rtcImage())
	r.m.Write(0x0000, 0x0a)
}

func (r *rtcRun) do(op string) string {
	w := strings.Fields(op)
	out := guard(func() string {
		switch {
		case w[0] == "reset" && len(w) == 1:
			r.fresh()
			return "ok"
		case w[0] == "reset" && len(w) == 3: // reset <type2> <ramsize2>: another MBC3 variant / declared RAM size
			r.m = newMapper(rtcImageOf(uint8(unhex(w[1])), uint8(unhex(w[2]))))
			r.m.Write(0x0000, 0x0a)
			return "ok"
		case w[0] == "set" && len(w) == 8:
			r.m.VerifRTCSet(memory.VerifRTC{S: uint8(atoi(w[1])), M: uint8(atoi(w[2])), H: uint8(atoi(w[3])),
				D: uint16(atoi(w[4])), Carry: atoi(w[5]) != 0, Halt: atoi(w[6]) != 0, Ticks: atoi(w[7])})
			return r.get()
		case w[0] == "tick" && len(w) == 2:
			n := atoi(w[1])
			for i := 0; i < n; i++ {
				r.m.VerifRTCTick()
			}
			return r.get()
		case w[0] == "inc" && len(w) == 1:
			r.m.VerifRTCIncrement()
			return r.get()
		case w[0] == "get" && len(w) == 1:
			return r.get()
		case w[0] == "w" && len(w) == 3:
			r.m.Write(uint16(unhex(w[1])), uint8(unhex(w[2])))
			return "ok"
		case w[0] == "r" && len(w) == 2:
			return hx2(r.m.Read(uint16(unhex(w[1]))))
		}
		return "bad-op"
	})
	r.c.emit(op, out)
	return out
}

func rtcReplay(c *ctx, ops []string) {
	r := &rtcRun{c: c}
	r.fresh()
	for _, op := range ops {
		r.do(op)
	}
}

func (r *rtcRun) set(s, m, h, d, carry, halt, ticks int) {
	r.do(fmt.Sprintf("set %d %d %d %d %d %d %d", s, m, h, d, carry, halt, ticks))
}

// readAll latches (0 then 1) and reads the five clock registers and the three unmapped selections.
func (r *rtcRun) readRegs(tag string) {
	sig := ""
	for sel := 0x08; sel <= 0x0f; sel++ {
		r.do(fmt.Sprintf("w 4000 %02x", sel))
		sig += r.do("r a000")
	}
	r.c.class(tag + "/" + sig)
}

func rtcGen(c *ctx) {
	r := &rtcRun{c: c}
	r.do("reset")
	const P = 1048576
	// Part 0: the clock registers are reachable whatever RAM the header declares (0, 1, 4, 16, 8 banks) and on both
	// TIMER cartridge types
	for _, v := range [][2]int{{0x10, 0}, {0x10, 2}, {0x10, 3}, {0x10, 4}, {0x10, 5}, {0x0f, 0}, {0x0f, 3}, {0x0f, 4}} {
		r.do(fmt.Sprintf("reset %02x %02x", v[0], v[1]))
		r.set(10, 20, 5, 300, 0, 0, 77)
		r.do("w 6000 00")
		r.do("w 6000 01")
		for sel := 0x08; sel <= 0x0c; sel++ {
			r.do(fmt.Sprintf("w 4000 %02x", sel))
			r.do("r a000")
			r.do(fmt.Sprintf("w a123 %02x", 1+c.rng.intn(23)))
			r.do("get")
			r.do("w 6000 00")
			r.do("w 6000 01")
			r.do("r bfff")
		}
		for _, b := range []int{0, 1, 3, 7} {
			r.do(fmt.Sprintf("w 4000 %02x", b))
			r.do("w a000 5a")
			r.do("r a000")
		}
		c.class(fmt.Sprintf("variant/%02x/%02x", v[0], v[1]))
	}
	r.do("reset")
	// Part 1: the carry chain, one increment from every boundary: each field over its whole register
	// width (and a few values beyond it, which only the hook can place) with the lower fields at their
	// carry point and the upper fields at boundary values.
	incs := 0
	step := func(s, m, h, d, carry int) {
		if incs%8 == 0 {
			r.do("reset") // keep replays short: the shrinker cuts at the last reset
		}
		r.set(s, m, h, d, carry, 0, 5)
		out := r.do("inc")
		incs++
		c.class(fmt.Sprintf("inc/%d/%d/%d/%d/%d->%s", s, m, h, d, carry, out))
	}
	hi := []int{0, 1, 22, 23, 24, 30, 31}
	mi := []int{0, 1, 58, 59, 60, 62, 63}
	di := []int{0, 1, 254, 255, 256, 257, 510, 511}
	for s := 0; s < 70; s++ {
		for _, m := range mi {
			for _, h := range hi {
				for _, d := range di {
					if !c.thorough() && (m+h+d)%3 != 0 && s != 59 {
						continue
					}
					step(s, m, h, d, (s+m+h+d)&1)
				}
			}
		}
	}
	for m := 0; m < 70; m++ {
		for _, h := range hi {
			for _, d := range di {
				step(59, m, h, d, (m+h)&1)
			}
		}
	}
	for h := 0; h < 40; h++ {
		for _, d := range di {
			step(59, 59, h, d, h&1)
		}
	}
	for d := 0; d < 520; d++ {
		step(59, 59, 23, d, d&1)
		step(59, 59, 23, d, 1-d&1)
	}
	for _, v := range []int{64, 127, 128, 200, 254, 255} {
		step(v, 59, 23, 511, 0)
		step(59, v, 23, 511, 0)
		step(59, 59, v, 511, 0)
	}
	for _, d := range []int{512, 513, 1023, 1024, 65534, 65535} {
		step(59, 59, 23, d, 0)
		step(0, 0, 0, d, 0)
	}
	c.notes["single_increments"] = incs

	// Part 2: the time base: sub-second count placed around the 1048576 boundary, running and halted.
	for _, t0 := range []int{0, 1, P - 70, P - 3, P - 2, P - 1} {
		for _, n := range []int{0, 1, 2, 3, 5, 64, 69, 70, 71} {
			for halt := 0; halt < 2; halt++ {
				r.do("reset")
				r.set(59, 59, 23, 511, 0, halt, t0)
				out := r.do(fmt.Sprintf("tick %d", n))
				c.class(fmt.Sprintf("tick/%d/%d/%d->%s", t0, n, halt, out))
			}
		}
	}
	for _, t0 := range []int{P, P + 1, 2 * P} { // values only the hook can place: no wrap until equality
		r.set(1, 2, 3, 4, 0, 0, t0)
		r.do("tick 3")
	}
	full := 1
	if c.thorough() {
		full = 5
	}
	for k := 0; k < full; k++ { // whole seconds, cycle by cycle in the real code
		r.do("reset")
		r.set(58+k%2, 59, 23, 511, 0, 0, k)
		r.do(fmt.Sprintf("tick %d", P-k-1))
		r.do("tick 1")
		r.do(fmt.Sprintf("tick %d", 2*P))
	}

	// Part 3: latch protocol and register writes, structured.
	for _, seq := range [][]int{{0, 1}, {1}, {1, 1}, {0, 0, 1}, {0, 1, 1}, {1, 0, 1}, {0xfe, 0xff}, {0xff, 0xfe}, {2, 3}, {0}} {
		r.do("reset")
		r.set(12, 34, 5, 300, 1, 0, 7)
		for _, v := range seq {
			r.do(fmt.Sprintf("w 6000 %02x", v))
			r.readRegs(fmt.Sprintf("latch%v", seq))
		}
		r.set(13, 35, 6, 301, 0, 0, 7)
		r.readRegs("after-set")
		r.do("w 7fff 01")
		r.readRegs("after-high")
	}
	for sel := 0x08; sel <= 0x0f; sel++ {
		for v := 0; v < 256; v++ {
			if !c.thorough() && sel >= 0x0d && v%16 != 0 {
				continue
			}
			if v%8 == 0 {
				r.do("reset")
			}
			r.set(1, 2, 3, 0x155, v&1, 0, 99)
			r.do(fmt.Sprintf("w 4000 %02x", sel))
			r.do(fmt.Sprintf("w a000 %02x", v))
			out := r.do("get")
			c.class(fmt.Sprintf("wr/%02x/%02x->%s", sel, v, out))
			r.do("w 6000 00")
			r.do("w 6000 01")
			r.do("r bfff")
		}
	}
	// disabled RAM: clock registers neither readable nor writable
	r.do("reset")
	r.do("w 4000 08")
	r.do("w 0000 00")
	r.do("w a000 2a")
	r.do("get")
	r.do("r a000")
	r.do("w 0000 0a")
	r.do("r a000")

	// Part 4: seeded random histories of latch / select / read / write / halt / elapsed time, with the
	// sub-second count placed near the boundary.
	nh, steps := 2000, 40
	if c.thorough() {
		nh, steps = 20000, 60
	}
	for i := 0; i < nh; i++ {
		r.do("reset")
		r.set(c.rng.pick([]int{0, 30, 58, 59, 60, 63}), c.rng.pick([]int{0, 58, 59, 60, 63}), c.rng.pick([]int{0, 22, 23, 24, 31}),
			c.rng.pick([]int{0, 255, 256, 510, 511}), c.rng.intn(2), c.rng.intn(2), P-1-c.rng.intn(50))
		n := 5 + c.rng.intn(steps)
		for j := 0; j < n; j++ {
			switch k := c.rng.intn(20); {
			case k < 4:
				r.do(fmt.Sprintf("w %04x %02x", 0x6000+c.rng.intn(0x2000), c.rng.pick([]int{0, 1, 0, 1, 2, 3, 0xfe, 0xff, int(c.rng.byte())})))
			case k < 7:
				r.do(fmt.Sprintf("w %04x %02x", 0x4000+c.rng.intn(0x2000), c.rng.pick([]int{8, 9, 10, 11, 12, 12, 13, 15, 0, 3, 0x18, int(c.rng.byte())})))
			case k < 11:
				out := r.do(fmt.Sprintf("r %04x", 0xa000+c.rng.intn(0x2000)))
				c.class("rd/" + out)
			case k < 14:
				r.do(fmt.Sprintf("w %04x %02x", 0xa000+c.rng.intn(0x2000), c.rng.pick([]int{0, 59, 60, 63, 0x40, 0x80, 0xc1, 0xff, int(c.rng.byte()), int(c.rng.byte())})))
			case k < 15:
				r.do(fmt.Sprintf("w 0000 %02x", c.rng.pick([]int{0x0a, 0x0a, 0x00, 0x1a})))
			case k < 18:
				r.do(fmt.Sprintf("tick %d", 1+c.rng.intn(40)))
			case k < 19:
				r.set(59, 59, 23, c.rng.pick([]int{255, 511}), c.rng.intn(2), c.rng.intn(2), P-1-c.rng.intn(30))
			default:
				r.do("get")
			}
		}
		r.do("w 6000 00")
		r.do("w 6000 01")
		r.readRegs("final")
		r.do("get")
	}
	c.notes["random_histories"] = nh
	c.notes["input_distribution"] = "single increments: s 0-69 x m/h/d boundary sets, m 0-69, h 0-39, d 0-519 at the carry point, hook-only " +
		"values up to 255/65535; ticks around the 1048576 boundary running and halted, whole seconds cycle by cycle; every value to " +
		"every clock register; latch sequences; random histories: 20% latch writes, 15% selects, 20% reads, 15% register writes, " +
		"15% elapsed time (1-40 cycles near the boundary), 5% enable/disable, 5% re-placement, 5% get"
}
