package main

import (
	"fmt"
	"strings"

	"github.com/scottyw/tetromino/gameboy/interrupts"
	"github.com/scottyw/tetromino/gameboy/oam"
	"github.com/scottyw/tetromino/gameboy/ppu"
)

// mode lcd: ppu.PPU (with real interrupts.Interrupts and oam.OAM) through its public API.
// ops:  reset | t (EndMachineCycle) | lcdc <hex2> | stat <hex2> | lyc <hex2> | ly <hex2>
// out:  "<ReadLY> <ReadSTAT&3> <IF&0x1f> ; <ReadSTAT> <ReadLCDC> <oam corrupt>"
//
//	IF is read after the op and then cleared, so it shows the requests raised by this op only.
func init() { modes["lcd"] = modeFn{gen: lcdGen, replay: lcdReplay} }

type lcdRun struct {
	c *ctx
	i *interrupts.Interrupts
	o *oam.OAM
	p *ppu.PPU

	// bookkeeping for the coverage classes only (never used to form the output)
	on      bool
	since   int // machine cycles since switch-on
	statEn  int
	prevLY  uint8
	prevMod uint8
	toggles int
}

func (l *lcdRun) fresh() {
	l.i = interrupts.New()
	l.o = oam.New()
	l.p = ppu.New(l.i, l.o, false)
	l.i.WriteIF(0) // interrupts.New starts with the VBlank request set
	l.on, l.since, l.statEn = true, 0, 0
	l.prevLY, l.prevMod = 0, 2
}

func (l *lcdRun) lineClass(ly uint8) string {
	switch {
	case !l.on:
		return "off"
	case l.since <= 112:
		return "first"
	case ly == 0:
		return "0"
	case ly < 143:
		return "1-142"
	case ly == 143:
		return "143"
	case ly == 144:
		return "144"
	case ly < 153:
		return "145-152"
	default:
		return "153"
	}
}

func (l *lcdRun) do(op string) string {
	w := strings.Fields(op)
	var ly, stat uint8
	var ifr uint8
	out := guard(func() string {
		switch w[0] {
		case "reset":
			l.fresh()
		case "t":
			l.p.EndMachineCycle()
			if l.on {
				l.since++
			}
		case "lcdc":
			v := uint8(unhex(w[1]))
			l.p.WriteLCDC(v)
			if (v&0x80 != 0) != l.on {
				l.on = v&0x80 != 0
				l.since = 0
				l.toggles++
			}
		case "stat":
			v := uint8(unhex(w[1]))
			l.p.WriteSTAT(v)
			l.statEn = int(v>>3) & 0xf
		case "lyc":
			l.p.WriteLYC(uint8(unhex(w[1])))
		case "ly":
			l.p.WriteLY(uint8(unhex(w[1])))
		case "scx":
			l.p.WriteSCX(uint8(unhex(w[1]))) // scrolling must not influence line/mode timing or requests
		case "long":
			// a FRESH PPU left on for n machine cycles, every cycle compared with the closed form of the specification
			// (theorem c13_refines: the model equals it for every n; c14_vblank_once: VBlank iff k % 17556 = 16415)
			n := atoi(w[1])
			i := interrupts.New()
			o := oam.New()
			p := ppu.New(i, o, false)
			i.WriteIF(0)
			mism, first := 0, "-"
			var ly, mode uint8
			for k := 1; k <= n; k++ {
				p.EndMachineCycle()
				ph := k + 1
				if k <= 62 {
					ph = k - 1
				}
				ph %= 17556
				wl := uint8(ph / 114)
				wm := uint8(0)
				switch {
				case ph/114 >= 144:
					wm = 1
				case ph%114 < 20:
					wm = 2
				case ph%114 < 61:
					wm = 3
				}
				wv := k%17556 == 16415
				ly, mode = p.ReadLY(), p.ReadSTAT()&3
				f := i.ReadIF() & 0x1f
				if f != 0 {
					i.WriteIF(0)
				}
				if ly != wl || mode != wm || (f&1 != 0) != wv || f&0x1e != 0 {
					mism++
					if first == "-" {
						first = fmt.Sprintf("%d:ly=%02x/%d,if=%x,expected=%02x/%d,vblank=%v", k, ly, mode, f, wl, wm, wv)
					}
				}
			}
			l.fresh()
			return fmt.Sprintf("mismatches=%d first=%s end=%02x/%d", mism, first, ly, mode)
		case "sprites":
			// OAM filled with objects (Y spread over the screen, many per line): the number of objects on a line
			// must not influence line/mode timing or requests either (the documented schedule is fixed)
			g := rng{s: uint64(unhex(w[1]))}
			var o [0xa0]uint8
			band := 16 + g.intn(140)
			for i := 0; i < 40; i++ {
				y := 16 + g.intn(144)
				if i%2 == 0 {
					y = band + g.intn(8)
				}
				o[4*i], o[4*i+1], o[4*i+2], o[4*i+3] = uint8(y), uint8(8+g.intn(160)), g.byte(), g.byte()
			}
			l.o.VerifSetOAM(o)
		default:
			return "bad-op"
		}
		ly = l.p.ReadLY()
		stat = l.p.ReadSTAT()
		ifr = l.i.ReadIF() & 0x1f
		l.i.WriteIF(0)
		return fmt.Sprintf("%02x %d %x ; %02x %02x %s", ly, stat&3, ifr, stat, l.p.ReadLCDC(),
			b01(l.o.VerifGet().Corrupt))
	})
	l.c.emit(op, out)
	if out != "crash" && out != "bad-op" {
		mode := stat & 3
		// a case is non-trivial if the op changed LY or the mode, raised a request, or is a
		// register write (their effect on later cycles is what the schedules probe)
		if ly != l.prevLY || mode != l.prevMod || ifr != 0 || w[0] != "t" {
			l.c.class(fmt.Sprintf("%s/%s/m%d>%d/en%x/if%x", w[0], l.lineClass(ly), l.prevMod, mode, l.statEn, ifr))
		}
		l.prevLY, l.prevMod = ly, mode
	} else {
		l.c.class("crash/" + w[0])
	}
	return out
}

func (l *lcdRun) ticks(n int) {
	for k := 0; k < n; k++ {
		l.do("t")
	}
}

func lcdReplay(c *ctx, ops []string) {
	l := &lcdRun{c: c}
	l.fresh()
	for _, op := range ops {
		l.do(op)
	}
}

const lcdFrame = 17556

// one run from switch-on with constant STAT enables and constant LYC
func (l *lcdRun) steady(stat, lyc, cycles int) {
	l.do("reset")
	l.do("lcdc 11")
	l.do(fmt.Sprintf("stat %02x", stat))
	l.do(fmt.Sprintf("lyc %02x", lyc))
	l.do("lcdc 91")
	l.ticks(cycles)
}

func lcdGen(c *ctx) {
	l := &lcdRun{c: c}
	l.fresh()
	frames := 3
	if c.thorough() {
		frames = 10
	}
	span := frames*lcdFrame + 130
	steadyRuns := 0

	// Part 0: one long uninterrupted on-period (more than 65 536 cycles: no counter narrower than the frame
	// arithmetic survives it) and SCX rewritten around the end of mode 3 of a line (scrolling must not move any
	// mode boundary or request)
	l.steady(0x78, 0x90, 5*lcdFrame+200)
	// register writes placed on each of the critical cycles of a frame (switch-on, end of the first mode 2 / mode 3,
	// first line end, start of line 144, frame wrap) - one case per (cycle, register)
	for _, base := range []int{0, 18, 59, 110, 16412, 17552} {
		for d := 0; d < 6; d++ {
			for _, wr := range []string{"ly 00", "ly 90", "lyc 90", "lyc 00", "stat 78", "lcdc 93"} {
				l.do("reset")
				l.do("stat 48")
				l.ticks(base + d)
				l.do(wr)
				l.ticks(260)
			}
		}
	}
	// a very long on-period (more than 256 frames; thorough: more than 2^32 cycles): counters of any width wrap
	if c.thorough() {
		l.do(fmt.Sprintf("long %d", (1<<32)+3*lcdFrame+77))
	} else {
		l.do(fmt.Sprintf("long %d", 300*lcdFrame+77))
	}
	for k := 0; k < 3; k++ { // objects on many lines, objects enabled (LCDC.1): the same schedule
		l.do("reset")
		l.do(fmt.Sprintf("sprites %x", c.rng.intn(1<<30)))
		l.do("lcdc 13")
		l.do("stat 38")
		l.do([]string{"lcdc 93", "lcdc 97", "lcdc b3"}[k])
		l.ticks(lcdFrame + 2000)
	}
	for _, ln := range []int{3, 143} {
		for cyc := 56; cyc < 70; cyc++ {
			l.do("reset")
			l.do("lcdc 11")
			l.do("stat 38")
			l.do("lcdc 91")
			l.ticks(ln*114 - 2 + 5)
			l.do("scx 07")
			l.ticks(cyc - 5)
			l.do("scx 00")
			l.ticks(400)
			if ln == 143 {
				l.ticks(1400)
			}
		}
	}

	// Part 1: each single STAT source (and none / all four) with constant LYC, whole frames.
	lycSpecial := []int{0, 1, 143, 144, 153, 154, 200, 255}
	var lycList []int
	if c.thorough() {
		// every LYC byte for two frames (the first, shortened, frame and a steady one) ...
		for v := 0; v < 256; v++ {
			l.steady(0x40, v, 2*lcdFrame+130)
			steadyRuns++
		}
		lycList = lycSpecial // ... and the boundary values for the long span
		c.notes["lyc_values_all"] = "0..255 x 2 frames"
	} else {
		// every in-range LYC and three out-of-range ones for one frame plus the wrap into the next ...
		for v := 0; v < 157; v++ {
			lyc := v
			if v >= 154 {
				lyc = []int{154, 200, 255}[v-154]
			}
			l.steady(0x40, lyc, lcdFrame+300)
			steadyRuns++
		}
		lycList = append([]int{}, lycSpecial...) // ... and boundary + random values for the long span
		for k := 0; k < 3; k++ {
			lycList = append(lycList, 2+c.rng.intn(141))
		}
		c.notes["lyc_values_all"] = "0..153,154,200,255 x (1 frame + 300 cycles)"
	}
	for _, v := range lycList {
		l.steady(0x40, v, span)
		steadyRuns++
	}
	for _, s := range []int{0x08, 0x10, 0x20} {
		n := 1
		if c.thorough() {
			n = 4
		}
		for k := 0; k < n; k++ {
			l.steady(s, c.rng.intn(256), span)
			steadyRuns++
		}
	}
	l.steady(0x00, 0x90, lcdFrame+130) // no source
	l.steady(0x78, 0x00, lcdFrame+130) // all four sources
	l.steady(0x78, c.rng.intn(154), 2*lcdFrame+130)
	steadyRuns += 3
	c.notes["steady_runs"] = steadyRuns
	c.notes["steady_span_cycles"] = span
	c.notes["lyc_values_long_span"] = lycList

	// Part 2: LCD switched off and on again at EVERY cycle of the first line, of line 1, of the
	// line 143/144 boundary and of the frame wrap (also the C17 window: corrupt flag in the
	// internal part), with an LYC=0 / OAM / HBlank mix enabled.
	starts := []int{0, 113, 113 + 142*114, 113 + 152*114}
	offs := 0
	for _, st := range starts {
		for x := 0; x <= 116; x++ {
			if !c.thorough() && st > 113 && x%12 != 0 {
				continue
			}
			l.do("reset")
			l.do("stat 68")
			l.ticks(st + x)
			l.do("lcdc 11")
			l.ticks(2)
			l.do("lcdc 91")
			l.ticks(120)
			offs++
		}
	}
	c.notes["systematic_off_on_points"] = offs

	// Part 3: seeded random schedules: on/off switches at arbitrary cycles, STAT/LYC/LY writes.
	scheds, budget := 200, 2600
	if c.thorough() {
		scheds, budget = 2500, 3200
	}
	burst := []int{1, 1, 2, 3, 5, 19, 20, 21, 41, 60, 61, 62, 63, 112, 113, 114, 115, 228}
	for s := 0; s < scheds; s++ {
		l.do("reset")
		if s%2 == 1 {
			l.do(fmt.Sprintf("sprites %x", c.rng.intn(1<<30)))
		}
		used := 0
		if c.rng.chance(16) { // start somewhere late in the frame
			n := c.rng.pick([]int{16300, 16415, 17440, 17554}) + c.rng.intn(4) - 2
			if c.rng.chance(50) {
				n = c.rng.intn(lcdFrame)
			}
			l.do(fmt.Sprintf("stat %02x", c.rng.intn(16)<<3))
			l.ticks(n)
		}
		for used < budget {
			r := c.rng.intn(100)
			switch {
			case r < 55:
				n := c.rng.pick(burst)
				if c.rng.chance(10) {
					n = c.rng.intn(700)
				}
				l.ticks(n)
				used += n
			case r < 70:
				v := int(c.rng.byte())
				if c.rng.chance(60) { // toggle the LCD
					if l.on {
						v &= 0x7f
					} else {
						v |= 0x80
					}
				}
				l.do(fmt.Sprintf("lcdc %02x", v))
			case r < 82:
				v := int(c.rng.byte())
				if c.rng.chance(50) {
					v = (1 << uint(3+c.rng.intn(4))) | (v & 0x87)
				}
				l.do(fmt.Sprintf("stat %02x", v))
			case r < 94:
				v := int(c.rng.byte())
				if c.rng.chance(60) { // near the current line
					v = (int(l.prevLY) + c.rng.intn(3)) % 256
				}
				l.do(fmt.Sprintf("lyc %02x", v))
			default:
				l.do(fmt.Sprintf("ly %02x", c.rng.byte()))
			}
			used++
		}
	}
	c.notes["random_schedules"] = scheds
	c.notes["lcd_toggles_total"] = l.toggles
}
