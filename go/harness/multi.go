package main

import (
	"bytes"
	"context"
	"fmt"
	"hash/fnv"
	"os"
	"os/exec"
	"path/filepath"
	"sort"
	"strings"
	"sync"
	"time"

	"github.com/scottyw/tetromino/gameboy"
	"github.com/scottyw/tetromino/gameboy/controller"
)

// mode multi: whole emulator instances (gameboy.New) — determinism (C24), independence of instances in one
// process (C25) and the frame loop / Run (C26).  The "model" of this mode is the theorem itself: an instance's
// outputs are a function of (ROM, config, input schedule, frames) only, so every `again`, `sub`, `pair`,
// `conc`, `manual` observation must equal the digest recorded by the first solo run (`expect`).
//
// ops:  expect <id> <frames> <digest>      first solo run of configuration <id> (digest measured by the harness)
//
//	again <id> <frames>                same configuration again in this process          -> digest
//	sub <id> <frames>                  same configuration in a fresh process             -> digest
//	pair <idA> <idB> <frames> <sched>  two instances created A,B (or B,A) and stepped interleaved -> dA dB
//	conc <idA> <idB> <frames>          two instances run concurrently in goroutines      -> dA dB
//	manual <id> <frames>               17556 x (cpu, ppu, mapper, audio, timer->IF) by hand instead of runFrame -> digest
//	runclose <id> <k>                  Run() with a display that asks to close after k frames -> frames cleanups
//	runcancel <id> <ms>                Run() cancelled after <ms> milliseconds           -> extra-frames<=1 cleanups
func init() { modes["multi"] = modeFn{gen: multiGen, replay: multiReplay} }

type mconf struct {
	id    string
	rom   string // file path
	seed  uint64 // button schedule seed
	audio bool
	video bool // a display attached (the stub of the verif build): runFrame renders and polls it
	dbg   bool // Config.DebugLCD
}

var mconfs = map[string]mconf{}

func romDir() string {
	r := os.Getenv("VERIF_REPO")
	if r == "" {
		r = "/repo"
	}
	return filepath.Join(r, "gameboy", "testdata")
}

// buttons pressed at the start of frame f for schedule seed s (pure function)
func buttonEvents(s uint64, f int) (controller.Button, bool, bool) {
	r := rng{s: s*0x9e3779b97f4a7c15 + uint64(f)*0x2545f4914f6cdd1d}
	v := r.next()
	if v%3 != 0 {
		return 0, false, false
	}
	return controller.Button((v >> 8) % 8), (v>>16)%2 == 0, true
}

type inst struct {
	gb     *gameboy.Gameboy
	conf   mconf
	serial *bytes.Buffer
	frame  int
	exited bool
	h      uint64 // running digest of per-frame observations
	core   uint64 // the same without the audio samples (must not depend on which outputs are attached)
	state  uint64 // ... and without the pixels (Config.DebugLCD changes the picture by design: 256x256, tinted)
	writer func(p []byte) (int, error)
}

func newInst(c mconf) *inst { return newInstW(c, nil) }

// slow: if non-nil it is called with the number of serial bytes delivered so far, before each delivery
func newInstW(c mconf, slow func(n int)) *inst {
	w := &bytes.Buffer{}
	in := &inst{conf: c, serial: w, h: 1469598103934665603, core: 1469598103934665603, state: 1469598103934665603}
	var sw interface {
		Write(p []byte) (int, error)
	} = w
	if slow != nil {
		sw = writerFunc(func(p []byte) (int, error) {
			slow(w.Len())
			return w.Write(p)
		})
	}
	in.gb = gameboy.New(gameboy.Config{RomFilename: c.rom, DisableVideoOutput: !c.video, DisableAudioOutput: !c.audio, SerialWriter: sw,
		DebugLCD: c.dbg})
	return in
}

func mix1(acc uint64, b []byte) uint64 {
	h := fnv.New64a()
	var seed [8]byte
	for i := 0; i < 8; i++ {
		seed[i] = byte(acc >> (8 * uint(i)))
	}
	h.Write(seed[:])
	h.Write(b)
	return h.Sum64()
}

func (in *inst) mix(b []byte) {
	in.h, in.core, in.state = mix1(in.h, b), mix1(in.core, b), mix1(in.state, b)
}
func (in *inst) mixAudio(b []byte) { in.h = mix1(in.h, b) }
func (in *inst) mixPix(b []byte)   { in.h, in.core = mix1(in.h, b), mix1(in.core, b) }

// would the next machine cycle execute one of the 11 undefined opcodes (os.Exit in the real code)?
func (in *inst) aboutToExit() bool {
	p := in.gb.VerifParts()
	s := p.CPU.VerifGet()
	if !p.CPU.VerifAtBoundary() || s.Halted || s.Stopped {
		return false
	}
	pend := p.Interrupts.ReadIF()&p.Interrupts.ReadIE()&0x1f != 0
	if pend && p.Interrupts.Enabled() {
		return false
	}
	op := p.Mapper.Read(s.PC)
	u, ok := undefinedOpcodes[op]
	return ok && u
}

// one frame by hand: the documented frame loop, with the exit prediction
func (in *inst) manualFrame() {
	p := in.gb.VerifParts()
	for k := 0; k < 17556 && !in.exited; k++ {
		if in.aboutToExit() {
			in.exited = true
			in.mix([]byte(fmt.Sprintf("exit@%d.%d", in.frame, k)))
			return
		}
		p.CPU.ExecuteMachineCycle()
		p.PPU.EndMachineCycle()
		p.Mapper.EndMachineCycle()
		p.Audio.EndMachineCycle()
		if p.Timer.EndMachineCycle() {
			p.Interrupts.RequestTimer()
		}
	}
}

func (in *inst) stepFrame(useRunFrame bool) {
	if in.exited {
		return
	}
	if b, pressed, ok := buttonEvents(in.conf.seed, in.frame); ok {
		in.gb.VerifParts().Controller.ButtonAction(b, pressed)
	}
	if useRunFrame {
		in.gb.VerifRunFrame(context.Background())
	} else {
		in.manualFrame()
	}
	in.observeFrame()
}

// per-frame observations folded into the digest: frame pixels, audio samples, CPU state, IF/IE
func (in *inst) observeFrame() {
	in.frame++
	p := in.gb.VerifParts()
	in.mixPix(p.PPU.Frame().Pix)
	if p.Speakers != nil {
		var buf bytes.Buffer
		drain := func(ch chan float32, tag byte) {
			n := len(ch)
			for i := 0; i < n; i++ {
				v := <-ch
				fmt.Fprintf(&buf, "%c%08x", tag, int32(v*19200*16))
			}
		}
		drain(p.Speakers.Left(), 'l')
		drain(p.Speakers.Right(), 'r')
		in.mixAudio(buf.Bytes())
	}
	s := p.CPU.VerifGet()
	in.mix([]byte(fmt.Sprintf("%v|%02x%02x", s, p.Interrupts.ReadIF(), p.Interrupts.ReadIE())))
}

// digestCore: everything but the audio samples; digestState: also without the pixels
func (in *inst) digestCore() string {
	in2 := *in
	in2.h = in.core
	return in2.digest()
}
func (in *inst) digestState() string {
	in2 := *in
	in2.h = in.state
	return in2.digest()
}

func (in *inst) digest() string {
	p := in.gb.VerifParts()
	in2 := *in
	in2.mix(in.serial.Bytes())
	in2.mix(p.Mapper.DumpRAM())
	in2.mix([]byte(fmt.Sprintf("%v", p.Mapper.VerifRTCGet()))) // the cartridge clock (ticked by the frame loop for every cartridge)
	// registers visible on the bus (reads are side-effect free except for the OAM-bug flag, which is cleared at the next cycle)
	var regs []byte
	for a := 0xff00; a <= 0xffff; a++ {
		regs = append(regs, p.Mapper.Read(uint16(a)))
	}
	for a := 0xc000; a < 0xe000; a += 7 {
		regs = append(regs, p.Mapper.Read(uint16(a)))
	}
	in2.mix(regs)
	return fmt.Sprintf("%016x", in2.h)
}

func soloDigest(c mconf, frames int, manual bool) string {
	in := newInst(c)
	for f := 0; f < frames; f++ {
		in.stepFrame(!manual && !c.synthetic())
	}
	return in.digest()
}

// synthetic ROMs may run into undefined opcodes, so they are always stepped by hand (with exit prediction)
func (c mconf) synthetic() bool { return strings.Contains(c.rom, "verif-synth") }

type multiRun struct{ c *ctx }

type writerFunc func(p []byte) (int, error)

func (f writerFunc) Write(p []byte) (int, error) { return f(p) }

func (x *multiRun) do(op string) string {
	w := strings.Fields(op)
	x.c.begin(op)
	out := guard(func() string {
		// an op that names a configuration which was never declared (a shrunk replay may have lost its `rom` line)
		idArgs := map[string][]int{"again": {1}, "manual": {1}, "sub": {1}, "pair": {1, 2}, "conc": {1, 2}, "runclose": {1}, "runcancel": {1},
			"rundeadline": {1}, "runcancelw": {1}, "tphase": {1}, "after": {1, 3}, "serlong": {1}, "serconc": {1, 2}, "cfgs": {1}, "slowwriter": {1}}
		for _, k := range idArgs[w[0]] {
			if k >= len(w) {
				return "bad-op"
			}
			if _, ok := mconfs[w[k]]; !ok {
				return "no-config"
			}
		}
		switch w[0] {
		case "reset":
			mconfs = map[string]mconf{}
			return "ok"
		case "rom": // rom <id> <path-or-synth:seed> <button-seed> <audio>
			c := mconf{id: w[1], rom: w[2], seed: uint64(atoi(w[3])), audio: w[4] == "1", video: len(w) > 5 && w[5] == "1"}
			if strings.HasPrefix(w[2], "synth:") {
				c.rom = synthRom(uint64(atoi(strings.TrimPrefix(w[2], "synth:"))))
			} else if strings.HasSuffix(w[2], ":") && craftedRoms[w[2]] != nil {
				c.rom = craftedRom(w[2])
			} else {
				c.rom = filepath.Join(romDir(), w[2])
			}
			mconfs[c.id] = c
			return "ok"
		case "expect":
			return "ok"
		case "again":
			return soloDigest(mconfs[w[1]], atoi(w[2]), false)
		case "manual":
			return soloDigest(mconfs[w[1]], atoi(w[2]), true)
		case "sub":
			c := mconfs[w[1]]
			aud := "0"
			if c.audio {
				aud = "1"
			}
			cmd := exec.Command(os.Args[0], "multi-solo", c.rom, fmt.Sprint(c.seed), aud, w[2])
			cmd.Env = os.Environ()
			o, err := cmd.Output()
			if err != nil {
				return "subprocess-failed"
			}
			return strings.TrimSpace(string(o))
		case "pair":
			ca, cb := mconfs[w[1]], mconfs[w[2]]
			frames := atoi(w[3])
			var a, b *inst
			if strings.HasPrefix(w[4], "ba") {
				b = newInst(cb)
				a = newInst(ca)
			} else {
				a = newInst(ca)
				b = newInst(cb)
			}
			// interleave at machine-cycle granularity for the first frames, then frame by frame
			for f := 0; f < frames; f++ {
				if strings.HasSuffix(w[4], "fine") && f < 2 {
					interleaveFrame(a, b)
				} else {
					a.stepFrame(!ca.synthetic())
					b.stepFrame(!cb.synthetic())
				}
			}
			return a.digest() + " " + b.digest()
		case "conc":
			ca, cb := mconfs[w[1]], mconfs[w[2]]
			frames := atoi(w[3])
			var wg sync.WaitGroup
			res := make([]string, 2)
			for k, c := range []mconf{ca, cb} {
				wg.Add(1)
				go func(k int, c mconf) {
					defer wg.Done()
					res[k] = guard(func() string { return soloDigest(c, frames, false) })
				}(k, c)
			}
			wg.Wait()
			return res[0] + " " + res[1]
		case "runclose":
			c := mconfs[w[1]]
			k := atoi(w[2])
			gb := gameboy.New(gameboy.Config{RomFilename: c.rom, DisableVideoOutput: false, DisableAudioOutput: !c.audio})
			p := gb.VerifParts()
			p.Display.CloseAfter = k
			gb.Run(context.Background())
			sc := -1
			if p.Speakers != nil {
				sc = p.Speakers.Cleanups
			}
			return fmt.Sprintf("frames=%d display-cleanups=%d speaker-cleanups=%d", p.Display.Frames, p.Display.Cleanups, sc)
		case "tphase": // tphase <id> <counter4> <tima2> <tac2> <frames>: the timer is put into a chosen phase before the
			// first frame; frames stepped by the real runFrame must equal frames stepped by the documented loop
			c := mconfs[w[1]]
			var ds [2]string
			for k := 0; k < 2; k++ {
				in := newInst(c)
				p := in.gb.VerifParts()
				p.Timer.WriteTAC(uint8(unhex(w[4])))
				p.Timer.WriteTMA(0)
				p.Timer.WriteTIMA(uint8(unhex(w[3])))
				p.Timer.VerifSetCounter(uint16(unhex(w[2])))
				p.Interrupts.WriteIF(0)
				for f := 0; f < atoi(w[5]); f++ {
					in.stepFrame(k == 0)
				}
				ds[k] = in.digest()
			}
			if ds[0] == ds[1] {
				return "same"
			}
			return "differ runFrame=" + ds[0] + " documented-loop=" + ds[1]
		case "after": // after <idA> <k> <idB> <frames>: A runs through Run() (closing after k frames, so Cleanup ran), THEN B
			ca, cb := mconfs[w[1]], mconfs[w[3]]
			gb := gameboy.New(gameboy.Config{RomFilename: ca.rom, DisableVideoOutput: false, DisableAudioOutput: !ca.audio})
			gb.VerifParts().Display.CloseAfter = atoi(w[2])
			gb.Run(context.Background())
			return soloDigest(cb, atoi(w[4]), false)
		case "serlong": // serlong <id> <frames>: the serial ROM through gameboy.New's writer: every byte, in order
			in := newInst(mconfs[w[1]])
			frames := atoi(w[2])
			for f := 0; f < frames; f++ {
				in.stepFrame(true)
			}
			b := in.serial.Bytes()
			inOrder := true
			for i, v := range b {
				if v != byte(i) {
					inOrder = false
					break
				}
			}
			want := 17556 * frames / 7
			return fmt.Sprintf("serial-complete=%s in-order=%s", b01(len(b) >= want-2 && len(b) <= want+2), b01(inOrder))
		case "cfgs": // cfgs <id> <frames>: the same ROM under every output configuration - the emulated machine must not notice
			c := mconfs[w[1]]
			base, baseState := "", ""
			for k := 0; k < 8; k++ {
				c2 := c
				c2.audio, c2.video, c2.dbg = k&1 != 0, k&2 != 0, k&4 != 0
				in := newInst(c2)
				for f := 0; f < atoi(w[2]); f++ {
					in.stepFrame(true)
				}
				d, want := in.digestCore(), base
				if c2.dbg { // the debug view is another picture by design: compare the machine state only
					d, want = in.digestState(), baseState
				}
				if k == 0 {
					base, baseState = d, in.digestState()
				} else if d != want {
					return fmt.Sprintf("differ audio=%d video=%d debuglcd=%d %s (headless: %s)", k&1, k>>1&1, k>>2&1, d, want)
				}
			}
			return "same"
		case "slowwriter": // slowwriter <id> <frames> <k> <ms>: the serial writer stalls <ms> ms before delivering byte k
			c := mconfs[w[1]]
			var ds [2]string
			for j := 0; j < 2; j++ {
				var slow func(n int)
				if j == 1 {
					k, ms, done := atoi(w[3]), atoi(w[4]), false
					slow = func(n int) {
						if n >= k && !done {
							done = true
							time.Sleep(time.Duration(ms) * time.Millisecond)
						}
					}
				}
				in := newInstW(c, slow)
				for f := 0; f < atoi(w[2]); f++ {
					in.stepFrame(true)
				}
				ds[j] = in.digest()
			}
			if ds[0] == ds[1] {
				return "same"
			}
			return "differ prompt-writer=" + ds[0] + " stalling-writer=" + ds[1]
		case "serconc": // serconc <idA> <idB>: instance A's writer is still inside Write when instance B writes SB
			ca, cb := mconfs[w[1]], mconfs[w[2]]
			aIn, bDone := make(chan struct{}), make(chan struct{})
			var gotA, gotB []byte
			var onceA, onceB sync.Once
			wa := writerFunc(func(p []byte) (int, error) {
				onceA.Do(func() {
					close(aIn)
					select {
					case <-bDone:
					case <-time.After(3 * time.Second):
					}
				})
				gotA = append(gotA, p...) // read AFTER the other instance has written
				return len(p), nil
			})
			wb := writerFunc(func(p []byte) (int, error) {
				gotB = append(gotB, p...)
				onceB.Do(func() { close(bDone) })
				return len(p), nil
			})
			ga := gameboy.New(gameboy.Config{RomFilename: ca.rom, DisableVideoOutput: true, DisableAudioOutput: true, SerialWriter: wa})
			gbb := gameboy.New(gameboy.Config{RomFilename: cb.rom, DisableVideoOutput: true, DisableAudioOutput: true, SerialWriter: wb})
			fin := make(chan struct{})
			go func() {
				ga.VerifRunFrame(context.Background())
				close(fin)
			}()
			select {
			case <-aIn:
			case <-time.After(3 * time.Second):
			}
			gbb.VerifRunFrame(context.Background())
			<-fin
			ok := func(b []byte, first byte) bool {
				for i, v := range b {
					if v != first+byte(i) {
						return false
					}
				}
				return len(b) > 100
			}
			return fmt.Sprintf("a-own-bytes=%s b-own-bytes=%s", b01(ok(gotA, 0x00)), b01(ok(gotB, 0x80)))
		case "runcancelw": // runcancelw <id> <ms>: Run() on the idle ROM cancelled after <ms> ms - whole frames only
			c := mconfs[w[1]]
			gb := gameboy.New(gameboy.Config{RomFilename: c.rom, DisableVideoOutput: false, DisableAudioOutput: true})
			p := gb.VerifParts()
			c0 := p.Timer.VerifCounter()
			ctx, cancel := context.WithCancel(context.Background())
			go func() {
				time.Sleep(time.Duration(atoi(w[2])) * time.Millisecond)
				cancel()
			}()
			gb.Run(ctx)
			// the idle ROM never writes DIV: the 16-bit counter advanced by 4 per machine cycle executed
			adv := (int(p.Timer.VerifCounter()) - int(c0) + 65536) % 65536
			whole := false
			for f := 0; f < 16384; f++ { // 4*17556 = 4688 (mod 65536) per whole frame
				if (f*4688)%65536 == adv {
					whole = true
					break
				}
			}
			return fmt.Sprintf("whole-frames=%s display-cleanups=%d", b01(whole), p.Display.Cleanups)
		case "rundeadline": // rundeadline <id> <ms>: the context ends by DEADLINE (0 = already expired), not by cancel()
			c := mconfs[w[1]]
			gb := gameboy.New(gameboy.Config{RomFilename: c.rom, DisableVideoOutput: false, DisableAudioOutput: true})
			p := gb.VerifParts()
			p.Display.CloseAfter = 3000 // safety stop for an implementation that ignores the deadline
			ms := atoi(w[2])
			ctx, cancel := context.WithDeadline(context.Background(), time.Now().Add(time.Duration(ms)*time.Millisecond))
			defer cancel()
			var atDone int
			done := make(chan struct{})
			go func() {
				<-ctx.Done()
				atDone = p.Display.Frames
				close(done)
			}()
			gb.Run(ctx)
			<-done
			extra := p.Display.Frames - atDone
			return fmt.Sprintf("extra-frames-le-1=%s display-cleanups=%d", b01(extra <= 1 && extra >= 0), p.Display.Cleanups)
		case "runcancel":
			c := mconfs[w[1]]
			gb := gameboy.New(gameboy.Config{RomFilename: c.rom, DisableVideoOutput: false, DisableAudioOutput: true})
			p := gb.VerifParts()
			ctx, cancel := context.WithCancel(context.Background())
			var atCancel int
			read := make(chan struct{})
			go func() {
				time.Sleep(time.Duration(atoi(w[2])) * time.Millisecond)
				// read AFTER cancel(): a frame that ends between a read and the cancel would be counted as a second
				// "further" frame although it was completed before the cancellation
				cancel()
				atCancel = p.Display.Frames
				close(read)
			}()
			gb.Run(ctx)
			<-read
			extra := p.Display.Frames - atCancel
			return fmt.Sprintf("extra-frames-le-1=%s display-cleanups=%d", b01(extra <= 1 && extra >= 0), p.Display.Cleanups)
		}
		return "bad-op"
	})
	x.c.finish(op, out)
	return out
}

// both instances advance one frame, alternating every machine cycle
func interleaveFrame(a, b *inst) {
	for _, in := range []*inst{a, b} {
		if bt, pressed, ok := buttonEvents(in.conf.seed, in.frame); ok && !in.exited {
			in.gb.VerifParts().Controller.ButtonAction(bt, pressed)
		}
	}
	pa, pb := a.gb.VerifParts(), b.gb.VerifParts()
	exitedBefore := map[*inst]bool{a: a.exited, b: b.exited}
	for k := 0; k < 17556; k++ {
		for _, x := range []struct {
			in *inst
			p  gameboy.VerifParts
		}{{a, pa}, {b, pb}} {
			if x.in.exited {
				continue
			}
			if x.in.aboutToExit() {
				x.in.exited = true
				x.in.mix([]byte(fmt.Sprintf("exit@%d.%d", x.in.frame, k)))
				continue
			}
			x.p.CPU.ExecuteMachineCycle()
			x.p.PPU.EndMachineCycle()
			x.p.Mapper.EndMachineCycle()
			x.p.Audio.EndMachineCycle()
			if x.p.Timer.EndMachineCycle() {
				x.p.Interrupts.RequestTimer()
			}
		}
	}
	for _, in := range []*inst{a, b} {
		if exitedBefore[in] {
			continue
		}
		in.observeFrame() // also for an instance that stopped during this frame, exactly as stepFrame does
	}
}

// a synthetic 32 KiB ROM-only image: every byte is a DEFINED opcode chosen pseudo-randomly
func synthRom(seed uint64) string {
	dir := filepath.Join(os.TempDir(), "verif-synth")
	if d := os.Getenv("VERIF_SYNTH_DIR"); d != "" {
		dir = filepath.Join(d, "verif-synth")
	}
	os.MkdirAll(dir, 0o755)
	p := filepath.Join(dir, fmt.Sprintf("verif-synth-%d.gb", seed))
	r := rng{s: seed*77 + 5}
	rom := make([]byte, 0x8000)
	for i := range rom {
		for {
			b := r.byte()
			if _, undef := undefinedOpcodes[b]; !undef && b != 0x10 {
				rom[i] = b
				break
			}
		}
	}
	rom[0x147], rom[0x148], rom[0x149] = 0, 0, 0
	os.WriteFile(p, rom, 0o644)
	return p
}

// small hand-written 32 KiB ROM-only images (code at the entry point 0100, handler bytes at 0040)
var craftedRoms = map[string][]byte{
	// spins on JR -2 (touches no register)
	"loop:": {0x18, 0xfe},
	// INC BC; JR -3: a 5-cycle loop, so frame boundaries fall inside instructions
	"loop5:": {0x03, 0x18, 0xfd},
	// waits a little, executes STOP with the LCD on, then would spin
	"stop:": {0x06, 0x40, 0x05, 0x20, 0xfd, 0x10, 0x00, 0x18, 0xfe},
	// IE = timer, TAC = 05 (fastest), EI, then STOP: an enabled request arrives while the CPU is stopped with IME set
	"stopirq:": {0x3e, 0x04, 0xe0, 0xff, 0x3e, 0x05, 0xe0, 0x07, 0xfb, 0x00, 0x10, 0x00, 0x18, 0xfe},
	// the same STOP program on an MBC3+TIMER cartridge (the clock must keep time) ...
	"stoprtc:": {0x06, 0x40, 0x05, 0x20, 0xfd, 0x10, 0x00, 0x18, 0xfe},
	// ... and with a square channel playing (samples must keep coming)
	"stopaudio:": {0x3e, 0x80, 0xe0, 0x26, 0x3e, 0x77, 0xe0, 0x24, 0x3e, 0xff, 0xe0, 0x25, 0x3e, 0xf0, 0xe0, 0x12, 0x3e, 0x87, 0xe0, 0x14,
		0x06, 0x40, 0x05, 0x20, 0xfd, 0x10, 0x00, 0x18, 0xfe},
	// a picture that changes every frame, scroll registers written and read back, a serial byte per iteration:
	// loop: INC B; LD A,B; LDH (47),A; LDH (43),A; LDH (42),A; LDH A,(43); LD C,A; LD A,B; LDH (01),A; delay; JR loop
	"picture:": {0x04, 0x78, 0xe0, 0x47, 0xe0, 0x43, 0xe0, 0x42, 0xf0, 0x43, 0x4f, 0x78, 0xe0, 0x01,
		0x16, 0xff, 0x15, 0x20, 0xfd, 0x16, 0xff, 0x15, 0x20, 0xfd, 0x18, 0xe6},
	// sound switched off for an odd number of cycles, on again, channel 1 with a length, NR52 polled into memory
	"apuoff:": {0xaf, 0xe0, 0x26, 0x06, 0x4b, 0x05, 0x20, 0xfd, 0x3e, 0x80, 0xe0, 0x26, 0x3e, 0x3e, 0xe0, 0x11, 0x3e, 0xf0, 0xe0, 0x12,
		0x3e, 0xc7, 0xe0, 0x14, 0x21, 0x00, 0xc0, 0xf0, 0x26, 0x22, 0x7c, 0xfe, 0xc8, 0x20, 0xf8, 0x18, 0xfe},
	// LD A,80; loop: LDH (01),A; INC A; JR loop  -- writes 80 81 82 ... to SB
	"serial2:": {0x3e, 0x80, 0xe0, 0x01, 0x3c, 0x18, 0xfb},
	// XOR A; loop: LDH (01),A; INC A; JR loop  -- writes 00 01 02 ... to SB for ever
	"serial:": {0xaf, 0xe0, 0x01, 0x3c, 0x18, 0xfb},
	// NOP x3; loop: EI; JR loop -- every frame ends between an EI and the instruction after it
	"eidense:": {0x00, 0x00, 0x00, 0xfb, 0x18, 0xfd},
	// DI; IE=01 (VBlank is requested at power-on); HALT with IME=0 and a pending request, for ever (halt bug armed)
	"haltdense:": {0xf3, 0x3e, 0x01, 0xe0, 0xff, 0x76, 0x76, 0x76, 0x76},
	// sensitive to state inherited from elsewhere: first byte not idempotent (INC B), IE set WITHOUT EI (a handler
	// at 0040 marks D), channel 1 triggered without NR10 ever being written, NR52 and NR10 read back into E and H
	"sens:": {0x04, 0x3e, 0x01, 0xe0, 0xff, 0x00, 0x00,
		0x3e, 0x80, 0xe0, 0x26, 0x3e, 0xf0, 0xe0, 0x12, 0x3e, 0xff, 0xe0, 0x13, 0x3e, 0x87, 0xe0, 0x14,
		0x0e, 0x40, 0x0d, 0x20, 0xfd, 0xf0, 0x26, 0x5f, 0xf0, 0x10, 0x67, 0x0c, 0x18, 0xfd},
}

func craftedRom(kind string) string {
	dir := filepath.Join(os.TempDir(), "verif-loop")
	if d := os.Getenv("VERIF_SYNTH_DIR"); d != "" {
		dir = filepath.Join(d, "verif-loop")
	}
	os.MkdirAll(dir, 0o755)
	p := filepath.Join(dir, strings.TrimSuffix(kind, ":")+".gb")
	rom := make([]byte, 0x8000)
	copy(rom[0x100:], craftedRoms[kind])
	copy(rom[0x40:], []byte{0x16, 0x77, 0xc9}) // LD D,77; RET
	copy(rom[0x50:], []byte{0x1e, 0x50, 0xd9}) // LD E,50; RETI
	if kind == "stoprtc:" {
		rom[0x147], rom[0x148], rom[0x149] = 0x10, 0x00, 0x03
	}
	os.WriteFile(p, rom, 0o644)
	return p
}

func multiSoloMain(args []string) {
	c := mconf{rom: args[0], seed: uint64(atoi(args[1])), audio: args[2] == "1"}
	fmt.Println(soloDigest(c, atoi(args[3]), false))
}

func multiReplay(c *ctx, ops []string) {
	x := &multiRun{c: c}
	for _, op := range ops {
		x.do(op)
	}
}

// the single TIMA overflow of a frame placed on chosen machine cycles of the frame (first, last, around the
// increments), on a ROM that touches nothing: runFrame against the documented loop
func (x *multiRun) timerPhases(nk int) {
	c := x.c
	x.do("rom loop loop: 0 0")
	ks := []int{0, 1, 2, 255, 256, 8777, 17553, 17554, 17555}
	for len(ks) < 9+nk {
		ks = append(ks, c.rng.intn(17556))
	}
	for _, K := range ks {
		n := K/256 + 1
		k1 := K % 256
		counter := (1024-4*(k1+1))%1024 + 1024*c.rng.intn(64)
		x.do(fmt.Sprintf("tphase loop %04x %02x 04 2", counter&0xffff, 256-n))
		c.class(fmt.Sprintf("tphase/%d", K))
	}
}

// what every property borrows from this mode: the REAL frame loop (runFrame) against the documented loop on small
// crafted programs - idle, STOP with the LCD on, STOP with an interrupt arriving, STOP on a clock cartridge, STOP
// with sound playing - and the single timer overflow of a frame on its first / last cycles
func (x *multiRun) frameLoopSuite(nk int) {
	x.craftedManual("loop", "loop:", 3)
	x.craftedManual("stop", "stop:", 3)
	x.craftedManual("stopirq", "stopirq:", 3)
	x.craftedManual("stoprtc", "stoprtc:", 3)
	x.craftedManualAudio("stopaudio", "stopaudio:", 3)
	x.craftedManual("apuoff", "apuoff:", 3)
	x.craftedManual("loop5", "loop5:", 4)
	x.craftedManualA("loop5d", "loop5:", 4, 2) // the same with a display attached
	x.do("rom pic picture: 0 0")
	x.do("cfgs pic 4")
	x.timerPhases(nk)
}

func (x *multiRun) craftedManual(id, kind string, frames int) { x.craftedManualA(id, kind, frames, 0) }
func (x *multiRun) craftedManualAudio(id, kind string, frames int) {
	x.craftedManualA(id, kind, frames, 1)
}

// a crafted ROM: first solo run = expectation, then the documented loop by hand
func (x *multiRun) craftedManualA(id, kind string, frames int, audio int) {
	if _, ok := mconfs[id]; ok {
		return
	}
	if audio == 2 {
		x.do(fmt.Sprintf("rom %s %s 0 0 1", id, kind))
	} else {
		x.do(fmt.Sprintf("rom %s %s 0 %d", id, kind, audio))
	}
	d := soloDigest(mconfs[id], frames, false)
	x.do(fmt.Sprintf("expect %s %d %s", id, frames, d))
	x.do(fmt.Sprintf("manual %s %d", id, frames))
	x.c.class("crafted/" + kind + "/" + d)
}

func multiGen(c *ctx) {
	x := &multiRun{c: c}
	prop := os.Getenv("VERIF_PROP")
	x.do("reset")
	// other properties borrow the parts of this mode that go through gameboy.New / runFrame
	if prop != "" && prop != "C24" && prop != "C25" && prop != "C26" {
		nk := 0
		if prop == "C12" {
			nk = 12
			if c.thorough() {
				nk = 400
			}
		}
		x.frameLoopSuite(nk)
		if prop == "C23" {
			x.do("rom ser serial: 0 0")
			for _, f := range []int{1, 2, 5} {
				x.do(fmt.Sprintf("serlong ser %d", f))
				c.class(fmt.Sprintf("serlong/%d", f))
			}
			x.do("rom ser2 serial2: 0 0")
			x.do("serconc ser ser2")
			c.class("serconc")
		}
		return
	}
	var roms []string
	filepath.Walk(romDir(), func(p string, info os.FileInfo, err error) error {
		if err == nil && !info.IsDir() && strings.HasSuffix(p, ".gb") && info.Size() >= 0x8000 && !strings.Contains(p, "bootrom_dumper") {
			rel, _ := filepath.Rel(romDir(), p)
			if !strings.Contains(rel, " ") {
				roms = append(roms, rel)
			}
		}
		return nil
	})
	sort.Strings(roms)
	frames := 30
	nRoms, nSynth := 18, 10
	if c.thorough() {
		frames, nRoms, nSynth = 300, len(roms), 50
	}
	// a seeded selection of the shipped ROMs, always including the big blargg ones
	var ids []string
	pick := map[string]bool{}
	for _, must := range []string{"blargg/cpu_instrs/cpu_instrs.gb", "blargg/dmg_sound/dmg_sound.gb", "blargg/oam_bug/oam_bug.gb", "rtc3test/rtc3test.gb",
		"blargg/halt_bug.gb", "mts-20221022-1430-8d742b9/acceptance/timer/rapid_toggle.gb", "mts-20221022-1430-8d742b9/acceptance/timer/tima_reload.gb",
		"mts-20221022-1430-8d742b9/emulator-only/mbc1/ram_64kb.gb", "mts-20221022-1430-8d742b9/emulator-only/mbc5/rom_512kb.gb",
		"blargg/dmg_sound/rom_singles/04-sweep.gb", "blargg/dmg_sound/rom_singles/01-registers.gb"} {
		pick[must] = true
	}
	for len(pick) < nRoms && len(pick) < len(roms) {
		pick[roms[c.rng.intn(len(roms))]] = true
	}
	var chosen []string
	for r := range pick {
		chosen = append(chosen, r)
	}
	sort.Strings(chosen)
	for k, r := range chosen {
		id := fmt.Sprintf("r%d", k)
		x.do(fmt.Sprintf("rom %s %s %d %d", id, r, c.rng.intn(1000), k%2))
		ids = append(ids, id)
	}
	for k := 0; k < nSynth; k++ {
		id := fmt.Sprintf("s%d", k)
		x.do(fmt.Sprintf("rom %s synth:%d %d %d", id, c.rng.intn(1<<30), c.rng.intn(1000), k%2))
		ids = append(ids, id)
	}
	// first solo run = the expectation
	for _, id := range ids {
		d := soloDigest(mconfs[id], frames, false)
		x.do(fmt.Sprintf("expect %s %d %s", id, frames, d))
		c.class("solo/" + id + "/" + d)
	}
	if prop == "" || prop == "C24" {
		for _, id := range ids {
			x.do(fmt.Sprintf("again %s %d", id, frames))
			x.do(fmt.Sprintf("sub %s %d", id, frames))
		}
		// host timing must not matter: a serial writer that stalls the emulation for 60 ms in the middle of a frame
		x.do("rom pic picture: 0 0")
		x.do("slowwriter pic 6 20 60")
		x.do("cfgs pic 4")
		c.class("slowwriter")
	}
	if prop == "" || prop == "C25" {
		// cartridges that report through cartridge RAM (blargg) always meet each other
		var ramUsers []string
		for _, id := range ids {
			rp := mconfs[id].rom
			if strings.Contains(rp, "dmg_sound") || strings.Contains(rp, "oam_bug") || strings.Contains(rp, "halt_bug") || strings.Contains(rp, "ram_64kb") {
				ramUsers = append(ramUsers, id)
			}
		}
		// an instance created AFTER another one ran through Run() and was cleaned up (whatever the first left in its
		// CPU at the moment it stopped - an EI not yet effective, the halt bug armed - or in its sound unit)
		x.do("rom sens sens: 0 0")
		x.do(fmt.Sprintf("expect sens %d %s", frames, soloDigest(mconfs["sens"], frames, false)))
		x.do("rom eid eidense: 0 0")
		x.do("rom hbd haltdense: 0 0")
		for _, a := range []string{"eid", "hbd"} {
			for k := 1; k <= 2; k++ {
				x.do(fmt.Sprintf("after %s %d sens %d", a, k, frames))
				c.class(fmt.Sprintf("after/%s/%d", a, k))
			}
		}
		for _, id := range ramUsers {
			if strings.Contains(mconfs[id].rom, "dmg_sound") {
				x.do(fmt.Sprintf("after %s 6 sens %d", id, frames))
				x.do(fmt.Sprintf("pair %s sens %d ab-fine", id, frames))
				c.class("after/sound/" + id)
			}
		}
		for i := 0; i+1 < len(ramUsers); i++ {
			x.do(fmt.Sprintf("pair %s %s %d %s", ramUsers[i], ramUsers[i+1], frames, []string{"ab", "ba-fine"}[i%2]))
			c.class("pair/ram/" + ramUsers[i] + "/" + ramUsers[i+1])
		}
		for k := 0; k+1 < len(ids); k++ {
			a, b := ids[k], ids[(k+1+c.rng.intn(len(ids)-1))%len(ids)]
			if a == b {
				continue
			}
			sched := []string{"ab", "ba", "ab-fine", "ba-fine"}[k%4]
			x.do(fmt.Sprintf("pair %s %s %d %s", a, b, frames, sched))
			if k%3 == 0 {
				x.do(fmt.Sprintf("conc %s %s %d", a, b, frames))
			}
			c.class("pair/" + a + "/" + b + "/" + sched)
		}
	}
	if prop == "" || prop == "C26" {
		for _, id := range ids {
			if mconfs[id].synthetic() {
				continue
			}
			x.do(fmt.Sprintf("manual %s %d", id, frames))
			c.class("manual/" + id)
		}
		for k, id := range ids {
			if mconfs[id].synthetic() || k%3 != 0 {
				continue
			}
			kf := 1 + c.rng.intn(6)
			x.do(fmt.Sprintf("runclose %s %d", id, kf))
			x.do(fmt.Sprintf("runcancel %s %d", id, 1+c.rng.intn(40)))
			x.do(fmt.Sprintf("rundeadline %s %d", id, []int{0, 1 + c.rng.intn(40)}[k/3%2]))
			c.class(fmt.Sprintf("run/%s/%d", id, kf))
		}
		nk := 6
		if c.thorough() {
			nk = 200
		}
		x.frameLoopSuite(nk)
		for k := 0; k < 4; k++ {
			x.do(fmt.Sprintf("runcancelw loop %d", 3+c.rng.intn(60)))
		}
		x.do("rom ser serial: 0 0")
		x.do("rom ser2 serial2: 0 0")
		x.do("serconc ser ser2")
	}
}
