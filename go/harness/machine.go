package main

import (
	"bytes"
	"fmt"
	"os"
	"path/filepath"
	"strings"

	"github.com/scottyw/tetromino/gameboy/audio"
	"github.com/scottyw/tetromino/gameboy/controller"
	"github.com/scottyw/tetromino/gameboy/cpu"
	"github.com/scottyw/tetromino/gameboy/interrupts"
	"github.com/scottyw/tetromino/gameboy/memory"
	"github.com/scottyw/tetromino/gameboy/oam"
	"github.com/scottyw/tetromino/gameboy/ppu"
	"github.com/scottyw/tetromino/gameboy/serial"
	"github.com/scottyw/tetromino/gameboy/timer"
)

// A whole machine wired exactly as gameboy.New does, but from an in-memory image and steppable per
// machine cycle (the loop body of runFrame written out; C26 ties that body to the source).
type machine struct {
	intr   *interrupts.Interrupts
	oam    *oam.OAM
	ppu    *ppu.PPU
	timer  *timer.Timer
	audio  *audio.Audio
	mapper *memory.Mapper
	cpu    *cpu.CPU
	ctl    *controller.Controller
	serial *bytes.Buffer
	exited bool
}

func newMachine(rom []byte, withWriter bool) *machine {
	m := &machine{}
	m.intr = interrupts.New()
	m.oam = oam.New()
	m.audio = audio.New(nil, nil)
	m.ppu = ppu.New(m.intr, m.oam, false)
	var sw *serial.Serial
	if withWriter {
		m.serial = &bytes.Buffer{}
		sw = serial.New(m.serial)
	} else {
		sw = serial.New(nil)
	}
	m.timer = timer.New()
	m.ctl = controller.New()
	m.mapper = memory.New(rom, m.intr, m.oam, m.ppu, m.ctl, sw, m.timer, m.audio)
	m.cpu = cpu.New(m.intr, m.oam, false, m.mapper)
	m.cpu.Initialize()
	return m
}

// would the next cycle run fatal() (os.Exit)?  Same test as in mode cpu.
func (m *machine) aboutToExit() bool {
	s := m.cpu.VerifGet()
	if !m.cpu.VerifAtBoundary() || s.Halted || s.Stopped {
		return false
	}
	if m.intr.ReadIF()&m.intr.ReadIE()&0x1f != 0 && m.intr.Enabled() {
		return false
	}
	u, ok := undefinedOpcodes[m.mapper.Read(s.PC)]
	return ok && u
}

func (m *machine) cycle() {
	if m.exited {
		return
	}
	if m.aboutToExit() {
		m.exited = true
		return
	}
	m.cpu.ExecuteMachineCycle()
	m.ppu.EndMachineCycle()
	m.mapper.EndMachineCycle()
	m.audio.EndMachineCycle()
	if m.timer.EndMachineCycle() {
		m.intr.RequestTimer()
	}
}

// a cartridge image of the given type/size codes whose ROM is filled by `fill`
func buildImage(cartType, romSize, ramSize uint8, fill func(i int) uint8) []byte {
	n := 0x8000 << romSize
	rom := make([]byte, n)
	for i := range rom {
		rom[i] = fill(i)
	}
	rom[0x147], rom[0x148], rom[0x149] = cartType, romSize, ramSize
	return rom
}

var definedOpcode = func() []uint8 {
	var out []uint8
	for o := 0; o < 256; o++ {
		if _, undef := undefinedOpcodes[uint8(o)]; !undef && o != 0x10 && o != 0x76 {
			out = append(out, uint8(o))
		}
	}
	return out
}()

// ---------------------------------------------------------------------------------------------
// mode oambug (C17): with the LCD switched off — at any cycle of any line, in any mode — no CPU
// activity other than writes to FE00-FE9F and DMA alters OAM.  The model's prediction is the theorem:
// `same`.  ops: run <seed> <off-after-cycles> <prog-cycles> <variant>
func init() { modes["oambug"] = modeFn{gen: oambugGen, replay: oambugReplay} }

// pointer-walking program: 16-bit INC/DEC, PUSH/POP, loads through pointers, with BC/DE/HL/SP kept in FE00-FEFF;
// never stores to memory except PUSH (stack pointer is moved to WRAM around pushes only in variant 1)
func pointerProgram(r *rng, n int, allowPush bool) []uint8 {
	var p []uint8
	emit := func(b ...uint8) { p = append(p, b...) }
	// pointers into OAM
	emit(0x01, r.byte(), 0xfe)           // LD BC,FExx
	emit(0x11, r.byte(), 0xfe)           // LD DE,FExx
	emit(0x21, r.byte(), 0xfe)           // LD HL,FExx
	emit(0x31, 0x80+r.byte()%0x7e, 0xfe) // LD SP,FExx
	for len(p) < n {
		switch r.intn(12) {
		case 0:
			emit([]uint8{0x03, 0x13, 0x23, 0x33}[r.intn(4)]) // INC rr
		case 1:
			emit([]uint8{0x0b, 0x1b, 0x2b, 0x3b}[r.intn(4)]) // DEC rr
		case 2:
			emit([]uint8{0x0a, 0x1a, 0x7e, 0x2a, 0x3a}[r.intn(5)]) // LD A,(BC)/(DE)/(HL)/(HL+)/(HL-)
		case 3:
			emit([]uint8{0xc1, 0xd1, 0xf1}[r.intn(3)]) // POP BC/DE/AF (reads through SP)
			if r.chance(50) {
				emit(0x01, r.byte(), 0xfe, 0x11, r.byte(), 0xfe) // re-point BC, DE
			}
		case 4:
			emit(0x46 + uint8(r.intn(6))*8) // LD r,(HL) for B,C,D,E,H,L (may move HL out; re-point)
			emit(0x21, r.byte(), 0xfe)
		case 5:
			emit(0x86 + uint8(r.intn(8))*8) // ALU A,(HL)
		case 6:
			emit(0xcb, 0x46+uint8(r.intn(8))*8) // BIT n,(HL)
		case 7:
			emit(0x21, r.byte(), 0xfe) // LD HL,FExx
		case 8:
			emit(0x31, r.byte(), 0xfe) // LD SP,FExx
		case 9:
			if allowPush {
				// PUSH with SP in FEA0-FEFF: the write lands in the unusable area, never in OAM proper
				emit(0x31, 0xa2+r.byte()%0x5c, 0xfe, []uint8{0xc5, 0xd5, 0xe5, 0xf5}[r.intn(4)])
			}
		case 10:
			emit(0xf9) // LD SP,HL
		default:
			emit(0x00)
		}
	}
	emit(0x18, 0xfe) // JR -2: spin
	return p
}

type oambugRun struct{ c *ctx }

func (x *oambugRun) do(op string) string {
	w := strings.Fields(op)
	out := guard(func() string {
		switch w[0] {
		case "reset":
			return "ok"
		case "run":
			seed, offAfter, progCycles, variant := uint64(atoi(w[1])), atoi(w[2]), atoi(w[3]), atoi(w[4])
			r := &rng{s: seed*0x9e3779b97f4a7c15 + 99}
			prog := pointerProgram(r, 200, variant%2 == 1)
			rom := buildImage(0, 0, 0, func(i int) uint8 { return 0 })
			// 0x100: spin (JR -2) until the harness redirects PC; the program sits at 0x200
			rom[0x100], rom[0x101] = 0x18, 0xfe
			copy(rom[0x200:], prog)
			m := newMachine(rom, false)
			var pattern [0xa0]byte
			for i := range pattern {
				pattern[i] = r.byte()
			}
			m.oam.VerifSetOAM(pattern)
			for k := 0; k < offAfter; k++ {
				m.cycle()
			}
			mode := m.mapper.Read(0xff41) & 3
			m.mapper.Write(0xff40, 0x11) // LCD off (bit 7 clear), however far into the line we are
			before := m.oam.VerifGet().OAM
			s := m.cpu.VerifGet()
			// let the instruction in flight finish, then jump to the program
			for !m.cpu.VerifAtBoundary() {
				m.cycle()
			}
			s = m.cpu.VerifGet()
			s.PC = 0x200
			m.cpu.VerifSetRegs(s)
			for k := 0; k < progCycles; k++ {
				m.cycle()
			}
			after := m.oam.VerifGet().OAM
			x.c.class(fmt.Sprintf("off@mode%d/line-cycle%d/v%d", mode, offAfter%114, variant%2))
			if before == after {
				return "same"
			}
			diff := 0
			for i := range before {
				if before[i] != after[i] {
					diff++
				}
			}
			return fmt.Sprintf("changed(%d bytes)", diff)
		case "mon":
			// runtime monitor of the property itself: a program that never stores into FE00-FE9F and starts no
			// DMA runs with the LCD ON (with occasional off/on), partly executing from inside OAM; whenever the OAM
			// bytes change during a machine cycle, that cycle must have begun with the LCD on and in mode 2
			seed, cycles := uint64(atoi(w[1])), atoi(w[2])
			r := &rng{s: seed*0x9e3779b97f4a7c15 + 7}
			rom := buildImage(0, 0, 0, func(i int) uint8 { return 0 })
			rom[0x100], rom[0x101], rom[0x102] = 0xc3, 0x00, 0x02 // JP 0200
			var p []uint8
			emit := func(b ...uint8) { p = append(p, b...) }
			emit(0x31, 0x00, 0xd0+r.byte()%0x0f) // SP in WRAM: stack writes never reach OAM
			emit(0x01, r.byte(), 0xfe, 0x11, r.byte(), 0xfe, 0x21, r.byte(), 0xfe)
			for len(p) < 160 {
				switch r.intn(10) {
				case 0:
					emit([]uint8{0x03, 0x13, 0x23}[r.intn(3)])
				case 1:
					emit([]uint8{0x0b, 0x1b, 0x2b}[r.intn(3)])
				case 2:
					emit([]uint8{0x0a, 0x1a, 0x7e, 0x2a, 0x3a}[r.intn(5)])
				case 3:
					emit(0x21, r.byte(), 0xfe)
				case 4:
					emit(0x86 + uint8(r.intn(8))*8)
				case 5:
					emit(0xcd, 0x00+uint8(r.intn(0x9f)), 0xfe) // CALL into OAM: the code there ends in RET
				case 6:
					for k := r.intn(30); k > 0; k-- {
						emit(0x00)
					}
				case 7:
					emit(0x01, r.byte(), 0xfe, 0x11, r.byte(), 0xfe)
				default:
					emit(0x00)
				}
			}
			emit(0xc3, 0x00, 0x02) // loop
			copy(rom[0x200:], p)
			m := newMachine(rom, false)
			// OAM holds harmless one-byte instructions and frequent RETs (never a store)
			safe := []uint8{0x00, 0x00, 0x00, 0xc9, 0x03, 0x13, 0x23, 0x0b, 0x1b, 0x2b, 0x04, 0x0c, 0x7e, 0x0a, 0x1a, 0x76, 0xc9, 0x3c, 0x2a, 0x3a}
			var pattern [0xa0]byte
			for i := range pattern {
				pattern[i] = safe[r.intn(len(safe))]
			}
			pattern[0x9f] = 0xc9
			m.oam.VerifSetOAM(pattern)
			m.mapper.Write(0xffff, 0x01) // VBlank enabled so that HALT inside OAM wakes up (IME stays off)
			toggleAt := 2000 + r.intn(30000)
			for k := 0; k < cycles; k++ {
				if k == toggleAt {
					m.mapper.Write(0xff40, 0x11)
				}
				if k == toggleAt+300 {
					m.mapper.Write(0xff40, 0x91)
				}
				og := m.oam.VerifGet()
				cs := m.cpu.VerifGet()
				before := og.OAM
				lcdOn := m.ppu.ReadLCDC()&0x80 != 0
				mode := m.ppu.ReadSTAT() & 3
				m.cycle()
				if m.exited {
					break
				}
				after := m.oam.VerifGet().OAM
				if before != after && !(lcdOn && mode == 2) {
					x.c.class(fmt.Sprintf("mon-violation/mode%d/lcd%v", mode, lcdOn))
					if os.Getenv("VERIF_DEBUG") != "" {
						fmt.Fprintf(os.Stderr, "debug: pc=%04x halted=%v cyc=%d bnd=%v corrupt=%v read=%v write=%v dw=%v dma=%v sp=%04x hl=%02x%02x\n", cs.PC, cs.Halted, cs.Cycle, false, og.Corrupt, og.Read, og.Write, og.DoubleWrite, og.DMARunning, cs.SP, cs.H, cs.L)
					}
					return fmt.Sprintf("oam-changed-outside-mode2 cycle=%d mode=%d lcd=%v", k, mode, lcdOn)
				}
				if before != after {
					x.c.class("mon/corruption-in-mode2")
					// the bug has scrambled the code that lives in OAM: put the harmless pattern back so that the
					// program still never stores into OAM
					m.oam.VerifSetOAM(pattern)
				}
			}
			return "ok"
		}
		return "bad-op"
	})
	x.c.emit(op, out)
	return out
}

func oambugReplay(c *ctx, ops []string) {
	x := &oambugRun{c: c}
	for _, op := range ops {
		x.do(op)
	}
}

func oambugGen(c *ctx) {
	x := &oambugRun{c: c}
	x.do("reset")
	// switch the LCD off at EVERY cycle of a line (114) on a few lines incl. vblank, plus random points of a frame
	lines := []int{0, 1, 77, 143, 144, 153}
	per := 1
	if c.thorough() {
		lines = []int{0, 1, 2, 50, 77, 100, 142, 143, 144, 145, 150, 153}
		per = 4
	}
	for _, ln := range lines {
		for cyc := 0; cyc < 114; cyc++ {
			for k := 0; k < per; k++ {
				off := ln*114 + cyc
				if ln == 0 && cyc < 2 {
					off += 17556 // not during the very first cycles after power-on
				}
				x.do(fmt.Sprintf("run %d %d %d %d", c.rng.intn(1<<30), off, 600, c.rng.intn(2)))
			}
		}
	}
	n := 200
	if c.thorough() {
		n = 3000
	}
	for k := 0; k < n; k++ {
		x.do(fmt.Sprintf("run %d %d %d %d", c.rng.intn(1<<30), 2+c.rng.intn(2*17556), 300+c.rng.intn(1500), c.rng.intn(2)))
	}
	for k := 0; k < n/4; k++ {
		x.do(fmt.Sprintf("mon %d %d", c.rng.intn(1<<30), 40000))
	}
}

// ---------------------------------------------------------------------------------------------
// mode crashfree (C11): any image either fails construction or runs any guest program without a Go
// panic; the only deliberate stop is an undefined opcode.  Prediction of the model (theorems): never `crash`.
// ops: img <type> <romsize> <ramsize> <len-override|-> <seed> <cycles>     random program on that cartridge
//
//	raw <len> <seed> <cycles>                                            arbitrary byte string as ROM
func init() { modes["crashfree"] = modeFn{gen: crashGen, replay: crashReplay} }

type crashRun struct{ c *ctx }

func runGuest(rom []byte, r *rng, cycles int) string {
	var m *machine
	built := guard(func() string {
		m = newMachine(rom, true)
		return "built"
	})
	if built != "built" {
		return "construct-failed"
	}
	res := guard(func() string {
		for k := 0; k < cycles; k++ {
			m.cycle()
			if m.exited {
				return "stopped-undefined-opcode"
			}
			// the guest also pokes the bus directly: any address, any value, any time
			if k%7 == 3 {
				a := r.u16()
				if r.chance(60) {
					a = []uint16{0x0000, 0x2000, 0x3000, 0x4000, 0x6000, 0xa000, 0xbfff, 0xfe00, 0xff46, 0xff40, 0xff26}[r.intn(11)] + uint16(r.intn(0x100))
				}
				if r.chance(50) {
					m.mapper.Write(a, r.byte())
				} else {
					_ = m.mapper.Read(a)
				}
			}
			if k%97 == 0 {
				m.ctl.ButtonAction(controller.Button(r.intn(8)), r.chance(50))
			}
		}
		return "ran"
	})
	return res
}

func (x *crashRun) do(op string) string {
	w := strings.Fields(op)
	var out string
	switch w[0] {
	case "reset":
		out = "ok"
	case "img":
		ct, rs, ra := uint8(unhex(w[1])), uint8(unhex(w[2])), uint8(unhex(w[3]))
		r := &rng{s: uint64(atoi(w[5]))*31 + 7}
		if rs > 8 {
			out = "skipped-too-large"
			break
		}
		rom := buildImage(ct, rs, ra, func(i int) uint8 { return definedOpcode[r.intn(len(definedOpcode))] })
		if w[4] != "-" {
			n := unhex(w[4])
			if n < len(rom) {
				rom = rom[:n]
			} else {
				rom = append(rom, make([]byte, n-len(rom))...)
			}
		}
		out = runGuest(rom, r, atoi(w[6]))
		x.c.class(fmt.Sprintf("img/%02x/%02x/%02x/%s/%s", ct, rs, ra, w[4], out))
	case "raw":
		r := &rng{s: uint64(atoi(w[2]))*131 + 1}
		rom := make([]byte, unhex(w[1]))
		for i := range rom {
			rom[i] = r.byte()
		}
		out = runGuest(rom, r, atoi(w[3]))
		x.c.class(fmt.Sprintf("raw/%s/%s", w[1], out))
	default:
		out = "bad-op"
	}
	// the property: never a crash
	verdict := "no-crash"
	if out == "crash" {
		verdict = "crash"
	}
	x.c.emit(op, verdict)
	return out
}

func crashReplay(c *ctx, ops []string) {
	x := &crashRun{c: c}
	for _, op := range ops {
		x.do(op)
	}
}

func crashGen(c *ctx) {
	x := &crashRun{c: c}
	x.do("reset")
	types := []int{0x00, 0x01, 0x02, 0x03, 0x05, 0x06, 0x0f, 0x10, 0x11, 0x12, 0x13, 0x19, 0x1a, 0x1b, 0x1c, 0x1d, 0x1e, 0x08, 0x20, 0xfc, 0xff}
	cycles := 6000
	reps := 1
	if c.thorough() {
		cycles, reps = 40000, 6
	}
	for _, t := range types {
		for rs := 0; rs <= 8; rs++ {
			if rs > 5 && !c.thorough() && rs != 8 {
				continue
			}
			for _, ra := range []int{0, 2, 3, 4, 5} {
				if !c.thorough() && (ra == 4 || ra == 5) && rs > 1 {
					continue
				}
				for k := 0; k < reps; k++ {
					x.do(fmt.Sprintf("img %02x %02x %02x - %d %d", t, rs, ra, c.rng.intn(1<<30), cycles))
				}
			}
		}
	}
	// malformed / short / odd-sized images
	for _, t := range []int{0x00, 0x01, 0x05, 0x13, 0x19} {
		for _, l := range []int{0x0, 0x1, 0x147, 0x148, 0x149, 0x14a, 0x150, 0x3fff, 0x4000, 0x7fff, 0x8000, 0x8001, 0xc000, 0x10000} {
			x.do(fmt.Sprintf("img %02x 00 00 %x %d %d", t, l, c.rng.intn(1<<30), 2000))
			x.do(fmt.Sprintf("img %02x 01 03 %x %d %d", t, l, c.rng.intn(1<<30), 2000))
		}
	}
	n := 60
	if c.thorough() {
		n = 600
	}
	for k := 0; k < n; k++ {
		l := []int{0, 1, 0x100, 0x14a, 0x4000, 0x8000, 0x8000, 0x10000, 0x20000}[c.rng.intn(9)]
		x.do(fmt.Sprintf("raw %x %d %d", l, c.rng.intn(1<<30), 3000))
	}
}

// ---------------------------------------------------------------------------------------------
// mode serial (C23): every byte written to SB reaches the configured writer once, in order; SB/SC read FF.
// ops: reset <writer 0|1> | w <addr4> <val2> | r <addr4> | log
func init() { modes["serial"] = modeFn{gen: serialGen, replay: serialReplay} }

type serialRun struct {
	c *ctx
	m *machine
}

func (x *serialRun) do(op string) string {
	w := strings.Fields(op)
	out := guard(func() string {
		switch w[0] {
		case "reset":
			rom := buildImage(0, 0, 0, func(i int) uint8 { return 0 })
			x.m = newMachine(rom, len(w) > 1 && w[1] == "1")
			return "ok"
		case "w":
			x.m.mapper.Write(uint16(unhex(w[1])), uint8(unhex(w[2])))
			return "ok"
		case "r":
			return hx2(x.m.mapper.Read(uint16(unhex(w[1]))))
		case "log":
			if x.m.serial == nil {
				return "none"
			}
			return "[" + fmt.Sprintf("%x", x.m.serial.Bytes()) + "]"
		}
		return "bad-op"
	})
	x.c.emit(op, out)
	return out
}

func serialReplay(c *ctx, ops []string) {
	x := &serialRun{c: c}
	x.do("reset 1")
	for _, op := range ops {
		x.do(op)
	}
}

func serialGen(c *ctx) {
	x := &serialRun{c: c}
	runs, steps := 300, 120
	if c.thorough() {
		runs, steps = 5000, 300
	}
	for k := 0; k < runs; k++ {
		wr := 1
		if k%5 == 4 {
			wr = 0
		}
		x.do(fmt.Sprintf("reset %d", wr))
		for s := 0; s < steps; s++ {
			switch c.rng.intn(8) {
			case 0, 1, 2:
				x.do(fmt.Sprintf("w ff01 %02x", c.rng.byte()))
			case 3:
				x.do(fmt.Sprintf("w ff02 %02x", c.rng.byte()))
			case 4:
				x.do(fmt.Sprintf("r ff0%d", 1+c.rng.intn(2)))
			case 5:
				// other I/O and memory around the serial registers
				a := []int{0xff00, 0xff03, 0xff04, 0xff05, 0xff0f, 0xfeff, 0xff80, 0xc001, 0xe001, 0x0001, 0xa001, 0xffff}[c.rng.intn(12)]
				x.do(fmt.Sprintf("w %04x %02x", a, c.rng.byte()))
			case 6:
				x.do(fmt.Sprintf("w %04x %02x", c.rng.u16(), c.rng.byte()))
			default:
				x.do("log")
			}
		}
		x.do("log")
		c.class(fmt.Sprintf("run/%d/writer%d", k, wr))
	}
	// every address once: only FF01 may reach the writer
	x.do("reset 1")
	for a := 0; a < 0x10000; a++ {
		if a == 0xff46 || a == 0xff40 {
			continue
		}
		x.do(fmt.Sprintf("w %04x %02x", a, uint8(a*7+1)))
	}
	x.do("log")
	c.notes["all_addresses_written_once"] = true
}

var _ = os.Getenv
var _ = filepath.Join
