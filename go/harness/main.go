// Command harness drives the REAL tetromino packages (built from /repo's working tree with
// -tags verif) and writes, for one correspondence mode, an operation file and the
// implementation's output for every operation.  The Lean driver replays the same operation
// file on the model; bin/check diffs the two output streams.
//
// usage: harness <mode> <tier> <seed> <outdir> [replay-ops-file]
package main

import (
	"bufio"
	"encoding/json"
	"fmt"
	"os"
	"path/filepath"
	"sort"
	"strconv"
	"strings"
)

// rng is a splitmix64 generator: every random choice of a run derives from the seed.
type rng struct{ s uint64 }

func (r *rng) next() uint64 {
	r.s += 0x9e3779b97f4a7c15
	z := r.s
	z = (z ^ (z >> 30)) * 0xbf58476d1ce4e5b9
	z = (z ^ (z >> 27)) * 0x94d049bb133111eb
	return z ^ (z >> 31)
}
func (r *rng) intn(n int) int    { return int(r.next() % uint64(n)) }
func (r *rng) byte() uint8       { return uint8(r.next()) }
func (r *rng) u16() uint16       { return uint16(r.next()) }
func (r *rng) chance(p int) bool { return r.intn(100) < p }
func (r *rng) pick(xs []int) int { return xs[r.intn(len(xs))] }

// ctx collects the operation stream, the implementation outputs and the coverage statistics.
type ctx struct {
	mode    string
	tier    string
	seed    int64
	rng     *rng
	ops     *bufio.Writer
	out     *bufio.Writer
	nOps    int
	kinds   map[string]int
	classes map[string]bool
	samples []string
	notes   map[string]interface{}
	replay  []string
}

func (c *ctx) thorough() bool { return c.tier == "thorough" }

// emit records one operation line and the implementation's output for it.
func (c *ctx) emit(op string, out string) {
	fmt.Fprintln(c.ops, op)
	fmt.Fprintln(c.out, out)
	c.nOps++
	k := op
	if i := strings.IndexByte(op, ' '); i >= 0 {
		k = op[:i]
	}
	c.kinds[k]++
	if len(c.samples) < 12 {
		c.samples = append(c.samples, op+" => "+out)
	}
}

// begin records an operation BEFORE it runs and flushes, so that if the real code kills the process
// (os.Exit in fatal, runtime fatal error) the operation that did it is on disk; finish records its output.
func (c *ctx) begin(op string) {
	fmt.Fprintln(c.ops, op)
	c.ops.Flush()
}

func (c *ctx) finish(op string, out string) {
	fmt.Fprintln(c.out, out)
	c.out.Flush()
	c.nOps++
	k := op
	if i := strings.IndexByte(op, ' '); i >= 0 {
		k = op[:i]
	}
	c.kinds[k]++
	if len(c.samples) < 12 {
		if len(op) > 160 {
			op = op[:160] + "..."
		}
		c.samples = append(c.samples, op+" => "+out)
	}
}

// class records one distinct non-trivial case (by the mode's own rule).
func (c *ctx) class(s string) { c.classes[s] = true }

// guard runs f and maps a panic of the real code to the output token "crash".
func guard(f func() string) (res string) {
	defer func() {
		if r := recover(); r != nil {
			res = "crash"
		}
	}()
	return f()
}

type modeFn struct {
	gen    func(c *ctx)               // generate ops and run them
	replay func(c *ctx, ops []string) // run a given op list
}

var modes = map[string]modeFn{}

func hx2(v uint8) string  { return fmt.Sprintf("%02x", v) }
func hx4(v uint16) string { return fmt.Sprintf("%04x", v) }
func b01(b bool) string {
	if b {
		return "1"
	}
	return "0"
}
func atoi(s string) int {
	n, err := strconv.Atoi(s)
	if err != nil {
		panic("bad int " + s)
	}
	return n
}
func unhex(s string) int {
	n, err := strconv.ParseUint(s, 16, 64)
	if err != nil {
		panic("bad hex " + s)
	}
	return int(n)
}

func main() {
	if len(os.Args) > 1 && os.Args[1] == "multi-solo" {
		multiSoloMain(os.Args[2:])
		return
	}
	if len(os.Args) < 5 {
		fmt.Fprintln(os.Stderr, "usage: harness <mode> <tier> <seed> <outdir> [replay-ops-file]")
		os.Exit(2)
	}
	mode, tier := os.Args[1], os.Args[2]
	seed, _ := strconv.ParseInt(os.Args[3], 10, 64)
	outdir := os.Args[4]
	m, ok := modes[mode]
	if !ok {
		fmt.Fprintln(os.Stderr, "unknown mode", mode)
		os.Exit(2)
	}
	os.MkdirAll(outdir, 0o755)
	fo, _ := os.Create(filepath.Join(outdir, "ops.txt"))
	fi, _ := os.Create(filepath.Join(outdir, "impl.out"))
	c := &ctx{mode: mode, tier: tier, seed: seed, rng: &rng{s: uint64(seed)*0x2545f4914f6cdd1d + 0x1234567},
		ops: bufio.NewWriterSize(fo, 1<<20), out: bufio.NewWriterSize(fi, 1<<20),
		kinds: map[string]int{}, classes: map[string]bool{}, notes: map[string]interface{}{}}
	fmt.Fprintln(c.ops, "mode "+mode)
	if len(os.Args) > 5 {
		data, err := os.ReadFile(os.Args[5])
		if err != nil {
			fmt.Fprintln(os.Stderr, err)
			os.Exit(2)
		}
		var ops []string
		for _, l := range strings.Split(string(data), "\n") {
			l = strings.TrimSpace(l)
			if l == "" || strings.HasPrefix(l, "mode ") || strings.HasPrefix(l, "#") {
				continue
			}
			ops = append(ops, l)
		}
		m.replay(c, ops)
	} else {
		m.gen(c)
	}
	c.ops.Flush()
	c.out.Flush()
	fo.Close()
	fi.Close()
	var classes []string
	for k := range c.classes {
		classes = append(classes, k)
	}
	sort.Strings(classes)
	if len(classes) > 40 {
		classes = classes[:40]
	}
	stats := map[string]interface{}{
		"mode": mode, "tier": tier, "seed": seed, "ops": c.nOps, "kinds": c.kinds,
		"distinct_classes": len(c.classes), "class_examples": classes, "samples": c.samples, "notes": c.notes,
	}
	js, _ := json.MarshalIndent(stats, "", " ")
	os.WriteFile(filepath.Join(outdir, "stats.json"), js, 0o644)
}
