package main

import (
	"fmt"
	"image/color"
	"strings"

	"github.com/scottyw/tetromino/gameboy/interrupts"
	"github.com/scottyw/tetromino/gameboy/oam"
	"github.com/scottyw/tetromino/gameboy/ppu"
)

// mode scene (C15): a static scene (8 video registers, 8 KiB VRAM, 160 bytes OAM) is loaded into a real
// ppu.PPU + oam.OAM with the LCD off, the LCD is switched on, two full frames of EndMachineCycle calls are
// run (17554 + 17556) and the emitted 160x144 RGBA frame is mapped back to shade indices.
//
// ops:  reset                                   default registers (as ppu.New), VRAM and OAM zero   -> ok
//
//	scene <seed hex> <flags hex>            derive the whole scene from the seed (generator below,
//	                                        defined identically in lean/Tetro/Drv/Scene.lean)   -> ok ; <scene hash>
//	regs <lcdc scx scy wx wy bgp obp0 obp1> eight hex bytes                                      -> ok
//	vram <addr hex 8000..9fff> <hex bytes>  poke tile data / maps                                -> ok
//	oam <offset hex 00..9f> <hex bytes>     poke OAM                                             -> ok
//	render                                  load + run two frames                                -> ok ; <frame hash>   | crash
//	line <y>                                one screen line of the rendered frame, 2 bits per pixel, 80 hex digits
//
// out of `line`:  "<pixels> ; <pixels>" when the line meets the restrictions of property C15 (the model side
// prints the SPECIFICATION's pixels in the first part and the code model's frame in the second), otherwise
// "- ; <pixels>" (only model-vs-code agreement is checked).
func init() { modes["scene"] = modeFn{gen: sceneGen, replay: sceneReplay} }

const (
	fUnsorted = 1  // objects not sorted by X in OAM
	fCrowd    = 2  // 40 objects in a 14-line band, no ten-per-line filter
	fLowWX    = 4  // WX may be below 7
	fBgOff    = 8  // LCDC.0 random
	fTall     = 16 // LCDC.2 random
	fBand     = 32 // 40 objects in a 14-line band, filtered to ten per line (in-property, at the limit)
)

type sceneData struct {
	regs [8]uint8 // lcdc scx scy wx wy bgp obp0 obp1
	vram [0x2000]uint8
	oam  [0xa0]uint8
}

func defaultScene() *sceneData {
	s := &sceneData{}
	s.regs = [8]uint8{0x91, 0, 0, 0, 0, 0xfc, 0xff, 0xff}
	return s
}

// lcg is the scene generator's own PRNG (NOT the harness PRNG): both sides must draw the same numbers.
type lcg struct{ s uint32 }

func (g *lcg) next() int       { g.s = g.s*1664525 + 1013904223; return int(g.s >> 16) }
func (g *lcg) below(n int) int { return g.next() % n }
func (g *lcg) byte() uint8     { return uint8(g.next() % 256) }

func genScene(seed uint32, flags int) *sceneData {
	g := &lcg{s: seed}
	s := &sceneData{}
	// registers
	lcdc := 0x80
	if g.below(2) == 1 {
		lcdc |= 0x40
	}
	if g.below(2) == 1 {
		lcdc |= 0x20
	}
	if g.below(2) == 1 {
		lcdc |= 0x10
	}
	if g.below(2) == 1 {
		lcdc |= 0x08
	}
	if g.below(8) != 0 {
		lcdc |= 0x02
	}
	if flags&fBgOff != 0 {
		if g.below(2) == 1 {
			lcdc |= 0x01
		}
	} else {
		lcdc |= 0x01
	}
	if flags&fTall != 0 {
		if g.below(2) == 1 {
			lcdc |= 0x04
		}
	}
	var scx, scy uint8
	if g.below(4) != 0 {
		scx = g.byte()
	}
	if g.below(4) != 0 {
		scy = g.byte()
	}
	var wx, wy int
	switch g.below(8) {
	case 0:
		wx = 7
	case 1:
		wx = 166
	case 2:
		wx = 167 + g.below(89)
	default:
		wx = 7 + g.below(160)
	}
	if flags&fLowWX != 0 {
		if g.below(2) == 1 {
			wx = g.below(7)
		}
	}
	switch g.below(8) {
	case 0:
		wy = 0
	case 1:
		wy = 143
	case 2:
		wy = 144 + g.below(112)
	default:
		wy = g.below(144)
	}
	bgp := g.byte()
	obp0 := g.byte()
	obp1 := g.byte()
	s.regs = [8]uint8{uint8(lcdc), scx, scy, uint8(wx), uint8(wy), bgp, obp0, obp1}
	// tile data
	for t := 0; t < 384; t++ {
		k := g.below(8)
		if k < 2 {
			continue
		} else if k == 2 {
			c := 1 + g.below(3)
			for r := 0; r < 8; r++ {
				if c&1 != 0 {
					s.vram[16*t+2*r] = 0xff
				}
				if c&2 != 0 {
					s.vram[16*t+2*r+1] = 0xff
				}
			}
		} else {
			for j := 0; j < 16; j++ {
				s.vram[16*t+j] = g.byte()
			}
		}
	}
	// tile maps
	few := g.below(4) == 0
	var pal [4]uint8
	for i := range pal {
		pal[i] = g.byte()
	}
	for i := 0x1800; i < 0x2000; i++ {
		if few {
			s.vram[i] = pal[g.below(4)]
		} else {
			s.vram[i] = g.byte()
		}
	}
	// objects
	band := flags&(fCrowd|fBand) != 0
	n := 40
	if !band {
		n = g.below(41)
	}
	base := 8 + g.below(140)
	objs := make([][4]uint8, 0, 40)
	for i := 0; i < n; i++ {
		var y, x int
		if band {
			y = base + g.below(14)
		} else {
			switch g.below(8) {
			case 0:
				y = 1 + g.below(15)
			case 1:
				y = 145 + g.below(15)
			case 2:
				y = int(g.byte())
			default:
				y = 16 + g.below(129)
			}
		}
		switch g.below(8) {
		case 0:
			x = 1 + g.below(7)
		case 1:
			x = 161 + g.below(7)
		case 2:
			x = int(g.byte())
		default:
			x = 8 + g.below(153)
		}
		tile := g.byte()
		attr := g.byte()
		objs = append(objs, [4]uint8{uint8(y), uint8(x), tile, attr})
	}
	if flags&fUnsorted == 0 { // stable insertion sort by X
		for i := 1; i < len(objs); i++ {
			o := objs[i]
			j := i
			for j > 0 && objs[j-1][1] > o[1] {
				objs[j] = objs[j-1]
				j--
			}
			objs[j] = o
		}
	}
	if flags&fCrowd == 0 { // hide every object that would be the eleventh on some line
		var cnt [144]int
		for i := range objs {
			y := int(objs[i][0])
			full := false
			for l := 0; l < 144; l++ {
				if y-16 <= l && l < y-8 && cnt[l] >= 10 {
					full = true
				}
			}
			if full {
				objs[i][0] = 0
				continue
			}
			for l := 0; l < 144; l++ {
				if y-16 <= l && l < y-8 {
					cnt[l]++
				}
			}
		}
	}
	for i, o := range objs {
		copy(s.oam[4*i:4*i+4], o[:])
	}
	return s
}

func (s *sceneData) hash() uint32 {
	h := uint32(0)
	for _, b := range s.regs {
		h = h*31 + uint32(b)
	}
	for _, b := range s.vram {
		h = h*31 + uint32(b)
	}
	for _, b := range s.oam {
		h = h*31 + uint32(b)
	}
	return h
}

// lineInProperty: the restrictions of property C15 that concern screen line y
// (Spec.regsInProperty, atMostTen, orderedByX in lean/Tetro/Spec/Render.lean).
func (s *sceneData) lineInProperty(y int) bool {
	lcdc := s.regs[0]
	if lcdc&0x80 == 0 || lcdc&0x01 == 0 || lcdc&0x04 != 0 {
		return false
	}
	if lcdc&0x20 != 0 && s.regs[3] < 7 {
		return false
	}
	n := 0
	lastX := -1
	for i := 0; i < 40; i++ {
		oy := int(s.oam[4*i])
		if oy-16 <= y && y < oy-8 {
			n++
			x := int(s.oam[4*i+1])
			if x < lastX {
				return false
			}
			lastX = x
		}
	}
	return n <= 10
}

type sceneRun struct {
	c     *ctx
	s     *sceneData
	frame []uint8 // 160*144 shade indices (4 = not a grey shade / never written); nil = not rendered
	p     *ppu.PPU // the PPU of the last render (op next continues on it)
	o     *oam.OAM
}

func shadeIndex(c color.RGBA) uint8 {
	switch c {
	case color.RGBA{0xff, 0xff, 0xff, 0xff}:
		return 0
	case color.RGBA{0xaa, 0xaa, 0xaa, 0xff}:
		return 1
	case color.RGBA{0x77, 0x77, 0x77, 0xff}:
		return 2
	case color.RGBA{0x33, 0x33, 0x33, 0xff}:
		return 3
	}
	return 4
}

// render: a fresh PPU, two frames.  next: the scene is replaced at the frame boundary (the LCD stays on, as a
// game does in vblank) and ONE more frame is run on the same PPU, so whatever the PPU keeps from the earlier
// frames is still there.
func (r *sceneRun) render() string { return r.renderOn(true) }

func (r *sceneRun) renderOn(fresh bool) string {
	return guard(func() string {
		if !fresh && (r.p == nil || r.s.regs[0]&0x80 == 0) {
			return "none"
		}
		cycles := 17556
		if fresh {
			r.p = nil
			i := interrupts.New()
			r.o = oam.New()
			r.p = ppu.New(i, r.o, false)
			r.p.WriteLCDC(r.s.regs[0] & 0x7f) // LCD off while the scene is loaded
			cycles = 17554 + 17556
		}
		p, o := r.p, r.o
		for a := 0; a < 0x2000; a++ {
			p.WriteVideoRAM(uint16(0x8000+a), r.s.vram[a])
		}
		o.VerifSetOAM(r.s.oam)
		p.WriteSCX(r.s.regs[1])
		p.WriteSCY(r.s.regs[2])
		p.WriteWX(r.s.regs[3])
		p.WriteWY(r.s.regs[4])
		p.WriteBGP(r.s.regs[5])
		p.WriteOBP0(r.s.regs[6])
		p.WriteOBP1(r.s.regs[7])
		p.WriteLCDC(r.s.regs[0])
		for n := 0; n < cycles; n++ {
			p.EndMachineCycle()
		}
		return r.grab()
	})
}

// grab maps the emitted frame back to shade indices
func (r *sceneRun) grab() string {
	{
		p := r.p
		fr := p.Frame()
		out := make([]uint8, 160*144)
		h := uint32(0)
		for y := 0; y < 144; y++ {
			for x := 0; x < 160; x++ {
				v := shadeIndex(fr.RGBAAt(x, y))
				out[y*160+x] = v
				h = h*31 + uint32(v)
			}
		}
		r.frame = out
		return fmt.Sprintf("ok ; %08x", h)
	}
}

func packLine(px []uint8) string {
	var sb strings.Builder
	for i := 0; i < 160; i += 4 {
		if px[i] > 3 || px[i+1] > 3 || px[i+2] > 3 || px[i+3] > 3 {
			return "unwritten"
		}
		sb.WriteString(hx2(px[i]<<6 | px[i+1]<<4 | px[i+2]<<2 | px[i+3]))
	}
	return sb.String()
}

func parseHexBytes(s string) ([]uint8, bool) {
	if len(s)%2 != 0 || len(s) == 0 {
		return nil, false
	}
	out := make([]uint8, len(s)/2)
	for i := range out {
		var v int
		if _, err := fmt.Sscanf(s[2*i:2*i+2], "%02x", &v); err != nil {
			return nil, false
		}
		out[i] = uint8(v)
	}
	return out, true
}

func (r *sceneRun) do(op string) string {
	w := strings.Fields(op)
	out := "bad-op"
	switch {
	case len(w) == 1 && w[0] == "reset":
		r.s = defaultScene()
		r.frame = nil
		r.p = nil
		out = "ok"
	case len(w) == 3 && w[0] == "scene":
		r.s = genScene(uint32(unhex(w[1])), unhex(w[2]))
		r.frame = nil
		out = fmt.Sprintf("ok ; %08x", r.s.hash())
	case len(w) == 9 && w[0] == "regs":
		for i := 0; i < 8; i++ {
			r.s.regs[i] = uint8(unhex(w[1+i]))
		}
		out = "ok"
	case len(w) == 3 && w[0] == "vram":
		a := unhex(w[1])
		b, ok := parseHexBytes(w[2])
		if ok && a >= 0x8000 && a+len(b) <= 0xa000 {
			copy(r.s.vram[a-0x8000:], b)
			out = "ok"
		}
	case len(w) == 3 && w[0] == "oam":
		a := unhex(w[1])
		b, ok := parseHexBytes(w[2])
		if ok && a+len(b) <= 0xa0 {
			copy(r.s.oam[a:], b)
			out = "ok"
		}
	case len(w) == 1 && w[0] == "render":
		out = r.render()
		if out == "crash" {
			r.p = nil
		}
	case len(w) == 2 && w[0] == "offon":
		// the LCD of the running PPU is switched off k cycles into the frame and on again at once; the FIRST frame after
		// the restart must already be the complete and exact picture of the (constant) scene
		out = guard(func() string {
			if r.p == nil || r.s.regs[0]&0x80 == 0 {
				return "none"
			}
			for n := atoi(w[1]); n > 0; n-- {
				r.p.EndMachineCycle()
			}
			r.p.WriteLCDC(r.s.regs[0] & 0x7f)
			r.p.WriteLCDC(r.s.regs[0])
			for n := 0; n < 17554; n++ { // the FIRST frame after the restart (2 cycles shorter)
				r.p.EndMachineCycle()
			}
			return r.grab()
		})
		if out == "crash" {
			r.p = nil
		}
	case len(w) == 1 && w[0] == "next":
		out = r.renderOn(false)
		if out == "crash" {
			r.p = nil
		}
	case len(w) == 2 && w[0] == "line":
		y := atoi(w[1])
		if r.frame == nil || y < 0 || y >= 144 {
			out = "none"
		} else {
			px := packLine(r.frame[y*160 : y*160+160])
			if r.s.lineInProperty(y) {
				out = px + " ; " + px
			} else {
				out = "- ; " + px
			}
		}
	}
	r.c.emit(op, out)
	return out
}

func sceneReplay(c *ctx, ops []string) {
	r := &sceneRun{c: c, s: defaultScene()}
	for _, op := range ops {
		r.do(op)
	}
}

// ---- coverage classes: provenance of every pixel of the in-property lines, computed by a small
// independent reading of the scene (used ONLY to count distinct cases, never to judge an output).
func (s *sceneData) provenance(x, y int) string {
	lcdc := s.regs[0]
	tilePix := func(base, col, row int) int {
		lo := s.vram[base+2*row]
		hi := s.vram[base+2*row+1]
		return int(lo>>(7-uint(col)))&1 | (int(hi>>(7-uint(col)))&1)<<1
	}
	mapPix := func(mapHigh bool, u, v int) int {
		mb := 0x1800
		if mapHigh {
			mb = 0x1c00
		}
		n := int(s.vram[mb+32*(v/8)+u/8])
		base := 16 * n
		if lcdc&0x10 == 0 && n < 128 {
			base = 0x1000 + 16*n
		}
		return tilePix(base, u%8, v%8)
	}
	wx, wy := int(s.regs[3]), int(s.regs[4])
	under := ""
	var c int
	if lcdc&0x20 != 0 && wx <= 166 && wy <= 143 && x >= wx-7 && y >= wy {
		c = mapPix(lcdc&0x40 != 0, x-(wx-7), y-wy)
		under = fmt.Sprintf("win/a%d/m%d", (lcdc>>4)&1, (lcdc>>6)&1)
	} else {
		c = mapPix(lcdc&0x08 != 0, (x+int(s.regs[1]))%256, (y+int(s.regs[2]))%256)
		under = fmt.Sprintf("bg/a%d/m%d", (lcdc>>4)&1, (lcdc>>3)&1)
	}
	if lcdc&0x02 != 0 {
		for i := 0; i < 40; i++ {
			oy, ox, tile, attr := int(s.oam[4*i]), int(s.oam[4*i+1]), int(s.oam[4*i+2]), s.oam[4*i+3]
			if !(oy-16 <= y && y < oy-8 && ox-8 <= x && x < ox) {
				continue
			}
			col, row := x-(ox-8), y-(oy-16)
			if attr&0x20 != 0 {
				col = 7 - col
			}
			if attr&0x40 != 0 {
				row = 7 - row
			}
			oc := tilePix(16*tile, col, row)
			if oc == 0 {
				continue
			}
			clip := ""
			if oy < 16 {
				clip += "T"
			}
			if oy > 144 {
				clip += "B"
			}
			if ox < 8 {
				clip += "L"
			}
			if ox > 160 {
				clip += "R"
			}
			kind := "front"
			if attr&0x80 != 0 {
				if c != 0 {
					kind = "hidden"
				} else {
					kind = "behind0"
				}
			}
			return fmt.Sprintf("obj/%s/f%d%d/p%d/clip%s/over-%s", kind, (attr>>5)&1, (attr>>6)&1, (attr>>4)&1, clip, under[:strings.IndexByte(under, '/')])
		}
	}
	return fmt.Sprintf("%s/c%d", under, c)
}

func sceneGen(c *ctx) {
	r := &sceneRun{c: c, s: defaultScene()}
	// Part 1: fixed hand-written scenes (explicit ops): the non-vacuity scene of Proofs/C15.lean.
	r.do("reset")
	r.do("regs f3 00 00 57 48 e5 d2 1b")
	r.do("vram 8010 " + strings.Repeat("ff", 16))
	r.do("vram 8020 " + strings.Repeat("f03c", 7))
	r.do("vram 9800 " + strings.Repeat("0001", 512))
	r.do("vram 9c00 " + strings.Repeat("02", 1024))
	r.do("oam 00 0c140200" + "28040220" + "3c1e0190" + "64640250" + "8ca40200" + "9c5a0200")
	r.do("render")
	for y := 0; y < 144; y++ {
		r.do(fmt.Sprintf("line %d", y))
	}
	// Part 2: seeded scenes. In-property scenes (flags 0 or fBand) and out-of-property scenes (tagged).
	inProp, outProp := 28, 12
	if c.thorough() {
		inProp, outProp = 1100, 400
	}
	outFlags := []int{fUnsorted, fCrowd, fLowWX, fBgOff, fTall, fUnsorted | fCrowd, fLowWX | fBgOff | fTall | fUnsorted}
	linesIn, linesOut := 0, 0
	for k := 0; k < inProp+outProp; k++ {
		flags := 0
		if k < inProp {
			if k%4 == 3 {
				flags = fBand
			}
		} else {
			flags = outFlags[c.rng.intn(len(outFlags))]
		}
		seed := uint32(c.rng.next())
		r.do("reset")
		r.do(fmt.Sprintf("scene %08x %02x", seed, flags))
		res := r.do("render")
		if strings.HasPrefix(res, "crash") {
			c.class("crash")
		}
		for y := 0; y < 144; y++ {
			r.do(fmt.Sprintf("line %d", y))
			if r.s.lineInProperty(y) {
				linesIn++
				for x := 0; x < 160; x++ {
					c.class(r.s.provenance(x, y))
				}
			} else {
				linesOut++
			}
		}
	}
	// Part 3: histories.  A second (and third) scene is rendered on the SAME PPU after the first (`next`): a new
	// seeded scene, or the same scene with objects moved / parked (Y = 0 or >= 160) after having overlapped the
	// last visible lines; the frame of the later scene must not depend on what was shown before.
	nHist := 10
	if c.thorough() {
		nHist = 400
	}
	lines := func(tag string) {
		for y := 0; y < 144; y++ {
			r.do(fmt.Sprintf("line %d", y))
			if r.s.lineInProperty(y) {
				linesIn++
			} else {
				linesOut++
			}
		}
		c.class(tag)
	}
	for k := 0; k < nHist; k++ {
		r.do("reset")
		r.do(fmt.Sprintf("scene %08x 00", uint32(c.rng.next())))
		// some objects overlap the last visible lines in the first frame
		var moved []int
		for i := 0; i < 40; i++ {
			if c.rng.chance(25) && r.s.oam[4*i+1] != 0 {
				y := 145 + c.rng.intn(15)
				r.do(fmt.Sprintf("oam %02x %02x", 4*i, y))
				moved = append(moved, i)
			}
		}
		r.do("render")
		lines(fmt.Sprintf("history/first/%v", len(moved) > 0))
		for step := 0; step < 2; step++ {
			kind := c.rng.intn(3)
			switch kind {
			case 0: // a new scene altogether
				r.do(fmt.Sprintf("scene %08x 00", uint32(c.rng.next())))
			case 1: // park the moved objects (and a few others)
				for i := 0; i < 40; i++ {
					isMoved := false
					for _, j := range moved {
						if j == i {
							isMoved = true
						}
					}
					if isMoved || c.rng.chance(10) {
						y := []int{0, 0, 160, 161, 200, 255}[c.rng.intn(6)]
						r.do(fmt.Sprintf("oam %02x %02x", 4*i, y))
					}
				}
			default: // move objects vertically
				for i := 0; i < 40; i++ {
					if c.rng.chance(40) {
						r.do(fmt.Sprintf("oam %02x %02x", 4*i, c.rng.intn(176)))
					}
				}
			}
			r.do("next")
			lines(fmt.Sprintf("history/next/%d/%d", kind, step))
		}
	}
	c.notes["history_cases"] = nHist

	// Part 4: tile-number coincidences.  0x8800 addressing (LCDC.4 = 0), object tile numbers below 0x80 and the map
	// cells under each object holding the SAME number (so background tile 256+n meets object tile n), rows aligned.
	nAlias := 8
	if c.thorough() {
		nAlias = 300
	}
	for k := 0; k < nAlias; k++ {
		r.do("reset")
		r.do(fmt.Sprintf("scene %08x 00", uint32(c.rng.next())))
		g := r.s.regs
		lcdc := int(g[0])
		if k%4 != 3 {
			lcdc &^= 0x10
		}
		lcdc &^= 0x04
		lcdc |= 0x02
		r.do(fmt.Sprintf("regs %02x %02x %02x %02x %02x %02x %02x %02x", lcdc, g[1], g[2], g[3], g[4], g[5], g[6], g[7]))
		scx, scy := int(g[1]), int(g[2])
		mapBase := 0x9800
		if lcdc&0x08 != 0 {
			mapBase = 0x9c00
		}
		for i := 0; i < 40; i++ {
			y, x := int(r.s.oam[4*i]), int(r.s.oam[4*i+1])
			if y == 0 || y >= 160 {
				continue
			}
			n := int(r.s.oam[4*i+2]) & 0x7f
			if c.rng.chance(70) && y >= 8 {
				y -= (y + scy) % 8 // rows of the object and of the background tile coincide
			}
			r.do(fmt.Sprintf("oam %02x %02x%02x%02x", 4*i, y, x, n))
			row := ((y - 16 + scy) & 0xff) >> 3
			col := ((x - 8 + scx) & 0xff) >> 3
			for dr := 0; dr < 2; dr++ {
				for dc := 0; dc < 2; dc++ {
					cell := mapBase + ((row+dr)&31)*32 + ((col + dc) & 31)
					r.do(fmt.Sprintf("vram %04x %02x", cell, n))
				}
			}
		}
		r.do("render")
		lines(fmt.Sprintf("alias/%d", lcdc&0x10))
	}
	// Part 5: the LCD switched off in the middle of a frame (after window lines were drawn) and on again
	nOffOn := 8
	if c.thorough() {
		nOffOn = 200
	}
	for k := 0; k < nOffOn; k++ {
		r.do("reset")
		r.do(fmt.Sprintf("scene %08x 00", uint32(c.rng.next())))
		g := r.s.regs
		lcdc := int(g[0]) | 0x20 // window on
		wx, wy := 7+c.rng.intn(120), c.rng.intn(80)
		r.do(fmt.Sprintf("regs %02x %02x %02x %02x %02x %02x %02x %02x", lcdc, g[1], g[2], wx, wy, g[5], g[6], g[7]))
		r.do("render")
		r.do(fmt.Sprintf("offon %d", 114*(wy+1+c.rng.intn(143-wy))+c.rng.intn(114)))
		lines("offon")
	}
	c.notes["lcd_off_on_cases"] = nOffOn
	c.notes["tile_coincidence_cases"] = nAlias
	c.notes["scenes_in_property_flags"] = inProp
	c.notes["scenes_out_of_property_flags"] = outProp
	c.notes["lines_checked_against_spec"] = linesIn
	c.notes["lines_checked_model_vs_code_only"] = linesOut
	c.notes["pixels_checked_against_spec"] = linesIn * 160
	c.notes["generator"] = "LCG-derived scenes: random registers (WX 7/166/hidden/any, WY 0/143/hidden/any), 384 tiles (1/4 blank, 1/8 solid, else random), random or 4-tile maps, 0-40 objects with Y in 1-15 / 145-159 / any / visible and X in 1-7 / 161-167 / any / visible (1/8 each edge class), random tile and attribute bytes; sorted by X and filtered to ten per line unless flagged"
}
