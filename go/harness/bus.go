package main

import (
	"fmt"
	"strings"

	"github.com/scottyw/tetromino/gameboy/controller"
)

// mode bus (C06, C07): a WHOLE machine wired as gameboy.New does (newMachine), driven through
// Mapper.Read / Mapper.Write and the per-cycle calls that touch the bus state.
//
// ops:  reset <type2> <romsize2> <ramsize2> <lcd 0|1>   image of 0x4000*(2<<romsize) bytes, byte o of page b =
//
//	                                                cartSig(b,o), header 0147/0148/0149 = type/romsize/ramsize;
//	                                                lcd 0 = Mapper.Write(FF40, 00) right after construction
//	                                                -> ok | fail
//	w <addr4> <val2>     Mapper.Write                                      -> ok | crash
//	r <addr4>            Mapper.Read                                       -> <val2> | crash
//	snap                 checksums (FNV-1a/32 over the values read, a panicking read counts as 0x100) of
//	                     Mapper.Read over 8000-9FFF, C000-FDFF, FE00-FEFF, then FF00-FF0F and FF40-FF4B as hex,
//	                     FF4C-FF7F, FF80-FFFF ; internal: 0000-7FFF sampled, A000-BFFF sampled, OAM engine flags.
//	                     FF10-FF3F is never read (APU: C18's own check).
//	ls <addr4>           light snapshot around <addr>: FF00-FF0F, FF40-FF4B, addr-1, addr, addr+1, addr^2000,
//	                     and 12 addresses derived from addr (one checksum; cartridge addresses in a second,
//	                     internal checksum; APU addresses skipped)
//	tm | tp | tt         mapper.EndMachineCycle | ppu.EndMachineCycle | timer.EndMachineCycle (+RequestTimer)
//	btn <b> <0|1>        controller.ButtonAction
//	cor | trg <addr4>    oam.Corrupt() | oam.TriggerWriteCorruption (what the CPU calls; LCD-on runs)
//
// Output = <part the C06/C07 theorems determine> ; <internal>.  With the LCD ON (FF40 bit 7 as read back), for
// cartridge addresses, FF10-FF3F and the tick operations everything is printed in the internal part
// (model-vs-code only).  After a single `w` between two `snap`s the harness itself compares the two snapshots
// of the REAL code with the documented footprint of the written address and appends FRAME-VIOLATION(...) if a
// location outside the footprint changed (the proved model never prints that).
func init() { modes["bus"] = modeFn{gen: busGen, replay: busReplay} }

type busGroup struct {
	name  string
	addrs []uint16
}

var busGroups = func() []busGroup {
	rng := func(lo, hi int) []uint16 {
		var xs []uint16
		for a := lo; a <= hi; a++ {
			xs = append(xs, uint16(a))
		}
		return xs
	}
	var cLo, cHi []uint16
	for a := 0; a < 0x8000; a += 0x101 {
		cLo = append(cLo, uint16(a))
	}
	cLo = append(cLo, 0x3fff, 0x4000, 0x7fff)
	for a := 0xa000; a < 0xc000; a += 0x41 {
		cHi = append(cHi, uint16(a))
	}
	cHi = append(cHi, 0xbfff)
	return []busGroup{
		{"vram", rng(0x8000, 0x9fff)},
		{"wram", rng(0xc000, 0xfdff)},
		{"oam", rng(0xfe00, 0xfeff)},
		{"io1", rng(0xff00, 0xff0f)},
		{"io2", rng(0xff40, 0xff4b)},
		{"unm", rng(0xff4c, 0xff7f)},
		{"hram", rng(0xff80, 0xffff)},
		{"rom", cLo},
		{"cram", cHi},
	}
}()

const busObsGroups = 7 // the first 7 groups are covered by the theorems (LCD off)

type busRun struct {
	c      *ctx
	m      *machine
	prev   [][]int // values of the previous snap per group, nil if none
	spare  [][]int // buffer reused for the next snap
	lastW  int     // address of the ONLY write since the previous snap; -1 none; -2 other state-changing ops
	lastV  int
	frames int
	viol   int
}

func busIsCart(a int) bool { return a < 0x8000 || (a >= 0xa000 && a < 0xc000) }
func busIsApu(a int) bool  { return a >= 0xff10 && a < 0xff40 }

// documented footprint of a write to a (same table as Tetro.Spec.BusSpec.footprint)
func busInFootprint(a, b int) bool {
	if a == b {
		return true
	}
	switch {
	case a < 0x8000:
		return busIsCart(b)
	case a >= 0xa000 && a < 0xc000:
		return b >= 0xa000 && b < 0xc000
	case a >= 0xc000 && a < 0xde00:
		return b == a+0x2000
	case a >= 0xe000 && a < 0xfe00:
		return b == a-0x2000
	case a == 0xff04 || a == 0xff06 || a == 0xff07:
		return b == 0xff05
	case a == 0xff40:
		return b == 0xff41 || b == 0xff44
	case a == 0xff46:
		return b >= 0xfe00 && b < 0xff00
	case busIsApu(a):
		return busIsApu(b)
	}
	return false
}

func busRegion(a int) string {
	switch {
	case a < 0x8000:
		return fmt.Sprintf("cart-ctl%x", a>>13)
	case a < 0xa000:
		return "vram"
	case a < 0xc000:
		return "cart-ram"
	case a < 0xde00:
		return "wram-mirrored"
	case a < 0xe000:
		return "wram-top"
	case a < 0xfe00:
		return "echo"
	case a < 0xfea0:
		return "oam"
	case a < 0xff00:
		return "unusable"
	case a < 0xff80:
		return fmt.Sprintf("io-%04x", a)
	case a < 0xffff:
		return "hram"
	}
	return "ie"
}

func busValClass(v int) string {
	switch {
	case v == 0:
		return "00"
	case v == 0xff:
		return "ff"
	case v == 0x55 || v == 0xaa:
		return "alt"
	case v&(v-1) == 0:
		return "onehot"
	case v >= 0x80:
		return "hi"
	}
	return "lo"
}

func fnvInts(xs []int) uint32 {
	h := uint32(2166136261)
	for _, x := range xs {
		h ^= uint32(x)
		h *= 16777619
	}
	return h
}

func (x *busRun) read(a uint16) (v int) {
	defer func() {
		if r := recover(); r != nil {
			v = 0x100
		}
	}()
	return int(x.m.mapper.Read(a))
}

func (x *busRun) lcdOn() bool { return x.m.ppu.ReadLCDC()&0x80 != 0 }

func (x *busRun) oamFlags() string {
	v := x.m.oam.VerifGet()
	return fmt.Sprintf("%s%04x%s%s%s%s", b01(v.DMARunning), v.DMACycle, b01(v.Corrupt), b01(v.Read), b01(v.Write),
		b01(v.DoubleWrite))
}

func (x *busRun) snap() string {
	on := x.lcdOn()
	cur := x.spare
	if cur == nil {
		cur = make([][]int, len(busGroups))
		for gi, g := range busGroups {
			cur[gi] = make([]int, len(g.addrs))
		}
	}
	parts := make([]string, len(busGroups))
	for gi, g := range busGroups {
		vals := cur[gi]
		for i, a := range g.addrs {
			vals[i] = x.read(a)
		}
		cur[gi] = vals
		if g.name == "io1" || g.name == "io2" {
			var sb strings.Builder
			for _, v := range vals {
				if v > 0xff {
					sb.WriteString("xx")
				} else {
					sb.WriteString(hx2(uint8(v)))
				}
			}
			parts[gi] = sb.String()
		} else {
			parts[gi] = fmt.Sprintf("%08x", fnvInts(vals))
		}
	}
	// the harness's own frame check on the real code
	note := ""
	if x.prev != nil && x.lastW >= 0 {
		x.frames++
		var outside []string
		nIn := 0
		for gi, g := range busGroups {
			for i, a := range g.addrs {
				if x.prev[gi][i] != cur[gi][i] {
					if busInFootprint(x.lastW, int(a)) {
						nIn++
					} else {
						outside = append(outside, hx4(a))
					}
				}
			}
		}
		kind := "unchanged"
		if nIn == 1 {
			kind = "one"
		} else if nIn == 2 {
			kind = "two"
		} else if nIn > 2 {
			kind = "many"
		}
		if len(outside) > 0 {
			kind += "+OUTSIDE"
			x.viol++
			if len(outside) > 4 {
				outside = outside[:4]
			}
			note = " FRAME-VIOLATION(w=" + hx4(uint16(x.lastW)) + ":" + strings.Join(outside, ",") + ")"
		}
		lcd := "off"
		if on {
			lcd = "on"
		}
		x.c.class(busRegion(x.lastW) + "/" + busValClass(x.lastV) + "/" + kind + "/lcd-" + lcd)
	}
	x.spare = x.prev
	x.prev = cur
	x.lastW = -1
	obs := strings.Join(parts[:busObsGroups], " ")
	internal := strings.Join(parts[busObsGroups:], " ") + " " + x.oamFlags()
	if on {
		return "- ; " + obs + " " + internal + note
	}
	return obs + note + " ; " + internal
}

// the addresses of a light snapshot, in order (APU addresses skipped)
func busLightAddrs(a int) []int {
	var xs []int
	for b := 0xff00; b <= 0xff0f; b++ {
		xs = append(xs, b)
	}
	for b := 0xff40; b <= 0xff4b; b++ {
		xs = append(xs, b)
	}
	xs = append(xs, (a+0xffff)&0xffff, a, (a+1)&0xffff, a^0x2000)
	for k := 1; k <= 12; k++ {
		xs = append(xs, (a*0x9e37+k*0x1235+k*k*0x0101)&0xffff)
	}
	var ys []int
	for _, b := range xs {
		if !busIsApu(b) {
			ys = append(ys, b)
		}
	}
	return ys
}

func (x *busRun) light(a int) string {
	on := x.lcdOn()
	var obs, in []int
	for _, b := range busLightAddrs(a) {
		v := x.read(uint16(b))
		if busIsCart(b) {
			in = append(in, v)
		} else {
			obs = append(obs, v)
		}
	}
	so, si := fmt.Sprintf("%08x", fnvInts(obs)), fmt.Sprintf("%08x", fnvInts(in))
	if on {
		return "- ; " + so + " " + si
	}
	return so + " ; " + si
}

func (x *busRun) do(op string) string {
	w := strings.Fields(op)
	var out string
	switch {
	case w[0] == "reset" && len(w) == 5:
		typ, rsz, ramsz := uint8(unhex(w[1])), uint8(unhex(w[2])), uint8(unhex(w[3]))
		x.m = nil
		if x.prev != nil {
			x.spare, x.prev = x.prev, nil
		}
		x.lastW = -1
		if rsz > 8 {
			out = "fail"
			break
		}
		// a private copy: the machine keeps the slice, cartImage caches it
		img := append([]byte(nil), cartImage(typ, rsz, ramsz, defaultLen(rsz))...)
		out = guard(func() string {
			x.m = newMachine(img, false)
			if w[4] == "0" {
				x.m.mapper.Write(0xff40, 0x00)
			}
			return "ok"
		})
		if out == "crash" {
			out = "fail"
			x.m = nil
		}
	case x.m == nil:
		out = "nomachine"
	case w[0] == "w" && len(w) == 3:
		a, v := unhex(w[1]), unhex(w[2])
		out = guard(func() string { x.m.mapper.Write(uint16(a), uint8(v)); return "ok" })
		if x.lastW == -1 {
			x.lastW, x.lastV = a, v
		} else {
			x.lastW = -2
		}
	case w[0] == "r" && len(w) == 2:
		a := unhex(w[1])
		on := x.lcdOn()
		out = guard(func() string { return hx2(x.m.mapper.Read(uint16(a))) })
		if on || busIsCart(a) || busIsApu(a) {
			out = "- ; " + out
		}
	case w[0] == "snap" && len(w) == 1:
		out = x.snap()
	case w[0] == "ls" && len(w) == 2:
		out = x.light(unhex(w[1]))
	case w[0] == "tm" && len(w) == 1:
		out = guard(func() string { x.m.mapper.EndMachineCycle(); return "ok" })
		x.lastW = -2
	case w[0] == "tp" && len(w) == 1:
		out = guard(func() string { x.m.ppu.EndMachineCycle(); return "ok" })
		x.lastW = -2
	case w[0] == "tt" && len(w) == 1:
		out = guard(func() string {
			irq := x.m.timer.EndMachineCycle()
			if irq {
				x.m.intr.RequestTimer()
			}
			return "ok ; irq=" + b01(irq)
		})
		x.lastW = -2
	case w[0] == "btn" && len(w) == 3:
		x.m.ctl.ButtonAction(controller.Button(atoi(w[1])), w[2] == "1")
		out = "ok"
		x.lastW = -2
	case w[0] == "cor" && len(w) == 1:
		out = guard(func() string { x.m.oam.Corrupt(); return "ok" })
		x.lastW = -2
	case w[0] == "trg" && len(w) == 2:
		x.m.oam.TriggerWriteCorruption(uint16(unhex(w[1])))
		out = "ok"
		x.lastW = -2
	default:
		out = "bad-op"
	}
	x.c.emit(op, out)
	return out
}

func busReplay(c *ctx, ops []string) {
	x := &busRun{c: c, lastW: -1}
	for _, op := range ops {
		x.do(op)
	}
}

// ---------------------------------------------------------------------------------------------

var busBoundary = []int{0x0000, 0x1fff, 0x2000, 0x3fff, 0x4000, 0x5fff, 0x6000, 0x7fff, 0x8000, 0x9fff, 0xa000, 0xbfff, 0xc000, 0xddff,
	0xde00, 0xdfff, 0xe000, 0xfdff, 0xfe00, 0xfe9f, 0xfea0, 0xfeff, 0xff7f, 0xff80, 0xfffe, 0xffff, 0xff4c, 0xff50, 0xff03, 0xff08}

var busValues = []int{0x00, 0xff, 0x55, 0xaa, 0x01, 0x02, 0x04, 0x08, 0x10, 0x20, 0x40, 0x80}

func busIOAddrs() []int {
	var xs []int
	for a := 0xff00; a <= 0xff0f; a++ {
		xs = append(xs, a)
	}
	for a := 0xff40; a <= 0xff4b; a++ {
		xs = append(xs, a)
	}
	return xs
}

// an address, biased to region boundaries and I/O registers; never FF10-FF3F
func (x *busRun) randAddr() int {
	r := x.c.rng
	for {
		var a int
		switch k := r.intn(20); {
		case k < 4:
			a = busBoundary[r.intn(len(busBoundary))]
		case k < 8:
			io := busIOAddrs()
			a = io[r.intn(len(io))]
		case k < 10:
			a = 0xc000 + r.intn(0x3e00) // wram + echo
		case k < 12:
			a = 0x8000 + r.intn(0x2000)
		case k < 13:
			a = 0xfe00 + r.intn(0x100)
		case k < 14:
			a = 0xff80 + r.intn(0x80)
		case k < 15:
			a = 0xff00 + r.intn(0x80)
		case k < 16:
			a = 0xa000 + r.intn(0x2000)
		case k < 17:
			a = r.intn(0x8000)
		default:
			a = int(r.u16())
		}
		if !busIsApu(a) {
			return a
		}
	}
}

func (x *busRun) randVal() int {
	r := x.c.rng
	if r.chance(40) {
		return busValues[r.intn(len(busValues))]
	}
	return int(r.byte())
}

// after a write that makes the following observations uninformative (LCD switched on, DMA started): undo it
func (x *busRun) settle(a, v int) {
	if a == 0xff46 {
		for k := 0; k < 162; k++ {
			x.do("tm")
		}
		x.do("snap")
	}
	if a == 0xff40 && v&0x80 != 0 {
		x.do(fmt.Sprintf("w ff40 %02x", v&0x7f))
		x.do("snap")
	}
}

// a random prefix that leaves a machine with the LCD off and no DMA running, but otherwise arbitrary state
func (x *busRun) randomise(n int) {
	r := x.c.rng
	for i := 0; i < n; i++ {
		switch k := r.intn(16); {
		case k < 9:
			x.do(fmt.Sprintf("w %04x %02x", x.randAddr(), x.randVal()))
		case k < 10:
			x.do(fmt.Sprintf("w ff40 %02x", 0x80|r.intn(0x80)))
			for j := r.intn(300); j > 0; j-- {
				x.do("tp")
			}
		case k < 12:
			x.do("tt")
		case k < 13:
			x.do("tm")
		case k < 14:
			x.do(fmt.Sprintf("btn %d %d", r.intn(8), r.intn(2)))
		default:
			x.do(fmt.Sprintf("r %04x", x.randAddr()))
		}
	}
	for k := 0; k < 162; k++ {
		x.do("tm")
	}
	x.do(fmt.Sprintf("w ff40 %02x", r.intn(0x80)))
	x.do("snap")
}

type busCart struct{ typ, rs, ras int }

var busCarts = []busCart{{0x00, 0, 0}, {0x00, 0, 0}, {0x03, 2, 3}, {0x13, 2, 3}, {0x1b, 3, 3}, {0x06, 1, 0}, {0x00, 0, 0}, {0x01, 1, 0},
	{0x10, 1, 2}, {0x1a, 2, 2}}

func busGen(c *ctx) {
	x := &busRun{c: c, lastW: -1}
	nStates, perState, nSeq, seqLen := 8, 2500, 200, 200
	if c.thorough() {
		nStates, perState, nSeq = 10, 6000, 5000
	}
	singles := 0
	// Part A: single writes, each followed by a FULL snapshot, from power-on (state 0) and randomised states.
	for s := 0; s < nStates; s++ {
		ct := busCarts[s%len(busCarts)]
		reset := fmt.Sprintf("reset %02x %02x %02x 0", ct.typ, ct.rs, ct.ras)
		done := 0
		chunk := 0
		fresh := func() {
			x.do(reset)
			if s > 0 {
				x.randomise(120)
			} else {
				x.do("snap")
			}
			chunk = 0
		}
		one := func(a, v int) {
			// keep every replay short: a new reset (same cartridge, new random prefix) every 600 writes
			if chunk >= 600 {
				fresh()
			}
			x.do(fmt.Sprintf("w %04x %02x", a, v))
			x.do("snap")
			x.settle(a, v)
			done++
			chunk++
			singles++
		}
		fresh()
		addrs := append(append([]int{}, busBoundary...), busIOAddrs()...)
		for _, a := range addrs {
			for _, v := range busValues {
				one(a, v)
			}
		}
		for done < perState {
			one(x.randAddr(), x.randVal())
		}
	}
	c.notes["single_writes_with_full_snapshot"] = singles

	// Part A2 (thorough): EVERY address (outside FF10-FF3F) x 8 values from 4 states, a light snapshot after every write
	// and a full one every 16 writes (a stray change persists, so the next full snapshot shows it).
	if c.thorough() {
		vals := []int{0x00, 0xff, 0x55, 0xaa, 0x01, 0x80, 0x3c, 0xc3}
		n := 0
		for s := 0; s < 4; s++ {
			ct := busCarts[[]int{0, 2, 3, 4}[s]]
			reset := fmt.Sprintf("reset %02x %02x %02x 0", ct.typ, ct.rs, ct.ras)
			for a := 0; a < 0x10000; a++ {
				if busIsApu(a) {
					continue
				}
				if a%0x200 == 0 {
					x.do(reset)
					if s > 0 {
						x.randomise(60)
					} else {
						x.do("snap")
					}
				}
				for vi, v := range vals {
					if s > 1 {
						v = (v + a*7 + s) & 0xff
					}
					x.do(fmt.Sprintf("w %04x %02x", a, v))
					x.do(fmt.Sprintf("ls %04x", a))
					n++
					if n%16 == 0 || a >= 0xff00 && a < 0xff80 && vi%4 == 0 {
						x.do("snap")
					}
					x.settle(a, v)
				}
			}
		}
		c.notes["exhaustive_single_writes"] = n
	}

	// Part B: random sequences, 1 in 4 with the LCD on (internal comparison only) incl. the CPU-side OAM-bug calls.
	for q := 0; q < nSeq; q++ {
		ct := busCarts[c.rng.intn(len(busCarts))]
		lcd := 0
		if q%4 == 3 {
			lcd = 1
		}
		if x.do(fmt.Sprintf("reset %02x %02x %02x %d", ct.typ, ct.rs, ct.ras, lcd)) != "ok" {
			continue
		}
		if lcd == 1 && q%8 != 7 {
			x.do("tp") // the first PPU tick precedes any OAM access of a real CPU
		}
		// With the LCD on the sequence follows the real schedule around the OAM-bug state: the CPU calls
		// oam.Corrupt() right after every access that may have set a flag (any FE00-FEFF access, incl. the reads
		// of a snapshot), and a PPU tick follows the cycle that wrote LCDC.  (ppuLastAccess is modelled for the
		// mode-2 sprite scan only; the rendering fetches of mode 3 belong to C15.)
		cor := func(a int) {
			if lcd == 1 && a >= 0xfe00 && a < 0xff00 {
				x.do("cor")
			}
		}
		for i := 0; i < seqLen; i++ {
			r := c.rng
			switch k := r.intn(100); {
			case k < 45:
				a, v := x.randAddr(), x.randVal()
				if lcd == 0 && a == 0xff40 {
					v &= 0x7f
				}
				x.do(fmt.Sprintf("w %04x %02x", a, v))
				cor(a)
				if lcd == 1 && a == 0xff40 {
					x.do("tp")
				}
				if r.chance(50) {
					x.do(fmt.Sprintf("r %04x", a))
					cor(a)
				}
			case k < 65:
				a := x.randAddr()
				x.do(fmt.Sprintf("r %04x", a))
				cor(a)
			case k < 69:
				x.do("snap")
				cor(0xfe00)
			case k < 76:
				for j := 1 + r.intn(40); j > 0; j-- {
					x.do("tm")
				}
			case k < 84:
				for j := 1 + r.intn(30); j > 0; j-- {
					x.do("tp")
					if lcd == 1 && r.chance(30) {
						if r.chance(50) {
							x.do(fmt.Sprintf("r %04x", 0xfe00+r.intn(0x100)))
						} else {
							x.do(fmt.Sprintf("w %04x %02x", 0xfe00+r.intn(0x100), r.byte()))
						}
						if r.chance(30) {
							x.do(fmt.Sprintf("trg %04x", 0xfe00+r.intn(0x100)))
						}
						x.do("cor")
					}
				}
			case k < 92:
				for j := 1 + r.intn(20); j > 0; j-- {
					x.do("tt")
				}
			case k < 96:
				x.do(fmt.Sprintf("btn %d %d", r.intn(8), r.intn(2)))
			default:
				a := x.randAddr()
				x.do(fmt.Sprintf("ls %04x", a))
				cor(0xfe00)
			}
		}
		x.do("snap")
		c.class(fmt.Sprintf("seq/%02x/lcd%d", ct.typ, lcd))
	}
	// Part C: timer phases.  The timer registers are written in every phase of the overflow / reload sequence (the
	// cycle of the overflow, the cycle(s) TIMA reads 00, the reload cycle, the cycle after), each write between two
	// full snapshots and followed by one more after the next timer tick.
	nPhase := 800
	if c.thorough() {
		nPhase = 6000
	}
	for q := 0; q < nPhase; q++ {
		r := c.rng
		if x.do("reset 00 00 00 0") != "ok" {
			continue
		}
		tac := 4 | []int{1, 1, 1, 2, 3, 0}[r.intn(6)]
		x.do(fmt.Sprintf("w ff06 %02x", r.byte()))
		x.do(fmt.Sprintf("w ff07 %02x", tac))
		x.do(fmt.Sprintf("w ff05 %02x", 0xfc+r.intn(4)))
		pre := r.intn(20)
		for j := 0; j < pre; j++ {
			x.do("tt")
		}
		edge := r.intn(4)
		switch edge {
		case 1:
			x.do("w ff04 00")
		case 2:
			x.do(fmt.Sprintf("w ff07 %02x", r.intn(4)))
		}
		mid := r.intn(4)
		for j := 0; j < mid; j++ {
			x.do("tt")
		}
		x.do("snap")
		a := []int{0xff06, 0xff06, 0xff05, 0xff04, 0xff07}[r.intn(5)]
		v := 1 + r.intn(255)
		if r.chance(30) {
			v = []int{0x00, 0x00, 0xff, 0x01}[r.intn(4)] // incl. the value TIMA shows in the zero cycle
		}
		x.do(fmt.Sprintf("w %04x %02x", a, v))
		x.do("snap")
		x.do("tt")
		x.do("snap")
		x.do("tt")
		x.do("snap")
		c.class(fmt.Sprintf("timer-phase/tac%d/edge%d/%04x", tac&3, edge, a))
	}
	c.notes["timer_phase_cases"] = nPhase
	c.notes["random_sequences"] = nSeq
	c.notes["frame_checks_on_real_code"] = x.frames
	c.notes["frame_violations_on_real_code"] = x.viol
	c.notes["input_distribution"] = "single writes: 58 boundary/I-O addresses x 12 values (00 ff 55 aa one-hot) per state, then addresses " +
		"20% boundaries, 20% I/O registers, 10% WRAM+echo, 10% VRAM, 5% each OAM/HRAM/FFxx/cart RAM/cart control, 15% uniform; values 40% " +
		"boundary values; states: power-on + randomised (120-op prefix with writes, LCD on/off, ticks, buttons) on ROM-only, MBC1, " +
		"MBC2, MBC3, MBC5; FF10-FF3F never accessed"
}
