package main

import (
	"bytes"
	"fmt"
	"math"
	"os"
	"path/filepath"
	"runtime/debug"
	"sort"
	"strings"

	"github.com/scottyw/tetromino/gameboy/audio"
	"github.com/scottyw/tetromino/gameboy/controller"
	"github.com/scottyw/tetromino/gameboy/cpu"
	"github.com/scottyw/tetromino/gameboy/interrupts"
	"github.com/scottyw/tetromino/gameboy/memory"
	"github.com/scottyw/tetromino/gameboy/oam"
	"github.com/scottyw/tetromino/gameboy/ppu"
	"github.com/scottyw/tetromino/gameboy/serial"
	"github.com/scottyw/tetromino/gameboy/timer"
)

// mode prog: the WHOLE real machine (wired as gameboy.New, with a serial writer and both speaker channels
// attached) against the whole-machine Lean model (Tetro.Model.Whole), on ROM files and synthetic programs.
//
// ops:  reset load <path>     ROM file, path relative to <repo>/gameboy/testdata ('*' stands for a space)
//	                            -> ok | construct-failed | no-such-file
//	      reset synth <seed>    synthetic 32 KiB ROM-only image of defined opcodes (= synthRom of mode multi) -> ok
//	      btn <b> <0|1>         controller.ButtonAction                                   -> ok
//	      run <n>               n machine cycles: the runFrame loop body, with the prediction of the
//	                            undefined-opcode exit                                     -> ok | exit | crash
//	      st                    CPU registers, IME/IF/IE, halted, LY STAT LCDC, DIV TIMA TMA TAC, NR52, DMA, JOYP,
//	                            FNV-1a/32 of WRAM, HRAM, VRAM, OAM ; CPU scratch registers, cycle index, flags,
//	                            instruction boundary, timer counter, OAM engine flags, APU internals, RTC (MBC3)
//	      fr                    FNV-1a/32 of the frame (shade indices, 4 = never rendered), of cartridge RAM, serial
//	                            log length:checksum, number of samples so far and the running checksums of
//	                            round(sample*19200) left/right
//
// After `exit` / `crash` every st/fr/run prints that token.
func init() { modes["prog"] = modeFn{gen: progGen, replay: progReplay} }

type progRun struct {
	c        *ctx
	m        *machine
	l, r     chan float32
	nS       int
	ckL, ckR uint32
	maxDev   float64
	dead     string
	mbc3     bool
	// two DECOY machines in the same process, one created before and one after the machine under test, running a
	// busy program of their own (LCD, sound, DMA, timer, key presses) interleaved with it.  They are not modelled:
	// the model's prediction is that the machine under test cannot tell.
	decoys  []*machine
	decoyCh []chan float32
	nStarts int
}

func newProgMachine(rom []byte, l, r chan float32) *machine {
	m := &machine{}
	m.intr = interrupts.New()
	m.oam = oam.New()
	m.audio = audio.New(l, r)
	m.ppu = ppu.New(m.intr, m.oam, false)
	m.serial = &bytes.Buffer{}
	sw := serial.New(m.serial)
	m.timer = timer.New()
	m.ctl = controller.New()
	m.mapper = memory.New(rom, m.intr, m.oam, m.ppu, m.ctl, sw, m.timer, m.audio)
	m.cpu = cpu.New(m.intr, m.oam, false, m.mapper)
	m.cpu.Initialize()
	return m
}

func fnv32(h uint32, v uint32) uint32 { return (h ^ v) * 16777619 }

const fnvInit = uint32(2166136261)

func (x *progRun) start(rom []byte) string {
	x.m = nil
	x.dead = ""
	x.nS, x.ckL, x.ckR = 0, 0, 0
	x.l = make(chan float32, 1<<16)
	x.r = make(chan float32, 1<<16)
	x.decoys, x.decoyCh = nil, nil
	x.nStarts++
	mkDecoy := func(k int) {
		guard(func() string {
			g := &rng{s: uint64(7919*x.nStarts + k)}
			w := strings.Fields(progCode(g, progEmphasis()))
			hdr := w[2]
			if len(rom) > 0x149 && rom[0x148] <= 3 {
				// the same cartridge type and ROM size as the machine under test (state wrongly shared between
				// instances is usually keyed by those), the declared RAM size sometimes different
				ras := rom[0x149]
				if g.chance(50) {
					ras = []uint8{0, 2, 3}[g.intn(3)]
				}
				hdr = fmt.Sprintf("%02x%02x%02x", rom[0x147], rom[0x148], ras)
			}
			if img := progCodeRom(hdr, w[3:]); img != nil {
				l, r := make(chan float32, 1<<14), make(chan float32, 1<<14)
				x.decoyCh = append(x.decoyCh, l, r)
				x.decoys = append(x.decoys, newProgMachine(img, l, r))
			}
			return "ok"
		})
	}
	mkDecoy(0)
	res := guard(func() string {
		x.m = newProgMachine(rom, x.l, x.r)
		return "ok"
	})
	if res != "ok" {
		x.m = nil
		return "construct-failed"
	}
	mkDecoy(1)
	t := rom[0x147]
	x.mbc3 = t >= 0x0f && t <= 0x13
	return "ok"
}

func (x *progRun) drain() {
	one := func(ch chan float32, ck *uint32) int {
		n := 0
		for len(ch) > 0 {
			f := float64(<-ch)
			s := f * apuD
			k := math.Round(s)
			if d := math.Abs(s - k); d > x.maxDev {
				x.maxDev = d
			}
			*ck = *ck*16777619 + uint32(k) + 1
			n++
		}
		return n
	}
	n := one(x.l, &x.ckL)
	one(x.r, &x.ckR)
	x.nS += n
}

func (x *progRun) run(n int) string {
	if x.dead != "" {
		return x.dead
	}
	res := guard(func() string {
		if os.Getenv("VERIF_DEBUG") != "" {
			defer func() {
				if r := recover(); r != nil {
					fmt.Fprintf(os.Stderr, "panic in run: %v\n%s\n", r, debug.Stack())
					panic(r)
				}
			}()
		}
		for n > 0 {
			k := n
			if k > 1<<17 {
				k = 1 << 17
			}
			for j := 0; j < k; j++ {
				x.m.cycle()
				if x.m.exited {
					return "exit"
				}
			}
			x.stepDecoys(k/3 + 5)
			x.drain()
			n -= k
		}
		return "ok"
	})
	x.drain()
	if res != "ok" {
		x.dead = res
	}
	return res
}

func (x *progRun) stepDecoys(n int) {
	defer func() {
		for _, ch := range x.decoyCh {
			for len(ch) > 0 {
				<-ch
			}
		}
	}()
	for i, d := range x.decoys {
		if d == nil {
			continue
		}
		if guard(func() string {
			for j := 0; j < n; j++ {
				d.cycle()
			}
			return "ok"
		}) != "ok" {
			x.decoys[i] = nil // a decoy that panics is dropped (its program is arbitrary)
		}
	}
}

func (x *progRun) st() string {
	if x.dead != "" {
		return x.dead
	}
	m := x.m
	s := m.cpu.VerifGet()
	rd := m.mapper.Read
	hw, hh, hv, ho := fnvInit, fnvInit, fnvInit, fnvInit
	for a := 0xc000; a < 0xe000; a++ {
		hw = fnv32(hw, uint32(rd(uint16(a))))
	}
	for a := 0xff80; a < 0xffff; a++ {
		hh = fnv32(hh, uint32(rd(uint16(a))))
	}
	for a := 0x8000; a < 0xa000; a++ {
		hv = fnv32(hv, uint32(m.ppu.ReadVideoRAM(uint16(a))))
	}
	o := m.oam.VerifGet()
	for _, b := range o.OAM {
		ho = fnv32(ho, uint32(b))
	}
	obs := fmt.Sprintf("%02x %02x %02x %02x %02x %02x %02x %02x %04x %04x ime=%s if=%02x ie=%02x halted=%s "+
		"ly=%02x stat=%02x lcdc=%02x div=%02x tima=%02x tma=%02x tac=%02x nr52=%02x dma=%02x joyp=%02x "+
		"wram=%08x hram=%08x vram=%08x oam=%08x",
		s.A, s.B, s.C, s.D, s.E, s.F, s.H, s.L, s.SP, s.PC, b01(m.intr.Enabled()), rd(0xff0f), rd(0xffff), b01(s.Halted),
		rd(0xff44), rd(0xff41), rd(0xff40), rd(0xff04), rd(0xff05), rd(0xff06), rd(0xff07), rd(0xff26), rd(0xff46), rd(0xff00),
		hw, hh, hv, ho)
	av := m.audio.VerifGet()
	apu := fmt.Sprintf("%016x %016x %02x %02x %02x %04x %02x %02x %04x %02x %02x %02x %02x %04x",
		av.Ticks, av.FrameSeqTicks, av.Duty1, av.Duty2, av.WavePos, av.LFSR, av.Len1, av.Len2, av.Len3, av.Len4,
		av.Vol1, av.Vol2, av.Vol4, av.Freq1)
	in := fmt.Sprintf("%02x %02x %02x %02x cyc=%d hb=%s st=%s ei=%s bnd=%s ctr=%04x oamf=%s%04x%s%s%s%s apu=%s",
		s.U8a, s.U8b, s.M8a, s.M8b, s.Cycle, b01(s.Haltbug), b01(s.Stopped), b01(s.EIPending), b01(m.cpu.VerifAtBoundary()),
		m.timer.VerifCounter(), b01(o.DMARunning), o.DMACycle, b01(o.Corrupt), b01(o.Read), b01(o.Write), b01(o.DoubleWrite), apu)
	if x.mbc3 {
		r := m.mapper.VerifRTCGet()
		in += fmt.Sprintf(" rtc=%02x%02x%02x%04x%s%s:%d", r.S, r.M, r.H, r.D, b01(r.Carry), b01(r.Halt), r.Ticks)
	}
	return obs + " ; " + in
}

func (x *progRun) fr() string {
	if x.dead != "" {
		return x.dead
	}
	m := x.m
	hp := fnvInit
	pix := m.ppu.Frame().Pix
	for i := 0; i+3 < len(pix); i += 4 {
		var k uint32
		switch pix[i] {
		case 0xff:
			k = 0
		case 0xaa:
			k = 1
		case 0x77:
			k = 2
		case 0x33:
			k = 3
		default:
			k = 4
		}
		hp = fnv32(hp, k)
	}
	hc := fnvInit
	dump := m.mapper.DumpRAM()
	held := append([]byte(nil), dump...)
	for _, b := range dump {
		hc = fnv32(hc, uint32(b))
	}
	// the slice a caller holds must not change when another instance takes its own dump
	stable := "stable"
	for _, d := range x.decoys {
		if d != nil {
			guard(func() string { d.mapper.DumpRAM(); return "ok" })
		}
	}
	if !bytes.Equal(dump, held) {
		stable = "CHANGED-BY-ANOTHER-INSTANCE"
	}
	hs := fnvInit
	for _, b := range m.serial.Bytes() {
		hs = fnv32(hs, uint32(b))
	}
	return fmt.Sprintf("pix=%08x cram=%08x serial=%d:%08x samples=%d %08x %08x dump=%s", hp, hc, m.serial.Len(), hs, x.nS, x.ckL, x.ckR, stable)
}

func progSynth(seed uint64) []byte {
	r := rng{s: seed*77 + 5}
	rom := make([]byte, 0x8000)
	for i := range rom {
		for {
			b := r.byte()
			if _, undef := undefinedOpcodes[b]; !undef && b != 0x10 {
				rom[i] = b
				break
			}
		}
	}
	rom[0x147], rom[0x148], rom[0x149] = 0, 0, 0
	return rom
}

func (x *progRun) do(op string) string {
	w := strings.Fields(op)
	x.c.begin(op)
	var out string
	switch {
	case len(w) == 3 && w[0] == "reset" && w[1] == "load":
		p := filepath.Join(romDir(), strings.ReplaceAll(w[2], "*", " "))
		rom, err := os.ReadFile(p)
		if err != nil {
			x.m = nil
			out = "no-such-file"
		} else {
			out = x.start(rom)
		}
	case len(w) == 3 && w[0] == "reset" && w[1] == "synth":
		out = x.start(progSynth(uint64(atoi(w[2]))))
	case len(w) >= 3 && w[0] == "reset" && w[1] == "code":
		if rom := progCodeRom(w[2], w[3:]); rom != nil {
			out = x.start(rom)
		} else {
			out = "bad-op"
		}
	case len(w) == 1 && w[0] == "reset":
		x.m = nil
		out = "ok"
	case x.m == nil:
		out = "nomachine"
	case len(w) == 3 && w[0] == "btn":
		x.m.ctl.ButtonAction(controller.Button(atoi(w[1])), w[2] == "1")
		for i, d := range x.decoys {
			if d != nil {
				d.ctl.ButtonAction(controller.Button((atoi(w[1])+3+i)%8), w[2] != "1")
			}
		}
		out = "ok"
	case len(w) == 2 && w[0] == "run":
		out = x.run(atoi(w[1]))
	case len(w) == 1 && w[0] == "st":
		out = guard(x.st)
	case len(w) == 1 && w[0] == "fr":
		out = guard(x.fr)
	default:
		out = "bad-op"
	}
	x.c.finish(op, out)
	return out
}

func progReplay(c *ctx, ops []string) {
	x := &progRun{c: c}
	for _, op := range ops {
		x.do(op)
	}
	c.notes["max_sample_rounding_deviation"] = x.maxDev
}

// the fixed ROM list: a few ROMs per unit they stress
var progRoms = []string{
	"blargg/cpu_instrs/individual/01-special.gb",
	"blargg/cpu_instrs/individual/02-interrupts.gb",
	"blargg/cpu_instrs/individual/07-jr,jp,call,ret,rst.gb",
	"blargg/cpu_instrs/individual/03-op sp,hl.gb",
	"blargg/cpu_instrs/individual/11-op a,(hl).gb",
	"blargg/instr_timing/instr_timing.gb",
	"blargg/mem_timing/mem_timing.gb",
	"blargg/halt_bug.gb",
	"blargg/oam_bug/rom_singles/2-causes.gb",
	"blargg/oam_bug/rom_singles/8-instr_effect.gb",
	"blargg/dmg_sound/rom_singles/01-registers.gb",
	"blargg/dmg_sound/rom_singles/03-trigger.gb",
	"blargg/dmg_sound/rom_singles/09-wave read while on.gb",
	"mts-20221022-1430-8d742b9/acceptance/timer/tim00.gb",
	"mts-20221022-1430-8d742b9/acceptance/timer/rapid_toggle.gb",
	"mts-20221022-1430-8d742b9/acceptance/timer/tima_reload.gb",
	"mts-20221022-1430-8d742b9/acceptance/timer/tma_write_reloading.gb",
	"mts-20221022-1430-8d742b9/acceptance/ppu/intr_2_0_timing.gb",
	"mts-20221022-1430-8d742b9/acceptance/ppu/stat_irq_blocking.gb",
	"mts-20221022-1430-8d742b9/acceptance/ppu/lcdon_timing-GS.gb",
	"mts-20221022-1430-8d742b9/acceptance/oam_dma/basic.gb",
	"mts-20221022-1430-8d742b9/acceptance/oam_dma/reg_read.gb",
	"mts-20221022-1430-8d742b9/acceptance/oam_dma/sources-GS.gb",
	"mts-20221022-1430-8d742b9/emulator-only/mbc1/ram_64kb.gb",
	"mts-20221022-1430-8d742b9/emulator-only/mbc1/bits_mode.gb",
	"mts-20221022-1430-8d742b9/emulator-only/mbc5/rom_512kb.gb",
	"mts-20221022-1430-8d742b9/emulator-only/mbc5/rom_64Mb.gb",
	"rtc3test/rtc3test.gb",
}

func (x *progRun) runRom(spec string, frames, fine int, buttons bool) {
	c := x.c
	if x.do("reset "+spec) != "ok" {
		c.class("start/" + spec + "/failed")
		return
	}
	x.do("st")
	for k := 0; k < fine; k++ {
		x.do("run 1")
		x.do("st")
	}
	if fine > 0 {
		x.do(fmt.Sprintf("run %d", 17556-fine))
	}
	last := ""
	for f := 0; f < frames; f++ {
		if buttons && c.rng.intn(3) == 0 {
			x.do(fmt.Sprintf("btn %d %d", c.rng.intn(8), c.rng.intn(2)))
		}
		if f > 0 || fine == 0 {
			// a frame is sometimes cut in two at a random cycle, so that states inside a frame are compared too
			if c.rng.intn(4) == 0 {
				k := 1 + c.rng.intn(17555)
				x.do(fmt.Sprintf("run %d", k))
				x.do("st")
				x.do(fmt.Sprintf("run %d", 17556-k))
			} else {
				x.do("run 17556")
			}
		}
		x.do("st")
		last = x.do("fr")
		if x.dead != "" {
			break
		}
	}
	end := x.dead
	if end == "" {
		end = "ran"
	}
	c.class(fmt.Sprintf("%s/%d/%s/%s", spec, frames, end, last))
}

// a structured program: fine-grained cuts through the program text, then whole frames
func (x *progRun) runCode(emph string, frames int) {
	c := x.c
	op := progCode(c.rng, emph)
	if x.do(op) != "ok" {
		c.class("code/failed/" + op[11:17])
		return
	}
	x.do("st")
	used := 0
	for k := 0; k < 60 && x.dead == ""; k++ {
		n := 1 + c.rng.intn(6)
		if c.rng.chance(40) {
			n = 1 + c.rng.intn(400)
		}
		if emph == "C22" && c.rng.chance(50) {
			x.do(fmt.Sprintf("btn %d %d", c.rng.intn(8), c.rng.intn(2)))
		}
		x.do(fmt.Sprintf("run %d", n))
		x.do("st")
		used += n
	}
	last := ""
	for f := 0; f < frames && x.dead == ""; f++ {
		if c.rng.intn(3) == 0 {
			x.do(fmt.Sprintf("btn %d %d", c.rng.intn(8), c.rng.intn(2)))
		}
		k := 1 + c.rng.intn(17555)
		x.do(fmt.Sprintf("run %d", k))
		x.do("st")
		x.do(fmt.Sprintf("run %d", 17556-k))
		x.do("st")
		last = x.do("fr")
	}
	end := x.dead
	if end == "" {
		end = "ran"
	}
	c.class(fmt.Sprintf("code/%s/%s/%s/%s", emph, op[11:17], end, last))
}

// ROMs of the fixed list by the property they matter to most (others run the whole list)
var progRomsFor = map[string][]int{
	"C01": {0, 2, 3, 4}, "C02": {0, 2, 5, 6, 7}, "C03": {5, 6, 20, 22}, "C04": {1, 7, 13, 17}, "C05": {1, 7, 13},
	"C06": {6, 22, 23}, "C07": {6, 10, 22}, "C09": {23, 24, 25, 26}, "C10": {27}, "C12": {13, 14, 15, 16},
	"C13": {17, 18, 19}, "C14": {17, 18, 19}, "C15": {8, 19}, "C16": {20, 21, 22}, "C17": {8, 9},
	"C18": {10, 11, 12}, "C19": {10, 11}, "C20": {10, 11, 12}, "C21": {11, 12}, "C22": {0, 1}, "C23": {0, 5}, "C08": {23, 24, 25, 26},
}

func progGen(c *ctx) {
	x := &progRun{c: c}
	x.do("reset")
	frames, fine, nSynth, synthFrames := 20, 200, 6, 4
	roms := progRoms
	emph := progEmphasis()
	nCode, codeFrames := 250, 2
	if idx, ok := progRomsFor[emph]; ok {
		roms = nil
		for _, i := range idx {
			roms = append(roms, progRoms[i])
		}
		nSynth = 2
	}
	if c.thorough() {
		frames, nSynth, synthFrames = 300, 40, 12
		nCode, codeFrames = 400, 3
	}
	enc := func(p string) string { return strings.ReplaceAll(p, " ", "*") }
	for _, r := range roms {
		x.runRom("load "+enc(r), frames, fine, false)
	}
	for k := 0; k < nSynth; k++ {
		x.runRom(fmt.Sprintf("synth %d", c.rng.intn(1<<30)), synthFrames, fine, true)
	}
	for k := 0; k < nCode; k++ {
		x.runCode(emph, codeFrames)
	}
	c.notes["structured_programs"] = nCode
	if c.thorough() && len(roms) == len(progRoms) {
		// every other shipped ROM, shorter
		inList := map[string]bool{}
		for _, r := range progRoms {
			inList[r] = true
		}
		var rest []string
		filepath.Walk(romDir(), func(p string, info os.FileInfo, err error) error {
			if err == nil && !info.IsDir() && strings.HasSuffix(p, ".gb") && !strings.Contains(p, "bootrom_dumper") {
				rel, _ := filepath.Rel(romDir(), p)
				if !inList[rel] && !strings.Contains(rel, "*") {
					rest = append(rest, rel)
				}
			}
			return nil
		})
		sort.Strings(rest)
		for _, r := range rest {
			x.runRom("load "+enc(r), 24, 0, true)
		}
	}
	c.notes["max_sample_rounding_deviation"] = x.maxDev
	c.notes["roms"] = len(roms)
	c.notes["frames_per_rom"] = frames
}
