package main

import (
	"fmt"
	"os"
	"strings"

	"github.com/scottyw/tetromino/gameboy/audio"
	"github.com/scottyw/tetromino/gameboy/controller"
	"github.com/scottyw/tetromino/gameboy/cpu"
	"github.com/scottyw/tetromino/gameboy/interrupts"
	"github.com/scottyw/tetromino/gameboy/memory"
	"github.com/scottyw/tetromino/gameboy/oam"
	"github.com/scottyw/tetromino/gameboy/ppu"
	"github.com/scottyw/tetromino/gameboy/serial"
	"github.com/scottyw/tetromino/gameboy/timer"
)

// mode cpu: the REAL cpu.CPU + memory.Mapper (all-zero 32 KiB ROM-only cartridge, LCD switched off),
// stepped with ExecuteMachineCycle only (no other component is ticked), against the CPU model on
// the `Plain` bus.  The generators keep every data access inside plain regions (WRAM, echo, HRAM,
// VRAM, OAM, IF, IE).
//
// ops: reset | regs a b c d e f h l sp pc | fl halted haltbug stopped eipending | irq ie if ime
//
//	| poke addr val | peek addr | c n
func init() { modes["cpu"] = modeFn{gen: cpuGen, replay: cpuReplay} }

type cpuRun struct {
	c         *ctx
	cpu       *cpu.CPU
	mapper    *memory.Mapper
	intr      *interrupts.Interrupts
	dead      bool // crashed or exited: state frozen until reset
	sumAfter  bool // instr() ends with a memsum
	tagScheme int  // which per-cycle re-tagging values instr() uses
	deadAs    string
}

var undefinedOpcodes = map[uint8]bool{0xcb: false, 0xd3: true, 0xdb: true, 0xdd: true, 0xe3: true, 0xe4: true,
	0xeb: true, 0xec: true, 0xed: true, 0xf4: true, 0xfc: true, 0xfd: true}

func (x *cpuRun) reset() {
	i := interrupts.New()
	o := oam.New()
	p := ppu.New(i, o, false)
	rom := make([]byte, 0x8000)
	m := memory.New(rom, i, o, p, controller.New(), serial.New(nil), timer.New(), audio.New(nil, nil))
	c := cpu.New(i, o, false, m)
	c.Initialize()
	m.Write(0xff40, 0x00) // LCD off: VRAM/OAM are plain memory and the OAM bug is inactive
	x.cpu, x.mapper, x.intr = c, m, i
	x.dead = false
}

func (x *cpuRun) state() string {
	if x.dead {
		return x.deadAs
	}
	s := x.cpu.VerifGet()
	return fmt.Sprintf("%02x %02x %02x %02x %02x %02x %02x %02x %04x %04x ime=%s if=%02x ie=%02x halted=%s bnd=%s"+
		" ; %02x %02x %02x %02x cyc=%d hb=%s st=%s ei=%s",
		s.A, s.B, s.C, s.D, s.E, s.F, s.H, s.L, s.SP, s.PC, b01(x.intr.Enabled()), x.intr.ReadIF(), x.intr.ReadIE(),
		b01(s.Halted), b01(x.cpu.VerifAtBoundary()), s.U8a, s.U8b, s.M8a, s.M8b, s.Cycle, b01(s.Haltbug), b01(s.Stopped), b01(s.EIPending))
}

func (x *cpuRun) pending() bool { return x.intr.ReadIF()&x.intr.ReadIE()&0x1f != 0 }

func (x *cpuRun) do(op string) string {
	w := strings.Fields(op)
	out := guard(func() string {
		switch w[0] {
		case "reset":
			x.reset()
			return x.state()
		case "regs":
			if x.dead {
				return x.state()
			}
			s := x.cpu.VerifGet()
			s.A, s.B, s.C, s.D = uint8(unhex(w[1])), uint8(unhex(w[2])), uint8(unhex(w[3])), uint8(unhex(w[4]))
			s.E, s.F, s.H, s.L = uint8(unhex(w[5])), uint8(unhex(w[6])), uint8(unhex(w[7])), uint8(unhex(w[8]))
			s.SP, s.PC = uint16(unhex(w[9])), uint16(unhex(w[10]))
			x.cpu.VerifSetRegs(s)
			return x.state()
		case "fl":
			if x.dead {
				return x.state()
			}
			s := x.cpu.VerifGet()
			s.Halted, s.Haltbug, s.Stopped, s.EIPending = w[1] != "0", w[2] != "0", w[3] != "0", w[4] != "0"
			x.cpu.VerifSetRegs(s)
			return x.state()
		case "irq":
			x.intr.WriteIE(uint8(unhex(w[1])))
			x.intr.WriteIF(uint8(unhex(w[2])))
			if w[3] != "0" {
				x.intr.Enable()
			} else {
				x.intr.Disable()
			}
			return x.state()
		case "poke":
			x.mapper.Write(uint16(unhex(w[1])), uint8(unhex(w[2])))
			return "ok"
		case "peek":
			return hx2(x.mapper.Read(uint16(unhex(w[1]))))
		case "memsum":
			// checksum of every non-zero byte of VRAM, WRAM, OAM and HRAM: a stray write anywhere shows
			var sum uint32
			add := func(lo, hi int) {
				for a := lo; a <= hi; a++ {
					if v := x.mapper.Read(uint16(a)); v != 0 {
						sum += (uint32(a)<<8 | uint32(v)) * 2654435761
					}
				}
			}
			add(0x8000, 0x9fff)
			add(0xc000, 0xdfff)
			add(0xfe00, 0xfe9f)
			add(0xff80, 0xfffe)
			return fmt.Sprintf("%08x", sum)
		case "input":
			x.cpu.OnInput()
			return x.state()
		case "c":
			n := atoi(w[1])
			for k := 0; k < n && !x.dead; k++ {
				s := x.cpu.VerifGet()
				if x.cpu.VerifAtBoundary() && !(x.pending() && (x.intr.Enabled() || s.Halted)) && !s.Halted && !s.Stopped {
					// the real code would os.Exit in fatal(): predict it instead of running it
					opc := x.mapper.Read(s.PC)
					if undefinedOpcodes[opc] {
						x.dead, x.deadAs = true, "exit"
						break
					}
				}
				x.cpu.ExecuteMachineCycle()
			}
			return x.state()
		}
		return "bad-op"
	})
	if out == "crash" {
		x.dead, x.deadAs = true, "crash"
	}
	x.c.emit(op, out)
	return out
}

func cpuReplay(c *ctx, ops []string) {
	x := &cpuRun{c: c}
	x.reset()
	for _, op := range ops {
		x.do(op)
	}
}

// ---- generators

type regset struct {
	a, b, cc, d, e, f, h, l uint8
	sp, pc                  uint16
}

func (x *cpuRun) setRegs(r regset) {
	x.do(fmt.Sprintf("regs %02x %02x %02x %02x %02x %02x %02x %02x %04x %04x", r.a, r.b, r.cc, r.d, r.e, r.f, r.h, r.l, r.sp, r.pc))
}

// a random pointer high byte inside WRAM / echo RAM, low byte anything
func safeHi(r *rng) uint8 {
	if r.chance(15) {
		return 0xe0 + uint8(r.intn(0x1d)) // echo e000-fcff
	}
	return 0xc1 + uint8(r.intn(0x1d)) // c100-ddff
}

func randRegs(r *rng) regset {
	v := func() uint8 {
		if r.chance(30) {
			return []uint8{0x00, 0x01, 0x0f, 0x10, 0x7f, 0x80, 0xf0, 0xff, 0x99, 0x9a}[r.intn(10)]
		}
		return r.byte()
	}
	rs := regset{a: v(), b: safeHi(r), cc: v(), d: safeHi(r), e: v(), f: r.byte() & 0xf0, h: safeHi(r), l: v()}
	rs.sp = 0xc200 + uint16(r.intn(0x1b00))
	if r.chance(10) {
		rs.sp = 0xff90 + uint16(r.intn(0x60))
	}
	rs.pc = 0xc000 + uint16(r.intn(0x1d00))
	return rs
}

func isCBMem(op uint8) bool { return op&0x07 == 0x06 }

// addresses an instruction may read/write, for the peeks after it
func (x *cpuRun) peekAround(rs regset, nn uint16, n uint8) {
	hl := uint16(rs.h)<<8 | uint16(rs.l)
	bc := uint16(rs.b)<<8 | uint16(rs.cc)
	de := uint16(rs.d)<<8 | uint16(rs.e)
	for _, a := range []uint16{hl, bc, de, rs.sp - 1, rs.sp - 2, rs.sp, rs.sp + 1, nn, nn + 1, 0xff00 + uint16(n), 0xff00 + uint16(rs.cc)} {
		if (a >= 0x8000 && a < 0xa000) || (a >= 0xc000 && a < 0xff00) || a >= 0xff80 || a == 0xff0f {
			x.do(fmt.Sprintf("peek %04x", a))
		}
	}
}

// one instruction from a set state, stepped cycle by cycle until the next boundary
func (x *cpuRun) instr(prefixed bool, op uint8, rs regset, op1, op2 uint8, tagReads bool) int {
	x.do("reset")
	// IME set or clear, some sources enabled, others requested - but none both (no dispatch): an instruction's effect
	// and length must not depend on them
	{
		r := x.c.rng
		ie := []int{0x00, 0x00, 0x15, 0x0a, 0x1f}[r.intn(5)]
		x.do(fmt.Sprintf("irq %02x %02x %d", ie, ^ie&0x1f&int(r.byte()), r.intn(2)))
	}
	pc := rs.pc
	if prefixed {
		x.do(fmt.Sprintf("poke %04x cb", pc))
		pc++
	}
	x.do(fmt.Sprintf("poke %04x %02x", pc, op))
	x.do(fmt.Sprintf("poke %04x %02x", pc+1, op1))
	x.do(fmt.Sprintf("poke %04x %02x", pc+2, op2))
	nn := uint16(op2)<<8 | uint16(op1)
	// fill the locations the instruction may read with distinct values
	hl := uint16(rs.h)<<8 | uint16(rs.l)
	bc := uint16(rs.b)<<8 | uint16(rs.cc)
	de := uint16(rs.d)<<8 | uint16(rs.e)
	code := func(a uint16) bool { return a >= rs.pc && a <= rs.pc+3 }
	srcs := []uint16{hl, bc, de, rs.sp, rs.sp + 1, nn, 0xff00 + uint16(op1), 0xff00 + uint16(rs.cc)}
	for k, a := range srcs {
		if code(a) || !((a >= 0xc000 && a < 0xfe00) || (a >= 0xff80 && a <= 0xfffe)) {
			continue
		}
		x.do(fmt.Sprintf("poke %04x %02x", a, x.c.rng.byte()|uint8(k)))
	}
	x.setRegs(rs)
	cycles := 0
	for {
		if tagReads {
			// change the value at every possible source before each cycle so the value consumed tells the cycle
			for k, a := range srcs {
				if code(a) || !((a >= 0xc000 && a < 0xfe00) || (a >= 0xff80 && a <= 0xfffe)) {
					continue
				}
				v := uint8(0x10*(cycles+1) + k)
				if x.tagScheme == 1 { // every bit flips from one cycle to the next
					v = uint8(0x35+k*9) ^ uint8(cycles*0x22)
					if cycles%2 == 1 {
						v = ^v
					}
				}
				x.do(fmt.Sprintf("poke %04x %02x", a, v))
			}
		}
		out := x.do("c 1")
		cycles++
		if tagReads {
			x.peekAround(rs, nn, op1)
		}
		if strings.Contains(out, "bnd=1") || out == "exit" || out == "crash" || cycles >= 8 {
			break
		}
	}
	if !tagReads {
		x.peekAround(rs, nn, op1)
	}
	if x.sumAfter {
		x.do("memsum")
	}
	return cycles
}

func fixOperands(r *rng, prefixed bool, op uint8, rs *regset) (uint8, uint8) {
	op1, op2 := r.byte(), r.byte()
	if prefixed {
		return op1, op2
	}
	switch op {
	case 0xe0, 0xf0: // LDH (n)
		op1 = 0x80 + uint8(r.intn(0x7f))
		if r.chance(10) {
			op1 = []uint8{0x0f, 0xff}[r.intn(2)]
		}
	case 0xe2, 0xf2: // LD (C)
		rs.cc = 0x80 + uint8(r.intn(0x7f))
		if r.chance(10) {
			rs.cc = []uint8{0x0f, 0xff}[r.intn(2)]
		}
	case 0xea, 0xfa, 0x08: // (nn)
		op2 = safeHi(r)
	}
	return op1, op2
}

func cpuGen(c *ctx) {
	x := &cpuRun{c: c}
	x.reset()
	prop := os.Getenv("VERIF_PROP")
	all := prop == "" || prop == "C01" || prop == "C02" || prop == "C03"
	if all {
		cpuGenInstr(c, x, prop)
	}
	if prop == "" || prop == "C04" {
		cpuGenIntr(c, x)
	}
	if prop == "" || prop == "C05" {
		cpuGenHalt(c, x)
	}
}

func defined(prefixed bool, op uint8) bool {
	if prefixed {
		return true
	}
	_, undef := undefinedOpcodes[op]
	return !undef
}

func cpuGenInstr(c *ctx, x *cpuRun, prop string) {
	r := c.rng
	x.sumAfter = true
	defer func() { x.sumAfter = false }()
	perOp := 24
	if c.thorough() {
		perOp = 400
	}
	if prop == "C02" {
		perOp = 16
	}
	for pre := 0; pre < 2; pre++ {
		for o := 0; o < 256; o++ {
			op := uint8(o)
			if !defined(pre == 1, op) {
				continue
			}
			for k := 0; k < perOp; k++ {
				rs := randRegs(r)
				if prop == "C02" || k < 16 {
					rs.f = uint8(k%16) << 4 // every flag nibble
				}
				op1, op2 := fixOperands(r, pre == 1, op, &rs)
				if pre == 0 && k < 12 {
					// boundary operand bytes (displacement -128/-1/0/+127, page ends for 16-bit operands)
					b := []uint8{0x80, 0xff, 0x00, 0x7f, 0xfe, 0x01}[k%6]
					switch op {
					case 0xe0, 0xf0:
						op1 = []uint8{0x80, 0xfe, 0xff, 0x0f, 0x81, 0xfd}[k%6]
					case 0xea, 0xfa, 0x08:
						op1 = b // low byte; the high byte stays in WRAM
					default:
						op1 = b
					}
				}
				tag := prop == "C03" || (prop != "C02" && k%4 == 3)
				x.tagScheme = (k / 4) % 2
				n := x.instr(pre == 1, op, rs, op1, op2, tag)
				c.class(fmt.Sprintf("%d/%02x/f%x/c%d/t%v", pre, op, rs.f>>4, n, tag))
			}
		}
	}
	// pairs: a conditional (taken and not taken) or other predecessor immediately followed by every opcode, so that
	// nothing of the predecessor's bookkeeping (early-finish test, operand latches) leaks into the next instruction
	preds := [][]uint8{{0x20, 0x00}, {0x28, 0x00}, {0x30, 0x00}, {0x38, 0x00}, {0xc2, 0, 0}, {0xca, 0, 0}, {0xd2, 0, 0}, {0xda, 0, 0},
		{0xc0}, {0xc8}, {0xd0}, {0xd8}, {0xc4, 0, 0}, {0xcc, 0, 0}, {0xd4, 0, 0}, {0xdc, 0, 0}, {0x00}, {0x3e, 0x12}, {0xcb, 0x46}, {0xfb}, {0xf3}}
	// predecessors that STORE to (HL); the byte is then changed behind the CPU's back (as an I/O register, a DMA or
	// another bus master would) before the follower runs, so a follower that reuses what the CPU last stored
	// instead of reading shows
	nPlain := len(preds)
	preds = append(preds, [][]uint8{{0x34}, {0x35}, {0xcb, 0x86}, {0xcb, 0x06}, {0xcb, 0xfe}, {0x36, 0x5a}, {0x77}}...)
	for pi, pred := range preds {
		for pre := 0; pre < 2; pre++ {
			for o := 0; o < 256; o++ {
				op := uint8(o)
				if !defined(pre == 1, op) || (pre == 0 && (op == 0x76 || op == 0x10)) {
					continue
				}
				if !c.thorough() && pi < nPlain && (o+pi)%3 != 0 && !(pre == 1 && o&7 == 6) {
					continue
				}
				if !c.thorough() && pi >= nPlain && (o+pi)%2 != 0 && o&7 != 6 && o != 0x34 && o != 0x35 {
					continue
				}
				rs := randRegs(r)
				rs.f = uint8(r.intn(16)) << 4
				op1, op2 := fixOperands(r, pre == 1, op, &rs)
				x.do("reset")
				x.do("irq 00 00 0")
				// the predecessor's jump/call/return target is the follower itself: conditional ones fall through
				// or jump to it, RET cc pops its address
				pc := rs.pc
				follower := pc + uint16(len(pred))
				code := append([]uint8{}, pred...)
				if len(pred) == 3 {
					code[1], code[2] = uint8(follower), uint8(follower>>8)
				}
				if pre == 1 {
					code = append(code, 0xcb)
				}
				code = append(code, op, op1, op2)
				x.program(pc, code)
				if len(pred) == 1 && pred[0]&0xc7 == 0xc0 { // RET cc: return address on the stack
					x.do(fmt.Sprintf("poke %04x %02x", rs.sp, uint8(follower)))
					x.do(fmt.Sprintf("poke %04x %02x", rs.sp+1, uint8(follower>>8)))
				}
				x.setRegs(rs)
				n := 0
				bnds := 0
				for n < 16 && bnds < 2 {
					out := x.do("c 1")
					n++
					if strings.Contains(out, "bnd=1") {
						bnds++
						if hl := uint16(rs.h)<<8 | uint16(rs.l); bnds == 1 && pi >= nPlain && hl >= 0xc000 && hl < 0xe000 {
							x.do(fmt.Sprintf("poke %04x %02x", hl, r.byte()))
						}
					}
					if out == "exit" || out == "crash" {
						break
					}
				}
				nn := uint16(op2)<<8 | uint16(op1)
				x.peekAround(rs, nn, op1)
				x.do("memsum")
				c.class(fmt.Sprintf("pair/%d/%d%02x/c%d", pi, pre, op, n))
			}
		}
	}
	// the 11 undefined opcodes stop the emulator
	for o := range undefinedOpcodes {
		if o == 0xcb {
			continue
		}
		rs := randRegs(r)
		x.instr(false, o, rs, 0, 0, false)
		c.class(fmt.Sprintf("undef/%02x", o))
	}
	if prop == "C02" || prop == "C03" {
		return
	}
	// exhaustive / structured value spaces of the quantifier (register-only instructions: no memory checksum)
	x.sumAfter = false
	aluImm := []uint8{0xc6, 0xce, 0xd6, 0xde, 0xe6, 0xee, 0xf6, 0xfe}
	stepA, stepV := 1, 1
	if !c.thorough() {
		stepA, stepV = 11, 7 // co-prime strides hit every residue class over the run; boundaries added below
	}
	base := randRegs(r)
	for _, op := range aluImm {
		for cy := 0; cy < 2; cy++ {
			for a := 0; a < 256; a += stepA {
				for v := (a * 7) % stepV; v < 256; v += stepV {
					rs := base
					rs.a, rs.f = uint8(a), uint8(cy)<<4
					x.instr(false, op, rs, uint8(v), 0, false)
				}
			}
			for _, a := range []int{0x00, 0x0f, 0x10, 0x7f, 0x80, 0xf0, 0xff} {
				for v := 0; v < 256; v++ {
					rs := base
					rs.a, rs.f = uint8(a), uint8(cy)<<4
					x.instr(false, op, rs, uint8(v), 0, false)
				}
			}
		}
		c.class(fmt.Sprintf("alu-space/%02x", op))
	}
	// DAA: all A x N,H,C (exhaustive in both tiers)
	for a := 0; a < 256; a++ {
		for fl := 0; fl < 8; fl++ {
			rs := base
			rs.a, rs.f = uint8(a), uint8(fl)<<4
			x.instr(false, 0x27, rs, 0, 0, false)
		}
	}
	c.class("daa-space")
	// 8-bit INC/DEC, rotates and CB operations on a register: all values x carry
	for _, oc := range []struct {
		pre bool
		op  uint8
	}{{false, 0x3c}, {false, 0x3d}, {false, 0x07}, {false, 0x0f}, {false, 0x17}, {false, 0x1f}, {false, 0x2f},
		{true, 0x07}, {true, 0x0f}, {true, 0x17}, {true, 0x1f}, {true, 0x27}, {true, 0x2f}, {true, 0x37}, {true, 0x3f}} {
		for a := 0; a < 256; a++ {
			for cy := 0; cy < 2; cy++ {
				rs := base
				rs.a, rs.f = uint8(a), uint8(cy)<<4
				x.instr(oc.pre, oc.op, rs, 0, 0, false)
			}
		}
	}
	c.class("unary-space")
	// 16-bit INC/DEC (BC), ADD SP,e and LD HL,SP+e
	step16 := 1
	if !c.thorough() {
		step16 = 97
	}
	for v := 0; v < 65536; v += step16 {
		for _, op := range []uint8{0x03, 0x0b} {
			rs := base
			rs.b, rs.cc = uint8(v>>8), uint8(v)
			x.instr(false, op, rs, 0, 0, false)
		}
	}
	loStep := 1
	if !c.thorough() {
		loStep = 23
	}
	for _, op := range []uint8{0xe8, 0xf8} {
		for e := 0; e < 256; e++ {
			for lo := e % loStep; lo < 256; lo += loStep {
				for _, hi := range []int{0xc2, 0xdd} {
					rs := base
					rs.sp = uint16(hi)<<8 | uint16(lo)
					x.instr(false, op, rs, uint8(e), 0, false)
				}
			}
		}
	}
	c.class("sp-e-space")
	// ADD HL,rr: boundary-structured + random
	n := 3000
	if c.thorough() {
		n = 200000
	}
	bnd := []uint16{0x0000, 0x0001, 0x00ff, 0x0100, 0x0fff, 0x1000, 0x7fff, 0x8000, 0xefff, 0xf000, 0xffff, 0x0800, 0xf800}
	for k := 0; k < n; k++ {
		rs := base
		var hl, v uint16
		if k < len(bnd)*len(bnd) {
			hl, v = bnd[k/len(bnd)], bnd[k%len(bnd)]
		} else {
			hl, v = r.u16(), r.u16()
		}
		rs.h, rs.l, rs.d, rs.e = uint8(hl>>8), uint8(hl), uint8(v>>8), uint8(v)
		x.instr(false, 0x19, rs, 0, 0, false)
	}
	c.class("addhl-space")
}

// ---- C04: interrupt dispatch, priority, EI/DI/RETI

func (x *cpuRun) program(pc uint16, code []uint8) {
	for k, b := range code {
		x.do(fmt.Sprintf("poke %04x %02x", pc+uint16(k), b))
	}
}

func cpuGenIntr(c *ctx, x *cpuRun) {
	r := c.rng
	// all IE x IF x IME at a boundary: run 7 cycles, cycle by cycle
	for ie := 0; ie < 32; ie++ {
		for ifl := 0; ifl < 32; ifl++ {
			for ime := 0; ime < 2; ime++ {
				rs := randRegs(r)
				if r.chance(15) {
					// the two stack writes of the dispatch land on IE / IF themselves
					rs.sp = []uint16{0x0000, 0x0001, 0x0002, 0xff10, 0xff11, 0xff0f}[r.intn(6)]
				}
				x.do("reset")
				x.program(rs.pc, []uint8{0x04, 0x0c, 0x14, 0x1c, 0x24}) // INC B, C, D, E, H
				x.setRegs(rs)
				x.do(fmt.Sprintf("irq %02x %02x %d", ie|(r.intn(8)<<5), ifl, ime))
				for k := 0; k < 7; k++ {
					x.do("c 1")
				}
				special := rs.sp <= 2 || rs.sp >= 0xff00
				if !special { // (IE and IF are part of the state line; other I/O registers are not in this mode's model)
					x.do(fmt.Sprintf("peek %04x", rs.sp-1))
					x.do(fmt.Sprintf("peek %04x", rs.sp-2))
				}
				c.class(fmt.Sprintf("disp/%02x/%02x/%d/%v", ie, ifl, ime, special))
			}
		}
	}
	// short instruction sequences with a request raised at every cycle offset
	instrs := [][]uint8{
		{0xfb},       // EI
		{0xf3},       // DI
		{0xd9},       // RETI
		{0x00},       // NOP
		{0x04},       // INC B
		{0x3e, 0x04}, // LD A,04
		{0xe0, 0x0f}, // LDH (0F),A   write IF
		{0xe0, 0xff}, // LDH (FF),A   write IE
		{0x3e, 0x00}, // LD A,00
		{0xf0, 0x0f}, // LDH A,(0F)
		{0xcb, 0x40}, // BIT 0,B      (a CB-prefixed instruction right after EI / DI)
	}
	maxLen := 3
	if c.thorough() {
		maxLen = 4
	}
	var seqs [][]int
	var rec func(cur []int)
	rec = func(cur []int) {
		if len(cur) > 0 {
			seqs = append(seqs, append([]int{}, cur...))
		}
		if len(cur) == maxLen {
			return
		}
		for k := range instrs {
			rec(append(cur, k))
		}
	}
	rec(nil)
	for si, seq := range seqs {
		if !c.thorough() && len(seq) == 3 && si%3 != 0 {
			continue
		}
		var code []uint8
		for _, k := range seq {
			code = append(code, instrs[k]...)
		}
		code = append(code, 0x0c, 0x14, 0x1c, 0x24, 0x2c) // INC C, D, E, H, L
		for offset := 0; offset < 8; offset++ {
			for _, ime := range []int{0, 1} {
				rs := randRegs(r)
				rs.sp = 0xd000 + uint16(r.intn(0x800))
				x.do("reset")
				// a return address on the stack for RETI: back into the INC run
				ret := rs.pc + uint16(len(code)) - 3
				x.do(fmt.Sprintf("poke %04x %02x", rs.sp, uint8(ret)))
				x.do(fmt.Sprintf("poke %04x %02x", rs.sp+1, uint8(ret>>8)))
				x.program(rs.pc, code)
				x.setRegs(rs)
				src := []int{0x01, 0x02, 0x04, 0x08, 0x10, 0x05, 0x1f}[r.intn(7)]
				x.do(fmt.Sprintf("irq %02x 00 %d", 0x1f, ime))
				for k := 0; k < 14; k++ {
					if k == offset {
						x.do(fmt.Sprintf("poke ff0f %02x", src))
					}
					x.do("c 1")
				}
				c.class(fmt.Sprintf("seq/%v/o%d/i%d", seq, offset, ime))
			}
		}
	}
}

// ---- C05: HALT

func cpuGenHalt(c *ctx, x *cpuRun) {
	r := c.rng
	maxIdle := 64
	if c.thorough() {
		maxIdle = 300
	}
	for ime := 0; ime < 2; ime++ {
		for pend := 0; pend < 2; pend++ {
			for pre := 0; pre < 2; pre++ {
				for o := 0; o < 256; o++ {
					op := uint8(o)
					if !defined(pre == 1, op) || (pre == 0 && op == 0x76) {
						continue
					}
					idles := []int{0, 1, 2, r.intn(maxIdle)}
					if !c.thorough() && o%4 != 0 {
						idles = []int{r.intn(8)}
					}
					for _, idle := range idles {
						rs := randRegs(r)
						if ime == 1 && r.chance(6) {
							// the wake-up dispatch pushes onto IE / IF (only with IME set: without a dispatch the follower
							// itself would run with its stack in I/O space, which this mode's bus model does not cover)
							rs.sp = []uint16{0x0000, 0x0001, 0x0002, 0xff0f, 0xff10, 0xff11}[r.intn(6)]
						}
						// bytes the follower does not consume are executed (and with the halt bug the second byte
						// of a CB follower is executed again as a plain opcode): keep them harmless
						_, _ = fixOperands(r, false, op, &rs)
						rs.cc = 0x80 + uint8(r.intn(0x7f)) // any (FF00+C) access stays in HRAM
						op1, op2 := uint8(0), uint8(0)
						if op == 0xe0 || op == 0xf0 {
							op1 = 0x80 + uint8(r.intn(0x40)) // HRAM address that is also a harmless opcode (ALU A,r)
						}
						if op == 0xea || op == 0xfa || op == 0x08 {
							op2 = 0xc1 + uint8(r.intn(0x1d)) // WRAM page; as an opcode it never touches I/O
						}
						x.do("reset")
						code := []uint8{0x76}
						eiFirst := pend == 1 && ime == 0 && idle == 1 // EI; HALT with the request already pending
						if eiFirst {
							code = []uint8{0xfb, 0x76}
						}
						if pre == 1 {
							code = append(code, 0xcb)
						}
						code = append(code, op, op1, op2, 0x04, 0x0c)
						x.program(rs.pc, code)
						x.setRegs(rs)
						ifl := 0
						if pend == 1 {
							ifl = 0x04
						}
						x.do(fmt.Sprintf("irq %02x %02x %d", 0x04|(r.intn(8)<<5), ifl, ime))
						if eiFirst {
							x.do("c 1") // EI
						}
						x.do("c 1") // HALT
						for k := 0; k < idle; k++ {
							x.do("c 1")
							if k == 0 && o%5 == 0 {
								x.do("input") // a key press (display callback) must not end HALT
							}
						}
						if pend == 0 {
							x.do("poke ff0f 04") // the request appears
						}
						for k := 0; k < 10; k++ {
							x.do("c 1")
						}
						if !(rs.sp <= 2 || rs.sp >= 0xff00) { // IE / IF are in the state line; other I/O is not in this mode's model
							x.do(fmt.Sprintf("peek %04x", rs.sp-1))
							x.do(fmt.Sprintf("peek %04x", rs.sp-2))
						}
						c.class(fmt.Sprintf("halt/i%d/p%d/%d%02x/idle%d", ime, pend, pre, op, minInt(idle, 3)))
					}
				}
			}
		}
	}
}

func minInt(a, b int) int {
	if a < b {
		return a
	}
	return b
}
