package main

import (
	"fmt"
	"strings"

	"github.com/scottyw/tetromino/gameboy/oam"
)

// mode oam: one oam.OAM object through its exported API (see lean/Tetro/Drv/Oam.lean for the
// op list).  Output: <value | ok | 320 hex chars | crash> ; <internal flags, checksum>.
// A panic of the real code prints `crash`; the object is then replaced by a fresh New() (a panic
// ends the real machine, the model does the same).
func init() { modes["oam"] = modeFn{gen: oamGen, replay: oamReplay} }

type oamRun struct {
	c  *ctx
	o  *oam.OAM
	mc *machine // the OAM sits behind the real Mapper: FE00-FEFF and FF46 accesses go through it
}

// oamFill: 160 bytes of the LCG x <- (x*1103515245 + 12345) mod 2^31, byte = bits 16..23.
func oamFill(seed uint64) [0xa0]byte {
	var d [0xa0]byte
	x := seed % 2147483648
	for i := range d {
		x = (x*1103515245 + 12345) % 2147483648
		d[i] = uint8(x >> 16)
	}
	return d
}

// oamSrc: the byte the synthetic bus of seed `seed` returns for address a.
func oamSrc(seed uint64, a uint16) uint8 {
	h := ((seed+1)*0x9E3779B1 + uint64(a)*0x85EBCA6B) % 4294967296
	return uint8(h >> 24)
}

func oamFlags(o *oam.OAM) string {
	v := o.VerifGet()
	sum := 0
	for i, b := range v.OAM {
		sum += (i + 1) * int(b)
	}
	return fmt.Sprintf("%s %04x %s%s%s%s %04x", b01(v.DMARunning), v.DMACycle, b01(v.Corrupt), b01(v.Read),
		b01(v.Write), b01(v.DoubleWrite), sum%65536)
}

func (r *oamRun) do(op string) string {
	w := strings.Fields(op)
	bad := false
	out := guard(func() string {
		res := "ok"
		switch {
		case w[0] == "reset" && len(w) == 1:
			r.newOam()
		case w[0] == "set" && len(w) == 2 && len(w[1]) == 320:
			var d [0xa0]byte
			for i := range d {
				d[i] = uint8(unhex(w[1][2*i : 2*i+2]))
			}
			r.o.VerifSetOAM(d)
		case w[0] == "fill" && len(w) == 2:
			r.o.VerifSetOAM(oamFill(uint64(unhex(w[1]))))
		case w[0] == "r" && len(w) == 2:
			if a := uint16(unhex(w[1])); a >= 0xfe00 && a <= 0xfeff {
				res = hx2(r.mc.mapper.Read(a))
			} else {
				res = hx2(r.o.Read(a))
			}
		case w[0] == "w" && len(w) == 3:
			if a := uint16(unhex(w[1])); a >= 0xfe00 && a <= 0xfeff {
				r.mc.mapper.Write(a, uint8(unhex(w[2])))
			} else {
				r.o.Write(a, uint8(unhex(w[2])))
			}
		case w[0] == "pr" && len(w) == 2:
			res = hx2(r.o.PPURead(uint16(unhex(w[1]))))
		case w[0] == "trig" && len(w) == 2:
			r.o.TriggerWriteCorruption(uint16(unhex(w[1])))
		case w[0] == "cor" && len(w) == 1:
			r.o.Corrupt()
		case w[0] == "enter" && len(w) == 1:
			r.o.EnterMode2()
		case w[0] == "exit" && len(w) == 1:
			r.o.ExitMode2()
		case w[0] == "dma" && len(w) == 2:
			r.mc.mapper.Write(0xff46, uint8(unhex(w[1])))
		case w[0] == "rdma" && len(w) == 1:
			res = hx2(r.mc.mapper.Read(0xff46))
		case w[0] == "tick" && len(w) == 2:
			seed := uint64(unhex(w[1]))
			r.o.TickDMA(func(a uint16) uint8 { return oamSrc(seed, a) })
		case w[0] == "dump" && len(w) == 1:
			v := r.o.VerifGet()
			var sb strings.Builder
			for _, b := range v.OAM {
				sb.WriteString(hx2(b))
			}
			res = sb.String()
		default:
			bad = true
			return "bad-op"
		}
		return res
	})
	if out == "crash" {
		r.newOam()
	} else if !bad {
		out += " ; " + oamFlags(r.o)
	}
	r.c.emit(op, out)
	return out
}

func oamReplay(c *ctx, ops []string) {
	r := &oamRun{c: c}
	r.newOam()
	_ = r
	for _, op := range ops {
		r.do(op)
	}
}

func oamPageClass(p int) string {
	switch {
	case p < 0x80:
		return "rom"
	case p < 0xa0:
		return "vram"
	case p < 0xc0:
		return "xram"
	case p < 0xe0:
		return "wram"
	case p <= 0xf1:
		return "echo"
	}
	return "outside"
}

func oamGen(c *ctx) {
	r := &oamRun{c: c}
	r.newOam()
	_ = r
	seed := func() string { return fmt.Sprintf("%x", c.rng.next()&0xffffff) }
	oamAddr := func() int { return 0xfe00 + c.rng.intn(0x100) }

	// transfer runs `from`..`to` ticks (tick t = the t-th TickDMA call after the FF46 write, which
	// processes dmaCycle t-1); before every tick the CPU reads OAM (prob readPct %), sometimes the
	// PPU does too.
	ticks := func(page, from, to, readPct int) {
		pc := oamPageClass(page)
		for t := from; t <= to; t++ {
			if c.rng.intn(100) < readPct {
				a := oamAddr()
				if t%7 == 3 {
					a = 0xfe00 + (t+156)%160 // the byte stored most recently / next
				}
				v := r.do(fmt.Sprintf("r %04x", a))
				c.class(fmt.Sprintf("dma/%s/c%d/r:%s", pc, t-1, v[:2]))
			}
			if c.rng.intn(100) < 10 {
				r.do(fmt.Sprintf("pr %04x", 0xfe00+c.rng.intn(0xa0)))
				c.class(fmt.Sprintf("dma/%s/c%d/pr", pc, t-1))
			}
			r.do("tick " + seed())
			c.class(fmt.Sprintf("dma/%s/c%d/tick", pc, t-1))
		}
	}
	after := func(page int) {
		r.do("dump")
		r.do("rdma")
		for i := 0; i < 3; i++ {
			r.do(fmt.Sprintf("r %04x", oamAddr()))
		}
		r.do("r fe00")
		r.do("r fe9f")
		r.do("r fea0")
		r.do("tick " + seed()) // a tick after completion does nothing
		r.do("dump")
		c.class(fmt.Sprintf("dma/%s/done", oamPageClass(page)))
	}

	// Part A1: every page 00-FF (F2-FF only for model/code agreement), sources changing at every
	// tick, a CPU read of OAM before every tick.
	for page := 0; page < 256; page++ {
		r.do("reset")
		r.do("fill " + seed())
		r.do(fmt.Sprintf("dma %02x", page))
		ticks(page, 1, 162, 100)
		after(page)
	}
	// Part A2: restarts.  quick: 20 random cycles for every page 00-F1;
	// thorough: additionally every cycle 0..162 for 16 pages.
	restart := func(page, at, page2, readPct int) {
		r.do("reset")
		r.do("fill " + seed())
		r.do(fmt.Sprintf("dma %02x", page))
		ticks(page, 1, at, readPct)
		r.do("dump")
		r.do(fmt.Sprintf("dma %02x", page2))
		c.class(fmt.Sprintf("restart/%s/c%d", oamPageClass(page2), at))
		r.do("r fe00")
		ticks(page2, 1, 162, readPct)
		after(page2)
	}
	nRestart := 20
	for page := 0; page <= 0xf1; page++ {
		for k := 0; k < nRestart; k++ {
			at := c.rng.intn(163)
			page2 := page
			if c.rng.chance(50) {
				page2 = c.rng.intn(0xf2)
			}
			restart(page, at, page2, 15)
		}
	}
	if c.thorough() {
		pages := []int{0x00, 0x3f, 0x7f, 0x80, 0x9f, 0xa0, 0xbf, 0xc0, 0xdf, 0xe0, 0xf1, 0xf2, 0xfe, 0xff}
		for len(pages) < 16 {
			pages = append(pages, c.rng.intn(256))
		}
		for _, page := range pages {
			for at := 0; at <= 162; at++ {
				restart(page, at, page, 100)
			}
		}
	}

	// Part B: corruption patterns.  For the fresh object (no PPURead yet) and for every PPU row
	// 0..19: every sequence of up to three triggers from {CPU read, CPU write, 16-bit inc/dec
	// trigger}, with the OAM-bug window open (and, as a control, closed / DMA running), on random
	// OAM contents; then Corrupt and a dump.
	trigs := []string{"r", "w", "t"}
	var combos [][]string
	combos = append(combos, []string{})
	for _, a := range trigs {
		combos = append(combos, []string{a})
		for _, b := range trigs {
			combos = append(combos, []string{a, b})
			for _, d := range trigs {
				combos = append(combos, []string{a, b, d})
			}
		}
	}
	contents := 2
	if c.thorough() {
		contents = 8
	}
	pattern := func(row int, combo []string, window string) {
		r.do("reset")
		r.do("fill " + seed())
		if row >= 0 {
			r.do(fmt.Sprintf("pr %04x", 0xfe00+8*row+c.rng.intn(8)))
		}
		switch window {
		case "open":
			r.do("enter")
		case "closed":
			r.do("enter")
			r.do("exit")
		case "dma":
			r.do("enter")
			r.do(fmt.Sprintf("dma %02x", c.rng.intn(0xf2)))
			for i := c.rng.intn(4); i > 0; i-- {
				r.do("tick " + seed())
			}
		}
		for _, t := range combo {
			switch t {
			case "r":
				r.do(fmt.Sprintf("r %04x", oamAddr()))
			case "w":
				r.do(fmt.Sprintf("w %04x %02x", oamAddr(), c.rng.byte()))
			case "t":
				r.do(fmt.Sprintf("trig %04x", oamAddr()))
			}
		}
		fl := oamFlags(r.o)
		res := r.do("cor")
		if res == "crash" {
			res = "crash"
		} else {
			res = "ok"
		}
		r.do("dump")
		c.class(fmt.Sprintf("bug/row%d/%s/%s/%s", row, window, strings.Fields(fl)[2], res))
	}
	for row := -1; row < 20; row++ {
		for _, combo := range combos {
			for k := 0; k < contents; k++ {
				pattern(row, combo, "open")
			}
			pattern(row, combo, "closed")
			pattern(row, combo, "dma")
		}
	}

	// Part C: random op sequences over the whole API (mostly in-contract addresses; a few
	// out-of-contract ones so that the panics of the real code are compared too).
	seqs, steps := 300, 150
	if c.thorough() {
		seqs, steps = 5000, 200
	}
	crashes := 0
	for s := 0; s < seqs; s++ {
		r.do("reset")
		if c.rng.chance(80) {
			r.do("fill " + seed())
		}
		if c.rng.chance(85) {
			r.do(fmt.Sprintf("pr %04x", 0xfe00+c.rng.intn(0xa0)))
		}
		for i := 0; i < steps; i++ {
			var out string
			switch k := c.rng.intn(100); {
			case k < 14:
				a := oamAddr()
				if c.rng.chance(2) {
					a = int(c.rng.u16())
				}
				out = r.do(fmt.Sprintf("r %04x", a))
			case k < 26:
				a := oamAddr()
				if c.rng.chance(2) {
					a = int(c.rng.u16())
				}
				out = r.do(fmt.Sprintf("w %04x %02x", a, c.rng.byte()))
			case k < 40:
				a := 0xfe00 + c.rng.intn(0xa0)
				if c.rng.chance(1) {
					a = int(c.rng.u16())
				}
				out = r.do(fmt.Sprintf("pr %04x", a))
			case k < 50:
				a := oamAddr()
				if c.rng.chance(20) {
					a = int(c.rng.u16())
				}
				out = r.do(fmt.Sprintf("trig %04x", a))
			case k < 64:
				out = r.do("cor")
			case k < 70:
				out = r.do("enter")
			case k < 74:
				out = r.do("exit")
			case k < 77:
				out = r.do(fmt.Sprintf("dma %02x", c.rng.byte()))
			case k < 79:
				out = r.do("rdma")
			case k < 95:
				n := 1
				if c.rng.chance(10) {
					n = 1 + c.rng.intn(170)
				}
				for j := 0; j < n; j++ {
					out = r.do("tick " + seed())
				}
			case k < 96:
				var sb strings.Builder
				for j := 0; j < 160; j++ {
					sb.WriteString(hx2(c.rng.byte()))
				}
				out = r.do("set " + sb.String())
			default:
				out = r.do("dump")
			}
			if out == "crash" {
				crashes++
			}
		}
		r.do("dump")
	}
	c.notes["random_sequences"] = seqs
	c.notes["random_sequence_crashes"] = crashes
	c.notes["pages_full_transfer"] = 256
	c.notes["restart_scenarios_per_page_00_f1"] = nRestart
	c.notes["bug_patterns"] = fmt.Sprintf("21 ppu positions (fresh + rows 0..19) x %d trigger sequences x (%d open + closed + dma)", len(combos), contents)
	c.notes["input_distribution"] = "A1: 256 pages x 162 ticks with a CPU read before every tick; A2: restarts; B: OAM-bug patterns; C: random API sequences (2% out-of-contract addresses)"
}

// newOam builds a whole machine and uses its OAM; the LCD is switched off and the OAM put back to its
// fresh state (no OAM-bug window) so that it behaves like oam.New()
func (r *oamRun) newOam() {
	r.mc = newMachine(make([]byte, 0x8000), false)
	r.o = r.mc.oam
	r.o.ExitMode2()
}
