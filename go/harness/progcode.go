package main

import (
	"fmt"
	"os"
	"strings"
)

// Structured guest programs for mode prog (`reset code <type2><romsize2><ramsize2> <addr4>:<hex> ...`).
//
// The image is 0x8000<<romsize bytes; byte i is 0 below 0x4000 and progFill(i) from 0x4000 on, then the header
// bytes 0147-0149, then the given segments.  The generator below writes small SM83 programs: a prologue
// (SP, DE = log pointer D000), a random sequence of snippets chosen with a per-property emphasis, and a final
// loop.  Everything the program reads is stored through DE into D000-D0FF (so a wrong value read from a register
// shows up in the work-RAM checksum of `st`); interrupt handlers log their vector.  Register DE is reserved.

func progFill(i int) byte {
	if i < 0x4000 {
		return 0
	}
	return byte(i*7 + (i>>14)*13 + (i >> 8))
}

func progCodeRom(hdr string, segs []string) []byte {
	if len(hdr) != 6 {
		return nil
	}
	t, rs, ra := unhex(hdr[0:2]), unhex(hdr[2:4]), unhex(hdr[4:6])
	if rs > 3 {
		return nil
	}
	size := 0x8000 << uint(rs)
	rom := make([]byte, size)
	for i := range rom {
		rom[i] = progFill(i)
	}
	rom[0x147], rom[0x148], rom[0x149] = byte(t), byte(rs), byte(ra)
	for _, sg := range segs {
		p := strings.SplitN(sg, ":", 2)
		if len(p) != 2 || len(p[1])%2 != 0 {
			return nil
		}
		a := unhex(p[0])
		n := len(p[1]) / 2
		if a+n > size {
			return nil
		}
		for k := 0; k < n; k++ {
			rom[a+k] = byte(unhex(p[1][2*k : 2*k+2]))
		}
	}
	return rom
}

type asm struct {
	b    []byte
	r    *rng
	emph string
}

func (a *asm) e(bs ...int) {
	for _, x := range bs {
		a.b = append(a.b, byte(x))
	}
}
func (a *asm) ldA(v int)        { a.e(0x3e, v) }
func (a *asm) ldhW(r int)       { a.e(0xe0, r) }
func (a *asm) ldhR(r int)       { a.e(0xf0, r) }
func (a *asm) log()             { a.e(0x12, 0x1c) } // LD (DE),A ; INC E
func (a *asm) io(r, v int)      { a.ldA(v); a.ldhW(r) }
func (a *asm) ioLog(r int)      { a.ldhR(r); a.log() }
func (a *asm) st16(addr, v int) { a.ldA(v); a.e(0xea, addr&0xff, addr>>8) }
func (a *asm) ld16Log(addr int) { a.e(0xfa, addr&0xff, addr>>8); a.log() }
func (a *asm) delay(n int) { // 4n+1 machine cycles
	if n < 1 {
		n = 1
	}
	a.e(0x06, n&0xff, 0x05, 0x20, 0xfd)
}

var progIORegs = []int{0x00, 0x01, 0x02, 0x04, 0x05, 0x06, 0x07, 0x0f, 0x40, 0x41, 0x42, 0x43, 0x44, 0x45, 0x47, 0x48, 0x49, 0x4a, 0x4b,
	0x4d, 0x50, 0x70, 0x7f, 0xff, 0x10, 0x11, 0x12, 0x13, 0x14, 0x16, 0x17, 0x18, 0x19, 0x1a, 0x1b, 0x1c, 0x1d, 0x1e, 0x20, 0x21, 0x22, 0x23,
	0x24, 0x25, 0x26, 0x30, 0x37, 0x3f, 0x03, 0x15, 0x1f, 0x27}

func (a *asm) val() int {
	r := a.r
	if r.chance(35) {
		return busValues[r.intn(len(busValues))]
	}
	return int(r.byte())
}

func (a *asm) memAddr() int {
	r := a.r
	switch r.intn(10) {
	case 0, 1:
		return 0x8000 + r.intn(0x2000)
	case 2:
		return 0xfe00 + r.intn(0x100)
	case 3, 4:
		return 0xc000 + r.intn(0x1000) // D000-D0FF is the log, DFxx the stack
	case 5:
		return 0xe000 + r.intn(0x1000)
	case 6:
		return 0xff80 + r.intn(0x7f)
	case 7, 8:
		return 0xa000 + r.intn(0x2000)
	default:
		return []int{0x0000, 0x1fff, 0x2000, 0x2100, 0x3000, 0x3fff, 0x4000, 0x5fff, 0x6000, 0x7fff}[r.intn(10)]
	}
}

// snippet kinds
const (
	skIOW = iota
	skIOR
	skMemW
	skMemR
	skDelay
	skDMA
	skIntr
	skHalt
	skTimer
	skAudio
	skLCD
	skStack
	skALU
	skCart
	skDIV
	skOAMTouch
	skSpriteStorm
	skKinds
)

var progWeights = map[string][skKinds]int{
	//        IOW IOR MW MR  DL DMA INT HLT TIM AUD LCD STK ALU CRT DIV OAM STORM
	"": {6, 6, 5, 5, 6, 2, 3, 2, 3, 3, 3, 3, 5, 2, 1, 2, 1},
	"C01": {2, 2, 4, 4, 3, 2, 3, 2, 2, 0, 1, 10, 14, 1, 1, 2, 0},
	"C02": {2, 2, 3, 3, 4, 6, 4, 4, 3, 0, 1, 5, 10, 0, 1, 2, 1},
	"C03": {2, 3, 4, 4, 3, 6, 3, 2, 3, 0, 2, 5, 8, 0, 1, 4, 1},
	"C04": {3, 3, 2, 2, 5, 1, 10, 5, 5, 0, 3, 5, 3, 0, 1, 0, 1},
	"C05": {3, 3, 2, 2, 5, 1, 8, 10, 5, 0, 3, 3, 3, 0, 1, 0, 1},
	"C06": {10, 10, 8, 8, 3, 2, 1, 1, 3, 1, 2, 1, 2, 3, 2, 2, 1},
	"C07": {10, 10, 8, 8, 3, 2, 1, 1, 3, 2, 3, 1, 2, 3, 2, 2, 1},
	"C08": {2, 2, 3, 5, 3, 2, 1, 1, 1, 0, 1, 1, 2, 16, 0, 0, 0},
	"C09": {2, 2, 4, 4, 3, 2, 1, 1, 1, 0, 1, 1, 2, 14, 0, 0, 0},
	"C10": {2, 2, 3, 3, 8, 1, 1, 1, 1, 0, 1, 1, 2, 14, 0, 0, 0},
	"C11": {3, 3, 4, 4, 3, 2, 1, 1, 1, 0, 1, 1, 2, 14, 0, 0, 4},
	"C12": {4, 6, 1, 1, 6, 1, 4, 3, 14, 0, 0, 1, 2, 0, 6, 0, 0},
	"C13": {3, 6, 2, 2, 8, 1, 4, 3, 1, 0, 12, 1, 2, 0, 0, 1, 3},
	"C14": {3, 6, 2, 2, 8, 1, 6, 4, 1, 0, 12, 1, 2, 0, 0, 1, 3},
	"C15": {2, 2, 8, 2, 6, 4, 1, 1, 0, 0, 12, 1, 2, 0, 0, 4, 4},
	"C16": {2, 3, 5, 5, 4, 12, 2, 1, 1, 0, 3, 2, 3, 2, 0, 5, 2},
	"C17": {2, 3, 3, 3, 4, 4, 2, 1, 1, 0, 6, 5, 5, 0, 0, 12, 4},
	"C18": {6, 8, 1, 1, 4, 0, 1, 1, 1, 14, 0, 1, 1, 0, 2, 0, 0},
	"C19": {4, 6, 1, 1, 8, 0, 1, 1, 1, 14, 0, 1, 1, 0, 2, 0, 0},
	"C20": {4, 4, 1, 1, 8, 0, 1, 2, 2, 12, 0, 1, 1, 0, 5, 0, 0},
	"C21": {4, 4, 1, 1, 8, 0, 1, 1, 1, 14, 0, 1, 1, 0, 2, 0, 0},
	"C22": {8, 8, 1, 1, 4, 4, 4, 3, 1, 0, 0, 1, 2, 0, 0, 0, 0},
	"C23": {10, 6, 1, 1, 4, 4, 3, 2, 1, 0, 0, 1, 8, 0, 0, 0, 0},
	"C25": {4, 4, 4, 4, 4, 3, 3, 2, 3, 4, 2, 2, 3, 10, 1, 1, 1},
}

func (a *asm) audioSnippet() {
	r := a.r
	switch r.intn(8) {
	case 0:
		a.io(0x26, []int{0x80, 0x80, 0x80, 0x00}[r.intn(4)])
	case 1:
		a.io(0x24, []int{0x77, 0x77, 0x07, 0x70, 0x35, 0xff}[r.intn(6)])
		a.io(0x25, []int{0xff, 0x11, 0x80, 0x08, 0x91, 0x19, 0x22, 0x44, 0xf0, 0x0f, int(r.byte())}[r.intn(11)])
	case 2: // square 1 with sweep
		a.io(0x10, int(r.byte())&0x7f)
		a.io(0x11, int(r.byte()))
		a.io(0x12, []int{0xf0, 0xf3, 0x08, 0x80, 0x0f, 0x00, int(r.byte())}[r.intn(7)])
		a.io(0x13, int(r.byte()))
		a.io(0x14, 0x80|r.intn(0x48)&0x47)
	case 3: // square 2
		a.io(0x16, int(r.byte()))
		a.io(0x17, []int{0xf0, 0xa2, 0x09, 0x00, int(r.byte())}[r.intn(5)])
		a.io(0x18, int(r.byte()))
		a.io(0x19, 0x80|r.intn(0x48)&0x47)
	case 4: // wave
		for k := 0; k < 1+r.intn(4); k++ {
			a.io(0x30+r.intn(16), int(r.byte()))
		}
		a.io(0x1a, []int{0x80, 0x80, 0x00}[r.intn(3)])
		a.io(0x1b, int(r.byte()))
		a.io(0x1c, r.intn(4)<<5)
		a.io(0x1d, int(r.byte()))
		a.io(0x1e, 0x80|r.intn(0x48)&0x47)
		if r.chance(50) {
			a.ioLog(0x30 + r.intn(16))
		}
	case 5: // noise
		a.io(0x20, int(r.byte())&0x3f)
		a.io(0x21, []int{0xf0, 0xf1, 0x0a, 0x00, 0x10, int(r.byte())}[r.intn(6)])
		a.io(0x22, []int{0x00, 0x08, 0x13, 0x55, 0xd7, int(r.byte())}[r.intn(6)])
		a.io(0x23, 0x80|r.intn(2)<<6)
	case 6:
		a.ioLog(0x26)
		a.ioLog(0x10 + r.intn(0x17))
	default:
		a.io(0x10+r.intn(0x17), int(r.byte()))
	}
}

func (a *asm) lcdSnippet() {
	r := a.r
	switch r.intn(10) {
	case 0:
		a.io(0x40, []int{0x91, 0x11, 0x80, 0x00, 0xe3, 0xf7, 0x83, 0x93, int(r.byte())}[r.intn(9)])
	case 1:
		a.io(0x41, []int{0x00, 0x08, 0x10, 0x20, 0x40, 0x78, int(r.byte())}[r.intn(7)])
	case 2:
		a.io(0x45, []int{0, 1, 0x8f, 0x90, 0x99, 0x98, r.intn(160)}[r.intn(7)])
	case 3:
		a.io(0x42+r.intn(2), int(r.byte()))
	case 4:
		a.io(0x47+r.intn(3), int(r.byte()))
	case 5:
		a.io(0x4a, r.intn(160))
		a.io(0x4b, r.intn(175))
	case 6: // a few tiles / map bytes
		for k := 0; k < 2+r.intn(6); k++ {
			ad := 0x8000 + r.intn(0x2000)
			if r.chance(50) {
				ad = 0x9800 + r.intn(0x800)
			}
			a.st16(ad, int(r.byte()))
		}
	case 7:
		a.ioLog(0x44)
		a.ioLog(0x41)
	case 8: // wait for a line
		ly := r.intn(154)
		a.io(0x40, 0x91|r.intn(0x80)&0x6e)    // the loop ends only if the LCD is on
		a.e(0xf0, 0x44, 0xfe, ly, 0x20, 0xfa) // LDH A,(44); CP ly; JR NZ,-6
	default:
		a.ioLog(0x40 + r.intn(12))
	}
}

func (a *asm) cartSnippet() {
	r := a.r
	switch r.intn(9) {
	case 0:
		a.st16(r.intn(0x2000), []int{0x0a, 0x0a, 0x00, 0x1a, int(r.byte())}[r.intn(5)])
	case 1:
		a.st16(0x2000+r.intn(0x2000), int(r.byte()))
	case 2:
		a.st16(0x4000+r.intn(0x2000), []int{0, 1, 2, 3, 8, 9, 0xa, 0xb, 0xc, int(r.byte())}[r.intn(10)])
	case 3:
		a.st16(0x6000+r.intn(0x2000), r.intn(2))
	case 4, 5:
		a.st16(0xa000+r.intn(0x2000), int(r.byte()))
	case 6:
		a.ld16Log(0xa000 + r.intn(0x2000))
	case 7: // MBC3 clock registers: enable, select one, write it (bit 6 of the day-high register halts the clock), latch
		a.st16(0x0000, 0x0a)
		sel := 0x08 + r.intn(8)
		a.st16(0x4000, sel)
		a.st16(0xa000+r.intn(0x2000), []int{0x40, 0x00, 0x41, 0xc1, int(r.byte())}[r.intn(5)])
		a.st16(0x6000, 0)
		a.st16(0x6000, 1)
		a.ld16Log(0xa000)
	default:
		a.ld16Log(0x4000 + r.intn(0x4000))
	}
}

func (a *asm) aluSnippet() {
	r := a.r
	hl := 0xc000 + r.intn(0x1000)
	if r.chance(20) {
		hl = a.memAddr()
		if hl < 0x8000 {
			hl = 0xc100
		}
	}
	if r.chance(12) || (a.emph == "C23" && r.chance(50)) {
		// read-modify-write instructions on I/O registers: the write-back is a bus write even if nothing changed
		hl = []int{0xff01, 0xff01, 0xff02, 0xff04, 0xff05, 0xff06, 0xff07, 0xff0f, 0xff41, 0xff45, 0xff47, 0xff42, 0xff24, 0xff12, 0xffff, 0xff00}[r.intn(16)]
		if a.emph == "C23" && r.chance(70) {
			hl = 0xff01
		}
	}
	a.e(0x21, hl&0xff, hl>>8)
	for k := 0; k < 2+r.intn(10); k++ {
		switch r.intn(6) {
		case 0, 1, 2:
			for {
				o := 0x40 + r.intn(0x80)
				if (o >= 0x50 && o <= 0x5f) || o == 0x76 {
					continue
				}
				a.e(o)
				break
			}
		case 3:
			// INC/DEC r, LD r,n (not D,E), rotates on A, DAA CPL SCF CCF, INC/DEC HL/BC, ADD HL,rr
			o := []int{0x04, 0x05, 0x0c, 0x0d, 0x24, 0x25, 0x2c, 0x2d, 0x3c, 0x3d, 0x34, 0x35, 0x07, 0x0f, 0x17, 0x1f, 0x27, 0x2f, 0x37, 0x3f,
				0x03, 0x0b, 0x23, 0x2b, 0x09, 0x19, 0x29, 0x39, 0x0a, 0x02, 0x22, 0x2a, 0x32, 0x3a}[r.intn(34)]
			if o == 0x02 {
				a.e(0x01, hl&0xff, hl>>8) // LD BC,hl first
			}
			if o == 0x0a {
				a.e(0x01, hl&0xff, hl>>8)
			}
			a.e(o)
		case 4:
			o := r.intn(256)
			if o&7 == 2 || o&7 == 3 { // D, E
				o &^= 2
			}
			a.e(0xcb, o)
		default:
			o := []int{0xc6, 0xce, 0xd6, 0xde, 0xe6, 0xee, 0xf6, 0xfe, 0x06, 0x0e, 0x26, 0x2e, 0x36}[r.intn(13)]
			a.e(o, int(r.byte()))
			if o == 0x26 { // H changed: reload HL
				a.e(0x21, hl&0xff, hl>>8)
			}
		}
		if r.chance(15) {
			a.e(0x21, hl&0xff, hl>>8)
		}
	}
	a.log()
	a.e(0xf5, 0xc1, 0x79) // PUSH AF; POP BC; LD A,C
	a.log()
}

func (a *asm) stackSnippet(subAddr int) {
	r := a.r
	switch r.intn(10) {
	case 0:
		a.e(0xcd, subAddr&0xff, subAddr>>8)
	case 1:
		a.e(0x01, int(r.byte()), int(r.byte()), 0xc5, 0xe1) // LD BC,nn; PUSH BC; POP HL
	case 2:
		a.e(0xf5, 0xf1)
	case 3:
		a.e(0xe8, int(r.byte())) // ADD SP,e
		a.e(0x31, 0xf0, 0xdf)    // LD SP,DFF0
	case 4:
		a.e(0xf8, int(r.byte()), 0x7d) // LD HL,SP+e ; LD A,L
		a.log()
	case 5:
		ad := 0xc200 + r.intn(0x100)
		a.e(0x08, ad&0xff, ad>>8) // LD (nn),SP
	case 6: // conditional call / ret paths
		a.e(0xaf, 0xcc, subAddr&0xff, subAddr>>8, 0xc4, subAddr&0xff, subAddr>>8) // XOR A; CALL Z; CALL NZ
	case 7:
		a.e(0xc7 + 8*(1+r.intn(4))) // RST 08..20: the vectors hold RET
	case 8:
		// a tiny routine (INC A; LD (DE),A; INC E; RET) copied to work RAM / high RAM / video RAM / cartridge RAM /
		// echo RAM / OAM / unusable space and called there
		dest := []int{0xc800, 0xff90, 0x8800, 0x9ff0, 0xa100, 0xe800, 0xfe10, 0xfe9c, 0xfdfc, 0xdffa, 0xfffa}[r.intn(11)]
		if dest >= 0xa000 && dest < 0xc000 {
			a.st16(0x0000, 0x0a)
		}
		a.e(0x21, dest&0xff, dest>>8)
		for _, b := range []int{0x3c, 0x12, 0x1c, 0xc9} {
			a.e(0x36, b, 0x23) // LD (HL),b ; INC HL
		}
		a.e(0xcd, dest&0xff, dest>>8)
	default:
		// the stack inside the I/O page, the sound registers, OAM, video RAM or at the very top / bottom of memory
		sp := []int{0xff30, 0xff40, 0xff12, 0xfea0, 0xfe80, 0x9ffe, 0xffff, 0x0001, 0xff82, 0xe001, 0xa002, 0xff08}[r.intn(12)]
		a.e(0x31, sp&0xff, sp>>8)
		switch r.intn(4) {
		case 0:
			a.e(0xc5, 0xe1) // PUSH BC; POP HL
		case 1:
			a.e(0xf5, 0xc1) // PUSH AF; POP BC
		case 2:
			a.e(0xe1, 0xe5) // POP HL; PUSH HL
		default:
			a.e(0xcd, subAddr&0xff, subAddr>>8)
		}
		a.e(0x31, 0xf0, 0xdf)
	}
}

func (a *asm) snippet(k int, subAddr int, st *progState) {
	r := a.r
	switch k {
	case skIOW:
		reg := progIORegs[r.intn(len(progIORegs))]
		v := a.val()
		if a.emph == "C22" && r.chance(60) {
			reg, v = 0x00, []int{0x10, 0x20, 0x30, 0x00, int(r.byte())}[r.intn(5)]
		}
		if a.emph == "C23" && r.chance(50) {
			reg = 0x01 + r.intn(2)
		}
		if reg == 0x40 {
			st.lcdKnown = false
		}
		a.io(reg, v)
	case skIOR:
		if a.emph == "C22" && r.chance(60) {
			a.ioLog(0x00)
		} else {
			a.ioLog(progIORegs[r.intn(len(progIORegs))])
		}
	case skMemW:
		ad := a.memAddr()
		if ad < 0x8000 {
			a.cartSnippet()
		} else {
			a.st16(ad, a.val())
		}
	case skMemR:
		a.ld16Log(a.memAddr())
	case skDelay:
		if r.chance(15) {
			a.delay(200 + r.intn(56))
			a.delay(200 + r.intn(56))
		} else {
			a.delay(1 + r.intn(60))
		}
	case skDMA:
		if r.chance(12) {
			// an MBC3 clock halted (or restarted) just before the transfer: the DMA engine and the cartridge clock
			// share the mapper's per-cycle hook, nothing else
			a.st16(0x0000, 0x0a)
			a.st16(0x4000, 0x0c)
			a.st16(0xa000, []int{0x40, 0x40, 0x00, 0xc1}[r.intn(4)])
		}
		page := []int{0x00, 0x01, 0x3f, 0x40, 0x7f, 0x80, 0x9f, 0xa0, 0xbf, 0xc0, 0xc1, 0xd0, 0xdf, 0xe0, 0xfd, 0xfe, 0xff, int(r.byte())}[r.intn(18)]
		a.io(0x46, page)
		for j := r.intn(4); j > 0; j-- {
			switch r.intn(4) {
			case 0:
				a.ioLog(0x46)
			case 1:
				a.ld16Log(0xfe00 + r.intn(0xa0))
			case 2:
				a.st16(0xfe00+r.intn(0xa0), int(r.byte()))
			default:
				a.delay(1 + r.intn(50))
			}
		}
	case skIntr:
		switch r.intn(7) {
		case 0:
			a.e(0xfb)
		case 1:
			a.e(0xf3)
		case 2:
			a.io(0xff, []int{0x01, 0x04, 0x05, 0x1f, 0x02, 0x10, 0xff, 0xe4, int(r.byte())}[r.intn(9)])
		case 3:
			a.io(0x0f, []int{0x01, 0x04, 0x05, 0x1f, 0x02, 0x10, 0x08, 0xff, int(r.byte())}[r.intn(9)])
		case 4:
			if r.chance(50) {
				a.e(0xfb, 0xcb, 0x37, 0xcb, 0x40) // EI ; SWAP A ; BIT 0,B  (CB-prefixed instructions in the EI shadow)
			} else {
				a.e(0xfb, 0xfb) // EI ; EI
			}
		case 5:
			a.e(0xfb, 0xf3) // EI ; DI
		default:
			a.ioLog(0x0f)
			a.ioLog(0xff)
		}
	case skHalt:
		// a wake-up source is guaranteed: the timer runs at the fastest rate and its interrupt is enabled
		a.io(0x07, 0x05)
		a.e(0xf0, 0xff, 0xf6, 0x04, 0xe0, 0xff) // IE |= 4
		switch r.intn(5) {
		case 0:
			a.e(0xfb, 0x76)
		case 1:
			a.e(0xf3, 0x76)
		case 2:
			a.io(0x0f, 0x04)
			a.e(0xf3, 0x76, 0x3c) // DI; HALT with a pending request: the halt bug; INC A
			a.log()
		case 3:
			a.e(0x76, 0x00)
		default:
			a.e(0xfb, 0x76, 0x76)
		}
	case skTimer:
		switch r.intn(6) {
		case 0:
			a.io(0x07, 4|[]int{1, 1, 2, 3, 0}[r.intn(5)])
		case 1:
			a.io(0x06, []int{0xff, 0xfe, 0xf8, 0xf0, 0x00, int(r.byte())}[r.intn(6)])
		case 2:
			a.io(0x05, []int{0xff, 0xfe, 0xfd, 0x00, int(r.byte())}[r.intn(5)])
		case 3:
			a.ioLog(0x05)
			a.ioLog(0x06)
		case 4:
			a.io(0x07, r.intn(4))
		default:
			a.ioLog(0x04)
			a.ioLog(0x05)
		}
	case skAudio:
		a.audioSnippet()
	case skLCD:
		a.lcdSnippet()
	case skStack:
		a.stackSnippet(subAddr)
	case skALU:
		a.aluSnippet()
	case skCart:
		a.cartSnippet()
	case skDIV:
		a.io(0x04, int(r.byte()))
	case skSpriteStorm:
		// a work-RAM page filled with one byte (40 objects on the same lines), copied to OAM by DMA, then the LCD is
		// switched off and on again many times with short on-phases
		v := []int{0x10, 0x10, 0x18, 0x50, 0x90, int(r.byte())}[r.intn(6)]
		a.e(0x21, 0x00, 0xc1, 0x06, 0xa0, 0x3e, v, 0x22, 0x05, 0x20, 0xfc) // LD HL,C100; LD B,A0; LD A,v; l: LD (HL+),A; DEC B; JR NZ,l
		a.io(0x46, 0xc1)
		a.delay(45)
		n := 1 + r.intn(60)
		on := 0x91 | r.intn(2)<<1 | r.intn(2)<<2
		for j := 0; j < n; j++ {
			a.io(0x40, on&0x7f)
			if r.chance(30) {
				a.delay(1 + r.intn(3))
			}
			a.io(0x40, on)
			if r.chance(40) {
				a.delay(1 + r.intn(40))
			}
		}
	case skOAMTouch:
		// 16-bit register pointing into OAM while it is incremented / decremented / pushed through
		ad := 0xfe00 + r.intn(0x100)
		switch r.intn(5) {
		case 0:
			a.e(0x21, ad&0xff, ad>>8, 0x23, 0x2b)
		case 1:
			a.e(0x01, ad&0xff, ad>>8, 0x03, 0x0b)
		case 2:
			a.e(0x21, ad&0xff, ad>>8, 0x2a)
			a.log()
			a.e(0x3a)
			a.log()
		case 3:
			a.e(0x21, ad&0xff, ad>>8, 0x22, 0x32)
		default:
			a.e(0x21, ad&0xff, ad>>8, 0xe5, 0xe1) // PUSH HL; POP HL
		}
	}
}

type progState struct{ lcdKnown bool }

var progCodeCarts = []string{"000000", "000000", "000000", "010100", "030203", "030203", "060100", "100102", "130203", "1b0303", "1a0202", "000100",
	"010000", "110000", "120003", "190100", "030202", "130103"}

// progCode: the op line of one structured program
func progCode(r *rng, emph string) string {
	w, ok := progWeights[emph]
	if !ok {
		w = progWeights[""]
	}
	total := 0
	for _, x := range w {
		total += x
	}
	hdr := progCodeCarts[0]
	if w[skCart] > 5 || r.chance(30) {
		hdr = progCodeCarts[r.intn(len(progCodeCarts))]
	}
	if (emph == "C16" || emph == "C10") && r.chance(30) {
		hdr = []string{"100102", "130203", "110000", "120003", "0f0100"}[r.intn(5)]
	}
	const subAddr = 0x0068
	a := &asm{r: r, emph: emph}
	// prologue
	a.e(0x31, 0xf0, 0xdf, 0x11, 0x00, 0xd0) // LD SP,DFF0 ; LD DE,D000
	st := &progState{}
	n := 40 + r.intn(160)
	for i := 0; i < n && len(a.b) < 0x3000; i++ {
		x := r.intn(total)
		k := 0
		for x >= w[k] {
			x -= w[k]
			k++
		}
		a.snippet(k, subAddr, st)
	}
	// epilogue: keep logging a timing-dependent register for ever
	a.e(0xf0, []int{0x44, 0x05, 0x04, 0x0f, 0x41}[r.intn(5)], 0x12, 0x1c, 0x18, 0xfa)
	segs := []string{"0100:00c35001"}
	// RST vectors 08-20: RET; 28-38 unused
	for v := 0x08; v <= 0x20; v += 8 {
		segs = append(segs, fmt.Sprintf("%04x:c9", v))
	}
	// interrupt vectors: PUSH AF; LD A,vec; LD (DE),A; INC E; POP AF; RETI   (sometimes RET: IME stays off)
	for v := 0x40; v <= 0x60; v += 8 {
		end := 0xd9
		if r.chance(15) {
			end = 0xc9
		}
		segs = append(segs, fmt.Sprintf("%04x:f53e%02x121cf1%02x", v, v, end))
	}
	segs = append(segs, fmt.Sprintf("%04x:3cc9", subAddr)) // sub: INC A; RET
	var sb strings.Builder
	for _, b := range a.b {
		fmt.Fprintf(&sb, "%02x", b)
	}
	segs = append(segs, "0150:"+sb.String())
	return "reset code " + hdr + " " + strings.Join(segs, " ")
}

func progEmphasis() string { return os.Getenv("VERIF_PROP") }
