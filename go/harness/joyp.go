package main

import (
	"fmt"
	"strings"

	"github.com/scottyw/tetromino/gameboy/controller"
)

// mode joyp: controller.Controller through its public API.
// ops:  reset | w <hex> (WriteJOYP) | b <button 0..7> <0|1> (ButtonAction)
// out:  the value of ReadJOYP after the operation.
func init() { modes["joyp"] = modeFn{gen: joypGen, replay: joypReplay} }

type joypRun struct {
	c   *ctx
	ctl *controller.Controller
}

func (j *joypRun) do(op string) string {
	w := strings.Fields(op)
	out := guard(func() string {
		switch w[0] {
		case "reset":
			j.ctl = controller.New()
		case "w":
			j.ctl.WriteJOYP(uint8(unhex(w[1])))
		case "b":
			j.ctl.ButtonAction(controller.Button(atoi(w[1])), w[2] != "0")
		case "e": // a key event with NO read after it (several events may arrive between two polls)
			j.ctl.ButtonAction(controller.Button(atoi(w[1])), w[2] != "0")
			return "ok"
		case "q": // a select write with no read after it
			j.ctl.WriteJOYP(uint8(unhex(w[1])))
			return "ok"
		default:
			return "bad-op"
		}
		return hx2(j.ctl.ReadJOYP())
	})
	j.c.emit(op, out)
	return out
}

func joypReplay(c *ctx, ops []string) {
	j := &joypRun{c: c, ctl: controller.New()}
	for _, op := range ops {
		j.do(op)
	}
}

func joypGen(c *ctx) {
	j := &joypRun{c: c, ctl: controller.New()}
	// Part 1 (exhaustive in both tiers): every reachable abstract state (select bits x the 9
	// direction states without opposites x 16 button states), reached by a canonical path from
	// reset, then every single transition (16 events, 256 writes), observed under all four
	// select settings.
	dirStates := [][]int{}
	for _, v := range [][]int{{}, {0}, {1}} { // none, Up, Down
		for _, h := range [][]int{{}, {2}, {3}} { // none, Left, Right
			dirStates = append(dirStates, append(append([]int{}, v...), h...))
		}
	}
	states := 0
	for _, sel := range []int{0x00, 0x10, 0x20, 0x30} {
		for _, ds := range dirStates {
			for bs := 0; bs < 16; bs++ {
				states++
				setup := func() {
					j.do("reset")
					for _, d := range ds {
						j.do(fmt.Sprintf("b %d 1", d))
					}
					for k := 0; k < 4; k++ {
						if bs&(1<<uint(k)) != 0 {
							j.do(fmt.Sprintf("b %d 1", 4+k))
						}
					}
					j.do(fmt.Sprintf("w %02x", sel))
				}
				observe := func(tag string) {
					sig := ""
					for _, s := range []int{0x00, 0x10, 0x20, 0x30} {
						sig += j.do(fmt.Sprintf("w %02x", s))
					}
					c.class(fmt.Sprintf("%02x/%v/%x/%s->%s", sel, ds, bs, tag, sig))
				}
				for b := 0; b < 8; b++ {
					for p := 0; p < 2; p++ {
						setup()
						j.do(fmt.Sprintf("b %d %d", b, p))
						observe(fmt.Sprintf("b%d%d", b, p))
					}
				}
				for v := 0; v < 256; v++ {
					setup()
					j.do(fmt.Sprintf("w %02x", v))
					if v%16 == 0 { // observation changes the select, so sample it
						observe(fmt.Sprintf("w%02x", v))
					}
				}
			}
		}
	}
	c.notes["abstract_states_enumerated"] = states
	c.notes["exhaustive_space"] = "4 select settings x 9 direction states x 16 button states, x (16 events + 256 writes)"
	// Part 1b: every ordered pair of key events (and a sample of triples) WITHOUT a read in between, from every
	// direction state, observed under all four select settings afterwards
	for _, ds := range dirStates {
		for e1 := 0; e1 < 16; e1++ {
			for e2 := 0; e2 < 16; e2++ {
				j.do("reset")
				for _, d := range ds {
					j.do(fmt.Sprintf("e %d 1", d))
				}
				j.do(fmt.Sprintf("e %d %d", e1/2, e1%2))
				j.do(fmt.Sprintf("e %d %d", e2/2, e2%2))
				if (e1+e2)%5 == 0 {
					j.do(fmt.Sprintf("e %d %d", c.rng.intn(8), c.rng.intn(2)))
				}
				for _, sl := range []int{0x00, 0x10, 0x20, 0x30} {
					j.do(fmt.Sprintf("w %02x", sl))
				}
			}
		}
	}
	// Part 2: seeded random walks.
	walks, steps := 20, 2000
	if c.thorough() {
		walks, steps = 100, 10000
	}
	for w := 0; w < walks; w++ {
		j.do("reset")
		for s := 0; s < steps; s++ {
			switch r := c.rng.intn(100); {
			case r < 25:
				j.do(fmt.Sprintf("w %02x", c.rng.byte()))
			case r < 50:
				j.do(fmt.Sprintf("b %d %d", c.rng.intn(8), c.rng.intn(2)))
			case r < 95:
				j.do(fmt.Sprintf("e %d %d", c.rng.intn(8), c.rng.intn(2)))
			default:
				j.do(fmt.Sprintf("q %02x", c.rng.byte()))
			}
		}
	}
}
