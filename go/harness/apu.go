package main

import (
	"fmt"
	"math"
	"os"
	"strings"
	"time"

	"github.com/scottyw/tetromino/gameboy/audio"
	"github.com/scottyw/tetromino/gameboy/controller"
	"github.com/scottyw/tetromino/gameboy/interrupts"
	"github.com/scottyw/tetromino/gameboy/memory"
	"github.com/scottyw/tetromino/gameboy/oam"
	"github.com/scottyw/tetromino/gameboy/ppu"
	"github.com/scottyw/tetromino/gameboy/serial"
	"github.com/scottyw/tetromino/gameboy/timer"
)

// mode apu (C18-C21): audio.Audio driven through a full memory.Mapper (so the FF10-FF3F routing
// of mapper.go is covered) plus Audio.EndMachineCycle and the verif hook VerifGet/VerifSetTicks.
//
// ops:
//
//	reset <a>           new Audio; a bit0 = left output attached, bit1 = right output attached -> NR52
//	w <addr4> <val2>    Mapper.Write (FF10-FF3F)                                               -> NR52 after the write
//	r <addr4>           Mapper.Read  (FF10-FF3F)                                               -> value
//	c <n>               n x EndMachineCycle -> NR52 #left #right cksumL cksumR bad ; internals
//	                    (cksum over round(sample*19200) of the samples emitted during the op,
//	                     bad = samples that are not finite or outside [0,1))
//	st                  -> "st ; internals"
//	wf                  -> dutyIndex1 dutyIndex2 wavePosition lfsr
//	m <ch> <k> <limit>  run machine cycles until >= k waveform steps of channel ch were seen
//	                    -> first stepsAtFirst total steps  |  limit <steps>
//	tk <hex>            VerifSetTicks                                                          -> ok
func init() { modes["apu"] = modeFn{gen: apuGen, replay: apuReplay} }

const apuD = 19200 // common denominator of the exact sample value (see Model/Apu.lean)

type apuRun struct {
	c      *ctx
	a      *audio.Audio
	m      *memory.Mapper
	l, r   chan float32
	att    int
	maxDev float64
	nSamp  int
	// expectation of the next `m` op (documented period in clocks; 0 = none), set by the generators
	expectP int
	pOK     int
	pBad    int
}

func newApuRun(c *ctx) *apuRun {
	p := &apuRun{c: c, l: make(chan float32, 1<<20), r: make(chan float32, 1<<20)}
	p.reset(0)
	return p
}

func (p *apuRun) reset(att int) {
	for len(p.l) > 0 {
		<-p.l
	}
	for len(p.r) > 0 {
		<-p.r
	}
	var l, r chan float32
	if att&1 != 0 {
		l = p.l
	}
	if att&2 != 0 {
		r = p.r
	}
	p.att = att
	p.a = audio.New(l, r)
	i := interrupts.New()
	o := oam.New()
	rom := make([]byte, 0x8000)
	p.m = memory.New(rom, i, o, ppu.New(i, o, false), controller.New(), serial.New(nil), timer.New(), p.a)
}

func (p *apuRun) internals() string {
	v := p.a.VerifGet()
	return fmt.Sprintf("%016x %016x %02x %02x %02x %04x %02x %02x %04x %02x %02x %02x %02x %04x",
		v.Ticks, v.FrameSeqTicks, v.Duty1, v.Duty2, v.WavePos, v.LFSR, v.Len1, v.Len2, v.Len3, v.Len4,
		v.Vol1, v.Vol2, v.Vol4, v.Freq1)
}

type apuAcc struct {
	n   int
	ck  uint32
	bad int
}

func (p *apuRun) drainOne(ch chan float32, acc *apuAcc) {
	for len(ch) > 0 {
		x := <-ch
		f := float64(x)
		if math.IsNaN(f) || math.IsInf(f, 0) || f < 0 || f >= 1 {
			acc.bad++
			acc.n++
			acc.ck = acc.ck*16777619 + 0xdead
			continue
		}
		s := f * apuD
		n := math.Round(s)
		if d := math.Abs(s - n); d > p.maxDev {
			p.maxDev = d
		}
		acc.n++
		acc.ck = acc.ck*16777619 + uint32(n) + 1
		p.nSamp++
	}
}

func (p *apuRun) cyclesAcc(n int, L, R *apuAcc) {
	for n > 0 {
		k := n
		if k > 1<<16 {
			k = 1 << 16
		}
		for j := 0; j < k; j++ {
			p.a.EndMachineCycle()
		}
		p.drainOne(p.l, L)
		p.drainOne(p.r, R)
		n -= k
	}
}

func (p *apuRun) wfIndex(ch int) int {
	v := p.a.VerifGet()
	switch ch {
	case 1:
		return int(v.Duty1)
	case 2:
		return int(v.Duty2)
	case 3:
		return int(v.WavePos)
	}
	return int(v.LFSR)
}

func apuDelta(ch, old, new int) int {
	switch ch {
	case 1, 2:
		return (new + 8 - old%8) % 8
	case 3:
		return (new + 32 - old%32) % 32
	}
	if new == old {
		return 0
	}
	return 1
}

func (p *apuRun) measure(ch, k, limit int) string {
	var L, R apuAcc
	cyc, steps := 0, 0
	first, sFirst := -1, 0
	for fuel := limit; fuel > 0; fuel-- {
		old := p.wfIndex(ch)
		p.cyclesAcc(1, &L, &R)
		d := apuDelta(ch, old, p.wfIndex(ch))
		cyc++
		steps += d
		if first < 0 && d > 0 {
			first, sFirst = cyc, steps
		}
		if steps >= k {
			if first < 0 {
				return fmt.Sprintf("limit %d", steps)
			}
			res := fmt.Sprintf("%d %d %d %d", first, sFirst, cyc, steps)
			if p.expectP > 0 {
				// documented step period (C21): steps between the two observations x P clocks
				if (steps-sFirst)*p.expectP == (cyc-first)*4 {
					p.pOK++
				} else {
					p.pBad++
					res += " period-mismatch"
				}
			}
			return res
		}
	}
	return fmt.Sprintf("limit %d", steps)
}

func (p *apuRun) do(op string) string {
	w := strings.Fields(op)
	out := guard(func() string {
		switch {
		case w[0] == "reset" && len(w) == 2:
			a := atoi(w[1])
			if a < 0 || a > 3 {
				return "bad-op"
			}
			p.reset(a)
			return hx2(p.m.Read(0xff26))
		case w[0] == "w" && len(w) == 3:
			ad, v := unhex(w[1]), unhex(w[2])
			if ad < 0xff10 || ad >= 0xff40 || v > 255 {
				return "bad-op"
			}
			p.m.Write(uint16(ad), uint8(v))
			return hx2(p.m.Read(0xff26))
		case w[0] == "r" && len(w) == 2:
			ad := unhex(w[1])
			if ad < 0xff10 || ad >= 0xff40 {
				return "bad-op"
			}
			return hx2(p.m.Read(uint16(ad)))
		case w[0] == "c" && len(w) == 2:
			var L, R apuAcc
			p.cyclesAcc(atoi(w[1]), &L, &R)
			return fmt.Sprintf("%s %d %d %08x %08x %d ; %s", hx2(p.m.Read(0xff26)), L.n, R.n, L.ck, R.ck, L.bad+R.bad, p.internals())
		case w[0] == "st" && len(w) == 1:
			return "st ; " + p.internals()
		case w[0] == "wf" && len(w) == 1:
			v := p.a.VerifGet()
			return fmt.Sprintf("%02x %02x %02x %04x", v.Duty1, v.Duty2, v.WavePos, v.LFSR)
		case w[0] == "m" && len(w) == 4:
			ch := atoi(w[1])
			if ch < 1 || ch > 4 {
				return "bad-op"
			}
			return p.measure(ch, atoi(w[2]), atoi(w[3]))
		case w[0] == "stall" && len(w) == 2:
			// a FRESH sound unit with tiny output channels and a consumer that keeps up except for one pause of
			// 400 ms: every sample of the n machine cycles must still arrive (the producer waits, nothing is lost)
			n := atoi(w[1])
			l, r := make(chan float32, 4), make(chan float32, 4)
			a := audio.New(l, r)
			var L, R apuAcc
			stop := make(chan struct{})
			fin := make(chan struct{})
			take := func(x float32, acc *apuAcc) {
				k := math.Round(float64(x) * apuD)
				acc.n++
				acc.ck = acc.ck*16777619 + uint32(k) + 1
			}
			go func() {
				defer close(fin)
				paused := false
				for {
					select {
					case x := <-l:
						take(x, &L)
					case x := <-r:
						take(x, &R)
					case <-stop:
						for len(l) > 0 {
							take(<-l, &L)
						}
						for len(r) > 0 {
							take(<-r, &R)
						}
						return
					}
					if !paused && L.n >= 50 {
						paused = true
						time.Sleep(400 * time.Millisecond)
					}
				}
			}()
			for j := 0; j < n; j++ {
				a.EndMachineCycle()
			}
			close(stop)
			<-fin
			return fmt.Sprintf("%02x %d %d %08x %08x", a.ReadNR52(), L.n, R.n, L.ck, R.ck)
		case w[0] == "tk" && len(w) == 2:
			var t uint64
			if _, err := fmt.Sscanf(w[1], "%x", &t); err != nil {
				return "bad-op"
			}
			p.a.VerifSetTicks(t)
			return "ok"
		}
		return "bad-op"
	})
	p.expectP = 0
	p.c.emit(op, out)
	return out
}

func apuReplay(c *ctx, ops []string) {
	p := newApuRun(c)
	for _, op := range ops {
		p.do(op)
	}
}

// ---------------------------------------------------------------- generators

var apuRegs = []int{0xff10, 0xff11, 0xff12, 0xff13, 0xff14, 0xff16, 0xff17, 0xff18, 0xff19, 0xff1a, 0xff1b,
	0xff1c, 0xff1d, 0xff1e, 0xff20, 0xff21, 0xff22, 0xff23, 0xff24, 0xff25}

// apuGenSt is the generator's own bookkeeping (what it last wrote), used only for class counting
type apuGenSt struct {
	p    *apuRun
	last map[int]int
	on   bool
}

func (g *apuGenSt) w(ad, v int) string {
	out := g.p.do(fmt.Sprintf("w %04x %02x", ad, v))
	if ad == 0xff26 {
		if v&0x80 == 0 {
			g.on = false
			for _, r := range apuRegs {
				g.last[r] = 0
			}
		} else {
			g.on = true
		}
	} else if g.on {
		g.last[ad] = v
	}
	return out
}
func (g *apuGenSt) r(ad int) string { return g.p.do(fmt.Sprintf("r %04x", ad)) }
func (g *apuGenSt) c(n int) string  { return g.p.do(fmt.Sprintf("c %d", n)) }
func (g *apuGenSt) reset(a int) {
	g.p.do(fmt.Sprintf("reset %d", a))
	g.last = map[int]int{}
	g.on = true
}

func onoff(b bool) string {
	if b {
		return "on"
	}
	return "off"
}

// biased value for a register
func (g *apuGenSt) value(ad int) int {
	rng := g.p.c.rng
	switch ad {
	case 0xff14, 0xff19, 0xff1e, 0xff23:
		base := rng.pick([]int{0x80, 0xc0, 0x40, 0x00, 0x80, 0xc0})
		return base | rng.intn(8) | (rng.intn(2) * rng.intn(8) << 3)
	case 0xff12, 0xff17, 0xff21:
		if rng.chance(60) {
			return rng.pick([]int{0x00, 0x08, 0xf0, 0xf3, 0x10, 0x0f, 0x09, 0x07, 0xf8, 0xa1, 0x1f, 0x80})
		}
	case 0xff11, 0xff16, 0xff20:
		if rng.chance(70) {
			return rng.pick([]int{0x3f, 0x3e, 0x3d, 0x3c, 0x00, 0xff, 0xfe, 0x7e, 0xbd, 0x30})
		}
	case 0xff1b:
		if rng.chance(70) {
			return rng.pick([]int{0xff, 0xfe, 0xfd, 0xfc, 0x00, 0x01, 0xf0})
		}
	case 0xff1a:
		return rng.pick([]int{0x00, 0x80, 0x80, 0xff, 0x7f})
	case 0xff10:
		if rng.chance(60) {
			return rng.pick([]int{0x00, 0x08, 0x11, 0x19, 0x7f, 0x77, 0x1f, 0x10, 0x09, 0x01, 0x18, 0x21, 0x2a})
		}
	case 0xff26:
		return rng.pick([]int{0x00, 0x80, 0x80, 0xff, 0x7f, 0x8f})
	case 0xff13:
		if rng.chance(40) {
			return rng.pick([]int{0xff, 0x00, 0xfe, 0x80})
		}
	}
	return int(rng.byte())
}

func (g *apuGenSt) pickAddr() int {
	rng := g.p.c.rng
	x := rng.intn(100)
	switch {
	case x < 70:
		return apuRegs[rng.intn(len(apuRegs))]
	case x < 76:
		return 0xff26
	case x < 94:
		return 0xff30 + rng.intn(16)
	default:
		return rng.pick([]int{0xff15, 0xff1f, 0xff27, 0xff28, 0xff2f})
	}
}

// gap between writes: small, or biased to the frame-sequencer period (2048 machine cycles per step)
func (g *apuGenSt) gap(emph string) int {
	rng := g.p.c.rng
	small := 60
	switch emph {
	case "C18":
		small = 88
	case "C19":
		small = 55
	}
	if rng.chance(small) {
		if rng.chance(50) {
			return 1 + rng.intn(3)
		}
		return 1 + rng.intn(60)
	}
	switch rng.intn(8) {
	case 0:
		return 1 + rng.intn(400)
	case 1:
		return 2047
	case 2:
		return 2048
	case 3:
		return 2049
	case 4:
		return 4096
	case 5:
		return 1 + rng.intn(5000)
	case 6:
		return 2040 + rng.intn(16)
	}
	return 1000 + rng.intn(1100)
}

func (g *apuGenSt) statusClass(tag string, before, after string) {
	if before != after {
		g.p.c.class(fmt.Sprintf("status/%s/%s->%s", tag, before, after))
	}
}

// one random register schedule of about `budget` machine cycles
func (g *apuGenSt) schedule(budget int, emph string) {
	rng := g.p.c.rng
	att := 3
	if rng.chance(15) {
		att = rng.intn(4)
	}
	g.reset(att)
	// most schedules start by configuring something audible
	if rng.chance(80) {
		g.w(0xff24, g.value(0xff24))
		g.w(0xff25, rng.pick([]int{0xff, 0xff, int(rng.byte()), 0x11, 0x22, 0x44, 0x88, 0xf0, 0x0f}))
	}
	if rng.chance(30) {
		g.c(rng.intn(2048)) // move to a random phase inside a frame-sequencer step
	}
	nr52 := ""
	for budget > 0 {
		ad := g.pickAddr()
		if emph == "C19" && rng.chance(50) {
			ad = rng.pick([]int{0xff14, 0xff19, 0xff1e, 0xff23, 0xff11, 0xff16, 0xff1b, 0xff20, 0xff12, 0xff17, 0xff1a, 0xff21, 0xff10})
		}
		if emph == "C20" && rng.chance(30) {
			ad = rng.pick([]int{0xff24, 0xff25, 0xff12, 0xff17, 0xff21, 0xff1c, 0xff14, 0xff19, 0xff1e, 0xff23, 0xff22})
		}
		v := g.value(ad)
		before := nr52
		nr52 = g.w(ad, v)
		if before != "" {
			g.statusClass(fmt.Sprintf("w%04x", ad), before, nr52)
		}
		if ad >= 0xff30 || rng.chance(60) {
			rv := g.r(ad)
			g.p.c.class(fmt.Sprintf("rb/%04x/%02x/%s/%s", ad, v, onoff(g.on), rv))
		}
		if rng.chance(4) {
			for a := 0xff10; a < 0xff40; a++ {
				g.r(a)
			}
		}
		n := g.gap(emph)
		if n > budget {
			n = budget
		}
		if emph == "C19" && rng.chance(15) || rng.chance(3) {
			// per-cycle NR52 observation
			k := 20 + rng.intn(100)
			for j := 0; j < k && budget > 0; j++ {
				b := nr52
				o := g.c(1)
				nr52 = o[:2]
				g.statusClass("tick", b, nr52)
				budget--
			}
			continue
		}
		o := g.c(n)
		b := nr52
		nr52 = o[:2]
		g.statusClass("tick", b, nr52)
		if f := strings.Fields(o); len(f) > 4 && f[1] != "0" && (f[3] != f[4] || rng.chance(5)) {
			g.p.c.class(fmt.Sprintf("mix/%d/%02x/%02x", att, g.last[0xff24], g.last[0xff25]))
		}
		budget -= n
	}
	g.p.do("st")
}

// directed length test: trigger channel ch with length data t at frame-sequencer phase `phase`
// (cycles into a step), with/without length enable, observe NR52 per length-clock period
func (g *apuGenSt) lengthCase(ch, t int, le bool, odd bool, enableLater bool) {
	rng := g.p.c.rng
	g.reset(3)
	// frame sequencer: step k happens when ticks%8192==0; after reset ticks=1. fs counts steps done.
	// odd=true: make frameSeqTicks odd (one step done) before the writes.
	pre := rng.intn(2040) + 2
	if odd {
		pre += 2048
	}
	g.c(pre)
	nrx1 := []int{0xff11, 0xff16, 0xff1b, 0xff20}[ch-1]
	nrx2 := []int{0xff12, 0xff17, 0xff1a, 0xff21}[ch-1]
	nrx4 := []int{0xff14, 0xff19, 0xff1e, 0xff23}[ch-1]
	dac := 0xf0
	if ch == 3 {
		dac = 0x80
	}
	g.w(nrx2, dac)
	g.w(nrx1, t)
	v := 0x80
	if le && !enableLater {
		v |= 0x40
	}
	g.w(nrx4, v)
	if enableLater {
		g.c(rng.intn(3000))
		g.w(nrx4, 0x40)
	}
	full := 64
	if ch == 3 {
		full = 256
	}
	clocks := full - (t & (full - 1))
	// walk to the expiry in length-clock sized strides, then per cycle around the expected end
	nr52 := ""
	for k := 0; k < clocks+2; k++ {
		if k >= clocks-2 {
			for j := 0; j < 8; j++ {
				o := g.c(512)
				b := nr52
				nr52 = o[:2]
				if b != "" {
					g.statusClass(fmt.Sprintf("len/ch%d/le%v/odd%v/later%v", ch, le, odd, enableLater), b, nr52)
				}
			}
		} else {
			o := g.c(4096)
			nr52 = o[:2]
		}
	}
	g.p.c.class(fmt.Sprintf("lencase/ch%d/t%02x/le%v/odd%v/later%v/%s", ch, t, le, odd, enableLater, nr52))
}

// the trigger write placed ON and around the machine cycle in which the frame sequencer clocks the lengths (and at the
// other step boundaries): with three length clocks left the channel must go off after exactly three more
func (g *apuGenSt) lengthEdgeCase(ch, pre int) {
	g.reset(3)
	nrx1 := []int{0xff11, 0xff16, 0xff1b, 0xff20}[ch-1]
	nrx2 := []int{0xff12, 0xff17, 0xff1a, 0xff21}[ch-1]
	nrx4 := []int{0xff14, 0xff19, 0xff1e, 0xff23}[ch-1]
	dac, full := 0xf0, 64
	if ch == 3 {
		dac, full = 0x80, 256
	}
	g.w(nrx2, dac)
	g.w(nrx1, full-3)
	g.c(pre)
	nr52 := g.w(nrx4, 0xc0)
	trace := ""
	for j := 0; j < 40; j++ {
		o := g.c(512)
		b := nr52
		nr52 = o[:2]
		g.statusClass(fmt.Sprintf("lenedge/ch%d/%d", ch, j), b, nr52)
		trace += nr52[1:2]
	}
	g.p.c.class(fmt.Sprintf("lenedge/ch%d/%d/%s", ch, pre, trace))
}

// a channel whose envelope has faded to zero is triggered again WITHOUT rewriting NRx2: the DAC is still on, so the
// status bit must come on again
func (g *apuGenSt) fadeRetriggerCase(ch, nrx2v int) {
	g.reset(3)
	nrx2 := []int{0xff12, 0xff17, 0, 0xff21}[ch-1]
	nrx4 := []int{0xff14, 0xff19, 0, 0xff23}[ch-1]
	g.w(nrx2, nrx2v)
	g.w(nrx4, 0x80)
	vol, per := nrx2v>>4, nrx2v&7
	g.c(16384*(vol*per+2) + g.p.c.rng.intn(5000))
	g.r(0xff26)
	g.r(nrx2)
	after := g.w(nrx4, 0x80)
	g.c(3000)
	g.r(0xff26)
	g.p.c.class(fmt.Sprintf("faderetrig/ch%d/%02x/%s", ch, nrx2v, after))
}

// channel 1 with sweep period 0 ("no sweep") and a shift: the frequency must stay put and the channel on for as long
// as one cares to wait (the sweep timer is reloaded with 8 when the period is 0 - it must not turn into a period)
func (g *apuGenSt) sweepZeroPeriodCase(nr10, f int, retrig bool) {
	g.reset(3)
	g.w(0xff10, nr10)
	g.w(0xff12, 0xf0)
	g.w(0xff13, f&0xff)
	g.w(0xff14, 0x80|f>>8)
	for j := 0; j < 24; j++ {
		g.c(32768)
		g.r(0xff10)
		if retrig && j == 10 {
			g.w(0xff14, 0x80|f>>8)
		}
	}
	g.p.do("st")
	g.p.c.class(fmt.Sprintf("sweep0/%02x/%03x/%v", nr10, f, retrig))
}

// channel 3 stopped (DAC off, length expiry, power cycle) after playing at a given frequency, triggered again while
// stopped, stopped again: wave RAM read with the channel off must still hold what was written
func (g *apuGenSt) waveStopRetriggerCase(f, how, play int) {
	g.reset(0)
	for i := 0; i < 16; i++ {
		g.w(0xff30+i, (i*0x22+0x01)&0xff)
	}
	g.w(0xff1a, 0x80)
	g.w(0xff1b, 0xfe) // two length clocks left (used by how == 1)
	g.w(0xff1c, 0x20)
	g.w(0xff1d, f&0xff)
	v := 0x80 | f>>8
	if how == 1 {
		v |= 0x40
	}
	g.w(0xff1e, v)
	g.c(play)
	switch how {
	case 0:
		g.w(0xff1a, 0x00)
	case 1:
		g.c(3 * 4096)
	default:
		g.w(0xff26, 0x00)
		g.w(0xff26, 0x80)
	}
	g.w(0xff1a, 0x80)
	g.w(0xff1d, f&0xff)
	g.w(0xff1e, 0x80|f>>8) // trigger of the stopped channel
	g.c(1 + g.p.c.rng.intn(3))
	g.w(0xff1a, 0x00)
	for i := 0; i < 16; i++ {
		g.r(0xff30 + i)
	}
	g.p.c.class(fmt.Sprintf("wavestop/%03x/%d", f, how))
}

// channel 1 sweep (addition) whose first calculation lands exactly on, just below and just above the largest legal
// frequency 2047
func (g *apuGenSt) sweepBoundaryCase(f, sh int) {
	g.reset(3)
	g.w(0xff10, 0x10|sh)
	g.w(0xff12, 0xf0)
	g.w(0xff13, f&0xff)
	g.w(0xff14, 0x80|f>>8)
	g.r(0xff26)
	for j := 0; j < 3; j++ {
		g.c(32768)
		g.r(0xff26)
	}
	g.p.do("st")
	g.p.c.class(fmt.Sprintf("sweepedge/%d/%d/%d", f, sh, f+f>>uint(sh)))
}

// channel 3 playing with one position step per machine cycle (7FE) or two (7FF), re-triggered after n cycles for every
// n up to a full turn of the 32 positions; then stopped and wave RAM read back (the DMG retrigger corruption copies
// bytes depending on the position - every position must do what the model says)
func (g *apuGenSt) waveRetriggerSweepCase(f, n int) {
	g.reset(0)
	for i := 0; i < 16; i++ {
		g.w(0xff30+i, (i*0x13+0x21)&0xff)
	}
	g.w(0xff1a, 0x80)
	g.w(0xff1c, 0x20)
	g.w(0xff1d, f&0xff)
	g.w(0xff1e, 0x80|f>>8)
	g.c(n)
	g.w(0xff1e, 0x80|f>>8)
	g.c(1)
	g.w(0xff1a, 0x00)
	for i := 0; i < 16; i++ {
		g.r(0xff30 + i)
	}
	g.p.c.class(fmt.Sprintf("waveretrig/%03x/%d", f, n))
}

// channel 3 playing, re-triggered (or stopped and restarted), and wave RAM written / read straight after the trigger,
// before the next sample fetch; then stopped and read back
func (g *apuGenSt) waveAccessAfterTriggerCase(f, play int, restart bool) {
	rng := g.p.c.rng
	g.reset(0)
	for i := 0; i < 16; i++ {
		g.w(0xff30+i, (i*0x11+0x10)&0xff)
	}
	g.w(0xff1a, 0x80)
	g.w(0xff1c, 0x20)
	g.w(0xff1d, f&0xff)
	g.w(0xff1e, 0x80|f>>8)
	g.c(play)
	if restart {
		g.w(0xff1a, 0x00)
		g.w(0xff1a, 0x80)
	}
	g.w(0xff1e, 0x80|f>>8)
	g.w(0xff30+rng.intn(16), 0xee)
	g.r(0xff30 + rng.intn(16))
	g.c(rng.intn(3))
	g.w(0xff30+rng.intn(16), 0xdd)
	g.c(1 + rng.intn(700))
	g.w(0xff1a, 0x00)
	for i := 0; i < 16; i++ {
		g.r(0xff30 + i)
	}
	g.p.c.class(fmt.Sprintf("waveaccess/%03x/%v", f, restart))
}

// random sequences of NRx4 writes (length enable and trigger in every combination) at random phases with the counter
// near its end values, then NR52 observed once per length clock until well past any possible expiry
func (g *apuGenSt) nrx4SequenceCase(ch int) {
	rng := g.p.c.rng
	g.reset(3)
	nrx1 := []int{0xff11, 0xff16, 0xff1b, 0xff20}[ch-1]
	nrx2 := []int{0xff12, 0xff17, 0xff1a, 0xff21}[ch-1]
	nrx4 := []int{0xff14, 0xff19, 0xff1e, 0xff23}[ch-1]
	dac, full := 0xf0, 64
	if ch == 3 {
		dac, full = 0x80, 256
	}
	g.w(nrx2, dac)
	g.w(nrx1, (full-[]int{1, 1, 2, 0, 3}[rng.intn(5)])&(full-1))
	g.c(rng.intn(8192))
	for k := 0; k < 3+rng.intn(4); k++ {
		g.w(nrx4, []int{0x00, 0x40, 0x80, 0xc0}[rng.intn(4)])
		g.r(0xff26)
		switch rng.intn(3) {
		case 0:
			g.c(1 + rng.intn(3))
		case 1:
			g.c(2048 + rng.intn(4096))
		default:
			g.c(4096*(1+rng.intn(3)) + rng.intn(2048))
		}
	}
	last := g.w(nrx4, []int{0x40, 0xc0}[rng.intn(2)])
	n := 68
	if ch == 3 {
		n = 260
	}
	trace := last[1:2]
	for j := 0; j < n; j++ {
		o := g.c(4096)
		trace += o[1:2]
	}
	g.p.c.class(fmt.Sprintf("nrx4seq/ch%d/%s", ch, trace))
}

// one NRx4 write that both triggers and flips the length-enable bit relative to the previous write, with the counter at
// an end value, in the first and in the second half of a length period; then NR52 once per length clock
func (g *apuGenSt) nrx4FlipCase(ch, variant, pre int) {
	g.reset(3)
	nrx1 := []int{0xff11, 0xff16, 0xff1b, 0xff20}[ch-1]
	nrx2 := []int{0xff12, 0xff17, 0xff1a, 0xff21}[ch-1]
	nrx4 := []int{0xff14, 0xff19, 0xff1e, 0xff23}[ch-1]
	dac, full := 0xf0, 64
	if ch == 3 {
		dac, full = 0x80, 256
	}
	g.w(nrx2, dac)
	switch variant {
	case 0: // enable 0 -> 1 with trigger, one clock left
		g.w(nrx1, full-1)
		g.c(pre)
		g.w(nrx4, 0xc0)
	case 1: // enable 0 -> 1 with trigger, counter expired
		g.w(nrx1, full-1)
		g.c(2148)
		g.w(nrx4, 0xc0)
		g.c(2 * 4096)
		g.w(nrx4, 0x00)
		g.c(pre + 4096 - 2148%4096)
		g.w(nrx4, 0xc0)
	case 2: // enable 1 -> 0 with trigger, full counter; enabled again later
		g.w(nrx1, 0x00)
		g.w(nrx4, 0x40)
		g.c(pre)
		g.w(nrx4, 0x80)
		g.c(4096 + 77)
		g.w(nrx4, 0x40)
	case 4: // the channel is ON (triggered without length enable) with one clock left; then trigger + enable in one write
		g.w(nrx1, full-1)
		g.w(nrx4, 0x80)
		g.c(pre)
		g.w(nrx4, 0xc0)
	case 5: // the same with the channel restarted by a second plain trigger first
		g.w(nrx1, full-1)
		g.w(nrx4, 0x80)
		g.c(77)
		g.w(nrx4, 0x80)
		g.c(pre)
		g.w(nrx4, 0xc0)
	default: // enable 1 -> 0 with trigger after the counter expired; enabled again later
		g.w(nrx1, full-1)
		g.c(2148)
		g.w(nrx4, 0xc0)
		g.c(2 * 4096)
		g.c(pre + 4096 - 2148%4096)
		g.w(nrx4, 0x80)
		g.c(4096 + 77)
		g.w(nrx4, 0x40)
	}
	trace := ""
	n := full + 4
	for j := 0; j < n; j++ {
		o := g.c(4096)
		trace += o[1:2]
	}
	g.p.c.class(fmt.Sprintf("nrx4flip/ch%d/%d/%d/%s", ch, variant, pre, trace))
}

// channel 1 triggered with NR10 = 00 (sweep unit not armed), NR10 rewritten later WITHOUT a new trigger: nothing may
// ever be calculated, the channel stays on at its frequency
func (g *apuGenSt) sweepArmLaterCase(nr10 int, f int) {
	g.reset(3)
	g.w(0xff10, 0x00)
	g.w(0xff12, 0xf0)
	g.w(0xff13, f&0xff)
	g.w(0xff14, 0x80|f>>8)
	g.c(5000 + g.p.c.rng.intn(20000))
	g.w(0xff10, nr10)
	for j := 0; j < 14; j++ {
		g.c(32768)
		g.r(0xff26)
	}
	g.p.do("st")
	g.p.c.class(fmt.Sprintf("sweeplater/%02x/%03x", nr10, f))
}

// directed retrigger test (C19): let the length counter expire, then trigger again with length
// still enabled in the first (odd) or second (even) half of a frame-sequencer period: the expired
// counter is reloaded with 64/256, less one in the first half; observed through the expiry time
func (g *apuGenSt) retriggerCase(ch int, odd bool) {
	g.reset(3)
	nrx1 := []int{0xff11, 0xff16, 0xff1b, 0xff20}[ch-1]
	nrx2 := []int{0xff12, 0xff17, 0xff1a, 0xff21}[ch-1]
	nrx4 := []int{0xff14, 0xff19, 0xff1e, 0xff23}[ch-1]
	dac, last, full := 0xf0, 0x3f, 64
	if ch == 3 {
		dac, last, full = 0x80, 0xff, 256
	}
	g.c(100) // step counter 0 (even): no extra clock
	g.w(nrx2, dac)
	g.w(nrx1, last) // one length clock left
	g.w(nrx4, 0xc0)
	t := 3*2048 + 100 // step counter 3: first half
	if !odd {
		t = 4*2048 + 100 // step counter 4: second half
	}
	g.c(t - 100) // the counter expired at step 0
	before := g.w(nrx4, 0xc0)
	g.c((full - 3) * 4096)
	nr52 := before
	trace := ""
	for j := 0; j < 40; j++ {
		o := g.c(512)
		b := nr52
		nr52 = o[:2]
		g.statusClass(fmt.Sprintf("retrig/ch%d/odd%v/%d", ch, odd, j), b, nr52)
		trace += nr52[1:2]
	}
	g.p.c.class(fmt.Sprintf("retrig/ch%d/odd%v/%s", ch, odd, trace))
}

// waveform period measurement (C21)
func (g *apuGenSt) measureSquare(ch, f int) {
	g.reset(0)
	nrx2 := []int{0xff12, 0xff17}[ch-1]
	nrx3 := []int{0xff13, 0xff18}[ch-1]
	nrx4 := []int{0xff14, 0xff19}[ch-1]
	g.w(nrx2, 0xf0)
	g.w(nrx3, f&0xff)
	g.w(nrx4, 0x80|f>>8)
	g.c(g.p.c.rng.intn(7))
	g.p.expectP = 4 * (2048 - f)
	k := 9
	if f < 1024 {
		k = 3
	}
	o := g.p.do(fmt.Sprintf("m %d %d %d", ch, k, (k+2)*(2048-f)+16))
	g.p.c.class(fmt.Sprintf("period/ch%d/f%03x/%s", ch, f, o))
}

func (g *apuGenSt) measureWave(f int) {
	g.reset(0)
	g.w(0xff1a, 0x80)
	g.w(0xff1d, f&0xff)
	g.w(0xff1e, 0x80|f>>8)
	g.c(g.p.c.rng.intn(7))
	g.p.expectP = 2 * (2048 - f)
	k := 9
	if f < 1024 {
		k = 3
	}
	o := g.p.do(fmt.Sprintf("m 3 %d %d", k, (k+2)*(2048-f)/2+16))
	g.p.c.class(fmt.Sprintf("period/ch3/f%03x/%s", f, o))
}

// C21 in context: another channel is (re)triggered while the measured one runs; the frequency is rewritten without a
// trigger while the sweep unit is armed; NR43 is rewritten on a running noise channel (width bit, shift codes 14/15 and
// back) - the waveform must step as the registers say
func (g *apuGenSt) measureInContext() {
	rng := g.p.c.rng
	for _, ch := range []int{2, 3, 4} {
		for k := 0; k < 3; k++ {
			g.reset(0)
			f := 0x700 + rng.intn(0xf0)
			g.w(0xff12, 0xf0)
			g.w(0xff13, 0x00)
			g.w(0xff14, 0x84)
			switch ch {
			case 2:
				g.w(0xff17, 0xf0)
				g.w(0xff18, f&0xff)
				g.w(0xff19, 0x80|f>>8)
			case 3:
				g.w(0xff1a, 0x80)
				g.w(0xff1d, f&0xff)
				g.w(0xff1e, 0x80|f>>8)
			default:
				g.w(0xff21, 0xf0)
				g.w(0xff22, 0x10|rng.intn(4))
				g.w(0xff23, 0x80)
			}
			g.c(rng.intn(9))
			for j := 0; j < 4; j++ {
				g.p.do(fmt.Sprintf("m %d 3 4000", ch))
				// a lower-numbered channel is restarted in this very cycle
				g.w([]int{0xff14, 0xff19, 0xff1e}[rng.intn(ch-1)], 0x80|rng.intn(8))
			}
			g.p.do(fmt.Sprintf("m %d 3 4000", ch))
		}
	}
	for k := 0; k < 6; k++ { // pitch slide on channel 1 with the sweep unit armed
		g.reset(0)
		g.w(0xff10, []int{0x11, 0x21, 0x19, 0x71, 0x12, 0x00}[k])
		g.w(0xff12, 0xf0)
		g.w(0xff13, 0x00)
		g.w(0xff14, 0x84) // 0x400
		g.c(rng.intn(40))
		f2 := 0x600 + rng.intn(0x1f0)
		g.w(0xff13, f2&0xff)
		g.w(0xff14, f2>>8)
		g.p.expectP = 4 * (2048 - f2)
		g.p.do(fmt.Sprintf("m 1 1 %d", 2*(2048-0x400)+2*(2048-f2)+16))
		g.p.expectP = 4 * (2048 - f2)
		g.p.do(fmt.Sprintf("m 1 5 %d", 7*(2048-f2)+16))
	}
	for _, seq := range [][]int{{0x00, 0x08}, {0x08, 0x00}, {0xe0, 0x00}, {0xf1, 0x11}, {0xd0, 0x00}, {0x00, 0xe0, 0x00}} {
		for variant := 0; variant < 2; variant++ { // NR43 rewritten on the running channel / across an APU power cycle
			g.reset(0)
			g.w(0xff21, 0xf0)
			g.w(0xff22, seq[0])
			g.w(0xff23, 0x80)
			g.c(200 + rng.intn(300))
			for _, v := range seq[1:] {
				if variant == 1 {
					g.w(0xff26, 0x00)
					g.w(0xff26, 0x80)
					g.w(0xff21, 0xf0)
				}
				g.w(0xff22, v)
				if variant == 1 {
					g.w(0xff23, 0x80)
				}
				g.c(100 + rng.intn(200))
			}
			for j := 0; j < 12; j++ {
				g.p.do("wf")
				g.c(2 + rng.intn(7))
				if j == 5 {
					g.c(33000) // a period started under a large shift code runs out first
				}
			}
		}
	}
}

// a low-byte-only frequency write (no NRx4 write after it) while the OTHER channels are programmed with different
// high bits: the documented period uses the channel's own high bits
func (g *apuGenSt) measureLowOnly(ch, f, low int) {
	rng := g.p.c.rng
	g.reset(0)
	regs := [][3]int{{0xff12, 0xff13, 0xff14}, {0xff17, 0xff18, 0xff19}, {0xff1a, 0xff1d, 0xff1e}}
	for o := 0; o < 3; o++ {
		fo := f ^ (0x100 << uint(rng.intn(3))) ^ rng.intn(256)
		if o == ch-1 {
			fo = f
		}
		v := 0xf0
		if o == 2 {
			v = 0x80
		}
		g.w(regs[o][0], v)
		g.w(regs[o][1], fo&0xff)
		g.w(regs[o][2], 0x80|fo>>8)
	}
	g.c(rng.intn(50))
	g.w(regs[ch-1][1], low)
	f2 := f&0x700 | low
	mult := 4
	if ch == 3 {
		mult = 2
	}
	g.p.expectP = mult * (2048 - f2)
	k := 9
	if f2 < 1024 {
		k = 3
	}
	// the step in progress when the low byte was written still has the old length: skip it
	g.p.do(fmt.Sprintf("m %d 1 %d", ch, 2*(2048-f)+2*(2048-f2)+16))
	o := g.p.do(fmt.Sprintf("m %d %d %d", ch, k, (k+2)*(2048-f2)*mult/4+16))
	g.p.c.class(fmt.Sprintf("period-lowonly/ch%d/f%03x/%02x/%s", ch, f, low, o))
}

func (g *apuGenSt) measureNoise(nr43 int, k int) { g.measureNoiseVol(nr43, k, 0xf0) }

// nr42 with the DAC on and volume 0 (08, 09) or a fast fade-out (f1 would need a second): the generator is clocked
// whatever the envelope volume is
func (g *apuGenSt) measureNoiseVol(nr43 int, k int, nr42 int) {
	g.reset(0)
	g.w(0xff21, nr42)
	g.w(0xff22, nr43)
	g.w(0xff23, 0x80)
	g.c(g.p.c.rng.intn(7))
	d := (nr43 & 7) * 16
	if d == 0 {
		d = 8
	}
	P := d << uint(nr43>>4)
	g.p.expectP = P
	o := g.p.do(fmt.Sprintf("m 4 %d %d", k, (k+2)*P/4+16))
	g.p.c.class(fmt.Sprintf("period/ch4/%02x/%02x/%s", nr43, nr42, o))
}

// LFSR output-bit period on the real code: run the noise channel at its fastest rate and record
// bit 0 after every LFSR step (one step per 2 machine cycles for NR43 = 00 / 08)
func (g *apuGenSt) lfsrOutputPeriod(nr43 int, steps int) int {
	g.reset(0)
	g.w(0xff21, 0xf0)
	g.w(0xff22, nr43)
	g.w(0xff23, 0x80)
	bits := make([]byte, 0, steps)
	g.c(5) // the first LFSR step (0xffff -> 0x7fff) happens during these; afterwards one step per 2 cycles
	for i := 0; i < steps; i++ {
		o := g.p.do("wf")
		f := strings.Fields(o)
		l := unhex(f[3])
		bits = append(bits, byte(l&1))
		g.c(2)
	}
	// minimal period of the recorded output sequence (ignoring nothing: the sequence is periodic from the start)
	for p := 1; p <= steps/2; p++ {
		ok := true
		for i := 0; i+p < steps; i++ {
			if bits[i] != bits[i+p] {
				ok = false
				break
			}
		}
		if ok {
			return p
		}
	}
	return -1
}

func apuGen(c *ctx) {
	p := newApuRun(c)
	g := &apuGenSt{p: p, last: map[int]int{}}
	prop := os.Getenv("VERIF_PROP")
	if prop == "" {
		prop = "all"
	}
	is := func(x string) bool { return prop == x || prop == "all" }
	mult := 1
	if c.thorough() {
		mult = 10
	}
	c.notes["emphasis"] = prop

	// ---- random register schedules (all properties; size depends on the emphasis)
	nSched, budget := 60, 20000
	if is("C18") || is("C19") || is("C20") {
		nSched = 300
	}
	if prop == "C19" {
		budget = 40000
	}
	for i := 0; i < nSched*mult; i++ {
		g.schedule(budget, prop)
	}
	c.notes["schedules"] = nSched * mult
	c.notes["schedule_cycles"] = budget

	// ---- C18: every register x every value, written while on and while off, read back
	if is("C18") {
		for _, on := range []bool{true, false} {
			for _, ad := range append(append([]int{}, apuRegs...), 0xff26, 0xff15, 0xff2a) {
				g.reset(0)
				if !on {
					g.w(0xff26, 0x00)
				}
				step := 1
				if !c.thorough() && ad != 0xff26 {
					step = 3
				}
				for v := 0; v < 256; v += step {
					if ad == 0xff26 {
						g.reset(0)
						if !on {
							g.w(0xff26, 0x00)
						}
						g.w(0xff12, 0xf0)
						g.w(0xff14, 0x80)
					}
					g.w(ad, v)
					rv := g.r(ad)
					c.class(fmt.Sprintf("rb/%04x/%02x/%s/%s", ad, v, onoff(on), rv))
					if v%32 == 0 {
						g.c(1 + c.rng.intn(3000))
						g.r(ad)
					}
				}
				// power cycle: everything reads as its mask, wave RAM survives
				for a := 0xff30; a < 0xff40; a++ {
					g.w(a, int(c.rng.byte()))
				}
				g.w(0xff26, 0x00)
				for a := 0xff10; a < 0xff40; a++ {
					g.r(a)
				}
				g.w(0xff26, 0x80)
				for a := 0xff10; a < 0xff40; a++ {
					g.r(a)
				}
			}
		}
	}

	// ---- C18: read-back stays put while the channels PLAY: envelopes run into their end stops, the sweep shifts the
	// frequency, length counters expire - every register is read again after each envelope period for 20 periods
	if is("C18") {
		nLive := 12
		if c.thorough() {
			nLive = 200
		}
		for k := 0; k < nLive; k++ {
			g.reset(0)
			g.w(0xff24, int(c.rng.byte()))
			g.w(0xff25, int(c.rng.byte()))
			env := func() int { // envelope byte with a short period, either direction, DAC on
				return (1+c.rng.intn(15))<<4 | c.rng.intn(2)<<3 | (1 + c.rng.intn(3))
			}
			g.w(0xff10, c.rng.intn(0x80))
			g.w(0xff11, int(c.rng.byte()))
			g.w(0xff12, env())
			g.w(0xff13, int(c.rng.byte()))
			g.w(0xff14, 0x80|c.rng.intn(2)<<6|c.rng.intn(8))
			g.w(0xff16, int(c.rng.byte()))
			g.w(0xff17, env())
			g.w(0xff18, int(c.rng.byte()))
			g.w(0xff19, 0x80|c.rng.intn(2)<<6|c.rng.intn(8))
			g.w(0xff1a, 0x80)
			g.w(0xff1b, int(c.rng.byte()))
			g.w(0xff1c, c.rng.intn(4)<<5)
			g.w(0xff1d, int(c.rng.byte()))
			g.w(0xff1e, 0x80|c.rng.intn(2)<<6|c.rng.intn(8))
			g.w(0xff20, int(c.rng.byte()))
			g.w(0xff21, env())
			g.w(0xff22, int(c.rng.byte()))
			g.w(0xff23, 0x80|c.rng.intn(2)<<6)
			for j := 0; j < 20; j++ {
				g.c(16384)
				for a := 0xff10; a <= 0xff26; a++ {
					g.r(a)
				}
			}
			c.class(fmt.Sprintf("live-readback/%d", k))
		}
		for sh := 1; sh <= 7; sh++ {
			for f := 1; f < 2048; f++ {
				if t := f + f>>uint(sh); t >= 2046 && t <= 2048 {
					g.sweepBoundaryCase(f, sh)
				}
			}
		}
		for _, f := range []int{0x7fe, 0x7ff, 0x7fc} {
			for n := 1; n <= 36; n++ {
				g.waveRetriggerSweepCase(f, n)
			}
		}
		for _, f := range []int{0x400, 0x600, 0x700, 0x7c0, 0x7f0, 0x7ff} {
			for k := 0; k < 4; k++ {
				g.waveAccessAfterTriggerCase(f, 300+c.rng.intn(6000), k%2 == 1)
			}
		}
		for _, f := range []int{0x7ff, 0x7fe, 0x7fd, 0x6d6, 0x700} {
			for how := 0; how < 3; how++ {
				g.waveStopRetriggerCase(f, how, 37+c.rng.intn(400))
			}
		}
		for _, nr10 := range []int{0x01, 0x09} {
			g.sweepZeroPeriodCase(nr10, 0x400, false)
			g.sweepZeroPeriodCase(nr10, 0x500, true)
		}
		// NRx4 written with the length-enable bit in every frame-sequencer phase with the counter at 1, 2 and full:
		// the read-back shows the bit just written whatever the extra length clock did
		for ch := 1; ch <= 4; ch++ {
			nrx1 := []int{0xff11, 0xff16, 0xff1b, 0xff20}[ch-1]
			nrx4 := []int{0xff14, 0xff19, 0xff1e, 0xff23}[ch-1]
			full := 64
			if ch == 3 {
				full = 256
			}
			for _, left := range []int{1, 2, 0} {
				for _, phase := range []int{0, 1000, 2047, 2048, 3000, 4095, 4096, 6144} {
					for _, v := range []int{0x40, 0xc0, 0x00} {
						g.reset(0)
						if ch == 3 {
							g.w(0xff1a, 0x80)
						}
						g.w(nrx1, (full-left)&(full-1))
						g.c(phase)
						g.w(nrx4, v)
						g.r(nrx4)
						g.r(0xff26)
					}
				}
			}
		}
	}

	// ---- C19: directed length cases
	if is("C19") {
		n := 0
		for ch := 1; ch <= 4; ch++ {
			ts := []int{0x3f, 0x3e, 0x3d, 0x00, 0x20}
			if ch == 3 {
				ts = []int{0xff, 0xfe, 0xfd, 0x00, 0xc0}
			}
			if !c.thorough() {
				ts = ts[:4] // incl. t = 0: full counter, the trigger-reload rule
			}
			for _, t := range ts {
				for _, le := range []bool{true, false} {
					for _, odd := range []bool{false, true} {
						for _, later := range []bool{false, true} {
							if later && !le {
								continue
							}
							g.lengthCase(ch, t, le, odd, later)
							n++
						}
					}
				}
			}
		}
		c.notes["length_cases"] = n
		for ch := 1; ch <= 4; ch++ {
			g.retriggerCase(ch, true)
			g.retriggerCase(ch, false)
		}
		c.notes["retrigger_cases"] = 8
		nSeq := 6
		if c.thorough() {
			nSeq = 80
		}
		for ch := 1; ch <= 4; ch++ {
			for k := 0; k < nSeq; k++ {
				g.nrx4SequenceCase(ch)
			}
			for variant := 0; variant < 6; variant++ {
				if ch == 3 && !c.thorough() && variant%2 == 1 && variant < 4 {
					continue
				}
				for _, pre := range []int{100, 2148} {
					g.nrx4FlipCase(ch, variant, pre)
				}
			}
		}
		for sh := 1; sh <= 7; sh++ {
			for f := 1; f < 2048; f++ {
				if t := f + f>>uint(sh); t >= 2046 && t <= 2048 {
					g.sweepBoundaryCase(f, sh)
				}
			}
		}
		for _, nr10 := range []int{0x11, 0x21, 0x71, 0x19} {
			g.sweepArmLaterCase(nr10, 0x700)
		}
		for _, nr10 := range []int{0x01, 0x02, 0x09, 0x07} {
			g.sweepZeroPeriodCase(nr10, 0x400, false)
			g.sweepZeroPeriodCase(nr10, 0x500, true)
		}
		for ch := 1; ch <= 4; ch++ {
			for _, base := range []int{2048, 4096, 6144, 8192, 16384} {
				for d := -3; d <= 2; d++ {
					g.lengthEdgeCase(ch, base+d)
				}
			}
			if ch != 3 {
				for _, v := range []int{0x11, 0x19, 0x23, 0x37, 0x10, 0x52} {
					g.fadeRetriggerCase(ch, v)
				}
			}
		}
	}

	// ---- C20: pacing over more than two emulated seconds (crosses tick 2*4194304), and the uint64 wrap
	if is("C20") {
		g.reset(3)
		g.w(0xff24, 0x77)
		g.w(0xff25, 0xff)
		g.w(0xff12, 0xf3)
		g.w(0xff14, 0x87)
		g.w(0xff17, 0xa9)
		g.w(0xff19, 0x86)
		g.w(0xff1a, 0x80)
		g.w(0xff1c, 0x20)
		g.w(0xff1e, 0x85)
		g.w(0xff21, 0xf1)
		g.w(0xff22, 0x13)
		g.w(0xff23, 0x80)
		secs := 2
		if c.thorough() {
			secs = 20
		}
		total, emitted := 0, 0
		target := secs*1048576 + 70000
		for total < target {
			n := 9973
			o := g.c(n)
			total += n
			emitted += atoi(strings.Fields(o)[1])
			if c.rng.chance(2) {
				g.w(0xff25, int(c.rng.byte()))
				g.w(0xff24, int(c.rng.byte()))
			}
			if c.rng.chance(1) {
				g.w(0xff14, 0x80|c.rng.intn(8))
				g.w(0xff23, 0x80)
			}
		}
		c.notes["pacing_cycles"] = total
		c.notes["pacing_samples"] = emitted
		c.notes["pacing_expected"] = total * 4 / 95 // ticks start at 1: samples at ticks 95, 190, ...
		c.class(fmt.Sprintf("pacing/%d/%d", total, emitted))
		// mixer sweep: every NR51 routing x several NR50 levels with all four channels audible at different levels
		// (each channel alone first, so that a sample identifies which channel reached which side)
		for _, chans := range []int{1, 2, 4, 8, 15} {
			g.reset(3)
			g.w(0xff24, 0x77)
			g.w(0xff25, 0xff)
			if chans&1 != 0 {
				g.w(0xff11, 0x80)
				g.w(0xff12, 0xf0)
				g.w(0xff13, 0x00)
				g.w(0xff14, 0x87)
			}
			if chans&2 != 0 {
				g.w(0xff16, 0x40)
				g.w(0xff17, 0xb0)
				g.w(0xff18, 0x80)
				g.w(0xff19, 0x86)
			}
			if chans&4 != 0 {
				g.w(0xff30, 0xf0)
				g.w(0xff31, 0x5a)
				g.w(0xff1a, 0x80)
				g.w(0xff1c, 0x20)
				g.w(0xff1d, 0x00)
				g.w(0xff1e, 0x85)
			}
			if chans&8 != 0 {
				g.w(0xff21, 0x70)
				g.w(0xff22, 0x21)
				g.w(0xff23, 0x80)
			}
			nr50s := []int{0x77, 0x33, 0x70, 0x07, 0x52, 0xff, 0x88}
			if !c.thorough() {
				nr50s = []int{0x77, 0x33, 0x52, 0xf7}
			}
			for _, nr50 := range nr50s {
				g.w(0xff24, nr50)
				for nr51 := 0; nr51 < 256; nr51++ {
					if chans != 15 && nr51&(chans|chans<<4) == 0 && nr51 != 0 {
						continue
					}
					g.w(0xff25, nr51)
					g.c(97 + c.rng.intn(60))
				}
			}
			c.class(fmt.Sprintf("mixer-sweep/%x", chans))
		}
		// wave RAM written while channel 3 plays (inside and outside the access window), loud routing: every sample stays
		// what the model says (and so in [0, 1))
		for _, f := range []int{0x400, 0x700, 0x7c0, 0x7f8} {
			for k := 0; k < 3; k++ {
				g.reset(3)
				g.w(0xff24, 0x77)
				g.w(0xff25, 0x44)
				g.w(0xff1a, 0x80)
				g.w(0xff1c, 0x20)
				g.w(0xff1d, f&0xff)
				g.w(0xff1e, 0x80|f>>8)
				for j := 0; j < 40; j++ {
					g.c(1 + c.rng.intn(2*(2048-f)/4+3))
					g.w(0xff30+c.rng.intn(16), []int{0xff, 0xf0, 0x9e, 0x7f}[c.rng.intn(4)])
					g.c(30)
				}
			}
		}
		// a consumer that stalls once: the producer waits, no sample is dropped
		p.do("stall 4000")
		c.class("stall")
		// off / detached: no samples
		for _, att := range []int{0, 1, 2, 3} {
			g.reset(att)
			g.w(0xff24, 0x77)
			g.w(0xff25, 0xff)
			g.w(0xff12, 0xf0)
			g.w(0xff14, 0x80)
			g.c(5000)
			g.w(0xff26, 0x00)
			g.c(5000)
			g.w(0xff26, 0x80)
			g.c(5000)
		}
		// clock counter placed near large values and the uint64 wrap
		for _, t := range []string{"ffffffff", "100000000", "7fffffffffffff00", "ffffffffffffff00", "fffffffffffffffe", "ffffffffffffffff", "0"} {
			g.reset(3)
			g.w(0xff24, 0x77)
			g.w(0xff25, 0xff)
			g.w(0xff12, 0xf0)
			g.w(0xff14, 0x80)
			p.do("tk " + t)
			for j := 0; j < 40; j++ {
				g.c(1 + c.rng.intn(40))
			}
			g.c(30000)
		}
	}

	// ---- C21: waveform period measurements
	if is("C21") {
		var fs []int
		if c.thorough() {
			for f := 0; f < 2048; f++ {
				fs = append(fs, f)
			}
		} else {
			fs = []int{0, 1, 2047, 2046, 2045, 2044, 1024, 1023, 0x700, 0x6ff, 0x7f0, 0x400}
			for len(fs) < 64 {
				fs = append(fs, 1024+c.rng.intn(1024))
			}
		}
		for _, f := range fs {
			g.measureSquare(1, f)
			g.measureSquare(2, f)
			g.measureWave(f)
		}
		var nr43s []int
		if c.thorough() {
			for v := 0; v < 0xe0; v++ {
				nr43s = append(nr43s, v)
			}
		} else {
			nr43s = []int{0x00, 0x08, 0x01, 0x07, 0x21, 0x29, 0x10, 0x17, 0x47, 0x50, 0x83, 0xd0}
			for len(nr43s) < 32 {
				nr43s = append(nr43s, c.rng.intn(0xa0))
			}
		}
		for _, v := range nr43s {
			k := 5
			if v>>4 >= 10 {
				k = 3
			}
			g.measureNoise(v, k)
		}
		for i, f := range fs {
			if i%2 == 0 || c.thorough() {
				g.measureLowOnly(1+i%3, f, c.rng.intn(256))
			}
		}
		for i, v := range nr43s {
			if v>>4 < 8 {
				g.measureNoiseVol(v, 3, []int{0x08, 0x09, 0x0f, 0x18}[i%4])
			}
		}
		g.measureInContext()
		c.notes["frequencies_measured"] = len(fs)
		c.notes["nr43_measured"] = len(nr43s)
		c.notes["period_ok"] = p.pOK
		c.notes["period_mismatch"] = p.pBad
		// output-bit periods of the two LFSR modes on the real code
		c.notes["lfsr15_output_period"] = g.lfsrOutputPeriod(0x00, 32767*2+100)
		c.notes["lfsr7_output_period"] = g.lfsrOutputPeriod(0x08, 127*6)
	}

	c.notes["samples_checked"] = p.nSamp
	c.notes["max_abs_dev_sampleD_minus_round"] = p.maxDev
	c.notes["float32_note"] = "float32 rounding is not modelled; every real sample x satisfies round(x*19200) = model numerator (checksums) and |x*19200 - round| <= max_abs_dev"
}
