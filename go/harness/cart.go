package main

import (
	"fmt"
	"os"
	"strings"

	"github.com/scottyw/tetromino/gameboy/audio"
	"github.com/scottyw/tetromino/gameboy/controller"
	"github.com/scottyw/tetromino/gameboy/interrupts"
	"github.com/scottyw/tetromino/gameboy/memory"
	"github.com/scottyw/tetromino/gameboy/oam"
	"github.com/scottyw/tetromino/gameboy/ppu"
	"github.com/scottyw/tetromino/gameboy/serial"
	"github.com/scottyw/tetromino/gameboy/timer"
)

// mode cart: memory.New(rom, ...) on synthetic images, then Mapper.Write / Mapper.Read / DumpRAM.
//
// ops:  reset <type> <romsize> <ramsize> [<len>]   (hex) build an image of <len> bytes (default
//
//	                                            0x4000*(2<<romsize)) whose byte at offset o of
//	                                            16 KiB page b is cartSig(b,o), header bytes
//	                                            0147/0148/0149 = type/romsize/ramsize, and
//	                                            construct the memory       -> ok | fail
//	w <addr4> <val2>                            Mapper.Write                -> ok | crash
//	r <addr4>                                   Mapper.Read                 -> <val2> | crash
//	win                                         reads of 0000 0001 3fff 4000 4001 7fff a000 a001 bfff
//	dump                                        DumpRAM: <len8> <fnv1a-32 8>
//
// Every output is spec-determined (ROM window bytes: C08; RAM window and dump: C09; crash/fail: C11).
func init() { modes["cart"] = modeFn{gen: cartGen, replay: cartReplay} }

// cartSig is the byte both sides place at offset o of page b (unique per page over 1024 pages when
// offsets 0 and 1 are read together).
func cartSig(b, o int) uint8 {
	return uint8((b&0xff)*7 + (b>>8)*(o%5)*17 + o*13 + (o>>8)*5 + 1)
}

var cartBase = map[int][]byte{} // pattern images by length (header bytes patched per reset)

func cartImage(typ, romSize, ramSize uint8, length int) []byte {
	img, ok := cartBase[length]
	if !ok {
		img = make([]byte, length)
		for i := range img {
			img[i] = cartSig(i/0x4000, i%0x4000)
		}
		if len(cartBase) > 24 {
			cartBase = map[int][]byte{}
		}
		cartBase[length] = img
	}
	if length > 0x147 {
		img[0x147] = typ
	}
	if length > 0x148 {
		img[0x148] = romSize
	}
	if length > 0x149 {
		img[0x149] = ramSize
	}
	return img
}

func newMapper(rom []byte) *memory.Mapper {
	i := interrupts.New()
	o := oam.New()
	p := ppu.New(i, o, false)
	return memory.New(rom, i, o, p, controller.New(), serial.New(nil), timer.New(), audio.New(nil, nil))
}

type cartRun struct {
	c                *ctx
	m                *memory.Mapper
	typ, rsz, ramsz  uint8
	lastOut          string
	winAddrs         []uint16
	resets, failures int
	crashes          int
}

func defaultLen(romSize uint8) int {
	if romSize > 16 {
		return 0x8000
	}
	return 0x4000 * (2 << romSize)
}

func fnv1a(data []byte) uint32 {
	h := uint32(2166136261)
	for _, b := range data {
		h ^= uint32(b)
		h *= 16777619
	}
	return h
}

func (r *cartRun) rd(a uint16) string {
	return guard(func() string { return hx2(r.m.Read(a)) })
}

func (r *cartRun) do(op string) string {
	w := strings.Fields(op)
	var out string
	switch {
	case w[0] == "reset" && len(w) >= 4 && len(w) <= 7:
		typ, rsz, ramsz := uint8(unhex(w[1])), uint8(unhex(w[2])), uint8(unhex(w[3]))
		length := defaultLen(rsz)
		if len(w) >= 5 {
			length = unhex(w[4])
		}
		r.typ, r.rsz, r.ramsz = typ, rsz, ramsz
		r.m = nil
		r.resets++
		img := cartImage(typ, rsz, ramsz, length)
		if len(w) >= 6 {
			// an image whose pages from <erase> on are erased flash (all FF): a private copy
			img = append([]byte(nil), img...)
			for i := unhex(w[5]) * 0x4000; i >= 0 && i < len(img); i++ {
				img[i] = 0xff
			}
		}
		if len(w) == 7 && w[6] == "1" {
			// every page repeats the logo / header area 0104-0133 of page 0 (as the games of a multi-game cartridge do)
			for pg := 1; pg*0x4000+0x134 <= len(img); pg++ {
				copy(img[pg*0x4000+0x104:pg*0x4000+0x134], img[0x104:0x134])
			}
		}
		out = guard(func() string {
			r.m = newMapper(img)
			return "ok"
		})
		if out == "crash" {
			out = "fail"
			r.m = nil
			r.failures++
		}
	case r.m == nil:
		out = "nocart"
	case w[0] == "w" && len(w) == 3:
		a, v := uint16(unhex(w[1])), uint8(unhex(w[2]))
		out = guard(func() string { r.m.Write(a, v); return "ok" })
	case w[0] == "r" && len(w) == 2:
		out = r.rd(uint16(unhex(w[1])))
	case w[0] == "dma" && len(w) == 2:
		// an OAM DMA transfer started through the same mapper: cartridge control writes must not care
		out = guard(func() string { r.m.Write(0xff46, uint8(unhex(w[1]))); return "ok" })
	case w[0] == "tm" && len(w) == 2:
		out = guard(func() string {
			for k := 0; k < atoi(w[1]); k++ {
				r.m.EndMachineCycle()
			}
			return "ok"
		})
	case w[0] == "win":
		parts := make([]string, 0, 9)
		for _, a := range r.winAddrs {
			parts = append(parts, r.rd(a))
		}
		out = strings.Join(parts, " ")
	case w[0] == "dump":
		out = guard(func() string {
			d := r.m.DumpRAM()
			return fmt.Sprintf("%08x %08x", len(d), fnv1a(d))
		})
	default:
		out = "bad-op"
	}
	if strings.Contains(out, "crash") {
		r.crashes++
	}
	r.c.emit(op, out)
	r.lastOut = out
	return out
}

func newCartRun(c *ctx) *cartRun {
	return &cartRun{c: c, winAddrs: []uint16{0x0000, 0x0001, 0x3fff, 0x4000, 0x4001, 0x7fff, 0xa000, 0xa001, 0xbfff}}
}

func cartReplay(c *ctx, ops []string) {
	r := newCartRun(c)
	for _, op := range ops {
		r.do(op)
	}
}

var cartSupported = []int{0x00, 0x01, 0x02, 0x03, 0x05, 0x06, 0x0f, 0x10, 0x11, 0x12, 0x13, 0x19, 0x1a, 0x1b, 0x1c, 0x1d, 0x1e}

func cartFamily(t int) string {
	switch {
	case t == 0:
		return "rom"
	case t >= 1 && t <= 3:
		return "mbc1"
	case t == 5 || t == 6:
		return "mbc2"
	case t >= 0x0f && t <= 0x13:
		return "mbc3"
	case t >= 0x19 && t <= 0x1e:
		return "mbc5"
	}
	return "none"
}

func cartRegion(a int) string {
	switch {
	case a < 0x2000:
		if a&0x100 != 0 {
			return "0000b8"
		}
		return "0000"
	case a < 0x3000:
		if a&0x100 != 0 {
			return "2000b8"
		}
		return "2000"
	case a < 0x4000:
		if a&0x100 != 0 {
			return "3000b8"
		}
		return "3000"
	case a < 0x6000:
		return "4000"
	case a < 0x8000:
		return "6000"
	case a < 0xa000:
		return "vram"
	case a < 0xc000:
		return "ram"
	}
	return "other"
}

func (r *cartRun) reset(t, rs, ras int, length int) string {
	if length < 0 && rs > 10 {
		length = 0x8000 // the 3-argument form is only used where the default length is buildable
	}
	if length < 0 {
		return r.do(fmt.Sprintf("reset %02x %02x %02x", t, rs, ras))
	}
	return r.do(fmt.Sprintf("reset %02x %02x %02x %x", t, rs, ras, length))
}

// classOf: one class per distinct (controller family, rom size, ram size, kind of access, outcome).
func (r *cartRun) classify(kind string, out string) {
	r.c.class(fmt.Sprintf("%s/%02x/%02x/%s/%s", cartFamily(int(r.typ)), r.rsz, r.ramsz, kind, out))
}

func (r *cartRun) w(a, v int) string {
	out := r.do(fmt.Sprintf("w %04x %02x", a, v))
	return out
}

func (r *cartRun) win(kind string) {
	out := r.do("win")
	r.classify(kind, out)
}

func cartGen(c *ctx) {
	r := newCartRun(c)
	interesting := []int{0x00, 0x01, 0x02, 0x03, 0x04, 0x07, 0x08, 0x0a, 0x0b, 0x0c, 0x0d, 0x0f, 0x10, 0x1f, 0x20, 0x3f,
		0x40, 0x5a, 0x60, 0x7f, 0x80, 0xa0, 0xaa, 0xe0, 0xfa, 0xff}

	// Part A: construction. Every type byte with the two smallest sizes; every supported type with
	// every size 2..512 banks (incl. the edge sizes 256/512 for every type) and every RAM size byte
	// 0..6; 1024 banks for one type per family; declared/actual size mismatches; absurd size bytes.
	for t := 0; t < 256; t++ {
		for rs := 0; rs < 2; rs++ {
			r.reset(t, rs, (t+rs)%7, -1)
			r.win("construct")
		}
	}
	for _, t := range cartSupported {
		for rs := 0; rs <= 8; rs++ {
			r.reset(t, rs, (t+rs)%7, -1)
			r.win("construct")
			r.do("dump")
		}
		for ras := 0; ras < 8; ras++ {
			r.reset(t, 1, ras, -1)
			r.do("dump")
			r.classify("ramsize", r.lastOut)
		}
		r.reset(t, 1, 0xff, -1)
		r.do("dump")
	}
	for _, t := range []int{0x00, 0x03, 0x06, 0x10, 0x1b} {
		r.reset(t, 9, 3, -1) // 1024 banks
		r.win("construct")
		for _, v := range []int{0x00, 0x01, 0xff} {
			r.w(0x2100, v)
			r.w(0x3000, v)
			r.win("w1024")
		}
	}
	for _, t := range []int{0x00, 0x01, 0x05, 0x11, 0x19, 0x04} {
		for rs := 0; rs <= 4; rs++ {
			for _, d := range []int{-1, 1} {
				if rs+d < 0 {
					continue
				}
				r.reset(t, rs, 0, defaultLen(uint8(rs+d)))
				r.classify("mismatch", r.lastOut)
			}
		}
		for _, rs := range []int{0x0e, 0x0f, 0x10, 0x1f, 0x20, 0x3d, 0x3e, 0x3f, 0x40, 0x41, 0x7f, 0x80, 0xfe, 0xff} {
			for _, l := range []int{0x4000, 0x8000, 0x10000} {
				r.reset(t, rs, 0, l)
				r.classify("absurd-size", r.lastOut)
			}
		}
	}
	// Part A2: every ORDER of the RAM control writes (enable / disable / bank / mode) of length <= 4, then a RAM
	// write, a read-back in every bank and the dump — a bank or mode selected while RAM is disabled must be in
	// force once it is enabled
	ctl := [][2]int{{0x0000, 0x0a}, {0x0000, 0x00}, {0x4000, 0x01}, {0x4000, 0x03}, {0x6000, 0x01}, {0x6000, 0x00}}
	for _, t := range []int{0x03, 0x13, 0x1b} {
		var rec func(seq []int)
		rec = func(seq []int) {
			if len(seq) > 0 {
				r.reset(t, 1, 3, -1)
				for _, k := range seq {
					r.w(ctl[k][0], ctl[k][1])
				}
				r.w(0xa123, 0x5a+len(seq))
				r.do("r a123")
				r.w(0x0000, 0x0a)
				for b := 0; b < 4; b++ {
					r.w(0x4000, b)
					r.do("r a123")
				}
				r.do("dump")
				r.classify("ctl-order", r.lastOut)
			}
			if len(seq) == 4 || (!c.thorough() && len(seq) == 3) {
				return
			}
			for k := range ctl {
				rec(append(append([]int{}, seq...), k))
			}
		}
		rec(nil)
	}
	// Part A3: control writes while an OAM DMA transfer (from WRAM) is in flight, at several points of the transfer
	for _, t := range []int{0x01, 0x05, 0x11, 0x19} {
		for _, at := range []int{0, 1, 2, 80, 160, 161, 162, 200} {
			r.reset(t, 3, 3, -1)
			r.do("dma c0")
			r.do(fmt.Sprintf("tm %d", at))
			r.w(0x2100, 0x05)
			r.win("dma-ctl")
			r.w(0x0000, 0x0a)
			r.w(0xa010, 0x77)
			r.do("r a010")
			r.do("tm 170")
			r.w(0x2100, 0x03)
			r.win("dma-ctl")
		}
	}
	// Part B: malformed images.
	for _, l := range []int{0, 1, 0x100, 0x147, 0x148, 0x149, 0x14a, 0x14b, 0x3fff, 0x4000, 0x4001, 0x7fff, 0x8000, 0x8001,
		0xbfff, 0xc000, 0x10000, 0x10001} {
		for _, t := range append(append([]int{}, cartSupported...), 0x04, 0x08, 0xfc, 0xff) {
			for rs := 0; rs < 2; rs++ {
				r.reset(t, rs, 2, l)
				r.classify(fmt.Sprintf("len%x", l), r.lastOut)
				r.do("r 0000")
				r.do("r a000")
				r.do("w 2000 01")
			}
		}
	}
	c.notes["construction_resets"] = r.resets
	c.notes["construction_failures"] = r.failures

	// Part C: every value to every control region, per family x every ROM size x RAM sizes, from
	// three pre-states, window signature after every write.
	famTypes := []int{0x00, 0x03, 0x06, 0x13, 0x10, 0x1b}
	ctlAddrs := []int{0x0000, 0x0100, 0x1fff, 0x2000, 0x2100, 0x2fff, 0x3000, 0x3100, 0x3fff, 0x4000, 0x5fff, 0x6000, 0x7fff}
	prestates := [][][2]int{
		{},
		{{0x0000, 0x0a}, {0xa000, 0x11}, {0xa001, 0x22}, {0xbfff, 0x33}, {0x6000, 0x01}, {0x4000, 0x03}, {0xa000, 0x44},
			{0xbfff, 0x55}},
		{{0x0000, 0x0a}, {0x3000, 0x01}, {0x2100, 0xff}, {0x4000, 0x0a}, {0x6000, 0x00}, {0x6000, 0x01}, {0x4000, 0x02},
			{0xa001, 0x66}},
	}
	ramFor := func(rs int) []int {
		if c.thorough() {
			return []int{0, 2, 3, 4, 5}
		}
		return []int{[]int{3, 4, 5, 2, 0}[rs%5]}
	}
	for _, t := range famTypes {
		for rs := 0; rs <= 8; rs++ {
			for _, ras := range ramFor(rs) {
				for _, pre := range prestates {
					ok := true
					for ai, a := range ctlAddrs {
						// one reset per control address keeps every replay below a few hundred operations
						// (the 4/8 MiB images are rebuilt only once per pre-state)
						if rs < 7 || ai == 0 {
							if r.reset(t, rs, ras, -1) != "ok" {
								ok = false
								break
							}
							for _, p := range pre {
								r.w(p[0], p[1])
							}
							r.win("pre")
						}
						for v := 0; v < 256; v++ {
							r.w(a, v)
							r.win(cartRegion(a))
						}
						r.do("dump")
					}
					if !ok {
						break
					}
				}
			}
		}
	}
	// Part C2 (thorough): all MBC1 register pairs BANK1 x BANK2 x mode for every MBC1 size.
	if c.thorough() {
		for rs := 0; rs <= 6; rs++ {
			r.reset(0x03, rs, 3, -1)
			r.w(0x0000, 0x0a)
			for mode := 0; mode < 2; mode++ {
				r.w(0x6000, mode)
				for b2 := 0; b2 < 256; b2++ {
					if b2 >= 8 && b2 < 0xf8 && b2%37 != 0 {
						continue
					}
					r.w(0x4000, b2)
					for b1 := 0; b1 < 256; b1++ {
						r.w(0x2000, b1)
						r.win("pair")
					}
				}
			}
		}
		c.notes["mbc1_pairs"] = "7 sizes x 2 modes x (BANK2 values 0-7, f8-ff and every 37th) x all 256 BANK1 values"
	}

	// Part C2: the dump is taken repeatedly while every RAM bank is written in turn (a dump must not depend on
	// when earlier dumps were taken), for every RAM-bearing family at every declared RAM size.
	for _, t := range []int{0x03, 0x13, 0x1b, 0x1e, 0x10, 0x06} {
		for ras := 0; ras <= 5; ras++ {
			if r.reset(t, 2, ras, -1) != "ok" {
				continue
			}
			r.w(0x0000, 0x0a)
			r.w(0x6000, 0x01) // MBC1: RAM banking mode (ignored / latch elsewhere)
			r.do("dump")
			for pass := 0; pass < 2; pass++ {
				for b := 0; b < 16; b++ {
					r.w(0x4000, b)
					r.w(0xa000+c.rng.intn(0x2000), 1+c.rng.intn(255))
					if pass == 1 || b%3 == 0 {
						r.do("dump")
						r.classify("dump-seq", r.lastOut)
					}
				}
			}
			r.do("dump")
		}
	}

	// Part C3: images whose last pages are erased (all FF): the bank arithmetic goes by the declared size, not by content
	for _, t := range []int{0x01, 0x05, 0x11, 0x19} {
		for _, rs := range []int{2, 3, 4} {
			pages := 2 << uint(rs)
			for _, erase := range []int{pages - 1, pages * 3 / 4, 2} {
				if r.do(fmt.Sprintf("reset %02x %02x 00 %x %x", t, rs, pages*0x4000, erase)) != "ok" {
					continue
				}
				for _, b := range []int{0, 1, 2, erase - 1, erase, erase + 1, pages - 1, pages, pages + 1, pages + erase, 0x21, 0x105, 2*pages - 1} {
					switch t {
					case 0x01:
						r.w(0x2000, b&0x1f)
						r.w(0x4000, b>>5&3)
					case 0x05:
						r.w(0x2100, b&0xff)
					case 0x11:
						r.w(0x2000, b&0xff)
					default:
						r.w(0x2000, b&0xff)
						r.w(0x3000, b>>8&1)
					}
					r.win("erased")
				}
			}
		}
	}
	// Part C3b: images in which every page repeats the header area of page 0: what a controller does must not depend
	// on what the ROM contains
	for _, t := range []int{0x01, 0x03, 0x11, 0x19} {
		for _, rs := range []int{4, 5, 6} {
			pages := 2 << uint(rs)
			if r.do(fmt.Sprintf("reset %02x %02x 03 %x %x 1", t, rs, pages*0x4000, pages)) != "ok" {
				continue
			}
			r.w(0x0000, 0x0a)
			for mode := 0; mode < 2; mode++ {
				r.w(0x6000, mode)
				for _, b2 := range []int{0, 1, 2, 3} {
					r.w(0x4000, b2)
					r.w(0x3000, b2&1)
					for _, b1 := range []int{0x00, 0x01, 0x02, 0x0f, 0x10, 0x11, 0x12, 0x1f, 0x20} {
						r.w(0x2000, b1)
						r.win("dup")
					}
				}
			}
		}
	}
	// Part C4: more than 65 536 stores between two dumps (every byte of four banks written twice), per family
	if c.thorough() || os.Getenv("VERIF_PROP") == "C09" || os.Getenv("VERIF_PROP") == "" {
		for _, t := range []int{0x13, 0x03, 0x1b} {
			if r.reset(t, 2, 3, -1) != "ok" {
				continue
			}
			r.w(0x0000, 0x0a)
			r.w(0x6000, 0x01)
			r.do("dump")
			for pass := 0; pass < 2; pass++ {
				for b := 0; b < 4; b++ {
					r.w(0x4000, b)
					for o := 0; o < 0x2000; o++ {
						r.w(0xa000+o, (o*7+b*3+pass*0x55)&0xff)
					}
				}
			}
			r.do("dump")
			r.classify("dump-after-65536", r.lastOut)
		}
	}

	// Part D: seeded random histories.
	nseq, maxLen := 1000, 60
	if c.thorough() {
		nseq = 20000
	}
	addrPool := []int{0x0000, 0x00ff, 0x0100, 0x1fff, 0x2000, 0x2100, 0x2fff, 0x3000, 0x3100, 0x3fff, 0x4000, 0x5fff, 0x6000,
		0x7fff, 0x8000, 0x9fff, 0xa000, 0xa001, 0xa1ff, 0xa200, 0xa3ff, 0xb000, 0xbfff, 0xc000, 0xdfff}
	for s := 0; s < nseq; s++ {
		t := cartSupported[c.rng.intn(len(cartSupported))]
		rs := c.rng.intn(7)
		if c.rng.chance(6) {
			rs = 7 + c.rng.intn(2)
		}
		ras := c.rng.intn(6)
		if r.reset(t, rs, ras, -1) != "ok" {
			continue
		}
		n := 10 + c.rng.intn(maxLen)
		for i := 0; i < n; i++ {
			var a int
			switch k := c.rng.intn(10); {
			case k < 4:
				a = addrPool[c.rng.intn(len(addrPool))]
			case k < 7:
				a = c.rng.intn(0x8000)
			default:
				a = 0xa000 + c.rng.intn(0x2000)
			}
			v := int(c.rng.byte())
			if c.rng.chance(55) {
				v = interesting[c.rng.intn(len(interesting))]
			}
			var out string
			if c.rng.chance(6) {
				r.do("dump")
			}
			switch k := c.rng.intn(10); {
			case k < 5:
				out = r.w(a, v)
				if a >= 0xa000 && a < 0xc000 && c.rng.chance(60) {
					out = r.do(fmt.Sprintf("r %04x", a))
					r.classify("rd-after-wr", out)
				}
			case k < 8:
				if a >= 0x8000 && a < 0xa000 || a >= 0xc000 {
					a = 0xa000 + c.rng.intn(0x2000)
				}
				out = r.do(fmt.Sprintf("r %04x", a))
				r.classify("r-"+cartRegion(a), out)
			default:
				r.win("rand")
			}
			if out == "crash" {
				break
			}
		}
		r.do("dump")
		r.classify("dump", r.lastOut)
	}
	c.notes["random_sequences"] = nseq
	c.notes["crash_outputs"] = r.crashes
	c.notes["resets"] = r.resets
	c.notes["construction_failures_total"] = r.failures
	c.notes["input_distribution"] = "types: all 256 type bytes for construction, 17 supported types elsewhere; ROM sizes 2..512 banks " +
		"(+1024 once per family, + mismatched/absurd size bytes); RAM size bytes 0..7,0xff; writes: every value to 13 control " +
		"addresses from 3 pre-states, random histories over 0000-7FFF/A000-BFFF " +
		"with 55% boundary values"
}
