module verifharness

go 1.14

require github.com/scottyw/tetromino v0.0.0

replace github.com/scottyw/tetromino => /repo
