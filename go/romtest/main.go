// Command romtest runs the blargg / mooneye ROMs shipped with the repository headless on the
// REAL emulator (built from /repo with -tags verif) and prints one line per ROM.
// It is a regression aid for fix commits, not a check.
//
// usage: romtest <repo> [substring-filter]
package main

import (
	"bytes"
	"context"
	"fmt"
	"os"
	"path/filepath"
	"reflect"
	"sort"
	"strings"
	"sync"

	"github.com/scottyw/tetromino/gameboy"
)

type result struct {
	name, verdict string
	frames        int
}

func runOne(path string, maxFrames int) (res result) {
	res.name = path
	defer func() {
		if r := recover(); r != nil {
			res.verdict = fmt.Sprintf("CRASH %v", r)
		}
	}()
	st, err := os.Stat(path)
	if err != nil || st.Size() == 0 {
		res.verdict = "EMPTY"
		return
	}
	w := &bytes.Buffer{}
	gb := gameboy.New(gameboy.Config{RomFilename: path, DisableVideoOutput: true, DisableAudioOutput: true, SerialWriter: w})
	p := gb.VerifParts()
	ctx := context.Background()
	for f := 0; f < maxFrames; f++ {
		gb.VerifRunFrame(ctx)
		res.frames = f + 1
		if m := p.CPU.CheckMooneye(); m != nil && strings.Contains(path, "mts-") {
			if reflect.DeepEqual(m, []uint8{3, 5, 8, 13, 21, 34}) {
				res.verdict = "PASS"
			} else {
				res.verdict = fmt.Sprintf("FAIL regs=%v", m)
			}
			return
		}
		if f%30 == 0 && !strings.Contains(path, "mts-") {
			s := w.String() + string(p.Mapper.DumpRAM())
			if strings.Contains(s, "Passed") {
				res.verdict = "PASS"
				return
			}
			if strings.Contains(s, "Failed") {
				res.verdict = "FAIL " + strings.Join(strings.Fields(strings.Map(func(r rune) rune {
					if r < 32 || r > 126 {
						return ' '
					}
					return r
				}, w.String())), " ")
				if len(res.verdict) > 160 {
					res.verdict = res.verdict[:160]
				}
				return
			}
		}
	}
	res.verdict = "TIMEOUT"
	return
}

func main() {
	repo := os.Args[1]
	filter := ""
	if len(os.Args) > 2 {
		filter = os.Args[2]
	}
	var roms []string
	filepath.Walk(filepath.Join(repo, "gameboy", "testdata"), func(p string, info os.FileInfo, err error) error {
		if err == nil && !info.IsDir() && strings.HasSuffix(p, ".gb") && strings.Contains(p, filter) {
			roms = append(roms, p)
		}
		return nil
	})
	sort.Strings(roms)
	results := make([]result, len(roms))
	var wg sync.WaitGroup
	sem := make(chan bool, 14)
	for i, r := range roms {
		wg.Add(1)
		go func(i int, r string) {
			defer wg.Done()
			sem <- true
			// NOTE: instances share package-level dispatch tables in the unfixed code, so run
			// each ROM in its own process when that defect is present (see -serial).
			results[i] = runOne(r, 60*70)
			<-sem
		}(i, r)
		if os.Getenv("ROMTEST_SERIAL") != "" {
			wg.Wait()
		}
	}
	wg.Wait()
	pass := 0
	for _, r := range results {
		rel, _ := filepath.Rel(filepath.Join(repo, "gameboy", "testdata"), r.name)
		fmt.Printf("%-8s %5d %s %s\n", strings.Fields(r.verdict)[0], r.frames, rel, strings.TrimPrefix(r.verdict, strings.Fields(r.verdict)[0]))
		if r.verdict == "PASS" {
			pass++
		}
	}
	fmt.Printf("TOTAL %d PASS %d\n", len(results), pass)
}
