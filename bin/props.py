"""Per-property configuration of bin/check: one JSON file per property under bin/props/."""
import json, os
_d = os.path.join(os.path.dirname(os.path.abspath(__file__)), 'props')
PROPS = {}
for _fn in sorted(os.listdir(_d)):
    if _fn.endswith('.json'):
        _c = json.load(open(os.path.join(_d, _fn)))
        PROPS[_c['id']] = _c
