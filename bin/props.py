"""Per-property configuration of bin/check: Lean proof modules, correspondence modes, evidence rule."""

PROPS = {
    'C22': {
        'proofs': ['Tetro.Proofs.C22'],
        'modes': ['joyp'],
        'rule': 'joyp: every reachable abstract controller state (4 select settings x 9 direction states x 16 button '
                'states) is set up through the public API, then every single transition (16 events, 256 writes) is applied '
                'and JOYP is read under all four select settings; a case is distinct by (state, transition, 4-read signature); '
                'plus seeded random walks',
        'exhaustive': True,
        'exhaustive_space': 'reachable controller states x (16 button events + 256 JOYP writes), one step',
        'assumptions': ['Spec/Joyp.lean is our reading of the DMG joypad register'],
    },
}
