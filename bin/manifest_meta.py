HOOK_COMMITS = ['8334f9b', '50da1cb']

NOT_APPLICABLE = {}

META = {
    'C22': {
        'text': 'Theorem c22_read_refines: for EVERY history of button events and JOYP writes the value read from the code '
                'model equals the documentation-shaped specification (bits 6-7 one, bits 4-5 as written, low nibble per held '
                'keys of the selected groups); c22_no_opposites: opposite directions are never held together. The model is '
                'tied to controller.go by an exhaustive one-step correspondence over the whole reachable state space.',
        'note': 'Trusted: Lean kernel (axioms propext, Quot.sound), the hand-written model of controller.go, the correspondence '
                'harness. Spec/Joyp.lean is our reading of Pan Docs.',
        'technique': 'Lean 4 refinement proof (abstraction function + induction over histories) + exhaustive model/code correspondence',
        'design_ref': 'DESIGN.md section 4 C22',
    },
}
