from props import PROPS
HOOK_COMMITS = ['8334f9b', '50da1cb', '127919d', '917cc13']
NOT_APPLICABLE = {}
META = {k: v['manifest'] for k, v in PROPS.items()}
