/- Shared helpers of the line-protocol driver (core-only). -/
namespace Tetro.Drv

def hexDigit (n : Nat) : Char :=
  if n < 10 then Char.ofNat (48 + n) else Char.ofNat (87 + n)

def hexN (digits : Nat) (n : Nat) : String :=
  String.ofList ((List.range digits).reverse.map fun i => hexDigit ((n >>> (4 * i)) % 16))

def hex2 (b : BitVec 8) : String := hexN 2 b.toNat
def hex4 (b : BitVec 16) : String := hexN 4 b.toNat

def hexVal (c : Char) : Option Nat :=
  if '0' ≤ c ∧ c ≤ '9' then some (c.toNat - 48)
  else if 'a' ≤ c ∧ c ≤ 'f' then some (c.toNat - 87)
  else if 'A' ≤ c ∧ c ≤ 'F' then some (c.toNat - 55)
  else none

def parseHex (s : String) : Option Nat :=
  if s.isEmpty then none else
  s.foldl (fun acc c => match acc, hexVal c with
    | some a, some d => some (a * 16 + d)
    | _, _ => none) (some 0)

def b01 (b : Bool) : String := if b then "1" else "0"

/-- run a mode: `step` maps a state and the words of one op line to a new state and an output line -/
partial def runMode {σ : Type} (lines : Array String) (start : Nat) (init : σ)
    (step : σ → List String → σ × String) : IO Unit := do
  let out ← IO.getStdout
  let mut s := init
  let mut buf : String := ""
  let mut n := 0
  for i in [start:lines.size] do
    let line := lines[i]!
    if line.isEmpty then continue
    let (s', o) := step s (line.splitOn " ")
    s := s'
    buf := buf ++ o ++ "\n"
    n := n + 1
    if n % 4096 == 0 then
      out.putStr buf
      buf := ""
  out.putStr buf
  out.flush

end Tetro.Drv
