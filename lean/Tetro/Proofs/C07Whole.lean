import Tetro.Proofs.C07
import Tetro.Proofs.Whole
/-
C07 on the WHOLE address space: the board of the whole-machine model (`Model.Whole.Board` = the machine bus model
plus the real APU model behind the handlers the bus model leaves to a stub).

`c07_frame_whole`: for EVERY board state, every written address (the sound registers and wave RAM included),
every value and every address x outside the documented footprint of the written address, x reads exactly what it
read before the write.  For a written address inside FF10–FF3F the footprint is the sound block as a whole
(`apuAddr a ∧ apuAddr x` in `Spec.BusSpec.sideEffect`): which sound registers a sound write may change is the
subject of C18/C19 (`c18_*`, `c19_*`); what this theorem adds is that a sound write changes NOTHING outside the
sound block and that no other write changes anything inside it.
-/
namespace Tetro.C07
open Tetro.Model.Decoder Tetro.Model.Machine Tetro.Model Tetro.Model.Whole Tetro.BusRoute Tetro.BusBasic Tetro.BusFrame
open Tetro.Spec.BusSpec Tetro.WholeProofs

/-- what address x reads on the board (`none` = the read panics) -/
def boardPeek (b : Board) (x : Nat) : Option Nat := (b.read? x).map (·.1)

private theorem isApuH_of_none {h : H} {a : Nat} (e : apuAddr? h a = none) : isApuH h = false := by
  cases h <;> first | rfl | (simp [apuAddr?] at e)

private theorem sound_in_block {a : Nat} (h : soundAddr a = true) : apuAddr a := by
  unfold soundAddr at h
  simp only [Bool.or_eq_true, Bool.and_eq_true, decide_eq_true_eq] at h
  unfold apuAddr
  omega

private theorem peek_sound (b : Board) (x : Nat) (hx : x < 0x10000) (hs : soundAddr x = true) :
    boardPeek b x = b.apu.read x := by
  unfold boardPeek Board.read?
  rw [(whole_apu_addresses x hx).1, hs]
  simp only [if_true, Option.map_map]
  cases b.apu.read x <;> rfl

private theorem peek_machine (b : Board) (x : Nat) (hx : x < 0x10000) (hs : soundAddr x = false) :
    boardPeek b x = peek R b.m x := by
  unfold boardPeek Board.read? peek
  rw [(whole_apu_addresses x hx).1, hs]
  have e : rH x = route R x := by unfold rH; rw [C06.c06_arms.1]
  simp only [Bool.false_eq_true, if_false, Option.map_map, e]
  cases readVal (route R x) b.m x <;> rfl

/-- **C07, whole address space.** -/
theorem c07_frame_whole (b b' : Board) (a v x : Nat) (ha : a < 0x10000) (hx : x < 0x10000)
    (hw : b.write? a v = some b') (hf : ¬ footprint a x) : boardPeek b' x = boardPeek b x := by
  have hwa := (whole_apu_addresses a ha).2
  unfold Board.write? at hw
  cases hsa : soundAddr a
  · -- the write goes to the machine bus
    rw [hwa, hsa] at hw
    simp only [Bool.false_eq_true, if_false, Option.map_eq_some_iff] at hw
    obtain ⟨m', hm, rfl⟩ := hw
    cases hsx : soundAddr x
    · rw [peek_machine _ x hx hsx, peek_machine _ x hx hsx]
      have e : wH a = route W a := by unfold wH; rw [C06.c06_arms.2]
      have hnone : apuAddr? (wH a) a = none := by rw [hwa, hsa]; rfl
      refine frame_h b.m m' a v x ha hx (by rw [← e]; exact isApuH_of_none hnone) ?_ hf
      unfold busWrite; rw [← e]; exact hm
    · rw [peek_sound _ x hx hsx, peek_sound _ x hx hsx]
  · -- the write goes to the sound unit: nothing outside the sound block can change
    rw [hwa, hsa] at hw
    simp only [if_true, Option.some.injEq] at hw
    subst hw
    have hax : ¬ apuAddr x := fun h => hf (Or.inr (Or.inr (Or.inr (Or.inr (Or.inr (Or.inr (Or.inr (Or.inr (Or.inr
      ⟨sound_in_block hsa, h⟩)))))))))
    have hsx : soundAddr x = false := by
      cases h : soundAddr x
      · rfl
      · exact absurd (sound_in_block h) hax
    rw [peek_machine _ x hx hsx, peek_machine _ x hx hsx]

/-- the set of addresses whose read value differs after ANY write is inside the footprint -/
theorem c07_changed_subset_footprint_whole (b b' : Board) (a v : Nat) (ha : a < 0x10000)
    (hw : b.write? a v = some b') : ∀ x < 0x10000, boardPeek b' x ≠ boardPeek b x → footprint a x := by
  intro x hx hne
  by_cases hf : footprint a x
  · exact hf
  · exact absurd (c07_frame_whole b b' a v x ha hx hw hf) hne

/-- non-vacuity: on the power-on board a sound write (NR12) and a work-RAM write both succeed, NR12 reads the
    written value, and the hypotheses of the theorem hold for x = C000 resp. x = FF12 -/
example : (demo.b.write? 0xff12 0xf0).isSome = true ∧ (demo.b.write? 0xc000 0x5a).isSome = true ∧
    ¬ footprint 0xff12 0xc000 ∧ ¬ footprint 0xc000 0xff12 ∧
    ((demo.b.write? 0xff12 0xf0).bind fun b' => boardPeek b' 0xff12) = some 0xf0 := by decide +kernel

end Tetro.C07
