import Tetro.Model.Whole
import Tetro.Proofs.C15
import Tetro.Lemmas.Lcd
import Tetro.Proofs.C17Oam
import Tetro.Lemmas.CartWF
import Tetro.Lemmas.CpuBusInv
import Tetro.Proofs.Whole
import Tetro.Lemmas.BusRoute
import Tetro.Lemmas.BusBasic
import Tetro.Lemmas.ApuLa
/-
No Go panic on the board of the whole machine (partial): the component theorems composed.

`BoardOk b` =  no panic so far  ∧  the cartridge controller is well-formed (C11: `CartWF.WellFormed`)
             ∧  the LCD state is related to some state of the closed-form LCD specification (C13: `LcdLemmas.Rel`)
             ∧  the OAM unit is safe (C17: `ppuLastAccess` in FE00–FE9F, a running DMA at cycle ≤ 161)
             ∧  the wave channel's last-accessed index is below 16.

`whole_no_crash_partial`: ONE machine cycle of the whole machine – whatever instruction the CPU is executing,
whatever addresses and values it puts on the bus – keeps `BoardOk`; hence (`whole_run_no_crash`) from a state that
satisfies it the board never panics: no bus read or write (c11 `read_ok/write_ok`, the decoder ranges of
`BusRoute.range_read/write` = C06, c17_no_crash for OAM accesses, OAM-bug triggers and `Corrupt`), no
`ppu.EndMachineCycle` (C13's `step_rel` for the timing, c15_no_panic for the pixels), no DMA tick with its bus read,
no RTC tick, no APU register read.  The CPU's part is `CpuBusInv.cycle_preserves`: the CPU reaches the board only
through the nine bus operations.

What is NOT covered (hence "partial"): (1) the two other panic flags of the model – `cpu.crashed` (the sub-
instruction index of `ExecuteMachineCycle`; C02's `c02_run` covers it per instruction on the flat bus) and the APU's
sticky flags `apu.crash`, `apu.ch3.crash` (wave-RAM index of a WRITE while the channel runs, `waveduty` index in
`takeSample`); (2) the very first machine cycle after power-on: `oam.New` leaves `ppuLastAccess = 0`, outside
FE00–FE9F, until the first `ppu.EndMachineCycle` – the invariant holds from the end of the first cycle on (see the
example at the end; the first CPU cycle cannot touch OAM because of the power-on register values, which is not
proved here).  BOTH gaps are closed in Proofs/WholeNoCrash.lean (`c11_whole_never_panics`: invariant `WholeOk` =
this file's `BoardOk` – or its power-on variant for the first cycle – plus `CpuOk` and `ApuOk`).
-/
namespace Tetro.WholeSafe
open Tetro.Model Tetro.Model.Render Tetro.Model.Whole Tetro.Model.Machine Tetro.LcdLemmas
open Tetro.CartWF Tetro.C17 Tetro.Model.Oam Tetro.BusRoute Tetro.Model.Decoder Tetro.WholeProofs Tetro.ApuLa

private theorem cos_some (s : Scene) (st : PState) (sprite : Nat) (h : sprite < 40) :
    ∃ st', checkOverlappingSprite s st sprite = some st' ∧ st'.mode = st.mode ∧ st'.ticks = st.ticks ∧
      st'.firstLine = st.firstLine := by
  unfold checkOverlappingSprite oamAt mul8
  have : sprite * 4 % 256 < 0xa0 := by omega
  simp only [this, if_true, Option.bind_some, dif_pos h]
  exact ⟨_, rfl, rfl, rfl, rfl⟩

private theorem coss_some (s : Scene) (st : PState) (t : Nat) (h : t < 20) :
    ∃ st', checkOverlappingSprites s st t = some st' := by
  unfold checkOverlappingSprites
  have h1 : mul8 t 2 < 40 := by unfold mul8; omega
  have h2 : add8 (mul8 t 2) 1 < 40 := by unfold add8 mul8; omega
  obtain ⟨st1, e1, _⟩ := cos_some s st _ h1
  obtain ⟨st2, e2, _⟩ := cos_some s st1 _ h2
  exact ⟨st2, by rw [e1, Option.bind_some, e2]⟩

private theorem rps_some (s : Scene) (st : PState) (x : Nat) : ∃ st', renderPixelSt s st x = some st' := by
  unfold renderPixelSt
  obtain ⟨v, hv⟩ := Tetro.C15.c15_no_panic s (ovFun st.overlaps) x st.ly
  exact ⟨_, by rw [hv, Option.bind_some]⟩

private theorem tickWork_some (s : Scene) (st : PState) (t : Nat) (hm : st.mode < 4) (h2 : st.mode = 2 → t < 20) :
    ∃ st', tickWork s st t = some st' := by
  unfold tickWork
  have : st.mode = 0 ∨ st.mode = 1 ∨ st.mode = 2 ∨ st.mode = 3 := by omega
  rcases this with e | e | e | e <;> rw [e] <;> simp only []
  · split <;> exact ⟨_, rfl⟩
  · exact ⟨_, rfl⟩
  · exact coss_some s st t (h2 e)
  · split
    · obtain ⟨s1, e1⟩ := rps_some s st (mul8 (sub8 t 20) 4)
      obtain ⟨s2, e2⟩ := rps_some s s1 (add8 (mul8 (sub8 t 20) 4) 1)
      obtain ⟨s3, e3⟩ := rps_some s s2 (add8 (mul8 (sub8 t 20) 4) 2)
      obtain ⟨s4, e4⟩ := rps_some s s3 (add8 (mul8 (sub8 t 20) 4) 3)
      exact ⟨s4, by rw [e1, Option.bind_some, e2, Option.bind_some, e3, Option.bind_some, e4]⟩
    · exact ⟨_, rfl⟩

private theorem nextMode_eq (m ticks : Nat) (hm : m < 4) :
    Render.nextMode m ticks (ticks / 114 % 256) (ticks % 114 % 256) = some (Lcd.nextMode m ticks) := by
  have h114 : ticks % 114 % 256 = ticks % 114 := by omega
  have : m = 0 ∨ m = 1 ∨ m = 2 ∨ m = 3 := by omega
  rcases this with e | e | e | e <;> subst e <;> simp only [Render.nextMode, Lcd.nextMode, h114] <;> rfl

/-- `Render.tick` does not panic when the timing state is one `Lcd.tick` accepts -/
theorem whole_render_tick_total (s : Scene) (st : PState) (hm : st.mode < 4)
    (h2 : Lcd.nextMode st.mode st.ticks = 2 → st.ticks % 114 < 20) :
    ∃ st', Render.tick s st = some st' := by
  unfold Render.tick
  split
  · exact ⟨_, rfl⟩
  · simp only []
    rw [nextMode_eq _ _ hm, Option.bind_some]
    have hlt : Lcd.nextMode st.mode st.ticks < 4 := by
      unfold Lcd.nextMode; repeat' split
      all_goals omega
    obtain ⟨st', e⟩ := tickWork_some s { st with ly := st.ticks / 114 % 256, mode := Lcd.nextMode st.mode st.ticks }
      (st.ticks % 114 % 256) hlt (fun h => by have := h2 h; omega)
    rw [e, Option.bind_some]
    exact ⟨_, rfl⟩


private theorem lcd_facts (s : Tetro.Spec.Lcd.St) (p : Lcd.Ppu) (h : Rel s p) :
    ∃ r, Lcd.tick p = some r ∧ Rel (specStep s .tick) r.p ∧ p.mode < 4 ∧
      (Lcd.nextMode p.mode p.ticks = 2 → p.ticks % 114 < 20) := by
  obtain ⟨r, hr, hrel, _⟩ := step_rel s p .tick h
  have hr' : Lcd.tick p = some r := hr
  refine ⟨r, hr', hrel, ?_, ?_⟩
  · unfold Rel at h
    obtain ⟨_, _, _, _, _, h⟩ := h
    cases hs : s.since with
    | none => rw [hs] at h; simp only [] at h; omega
    | some n => rw [hs] at h; simp only [] at h; rw [h.2.1]; exact mode_lt4 _
  · intro h2
    unfold Lcd.tick at hr'
    split at hr'
    · -- disabled: ticks = 0
      rename_i hdis
      unfold Rel at h
      obtain ⟨_, _, _, _, _, h⟩ := h
      cases hs : s.since with
      | none => rw [hs] at h; simp only [] at h; omega
      | some n => rw [hs] at h; simp only [] at h; rw [h.1] at hdis; cases hdis
    · split at hr'
      · cases hr'
      · rename_i hp
        unfold Lcd.tickPanics at hp
        omega


/-- the invariant of the board: no Go panic so far, and the component invariants under which the component
    theorems exclude the next one -/
structure BoardOk (b : Board) : Prop where
  alive : b.crashed = false
  cart  : WellFormed b.m.cart
  lcd   : ∃ s, Rel s b.m.ppu
  oam   : Safe b.m.oam
  la    : b.apu.ch3.lastAccessed < 16

private theorem oamAfterTick_safe (p : Lcd.Ppu) (o : Oam) (h : Safe o)
    (h2 : Lcd.nextMode p.mode p.ticks = 2 → p.ticks % 114 < 20) : Safe (oamAfterTick p o) := by
  obtain ⟨hp, hd⟩ := h
  unfold oamAfterTick
  simp only []
  split
  · rename_i hm
    have := h2 hm
    refine ⟨?_, hd⟩
    unfold PlaOk
    simp only [BitVec.toNat_ofNat]
    omega
  · exact ⟨hp, hd⟩

theorem whole_ppu_step_total (b : Board) (h : BoardOk b) : BoardOk b.ppuStep := by
  obtain ⟨s, hs⟩ := h.lcd
  obtain ⟨r, hr, hrel, hm, h2⟩ := lcd_facts s b.m.ppu hs
  obtain ⟨pix', hpix⟩ := whole_render_tick_total (sceneOf b.m) (syncPix b.m.ppu b.pix) hm h2
  rw [Tetro.WholeProofs.whole_step_ppu, hpix]
  unfold ppuTick
  rw [hr]
  simp only [Option.map_some]
  refine ⟨h.alive, h.cart, ⟨_, hrel⟩, ?_, h.la⟩
  show Safe (if b.m.ppu.enabled then oamAfterTick b.m.ppu b.m.oam else b.m.oam)
  split
  · exact oamAfterTick_safe _ _ h.oam h2
  · exact h.oam


/-- a machine-bus read never panics when the cartridge is well-formed and the OAM unit safe, at any of the
    65 536 addresses (on the machine bus the sound registers are the stub), and keeps those invariants -/
theorem whole_machine_read_total (m : Machine) (a : Nat) (ha : a < 65536) (hc : WellFormed m.cart) (ho : Safe m.oam) :
    ∃ v, readVal (route expectedReadArms a) m a = some v ∧
      (readEff (route expectedReadArms a) m a).cart = m.cart ∧ Safe (readEff (route expectedReadArms a) m a).oam ∧
      (readEff (route expectedReadArms a) m a).ppu = m.ppu := by
  have hr := range_read ha
  generalize route expectedReadArms a = h at hr ⊢
  cases h <;> simp only [inRange, Bool.or_eq_true, Bool.and_eq_true, decide_eq_true_eq, beq_iff_eq,
    Bool.true_and, Bool.false_eq_true] at hr
  case mbc =>
    have := read_ok hc a
    simp only [Cart.busRead, Option.isSome_iff_exists] at this
    obtain ⟨v, hv⟩ := this
    exact ⟨v, hv, rfl, ho, rfl⟩
  case vram =>
    have e : ∃ v, readVal .vram m a = some v := by
      simp only [readVal]; rw [Tetro.BusBasic.sub16_eq hr.1 ha, Tetro.BusBasic.ldv_eq (by omega)]; exact ⟨_, rfl⟩
    obtain ⟨v, e⟩ := e
    exact ⟨v, e, rfl, ho, rfl⟩
  case wram =>
    have e : ∃ v, readVal .wram m a = some v := by
      simp only [readVal]; rw [Tetro.BusBasic.sub16_eq hr.1 ha, Tetro.BusBasic.ldv_eq (by omega)]; exact ⟨_, rfl⟩
    obtain ⟨v, e⟩ := e
    exact ⟨v, e, rfl, ho, rfl⟩
  case echo =>
    have e : ∃ v, readVal .echo m a = some v := by
      simp only [readVal]; rw [Tetro.BusBasic.sub16_eq hr.1 ha, Tetro.BusBasic.ldv_eq (by omega)]; exact ⟨_, rfl⟩
    obtain ⟨v, e⟩ := e
    exact ⟨v, e, rfl, ho, rfl⟩
  case hram =>
    have e : ∃ v, readVal .hram m a = some v := by
      simp only [readVal]; rw [Tetro.BusBasic.sub16_eq hr.1 ha, Tetro.BusBasic.ldv_eq (by omega)]; exact ⟨_, rfl⟩
    obtain ⟨v, e⟩ := e
    exact ⟨v, e, rfl, ho, rfl⟩
  case oam =>
    have ht : (BitVec.ofNat 16 a).toNat = a := by rw [BitVec.toNat_ofNat]; omega
    obtain ⟨s', hs', hsafe⟩ := c17_no_crash m.oam (.read (BitVec.ofNat 16 a)) ho (by simp only [ValidOp, ht]; omega)
    simp only [Oam.step, Option.map_eq_some_iff] at hs'
    obtain ⟨p, hp, rfl⟩ := hs'
    refine ⟨p.2.toNat, by simp only [readVal, hp, Option.map_some], ?_, ?_, ?_⟩ <;>
      simp only [readEff, hp] <;> first | rfl | exact hsafe
  all_goals first
    | exact ⟨_, rfl, rfl, ho, rfl⟩
    | (exfalso; simp at hr)

private theorem rel_of_step (s : Tetro.Spec.Lcd.St) (p : Lcd.Ppu) (op : Lcd.Op) (h : Rel s p) (q : Lcd.Ppu)
    (hq : ∀ r, Lcd.step p op = some r → r.p = q) : ∃ s', Rel s' q := by
  obtain ⟨r, hr, hrel, _⟩ := step_rel s p op h
  exact ⟨_, (hq r hr) ▸ hrel⟩

private theorem oamAfterLcdc_safe (p : Lcd.Ppu) (on : Bool) (o : Oam) (h : Safe o) : Safe (oamAfterLcdc p on o) := by
  unfold oamAfterLcdc
  repeat' split
  all_goals exact h

/-- a machine-bus write never panics under the same invariants (plus the LCD relation, which LCDC/STAT/LY/LYC
    writes must keep), at any address with any byte, and keeps them -/
theorem whole_machine_write_total (m : Machine) (a v : Nat) (ha : a < 65536) (hc : WellFormed m.cart) (ho : Safe m.oam)
    (hl : ∃ s, Rel s m.ppu) :
    ∃ m', writeH (route expectedWriteArms a) m a v = some m' ∧ WellFormed m'.cart ∧ Safe m'.oam ∧
      ∃ s, Rel s m'.ppu := by
  have hr := range_write ha
  obtain ⟨s, hs⟩ := hl
  generalize route expectedWriteArms a = h at hr ⊢
  cases h <;> simp only [inRange, Bool.or_eq_true, Bool.and_eq_true, decide_eq_true_eq, beq_iff_eq,
    Bool.true_and, Bool.false_eq_true, Bool.not_false] at hr
  case mbc =>
    obtain ⟨c', e, w⟩ := write_ok hc a v
    exact ⟨{ m with cart := c' }, by simp only [writeH, e, Option.map_some], w, ho, s, hs⟩
  case vram =>
    have e : ∃ r, stv m.vram (Oam.sub16 a 0x8000) v = some r := by
      rw [Tetro.BusBasic.sub16_eq hr.1 ha]; exact ⟨_, Tetro.BusBasic.stv_eq (by omega)⟩
    obtain ⟨r, e⟩ := e
    exact ⟨{ m with vram := r }, by simp only [writeH, e, Option.map_some], hc, ho, s, hs⟩
  case wram =>
    have e : ∃ r, stv m.wram (Oam.sub16 a 0xc000) v = some r := by
      rw [Tetro.BusBasic.sub16_eq hr.1 ha]; exact ⟨_, Tetro.BusBasic.stv_eq (by omega)⟩
    obtain ⟨r, e⟩ := e
    exact ⟨{ m with wram := r }, by simp only [writeH, e, Option.map_some], hc, ho, s, hs⟩
  case echo =>
    have e : ∃ r, stv m.wram (Oam.sub16 a 0xe000) v = some r := by
      rw [Tetro.BusBasic.sub16_eq hr.1 ha]; exact ⟨_, Tetro.BusBasic.stv_eq (by omega)⟩
    obtain ⟨r, e⟩ := e
    exact ⟨{ m with wram := r }, by simp only [writeH, e, Option.map_some], hc, ho, s, hs⟩
  case hram =>
    have e : ∃ r, stv m.hram (Oam.sub16 a 0xff80) v = some r := by
      rw [Tetro.BusBasic.sub16_eq hr.1 ha]; exact ⟨_, Tetro.BusBasic.stv_eq (by omega)⟩
    obtain ⟨r, e⟩ := e
    exact ⟨{ m with hram := r }, by simp only [writeH, e, Option.map_some], hc, ho, s, hs⟩
  case oam =>
    have ht : (BitVec.ofNat 16 a).toNat = a := by rw [BitVec.toNat_ofNat]; omega
    obtain ⟨s', hs', hsafe⟩ := c17_no_crash m.oam (.write (BitVec.ofNat 16 a) (BitVec.ofNat 8 v)) ho
      (by simp only [ValidOp, ht]; omega)
    have hs'' : Oam.cpuWrite m.oam (BitVec.ofNat 16 a) (BitVec.ofNat 8 v) = some s' := hs'
    exact ⟨{ m with oam := s' }, by simp only [writeH, hs'', Option.map_some], hc, hsafe, s, hs⟩
  case lcdc =>
    exact ⟨_, rfl, hc, oamAfterLcdc_safe _ _ _ ho,
      rel_of_step s m.ppu (.wLCDC v) hs _ (fun r hr => by simp only [Lcd.step, Option.some.injEq] at hr; rw [← hr])⟩
  case stat =>
    exact ⟨_, rfl, hc, ho,
      rel_of_step s m.ppu (.wSTAT v) hs _ (fun r hr => by simp only [Lcd.step, Option.some.injEq] at hr; rw [← hr])⟩
  case ly =>
    exact ⟨_, rfl, hc, ho,
      rel_of_step s m.ppu (.wLY v) hs _ (fun r hr => by simp only [Lcd.step, Option.some.injEq] at hr; rw [← hr])⟩
  case lyc =>
    exact ⟨_, rfl, hc, ho,
      rel_of_step s m.ppu (.wLYC v) hs _ (fun r hr => by simp only [Lcd.step, Option.some.injEq] at hr; rw [← hr])⟩
  case dma =>
    obtain ⟨s', hs', hsafe⟩ := c17_no_crash m.oam (.writeDMA (BitVec.ofNat 8 v)) ho trivial
    simp only [Oam.step, Option.some.injEq] at hs'
    exact ⟨_, rfl, hc, hs' ▸ hsafe, s, hs⟩
  all_goals first
    | exact ⟨_, rfl, hc, ho, s, hs⟩
    | (exfalso; simp at hr)


private theorem gen_read (a : Nat) : rH a = route expectedReadArms a := by
  unfold rH; rw [Tetro.C06.c06_arms.1]
private theorem gen_write (a : Nat) : wH a = route expectedWriteArms a := by
  unfold wH; rw [Tetro.C06.c06_arms.2]

private theorem sound_range {a : Nat} (h : soundAddr a = true) : 0xFF10 ≤ a ∧ a < 0xFF40 := by
  unfold soundAddr at h
  simp only [Bool.or_eq_true, Bool.and_eq_true, decide_eq_true_eq] at h
  omega

/-- `Mapper.Read` at any address keeps the board alive -/
theorem whole_board_read (b : Board) (h : BoardOk b) (a : Nat) (ha : a < 65536) : BoardOk (b.read a).2 := by
  unfold Board.read Board.read?
  rw [(whole_apu_addresses a ha).1]
  cases hs : soundAddr a
  · simp only [Bool.false_eq_true, if_false]
    rw [gen_read]
    obtain ⟨v, hv, hcart, hoam, hppu⟩ := whole_machine_read_total b.m a ha h.cart h.oam
    rw [hv]
    simp only [Option.map_some]
    exact ⟨h.alive, hcart ▸ h.cart, hppu ▸ h.lcd, hoam, h.la⟩
  · simp only [if_true]
    obtain ⟨v, hv⟩ := read_some b.apu a h.la (sound_range hs).2
    rw [hv]
    exact h

/-- `Mapper.Write` at any address with any value keeps the board alive -/
theorem whole_board_write (b : Board) (h : BoardOk b) (a v : Nat) (ha : a < 65536) : BoardOk (b.write a v) := by
  unfold Board.write Board.write?
  rw [(whole_apu_addresses a ha).2]
  cases hs : soundAddr a
  · simp only [Bool.false_eq_true, if_false]
    rw [gen_write]
    obtain ⟨m', hm, hcart, hoam, hlcd⟩ := whole_machine_write_total b.m a v ha h.cart h.oam h.lcd
    rw [hm]
    exact ⟨h.alive, hcart, hlcd, hoam, h.la⟩
  · simp only [if_true]
    exact ⟨h.alive, h.cart, h.lcd, h.oam, by show la (b.apu.write a v) < 16; rw [la_write]; exact h.la⟩

theorem whole_board_trigger (b : Board) (h : BoardOk b) (a : Cpu.Word) :
    BoardOk (b.setOam (Oam.triggerWriteCorruption b.m.oam a)) := by
  obtain ⟨s', hs', hsafe⟩ := c17_no_crash b.m.oam (.trigger a) h.oam trivial
  simp only [Oam.step, Option.some.injEq] at hs'
  exact ⟨h.alive, h.cart, h.lcd, hs' ▸ hsafe, h.la⟩

theorem whole_board_corrupt (b : Board) (h : BoardOk b) : BoardOk b.corrupt := by
  unfold Board.corrupt
  split
  · exact h
  · obtain ⟨s', hs', hsafe⟩ := c17_no_crash b.m.oam .corrupt h.oam trivial
    have hs'' : Oam.corruptStep b.m.oam = some s' := hs'
    rw [hs'']
    exact ⟨h.alive, h.cart, h.lcd, hsafe, h.la⟩

private theorem board_setIntr_ok (b : Board) (h : BoardOk b) (i : Intr) : BoardOk (b.setIntr i) :=
  ⟨h.alive, h.cart, h.lcd, h.oam, h.la⟩

private theorem dmaAddr_lt (o : Oam) (a : Nat) (h : dmaReadAddr o = some a) : a < 65536 := by
  unfold dmaReadAddr at h
  split at h
  · split at h
    · cases h
    · split at h
      · simp only [Option.some.injEq] at h; rw [← h]; exact o.dmaBaseAddr.isLt
      · split at h
        · cases h
        · simp only [Option.some.injEq] at h; rw [← h]; unfold Oam.sub16; exact Nat.mod_lt _ (by decide)
  · cases h

theorem whole_dma_step_total (b : Board) (h : BoardOk b) : BoardOk b.dmaStep := by
  rw [whole_step_dma]
  unfold endMachineCycle Machine.tickDMA
  rw [Tetro.C06.c06_arms.1]
  cases hd : dmaReadAddr b.m.oam with
  | none =>
    simp only []
    obtain ⟨s', hs', hsafe⟩ := c17_no_crash b.m.oam (.tick fun _ => 0) h.oam trivial
    have hs'' : Oam.tickDMA b.m.oam (fun _ => 0) = some s' := hs'
    rw [hs'']
    exact ⟨h.alive, tick_wf h.cart, h.lcd, hsafe, h.la⟩
  | some a =>
    simp only []
    have ha := dmaAddr_lt _ _ hd
    obtain ⟨v, hv, hcart, hoam, hppu⟩ := whole_machine_read_total b.m a ha h.cart h.oam
    unfold busRead
    rw [hv]
    simp only [Option.map_some, Option.bind_some]
    obtain ⟨s', hs', hsafe⟩ := c17_no_crash (readEff (route expectedReadArms a) b.m a).oam
      (.tick fun _ => BitVec.ofNat 8 v) hoam trivial
    have hs'' : Oam.tickDMA (readEff (route expectedReadArms a) b.m a).oam (fun _ => BitVec.ofNat 8 v) = some s' := hs'
    rw [hs'']
    simp only [Option.map_some]
    refine ⟨h.alive, ?_, ?_, hsafe, h.la⟩
    · show WellFormed (readEff (route expectedReadArms a) b.m a).cart.tick
      rw [hcart]; exact tick_wf h.cart
    · show ∃ s, Rel s (readEff (route expectedReadArms a) b.m a).ppu
      rw [hppu]; exact h.lcd

theorem whole_apu_step_total (b : Board) (h : BoardOk b) : BoardOk b.apuStep := by
  rw [whole_step_apu]
  exact ⟨h.alive, h.cart, h.lcd, h.oam, la_cycle _ h.la⟩

theorem whole_timer_step_total (b : Board) (h : BoardOk b) : BoardOk b.timerStep :=
  ⟨h.alive, h.cart, h.lcd, h.oam, h.la⟩

private theorem guard_alive (f : Board → Board) (b : Board) (h : b.crashed = false) : Board.guard f b = f b := by
  unfold Board.guard; rw [h]; rfl

/-- the four steps after the CPU's never panic on a board that satisfies the invariant, and keep it -/
theorem whole_end_cycle_total (b : Board) (h : BoardOk b) : BoardOk b.endCycle := by
  unfold Board.endCycle
  have h1 := whole_ppu_step_total b h
  rw [guard_alive _ _ h.alive]
  have h2 := whole_dma_step_total _ h1
  rw [guard_alive _ _ h1.alive]
  have h3 := whole_apu_step_total _ h2
  rw [guard_alive _ _ h2.alive]
  rw [guard_alive _ _ h3.alive]
  exact whole_timer_step_total _ h3

/-- the CPU's part of a cycle keeps the invariant: it reaches the board only through the nine bus operations -/
theorem whole_cpu_part (c : Cpu.Cpu) (b : Board) (h : BoardOk b) : BoardOk (Cpu.cycle Cpu.Tables.gen c b).2 := by
  refine Tetro.CpuBusInv.cycle_preserves BoardOk ?_ ?_ ?_ ?_ ?_ ?_ _ _ _ h
  · intro m a hm; exact whole_board_read m hm a.toNat a.isLt
  · intro m a v hm; exact whole_board_write m hm a.toNat v.toNat a.isLt
  · intro m a hm; exact whole_board_trigger m hm a
  · intro m hm; exact whole_board_corrupt m hm
  · intro m v hm; exact board_setIntr_ok m hm _
  · intro m k hm; exact board_setIntr_ok m hm _

/-- **no Go panic on the board (partial).**  A machine cycle keeps the board invariant, in particular
    `crashed = false`, whatever the guest program does. -/
theorem whole_no_crash_partial (w : Whole) (h : BoardOk w.b) : BoardOk w.cycle.b := by
  cases hs : w.stopped
  · rw [whole_cycle_order w hs]
    have hc := whole_cpu_part w.cpu w.b h
    split
    · exact hc
    · exact whole_end_cycle_total _ hc
  · rw [whole_cycle_stopped w hs]; exact h

theorem whole_run_no_crash (n : Nat) (w : Whole) (h : BoardOk w.b) :
    BoardOk (Whole.run n w).b ∧ (Whole.run n w).b.crashed = false := by
  induction n generalizing w with
  | zero => exact ⟨h, h.alive⟩
  | succ n ih => exact ih w.cycle (whole_no_crash_partial w h)

/-! ### additions used by Proofs/WholeNoCrash.lean (the first cycle after power-on, the full invariant) -/

/-- `ppu.EndMachineCycle` in a cycle that stays in / enters mode 2 with the LCD on: the sprite search sets
    `ppuLastAccess`, so the OAM unit is `Safe` afterwards WHATEVER `ppuLastAccess` was before (after `oam.New`
    it is 0) – only the DMA part of `Safe` is needed of the state before -/
theorem whole_ppu_step_mode2 (b : Board) (alive : b.crashed = false) (cart : WellFormed b.m.cart)
    (lcd : ∃ s, Rel s b.m.ppu) (dma : DmaOk b.m.oam) (la : b.apu.ch3.lastAccessed < 16)
    (hen : b.m.ppu.enabled = true) (hm2 : Lcd.nextMode b.m.ppu.mode b.m.ppu.ticks = 2) : BoardOk b.ppuStep := by
  obtain ⟨s, hs⟩ := lcd
  obtain ⟨r, hr, hrel, hm, h2⟩ := lcd_facts s b.m.ppu hs
  obtain ⟨pix', hpix⟩ := whole_render_tick_total (sceneOf b.m) (syncPix b.m.ppu b.pix) hm h2
  rw [Tetro.WholeProofs.whole_step_ppu, hpix]
  unfold ppuTick
  rw [hr]
  simp only [Option.map_some]
  refine ⟨alive, cart, ⟨_, hrel⟩, ?_, la⟩
  show Safe (if b.m.ppu.enabled then oamAfterTick b.m.ppu b.m.oam else b.m.oam)
  rw [if_pos hen]
  unfold oamAfterTick
  simp only []
  rw [if_pos hm2]
  have := h2 hm2
  refine ⟨?_, dma⟩
  unfold PlaOk
  simp only [BitVec.toNat_ofNat]
  omega

/-- IME / IF updates by the CPU keep the board invariant -/
theorem whole_cpu_setIntr (b : Board) (h : BoardOk b) (i : Intr) : BoardOk (b.setIntr i) :=
  ⟨h.alive, h.cart, h.lcd, h.oam, h.la⟩

/-! ### non-vacuity: the demo machine (all-NOP ROM-only cartridge) satisfies the invariant after its first cycle -/

example : BoardOk demo.cycle.b := by
  refine ⟨by decide +kernel, ?_, ?_, ⟨?_, ?_⟩, by decide +kernel⟩
  · show (0x8000 : Nat) ≤ 0x8000; decide
  · obtain ⟨r, hr, hrel, _⟩ := step_rel _ _ .tick rel_init
    have e : Lcd.step Lcd.init .tick = some (Lcd.tickOn Lcd.init) := by decide +kernel
    rw [e] at hr
    have e2 : demo.cycle.b.m.ppu = (Lcd.tickOn Lcd.init).p := by decide +kernel
    rw [e2]
    exact ⟨_, (Option.some.inj hr) ▸ hrel⟩
  · show 0xfe00 ≤ demo.cycle.b.m.oam.ppuLastAccess.toNat ∧ demo.cycle.b.m.oam.ppuLastAccess.toNat ≤ 0xfe9f
    decide +kernel
  · intro h; exfalso; revert h; decide +kernel

/-- …and therefore never panics on the board, however long it runs -/
example (n : Nat) : (Whole.run n demo.cycle).b.crashed = false :=
  (whole_run_no_crash n demo.cycle (by
    refine ⟨by decide +kernel, ?_, ?_, ⟨?_, ?_⟩, by decide +kernel⟩
    · show (0x8000 : Nat) ≤ 0x8000; decide
    · obtain ⟨r, hr, hrel, _⟩ := step_rel _ _ .tick rel_init
      have e : Lcd.step Lcd.init .tick = some (Lcd.tickOn Lcd.init) := by decide +kernel
      rw [e] at hr
      have e2 : demo.cycle.b.m.ppu = (Lcd.tickOn Lcd.init).p := by decide +kernel
      rw [e2]
      exact ⟨_, (Option.some.inj hr) ▸ hrel⟩
    · show 0xfe00 ≤ demo.cycle.b.m.oam.ppuLastAccess.toNat ∧ demo.cycle.b.m.oam.ppuLastAccess.toNat ≤ 0xfe9f
      decide +kernel
    · intro h; exfalso; revert h; decide +kernel)).2

end Tetro.WholeSafe
