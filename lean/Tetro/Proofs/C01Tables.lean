import Tetro.Spec.IsaSchedule
import Tetro.Gen.Dispatch
/-
C01/C02/C03 – obligation over the REGENERATED dispatch tables: what dispatch.go contains now, resolved
helper by helper, is exactly the documented schedule of the instruction each opcode decodes to.
Re-checked by the kernel on every run (`decide +kernel`: evaluation of the 512 table entries, no axiom
beyond the usual three).  A changed table entry (wrong register, wrong helper, missing idle cycle,
swapped condition, changed early/last cycle) makes this theorem fail.
-/
namespace Tetro.C01
open Tetro.Model.Cpu Tetro.Spec.Isa

theorem c01_tables : Tables.gen = specTables := by decide +kernel

/-- the extractor recognised every statement of Initialize and every slot is assigned exactly once -/
theorem c01_tables_complete :
    Gen.Dispatch.unrecognised = [] ∧ Gen.Dispatch.duplicateAssignments = 0 ∧
    Gen.Dispatch.missingAssignments = 0 := by decide

/-- the tables (and the early-finish tests, which close over the flags of ONE cpu) are fields of the CPU:
    dispatch.go declares no package-level variable, as the model (tables + instruction in flight inside
    `Cpu`) assumes -/
theorem c01_tables_per_cpu : Gen.Dispatch.packageVars = [] := by decide

/-- exactly the 11 documented opcodes (and the CB prefix slot) are undefined -/
theorem c01_undefined :
    (List.range 256).filter (fun op => (decode op).isNone) =
      [0xcb, 0xd3, 0xdb, 0xdd, 0xe3, 0xe4, 0xeb, 0xec, 0xed, 0xf4, 0xfc, 0xfd] := by decide +kernel

end Tetro.C01
