import Tetro.Model.Apu
import Tetro.Spec.Apu
import Tetro.Lemmas.Countdown
import Tetro.Lemmas.ApuGen
import Tetro.Lemmas.Lfsr15Orbit
import Tetro.Lemmas.LfsrModel15
import Tetro.Lemmas.LfsrModel7
/-
C21 – channel waveforms run at the documented frequencies.

Part 1 (periods).  `Lemmas/Countdown.lean` proves the closed form of a reload-countdown generator
for EVERY period P > 0.  Here each channel's `tickTimer` is shown to BE that generator with
P = 4·(2048−f) (squares), 2·(2048−f) (wave), d(r)·2^s (noise) – for every 11-bit f, every r < 8
and every s ≤ 15 (the property asks s ≤ 13) – including the uint16/uint32 wrap-around of the Go
timers (which never happens: the timers stay below the period).  Consequences, for every number
n of clocks: the exact number of waveform steps, the instants of the steps (t+1+k·P, t = timer
value at the start) and "P more clocks = exactly one more step".

Part 2 (noise sequence).  The 16-bit `lfsr` register of the code, from the value 0xffff loaded by
a trigger, is after its first step the documented 15-bit generator started at 0x7fff, whose
minimal period is 32767 (kernel evaluation of the whole orbit); with NR43 bit 3 the low 7 bits are
the documented 7-bit generator with minimal period 127.

Don't-care (DESIGN §8): the FIRST step after a trigger comes one period plus the rest of the
trigger's machine cycle later (timers are not ticked during the machine cycle of the trigger and
the reload is P, not P−1); the theorems speak about pure clocking (`tickTimer` iterated).
-/
namespace Tetro.C21
open Tetro.Model.Apu Tetro.Spec.Apu Tetro.Countdown

/-! ### the phase successors -/

def nextDuty (d : Nat) : Nat := (d + 1) % 8
def nextWave (p : Nat) : Nat := (p + 1) % 32

private theorem iter_nextDuty (k d : Nat) : iter nextDuty k d % 8 = (d + k) % 8 := by
  induction k generalizing d with
  | zero => rfl
  | succ j ih => show iter nextDuty j (nextDuty d) % 8 = _; rw [ih]; unfold nextDuty; omega

private theorem iter_nextWave (k p : Nat) : iter nextWave k p % 32 = (p + k) % 32 := by
  induction k generalizing p with
  | zero => rfl
  | succ j ih => show iter nextWave j (nextWave p) % 32 = _; rw [ih]; unfold nextWave; omega

private theorem iter_nextDuty_lt (k d : Nat) (h : d < 8) : iter nextDuty k d < 8 := by
  induction k generalizing d with
  | zero => exact h
  | succ j ih => exact ih _ (by unfold nextDuty; omega)

private theorem iter_nextWave_lt (k p : Nat) (h : p < 32) : iter nextWave k p < 32 := by
  induction k generalizing p with
  | zero => exact h
  | succ j ih => exact ih _ (by unfold nextWave; omega)

/-! ### n clocks of one channel -/

def sqTicks : Nat → Square → Square
  | 0, s => s
  | n + 1, s => sqTicks n s.tickTimer

def waveTicks : Nat → Wave → Wave
  | 0, w => w
  | n + 1, w => waveTicks n w.tickTimer

def noiseTicks : Nat → Noise → Noise
  | 0, x => x
  | n + 1, x => noiseTicks n x.tickTimer

/-- well-formed square generator state: 11-bit frequency, uint16 timer, duty index in range -/
structure SqOk (s : Square) (f : Nat) : Prop where
  freq : s.frequency = f
  f11 : f < 2048
  timer : s.timer < 65536
  duty : s.dutyIndex < 8

private theorem sq_period (f : Nat) (h : f < 2048) : sqPeriodOf f = squarePeriod f ∧ 0 < squarePeriod f ∧ squarePeriod f ≤ 8192 := by
  unfold sqPeriodOf sub16 squarePeriod; omega

private theorem sq_step {s : Square} {f : Nat} (h : SqOk s f) :
    SqOk s.tickTimer f ∧
    (⟨s.tickTimer.timer, s.tickTimer.dutyIndex⟩ : CD Nat) = step (squarePeriod f) nextDuty ⟨s.timer, s.dutyIndex⟩ := by
  obtain ⟨hp, hpos, hle⟩ := sq_period f h.f11
  have hfr := h.freq; have ht := h.timer; have hd := h.duty
  have hfr' : s.tickTimer.frequency = f := by unfold Square.tickTimer; split <;> exact hfr
  by_cases h0 : s.timer = 0
  · have t1 : s.tickTimer.timer = squarePeriod f - 1 := by
      simp only [Square.tickTimer, if_pos h0, Square.period]; rw [hfr, hp]; unfold dec16; omega
    have d1 : s.tickTimer.dutyIndex = nextDuty s.dutyIndex := by
      simp only [Square.tickTimer, if_pos h0]; unfold inc8 nextDuty; split <;> omega
    refine ⟨⟨hfr', h.f11, by rw [t1]; omega, by rw [d1]; unfold nextDuty; omega⟩, ?_⟩
    rw [t1, d1]; simp only [step, if_pos h0]
  · have t1 : s.tickTimer.timer = s.timer - 1 := by
      simp only [Square.tickTimer, if_neg h0]; unfold dec16; omega
    have d1 : s.tickTimer.dutyIndex = s.dutyIndex := by simp only [Square.tickTimer, if_neg h0]
    refine ⟨⟨hfr', h.f11, by rw [t1]; omega, by rw [d1]; exact hd⟩, ?_⟩
    rw [t1, d1]; simp only [step, if_neg h0]

private theorem sq_sim {f : Nat} (n : Nat) : ∀ {s : Square}, SqOk s f →
    SqOk (sqTicks n s) f ∧
    (⟨(sqTicks n s).timer, (sqTicks n s).dutyIndex⟩ : CD Nat) = run (squarePeriod f) nextDuty n ⟨s.timer, s.dutyIndex⟩ := by
  induction n with
  | zero => intro s h; exact ⟨h, rfl⟩
  | succ k ih =>
    intro s h
    obtain ⟨h1, e1⟩ := sq_step h
    obtain ⟨h2, e2⟩ := ih h1
    refine ⟨h2, ?_⟩
    show _ = run (squarePeriod f) nextDuty k (step (squarePeriod f) nextDuty ⟨s.timer, s.dutyIndex⟩)
    rw [← e1]; exact e2

/-- **C21 (channels 1 and 2).**  For every 11-bit frequency f, every well-formed generator state
    and every n: after n clocks the duty index has advanced by exactly
    `stepsIn (4·(2048−f)) timer n` = (n − timer − 1) / (4·(2048−f)) + 1 steps (0 while n ≤ timer),
    modulo the 8 steps of the waveform, and the timer has the closed-form value. -/
theorem c21_square (f : Nat) (s : Square) (h : SqOk s f) (n : Nat) :
    (sqTicks n s).dutyIndex = (s.dutyIndex + stepsIn (4 * (2048 - f)) s.timer n) % 8 ∧
    (sqTicks n s).timer = (if n ≤ s.timer then s.timer - n else 4 * (2048 - f) - 1 - (n - s.timer - 1) % (4 * (2048 - f))) := by
  obtain ⟨hok, e⟩ := sq_sim n h
  have hpos : 0 < squarePeriod f := (sq_period f h.f11).2.1
  have e1 : (sqTicks n s).dutyIndex = (run (squarePeriod f) nextDuty n ⟨s.timer, s.dutyIndex⟩).phase := by rw [← e]
  have e2 : (sqTicks n s).timer = (run (squarePeriod f) nextDuty n ⟨s.timer, s.dutyIndex⟩).timer := by rw [← e]
  constructor
  · rw [e1, run_phase _ hpos]
    have hlt := iter_nextDuty_lt (stepsIn (squarePeriod f) s.timer n) s.dutyIndex h.duty
    have := iter_nextDuty (stepsIn (squarePeriod f) s.timer n) s.dutyIndex
    rw [Nat.mod_eq_of_lt hlt] at this; exact this
  · rw [e2, run_closed _ hpos]; unfold squarePeriod; split <;> rfl

/-- **C21 (channels 1 and 2, period).**  In steady state (after the first reload) 4·(2048−f) more
    clocks produce exactly one more duty step and bring the timer back to the same value. -/
theorem c21_square_period (f : Nat) (s : Square) (h : SqOk s f) (n : Nat) (hn : s.timer < n) :
    (sqTicks (n + 4 * (2048 - f)) s).dutyIndex = ((sqTicks n s).dutyIndex + 1) % 8 ∧
    (sqTicks (n + 4 * (2048 - f)) s).timer = (sqTicks n s).timer := by
  obtain ⟨_, e⟩ := sq_sim n h
  obtain ⟨_, e'⟩ := sq_sim (n + squarePeriod f) h
  have hpos : 0 < squarePeriod f := (sq_period f h.f11).2.1
  rw [run_period _ hpos _ _ _ _ hn, ← e] at e'
  simp only [CD.mk.injEq] at e'
  exact ⟨e'.2, e'.1⟩

/-- non-vacuity: f = 0x783 (period 500), timer 17, duty index 6; 1018 clocks = steps at 18, 518, 1018 -/
example : SqOk { frequency := 0x783, timer := 17, dutyIndex := 6 } 0x783 ∧
    (sqTicks 1018 { frequency := 0x783, timer := 17, dutyIndex := 6 }).dutyIndex = 1 ∧
    (sqTicks 1017 { frequency := 0x783, timer := 17, dutyIndex := 6 }).dutyIndex = 0 := by
  refine ⟨⟨rfl, by decide, by decide, by decide⟩, ?_, ?_⟩ <;> decide +kernel

/-! channel 3 -/

structure WaveOk (w : Wave) (f : Nat) : Prop where
  freq : w.frequency = f
  f11 : f < 2048
  timer : w.timer < 65536
  pos : w.position < 32
  en : w.enabled = true

private theorem wave_period (f : Nat) (h : f < 2048) : wavePeriodOf f = wavePeriod f ∧ 0 < wavePeriod f ∧ wavePeriod f ≤ 4096 := by
  unfold wavePeriodOf sub16 wavePeriod; omega

private theorem wave_step {w : Wave} {f : Nat} (h : WaveOk w f) :
    WaveOk w.tickTimer f ∧
    (⟨w.tickTimer.timer, w.tickTimer.position⟩ : CD Nat) = step (wavePeriod f) nextWave ⟨w.timer, w.position⟩ := by
  obtain ⟨hp, hpos, hle⟩ := wave_period f h.f11
  have hfr := h.freq; have ht := h.timer; have hd := h.pos; have hen := h.en
  have hne : (!w.enabled) = false := by rw [hen]; rfl
  have hfr' : w.tickTimer.frequency = f := by unfold Wave.tickTimer; repeat' split
                                              all_goals exact hfr
  have hen' : w.tickTimer.enabled = true := by unfold Wave.tickTimer; repeat' split
                                               all_goals exact hen
  by_cases h0 : w.timer = 0
  · have t1 : w.tickTimer.timer = wavePeriod f - 1 := by
      simp only [Wave.tickTimer, hne, Bool.false_eq_true, if_false, if_pos h0, Wave.period]; rw [hfr, hp]; unfold dec16; omega
    have d1 : w.tickTimer.position = nextWave w.position := by
      simp only [Wave.tickTimer, hne, Bool.false_eq_true, if_false, if_pos h0]; unfold Wave.nextPos inc8 nextWave; split <;> omega
    refine ⟨⟨hfr', h.f11, by rw [t1]; omega, by rw [d1]; unfold nextWave; omega, hen'⟩, ?_⟩
    rw [t1, d1]; simp only [step, if_pos h0]
  · have t1 : w.tickTimer.timer = w.timer - 1 := by
      simp only [Wave.tickTimer, hne, Bool.false_eq_true, if_false, if_neg h0]; unfold dec16; omega
    have d1 : w.tickTimer.position = w.position := by
      simp only [Wave.tickTimer, hne, Bool.false_eq_true, if_false, if_neg h0]
    refine ⟨⟨hfr', h.f11, by rw [t1]; omega, by rw [d1]; exact hd, hen'⟩, ?_⟩
    rw [t1, d1]; simp only [step, if_neg h0]

private theorem wave_sim {f : Nat} (n : Nat) : ∀ {w : Wave}, WaveOk w f →
    WaveOk (waveTicks n w) f ∧
    (⟨(waveTicks n w).timer, (waveTicks n w).position⟩ : CD Nat) = run (wavePeriod f) nextWave n ⟨w.timer, w.position⟩ := by
  induction n with
  | zero => intro w h; exact ⟨h, rfl⟩
  | succ k ih =>
    intro w h
    obtain ⟨h1, e1⟩ := wave_step h
    obtain ⟨h2, e2⟩ := ih h1
    refine ⟨h2, ?_⟩
    show _ = run (wavePeriod f) nextWave k (step (wavePeriod f) nextWave ⟨w.timer, w.position⟩)
    rw [← e1]; exact e2

/-- **C21 (channel 3).**  For every 11-bit frequency f, while the channel is on: after n clocks the
    wave position has advanced by exactly `stepsIn (2·(2048−f)) timer n` samples modulo 32. -/
theorem c21_wave (f : Nat) (w : Wave) (h : WaveOk w f) (n : Nat) :
    (waveTicks n w).position = (w.position + stepsIn (2 * (2048 - f)) w.timer n) % 32 ∧
    (waveTicks n w).timer = (if n ≤ w.timer then w.timer - n else 2 * (2048 - f) - 1 - (n - w.timer - 1) % (2 * (2048 - f))) := by
  obtain ⟨hok, e⟩ := wave_sim n h
  have hpos : 0 < wavePeriod f := (wave_period f h.f11).2.1
  have e1 : (waveTicks n w).position = (run (wavePeriod f) nextWave n ⟨w.timer, w.position⟩).phase := by rw [← e]
  have e2 : (waveTicks n w).timer = (run (wavePeriod f) nextWave n ⟨w.timer, w.position⟩).timer := by rw [← e]
  constructor
  · rw [e1, run_phase _ hpos]
    have hlt := iter_nextWave_lt (stepsIn (wavePeriod f) w.timer n) w.position h.pos
    have := iter_nextWave (stepsIn (wavePeriod f) w.timer n) w.position
    rw [Nat.mod_eq_of_lt hlt] at this; exact this
  · rw [e2, run_closed _ hpos]; unfold wavePeriod; split <;> rfl

/-- **C21 (channel 3, period).** -/
theorem c21_wave_period (f : Nat) (w : Wave) (h : WaveOk w f) (n : Nat) (hn : w.timer < n) :
    (waveTicks (n + 2 * (2048 - f)) w).position = ((waveTicks n w).position + 1) % 32 ∧
    (waveTicks (n + 2 * (2048 - f)) w).timer = (waveTicks n w).timer := by
  obtain ⟨_, e⟩ := wave_sim n h
  obtain ⟨_, e'⟩ := wave_sim (n + wavePeriod f) h
  have hpos : 0 < wavePeriod f := (wave_period f h.f11).2.1
  rw [run_period _ hpos _ _ _ _ hn, ← e] at e'
  simp only [CD.mk.injEq] at e'
  exact ⟨e'.2, e'.1⟩

/-- non-vacuity: f = 0x7ff (period 2), the fastest wave: 64 clocks = one full turn of 32 samples -/
example : WaveOk { frequency := 0x7ff, timer := 1, position := 5, enabled := true } 0x7ff ∧
    (waveTicks 64 { frequency := 0x7ff, timer := 1, position := 5, enabled := true }).position = 5 ∧
    (waveTicks 3 { frequency := 0x7ff, timer := 1, position := 5, enabled := true }).position = 6 := by
  refine ⟨⟨rfl, by decide, by decide, by decide, rfl⟩, ?_, ?_⟩ <;> decide +kernel

/-! channel 4 -/

structure NoiseOk (x : Noise) (r sh : Nat) : Prop where
  div : x.divisor = r
  shift : x.shift = sh
  r8 : r < 8
  s16 : sh < 16
  timer : x.timer < 4294967296

/-- the code's `period()` is the documented d(r)·2^s for every NR43 value (uint32, no overflow) -/
theorem c21_noise_period_formula : ∀ r, r < 8 → ∀ sh, sh < 16 →
    noisePeriodOf r sh = noisePeriod r sh ∧ 0 < noisePeriod r sh ∧ noisePeriod r sh < 4294967296 := by
  decide +kernel

private theorem noise_step {x : Noise} {r sh : Nat} (h : NoiseOk x r sh) :
    NoiseOk x.tickTimer r sh ∧ x.tickTimer.lfsrWidth = x.lfsrWidth ∧
    (⟨x.tickTimer.timer, x.tickTimer.lfsr⟩ : CD Nat) = step (noisePeriod r sh) (lfsrStep x.lfsrWidth) ⟨x.timer, x.lfsr⟩ := by
  obtain ⟨hp, hpos, hle⟩ := c21_noise_period_formula r h.r8 sh h.s16
  have hd := h.div; have hs := h.shift; have ht := h.timer
  have hd' : x.tickTimer.divisor = r := by unfold Noise.tickTimer; split <;> exact hd
  have hs' : x.tickTimer.shift = sh := by unfold Noise.tickTimer; split <;> exact hs
  have hw' : x.tickTimer.lfsrWidth = x.lfsrWidth := by unfold Noise.tickTimer; split <;> rfl
  by_cases h0 : x.timer = 0
  · have t1 : x.tickTimer.timer = noisePeriod r sh - 1 := by
      simp only [Noise.tickTimer, if_pos h0, Noise.period]; rw [hd, hs, hp]; unfold dec32; omega
    have d1 : x.tickTimer.lfsr = lfsrStep x.lfsrWidth x.lfsr := by simp only [Noise.tickTimer, if_pos h0]
    refine ⟨⟨hd', hs', h.r8, h.s16, by rw [t1]; omega⟩, hw', ?_⟩
    rw [t1, d1]; simp only [step, if_pos h0]
  · have t1 : x.tickTimer.timer = x.timer - 1 := by
      simp only [Noise.tickTimer, if_neg h0]; unfold dec32; omega
    have d1 : x.tickTimer.lfsr = x.lfsr := by simp only [Noise.tickTimer, if_neg h0]
    refine ⟨⟨hd', hs', h.r8, h.s16, by rw [t1]; omega⟩, hw', ?_⟩
    rw [t1, d1]; simp only [step, if_neg h0]

private theorem noise_sim {r sh : Nat} (n : Nat) : ∀ {x : Noise}, NoiseOk x r sh →
    NoiseOk (noiseTicks n x) r sh ∧
    (⟨(noiseTicks n x).timer, (noiseTicks n x).lfsr⟩ : CD Nat) = run (noisePeriod r sh) (lfsrStep x.lfsrWidth) n ⟨x.timer, x.lfsr⟩ := by
  induction n with
  | zero => intro x h; exact ⟨h, rfl⟩
  | succ k ih =>
    intro x h
    obtain ⟨h1, hw, e1⟩ := noise_step h
    obtain ⟨h2, e2⟩ := ih h1
    refine ⟨h2, ?_⟩
    show _ = run (noisePeriod r sh) (lfsrStep x.lfsrWidth) k (step (noisePeriod r sh) (lfsrStep x.lfsrWidth) ⟨x.timer, x.lfsr⟩)
    rw [← e1, ← hw]; exact e2

/-- **C21 (channel 4).**  For every divisor code r < 8 and shift s < 16 (the property: s ≤ 13): after
    n clocks the noise generator has been clocked exactly `stepsIn (d(r)·2^s) timer n` times. -/
theorem c21_noise (r sh : Nat) (x : Noise) (h : NoiseOk x r sh) (n : Nat) :
    (noiseTicks n x).lfsr = iter (lfsrStep x.lfsrWidth) (stepsIn (noiseDivisor r * 2 ^ sh) x.timer n) x.lfsr ∧
    (noiseTicks n x).timer =
      (if n ≤ x.timer then x.timer - n else noiseDivisor r * 2 ^ sh - 1 - (n - x.timer - 1) % (noiseDivisor r * 2 ^ sh)) := by
  obtain ⟨hok, e⟩ := noise_sim n h
  have hpos : 0 < noisePeriod r sh := (c21_noise_period_formula r h.r8 sh h.s16).2.1
  have e1 : (noiseTicks n x).lfsr = (run (noisePeriod r sh) (lfsrStep x.lfsrWidth) n ⟨x.timer, x.lfsr⟩).phase := by rw [← e]
  have e2 : (noiseTicks n x).timer = (run (noisePeriod r sh) (lfsrStep x.lfsrWidth) n ⟨x.timer, x.lfsr⟩).timer := by rw [← e]
  constructor
  · rw [e1, run_phase _ hpos]; rfl
  · rw [e2, run_closed _ hpos]; unfold noisePeriod; split <;> rfl

/-- **C21 (channel 4, period).** -/
theorem c21_noise_period (r sh : Nat) (x : Noise) (h : NoiseOk x r sh) (n : Nat) (hn : x.timer < n) :
    (noiseTicks (n + noiseDivisor r * 2 ^ sh) x).lfsr = lfsrStep x.lfsrWidth (noiseTicks n x).lfsr ∧
    (noiseTicks (n + noiseDivisor r * 2 ^ sh) x).timer = (noiseTicks n x).timer := by
  obtain ⟨_, e⟩ := noise_sim n h
  obtain ⟨_, e'⟩ := noise_sim (n + noisePeriod r sh) h
  have hpos : 0 < noisePeriod r sh := (c21_noise_period_formula r h.r8 sh h.s16).2.1
  rw [run_period _ hpos _ _ _ _ hn, ← e] at e'
  simp only [CD.mk.injEq] at e'
  exact ⟨e'.2, e'.1⟩

/-- the divisor table of the property text -/
example : (List.range 8).map noiseDivisor = [8, 16, 32, 48, 64, 80, 96, 112] := by decide

/-- non-vacuity: NR43 = 0x21 (r = 1, s = 2: period 64 – the value the unfixed code got wrong) -/
example : NoiseOk { divisor := 1, shift := 2, timer := 0, lfsr := 0x7fff } 1 2 ∧
    (noiseTicks 65 { divisor := 1, shift := 2, timer := 0, lfsr := 0x7fff }).lfsr = lfsrStep 0 (lfsrStep 0 0x7fff) ∧
    (noiseTicks 64 { divisor := 1, shift := 2, timer := 0, lfsr := 0x7fff }).lfsr = lfsrStep 0 0x7fff := by
  refine ⟨⟨rfl, rfl, by decide, by decide, by decide⟩, ?_, ?_⟩ <;> decide +kernel


/-! ### lifted to `Audio.tickClock` (channels 2 and 4)

Inside the whole APU clock – frame sequencer, length counters, envelopes, sampler running along –
the waveform generators of channels 2 and 4 advance exactly as their own `tickTimer` iterated, as
long as no register is written (and the channel was not triggered in the current machine cycle).
Channels 1 (the sweep unit rewrites the frequency) and 3 (the generator stops when the length
counter switches the channel off) are covered at this level by the correspondence only. -/

private theorem sqTicks_gen_congr (n : Nat) : ∀ s t : Square, s.gen = t.gen → (sqTicks n s).gen = (sqTicks n t).gen := by
  induction n with
  | zero => intro s t h; exact h
  | succ k ih => intro s t h; exact ih _ _ (Square.gen_tickTimer_congr s t h)

private theorem noiseTicks_gen_congr (n : Nat) : ∀ s t : Noise, s.gen = t.gen → (noiseTicks n s).gen = (noiseTicks n t).gen := by
  induction n with
  | zero => intro s t h; exact h
  | succ k ih => intro s t h; exact ih _ _ (Noise.gen_tickTimer_congr s t h)

private theorem clocks_gens (n : Nat) : ∀ a : Apu, a.ch2.triggered = false → a.ch4.triggered = false →
    (Apu.clocks n a).ch2.gen = (sqTicks n a.ch2).gen ∧ (Apu.clocks n a).ch4.gen = (noiseTicks n a.ch4).gen := by
  induction n with
  | zero => intro a _ _; exact ⟨rfl, rfl⟩
  | succ k ih =>
    intro a h2 h4
    have hg := Apu.gens_tickClock a
    simp only [Apu.gens, Prod.mk.injEq, h2, h4, Bool.not_false, if_true] at hg
    obtain ⟨g2, g4⟩ := hg
    have t2 : a.tickClock.ch2.triggered = false := by
      have := congrArg (fun x => x.2.2.2) g2
      simp only [Square.gen] at this
      rw [this, Square.triggered_tickTimer]; exact h2
    have t4 : a.tickClock.ch4.triggered = false := by
      have := congrArg (fun x => x.2.2.2.2.2) g4
      simp only [Noise.gen] at this
      rw [this, Noise.triggered_tickTimer]; exact h4
    obtain ⟨i2, i4⟩ := ih a.tickClock t2 t4
    show (Apu.clocks k a.tickClock).ch2.gen = (sqTicks k a.ch2.tickTimer).gen ∧
         (Apu.clocks k a.tickClock).ch4.gen = (noiseTicks k a.ch4.tickTimer).gen
    exact ⟨i2.trans (sqTicks_gen_congr k _ _ g2), i4.trans (noiseTicks_gen_congr k _ _ g4)⟩

/-- **C21 (channel 2 inside the APU clock).**  After n clocks of the whole APU without register
    writes, channel 2's duty index has advanced by exactly `stepsIn (4·(2048−f)) timer n` steps. -/
theorem c21_apu_square2 (a : Apu) (f : Nat) (h : SqOk a.ch2 f) (h2 : a.ch2.triggered = false) (h4 : a.ch4.triggered = false)
    (n : Nat) : (Apu.clocks n a).ch2.dutyIndex = (a.ch2.dutyIndex + stepsIn (4 * (2048 - f)) a.ch2.timer n) % 8 := by
  have hg := (clocks_gens n a h2 h4).1
  have := congrArg (fun x => x.2.1) hg
  simp only [Square.gen] at this
  rw [this]; exact (c21_square f a.ch2 h n).1

/-- **C21 (channel 4 inside the APU clock).**  After n clocks of the whole APU without register
    writes, the noise generator has been clocked exactly `stepsIn (d(r)·2^s) timer n` times. -/
theorem c21_apu_noise (a : Apu) (r sh : Nat) (h : NoiseOk a.ch4 r sh) (h2 : a.ch2.triggered = false) (h4 : a.ch4.triggered = false)
    (n : Nat) : (Apu.clocks n a).ch4.lfsr =
      iter (lfsrStep a.ch4.lfsrWidth) (stepsIn (noiseDivisor r * 2 ^ sh) a.ch4.timer n) a.ch4.lfsr := by
  have hg := (clocks_gens n a h2 h4).2
  have := congrArg (fun x => x.2.1) hg
  simp only [Noise.gen] at this
  rw [this]; exact (c21_noise r sh a.ch4 h n).1

/-- non-vacuity: a reachable state – New, NR22 := F0, NR23 := 83, NR24 := 87 (trigger, f = 0x783), one
    machine cycle – satisfies the hypotheses of `c21_apu_square2` -/
example : SqOk ((Apu.new true true).run [.write 0xFF17 0xF0, .write 0xFF18 0x83, .write 0xFF19 0x87, .cycle]).ch2 0x783 ∧
    ((Apu.new true true).run [.write 0xFF17 0xF0, .write 0xFF18 0x83, .write 0xFF19 0x87, .cycle]).ch2.triggered = false ∧
    ((Apu.new true true).run [.write 0xFF17 0xF0, .write 0xFF18 0x83, .write 0xFF19 0x87, .cycle]).ch4.triggered = false := by
  refine ⟨⟨?_, ?_, ?_, ?_⟩, ?_, ?_⟩ <;> decide +kernel

/-! ### Part 2: the noise sequence -/

/-- **C21 (15-bit noise).**  The documented 15-bit generator started at 0x7fff returns to 0x7fff after
    exactly 32767 steps and not earlier: the maximal sequence (all 2^15 − 1 non-zero states). -/
theorem c21_lfsr15 : MinimalPeriod lfsr15 0x7fff 32767 := lfsr15_minimal

/-- **C21 (7-bit noise).**  The documented 7-bit generator started at 0x7f has minimal period 127. -/
theorem c21_lfsr7 : MinimalPeriod lfsr7 0x7f 127 := lfsr7_minimal

/-- the code's 16-bit register step, on a register with bit 15 clear, is the documented 15-bit
    generator; the value 0xffff loaded by a trigger becomes 0x7fff with the first clock -/
theorem c21_lfsr_model15 : (∀ l, l < 32768 → lfsrStep 0 l = lfsr15 l ∧ lfsr15 l < 32768) ∧ lfsrStep 0 0xffff = 0x7fff :=
  lfsr_model15

/-- in 7-bit mode the low 7 bits of the code's register (bit 0 is the output) are the documented
    7-bit generator, whatever the upper bits are (bit 15 is clear from the first clock after a
    trigger on, in either mode) -/
theorem c21_lfsr_model7 : (∀ l, l < 32768 → lfsrStep 1 l % 128 = lfsr7 (l % 128) ∧ lfsrStep 1 l < 32768) ∧
    (lfsrStep 1 0xffff % 128 = lfsr7 (0xffff % 128) ∧ lfsrStep 1 0xffff < 32768) := lfsr_model7

private theorem iter_model15 (k : Nat) : ∀ l, l < 32768 → iter (lfsrStep 0) k l = iter lfsr15 k l := by
  induction k with
  | zero => intro l _; rfl
  | succ j ih =>
    intro l hl
    obtain ⟨e, hlt⟩ := c21_lfsr_model15.1 l hl
    show iter (lfsrStep 0) j (lfsrStep 0 l) = iter lfsr15 j (lfsr15 l)
    rw [e]; exact ih _ hlt

private theorem iter_model7 (k : Nat) : ∀ l, l < 32768 → iter (lfsrStep 1) k l % 128 = iter lfsr7 k (l % 128) := by
  induction k with
  | zero => intro l _; rfl
  | succ j ih =>
    intro l hl
    obtain ⟨e, hlt⟩ := c21_lfsr_model7.1 l hl
    show iter (lfsrStep 1) j (lfsrStep 1 l) % 128 = iter lfsr7 j (lfsr7 (l % 128))
    rw [ih _ hlt, e]

private theorem iter_model7_trig (k : Nat) : iter (lfsrStep 1) k 0xffff % 128 = iter lfsr7 k 0x7f := by
  cases k with
  | zero => rfl
  | succ j =>
    show iter (lfsrStep 1) j (lfsrStep 1 0xffff) % 128 = iter lfsr7 j (lfsr7 0x7f)
    rw [iter_model7 _ _ c21_lfsr_model7.2.2, c21_lfsr_model7.2.1]

/-- **C21 (noise sequence of the code).**  After a trigger (register = 0xffff) the code's register is
    0x7fff after 1 step, again after 1 + 32767 steps and at no step in between; with NR43 bit 3 the
    low 7 bits are 0x7f after 127 steps and at no step 0 < k < 127. -/
theorem c21_lfsr_code :
    (iter (lfsrStep 0) 1 0xffff = 0x7fff ∧ iter (lfsrStep 0) (1 + 32767) 0xffff = 0x7fff ∧
      ∀ k, 0 < k → k < 32767 → iter (lfsrStep 0) (1 + k) 0xffff ≠ 0x7fff) ∧
    (iter (lfsrStep 1) 127 0xffff % 128 = 0x7f ∧ ∀ k, 0 < k → k < 127 → iter (lfsrStep 1) k 0xffff % 128 ≠ 0x7f) := by
  obtain ⟨_, h15, hmin15⟩ := c21_lfsr15
  obtain ⟨_, h7, hmin7⟩ := c21_lfsr7
  have hfirst : iter (lfsrStep 0) 1 0xffff = 0x7fff := c21_lfsr_model15.2
  refine ⟨⟨hfirst, ?_, fun k hk hkp => ?_⟩, ?_, fun k hk hkp => ?_⟩
  · rw [iter_add, hfirst, iter_model15 _ _ (by decide)]; exact h15
  · rw [iter_add, hfirst, iter_model15 _ _ (by decide)]; exact hmin15 k hk hkp
  · rw [iter_model7_trig]; exact h7
  · rw [iter_model7_trig]; exact hmin7 k hk hkp

end Tetro.C21
