import Tetro.Gen.Globals
/-
C24 – emulation is deterministic.  (partial)

The machine model is a pure function of (ROM, configuration, input schedule, number of frames), so the
model's determinism is `rfl`; the content of the property is that the CODE has no hidden inputs.  The facts
below are regenerated from the source on every run: the emulation packages import no clock, random-number,
synchronisation, reflection or unsafe package; the only concurrency constructs are the context check in Run
and the (blocking, order-preserving) sample channel send; the only map iteration runs in an `init` that
writes distinct slots; no package-level variable is mutated after init.  The `multi` correspondence repeats
every configuration in-process and in a fresh process.  Goroutine scheduling, GC and wall-clock time are
outside the model.
-/
namespace Tetro.C24

def forbiddenImport (s : String) : Bool :=
  [":time", ":math/rand", ":crypto/rand", ":sync", ":sync/atomic", ":unsafe", ":reflect", ":runtime", ":os/signal", ":net", ":os/exec"].any
    fun suf => s.endsWith suf

/-- none of the emulation packages imports a source of nondeterminism -/
theorem c24_no_nondeterministic_imports : Gen.Globals.imports.filter forbiddenImport = [] := by decide +kernel

def expectedConcurrencyAndRanges : List String := [
  "audio.takeSample: channel send",
  "cpu.initInstructionArray: range over instructionMap",
  "gameboy.Run: channel receive",
  "gameboy.Run: select",
  "memory.DumpRAM: range over m.ram",
  "ppu.renderPixel: range over ppu.spriteOverlaps"
]

/-- every go statement, select, channel operation and range loop of the emulation packages is one of the
    six known, order-insensitive sites -/
theorem c24_concurrency_sites : Gen.Globals.concurrencyAndRanges = expectedConcurrencyAndRanges := by decide

/-- no mutable package-level state survives from one run to the next -/
theorem c24_no_mutable_globals : Gen.Globals.mutableGlobals = [] := by decide

/-! the emulation as a function: frames compose -/
variable {σ ι : Type}

/-- running frames with an input schedule (`inp k` = the inputs applied before frame k) -/
def runFrames (frame : ι → σ → σ) (inp : Nat → ι) : Nat → Nat → σ → σ
  | 0, _, s => s
  | n + 1, k, s => runFrames frame inp n (k + 1) (frame (inp k) s)

/-- running n+m frames is running n and then m: there is no state outside σ -/
theorem c24_compose (frame : ι → σ → σ) (inp : Nat → ι) (n m k : Nat) (s : σ) :
    runFrames frame inp (n + m) k s = runFrames frame inp m (k + n) (runFrames frame inp n k s) := by
  induction n generalizing k s with
  | zero => simp [runFrames]
  | succ j ih =>
    rw [show j + 1 + m = (j + m) + 1 by omega, runFrames, runFrames, ih]
    congr 1; omega

/-- equal inputs give equal outputs (stated so that the audit lists it): the outputs of a run are a function
    of the initial state (ROM, configuration) and the input schedule only -/
theorem c24_function_of_inputs_from (frame : ι → σ → σ) (inp inp' : Nat → ι) (n : Nat) :
    ∀ (k : Nat) (s : σ), (∀ j, k ≤ j → j < k + n → inp j = inp' j) →
      runFrames frame inp n k s = runFrames frame inp' n k s := by
  induction n with
  | zero => intro k s _; rfl
  | succ m ih =>
    intro k s hh
    rw [runFrames, runFrames, hh k (by omega) (by omega)]
    exact ih (k + 1) _ (by intro j h1 h2; exact hh j (by omega) (by omega))

theorem c24_function_of_inputs (frame : ι → σ → σ) (inp inp' : Nat → ι) (n : Nat) (s : σ)
    (h : ∀ k, k < n → inp k = inp' k) : runFrames frame inp n 0 s = runFrames frame inp' n 0 s :=
  c24_function_of_inputs_from frame inp inp' n 0 s (by intro j _ hj; exact h j (by omega))

end Tetro.C24
