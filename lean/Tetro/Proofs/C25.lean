import Tetro.Gen.Globals
import Tetro.Gen.FrameLoop
import Tetro.Gen.Dispatch
/-
C25 – emulator instances in one process are independent.  (partial)

Lean values do not alias, so independence of instances is true of any functional model by construction;
the place where the CODE can break it is shared mutable package-level state (and shared components handed to
two instances).  Those facts are regenerated from the source on every run and the obligations below are
re-checked: no package-level variable is written outside `init`, and `New` creates every component afresh.
The `multi` correspondence runs pairs of real instances interleaved and concurrently against solo runs.
The Go memory model, the scheduler and GC are not modelled.
-/
namespace Tetro.C25

/-- no package-level variable of an emulator package is written (or has its address taken) outside init -/
theorem c25_no_shared_state : Gen.Globals.mutableGlobals = [] := by decide

/-- the package-level variables that exist are the known read-only tables -/
def expectedPackageVars : List String := [
  "audio.waveduty",
  "cpu.bits",
  "cpu.instructionMetadata",
  "cpu.metadataJSON",
  "cpu.prefixedInstructionMetadata",
  "memory.bios",
  "ppu.blue",
  "ppu.green",
  "ppu.grey",
  "ppu.patterns",
  "timer.counterBitMasks"
]
theorem c25_package_vars : Gen.Globals.packageVars = expectedPackageVars := by decide

/-- dispatch.go declares no package-level variable (the tables are fields of CPU) -/
theorem c25_dispatch_tables_per_cpu : Gen.Dispatch.packageVars = [] := by decide

/-- `gameboy.New` and `memory.New` build every component afresh and wire them as expected -/
def expectedGameboyNew : String := "func New(config Config) *Gameboy { i := interrupts.New() oam := oam.New() var a *audio.Audio var s *speakers.Speakers if !config.DisableAudioOutput { s = speakers.New() a = audio.New(s.Left(), s.Right()) } else { a = audio.New(nil, nil) } ppu := ppu.New(i, oam, config.DebugLCD) serial := serial.New(config.SerialWriter) timer := timer.New() rom := readRomFile(config.RomFilename) controller := controller.New() mapper := memory.New(rom, i, oam, ppu, controller, serial, timer, a) c := cpu.New(i, oam, config.DebugCPU, mapper) c.Initialize() var d *display.Display if !config.DisableVideoOutput { d = display.New(controller, c.OnInput, config.DebugLCD) } return &Gameboy{ audio: a, config: config, controller: controller, cpu: c, display: d, interrupts: i, ppu: ppu, mapper: mapper, speakers: s, timer: timer, } }"
def expectedMapperNew : String := "func New(rom []byte, interrupts *interrupts.Interrupts, oam *oam.OAM, ppu *ppu.PPU, controller *controller.Controller, serial *serial.Serial, timer *timer.Timer, audio *audio.Audio) *Mapper { rtc := newRTC() mbc := newMBC(rom, rtc) return &Mapper{ mbc: mbc, rtc: rtc, oam: oam, interrupts: interrupts, ppu: ppu, controller: controller, serial: serial, timer: timer, audio: audio, } }"
theorem c25_fresh_components :
    Gen.FrameLoop.gameboyNew = expectedGameboyNew ∧ Gen.FrameLoop.mapperNew = expectedMapperNew := ⟨rfl, rfl⟩

/-! ### the world model: a family of instances, each stepped by its own pure function -/

variable {σ : Type}

/-- stepping instance `i` of a world with step function `f` -/
def stepAt (f : σ → σ) (i : Nat) (w : Nat → σ) : Nat → σ := fun j => if j = i then f (w j) else w j

/-- running a schedule (the list of instance numbers stepped, in order) -/
def runSchedule (f : Nat → σ → σ) : List Nat → (Nat → σ) → (Nat → σ)
  | [], w => w
  | i :: is, w => runSchedule f is (stepAt (f i) i w)

/-- stepping one instance never changes another -/
theorem c25_frame (f : σ → σ) (i j : Nat) (h : j ≠ i) (w : Nat → σ) : stepAt f i w j = w j := by
  simp [stepAt, h]

/-- and the stepped instance behaves exactly as if it were alone -/
theorem c25_solo_step (f : σ → σ) (i : Nat) (w : Nat → σ) : stepAt f i w i = f (w i) := by
  simp [stepAt]

/-- for every interleaving, instance i ends in the state it reaches alone after as many steps as the
    schedule gave it -/
def iter (g : σ → σ) : Nat → σ → σ
  | 0, s => s
  | n + 1, s => iter g n (g s)

theorem c25_any_interleaving (f : Nat → σ → σ) (sched : List Nat) (w : Nat → σ) (i : Nat) :
    runSchedule f sched w i = iter (f i) (sched.count i) (w i) := by
  induction sched generalizing w with
  | nil => rfl
  | cons k ks ih =>
    rw [runSchedule, ih]
    by_cases h : k = i
    · subst h; simp [stepAt, List.count_cons_self, iter]
    · have : i ≠ k := fun e => h e.symm
      simp [stepAt, this, List.count_cons, h]

example : runSchedule (fun _ (n : Nat) => n + 1) [0, 1, 0, 0, 1] (fun _ => 10) 0 = 13 := by decide

end Tetro.C25
