import Tetro.Proofs.C06Decode
import Tetro.Gen.FrameLoop
/-
C23 – serial output delivers each written byte once, in order.
-/
namespace Tetro.C23
open Tetro.Model.Decoder Tetro.Model.Serial Tetro.Spec.MemMap

/-- the bytes a history of bus writes sends to SB, in order (the specification) -/
def sbWrites (ws : List (Nat × BitVec 8)) : List (BitVec 8) := (ws.filter (·.1 = 0xff01)).map (·.2)

def runWrites (arms : List Arm) (s : Serial) (ws : List (Nat × BitVec 8)) : Serial :=
  ws.foldl (fun s w => busWrite arms s w.1 w.2) s

private theorem sb_iff (a : Nat) (h : a < 65536) : route expectedWriteArms a = .sb ↔ a = 0xff01 := by
  have := Tetro.C06.c23_sb_only (a / 256) (by omega) (a % 256) (by omega)
  rwa [show a / 256 * 256 + a % 256 = a by omega] at this

/-- C23 (main): for every history of bus writes (any 16-bit address, any value) with a writer configured,
    the writer has received exactly the bytes written to SB, once each and in write order; nothing else -/
theorem c23_log (ws : List (Nat × BitVec 8)) (hw : ∀ w ∈ ws, w.1 < 65536) (s : Serial) (hs : s.writer = true) :
    (runWrites expectedWriteArms s ws).log = s.log ++ sbWrites ws := by
  induction ws generalizing s with
  | nil => simp [runWrites, sbWrites]
  | cons w ws ih =>
    have hw1 : w.1 < 65536 := hw w (by simp)
    have hrest : ∀ x ∈ ws, x.1 < 65536 := fun x hx => hw x (by simp [hx])
    simp only [runWrites, List.foldl_cons] at *
    by_cases h : w.1 = 0xff01
    · have hr : route expectedWriteArms w.1 = .sb := (sb_iff w.1 hw1).mpr h
      have e : busWrite expectedWriteArms s w.1 w.2 = { s with log := s.log ++ [w.2] } := by
        simp [busWrite, hr, writeSB, hs]
      rw [e, ih hrest { s with log := s.log ++ [w.2] } hs]
      simp [sbWrites, h, List.filter_cons]
    · have hr : route expectedWriteArms w.1 ≠ .sb := fun hh => h ((sb_iff w.1 hw1).mp hh)
      have e : busWrite expectedWriteArms s w.1 w.2 = s := by simp [busWrite, hr]
      rw [e, ih hrest s hs]
      simp [sbWrites, h, List.filter_cons]

/-- with no writer configured SB writes are dropped without effect -/
theorem c23_nil_writer (ws : List (Nat × BitVec 8)) (s : Serial) (hs : s.writer = false) :
    runWrites expectedWriteArms s ws = s := by
  induction ws with
  | nil => rfl
  | cons w ws ih =>
    simp only [runWrites, List.foldl_cons] at *
    have e : busWrite expectedWriteArms s w.1 w.2 = s := by
      unfold busWrite writeSB; split <;> simp [hs]
    rw [e]; exact ih

/-- SB and SC are routed to the serial unit and read FF -/
theorem c23_reads_ff (s : Serial) :
    route expectedReadArms 0xff01 = .sb ∧ route expectedReadArms 0xff02 = .sc ∧ readSB s = 0xff ∧ readSC s = 0xff := by
  refine ⟨by decide +kernel, by decide +kernel, rfl, rfl⟩

/-- the configured writer is the one handed to the serial unit: `New` builds it with
    `serial.New(config.SerialWriter)` and passes that unit to `memory.New` (source text of New as expected) -/
def expectedGameboyNew : String := "func New(config Config) *Gameboy { i := interrupts.New() oam := oam.New() var a *audio.Audio var s *speakers.Speakers if !config.DisableAudioOutput { s = speakers.New() a = audio.New(s.Left(), s.Right()) } else { a = audio.New(nil, nil) } ppu := ppu.New(i, oam, config.DebugLCD) serial := serial.New(config.SerialWriter) timer := timer.New() rom := readRomFile(config.RomFilename) controller := controller.New() mapper := memory.New(rom, i, oam, ppu, controller, serial, timer, a) c := cpu.New(i, oam, config.DebugCPU, mapper) c.Initialize() var d *display.Display if !config.DisableVideoOutput { d = display.New(controller, c.OnInput, config.DebugLCD) } return &Gameboy{ audio: a, config: config, controller: controller, cpu: c, display: d, interrupts: i, ppu: ppu, mapper: mapper, speakers: s, timer: timer, } }"
theorem c23_wiring : Gen.FrameLoop.gameboyNew = expectedGameboyNew := by rfl

example : (runWrites expectedWriteArms (init true) [(0xff01, 0x41), (0xc000, 0x99), (0xff02, 0x81), (0xff01, 0x42)]).log
    = [0x41, 0x42] := by decide +kernel

end Tetro.C23
