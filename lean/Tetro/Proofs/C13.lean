import Tetro.Lemmas.Lcd
/-
C13 – LCD line and mode timing follow the frame schedule.

The code model (`Model.Lcd`: tick counter, mode machine, first-line flag, enable/disable) refines
the closed form of `Spec.Lcd` for EVERY schedule of machine cycles and register writes
(LCDC on/off at arbitrary cycles, STAT, LYC and LY writes), by the simulation relation
`LcdLemmas.Rel` and induction over the schedule.  The remaining theorems unfold what the closed
form says (line lengths, mode windows, frame period) so that the specification itself is checked
against the property text.

LY between a write to FF44 and the end of that machine cycle is a documented don't-care
(DESIGN §8): for such points the theorem states only that LY reads 0, independently of the
written value.
-/
namespace Tetro.C13
open Tetro.Model.Lcd Tetro.Spec.Lcd Tetro.LcdLemmas

/-- no write to FF44 since the last machine cycle -/
def lyFresh (ops : List Op) : Bool :=
  ops.foldl (fun f op => match op with
    | .tick => true
    | .wLY _ => false
    | _ => f) true

private theorem specRun_fresh (ops : List Op) (s : St) :
    (!(specRun s ops).lyWritten) = ops.foldl (fun f op => match op with
      | .tick => true
      | .wLY _ => false
      | _ => f) (!s.lyWritten) := by
  induction ops generalizing s with
  | nil => rfl
  | cons op ops ih =>
    simp only [specRun, List.foldl_cons] at ih ⊢
    rw [ih]; cases op <;> rfl

private theorem readSTAT_mod4 (p : Ppu) (h : p.mode < 4) : readSTAT p % 4 = p.mode := by
  unfold readSTAT; repeat' split
  all_goals omega

private theorem view_of_rel (s : St) (p : Ppu) (h : Rel s p) :
    readSTAT p % 4 = (view s.since).mode ∧
    (s.lyWritten = false → readLY p = (view s.since).ly) ∧
    (readLY p = (view s.since).ly ∨ readLY p = 0) := by
  rcases s with ⟨since, stat, lyc, lw⟩
  unfold Rel at h
  obtain ⟨_, _, _, _, _, h⟩ := h
  cases since with
  | none =>
    obtain ⟨_, _, hm, hly, _⟩ := h
    have : p.mode < 4 := by omega
    rw [readSTAT_mod4 p this]
    simp [view, readLY, hm, hly]
  | some n =>
    obtain ⟨_, hm, _, _, hly, _⟩ := h
    have : p.mode < 4 := by rw [hm]; exact mode_lt4 _
    rw [readSTAT_mod4 p this]
    simp only [view, readLY, modeAt, lyAt, lyOfPhase]
    refine ⟨hm, ?_, ?_⟩
    · intro hw
      rcases hly with h | ⟨h, _⟩
      · exact h
      · rw [hw] at h; cases h
    · rcases hly with h | ⟨_, h⟩
      · exact Or.inl h
      · exact Or.inr h

/-- **C13 (refinement).**  For EVERY schedule of machine cycles and LCDC/STAT/LYC/LY writes from
    power-on the model does not panic, STAT bits 0–1 equal the closed-form mode of the time since
    switch-on, ReadLY equals the closed-form line unless FF44 was written since the last cycle,
    and in that case it reads 0. -/
theorem c13_refines (ops : List Op) :
    ∃ p, run init ops = some p ∧
      readSTAT p % 4 = (view (sinceOf ops)).mode ∧
      (lyFresh ops = true → readLY p = (view (sinceOf ops)).ly) ∧
      (readLY p = (view (sinceOf ops)).ly ∨ readLY p = 0) := by
  obtain ⟨p, hp, hrel⟩ := run_rel ops St.init init rel_init
  have hv := view_of_rel _ p hrel
  have hs : (specRun St.init ops).since = sinceOf ops := specRun_since ops St.init
  have hf : (!(specRun St.init ops).lyWritten) = lyFresh ops := specRun_fresh ops St.init
  rw [hs] at hv
  refine ⟨p, hp, hv.1, ?_, hv.2.2⟩
  intro h
  apply hv.2.1
  rw [← hf] at h
  simpa using h

/-- no schedule reaches one of the Go panics of `EndMachineCycle` (unexpected mode, sprite index
    out of range) -/
theorem c13_no_panic (ops : List Op) : run init ops ≠ none := by
  obtain ⟨p, hp, _⟩ := c13_refines ops
  rw [hp]; exact Option.some_ne_none p

/-- non-vacuity of `c13_refines`: a schedule with an off/on switch in mid-frame; 63 cycles after
    switch-on the shortened first line is already two cycles ahead (position 64) -/
example : sinceOf ([.wLCDC 0x11, .wLCDC 0x91] ++ List.replicate 63 .tick) = some 63 ∧
    view (some 63) = ⟨0, 0⟩ ∧ phase 63 = 64 ∧ view (some 61) = ⟨0, 3⟩ ∧ view (some 62) = ⟨0, 0⟩ := by
  decide

/-! ### what the closed form says -/

/-- **C13 (frame period).**  From the 63rd cycle after switch-on (when the shortened first line has
    dropped its two cycles) LY and the mode repeat every 17 556 cycles. -/
theorem c13_frame_period (n : Nat) (h : 63 ≤ n) : view (some (n + 17556)) = view (some n) := by
  have e : phase (n + 17556) = phase n := by
    unfold phase; rw [if_neg (by omega), if_neg (by omega)]; omega
  simp only [view, lyAt, modeAt, e]

/-- the bound 63 is tight: cycle 61 is in mode 3, cycle 61 + 17 556 in mode 0 -/
example : view (some (61 + 17556)) ≠ view (some 61) := by decide

/-- **C13 (line length).**  LY is 0 for the first 112 cycles after switch-on (cycle 0 = the
    switch-on itself); every later line lasts exactly 114 cycles and LY counts 0…153 cyclically:
    the line beginning at cycle 113 + 114·j is line (j+1) mod 154. -/
theorem c13_line_length :
    (∀ k, k ≤ 112 → lyAt k = 0) ∧
    (∀ j i, i < 114 → lyAt (113 + 114 * j + i) = (j + 1) % 154) := by
  constructor
  · intro k hk; unfold lyAt lyOfPhase phase; split <;> omega
  · intro j i hi; unfold lyAt lyOfPhase phase
    rw [if_neg (by omega)]; omega

/-- a new line begins exactly at cycle 1 and at the cycles ≡ 113 (mod 114): the first line after
    switch-on has 112 cycles, all others 114 -/
theorem c13_line_starts (k : Nat) (hk : 1 ≤ k) : lineBegins k ↔ (k = 1 ∨ k % 114 = 113) := by
  unfold lineBegins phase; split <;> omega

/-- **C13 (mode windows).**  First line after switch-on: mode 2 for cycles 1–20 (and at switch-on),
    mode 3 for cycles 21–61, mode 0 for the 51 cycles 62–112.  Every later line (`i` = cycle within
    the line): mode 1 on lines 144–153, otherwise mode 2 for 20 cycles, mode 3 until cycle 61,
    then mode 0. -/
theorem c13_mode_schedule :
    (∀ k, k ≤ 112 → modeAt k = if k ≤ 20 then 2 else if k ≤ 61 then 3 else 0) ∧
    (∀ j i, i < 114 → modeAt (113 + 114 * j + i) =
      if 144 ≤ (j + 1) % 154 then 1 else if i < 20 then 2 else if i < 61 then 3 else 0) := by
  constructor
  · intro k hk; unfold modeAt modeOfPhase phase
    repeat' split
    all_goals omega
  · intro j i hi
    have h1 : phase (113 + 114 * j + i) / 114 = (j + 1) % 154 := by
      unfold phase; rw [if_neg (by omega)]; omega
    have h2 : phase (113 + 114 * j + i) % 114 = i := by
      unfold phase; rw [if_neg (by omega)]; omega
    unfold modeAt modeOfPhase
    rw [h1, h2]

/-- LY stays within 0…153 and the mode within 0…3 -/
theorem c13_ranges (s : Option Nat) : (view s).ly ≤ 153 ∧ (view s).mode ≤ 3 := by
  cases s with
  | none => simp [view]
  | some n =>
    have := phase_lt n; have := mode_lt4 (phase n)
    simp only [view, lyAt, lyOfPhase, modeAt]; omega

/-! ### switching off and on -/

private theorem since_off_stays (more : List Op)
    (hmore : ∀ w, Op.wLCDC w ∈ more → w.testBit 7 = false) :
    more.foldl sinceStep none = none := by
  induction more with
  | nil => rfl
  | cons op more ih =>
    simp only [List.foldl_cons]
    have h1 : sinceStep none op = none := by
      cases op with
      | wLCDC w =>
        have := hmore w (List.mem_cons_self ..)
        simp [sinceStep, lcdc, this]
      | _ => rfl
    rw [h1]; exact ih (fun w hw => hmore w (List.mem_cons_of_mem _ hw))

/-- **C13 (off).**  Whatever happened before and at whatever cycle, a write to LCDC with bit 7
    clear makes LY read 0 and the mode 0 immediately, and they stay so under every further
    schedule that does not set bit 7 again. -/
theorem c13_off (ops : List Op) (v : Nat) (hv : v.testBit 7 = false) (more : List Op)
    (hmore : ∀ w, Op.wLCDC w ∈ more → w.testBit 7 = false) :
    ∃ p, run init (ops ++ [.wLCDC v] ++ more) = some p ∧ readLY p = 0 ∧ readSTAT p % 4 = 0 := by
  obtain ⟨p, hp, hm, _, hl⟩ := c13_refines (ops ++ [.wLCDC v] ++ more)
  have hs : sinceOf (ops ++ [.wLCDC v] ++ more) = none := by
    unfold sinceOf
    rw [List.foldl_append, List.foldl_append]
    have : sinceStep (List.foldl sinceStep (some 0) ops) (.wLCDC v) = none := by
      simp only [sinceStep, hv]; cases List.foldl sinceStep (some 0) ops <;> rfl
    simp only [List.foldl_cons, List.foldl_nil, this]
    exact since_off_stays more hmore
  rw [hs] at hm hl
  refine ⟨p, hp, ?_, hm⟩
  rcases hl with h | h <;> exact h

example : (0x11 : Nat).testBit 7 = false ∧
    ∀ w, Op.wLCDC w ∈ [Op.tick, .wSTAT 0x78, .wLY 5, .wLCDC 0x01, .tick] → w.testBit 7 = false := by
  refine ⟨by decide, ?_⟩
  intro w hw; simp at hw; subst hw; decide

/-- **C13 (on).**  If the LCD is off, a write to LCDC with bit 7 set restarts the sequence: before
    the first cycle LY = 0 and the mode is 2, and `k` cycles later LY and the mode are the closed
    form of `k` (line 0 for 112 cycles, then 114-cycle lines – `c13_line_length`). -/
theorem c13_on (ops : List Op) (hoff : sinceOf ops = none) (v : Nat) (hv : v.testBit 7 = true)
    (k : Nat) :
    ∃ p, run init (ops ++ [.wLCDC v] ++ List.replicate k .tick) = some p ∧
      readLY p = lyAt k ∧ readSTAT p % 4 = modeAt k ∧ (k = 0 → readLY p = 0 ∧ readSTAT p % 4 = 2) := by
  obtain ⟨p, hp, hm, hf, hl⟩ := c13_refines (ops ++ [.wLCDC v] ++ List.replicate k .tick)
  have hs : sinceOf (ops ++ [.wLCDC v] ++ List.replicate k .tick) = some k := by
    unfold sinceOf at hoff ⊢
    rw [List.foldl_append, List.foldl_append, hoff]
    simp only [List.foldl_cons, List.foldl_nil, sinceStep, hv, lcdc]
    have : ∀ k n, List.foldl sinceStep (some n) (List.replicate k Op.tick) = some (n + k) := by
      intro k; induction k with
      | zero => intro n; rfl
      | succ k ih =>
        intro n; simp only [List.replicate_succ, List.foldl_cons, sinceStep, cycle]
        rw [ih]; congr 1; omega
    rw [this]; simp
  rw [hs] at hm hf hl
  simp only [view] at hm hf hl
  have hly : readLY p = lyAt k := by
    cases k with
    | zero =>
      have : lyAt 0 = 0 := by decide
      rw [this] at hl ⊢; rcases hl with h | h <;> exact h
    | succ k =>
      apply hf
      unfold lyFresh
      rw [List.foldl_append, List.replicate_succ', List.foldl_append]
      rfl
  refine ⟨p, hp, hly, hm, ?_⟩
  intro hk; subst hk
  rw [hly, hm]; decide

example : sinceOf [.tick, .tick, .wLCDC 0x11, .tick] = none ∧ (0x91 : Nat).testBit 7 = true := by
  decide

end Tetro.C13
