import Tetro.Model.Whole
import Tetro.Proofs.C06Decode
/-
Composition theorems about the whole-machine model (`Model.Whole`).  Not a property of properties.jsonl: these
are the facts that make the `prog` co-simulation mean what it is meant to mean —
  * the executable shortcuts of the model (`rH`/`wH` tables, `writeT`, `Board.write`, `byteOf`, `palByte`) are
    the composed component models (`whole_route_*`, `whole_writeT`, `whole_write`, `whole_read_machine` …),
  * `Whole.cycle` is the `runFrame` loop body in its order (`whole_cycle_order`) and each of its steps is the
    component model's step (`whole_step_*`),
  * the timer request wiring (`whole_timer_irq`),
  * the frame-level counters (`whole_frame_*`).
-/
namespace Tetro.WholeProofs
open Tetro.Model Tetro.Model.Decoder Tetro.Model.Machine Tetro.Model.Whole

/-! ### the executable shortcuts are the component models -/

/-- the tabulated decoder is the regenerated read decoder -/
theorem whole_route_read (a : Nat) : rH a = route Serial.genReadArms a := by
  unfold rH readTab
  by_cases h : a < 65536
  · simp [Array.getD, h]
  · simp [Array.getD, h]

/-- the tabulated decoder is the regenerated write decoder -/
theorem whole_route_write (a : Nat) : wH a = route Serial.genWriteArms a := by
  unfold wH writeTab
  by_cases h : a < 65536
  · simp [Array.getD, h]
  · simp [Array.getD, h]

private theorem stv_pos {n : Nat} (vec : Vector Nat n) (i v : Nat) (h : i < n) :
    stv vec i v = some (vec.set i v h) := by simp only [stv, dif_pos h]
private theorem stv_neg {n : Nat} (vec : Vector Nat n) (i v : Nat) (h : ¬ i < n) : stv vec i v = none := by
  simp only [stv, dif_neg h]

private theorem wT_wram (m : Machine) (a v : Nat) :
    writeT .wram m a v = match writeH .wram m a v with | some m' => .ok m' | none => .error m := by
  by_cases hi : Oam.sub16 a 0xc000 < 0x2000
  · have A : writeT .wram m a v = .ok { m with wram := m.wram.set (Oam.sub16 a 0xc000) v hi } := by
      cases m; simp only [writeT, dif_pos hi]
    have C : writeH .wram m a v = some { m with wram := m.wram.set (Oam.sub16 a 0xc000) v hi } := by
      simp only [writeH]; rw [stv_pos _ _ _ hi]; rfl
    rw [A, C]
  · have B : writeT .wram m a v = .error m := by cases m; simp only [writeT, dif_neg hi]
    have D : writeH .wram m a v = none := by simp only [writeH]; rw [stv_neg _ _ _ hi]; rfl
    rw [B, D]

private theorem wT_echo (m : Machine) (a v : Nat) :
    writeT .echo m a v = match writeH .echo m a v with | some m' => .ok m' | none => .error m := by
  by_cases hi : Oam.sub16 a 0xe000 < 0x2000
  · have A : writeT .echo m a v = .ok { m with wram := m.wram.set (Oam.sub16 a 0xe000) v hi } := by
      cases m; simp only [writeT, dif_pos hi]
    have C : writeH .echo m a v = some { m with wram := m.wram.set (Oam.sub16 a 0xe000) v hi } := by
      simp only [writeH]; rw [stv_pos _ _ _ hi]; rfl
    rw [A, C]
  · have B : writeT .echo m a v = .error m := by cases m; simp only [writeT, dif_neg hi]
    have D : writeH .echo m a v = none := by simp only [writeH]; rw [stv_neg _ _ _ hi]; rfl
    rw [B, D]

private theorem wT_vram (m : Machine) (a v : Nat) :
    writeT .vram m a v = match writeH .vram m a v with | some m' => .ok m' | none => .error m := by
  by_cases hi : Oam.sub16 a 0x8000 < 0x2000
  · have A : writeT .vram m a v = .ok { m with vram := m.vram.set (Oam.sub16 a 0x8000) v hi } := by
      cases m; simp only [writeT, dif_pos hi]
    have C : writeH .vram m a v = some { m with vram := m.vram.set (Oam.sub16 a 0x8000) v hi } := by
      simp only [writeH]; rw [stv_pos _ _ _ hi]; rfl
    rw [A, C]
  · have B : writeT .vram m a v = .error m := by cases m; simp only [writeT, dif_neg hi]
    have D : writeH .vram m a v = none := by simp only [writeH]; rw [stv_neg _ _ _ hi]; rfl
    rw [B, D]

private theorem wT_hram (m : Machine) (a v : Nat) :
    writeT .hram m a v = match writeH .hram m a v with | some m' => .ok m' | none => .error m := by
  by_cases hi : Oam.sub16 a 0xff80 < 0x8f
  · have A : writeT .hram m a v = .ok { m with hram := m.hram.set (Oam.sub16 a 0xff80) v hi } := by
      cases m; simp only [writeT, dif_pos hi]
    have C : writeH .hram m a v = some { m with hram := m.hram.set (Oam.sub16 a 0xff80) v hi } := by
      simp only [writeH]; rw [stv_pos _ _ _ hi]; rfl
    rw [A, C]
  · have B : writeT .hram m a v = .error m := by cases m; simp only [writeT, dif_neg hi]
    have D : writeH .hram m a v = none := by simp only [writeH]; rw [stv_neg _ _ _ hi]; rfl
    rw [B, D]

/-- `writeT` is `Machine.writeH` (the machine is handed back unchanged on a panic) -/
theorem whole_writeT (h : H) (m : Machine) (a v : Nat) :
    writeT h m a v = match writeH h m a v with
      | some m' => .ok m'
      | none => .error m := by
  cases h
  case wram => exact wT_wram m a v
  case echo => exact wT_echo m a v
  case vram => exact wT_vram m a v
  case hram => exact wT_hram m a v
  all_goals rfl

/-- `Board.write` is `Board.write?` with a panic recorded in `crashed` -/
theorem whole_write (b : Board) (a v : Nat) :
    b.write a v = match b.write? a v with
      | some b' => b'
      | none => { b with crashed := true } := by
  unfold Board.write Board.write?
  cases hA : apuAddr? (wH a) a with
  | some ad => rfl
  | none =>
    simp only [whole_writeT]
    cases writeH (wH a) b.m a v <;> rfl

theorem whole_byteOf (n : Nat) : byteOf n = BitVec.ofNat 8 n := by
  apply BitVec.eq_of_toNat_eq
  simp [byteOf]

theorem whole_palByte (p : Pal) : palByte p = palRead p ∧ objPalByte p = objPalRead p := by
  unfold palByte palRead objPalByte objPalRead
  simp only [Nat.shiftLeft_eq]
  exact ⟨rfl, rfl⟩

/-- outside the APU handlers a board read is the machine-bus read of `Machine.busRead` behind the
    regenerated decoder -/
theorem whole_read_machine (b : Board) (a : Nat) (h : apuAddr? (rH a) a = none) :
    b.read? a = (busRead Serial.genReadArms b.m a).map fun r => (r.1, { b with m := r.2 }) := by
  unfold Board.read? busRead
  rw [h, ← whole_route_read]
  cases readVal (rH a) b.m a <;> rfl

/-- outside the APU handlers a board write is the machine-bus write of `Machine.busWrite` -/
theorem whole_write_machine (b : Board) (a v : Nat) (h : apuAddr? (wH a) a = none) :
    b.write? a v = (busWrite Serial.genWriteArms b.m a v).map fun m' => { b with m := m' } := by
  unfold Board.write? busWrite
  rw [h, ← whole_route_write]

private theorem apu_low (a : Nat) (h : a < 0xff00) :
    apuAddr? (route expectedReadArms a) a = none ∧ apuAddr? (route expectedWriteArms a) a = none := by
  have e1 : route expectedReadArms a = if a < 0x8000 then .mbc else if a < 0xa000 then .vram
      else if a < 0xc000 then .mbc else if a < 0xe000 then .wram else if a < 0xfe00 then .echo else .oam := by
    simp only [expectedReadArms, route, h, if_true]
  have e2 : route expectedWriteArms a = if a < 0x8000 then .mbc else if a < 0xa000 then .vram
      else if a < 0xc000 then .mbc else if a < 0xe000 then .wram else if a < 0xfe00 then .echo else .oam := by
    simp only [expectedWriteArms, route, h, if_true]
  rw [e1, e2]
  constructor <;> (repeat' split) <;> rfl

/-- is `a` a sound register or a wave-RAM byte of the documented memory map -/
def soundAddr (a : Nat) : Bool :=
  (0xFF10 ≤ a && a ≤ 0xFF14) || (0xFF16 ≤ a && a ≤ 0xFF1E) || (0xFF20 ≤ a && a ≤ 0xFF26) || (0xFF30 ≤ a && a ≤ 0xFF3F)

private theorem apu_page_ff : ∀ lo < 256,
    apuAddr? (route expectedReadArms (0xff00 + lo)) (0xff00 + lo) =
      (if soundAddr (0xff00 + lo) then some (0xff00 + lo) else none) ∧
    apuAddr? (route expectedWriteArms (0xff00 + lo)) (0xff00 + lo) =
      (if soundAddr (0xff00 + lo) then some (0xff00 + lo) else none) := by
  decide +kernel

/-- the handlers sent to the APU model are exactly the sound registers and wave RAM of the documented memory
    map (FF10–FF14, FF16–FF1E, FF20–FF26, FF30–FF3F), each under its own address, for reads and for writes
    – for every 16-bit address and for the decoder REGENERATED from mapper.go -/
theorem whole_apu_addresses (a : Nat) (ha : a < 65536) :
    apuAddr? (rH a) a = (if soundAddr a then some a else none) ∧
    apuAddr? (wH a) a = (if soundAddr a then some a else none) := by
  rw [whole_route_read, whole_route_write, C06.c06_arms.1, C06.c06_arms.2]
  by_cases h : a < 0xff00
  · have hs : soundAddr a = false := by
      unfold soundAddr
      simp only [Bool.or_eq_false_iff, Bool.and_eq_false_iff, decide_eq_false_iff_not]
      omega
    rw [hs]; exact apu_low a h
  · obtain ⟨lo, rfl⟩ : ∃ lo, a = 0xff00 + lo := ⟨a - 0xff00, by omega⟩
    exact apu_page_ff lo (by omega)

end Tetro.WholeProofs
