import Tetro.Model.Whole
import Tetro.Proofs.C06Decode
import Tetro.Lemmas.CpuBusInv
/-
Composition theorems about the whole-machine model (`Model.Whole`).  Not a property of properties.jsonl: these
are the facts that make the `prog` co-simulation mean what it is meant to mean —
  * outside the sound registers a board access IS the machine-bus access of `Model.Machine` behind the
    regenerated decoder (`whole_read_machine`, `whole_write_machine`), and the handlers sent to the APU model are
    exactly FF10–FF14, FF16–FF1E, FF20–FF26, FF30–FF3F under their own address (`whole_apu_addresses`);
  * `Whole.cycle` is the `runFrame` loop body in its order (`whole_cycle_order`, `whole_cycle_steps`) and each
    of its steps is the component model's step (`whole_step_*`);
  * the timer request wiring (`whole_timer_irq`);
  * frame-level counters (`whole_timer_counter`, `whole_frame_timer`, `whole_frame_clocks`).
(The executable shortcuts of the model are tied to the plain definitions by the proved `@[csimp]` equations in
Model/Whole.lean itself: `rH_impl`, `wH_impl`, `Board.write_impl`, `byteOf_impl`, `palByte_impl`.)
-/
namespace Tetro.WholeProofs
open Tetro.Model Tetro.Model.Decoder Tetro.Model.Machine Tetro.Model.Whole

/-! ### the board bus is the machine bus plus the APU -/

/-- outside the APU handlers a board read is the machine-bus read of `Machine.busRead` behind the
    regenerated decoder -/
theorem whole_read_machine (b : Board) (a : Nat) (h : apuAddr? (rH a) a = none) :
    b.read? a = (busRead Serial.genReadArms b.m a).map fun r => (r.1, { b with m := r.2 }) := by
  unfold Board.read? busRead
  rw [h]
  show Option.map _ (readVal (rH a) b.m a) = _
  unfold rH
  cases readVal (route Serial.genReadArms a) b.m a <;> rfl

/-- outside the APU handlers a board write is the machine-bus write of `Machine.busWrite` -/
theorem whole_write_machine (b : Board) (a v : Nat) (h : apuAddr? (wH a) a = none) :
    b.write? a v = (busWrite Serial.genWriteArms b.m a v).map fun m' => { b with m := m' } := by
  unfold Board.write? busWrite
  rw [h]
  rfl

/-- on the APU handlers a board access is the APU model's access and leaves the machine bus alone -/
theorem whole_apu_access (b : Board) (a ad v : Nat) :
    (apuAddr? (rH a) a = some ad → b.read? a = (b.apu.read ad).map fun x => (x, b)) ∧
    (apuAddr? (wH a) a = some ad → b.write? a v = some { b with apu := b.apu.write ad v }) := by
  constructor
  · intro h; unfold Board.read?; rw [h]
  · intro h; unfold Board.write?; rw [h]

private theorem apu_low (a : Nat) (h : a < 0xff00) :
    apuAddr? (route expectedReadArms a) a = none ∧ apuAddr? (route expectedWriteArms a) a = none := by
  have e1 : route expectedReadArms a = if a < 0x8000 then .mbc else if a < 0xa000 then .vram
      else if a < 0xc000 then .mbc else if a < 0xe000 then .wram else if a < 0xfe00 then .echo else .oam := by
    simp only [expectedReadArms, route, h, if_true]
  have e2 : route expectedWriteArms a = if a < 0x8000 then .mbc else if a < 0xa000 then .vram
      else if a < 0xc000 then .mbc else if a < 0xe000 then .wram else if a < 0xfe00 then .echo else .oam := by
    simp only [expectedWriteArms, route, h, if_true]
  rw [e1, e2]
  constructor <;> (repeat' split) <;> rfl

/-- is `a` a sound register or a wave-RAM byte of the documented memory map -/
def soundAddr (a : Nat) : Bool :=
  (0xFF10 ≤ a && a ≤ 0xFF14) || (0xFF16 ≤ a && a ≤ 0xFF1E) || (0xFF20 ≤ a && a ≤ 0xFF26) || (0xFF30 ≤ a && a ≤ 0xFF3F)

private theorem apu_page_ff : ∀ lo < 256,
    apuAddr? (route expectedReadArms (0xff00 + lo)) (0xff00 + lo) =
      (if soundAddr (0xff00 + lo) then some (0xff00 + lo) else none) ∧
    apuAddr? (route expectedWriteArms (0xff00 + lo)) (0xff00 + lo) =
      (if soundAddr (0xff00 + lo) then some (0xff00 + lo) else none) := by
  decide +kernel

/-- the handlers sent to the APU model are exactly the sound registers and wave RAM of the documented memory
    map (FF10–FF14, FF16–FF1E, FF20–FF26, FF30–FF3F), each under its own address, for reads and for writes
    – for every 16-bit address and for the decoder REGENERATED from mapper.go -/
theorem whole_apu_addresses (a : Nat) (ha : a < 65536) :
    apuAddr? (rH a) a = (if soundAddr a then some a else none) ∧
    apuAddr? (wH a) a = (if soundAddr a then some a else none) := by
  unfold rH wH
  rw [C06.c06_arms.1, C06.c06_arms.2]
  by_cases h : a < 0xff00
  · have hs : soundAddr a = false := by
      unfold soundAddr
      simp only [Bool.or_eq_false_iff, Bool.and_eq_false_iff, decide_eq_false_iff_not]
      omega
    rw [hs]; exact apu_low a h
  · obtain ⟨lo, rfl⟩ : ∃ lo, a = 0xff00 + lo := ⟨a - 0xff00, by omega⟩
    exact apu_page_ff lo (by omega)

/-! ### the cycle is the `runFrame` loop body -/

/-- the board after the CPU's part of the cycle (`cpu.ExecuteMachineCycle()`) -/
def afterCpu (w : Whole) : Cpu.Cpu × Board := Cpu.cycle Cpu.Tables.gen w.cpu w.b

/-- the CPU's part of the cycle stopped the emulator (`os.Exit`, or a Go panic) -/
def cpuStopped (w : Whole) : Bool := (afterCpu w).1.regs.exited || (afterCpu w).1.crashed || (afterCpu w).2.dead

/-- **composition order.**  A machine cycle is: the CPU cycle on the board; then – unless that stopped the
    emulator – `ppu.EndMachineCycle`, `mapper.EndMachineCycle` (DMA through the bus, RTC), `audio.EndMachineCycle`,
    `timer.EndMachineCycle` with the request to IF bit 2; a Go panic in one of them skips the rest. -/
theorem whole_cycle_order (w : Whole) (h : w.stopped = false) :
    w.cycle =
      if cpuStopped w then { cpu := (afterCpu w).1, b := (afterCpu w).2 }
      else { cpu := (afterCpu w).1,
             b := Board.guard Board.timerStep (Board.guard Board.apuStep
                    (Board.guard Board.dmaStep (Board.guard Board.ppuStep (afterCpu w).2))) } := by
  unfold Whole.cycle
  rw [h]
  cases w
  rfl

/-- a stopped machine stays as it is -/
theorem whole_cycle_stopped (w : Whole) (h : w.stopped = true) : w.cycle = w := by
  unfold Whole.cycle; rw [h]; rfl

private theorem guard_ok (f : Board → Board) (b : Board) (h : (Board.guard f b).crashed = false) :
    b.crashed = false ∧ Board.guard f b = f b := by
  unfold Board.guard at h ⊢
  cases hb : b.crashed
  · simp
  · rw [hb] at h; simp at h; rw [hb] at h; cases h

/-- when no Go panic happens in the cycle the four steps run in order -/
theorem whole_cycle_steps (w : Whole) (h : w.stopped = false) (hc : cpuStopped w = false)
    (hok : w.cycle.b.crashed = false) :
    w.cycle = { cpu := (afterCpu w).1, b := (afterCpu w).2.ppuStep.dmaStep.apuStep.timerStep } := by
  rw [whole_cycle_order w h, hc] at hok ⊢
  simp only [Bool.false_eq_true, if_false] at hok ⊢
  obtain ⟨h3, e3⟩ := guard_ok _ _ hok
  obtain ⟨h2, e2⟩ := guard_ok _ _ h3
  obtain ⟨h1, e1⟩ := guard_ok _ _ h2
  obtain ⟨_, e0⟩ := guard_ok _ _ h1
  rw [e3, e2, e1, e0]

/-! ### every step is the component model's step -/

/-- `ppu.EndMachineCycle` = `Machine.ppuTick` (LCD timing, VBlank/STAT requests, OAM-bug window) on the bus
    state and `Render.tick` (sprite selection, four pixels) on the scene of this cycle; `none` of either =
    Go panic -/
theorem whole_step_ppu (b : Board) :
    b.ppuStep =
      match Render.tick (sceneOf b.m) (syncPix b.m.ppu b.pix), ppuTick b.m with
      | some pix', some m' => { b with m := m', pix := pix' }
      | some pix', none => { b with pix := pix', crashed := true }
      | none, _ => { b with pix := pixInit, crashed := true } := by
  cases b
  unfold Board.ppuStep
  simp only []
  cases Render.tick _ _ with
  | none => rfl
  | some p => cases ppuTick _ <;> rfl

/-- `mapper.EndMachineCycle` = `Machine.endMachineCycle` behind the regenerated decoder -/
theorem whole_step_dma (b : Board) :
    b.dmaStep = match endMachineCycle Serial.genReadArms b.m with
      | some m' => { b with m := m' }
      | none => { b with crashed := true } := rfl

/-- `audio.EndMachineCycle` = `Apu.endMachineCycle`; nothing else changes -/
theorem whole_step_apu (b : Board) : b.apuStep = { b with apu := b.apu.endMachineCycle } := by
  cases b; rfl

/-- `timer.EndMachineCycle` + `RequestTimer` = `Machine.timerTick` -/
theorem whole_step_timer (b : Board) :
    b.timerStep.m.timer = Timer.endCycle b.m.timer ∧
    b.timerStep.m.intr = b.m.intr.request (Timer.endCycleIrq b.m.timer) 2 ∧
    b.timerStep.apu = b.apu ∧ b.timerStep.pix = b.pix ∧ b.timerStep.crashed = b.crashed := by
  refine ⟨rfl, rfl, rfl, rfl, rfl⟩

/-! ### the timer request -/

private theorem request_other (i : Intr) (b : Bool) (k : Nat) (hk : k = 0 ∨ k = 1) :
    (i.request b k).ifl.testBit 2 = i.ifl.testBit 2 := by
  unfold Intr.request
  cases b
  · rfl
  · have h1 : Nat.testBit 1 2 = false := by decide
    have h2 : Nat.testBit 2 2 = false := by decide
    rcases hk with rfl | rfl <;> simp [Nat.testBit_or, h1, h2]

private theorem request_timer (i : Intr) (b : Bool) :
    (i.request b 2).ifl.testBit 2 = (b || i.ifl.testBit 2) := by
  unfold Intr.request
  cases b
  · simp
  · have h4 : Nat.testBit 4 2 = true := by decide
    simp [Nat.testBit_or, h4]

private theorem ppuTick_frame (m m' : Machine) (h : ppuTick m = some m') :
    m'.timer = m.timer ∧ m'.intr.ifl.testBit 2 = m.intr.ifl.testBit 2 := by
  unfold ppuTick at h
  cases ht : Lcd.tick m.ppu with
  | none => rw [ht] at h; cases h
  | some r =>
    rw [ht] at h
    simp only [Option.map_some, Option.some.injEq] at h
    subst h
    exact ⟨rfl, by simp only [request_other _ _ _ (Or.inl rfl), request_other _ _ _ (Or.inr rfl)]⟩

private theorem readEff_frame (h : H) (m : Machine) (a : Nat) :
    (readEff h m a).timer = m.timer ∧ (readEff h m a).intr = m.intr := by
  unfold readEff
  split
  · split <;> exact ⟨rfl, rfl⟩
  · exact ⟨rfl, rfl⟩

private theorem endMachineCycle_frame (arms : List Arm) (m m' : Machine) (h : endMachineCycle arms m = some m') :
    m'.timer = m.timer ∧ m'.intr = m.intr := by
  unfold endMachineCycle at h
  cases ht : tickDMA arms m with
  | none => rw [ht] at h; cases h
  | some m1 =>
    rw [ht] at h
    simp only [Option.map_some, Option.some.injEq] at h
    subst h
    show m1.timer = m.timer ∧ m1.intr = m.intr
    unfold tickDMA at ht
    split at ht
    · cases ho : Oam.tickDMA m.oam fun _ => 0 with
      | none => rw [ho] at ht; cases ht
      | some o => rw [ho] at ht; simp only [Option.map_some, Option.some.injEq] at ht; subst ht; exact ⟨rfl, rfl⟩
    · rename_i a _
      unfold busRead at ht
      cases hv : readVal (route arms a) m a with
      | none => rw [hv] at ht; cases ht
      | some v =>
        rw [hv] at ht
        simp only [Option.map_some, Option.bind_some] at ht
        cases ho : Oam.tickDMA (readEff (route arms a) m a).oam fun _ => BitVec.ofNat 8 v with
        | none => rw [ho] at ht; cases ht
        | some o =>
          rw [ho] at ht; simp only [Option.map_some, Option.some.injEq] at ht; subst ht
          exact readEff_frame _ _ _

/-- the steps before the timer's leave the timer and IF bit 2 alone (when they do not panic) -/
private theorem before_timer (b : Board) (h : b.ppuStep.dmaStep.apuStep.crashed = false) :
    b.ppuStep.dmaStep.apuStep.m.timer = b.m.timer ∧
    b.ppuStep.dmaStep.apuStep.m.intr.ifl.testBit 2 = b.m.intr.ifl.testBit 2 := by
  rw [whole_step_apu] at h ⊢
  show b.ppuStep.dmaStep.m.timer = _ ∧ b.ppuStep.dmaStep.m.intr.ifl.testBit 2 = _
  have h' : b.ppuStep.dmaStep.crashed = false := h
  clear h
  rw [whole_step_dma] at h' ⊢
  cases hd : endMachineCycle Serial.genReadArms b.ppuStep.m with
  | none => rw [hd] at h'; cases h'
  | some m2 =>
    rw [hd] at h'
    obtain ⟨t2, i2⟩ := endMachineCycle_frame _ _ _ hd
    show m2.timer = _ ∧ m2.intr.ifl.testBit 2 = _
    have h'' : b.ppuStep.crashed = false := h'
    rw [t2, i2]
    rw [whole_step_ppu] at h'' ⊢
    cases hr : Render.tick (sceneOf b.m) (syncPix b.m.ppu b.pix) with
    | none => rw [hr] at h''; cases h''
    | some p =>
      cases hp : ppuTick b.m with
      | none => rw [hr, hp] at h''; cases h''
      | some m1 => exact ppuTick_frame _ _ hp

/-- **timer request wiring.**  In a cycle without a Go panic, IF bit 2 is set at the end of the cycle iff the
    timer tick of this cycle reports an overflow, or the bit was set after the CPU's part of the cycle
    (it was already set and not cleared, or the CPU wrote it): nothing else in the cycle touches it. -/
theorem whole_timer_irq (w : Whole) (h : w.stopped = false) (hc : cpuStopped w = false)
    (hok : w.cycle.b.crashed = false) :
    w.cycle.b.m.intr.ifl.testBit 2 =
      (Timer.endCycleIrq (afterCpu w).2.m.timer || (afterCpu w).2.m.intr.ifl.testBit 2) := by
  have e := whole_cycle_steps w h hc hok
  rw [e] at hok ⊢
  obtain ⟨_, hi, _, _, hcr⟩ := whole_step_timer (afterCpu w).2.ppuStep.dmaStep.apuStep
  have hok' : (afterCpu w).2.ppuStep.dmaStep.apuStep.crashed = false := by rw [← hcr]; exact hok
  obtain ⟨ht, hb⟩ := before_timer _ hok'
  show (afterCpu w).2.ppuStep.dmaStep.apuStep.timerStep.m.intr.ifl.testBit 2 = _
  rw [hi, request_timer, ht, hb]

/-! ### frame-level counters -/

private theorem endCycle_counter (t : Timer.T) : (Timer.endCycle t).counter = (t.counter + 4) % 65536 := by
  unfold Timer.endCycle Timer.endCyclePre Timer.tickEdge Timer.reloadStep Timer.advance Timer.increment
  repeat' split
  all_goals rfl

/-- in a cycle without a Go panic the 16-bit timer counter (DIV is its high byte) advances by 4 from its value
    after the CPU's part of the cycle (where a DIV write may have reset it) -/
theorem whole_timer_counter (w : Whole) (h : w.stopped = false) (hc : cpuStopped w = false)
    (hok : w.cycle.b.crashed = false) :
    w.cycle.b.m.timer.counter = ((afterCpu w).2.m.timer.counter + 4) % 65536 := by
  have e := whole_cycle_steps w h hc hok
  rw [e] at hok ⊢
  obtain ⟨ht, _, _, _, hcr⟩ := whole_step_timer (afterCpu w).2.ppuStep.dmaStep.apuStep
  have hok' : (afterCpu w).2.ppuStep.dmaStep.apuStep.crashed = false := by rw [← hcr]; exact hok
  show (afterCpu w).2.ppuStep.dmaStep.apuStep.timerStep.m.timer.counter = _
  rw [ht, endCycle_counter, (before_timer _ hok').1]

theorem whole_run_succ (k : Nat) (w : Whole) : Whole.run (k + 1) w = (Whole.run k w).cycle := by
  induction k generalizing w with
  | zero => rfl
  | succ k ih =>
    show Whole.run (k + 1) w.cycle = _
    rw [ih w.cycle]
    rfl

/-- over any number of cycles in which the machine keeps running and the CPU does not write the timer's
    counter (no DIV write), the counter advances by 4 per cycle -/
theorem whole_frame_timer (w : Whole) (n : Nat) (hlt : w.b.m.timer.counter < 65536)
    (h : ∀ k < n, (Whole.run k w).stopped = false ∧ cpuStopped (Whole.run k w) = false ∧
          (Whole.run (k + 1) w).b.crashed = false ∧
          (afterCpu (Whole.run k w)).2.m.timer.counter = (Whole.run k w).b.m.timer.counter) :
    (Whole.run n w).b.m.timer.counter = (w.b.m.timer.counter + 4 * n) % 65536 := by
  induction n with
  | zero => simp only [Whole.run, Nat.mul_zero, Nat.add_zero]; exact (Nat.mod_eq_of_lt hlt).symm
  | succ n ih =>
    obtain ⟨h1, h2, h3, h4⟩ := h n (Nat.lt_succ_self n)
    have ih' := ih fun k hk => h k (Nat.lt_succ_of_lt hk)
    rw [whole_run_succ] at h3 ⊢
    rw [whole_timer_counter _ h1 h2 h3, h4, ih']
    omega

/-- a frame is 17 556 cycles = 70 224 clocks: without DIV writes the counter is 4 688 further (mod 65 536) -/
theorem whole_frame_clocks (c : Nat) : (c + 4 * 17556) % 65536 = (c + 4688) % 65536 := by omega


/-! ### non-vacuity: a concrete machine meets the hypotheses of the theorems above -/

/-- an all-zero (NOP) 32 KiB ROM-only cartridge, powered on -/
def demo : Whole := powerOn (.none { rom := fun _ _ => 0, imgLen := 0x8000 }) false false

/-- the same machine with the timer one cycle before a TIMA overflow (TAC = 5, TIMA = FF, counter bit 3 about
    to fall) -/
def demoTimer : Whole :=
  { demo with b := { demo.b with m := { demo.b.m with
      timer := { counter := 0x000c, tac := 5, tima := 0xff, tma := 0x42, lastEdgeSet := true,
                 reloadDelay := 0, reloading := false, interrupt := false },
      intr := { demo.b.m.intr with ifl := 0 } } } }

example : demo.stopped = false ∧ cpuStopped demo = false ∧ demo.cycle.b.crashed = false := by decide +kernel
example : demo.cycle.b.m.timer.counter = 0xabd0 ∧ demo.cycle.b.m.intr.ifl.testBit 2 = false := by decide +kernel
/-- the request is raised by the overflow alone (IF was 0, the CPU executes a NOP) -/
example : demoTimer.stopped = false ∧ cpuStopped demoTimer = false ∧ demoTimer.cycle.b.crashed = false ∧
    Timer.endCycleIrq (afterCpu demoTimer).2.m.timer = true ∧ (afterCpu demoTimer).2.m.intr.ifl = 0 ∧
    demoTimer.cycle.b.m.intr.ifl = 4 := by decide +kernel
example : ∀ k < 3, (Whole.run k demo).stopped = false ∧ cpuStopped (Whole.run k demo) = false ∧
    (Whole.run (k + 1) demo).b.crashed = false ∧
    (afterCpu (Whole.run k demo)).2.m.timer.counter = (Whole.run k demo).b.m.timer.counter := by decide +kernel

end Tetro.WholeProofs
