import Tetro.Model.Cart
import Tetro.Spec.Cart
import Tetro.Lemmas.CartSim
/-
C09 – cartridge RAM is gated, banked and retained per controller.

For every history of bus writes (enable, bank select, mode, RAM writes – any address, any value)
and machine cycles, every read of A000-BFFF and the RAM dump of the code model equal the
documentation-shaped specification `Spec.Cart` (queries on the history: enabled ⇔ last enable write
had low nibble A; selected bank modulo the bank count; a cell holds the most recent write that
reached it, else 0xFF; disabled reads FF and ignores writes; contents persist across
enable/disable and bank switches because no other event changes a cell).
-/
namespace Tetro.C09
open Tetro.Model Tetro.Model.Cart Tetro.Spec.Cart Tetro.CartSim Tetro.CartWF Tetro.CartBits

def InWindow (a : Nat) : Prop := 0xa000 ≤ a ∧ a < 0xc000

/-- ROM only: A000-BFFF reads 0xFF, the dump is empty. -/
theorem c09_refines_none (m : NoMbc) (ops : List Op) :
    ∃ c', run (.none m) ops = some c' ∧
      (∀ a, InWindow a → busRead c' a = some 0xff) ∧ c'.dump = [] := by
  refine ⟨_, run0 m ops, ?_, rfl⟩
  intro a ha
  simp only [busRead, Mbc.read, NoMbc.read]
  rw [if_neg (by unfold InWindow at ha; omega)]

/-- MBC1 (any ROM size below 256 banks, any RAM bank count below 256): reads and dump = spec. -/
theorem c09_refines_mbc1 (rom : Rom) (n : Nat) (hn : 0 < n ∧ n < 256) (q : Nat) (hq : 0 < q ∧ q < 256)
    (ops : List Op) :
    ∃ m0 c', Mbc1.new rom n freshRam q = some m0 ∧ run (.mbc1 m0) ops = some c' ∧
      (∀ a, InWindow a → busRead c' a = some (ramRead .mbc1 q (hist ops) a)) ∧
      c'.dump = ramDump .mbc1 q (hist ops) := by
  obtain ⟨m0, e0, R0⟩ := rel1_init (rom := rom) hn.1 hn.2 hq.1 hq.2
  obtain ⟨m', e, R⟩ := run1 hn.1 hn.2 hq.1 hq.2 ops [] m0 R0
  rw [List.append_nil] at R
  rw [show (List.map toEv ops).reverse = hist ops from rfl] at R
  refine ⟨m0, _, e0, e, ?_, ?_⟩
  · intro a ha
    unfold InWindow at ha
    simp only [busRead, Mbc.read, Mbc1.read, ramRead]
    rw [if_neg (by omega), if_neg (by omega), if_neg (by omega), if_pos ha.2]
    cases hen : m'.ramEnabled with
    | false =>
      have : ramTarget .mbc1 q (hist ops) = none := by simp [ramTarget, ← R.en, hen]
      simp [this]
    | true =>
      have ht := R.rk hen
      have hk : m'.ramBank < m'.ramLen := by
        simp only [ramTarget, ← R.en, hen, if_true, Option.some.injEq] at ht
        rw [← ht, R.ramLen]; exact Nat.mod_lt _ hq.1
      rw [ht]
      simp only [if_true, bank?_ok hk (by omega : a - 0xa000 < 0x2000), R.ram]
  · simp only [Mbc.dump, dumpBanks, ramDump, R.ram, R.ramLen]

/-- MBC3 (any positive ROM/RAM bank counts): while a RAM bank (selection 0-7, taken modulo the bank
    count) is selected, reads = spec RAM; while a clock register (08-0F) is selected the read is the
    clock's (`Rtc.read` of the clock state after the clock events of the history – its value is
    characterised by C10); the dump = spec. -/
theorem c09_refines_mbc3 (rom : Rom) (n : Nat) (hn : 1 < n) (q : Nat) (hq : 0 < q) (ops : List Op) :
    ∃ c', run (.mbc3 (Mbc3.new rom n freshRam q)) ops = some c' ∧
      (∀ a, InWindow a → busRead c' a = some
        (match clockSelected (hist ops) with
         | some sel => Rtc.read (RtcSim.after (clockEvents (hist ops))) sel
         | none => ramRead .mbc3 q (hist ops) a)) ∧
      c'.dump = ramDump .mbc3 q (hist ops) := by
  obtain ⟨m', e, R⟩ := run3 (by omega) hq ops [] _ (rel3_init (rom := rom) (q := q) hn)
  rw [List.append_nil] at R
  rw [show (List.map toEv ops).reverse = hist ops from rfl] at R
  refine ⟨_, e, ?_, ?_⟩
  · intro a ha
    unfold InWindow at ha
    simp only [busRead, Mbc.read, Mbc3.read, ramRead]
    rw [if_neg (by omega), if_neg (by omega), if_neg (by omega), if_pos ha.2]
    have hqq : 0 < m'.ramLen := by rw [R.ramLen]; exact hq
    cases hen : m'.ramEnabled with
    | false =>
      have h1 : ramTarget .mbc3 q (hist ops) = none := by simp [ramTarget, ← R.en, hen]
      have h2 : clockSelected (hist ops) = none := by simp [clockSelected, ← R.en, hen]
      simp [h1, h2]
    | true =>
      have hen' : enabled .mbc3 (hist ops) = true := by rw [← R.en, hen]
      by_cases hsel : m'.ramBank ≥ 0x08
      · have h2 : clockSelected (hist ops) = some m'.ramBank := by
          simp only [clockSelected, hen', true_and]; rw [if_pos (by rw [← R.rk]; exact hsel), R.rk]
        simp only [if_true, if_pos hsel, h2, R.rtc]
      · have h1 : ramTarget .mbc3 q (hist ops) = some (m'.ramBank % m'.ramLen) := by
          simp only [ramTarget, hen', true_and]; rw [if_pos (by rw [← R.rk]; omega), R.rk, R.ramLen]
        have h2 : clockSelected (hist ops) = none := by
          simp only [clockSelected, hen', true_and]; rw [if_neg (by rw [← R.rk]; omega)]
        simp only [if_true, if_neg hsel, h1, h2, mod?_pos hqq, Option.bind_some,
          bank?_ok (Nat.mod_lt _ hqq) (by omega : a - 0xa000 < 0x2000), R.ram]
  · simp only [Mbc.dump, dumpBanks, ramDump, R.ram, R.ramLen]

/-- MBC5 (2 … 512 ROM banks, any RAM bank count below 256): reads and dump = spec. -/
theorem c09_refines_mbc5 (rom : Rom) (n : Nat) (hn : Size5 n) (q : Nat) (hq : 0 < q ∧ q < 256)
    (ops : List Op) :
    ∃ c', run (.mbc5 (Mbc5.new rom n freshRam q)) ops = some c' ∧
      (∀ a, InWindow a → busRead c' a = some (ramRead .mbc5 q (hist ops) a)) ∧
      c'.dump = ramDump .mbc5 q (hist ops) := by
  have hn1 : 1 < n := by rcases hn with h|h|h|h|h|h|h|h|h <;> subst h <;> decide
  obtain ⟨m', e, R⟩ := run5 hn hq.1 hq.2 ops [] _ (rel5_init (rom := rom) (q := q) hn1)
  rw [List.append_nil] at R
  rw [show (List.map toEv ops).reverse = hist ops from rfl] at R
  refine ⟨_, e, ?_, ?_⟩
  · intro a ha
    unfold InWindow at ha
    simp only [busRead, Mbc.read, Mbc5.read, ramRead]
    rw [if_neg (by omega), if_neg (by omega), if_neg (by omega), if_pos ha.2]
    cases hen : m'.ramEnabled with
    | false =>
      have : ramTarget .mbc5 q (hist ops) = none := by simp [ramTarget, ← R.en, hen]
      simp [this]
    | true =>
      have ht : ramTarget .mbc5 q (hist ops) = some m'.ramBank := by
        simp only [ramTarget, ← R.en, hen, if_true, R.rk]
      have hk : m'.ramBank < m'.ramLen := by rw [R.rk, R.ramLen]; exact Nat.mod_lt _ hq.1
      rw [ht]
      simp only [if_true, bank?_ok hk (by omega : a - 0xa000 < 0x2000), R.ram]
  · simp only [Mbc.dump, dumpBanks, ramDump, R.ram, R.ramLen]

/-- MBC2 (any ROM bank count ≥ 2): 512 half-bytes mirrored over the window, upper nibble reads 1;
    the dump has 512 entries whose low nibbles are the stored half-bytes. -/
theorem c09_refines_mbc2 (rom : Rom) (n : Nat) (hn : 1 < n) (ops : List Op) :
    ∃ c', run (.mbc2 (Mbc2.new rom n)) ops = some c' ∧
      (∀ a, InWindow a → busRead c' a = some (mbc2Read (hist ops) a)) ∧
      c'.dump.length = 512 ∧ (∀ o, o < 512 → (c'.dump[o]?).map (· % 16) = some (nibble (hist ops) o)) := by
  obtain ⟨m', e, R⟩ := run2 (by omega) ops [] _ (rel2_init (rom := rom) hn)
  rw [List.append_nil] at R
  rw [show (List.map toEv ops).reverse = hist ops from rfl] at R
  refine ⟨_, e, ?_, ?_, ?_⟩
  · intro a ha
    unfold InWindow at ha
    simp only [busRead, Mbc.read, Mbc2.read, mbc2Read]
    rw [if_neg (by omega), if_neg (by omega), if_neg (by omega), if_pos ha.2, R.en]
    cases hen : enabled .mbc2 (hist ops) with
    | false => simp
    | true =>
      obtain ⟨h1, h2⟩ := R.ram ((a - 0xa000) % 0x0200)
      simp only [if_true, cell?_ok (Nat.mod_lt _ (by decide : 0 < 0x0200)), Option.bind_some,
        or_f0 _ h1, h2]
  · simp [Mbc.dump, Mbc2.dump]
  · intro o ho
    simp [Mbc.dump, Mbc2.dump, ho, (R.ram o).2]

/-- Spec sanity (retention): an event that is not an effective RAM write – any control write, any
    write while disabled, any tick – leaves every RAM cell as it was. -/
theorem c09_spec_retains (c : Ctrl) (q a v : Nat) (h : Hist) (hc : a < 0xa000 ∨ 0xc000 ≤ a ∨ ramTarget c q h = none) :
    cell c q (.write a v :: h) = cell c q h ∧ cell c q (.tick :: h) = cell c q h := by
  refine ⟨?_, rfl⟩
  rcases hc with h1|h1|h1
  · exact cell_out (Or.inl h1)
  · exact cell_out (Or.inr h1)
  · exact cell_none h1

/-- non-vacuity: MBC5 with 4 RAM banks – write 0x42 to bank 2, switch away, disable, re-enable,
    switch back: the byte is still there, and bank 6 is the same bank (6 mod 4) -/
example : ramRead .mbc5 4 (hist [.write 0x0000 0x0a, .write 0x4000 0x02, .write 0xa010 0x42,
      .write 0x4000 0x01, .write 0x0000 0x00, .write 0x0000 0x0a, .write 0x4000 0x06]) 0xa010 = 0x42 := by
  decide +kernel

end Tetro.C09
