import Tetro.Spec.MemMap
/-
C06/C07/C23 – the documented arm list routes every one of the 65 536 addresses as the region / register
table description of the DMG memory map says (kernel evaluation; independent of the regenerated facts, so it
is built once).
-/
namespace Tetro.C06
open Tetro.Model.Decoder Tetro.Spec.MemMap

theorem c06_route_read : ∀ hi < 256, ∀ lo < 256,
    route expectedReadArms (hi * 256 + lo) = regionOf .ff (hi * 256 + lo) := by decide +kernel

theorem c06_route_write : ∀ hi < 256, ∀ lo < 256,
    route expectedWriteArms (hi * 256 + lo) = regionOf .ignore (hi * 256 + lo) := by decide +kernel

/-- no address of the 16-bit space reaches the `panic` default of either switch -/
theorem c06_no_default_panic : ∀ hi < 256, ∀ lo < 256,
    regionOf .ff (hi * 256 + lo) ≠ .panic ∧ regionOf .ignore (hi * 256 + lo) ≠ .panic := by decide +kernel

/-- among all 65 536 addresses only FF01 is routed to WriteSB -/
theorem c23_sb_only : ∀ hi < 256, ∀ lo < 256,
    (route expectedWriteArms (hi * 256 + lo) = .sb ↔ hi * 256 + lo = 0xff01) := by decide +kernel

end Tetro.C06
