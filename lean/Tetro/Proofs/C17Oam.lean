import Tetro.Model.Oam
import Tetro.Lemmas.Oam
/-
C17 (OAM side) – OAM is only altered by CPU writes, DMA, or the mode-2 OAM bug.

The lemmas here are about the `oam` package alone (`Model.Oam`): outside the OAM-bug window
(`corrupt = false`, no trigger pending) only `Write` and `TickDMA` change OAM bytes, and only the
byte they address; `Corrupt` changes bytes only when a trigger is pending, and triggers are only
recorded while `corrupt = true`; with the PPU's last access inside FE00–FE9F no row computation
leaves the array (the row-0 repair of `doubleWriteCorruption`).  That `corrupt = true` implies
"LCD on and in mode 2" is the PPU side of C17 and is not proved here.
-/
namespace Tetro.C17
open Tetro.Model Tetro.Model.Oam

/-- outside the OAM-bug window and no trigger pending -/
def Quiet (s : Oam) : Prop :=
  s.corrupt = false ∧ s.read = false ∧ s.write = false ∧ s.doubleWrite = false

private theorem writeFlags_quiet {s : Oam} (h : s.corrupt = false) : writeFlags s = s := by
  simp [writeFlags, h]

private theorem quiet_oam_eq {s : Oam} (m : Mem) (h : Quiet s) : Quiet { s with oam := m } := h

/-- what one exported call may do to the 160 bytes when the state is `Quiet` -/
def OamEffect (s : Oam) (op : Op) (s' : Oam) : Prop :=
  match op with
  | .write a v =>
      ∀ k (hk : k < 160), s'.oam[k] = if a.toNat < 0xfea0 ∧ k = a.toNat - 0xfe00 then v else s.oam[k]
  | .tick _ =>
      (s.dmaRunning = false → s'.oam = s.oam) ∧
      ∀ k (hk : k < 160), k ≠ dmaStoreIndex s → s'.oam[k] = s.oam[k]
  | _ => s'.oam = s.oam

/-- C17 (frame, one call).  In a `Quiet` state every exported call except `EnterMode2` (which opens
    the window) leaves the state `Quiet`; `Read`, `TriggerWriteCorruption`, `Corrupt`, `PPURead`,
    `ExitMode2`, `ReadDMA` and `WriteDMA` leave all 160 bytes unchanged; `Write(addr, v)` changes
    exactly byte `addr − FE00` when `addr < FEA0` and nothing when `addr ≥ FEA0`; `TickDMA` changes
    at most the one byte it stores (none when no transfer runs). -/
theorem c17_not_corrupt_frame (s s' : Oam) (op : Op) (hq : Quiet s) (hop : op ≠ .enter)
    (hs : step s op = some s') : Quiet s' ∧ OamEffect s op s' := by
  obtain ⟨hc, hr, hw, hd⟩ := hq
  cases op with
  | read a =>
    simp only [step] at hs
    rw [Option.map_eq_some_iff] at hs
    obtain ⟨p, hp, rfl⟩ := hs
    rcases cpuRead_shape hp with e | ⟨_, hc', _⟩
    · rw [e]; exact ⟨⟨hc, hr, hw, hd⟩, rfl⟩
    · rw [hc] at hc'; cases hc'
  | write a v =>
    obtain ⟨h1, h2⟩ := cpuWrite_shape (show cpuWrite s a v = some s' from hs)
    rw [writeFlags_quiet hc] at h1 h2
    by_cases hlt : a.toNat < 0xfea0
    · obtain ⟨hi, e⟩ := h1 hlt
      subst e
      refine ⟨⟨hc, hr, hw, hd⟩, ?_⟩
      intro k hk
      show (s.oam.set (sub16 a.toNat 0xfe00) v hi)[k] = _
      have hidx : sub16 a.toNat 0xfe00 = a.toNat - 0xfe00 := by
        have hi' := hi
        simp only [sub16] at hi' ⊢; omega
      rw [Vector.getElem_set]
      by_cases hk2 : k = a.toNat - 0xfe00
      · rw [if_pos (by rw [hidx]; exact hk2.symm), if_pos ⟨hlt, hk2⟩]
      · rw [if_neg (by rw [hidx]; exact fun h => hk2 h.symm), if_neg (fun h => hk2 h.2)]
    · rw [h2 (by omega)]
      refine ⟨⟨hc, hr, hw, hd⟩, ?_⟩
      intro k hk
      rw [if_neg (by omega)]
  | ppuRead a =>
    simp only [step] at hs
    rw [Option.map_eq_some_iff] at hs
    obtain ⟨p, hp, rfl⟩ := hs
    rw [ppuRead_shape hp]
    exact ⟨⟨hc, hr, hw, hd⟩, rfl⟩
  | trigger a =>
    simp only [step, triggerWriteCorruption, hc] at hs
    cases hs
    exact ⟨⟨hc, hr, hw, hd⟩, rfl⟩
  | corrupt =>
    rcases corruptStep_shape (show corruptStep s = some s' from hs) with ⟨_, _, e⟩ | ⟨h, _⟩
    · rw [e]; exact ⟨⟨hc, hr, hw, hd⟩, rfl⟩
    · rw [hr, hw] at h; rcases h with h | h <;> cases h
  | enter => exact absurd rfl hop
  | exit => cases hs; exact ⟨⟨rfl, hr, hw, hd⟩, rfl⟩
  | writeDMA w => cases hs; exact ⟨⟨hc, hr, hw, hd⟩, rfl⟩
  | readDMA => cases hs; exact ⟨⟨hc, hr, hw, hd⟩, rfl⟩
  | tick rd =>
    obtain ⟨_, _, e1, _, e2, e3, e4, hidle, hbytes⟩ := tickDMA_shape (show tickDMA s rd = some s' from hs)
    exact ⟨⟨by rw [e1, hc], by rw [e2, hr], by rw [e3, hw], by rw [e4, hd]⟩,
      fun h => by rw [hidle h], hbytes⟩

/-- non-vacuity: a `Quiet` state with a transfer in progress and non-trivial contents -/
example : Quiet (writeDMA { init with oam := Vector.replicate 160 0x5a, ppuLastAccess := 0xfe13 } 0xc0) :=
  ⟨rfl, rfl, rfl, rfl⟩

/-- C17 (frame, histories).  From a `Quiet` state, ANY history of `Read`, `PPURead`,
    `TriggerWriteCorruption` (16-bit INC/DEC, PUSH/POP with pointers anywhere), `Corrupt`,
    `ExitMode2`, `ReadDMA` – i.e. everything the CPU can do to OAM except writing it, with no DMA
    tick and the window never opened – leaves all 160 bytes unchanged. -/
theorem c17_not_corrupt_run (ops : List Op) (s s' : Oam) (hq : Quiet s)
    (hops : ∀ op ∈ ops, op ≠ .enter ∧ (∀ a v, op ≠ .write a v) ∧ (∀ rd, op ≠ .tick rd))
    (hs : run s ops = some s') : Quiet s' ∧ s'.oam = s.oam := by
  induction ops generalizing s with
  | nil => cases hs; exact ⟨hq, rfl⟩
  | cons op ops ih =>
    simp only [run] at hs
    rw [Option.bind_eq_some_iff] at hs
    obtain ⟨t, ht, hs⟩ := hs
    obtain ⟨hne, hnw, hnt⟩ := hops op List.mem_cons_self
    obtain ⟨hqt, heff⟩ := c17_not_corrupt_frame s t op hq hne ht
    obtain ⟨hq', e⟩ := ih t hqt (fun o ho => hops o (List.mem_cons_of_mem _ ho)) hs
    refine ⟨hq', ?_⟩
    rw [e]
    cases op with
    | write a v => exact absurd rfl (hnw a v)
    | tick rd => exact absurd rfl (hnt rd)
    | read a => exact heff
    | ppuRead a => exact heff
    | trigger a => exact heff
    | corrupt => exact heff
    | enter => exact heff
    | exit => exact heff
    | writeDMA w => exact heff
    | readDMA => exact heff

example : (run { init with oam := Vector.replicate 160 0x5a, ppuLastAccess := 0xfe13 }
    [.read 0xfe20, .trigger 0xfe00, .trigger 0xfe01, .corrupt, .ppuRead 0xfe9c, .exit, .readDMA, .corrupt]).map
      (fun t => t.oam.toList.all (· == 0x5a)) = some true := by decide +kernel

/-- C17 (`Corrupt` needs a trigger): `Corrupt()` changes nothing at all unless a read or write
    trigger is pending … -/
theorem c17_corrupt_needs_flag (s s' : Oam) (h : corruptStep s = some s')
    (hr : s.read = false) (hw : s.write = false) : s' = s := by
  rcases corruptStep_shape h with ⟨_, _, e⟩ | ⟨h', _⟩
  · exact e
  · rw [hr, hw] at h'; rcases h' with h' | h' <;> cases h'

/-- … and triggers are only recorded while the window is open: with `corrupt = false` no exported
    call other than `EnterMode2` turns on `read`, `write` or `doubleWrite`, and `corrupt` stays
    false. -/
theorem c17_flags_need_window (s s' : Oam) (op : Op) (hc : s.corrupt = false) (hop : op ≠ .enter)
    (hs : step s op = some s') :
    s'.corrupt = false ∧ (s'.read = true → s.read = true) ∧ (s'.write = true → s.write = true) ∧
    (s'.doubleWrite = true → s.doubleWrite = true) := by
  cases op with
  | read a =>
    simp only [step] at hs
    rw [Option.map_eq_some_iff] at hs
    obtain ⟨p, hp, rfl⟩ := hs
    rcases cpuRead_shape hp with e | ⟨_, hc', _⟩
    · rw [e]; exact ⟨hc, id, id, id⟩
    · rw [hc] at hc'; cases hc'
  | write a v =>
    obtain ⟨h1, h2⟩ := cpuWrite_shape (show cpuWrite s a v = some s' from hs)
    rw [writeFlags_quiet hc] at h1 h2
    by_cases hlt : a.toNat < 0xfea0
    · obtain ⟨hi, e⟩ := h1 hlt; rw [e]; exact ⟨hc, id, id, id⟩
    · rw [h2 (by omega)]; exact ⟨hc, id, id, id⟩
  | ppuRead a =>
    simp only [step] at hs
    rw [Option.map_eq_some_iff] at hs
    obtain ⟨p, hp, rfl⟩ := hs
    rw [ppuRead_shape hp]; exact ⟨hc, id, id, id⟩
  | trigger a =>
    simp only [step, triggerWriteCorruption, hc] at hs
    cases hs; exact ⟨hc, id, id, id⟩
  | corrupt =>
    rcases corruptStep_shape (show corruptStep s = some s' from hs) with ⟨_, _, e⟩ | ⟨_, m, e⟩
    · rw [e]; exact ⟨hc, id, id, id⟩
    · rw [e]; exact ⟨hc, fun h => (by cases h), fun h => (by cases h), fun h => (by cases h)⟩
  | enter => exact absurd rfl hop
  | exit => cases hs; exact ⟨rfl, id, id, id⟩
  | writeDMA w => cases hs; exact ⟨hc, id, id, id⟩
  | readDMA => cases hs; exact ⟨hc, id, id, id⟩
  | tick rd =>
    obtain ⟨_, _, e1, _, e2, e3, e4, _, _⟩ := tickDMA_shape (show tickDMA s rd = some s' from hs)
    rw [e1, e2, e3, e4]; exact ⟨hc, id, id, id⟩

example : (step { init with read := true } (.write 0xfe00 1)).map (fun t => (t.read, t.write, t.oam[0])) =
    some (true, false, 1) := by decide +kernel

/-! ### no call panics once the PPU has read OAM -/

/-- arguments the callers can pass: the Mapper routes FE00–FEFF to `Read`/`Write`, the PPU reads
    sprite bytes FE00–FE9F -/
def ValidOp : Op → Prop
  | .read a => 0xfe00 ≤ a.toNat ∧ a.toNat ≤ 0xfeff
  | .write a _ => 0xfe00 ≤ a.toNat ∧ a.toNat ≤ 0xfeff
  | .ppuRead a => 0xfe00 ≤ a.toNat ∧ a.toNat ≤ 0xfe9f
  | _ => True

/-- the safety invariant: `ppuLastAccess ∈ [FE00, FE9F]` and a running transfer is at a cycle ≤ 161 -/
def Safe (s : Oam) : Prop := PlaOk s ∧ DmaOk s

/-- C17 (no crash).  With `ppuLastAccess ∈ [FE00, FE9F]` (true from the first `PPURead` on) and the
    DMA engine in a reachable state, NO exported call panics – every index and slice expression of
    the four corruption functions, of `Read`, `Write`, `PPURead` and `TickDMA` is in range, for any
    combination of the flags `corrupt/read/write/doubleWrite` and any contents – and the
    invariant is kept.  (For `doubleWriteCorruption` this is the row-0 repair, see below.) -/
theorem c17_no_crash (s : Oam) (op : Op) (hs : Safe s) (hv : ValidOp op) :
    ∃ s', step s op = some s' ∧ Safe s' := by
  obtain ⟨hp, hd⟩ := hs
  cases op with
  | read a =>
    obtain ⟨h1, h2⟩ := hv
    obtain ⟨p, hpq, _⟩ := cpuRead_value (s := s) h1 h2
    refine ⟨p.1, by simp only [step, hpq]; rfl, ?_⟩
    rcases cpuRead_shape hpq with e | ⟨_, _, e⟩ <;> rw [e] <;> exact ⟨hp, hd⟩
  | write a v =>
    obtain ⟨h1, h2⟩ := hv
    have hf : PlaOk (writeFlags s) ∧ DmaOk (writeFlags s) := by
      unfold writeFlags
      split
      · split <;> exact ⟨hp, hd⟩
      · exact ⟨hp, hd⟩
    simp only [step, cpuWrite]
    split
    · next hlt =>
      rw [st_eq (by simp only [sub16]; omega)]
      exact ⟨_, rfl, hf⟩
    · exact ⟨_, rfl, hf⟩
  | ppuRead a =>
    obtain ⟨h1, h2⟩ := hv
    simp only [step, ppuRead]
    split
    · exact ⟨_, rfl, ⟨h1, h2⟩, hd⟩
    · rw [ld_eq (by simp only [sub16]; omega)]
      exact ⟨_, rfl, ⟨h1, h2⟩, hd⟩
  | trigger a =>
    refine ⟨_, rfl, ?_⟩
    unfold triggerWriteCorruption
    split
    · exact ⟨hp, hd⟩
    · split <;> exact ⟨hp, hd⟩
  | corrupt =>
    obtain ⟨s', h⟩ := corruptStep_ok hp
    refine ⟨s', h, ?_⟩
    rcases corruptStep_shape h with ⟨_, _, e⟩ | ⟨_, m, e⟩ <;> rw [e] <;> exact ⟨hp, hd⟩
  | enter => exact ⟨_, rfl, hp, hd⟩
  | exit => exact ⟨_, rfl, hp, hd⟩
  | writeDMA w => exact ⟨_, rfl, hp, fun _ => by show (0 : Addr).toNat ≤ 161; decide⟩
  | readDMA => exact ⟨_, rfl, hp, hd⟩
  | tick rd =>
    obtain ⟨s', h, hd'⟩ := tickDMA_ok rd hd
    refine ⟨s', h, ?_, hd'⟩
    have := (tickDMA_shape h).2.2.2.1
    unfold PlaOk at hp ⊢
    rw [this]; exact hp

/-- C17 (no crash, histories): after the first legal `PPURead` of a fresh `New()` object – or of
    any state whose DMA engine is in a reachable state – no history of legal calls ever panics. -/
theorem c17_no_crash_run (s : Oam) (a : Addr) (ops : List Op) (hd : DmaOk s)
    (ha : 0xfe00 ≤ a.toNat ∧ a.toNat ≤ 0xfe9f) (hv : ∀ op ∈ ops, ValidOp op) :
    ∃ s', run s (.ppuRead a :: ops) = some s' ∧ Safe s' := by
  have h0 : ∃ t, step s (.ppuRead a) = some t ∧ Safe t := by
    simp only [step, ppuRead]
    split
    · exact ⟨_, rfl, ha, hd⟩
    · rw [ld_eq (by simp only [sub16]; omega)]
      exact ⟨_, rfl, ha, hd⟩
  obtain ⟨t, ht, hst⟩ := h0
  suffices ∀ (ops : List Op) (t : Oam), Safe t → (∀ op ∈ ops, ValidOp op) →
      ∃ s', run t ops = some s' ∧ Safe s' by
    obtain ⟨s', h, hs'⟩ := this ops t hst hv
    exact ⟨s', by simp only [run, ht, Option.bind_some]; exact h, hs'⟩
  intro ops
  induction ops with
  | nil => intro t ht _; exact ⟨t, rfl, ht⟩
  | cons op ops ih =>
    intro t ht hv
    obtain ⟨u, hu, hsu⟩ := c17_no_crash t op ht (hv op List.mem_cons_self)
    obtain ⟨s', h, hs'⟩ := ih u hsu (fun o ho => hv o (List.mem_cons_of_mem _ ho))
    exact ⟨s', by simp only [run, hu, Option.bind_some]; exact h, hs'⟩

example : DmaOk init := fun h => by cases h

/-- the fresh object is NOT safe: `ppuLastAccess = 0` gives row (0 − FE00)/8 = 64, and the first
    pending trigger makes `Corrupt` index `oam[512]` (component-level only: in the whole machine the
    PPU performs a `PPURead` in the machine cycle in which the window first opens) -/
example : corruptStep { init with corrupt := true, read := true } = none := by decide +kernel
example : run init [.enter, .read 0xfe00, .corrupt] = none := by decide +kernel

/-! ### what the row-0 repair (commit 3b49160) repaired -/

/-- the OLD `doubleWriteCorruption` (`rowStart := (row − 1)·8; if rowStart < 1 return`) panics for
    every `ppuLastAccess` in row 0 (FE00–FE07), whatever OAM holds: `rowStart` wraps to 0xFFF8 -/
theorem c17_old_doubleWrite_crashes (s : Oam)
    (h : 0xfe00 ≤ s.ppuLastAccess.toNat ∧ s.ppuLastAccess.toNat ≤ 0xfe07) :
    doubleWriteCorruptionOld s = none := by
  have hrs : mul16 (sub16 (rowOf s) 1) 8 = 0xfff8 := by simp only [mul16, sub16, rowOf]; omega
  simp only [doubleWriteCorruptionOld, hrs]
  rw [if_neg (by omega), patchRow_none _ _ _ (by omega)]
  rfl

/-- … the current code returns without touching anything there, … -/
theorem c17_new_doubleWrite_row0 (s : Oam)
    (h : 0xfe00 ≤ s.ppuLastAccess.toNat ∧ s.ppuLastAccess.toNat ≤ 0xfe0f) :
    doubleWriteCorruption s = some s := by
  have hr : rowOf s < 2 := by simp only [rowOf, sub16]; omega
  simp only [doubleWriteCorruption, hr, if_true]

/-- … and for every other legal position old and new code agree. -/
theorem c17_old_new_agree (s : Oam)
    (h : 0xfe08 ≤ s.ppuLastAccess.toNat ∧ s.ppuLastAccess.toNat ≤ 0xfe9f) :
    doubleWriteCorruptionOld s = doubleWriteCorruption s := by
  simp only [doubleWriteCorruptionOld, doubleWriteCorruption]
  have hr : 1 ≤ rowOf s ∧ rowOf s < 20 := by simp only [rowOf, sub16]; omega
  by_cases h1 : rowOf s = 1
  · have : mul16 (sub16 (rowOf s) 1) 8 = 0 := by simp only [mul16, sub16, h1]
    rw [this, h1]; rfl
  · have h2 : ¬ rowOf s < 2 := by omega
    have h3 : ¬ mul16 (sub16 (rowOf s) 1) 8 < 1 := by simp only [mul16, sub16]; omega
    rw [if_neg h2, if_neg h3]

/-- the crash of the old code through the exported API, PPU on row 0 (FE00..FE07), two writes in
    the window, then `Corrupt` -/
example : ∀ i : Fin 8,
    (doubleWriteCorruptionOld { init with ppuLastAccess := 0xfe00 + BitVec.ofNat 16 i.val, corrupt := true, write := true, doubleWrite := true }) = none := by
  decide +kernel
example : ∀ i : Fin 8,
    (run init [.ppuRead (0xfe00 + BitVec.ofNat 16 i.val), .enter, .write 0xfe10 1, .write 0xfe11 2,
      .corrupt]).isSome = true := by decide +kernel

end Tetro.C17
