import Tetro.Lemmas.Lcd
/-
C14 – VBlank and STAT interrupts are requested exactly at their conditions.

Requests are the two output bits of a machine cycle of the model (`TickRes.vbl`, `TickRes.stat` =
the calls of `RequestVblank` / `RequestStat` during `EndMachineCycle`; the harness observes them
by clearing IF after every cycle).  The simulation of `Lemmas/Lcd.lean` gives, for every schedule,
the exact requests of the NEXT cycle in terms of the closed form of `Spec.Lcd`; the theorems below
are its readings: the general acceptance relation (`c14_requests`), the VBlank interrupt, each
single STAT source with constant enables and constant LYC from switch-on, and silence while off.

Cycle numbering: cycle `k ≥ 1` is the k-th machine cycle after the LCD was switched on.
-/
namespace Tetro.C14
open Tetro.Model.Lcd Tetro.Spec.Lcd Tetro.LcdLemmas

/-! ### the events of the closed form, spelled out -/

/-- **once per frame**: line 144 begins exactly at the cycles ≡ 16 415 (mod 17 556) -/
theorem c14_vblank_once (k : Nat) : vblankBegins k ↔ k % 17556 = 16415 := by
  unfold vblankBegins lineBegins lyAt lyOfPhase phase; split <;> omega

/-- the mode becomes 0 exactly at line cycle 61 of the lines 0–143 (cycle 62 of the first line) -/
theorem c14_hblank_points (k : Nat) (hk : 1 ≤ k) :
    hblankBegins k ↔ (phase k % 114 = 61 ∧ lyAt k < 144) := by
  obtain ⟨n, rfl⟩ : ∃ n, k = n + 1 := ⟨k - 1, by omega⟩
  have A := adj n
  have E := hbl_event _ _ A
  unfold hblankBegins modeAt lyAt lyOfPhase
  simp only [Nat.add_sub_cancel]
  rw [← E]
  have hm := mode_step _ _ A
  have h4 := mode_lt4 (phase n)
  constructor
  · rintro ⟨h3, h61⟩
    refine ⟨h61, ?_⟩
    rw [h3] at hm
    have : modeOfPhase (phase (n + 1)) = 0 := by
      rw [← hm]; unfold nextMode; simp [h61]
    unfold modeOfPhase at this; repeat' split at this
    all_goals omega
  · rintro ⟨h61, hly⟩
    refine ⟨?_, h61⟩
    obtain ⟨ha, h | ⟨h1, h2⟩ | ⟨h1, h2⟩⟩ := A
    · rw [h] at h61 hly; unfold modeOfPhase; repeat' split
      all_goals omega
    · rw [h2] at h61; omega
    · rw [h2] at h61; omega

/-- for every cycle but the first, "the mode changes into 2" (what the code tests) is the same as
    "one of the lines 0–143 begins" (what the property says) -/
theorem c14_oam_points (k : Nat) (hk : 2 ≤ k) : modeInto2 k ↔ oamLineBegins k := by
  obtain ⟨n, rfl⟩ : ∃ n, k = n + 1 := ⟨k - 1, by omega⟩
  have A := adj n
  unfold modeInto2 oamLineBegins lineBegins modeAt lyAt lyOfPhase
  simp only [Nat.add_sub_cancel]
  obtain ⟨ha, h | ⟨h1, h2⟩ | ⟨h1, h2⟩⟩ := A
  · rw [h]; unfold modeOfPhase; repeat' split
    all_goals omega
  · exfalso; unfold phase at h1 h2; repeat' split at h1
    all_goals (repeat' split at h2)
    all_goals omega
  · rw [h1, h2]; decide

/-- a line whose number equals LYC begins once per frame for LYC ≤ 153 (for LYC = 0 also at the
    first cycle after switch-on) … -/
theorem c14_lyc_points (c k : Nat) (hk : 1 ≤ k) :
    lycLineBegins c k ↔ ((c = 0 ∧ k = 1) ∨ (63 ≤ k ∧ c ≤ 153 ∧ (k + 1) % 17556 = 114 * c)) := by
  unfold lycLineBegins lineBegins lyAt lyOfPhase phase; split <;> omega

/-- … and never for LYC ≥ 154 -/
theorem c14_lyc_never (c k : Nat) (hc : 154 ≤ c) : ¬ lycLineBegins c k := by
  have := phase_lt k
  unfold lycLineBegins lyAt lyOfPhase; omega

/-- for every cycle but the first, "a line begins whose number is LYC" is the rising edge of
    LY = LYC -/
theorem c14_lyc_edge (c k : Nat) (hk : 2 ≤ k) :
    lycLineBegins c k ↔ (lyAt k = c ∧ lyAt (k - 1) ≠ c) := by
  obtain ⟨n, rfl⟩ : ∃ n, k = n + 1 := ⟨k - 1, by omega⟩
  simp only [Nat.add_sub_cancel]
  unfold lycLineBegins lineBegins lyAt lyOfPhase phase
  repeat' split
  all_goals omega

/-! ### the model's requests, for every schedule -/

private theorem exact_ok (s : St) (r : Bool) (h : r = true ↔ statExact s) : statReqOk s r := by
  unfold statReqOk; unfold statExact at h
  cases hs : s.since with
  | none => simp only [hs] at h ⊢; cases r <;> simp_all
  | some n =>
    simp only [hs] at h ⊢
    by_cases hu : oamUnspecified (n + 1)
    · refine ⟨decide (modeInto2 (n + 1)), ?_⟩
      simp only [hu, if_true, decide_eq_true_eq]; exact h
    · refine ⟨false, ?_⟩
      simp only [hu, if_false]
      have h2 : 2 ≤ n + 1 := by
        unfold oamUnspecified at hu
        have : n + 1 ≠ 1 := fun e => hu (Or.inl e)
        omega
      rw [← c14_oam_points _ h2]; exact h

/-- **C14 (general).**  After ANY schedule from power-on (any STAT enables, any LYC, LCD switched
    at arbitrary cycles) the next machine cycle does not panic, requests VBlank exactly when line
    144 begins with it, and its STAT request satisfies the acceptance relation `statReqOk`: the OR
    of the enabled sources' events, the OAM source being free at its two unspecified points. -/
theorem c14_requests (ops : List Op) :
    ∃ q r, run init ops = some q ∧ tick q = some r ∧
      (r.vbl = true ↔ vblankReq (specRun St.init ops)) ∧ statReqOk (specRun St.init ops) r.stat := by
  obtain ⟨q, r, hq, _, hr, _, hout⟩ := run_then_step ops .tick
  exact ⟨q, r, hq, hr, hout.1, exact_ok _ _ hout.2⟩

/-- the model's exact choice at the unspecified points of the OAM source: no request at the first
    cycle after switch-on and none at the start of line 144 (documented for the record; the
    property allows either) -/
theorem c14_oam_unspecified_choice (k : Nat) (h : oamUnspecified k) : ¬ modeInto2 k := by
  rcases h with h | h
  · subst h; decide
  · rw [c14_vblank_once] at h
    unfold modeInto2 modeAt modeOfPhase phase
    repeat' split
    all_goals omega

/-- **C14 (VBlank).**  After any schedule, the next cycle requests the VBlank interrupt iff the
    LCD is on and line 144 begins with that cycle – by `c14_vblank_once` exactly once per frame. -/
theorem c14_vblank (ops : List Op) :
    ∃ q r, run init ops = some q ∧ tick q = some r ∧
      (r.vbl = true ↔ ∃ n, sinceOf ops = some n ∧ vblankBegins (n + 1)) := by
  obtain ⟨q, r, hq, hr, hv, _⟩ := c14_requests ops
  refine ⟨q, r, hq, hr, ?_⟩
  rw [hv]; unfold vblankReq; rw [specRun_init_since]
  cases sinceOf ops <;> simp

/-- **C14 (off).**  While the LCD is off a machine cycle requests nothing and changes nothing,
    whatever the schedule before and whatever the STAT enables and LYC. -/
theorem c14_off_silent (ops : List Op) (hoff : sinceOf ops = none) :
    ∃ q r, run init ops = some q ∧ tick q = some r ∧ r.vbl = false ∧ r.stat = false ∧ r.p = q := by
  obtain ⟨q, r, hq, hrel, hr, _, hout⟩ := run_then_step ops .tick
  have hs := specRun_init_since ops
  rw [hoff] at hs
  refine ⟨q, r, hq, hr, ?_, ?_, ?_⟩
  · have := hout.1; simp only [vblankReq, hs] at this
    cases h : r.vbl <;> simp_all
  · have := hout.2; simp only [statExact, hs] at this
    cases h : r.stat <;> simp_all
  · unfold Rel at hrel; rw [hs] at hrel
    have he := hrel.2.2.2.2.2.1
    simp only [step, tick, he, if_true] at hr
    cases hr; rfl

example : sinceOf [.tick, .wSTAT 0x78, .wLCDC 0x11, .tick, .wLYC 0] = none := by decide

/-- register writes never request anything -/
theorem c14_writes_silent (p : Ppu) (op : Op) (hop : op ≠ .tick) (r : TickRes)
    (h : step p op = some r) : r.vbl = false ∧ r.stat = false := by
  cases op with
  | tick => exact absurd rfl hop
  | _ => simp only [step, Option.some.injEq] at h; subst h; exact ⟨rfl, rfl⟩

/-! ### a single STAT source, constant enables and constant LYC, from switch-on -/

/-- after an arbitrary prefix: LCD off, program STAT and LYC, LCD on, then `k` machine cycles -/
def sched (pre : List Op) (s c k : Nat) : List Op :=
  pre ++ [.wLCDC 0x11, .wSTAT s, .wLYC c, .wLCDC 0x91] ++ List.replicate k .tick

/-- the four STAT enable bits of `s` (HBlank, VBlank, OAM, LYC) -/
def Enables (s : Nat) (hbl vbl oam lyc : Bool) : Prop :=
  s.testBit 3 = hbl ∧ s.testBit 4 = vbl ∧ s.testBit 5 = oam ∧ s.testBit 6 = lyc

instance (s : Nat) (a b c d : Bool) : Decidable (Enables s a b c d) := by
  unfold Enables; infer_instance

private theorem spec_sched (pre : List Op) (s c k : Nat) :
    (specRun St.init (sched pre s c k)).since = some k ∧
    (specRun St.init (sched pre s c k)).stat = s ∧
    (specRun St.init (sched pre s c k)).lyc = c % 256 := by
  unfold sched
  rw [specRun_append, specRun_append]
  generalize specRun St.init pre = s0
  have h1 : (0x11 : Nat).testBit 7 = false := by decide
  have h2 : (0x91 : Nat).testBit 7 = true := by decide
  have hs : (specRun s0 [.wLCDC 0x11, .wSTAT s, .wLYC c, .wLCDC 0x91]).since = some 0 := by
    simp only [specRun, List.foldl_cons, List.foldl_nil, specStep, St.writeLCDC, St.writeSTAT,
      St.writeLYC, h1, h2]
    cases s0.since <;> rfl
  obtain ⟨a, b, c'⟩ := specRun_ticks k _ 0 hs
  refine ⟨by rw [a]; simp, ?_, ?_⟩
  · rw [b]; rfl
  · rw [c']; rfl

/-- the next cycle after `sched pre s c k` is cycle `k + 1`; its STAT request is exactly … -/
private theorem stat_sched (pre : List Op) (s c k : Nat) :
    ∃ q r, run init (sched pre s c k) = some q ∧ tick q = some r ∧
      (r.stat = true ↔
        ((s.testBit 3 = true ∧ hblankBegins (k + 1)) ∨ (s.testBit 4 = true ∧ vblankBegins (k + 1)) ∨
         (s.testBit 6 = true ∧ lycLineBegins (c % 256) (k + 1))) ∨
        (s.testBit 5 = true ∧ modeInto2 (k + 1))) := by
  obtain ⟨q, r, hq, _, hr, _, hout⟩ := run_then_step (sched pre s c k) .tick
  obtain ⟨e1, e2, e3⟩ := spec_sched pre s c k
  refine ⟨q, r, hq, hr, ?_⟩
  have := hout.2
  simp only [statExact, e1, statDetermined, St.hblEn, St.vblEn, St.oamEn, St.lycEn, e2, e3] at this
  exact this

/-- **C14 (HBlank source).**  Only the HBlank source enabled: the cycle `k+1` after switch-on
    requests STAT iff the mode becomes 0 with it (for all `k`, all LYC). -/
theorem c14_stat_hblank (pre : List Op) (s c k : Nat) (hs : Enables s true false false false) :
    ∃ q r, run init (sched pre s c k) = some q ∧ tick q = some r ∧
      (r.stat = true ↔ hblankBegins (k + 1)) := by
  obtain ⟨q, r, hq, hr, h⟩ := stat_sched pre s c k
  obtain ⟨h3, h4, h5, h6⟩ := hs
  refine ⟨q, r, hq, hr, ?_⟩
  rw [h, h3, h4, h5, h6]; simp

/-- **C14 (VBlank source).**  Only the VBlank source enabled: STAT is requested iff line 144
    begins. -/
theorem c14_stat_vblank (pre : List Op) (s c k : Nat) (hs : Enables s false true false false) :
    ∃ q r, run init (sched pre s c k) = some q ∧ tick q = some r ∧
      (r.stat = true ↔ vblankBegins (k + 1)) := by
  obtain ⟨q, r, hq, hr, h⟩ := stat_sched pre s c k
  obtain ⟨h3, h4, h5, h6⟩ := hs
  refine ⟨q, r, hq, hr, ?_⟩
  rw [h, h3, h4, h5, h6]; simp

/-- **C14 (OAM source).**  Only the OAM source enabled: from the second cycle after switch-on,
    STAT is requested iff one of the lines 0–143 begins (including line 0 at every frame wrap –
    the 1→2 arm fixed in 94392db).  The first cycle (line 0 directly after switch-on) is
    unspecified; line 144 is unspecified too but the statement covers it: nothing is requested. -/
theorem c14_stat_oam (pre : List Op) (s c k : Nat) (hs : Enables s false false true false)
    (hk : 1 ≤ k) :
    ∃ q r, run init (sched pre s c k) = some q ∧ tick q = some r ∧
      (r.stat = true ↔ oamLineBegins (k + 1)) := by
  obtain ⟨q, r, hq, hr, h⟩ := stat_sched pre s c k
  obtain ⟨h3, h4, h5, h6⟩ := hs
  refine ⟨q, r, hq, hr, ?_⟩
  rw [h, h3, h4, h5, h6, c14_oam_points _ (by omega)]; simp

/-- **C14 (LYC source).**  Only the coincidence source enabled, LYC = `c` for every byte `c`:
    STAT is requested iff a line begins whose number equals LYC (including the first cycle after
    switch-on for LYC = 0); by `c14_lyc_points` once per frame for `c ≤ 153`, by `c14_lyc_never`
    never for `c ≥ 154`. -/
theorem c14_stat_lyc (pre : List Op) (s c k : Nat) (hs : Enables s false false false true)
    (hc : c < 256) :
    ∃ q r, run init (sched pre s c k) = some q ∧ tick q = some r ∧
      (r.stat = true ↔ lycLineBegins c (k + 1)) := by
  obtain ⟨q, r, hq, hr, h⟩ := stat_sched pre s c k
  obtain ⟨h3, h4, h5, h6⟩ := hs
  refine ⟨q, r, hq, hr, ?_⟩
  rw [h, h3, h4, h5, h6, Nat.mod_eq_of_lt hc]; simp

/-- no source enabled: never a STAT request -/
theorem c14_stat_none (pre : List Op) (s c k : Nat) (hs : Enables s false false false false) :
    ∃ q r, run init (sched pre s c k) = some q ∧ tick q = some r ∧ r.stat = false := by
  obtain ⟨q, r, hq, hr, h⟩ := stat_sched pre s c k
  obtain ⟨h3, h4, h5, h6⟩ := hs
  refine ⟨q, r, hq, hr, ?_⟩
  rw [h3, h4, h5, h6] at h
  cases hr' : r.stat <;> simp_all

/-! non-vacuity: the enable patterns are inhabited, and each event really occurs -/
example : Enables 0x08 true false false false ∧ Enables 0x10 false true false false ∧
    Enables 0x20 false false true false ∧ Enables 0x40 false false false true ∧
    Enables 0x87 false false false false := by decide
example : hblankBegins 62 ∧ ¬ hblankBegins 61 ∧ hblankBegins (113 + 61) ∧
    vblankBegins 16415 ∧ ¬ vblankBegins 16416 ∧ vblankBegins (16415 + 17556) ∧
    oamLineBegins 113 ∧ oamLineBegins 17555 ∧ ¬ oamLineBegins 16415 ∧
    lycLineBegins 0 1 ∧ lycLineBegins 0 17555 ∧ lycLineBegins 153 17441 ∧ lycLineBegins 1 113 := by
  decide

end Tetro.C14
