import Tetro.Model.Apu
import Tetro.Spec.Apu
import Tetro.Lemmas.ApuRegs
import Tetro.Lemmas.ApuStatus
import Tetro.Lemmas.ApuRam
/-
C18 – sound registers read back through their masks and obey APU power.

`Spec.Apu.Regs` is the documentation-shaped register file (power flag + last written byte per
register, cleared by power-off).  The code model is related to it by the simulation relation
`C18.R` (Lemmas/ApuRegs.lean): every readable field of the model is the documented decoding of
the last written byte.  The relation is preserved by every bus write to FF10–FF3F (all 256
values, power on or off), by NR52 power toggles and by machine cycles (timers, frame
sequencer, sweep, envelopes, length counters and triggers never touch a readable field).

History: before /repo commit 636f923 `audio.New` left `sweepIncrease` false (its register
initialisation runs while `control.on` is still false and is ignored), so NR10 read 0x88 until it
was first written or sound was power-cycled; `c18_readback` then carried a hypothesis `NR10Settled`
for address FF10 and a theorem `c18_new_nr10_reads_88` recorded the deviation.  With the fix the
sweep unit is created with `sweepIncrease: true`, the state after New is related to the cleared
register file `Regs.init`, and the read-back theorem holds without that hypothesis
(`c18_new_nr10_reads_80`).
-/
namespace Tetro.C18
open Tetro.Model.Apu Tetro.Model.Apu.Apu Tetro.Spec.Apu

/-- the abstract register file follows the same history: writes are remembered, cycles do nothing -/
def specStep (r : Regs) : Op → Regs
  | .write a v => r.write a v
  | .cycle => r

def specRun (r : Regs) (ops : List Op) : Regs := ops.foldl specStep r

/-- register file after a history that starts at power-on with cleared registers -/
def lastWritten (ops : List Op) : Regs := specRun Regs.init ops

private theorem spec_write_mod (r : Regs) (addr v : Nat) : r.write addr (v % 256) = r.write addr v := by
  simp [Regs.write]

private theorem R_step {a : Apu} {sp : Regs} (op : Op) (h : R a sp) : R (a.step op) (specStep sp op) := by
  cases op with
  | write ad v =>
    show R (a.writeB ad (v % 256)) (sp.write ad v)
    rw [← spec_write_mod]
    exact R_writeB ad (v % 256) (Nat.mod_lt _ (by decide)) h
  | cycle => exact R_cycle h

private theorem R_run {a : Apu} {sp : Regs} (ops : List Op) (h : R a sp) : R (a.run ops) (specRun sp ops) := by
  induction ops generalizing a sp with
  | nil => exact h
  | cons op ops ih => exact ih (R_step op h)

private theorem R_new (hl hr : Bool) : R (Apu.new hl hr) Regs.init := by
  constructor
  all_goals first
    | (cases hl <;> cases hr <;> decide)
    | (intro x; simp only [Regs.init]; decide)

/-- readback in the general form: from ANY model state related to a register file, after ANY
    history, each of the 20 registers reads `last written ||| mask` -/
theorem c18_readback_from {a : Apu} {sp : Regs} (h : R a sp) (ops : List Op) (addr m : Nat)
    (hm : mask addr = some m) :
    (a.run ops).read addr = some ((specRun sp ops).val addr ||| m) :=
  R_read (R_run ops h) addr m hm

private theorem specRun_append (r : Regs) (xs ys : List Op) : specRun r (xs ++ ys) = specRun (specRun r xs) ys := by
  simp [specRun, List.foldl_append]

/-- **C18 (read-back).**  After `audio.New` and ANY history of bus writes (any address FF10–FF3F,
    any value, including NR52 power toggles) and machine cycles, each of the 20 registers NR10–NR51
    reads the byte last written to it while sound was on (0 if none since New or the last
    power-off) ORed with its DMG mask. -/
theorem c18_readback (hl hr : Bool) (ops : List Op) (addr m : Nat) (hm : mask addr = some m) :
    ((Apu.new hl hr).run ops).read addr = some ((lastWritten ops).val addr ||| m) :=
  c18_readback_from (R_new hl hr) ops addr m hm

/-- non-vacuity: writes, a trigger, cycles and a power cycle; NR12 still reads the later 0xA5 -/
example : ((Apu.new true true).run [.write 0xFF12 0xF3, .write 0xFF14 0x87, .cycle, .write 0xFF26 0x00,
    .write 0xFF12 0x55, .write 0xFF26 0x80, .write 0xFF12 0xA5, .cycle]).read 0xFF12 = some 0xA5 := by decide +kernel

/-- the power flag of the model follows the abstract register file -/
theorem c18_power (hl hr : Bool) (ops : List Op) :
    ((Apu.new hl hr).run ops).control.on = (lastWritten ops).on := by
  exact R.on (R_run ops (R_new hl hr))

private theorem specRun_cycles (r : Regs) (n : Nat) : specRun r (List.replicate n Op.cycle) = r := by
  induction n with
  | zero => rfl
  | succ k ih => simpa [specRun, List.replicate_succ, specStep] using ih

/-- right after `audio.New`, and after any number of machine cycles, NR10 reads its mask 0x80
    (before fix 636f923 the model – like the code – read 0x88 here) -/
theorem c18_new_nr10_reads_80 (hl hr : Bool) (n : Nat) :
    ((Apu.new hl hr).run (List.replicate n Op.cycle)).read 0xFF10 = some 0x80 := by
  rw [c18_readback_from (R_new hl hr) (List.replicate n Op.cycle) 0xFF10 0x80 (by decide), specRun_cycles]
  decide

/-- **C18 (NR52).**  In every state NR52 reads 0x70, the power bit and the four status bits -/
theorem c18_nr52 (a : Apu) :
    a.read 0xFF26 = some (nr52Value a.control.on a.ch1.enabled a.ch2.enabled a.ch3.enabled a.ch4.enabled) := by
  show some a.readNR52 = _
  unfold readNR52 nr52Value
  cases a.control.on <;> cases a.ch1.enabled <;> cases a.ch2.enabled <;> cases a.ch3.enabled <;> cases a.ch4.enabled <;> rfl

/-- while sound is off no channel is on: invariant over all histories -/
private def OffQuiet (a : Apu) : Prop := a.control.on = false → a.status = (false, false, false, false)

private theorem on_writeB_ne52 (a : Apu) (addr v : Nat) (h : addr ≠ 0xFF26) : (a.writeB addr v).control.on = a.control.on := by
  rcases addr_cases addr with e|e|e|e|e|e|e|e|e|e|e|e|e|e|e|e|e|e|e|e|e|⟨hn, _⟩
  all_goals (try (subst e))
  all_goals (try rw_writeB)
  all_goals first
    | (exact absurd rfl h)
    | (rw [writeB_other _ _ _ hn h]; repeat' split
       all_goals rfl)
    | (simp only [writeNR10, writeNR11, writeNR12, writeNR13, writeNR14, writeNR21, writeNR22, writeNR23, writeNR24,
        writeNR30, writeNR31, writeNR32, writeNR33, writeNR34, writeNR41, writeNR42, writeNR43, writeNR44, writeNR50,
        writeNR51, ctlWriteNR50, ctlWriteNR51]
       repeat' split
       all_goals rfl)

/-- **C18 (off ⇒ ignored).**  While sound is off a write to any address other than NR52, the four
    length registers and wave RAM leaves the WHOLE state unchanged – so nothing readable changes,
    now or after the next power-on. -/
theorem c18_off_ignored (a : Apu) (addr v : Nat) (hoff : a.control.on = false)
    (h52 : addr ≠ 0xFF26) (hlen : addr ≠ 0xFF11 ∧ addr ≠ 0xFF16 ∧ addr ≠ 0xFF1B ∧ addr ≠ 0xFF20)
    (hram : ¬(0xFF30 ≤ addr ∧ addr < 0xFF40)) :
    a.write addr v = a := by
  unfold Apu.write
  generalize v % 256 = w
  rcases addr_cases addr with e|e|e|e|e|e|e|e|e|e|e|e|e|e|e|e|e|e|e|e|e|⟨hn, _⟩
  all_goals (try (subst e))
  all_goals (try rw_writeB)
  all_goals first
    | (exact absurd rfl h52)
    | (exact absurd rfl hlen.1) | (exact absurd rfl hlen.2.1) | (exact absurd rfl hlen.2.2.1) | (exact absurd rfl hlen.2.2.2)
    | (rw [writeB_other _ _ _ hn h52]; repeat' split
       all_goals (first | rfl | omega))
    | (simp [writeNR10, writeNR12, writeNR13, writeNR14, writeNR22, writeNR23, writeNR24,
        writeNR30, writeNR32, writeNR33, writeNR34, writeNR42, writeNR43, writeNR44, writeNR50,
        writeNR51, hoff])

/-- … and a write to a length register while off changes the length counter only -/
theorem c18_off_length_only (a : Apu) (v : Nat) (hoff : a.control.on = false) :
    a.write 0xFF11 v = { a with ch1 := { a.ch1 with length := 64 - v % 256 % 64 } } ∧
    a.write 0xFF16 v = { a with ch2 := { a.ch2 with length := 64 - v % 256 % 64 } } ∧
    a.write 0xFF1B v = { a with ch3 := { a.ch3 with length := sub16 256 (v % 256) } } ∧
    a.write 0xFF20 v = { a with ch4 := { a.ch4 with length := 64 - v % 256 % 64 } } := by
  refine ⟨?_, ?_, ?_, ?_⟩
  · show a.writeNR11 (v % 256) = _; simp [writeNR11, sqWriteNRx1, hoff]
  · show a.writeNR21 (v % 256) = _; simp [writeNR21, sqWriteNRx1, hoff]
  · show a.writeNR31 (v % 256) = _; simp [writeNR31, Wave.writeNR31]
  · show a.writeNR41 (v % 256) = _; simp [writeNR41, Noise.writeNR41]

/-- non-vacuity of the hypotheses: a powered-off state, an NR12 write -/
example : ((Apu.new false false).write 0xFF26 0).control.on = false ∧
    ((Apu.new false false).write 0xFF26 0).write 0xFF12 0xF3 = (Apu.new false false).write 0xFF26 0 := by decide

private theorem offQuiet_step {a : Apu} (op : Op) (h : OffQuiet a) : OffQuiet (a.step op) := by
  cases op with
  | cycle =>
    intro hoff
    have hon : a.endMachineCycle.control = a.control := by
      have := regView_endMachineCycle a; simp only [regView, RegView.mk.injEq] at this; exact this.2.2.2.2.2
    have h0 := h (by rw [← hon]; exact hoff)
    have hle := status_endMachineCycle a
    rw [h0] at hle
    obtain ⟨l1, l2, l3, l4⟩ := hle
    show a.endMachineCycle.status = _
    generalize a.endMachineCycle.status = st at l1 l2 l3 l4
    obtain ⟨s1, s2, s3, s4⟩ := st
    cases s1 <;> cases s2 <;> cases s3 <;> cases s4 <;> simp_all
  | write ad v =>
    intro hoff
    show (a.writeB ad (v % 256)).status = _
    by_cases e : ad = 0xFF26
    · subst e
      rw [writeB_FF26]; unfold writeNR52; split
      · exact powerOff_status a
      · exfalso
        have : (a.writeB 0xFF26 (v % 256)).control.on = true := by
          rw [writeB_FF26]; unfold writeNR52; rw [if_neg (by assumption)]; unfold powerOn; split <;> rfl
        have h2 : (a.writeB 0xFF26 (v % 256)).control.on = false := hoff
        rw [this] at h2; cases h2
    · have hon : a.control.on = false := by
        have := on_writeB_ne52 a ad (v % 256) e
        rw [← this]; exact hoff
      have h0 := h hon
      by_cases hlen : ad ≠ 0xFF11 ∧ ad ≠ 0xFF16 ∧ ad ≠ 0xFF1B ∧ ad ≠ 0xFF20
      · by_cases hram : 0xFF30 ≤ ad ∧ ad < 0xFF40
        · have hn : NotReg ad := by unfold NotReg; omega
          rw [writeB_other _ _ _ hn e]
          repeat' split
          all_goals (first | exact h0 | skip)
          simp only [writeWaveRAM, status, Wave.writeRam] at *
          repeat' split
          all_goals exact h0
        · have := c18_off_ignored a ad v hon e hlen hram
          unfold Apu.write at this; rw [this]; exact h0
      · have hl := c18_off_length_only a v hon
        unfold Apu.write at hl
        have : ad = 0xFF11 ∨ ad = 0xFF16 ∨ ad = 0xFF1B ∨ ad = 0xFF20 := by omega
        rcases this with e'|e'|e'|e' <;> subst e'
        · rw [hl.1]; exact h0
        · rw [hl.2.1]; exact h0
        · rw [hl.2.2.1]; exact h0
        · rw [hl.2.2.2]; exact h0

private theorem offQuiet_run {a : Apu} (ops : List Op) (h : OffQuiet a) : OffQuiet (a.run ops) := by
  induction ops generalizing a with
  | nil => exact h
  | cons op ops ih => exact ih (offQuiet_step op h)

/-- **C18 (NR52 while off).**  After any history, if sound is off NR52 reads exactly 0x70 -/
theorem c18_nr52_off (hl hr : Bool) (ops : List Op) (hoff : ((Apu.new hl hr).run ops).control.on = false) :
    ((Apu.new hl hr).run ops).read 0xFF26 = some 0x70 := by
  have hq : OffQuiet (Apu.new hl hr) := by
    intro h; exfalso; revert h; cases hl <;> cases hr <;> decide
  have := offQuiet_run ops hq hoff
  simp only [status, Prod.mk.injEq] at this
  rw [c18_nr52, hoff, this.1, this.2.1, this.2.2.1, this.2.2.2]; rfl

/-- **C18 (power off ⇒ masks).**  After any history, a write to NR52 with bit 7 clear makes every
    one of the 20 registers read exactly its mask, and NR52 read 0x70; this stays so during any
    number of machine cycles and ignored writes that follow (by `c18_readback`). -/
theorem c18_off_masks (hl hr : Bool) (ops : List Op) (v : Nat) (hv : v % 256 < 128) :
    (∀ addr m, mask addr = some m → ((Apu.new hl hr).run (ops ++ [.write 0xFF26 v])).read addr = some m) ∧
    ((Apu.new hl hr).run (ops ++ [.write 0xFF26 v])).read 0xFF26 = some 0x70 := by
  have hspec : specRun Regs.init (ops ++ [.write 0xFF26 v]) = ⟨false, fun _ => 0⟩ := by
    rw [specRun_append]
    show (specRun Regs.init ops).write 0xFF26 v = _
    simp [Regs.write, NR52, hv]
  constructor
  · intro addr m hm
    rw [c18_readback_from (R_new hl hr) _ addr m hm, hspec]
    simp
  · apply c18_nr52_off
    rw [R.on (R_run _ (R_new hl hr)), hspec]

/-- **C18 (wave RAM persists).**  Wave RAM is changed only by writes to FF30–FF3F and by a trigger
    of channel 3 (NR34 bit 7, the DMG corruption quirk): every other history – NR52 power cycles
    included, all other register writes, any number of machine cycles – leaves all 16 bytes as
    they were … -/
theorem c18_wave_persist (a : Apu) (ops : List Op)
    (h : ∀ op ∈ ops, match op with
      | .write ad v => ¬(0xFF30 ≤ ad ∧ ad < 0xFF40) ∧ ¬(ad = 0xFF1E ∧ v % 256 ≥ 128)
      | .cycle => True) :
    (a.run ops).ch3.waveram = a.ch3.waveram := by
  induction ops generalizing a with
  | nil => rfl
  | cons op ops ih =>
    have hop := h op (List.mem_cons_self ..)
    have hrest : ∀ op' ∈ ops, match op' with
      | .write ad v => ¬(0xFF30 ≤ ad ∧ ad < 0xFF40) ∧ ¬(ad = 0xFF1E ∧ v % 256 ≥ 128)
      | .cycle => True := fun op' hm => h op' (List.mem_cons_of_mem _ hm)
    show ((a.step op).run ops).ch3.waveram = _
    rw [ih (a.step op) hrest]
    cases op with
    | cycle => exact ram_endMachineCycle a
    | write ad v =>
      simp only at hop
      refine ram_writeB a ad (v % 256) hop.1 (fun hc => hop.2 ⟨hc.1, ?_⟩)
      have := hc.2
      simp only [trigOf, decide_eq_true_eq] at this
      omega

/-- … and while channel 3 is off (which it is whenever sound is off, `c18_nr52_off`) a read of
    FF30–FF3F returns exactly the stored byte. -/
theorem c18_wave_read (a : Apu) (i : Nat) (hi : i < 16) (hoff : a.ch3.enabled = false) :
    a.read (0xFF30 + i) = some (ramGet a.ch3.waveram i) := by
  have hn : NotReg (0xFF30 + i) := by unfold NotReg; omega
  rw [read_other _ _ hn (by omega)]
  have h1 : ¬ (0xFF30 + i < 0xFF30) := by omega
  have h2 : 0xFF30 + i < 0xFF40 := by omega
  have h3 : 0xFF30 + i - 0xFF30 = i := by omega
  simp only [if_neg h1, if_pos h2, h3, Wave.readRam, hoff, if_pos hi]
  rfl

/-- non-vacuity / the two together: a byte written to wave RAM is read back unchanged after a
    power-off, a power-on, register writes and machine cycles -/
example : (((Apu.new true true).write 0xFF26 0).run [.write 0xFF33 0x5A, .write 0xFF26 0x80, .write 0xFF1A 0x80,
    .write 0xFF1E 0x47, .cycle, .write 0xFF26 0x00, .cycle, .write 0xFF26 0x80]).read 0xFF33 = some 0x5A := by
  decide +kernel

end Tetro.C18
