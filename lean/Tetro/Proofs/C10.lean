import Tetro.Model.Rtc
import Tetro.Spec.Rtc
import Tetro.Lemmas.RtcSim
import Tetro.Lemmas.CartBits
import Tetro.Proofs.C09
/-
C10 – the MBC3 real-time clock keeps time and latches correctly.

* `c10_increment`        one second on valid fields = +1 on the number of seconds modulo 512 days,
                         carry set exactly on the wrap;
* `c10_increment_refines`/`c10_invalid_wrap`  for ALL 6/6/5/9-bit field values the step is the
                         documented counter cascade: out-of-range fields count up inside their bit
                         width and wrap to 0 without carrying;
* `c10_rate`, `c10_halt` time base: exactly ⌊(t0+n)/1048576⌋ seconds after n machine cycles, none
                         while halted;
* `c10_latch`            for every history, every register read returns the masked field of the
                         counters as they were at the most recent 0-then-1 latch write;
* `c10_write`            register writes set the live counters; a seconds write restarts the
                         sub-second count;
* `c10_mbc3_clock_read`  the same through the MBC3 and the bus (with C09).
-/
namespace Tetro.C10
open Tetro.Model Tetro.CartBits Tetro.RtcSim
open Tetro.Spec.Rtc (Clock toSeconds period Valid InWidth second bump readReg writeReg armed latchPoint)

/-- the live counters of a model state, as the specification's clock -/
def live (r : Rtc.St) : Clock :=
  { s := r.s, m := r.m, h := r.h, d := r.d, carry := r.carry, halt := r.halt }

/-- the latched copy -/
def latched (r : Rtc.St) : Clock :=
  { s := r.ls, m := r.lm, h := r.lh, d := r.ld, carry := r.lcarry, halt := r.lhalt }

/-! ### one second -/

/-- For ALL field values inside the register widths (64·64·32·512 states × carry × halt) the code's
    `increment` is the documented cascade of counter stages. -/
theorem c10_increment_refines (r : Rtc.St) (hw : InWidth (live r)) :
    live (Rtc.increment r) = second (live r) := by
  obtain ⟨h1, h2, h3, h4⟩ := hw
  simp only [live] at h1 h2 h3 h4
  have e1 : ((r.s + 1) % 256 = 60) = (r.s = 59) := propext (by omega)
  have e2 : ((r.m + 1) % 256 = 60) = (r.m = 59) := propext (by omega)
  have e3 : ((r.h + 1) % 256 = 24) = (r.h = 23) := propext (by omega)
  have e4 : ((r.d + 1) % 65536 = 512) = (r.d = 511) := propext (by omega)
  simp only [Rtc.increment, Rtc.incSeconds, Rtc.incMinutes, Rtc.incHours, Rtc.incDays, Rtc.maskFields,
    and_3f, and_1f, and_1ff, live, second, bump, e1, e2, e3, e4]
  by_cases c1 : r.s = 59 <;> by_cases c2 : r.m = 59 <;> by_cases c3 : r.h = 23 <;> by_cases c4 : r.d = 511
  all_goals simp [c1, c2, c3, c4]
  all_goals omega

/-- `increment` touches only the live counters -/
theorem c10_increment_frame (r : Rtc.St) :
    latched (Rtc.increment r) = latched r ∧ (Rtc.increment r).ticks = r.ticks ∧
    (Rtc.increment r).low = r.low ∧ (Rtc.increment r).halt = r.halt := by
  simp only [Rtc.increment, Rtc.incSeconds, Rtc.incMinutes, Rtc.incHours, Rtc.incDays, Rtc.maskFields, latched]
  repeat' split
  all_goals simp

private theorem second_valid (c : Clock) (hv : Valid c) :
    toSeconds (second c) = (toSeconds c + 1) % period ∧
    (second c).carry = (c.carry || decide (toSeconds c + 1 = period)) ∧ Valid (second c) := by
  obtain ⟨h1, h2, h3, h4⟩ := hv
  simp only [second, bump, toSeconds, period, Valid]
  by_cases c1 : c.s = 59 <;> by_cases c2 : c.m = 59 <;> by_cases c3 : c.h = 23 <;> by_cases c4 : c.d = 511
  all_goals simp [c1, c2, c3, c4]
  all_goals omega

/-- On valid fields (s, m < 60, h < 24) one `increment` adds one second to the clock value modulo
    512 days, sets the carry flag exactly when the day counter wraps past 511 (and never clears it),
    and keeps the fields valid. -/
theorem c10_increment (r : Rtc.St) (hv : Valid (live r)) :
    toSeconds (live (Rtc.increment r)) = (toSeconds (live r) + 1) % period ∧
    (Rtc.increment r).carry = (r.carry || decide (toSeconds (live r) + 1 = period)) ∧
    Valid (live (Rtc.increment r)) := by
  have hw : InWidth (live r) := by
    obtain ⟨h1, h2, h3, h4⟩ := hv
    exact ⟨by omega, by omega, by omega, h4⟩
  have := second_valid (live r) hv
  rw [← c10_increment_refines r hw] at this
  exact this

/-- Out-of-range field values (seconds/minutes 60-63, hours 24-31) count up inside their bit width and
    wrap to 0 WITHOUT carrying into the next field – for every in-width state. -/
theorem c10_invalid_wrap (r : Rtc.St) (hw : InWidth (live r)) :
    (60 ≤ r.s → live (Rtc.increment r) = { live r with s := (r.s + 1) % 64 }) ∧
    (r.s = 59 → 60 ≤ r.m → live (Rtc.increment r) = { live r with s := 0, m := (r.m + 1) % 64 }) ∧
    (r.s = 59 → r.m = 59 → 24 ≤ r.h →
      live (Rtc.increment r) = { live r with s := 0, m := 0, h := (r.h + 1) % 32 }) := by
  rw [c10_increment_refines r hw]
  obtain ⟨h1, h2, h3, h4⟩ := hw
  simp only [live] at h1 h2 h3 h4
  refine ⟨?_, ?_, ?_⟩
  · intro hs
    have : ¬ r.s = 59 := by omega
    simp [second, bump, live, this]
  · intro hs hm
    have : ¬ r.m = 59 := by omega
    simp [second, bump, live, hs, this]
  · intro hs hm hh
    have : ¬ r.h = 23 := by omega
    simp [second, bump, live, hs, hm, this]

/-! ### the time base -/

private theorem increment_ticks (r : Rtc.St) (t : Nat) :
    Rtc.increment { r with ticks := t } = { Rtc.increment r with ticks := t } := by
  simp only [Rtc.increment, Rtc.incSeconds, Rtc.incMinutes, Rtc.incHours, Rtc.incDays, Rtc.maskFields]
  repeat' split
  all_goals rfl

private theorem incrementN_ticks (k : Nat) (r : Rtc.St) (t : Nat) :
    Rtc.incrementN k { r with ticks := t } = { Rtc.incrementN k r with ticks := t } := by
  induction k generalizing r with
  | zero => rfl
  | succ k ih => simp only [Rtc.incrementN, increment_ticks, ih]

private theorem incrementN_succ (k : Nat) (r : Rtc.St) :
    Rtc.incrementN (k + 1) r = Rtc.incrementN k (Rtc.increment r) := rfl

private theorem tick_running (r : Rtc.St) (hh : r.halt = false) :
    Rtc.tick r = if r.ticks + 1 = 1048576 then Rtc.increment { r with ticks := 0 }
                 else { r with ticks := r.ticks + 1 } := by
  unfold Rtc.tick; rw [hh]; rfl

/-- While the clock is not halted, after `n` machine cycles starting at sub-second count `t0` exactly
    `(t0 + n) / 1048576` one-second steps have happened and the sub-second count is
    `(t0 + n) % 1048576`; nothing else changed. -/
theorem c10_rate (n : Nat) (r : Rtc.St) (hh : r.halt = false) (ht : r.ticks < 1048576) :
    Rtc.tickN n r =
      { Rtc.incrementN ((r.ticks + n) / 1048576) r with ticks := (r.ticks + n) % 1048576 } := by
  induction n generalizing r with
  | zero =>
    have h0 : (r.ticks + 0) / 1048576 = 0 := by omega
    have h1 : (r.ticks + 0) % 1048576 = r.ticks := by omega
    rw [h0, h1]; rfl
  | succ n ih =>
    rw [Rtc.tickN, tick_running r hh]
    by_cases hc : r.ticks + 1 = 1048576
    · rw [if_pos hc, increment_ticks]
      have hh' : ({ Rtc.increment r with ticks := 0 } : Rtc.St).halt = false := by
        show (Rtc.increment r).halt = false
        rw [(c10_increment_frame r).2.2.2, hh]
      rw [ih _ hh' (by show (0:Nat) < 1048576; decide)]
      have e1 : (r.ticks + (n + 1)) / 1048576 = n / 1048576 + 1 := by omega
      have e2 : (r.ticks + (n + 1)) % 1048576 = n % 1048576 := by omega
      have e3 : (({ Rtc.increment r with ticks := 0 } : Rtc.St).ticks + n) = n := by
        show 0 + n = n; omega
      rw [e1, e2, e3, incrementN_succ, incrementN_ticks]
    · rw [if_neg hc]
      have hh' : ({ r with ticks := r.ticks + 1 } : Rtc.St).halt = false := hh
      rw [ih _ hh' (by show r.ticks + 1 < 1048576; omega)]
      have e1 : (({ r with ticks := r.ticks + 1 } : Rtc.St).ticks + n) = r.ticks + (n + 1) := by
        show r.ticks + 1 + n = r.ticks + (n + 1); omega
      rw [e1, incrementN_ticks]

/-- A halted clock does not advance, however many machine cycles pass. -/
theorem c10_halt (n : Nat) (r : Rtc.St) (hh : r.halt = true) : Rtc.tickN n r = r := by
  induction n with
  | zero => rfl
  | succ n ih => simp only [Rtc.tickN, Rtc.tick, hh, if_true, ih]

/-! ### latching and register reads -/

/-- what the registers show after history `h`: the live counters at the most recent 0-then-1 latch
    write sequence, or the power-on zeros -/
def snapshot (h : Spec.Rtc.Hist) : Clock :=
  match latchPoint h with
  | none => Clock.zero
  | some h' => live (after h')

private theorem tick_frame (r : Rtc.St) : latched (Rtc.tick r) = latched r ∧ (Rtc.tick r).low = r.low := by
  cases hh : r.halt with
  | true =>
    have : Rtc.tick r = r := by unfold Rtc.tick; rw [hh]; rfl
    rw [this]; exact ⟨rfl, rfl⟩
  | false =>
    rw [tick_running r hh]
    split
    · rw [increment_ticks]
      exact ⟨(c10_increment_frame r).1, (c10_increment_frame r).2.2.1⟩
    · exact ⟨rfl, rfl⟩

private theorem write_frame (r : Rtc.St) (sel v : Nat) :
    latched (Rtc.write r sel v) = latched r ∧ (Rtc.write r sel v).low = r.low := by
  unfold Rtc.write
  repeat' split
  all_goals exact ⟨rfl, rfl⟩

private theorem snapshot_latch_true (h : Spec.Rtc.Hist) :
    snapshot (.latch true :: h) = if armed h = true then live (after h) else snapshot h := by
  cases h1 : armed h <;> simp [snapshot, latchPoint, h1]

private theorem latch_after (h : Spec.Rtc.Hist) :
    latched (after h) = snapshot h ∧ (after h).low = armed h := by
  induction h with
  | nil => exact ⟨rfl, rfl⟩
  | cons e h ih =>
    obtain ⟨ih1, ih2⟩ := ih
    cases e with
    | tick =>
      have := tick_frame (after h)
      exact ⟨by simp only [after, applyEv, this.1, ih1]; rfl, by simp only [after, applyEv, this.2, ih2]; rfl⟩
    | write sel v =>
      have := write_frame (after h) sel v
      exact ⟨by simp only [after, applyEv, this.1, ih1]; rfl, by simp only [after, applyEv, this.2, ih2]; rfl⟩
    | latch b =>
      cases b with
      | false => exact ⟨ih1, rfl⟩
      | true =>
        refine ⟨?_, ?_⟩
        · show latched (Rtc.latchHigh (after h)) = snapshot (.latch true :: h)
          rw [snapshot_latch_true, ← ih2]
          unfold Rtc.latchHigh
          cases (after h).low with
          | true => rfl
          | false => exact ih1
        · show (Rtc.latchHigh (after h)).low = false
          simp only [Rtc.latchHigh]; split <;> rfl

/-- a register read shows the masked field of the latched copy: 6, 6, 5, 8 bits and control bits
    0 (day bit 8), 6 (halt), 7 (carry); selections 0D-0F read FF -/
theorem c10_read (r : Rtc.St) (sel : Nat) : Rtc.read r sel = readReg (latched r) sel := by
  by_cases h8 : sel = 0x08
  · subst h8; simp [Rtc.read, readReg, and_3f, latched]
  by_cases h9 : sel = 0x09
  · subst h9; simp [Rtc.read, readReg, and_3f, latched]
  by_cases ha : sel = 0x0a
  · subst ha; simp [Rtc.read, readReg, and_1f, latched]
  by_cases hb : sel = 0x0b
  · subst hb; simp [Rtc.read, readReg, latched]
  by_cases hc : sel = 0x0c
  · subst hc
    cases h1 : r.lcarry <;> cases h2 : r.lhalt <;>
      simp [Rtc.read, readReg, shr8, latched, h1, h2] <;> omega
  · have e1 : Rtc.read r sel = 0xff := by
      simp only [Rtc.read, if_neg h8, if_neg h9, if_neg ha, if_neg hb, if_neg hc]
    have e2 : readReg (latched r) sel = 0xff := by
      unfold readReg
      split <;> first | (exfalso; omega) | rfl
    rw [e1, e2]

/-- For EVERY history of machine cycles, latch writes and register writes from power-on, a read of
    clock register `sel` returns the (masked) field of the counters as they were at the most recent
    0-then-1 latch write sequence (power-on zeros if there was none). -/
theorem c10_latch (ops : List Rtc.Op) (sel : Nat) :
    Rtc.read (Rtc.run Rtc.init ops) sel = readReg (snapshot (hist ops)) sel := by
  rw [c10_read, run_eq, (latch_after (hist ops)).1]

/-! ### register writes -/

private theorem or_256 : ∀ x < 256, 256 ||| x = 256 + x := by decide +kernel

private theorem or_hi_lo {b x : Nat} (hb : b < 2) (hx : x < 256) : b * 256 ||| x = b * 256 + x := by
  have : b = 0 ∨ b = 1 := by omega
  rcases this with h|h <;> subst h
  · simp
  · simpa using or_256 x hx

/-- A register write sets the live counter (masked to its width; the control register sets day bit 8,
    halt and carry), a seconds write also restarts the sub-second count, and nothing latched changes. -/
theorem c10_write (r : Rtc.St) (sel : Nat) (v : BitVec 8) :
    live (Rtc.write r sel v.toNat) = writeReg (live r) sel v.toNat ∧
    (Rtc.write r sel v.toNat).ticks = (if sel = 0x08 then 0 else r.ticks) ∧
    latched (Rtc.write r sel v.toNat) = latched r ∧ (Rtc.write r sel v.toNat).low = r.low := by
  have hv := v.isLt
  generalize v.toNat = x at hv
  refine ⟨?_, ?_, (write_frame r sel x).1, (write_frame r sel x).2⟩
  · by_cases h8 : sel = 0x08
    · subst h8; simp [Rtc.write, writeReg, and_3f, live]
    by_cases h9 : sel = 0x09
    · subst h9; simp [Rtc.write, writeReg, and_3f, live]
    by_cases ha : sel = 0x0a
    · subst ha; simp [Rtc.write, writeReg, and_1f, live]
    by_cases hb : sel = 0x0b
    · subst hb
      simp only [Rtc.write, writeReg, and_0100, live]
      simp only [Clock.mk.injEq]
      refine ⟨by simp, by simp, by simp, ?_, by simp, by simp⟩
      simp only [show ¬ ((0x0b : Nat) = 0x08) by decide, show ¬ ((0x0b : Nat) = 0x09) by decide,
        show ¬ ((0x0b : Nat) = 0x0a) by decide, if_false, if_true]
      rw [or_hi_lo (by omega) hv, Nat.mod_eq_of_lt hv]
    by_cases hc : sel = 0x0c
    · subst hc
      simp only [Rtc.write, writeReg, and_01, and_ff, shl8, shr6, shr7, live]
      simp only [show ¬ ((0x0c : Nat) = 0x08) by decide, show ¬ ((0x0c : Nat) = 0x09) by decide,
        show ¬ ((0x0c : Nat) = 0x0a) by decide, show ¬ ((0x0c : Nat) = 0x0b) by decide, if_false, if_true,
        Clock.mk.injEq]
      refine ⟨trivial, trivial, trivial, ?_, ?_, ?_⟩
      · rw [Nat.mod_eq_of_lt (by omega : x % 2 * 256 < 65536), or_hi_lo (by omega) (by omega)]
      · simp; omega
      · simp; omega
    · have e1 : Rtc.write r sel x = r := by
        simp only [Rtc.write, if_neg h8, if_neg h9, if_neg ha, if_neg hb, if_neg hc]
      have e2 : writeReg (live r) sel x = live r := by
        unfold writeReg
        split <;> first | (exfalso; omega) | rfl
      rw [e1, e2]
  · unfold Rtc.write
    repeat' split
    all_goals first | rfl | omega

/-! ### through the MBC3 -/

open Tetro.Model.Cart Tetro.Spec.Cart Tetro.CartSim in
/-- Through the cartridge: for every bus history of an MBC3 cartridge (any ROM/RAM size), while RAM
    access is enabled and a clock register `sel` (08-0F) is selected, a read anywhere in A000-BFFF
    returns the masked latched field – latched at the most recent 0-then-1 write sequence to
    6000-7FFF among the clock events of the bus history. -/
theorem c10_mbc3_clock_read (rom : Rom) (n : Nat) (hn : 1 < n) (q : Nat) (hq : 0 < q) (ops : List Cart.Op)
    (sel : Nat) (hsel : clockSelected (CartSim.hist ops) = some sel) (a : Nat) (ha : C09.InWindow a) :
    ∃ c', Cart.run (.mbc3 (Mbc3.new rom n freshRam q)) ops = some c' ∧
      busRead c' a = some (readReg (snapshot (clockEvents (CartSim.hist ops))) sel) := by
  obtain ⟨c', e, r, _⟩ := C09.c09_refines_mbc3 rom n hn q hq ops
  refine ⟨c', e, ?_⟩
  rw [r a ha, hsel]
  simp only [c10_read, (latch_after _).1]

/-- non-vacuity: set seconds to 59 and minutes to 59 (halted), latch, un-halt … the latched minutes
    register keeps reading 59 while the live clock has moved on -/
example : Rtc.read (Rtc.run Rtc.init [.write 0x0c 0x40, .write 0x08 59, .write 0x09 59, .latch false, .latch true,
    .write 0x0c 0x00, .write 0x08 59]) 0x09 = 59 := by decide +kernel

example : Valid (live { Rtc.init with s := 59, m := 59, h := 23, d := 511 }) := by
  simp [Valid, live, Rtc.init]

end Tetro.C10
