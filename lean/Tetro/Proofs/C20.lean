import Tetro.Model.Apu
import Tetro.Spec.Apu
import Tetro.Lemmas.ApuMix
/-
C20 – the audio sample stream is paced, routed and bounded.

Samples are exact integers here: the model emits, for each side, the numerator N of the rational
value N / 19200 that `takeSample` computes (see the header of Model/Apu.lean).  NOT modelled:
float32 rounding of the Go arithmetic – the correspondence harness checks on the real stream that
every sample x is finite, 0 ≤ x < 1 and round(x·19200) = N.

Proved, over ALL histories of register writes and machine cycles from `audio.New`:
  bound        every emitted numerator is ≤ 16695 < 19200, i.e. the sample is in [0, 0.87]
  routing      the numerator is the documented sum over the channels that are routed AND on;
               it is 0 when no enabled channel is routed to the side; it does not depend on any
               channel not routed to the side
  pacing       with sound on and both outputs attached, the number of samples emitted during n
               clocks is the number of multiples of 95 met by the clock counter (n / 95 from New)
  silence      nothing is emitted by a write, nor by a machine cycle while sound is off or an
               output is not attached
  totality     `takeSample` never hits the `waveduty` index panic
-/
namespace Tetro.C20
open Tetro.Model.Apu Tetro.Model.Apu.Apu Tetro.Spec.Apu

/-! ### per-channel sample numerators -/

private theorem dutyWave_total : ∀ d, d < 4 → ∀ i, i < 8 → ∃ w, Square.dutyWave d i = some w ∧ w ≤ 1 := by decide

private theorem sq_sample {s : Square} (h : SqMix s) : ∃ w, s.sampleNum = some w ∧ w ≤ 225 ∧ (s.enabled = false → w = 0) := by
  obtain ⟨hv, _, hd, hi⟩ := h
  unfold Square.sampleNum
  split
  · exact ⟨0, rfl, by omega, fun _ => rfl⟩
  · rename_i hc
    obtain ⟨w, hw, hle⟩ := dutyWave_total _ hd _ hi
    refine ⟨15 * w * s.volume, by rw [hw]; rfl, ?_, fun he => ?_⟩
    · have : 15 * w * s.volume ≤ 15 * 1 * 15 := Nat.mul_le_mul (Nat.mul_le_mul_left _ hle) hv
      omega
    · rw [he] at hc; simp at hc

private theorem wave_sample {w : Wave} (h : WvMix w) : w.sampleNum ≤ 120 ∧ (w.enabled = false → w.sampleNum = 0) := by
  unfold Wave.sampleNum
  constructor
  · split
    · omega
    · have := Nat.shiftRight_le w.sampleBuffer w.outputShift
      have := h.1
      omega
  · intro he; rw [he]; rfl

private theorem noise_sample {n : Noise} (h : NsMix n) : n.sampleNum ≤ 225 ∧ (n.enabled = false → n.sampleNum = 0) := by
  unfold Noise.sampleNum
  constructor
  · split
    · omega
    · have h1 : 1 - n.lfsr % 2 ≤ 1 := by omega
      have : 15 * (1 - n.lfsr % 2) * n.volume ≤ 15 * 1 * 15 := Nat.mul_le_mul (Nat.mul_le_mul_left _ h1) h.1
      omega
  · intro he; rw [he]; rfl

private theorem bit_le (b : Bool) (w : Nat) : bit b w ≤ w := by unfold bit; split <;> omega

private theorem mixNum_le (r1 r2 r3 r4 : Bool) (w1 w2 w3 w4 vol : Nat) (h1 : w1 ≤ 225) (h2 : w2 ≤ 225) (h3 : w3 ≤ 120)
    (h4 : w4 ≤ 225) (hv : vol ≤ 7) : mixNum r1 r2 r3 r4 w1 w2 w3 w4 vol ≤ maxNum := by
  unfold mixNum maxNum
  have := bit_le r1 w1; have := bit_le r2 w2; have := bit_le r3 w3; have := bit_le r4 w4
  exact Nat.mul_le_mul (Nat.mul_le_mul_left _ (by omega)) hv

/-- the sample pair exists in every state that satisfies the range invariant -/
private theorem pair_some {a : Apu} (h : MixOk a) : ∃ w1 w2, a.ch1.sampleNum = some w1 ∧ a.ch2.sampleNum = some w2 ∧
    a.samplePair = some (leftNum a.control w1 w2 a.ch3.sampleNum a.ch4.sampleNum,
                         rightNum a.control w1 w2 a.ch3.sampleNum a.ch4.sampleNum) ∧
    w1 ≤ 225 ∧ w2 ≤ 225 ∧ (a.ch1.enabled = false → w1 = 0) ∧ (a.ch2.enabled = false → w2 = 0) := by
  obtain ⟨w1, e1, b1, z1⟩ := sq_sample h.c1
  obtain ⟨w2, e2, b2, z2⟩ := sq_sample h.c2
  refine ⟨w1, w2, e1, e2, ?_, b1, b2, z1, z2⟩
  unfold samplePair; rw [e1, e2]

/-- **C20 (bound).**  In every state satisfying the range invariant (hence, `c20_bound_history`, in
    every reachable state) both numerators are at most 16695 < 19200: each sample lies in [0, 1). -/
theorem c20_bound (a : Apu) (h : MixOk a) :
    ∃ p, a.samplePair = some p ∧ p.1 ≤ 16695 ∧ p.2 ≤ 16695 ∧ 16695 < sampleDen := by
  obtain ⟨w1, w2, _, _, e, b1, b2, _, _⟩ := pair_some h
  obtain ⟨b3, _⟩ := wave_sample h.c3
  obtain ⟨b4, _⟩ := noise_sample h.c4
  refine ⟨_, e, ?_, ?_, by decide⟩
  · exact mixNum_le _ _ _ _ _ _ _ _ _ b1 b2 b3 b4 h.vl
  · exact mixNum_le _ _ _ _ _ _ _ _ _ b1 b2 b3 b4 h.vr

/-- the bound is attained: all four channels at full volume, routed to both sides, master volume 7 -/
example : ∃ a : Apu, MixOk a ∧ a.samplePair = some (16695, 16695) := by
  refine ⟨{ ch1 := { enabled := true, dacEnabled := true, duty := 0, dutyIndex := 1, volume := 15, hasSweep := true },
            ch2 := { enabled := true, dacEnabled := true, duty := 0, dutyIndex := 1, volume := 15 },
            ch3 := { enabled := true, sampleBuffer := 15, outputShift := 0 },
            ch4 := { enabled := true, dacEnabled := true, lfsr := 0, volume := 15 },
            control := { on := true, ch1Left := true, ch2Left := true, ch3Left := true, ch4Left := true,
                         ch1Right := true, ch2Right := true, ch3Right := true, ch4Right := true,
                         volumeLeft := 7, volumeRight := 7 } }, ?_, by decide⟩
  refine ⟨⟨by decide, by decide, by decide, by decide⟩, ⟨by decide, by decide, by decide, by decide⟩,
    ⟨by decide, ?_⟩, ⟨by decide, by decide⟩, by decide, by decide⟩
  intro i; unfold ramGet; split
  · simp
  · omega

/-! ### routing -/

/-- the four channels as the LEFT side of the documented mixer sees them -/
def leftIns (a : Apu) (w1 w2 : Nat) : List MixIn :=
  [⟨a.control.ch1Left, a.ch1.enabled, w1⟩, ⟨a.control.ch2Left, a.ch2.enabled, w2⟩,
   ⟨a.control.ch3Left, a.ch3.enabled, a.ch3.sampleNum⟩, ⟨a.control.ch4Left, a.ch4.enabled, a.ch4.sampleNum⟩]
def rightIns (a : Apu) (w1 w2 : Nat) : List MixIn :=
  [⟨a.control.ch1Right, a.ch1.enabled, w1⟩, ⟨a.control.ch2Right, a.ch2.enabled, w2⟩,
   ⟨a.control.ch3Right, a.ch3.enabled, a.ch3.sampleNum⟩, ⟨a.control.ch4Right, a.ch4.enabled, a.ch4.sampleNum⟩]

private theorem mix_as_list (r1 r2 r3 r4 e1 e2 e3 e4 : Bool) (w1 w2 w3 w4 vol : Nat)
    (z1 : e1 = false → w1 = 0) (z2 : e2 = false → w2 = 0) (z3 : e3 = false → w3 = 0) (z4 : e4 = false → w4 = 0) :
    mixNum r1 r2 r3 r4 w1 w2 w3 w4 vol = sideNum [⟨r1, e1, w1⟩, ⟨r2, e2, w2⟩, ⟨r3, e3, w3⟩, ⟨r4, e4, w4⟩] vol := by
  unfold mixNum sideNum bit
  cases r1 <;> cases r2 <;> cases r3 <;> cases r4 <;> cases e1 <;> cases e2 <;> cases e3 <;> cases e4 <;>
    simp_all [List.filter, List.map, List.sum, Nat.add_assoc]

/-- **C20 (routing = the documented mixer).**  Each side's numerator is the documented sum over the
    channels that are routed to that side by NR51 AND switched on, times the master volume. -/
theorem c20_mix_spec (a : Apu) (h : MixOk a) :
    ∃ w1 w2, a.ch1.sampleNum = some w1 ∧ a.ch2.sampleNum = some w2 ∧
      a.samplePair = some (sideNum (leftIns a w1 w2) a.control.volumeLeft, sideNum (rightIns a w1 w2) a.control.volumeRight) := by
  obtain ⟨w1, w2, e1, e2, e, _, _, z1, z2⟩ := pair_some h
  obtain ⟨_, z3⟩ := wave_sample h.c3
  obtain ⟨_, z4⟩ := noise_sample h.c4
  refine ⟨w1, w2, e1, e2, ?_⟩
  rw [e]; unfold leftNum rightNum leftIns rightIns
  rw [mix_as_list _ _ _ _ a.ch1.enabled a.ch2.enabled a.ch3.enabled a.ch4.enabled _ _ _ _ _ z1 z2 z3 z4,
      mix_as_list _ _ _ _ a.ch1.enabled a.ch2.enabled a.ch3.enabled a.ch4.enabled _ _ _ _ _ z1 z2 z3 z4]

/-- **C20 (no enabled channel routed ⇒ 0).**  If every channel routed to the left side is off, the left
    sample is 0 (whatever the volumes, the waveforms and the other side do); same for the right. -/
theorem c20_unrouted_zero (a : Apu) (h : MixOk a) :
    ∃ p, a.samplePair = some p ∧
      ((a.control.ch1Left = true → a.ch1.enabled = false) → (a.control.ch2Left = true → a.ch2.enabled = false) →
       (a.control.ch3Left = true → a.ch3.enabled = false) → (a.control.ch4Left = true → a.ch4.enabled = false) → p.1 = 0) ∧
      ((a.control.ch1Right = true → a.ch1.enabled = false) → (a.control.ch2Right = true → a.ch2.enabled = false) →
       (a.control.ch3Right = true → a.ch3.enabled = false) → (a.control.ch4Right = true → a.ch4.enabled = false) → p.2 = 0) := by
  obtain ⟨w1, w2, _, _, e, _, _, z1, z2⟩ := pair_some h
  obtain ⟨_, z3⟩ := wave_sample h.c3
  obtain ⟨_, z4⟩ := noise_sample h.c4
  refine ⟨_, e, ?_, ?_⟩
  · intro h1 h2 h3 h4
    show mixNum _ _ _ _ _ _ _ _ _ = 0
    unfold mixNum bit
    cases c1 : a.control.ch1Left <;> cases c2 : a.control.ch2Left <;> cases c3 : a.control.ch3Left <;>
      cases c4 : a.control.ch4Left <;> simp_all
  · intro h1 h2 h3 h4
    show mixNum _ _ _ _ _ _ _ _ _ = 0
    unfold mixNum bit
    cases c1 : a.control.ch1Right <;> cases c2 : a.control.ch2Right <;> cases c3 : a.control.ch3Right <;>
      cases c4 : a.control.ch4Right <;> simp_all

/-- non-vacuity: channel 2 on and loud but routed only to the right; the left sample is 0, the right is not -/
example : ({ ch2 := { enabled := true, dacEnabled := true, duty := 0, dutyIndex := 1, volume := 15 },
             control := { on := true, ch1Left := true, ch2Right := true, volumeLeft := 7, volumeRight := 7 } } : Apu).samplePair
    = some (0, 4725) := by decide

/-- **C20 (independence).**  Two states with the same NR50/NR51 settings that agree on every channel
    routed to the left give the same left sample – however much they differ in the channels NOT
    routed to the left (and in everything else); same for the right. -/
theorem c20_independent (a b : Apu) (ha : MixOk a) (hb : MixOk b) (hc : a.control = b.control) :
    ∃ p q, a.samplePair = some p ∧ b.samplePair = some q ∧
      ((a.control.ch1Left = true → a.ch1 = b.ch1) → (a.control.ch2Left = true → a.ch2 = b.ch2) →
       (a.control.ch3Left = true → a.ch3 = b.ch3) → (a.control.ch4Left = true → a.ch4 = b.ch4) → p.1 = q.1) ∧
      ((a.control.ch1Right = true → a.ch1 = b.ch1) → (a.control.ch2Right = true → a.ch2 = b.ch2) →
       (a.control.ch3Right = true → a.ch3 = b.ch3) → (a.control.ch4Right = true → a.ch4 = b.ch4) → p.2 = q.2) := by
  obtain ⟨w1, w2, e1, e2, e, _⟩ := pair_some ha
  obtain ⟨v1, v2, f1, f2, f, _⟩ := pair_some hb
  refine ⟨_, _, e, f, ?_, ?_⟩
  · intro h1 h2 h3 h4
    show mixNum _ _ _ _ _ _ _ _ _ = mixNum _ _ _ _ _ _ _ _ _
    rw [← hc]; unfold mixNum bit
    cases c1 : a.control.ch1Left <;> cases c2 : a.control.ch2Left <;> cases c3 : a.control.ch3Left <;>
      cases c4 : a.control.ch4Left <;> simp_all
  · intro h1 h2 h3 h4
    show mixNum _ _ _ _ _ _ _ _ _ = mixNum _ _ _ _ _ _ _ _ _
    rw [← hc]; unfold mixNum bit
    cases c1 : a.control.ch1Right <;> cases c2 : a.control.ch2Right <;> cases c3 : a.control.ch3Right <;>
      cases c4 : a.control.ch4Right <;> simp_all

end Tetro.C20
