import Tetro.Model.Apu
import Tetro.Spec.Apu
import Tetro.Lemmas.ApuMix
import Tetro.Lemmas.ApuIo
/-
C20 – the audio sample stream is paced, routed and bounded.

Samples are exact integers here: the model emits, for each side, the numerator N of the rational
value N / 19200 that `takeSample` computes (see the header of Model/Apu.lean).  NOT modelled:
float32 rounding of the Go arithmetic – the correspondence harness checks on the real stream that
every sample x is finite, 0 ≤ x < 1 and round(x·19200) = N.

Proved, over ALL histories of register writes and machine cycles from `audio.New`:
  bound        every emitted numerator is ≤ 16695 < 19200, i.e. the sample is in [0, 0.87]
  routing      the numerator is the documented sum over the channels that are routed AND on;
               it is 0 when no enabled channel is routed to the side; it does not depend on any
               channel not routed to the side
  pacing       with sound on and both outputs attached, the number of samples emitted during n
               clocks is the number of multiples of 95 met by the clock counter (n / 95 from New)
  silence      nothing is emitted by a write, nor by a machine cycle while sound is off or an
               output is not attached
  totality     `takeSample` never hits the `waveduty` index panic
-/
namespace Tetro.C20
open Tetro.Model.Apu Tetro.Model.Apu.Apu Tetro.Spec.Apu

/-! ### per-channel sample numerators -/

private theorem dutyWave_total : ∀ d, d < 4 → ∀ i, i < 8 → ∃ w, Square.dutyWave d i = some w ∧ w ≤ 1 := by decide

private theorem sq_sample {s : Square} (h : SqMix s) : ∃ w, s.sampleNum = some w ∧ w ≤ 225 ∧ (s.enabled = false → w = 0) := by
  obtain ⟨hv, _, hd, hi⟩ := h
  unfold Square.sampleNum
  split
  · exact ⟨0, rfl, by omega, fun _ => rfl⟩
  · rename_i hc
    obtain ⟨w, hw, hle⟩ := dutyWave_total _ hd _ hi
    refine ⟨15 * w * s.volume, by rw [hw]; rfl, ?_, fun he => ?_⟩
    · have : 15 * w * s.volume ≤ 15 * 1 * 15 := Nat.mul_le_mul (Nat.mul_le_mul_left _ hle) hv
      omega
    · rw [he] at hc; simp at hc

private theorem wave_sample {w : Wave} (h : WvMix w) : w.sampleNum ≤ 120 ∧ (w.enabled = false → w.sampleNum = 0) := by
  unfold Wave.sampleNum
  constructor
  · split
    · omega
    · have := Nat.shiftRight_le w.sampleBuffer w.outputShift
      have := h.1
      omega
  · intro he; rw [he]; rfl

private theorem noise_sample {n : Noise} (h : NsMix n) : n.sampleNum ≤ 225 ∧ (n.enabled = false → n.sampleNum = 0) := by
  unfold Noise.sampleNum
  constructor
  · split
    · omega
    · have h1 : 1 - n.lfsr % 2 ≤ 1 := by omega
      have : 15 * (1 - n.lfsr % 2) * n.volume ≤ 15 * 1 * 15 := Nat.mul_le_mul (Nat.mul_le_mul_left _ h1) h.1
      omega
  · intro he; rw [he]; rfl

private theorem bit_le (b : Bool) (w : Nat) : bit b w ≤ w := by unfold bit; split <;> omega

private theorem mixNum_le (r1 r2 r3 r4 : Bool) (w1 w2 w3 w4 vol : Nat) (h1 : w1 ≤ 225) (h2 : w2 ≤ 225) (h3 : w3 ≤ 120)
    (h4 : w4 ≤ 225) (hv : vol ≤ 7) : mixNum r1 r2 r3 r4 w1 w2 w3 w4 vol ≤ maxNum := by
  unfold mixNum maxNum
  have := bit_le r1 w1; have := bit_le r2 w2; have := bit_le r3 w3; have := bit_le r4 w4
  exact Nat.mul_le_mul (Nat.mul_le_mul_left _ (by omega)) hv

/-- the sample pair exists in every state that satisfies the range invariant -/
private theorem pair_some {a : Apu} (h : MixOk a) : ∃ w1 w2, a.ch1.sampleNum = some w1 ∧ a.ch2.sampleNum = some w2 ∧
    a.samplePair = some (leftNum a.control w1 w2 a.ch3.sampleNum a.ch4.sampleNum,
                         rightNum a.control w1 w2 a.ch3.sampleNum a.ch4.sampleNum) ∧
    w1 ≤ 225 ∧ w2 ≤ 225 ∧ (a.ch1.enabled = false → w1 = 0) ∧ (a.ch2.enabled = false → w2 = 0) := by
  obtain ⟨w1, e1, b1, z1⟩ := sq_sample h.c1
  obtain ⟨w2, e2, b2, z2⟩ := sq_sample h.c2
  refine ⟨w1, w2, e1, e2, ?_, b1, b2, z1, z2⟩
  unfold samplePair; rw [e1, e2]

/-- **C20 (bound).**  In every state satisfying the range invariant (hence, `c20_bound_history`, in
    every reachable state) both numerators are at most 16695 < 19200: each sample lies in [0, 1). -/
theorem c20_bound (a : Apu) (h : MixOk a) :
    ∃ p, a.samplePair = some p ∧ p.1 ≤ 16695 ∧ p.2 ≤ 16695 ∧ 16695 < sampleDen := by
  obtain ⟨w1, w2, _, _, e, b1, b2, _, _⟩ := pair_some h
  obtain ⟨b3, _⟩ := wave_sample h.c3
  obtain ⟨b4, _⟩ := noise_sample h.c4
  refine ⟨_, e, ?_, ?_, by decide⟩
  · exact mixNum_le _ _ _ _ _ _ _ _ _ b1 b2 b3 b4 h.vl
  · exact mixNum_le _ _ _ _ _ _ _ _ _ b1 b2 b3 b4 h.vr

/-- the bound is attained: all four channels at full volume, routed to both sides, master volume 7 -/
example : ∃ a : Apu, MixOk a ∧ a.samplePair = some (16695, 16695) := by
  refine ⟨{ ch1 := { enabled := true, dacEnabled := true, duty := 0, dutyIndex := 1, volume := 15, hasSweep := true },
            ch2 := { enabled := true, dacEnabled := true, duty := 0, dutyIndex := 1, volume := 15 },
            ch3 := { enabled := true, sampleBuffer := 15, outputShift := 0 },
            ch4 := { enabled := true, dacEnabled := true, lfsr := 0, volume := 15 },
            control := { on := true, ch1Left := true, ch2Left := true, ch3Left := true, ch4Left := true,
                         ch1Right := true, ch2Right := true, ch3Right := true, ch4Right := true,
                         volumeLeft := 7, volumeRight := 7 } }, ?_, by decide⟩
  refine ⟨⟨by decide, by decide, by decide, by decide⟩, ⟨by decide, by decide, by decide, by decide⟩,
    ⟨by decide, ?_⟩, ⟨by decide, by decide⟩, by decide, by decide⟩
  intro i; unfold ramGet; split
  · simp
  · omega

/-! ### routing -/

/-- the four channels as the LEFT side of the documented mixer sees them -/
def leftIns (a : Apu) (w1 w2 : Nat) : List MixIn :=
  [⟨a.control.ch1Left, a.ch1.enabled, w1⟩, ⟨a.control.ch2Left, a.ch2.enabled, w2⟩,
   ⟨a.control.ch3Left, a.ch3.enabled, a.ch3.sampleNum⟩, ⟨a.control.ch4Left, a.ch4.enabled, a.ch4.sampleNum⟩]
def rightIns (a : Apu) (w1 w2 : Nat) : List MixIn :=
  [⟨a.control.ch1Right, a.ch1.enabled, w1⟩, ⟨a.control.ch2Right, a.ch2.enabled, w2⟩,
   ⟨a.control.ch3Right, a.ch3.enabled, a.ch3.sampleNum⟩, ⟨a.control.ch4Right, a.ch4.enabled, a.ch4.sampleNum⟩]

private theorem mix_as_list (r1 r2 r3 r4 e1 e2 e3 e4 : Bool) (w1 w2 w3 w4 vol : Nat)
    (z1 : e1 = false → w1 = 0) (z2 : e2 = false → w2 = 0) (z3 : e3 = false → w3 = 0) (z4 : e4 = false → w4 = 0) :
    mixNum r1 r2 r3 r4 w1 w2 w3 w4 vol = sideNum [⟨r1, e1, w1⟩, ⟨r2, e2, w2⟩, ⟨r3, e3, w3⟩, ⟨r4, e4, w4⟩] vol := by
  unfold mixNum sideNum bit
  cases r1 <;> cases r2 <;> cases r3 <;> cases r4 <;> cases e1 <;> cases e2 <;> cases e3 <;> cases e4 <;>
    simp_all [List.filter, List.map, List.sum, Nat.add_assoc]

/-- **C20 (routing = the documented mixer).**  Each side's numerator is the documented sum over the
    channels that are routed to that side by NR51 AND switched on, times the master volume. -/
theorem c20_mix_spec (a : Apu) (h : MixOk a) :
    ∃ w1 w2, a.ch1.sampleNum = some w1 ∧ a.ch2.sampleNum = some w2 ∧
      a.samplePair = some (sideNum (leftIns a w1 w2) a.control.volumeLeft, sideNum (rightIns a w1 w2) a.control.volumeRight) := by
  obtain ⟨w1, w2, e1, e2, e, _, _, z1, z2⟩ := pair_some h
  obtain ⟨_, z3⟩ := wave_sample h.c3
  obtain ⟨_, z4⟩ := noise_sample h.c4
  refine ⟨w1, w2, e1, e2, ?_⟩
  rw [e]; unfold leftNum rightNum leftIns rightIns
  rw [mix_as_list _ _ _ _ a.ch1.enabled a.ch2.enabled a.ch3.enabled a.ch4.enabled _ _ _ _ _ z1 z2 z3 z4,
      mix_as_list _ _ _ _ a.ch1.enabled a.ch2.enabled a.ch3.enabled a.ch4.enabled _ _ _ _ _ z1 z2 z3 z4]

/-- **C20 (no enabled channel routed ⇒ 0).**  If every channel routed to the left side is off, the left
    sample is 0 (whatever the volumes, the waveforms and the other side do); same for the right. -/
theorem c20_unrouted_zero (a : Apu) (h : MixOk a) :
    ∃ p, a.samplePair = some p ∧
      ((a.control.ch1Left = true → a.ch1.enabled = false) → (a.control.ch2Left = true → a.ch2.enabled = false) →
       (a.control.ch3Left = true → a.ch3.enabled = false) → (a.control.ch4Left = true → a.ch4.enabled = false) → p.1 = 0) ∧
      ((a.control.ch1Right = true → a.ch1.enabled = false) → (a.control.ch2Right = true → a.ch2.enabled = false) →
       (a.control.ch3Right = true → a.ch3.enabled = false) → (a.control.ch4Right = true → a.ch4.enabled = false) → p.2 = 0) := by
  obtain ⟨w1, w2, _, _, e, _, _, z1, z2⟩ := pair_some h
  obtain ⟨_, z3⟩ := wave_sample h.c3
  obtain ⟨_, z4⟩ := noise_sample h.c4
  refine ⟨_, e, ?_, ?_⟩
  · intro h1 h2 h3 h4
    show mixNum _ _ _ _ _ _ _ _ _ = 0
    unfold mixNum bit
    cases c1 : a.control.ch1Left <;> cases c2 : a.control.ch2Left <;> cases c3 : a.control.ch3Left <;>
      cases c4 : a.control.ch4Left <;> simp_all
  · intro h1 h2 h3 h4
    show mixNum _ _ _ _ _ _ _ _ _ = 0
    unfold mixNum bit
    cases c1 : a.control.ch1Right <;> cases c2 : a.control.ch2Right <;> cases c3 : a.control.ch3Right <;>
      cases c4 : a.control.ch4Right <;> simp_all

/-- non-vacuity: channel 2 on and loud but routed only to the right; the left sample is 0, the right is not -/
example : ({ ch2 := { enabled := true, dacEnabled := true, duty := 0, dutyIndex := 1, volume := 15 },
             control := { on := true, ch1Left := true, ch2Right := true, volumeLeft := 7, volumeRight := 7 } } : Apu).samplePair
    = some (0, 4725) := by decide

/-- **C20 (independence).**  Two states with the same NR50/NR51 settings that agree on every channel
    routed to the left give the same left sample – however much they differ in the channels NOT
    routed to the left (and in everything else); same for the right. -/
theorem c20_independent (a b : Apu) (ha : MixOk a) (hb : MixOk b) (hc : a.control = b.control) :
    ∃ p q, a.samplePair = some p ∧ b.samplePair = some q ∧
      ((a.control.ch1Left = true → a.ch1 = b.ch1) → (a.control.ch2Left = true → a.ch2 = b.ch2) →
       (a.control.ch3Left = true → a.ch3 = b.ch3) → (a.control.ch4Left = true → a.ch4 = b.ch4) → p.1 = q.1) ∧
      ((a.control.ch1Right = true → a.ch1 = b.ch1) → (a.control.ch2Right = true → a.ch2 = b.ch2) →
       (a.control.ch3Right = true → a.ch3 = b.ch3) → (a.control.ch4Right = true → a.ch4 = b.ch4) → p.2 = q.2) := by
  obtain ⟨w1, w2, e1, e2, e, _⟩ := pair_some ha
  obtain ⟨v1, v2, f1, f2, f, _⟩ := pair_some hb
  refine ⟨_, _, e, f, ?_, ?_⟩
  · intro h1 h2 h3 h4
    show mixNum _ _ _ _ _ _ _ _ _ = mixNum _ _ _ _ _ _ _ _ _
    rw [← hc]; unfold mixNum bit
    cases c1 : a.control.ch1Left <;> cases c2 : a.control.ch2Left <;> cases c3 : a.control.ch3Left <;>
      cases c4 : a.control.ch4Left <;> simp_all
  · intro h1 h2 h3 h4
    show mixNum _ _ _ _ _ _ _ _ _ = mixNum _ _ _ _ _ _ _ _ _
    rw [← hc]; unfold mixNum bit
    cases c1 : a.control.ch1Right <;> cases c2 : a.control.ch2Right <;> cases c3 : a.control.ch3Right <;>
      cases c4 : a.control.ch4Right <;> simp_all

/-! ### pacing, silence, totality -/

/-- sound powered on and both output channels attached -/
def Sounding (a : Apu) : Prop := a.control.on = true ∧ a.hasL = true ∧ a.hasR = true

instance (a : Apu) : Decidable (Sounding a) := inferInstanceAs (Decidable (_ ∧ _ ∧ _))

def Bounded (p : Nat × Nat) : Prop := p.1 ≤ 16695 ∧ p.2 ≤ 16695

private theorem samplerPeriod_eq : samplerPeriod = 95 := by decide

private theorem new_io (hl hr : Bool) : (Apu.new hl hr).io = ⟨hl, hr, true, 1, [], false⟩ := by
  cases hl <;> cases hr <;> decide

private theorem io_fields {a : Apu} {v : IoView} (h : a.io = v) :
    a.hasL = v.hasL ∧ a.hasR = v.hasR ∧ a.control.on = v.on ∧ a.ticks = v.ticks ∧ a.out = v.out ∧ a.crash = v.crash := by
  subst h; exact ⟨rfl, rfl, rfl, rfl, rfl, rfl⟩

/-- the sampler-side state right after `audio.New` -/
private theorem new_fields (hl hr : Bool) :
    (Apu.new hl hr).hasL = hl ∧ (Apu.new hl hr).hasR = hr ∧ (Apu.new hl hr).control.on = true ∧
    (Apu.new hl hr).ticks = 1 ∧ (Apu.new hl hr).out = [] ∧ (Apu.new hl hr).crash = false :=
  io_fields (new_io hl hr)

private theorem takeSample_on {a : Apu} (h : MixOk a) (hs : Sounding a) :
    ∃ p, Bounded p ∧ a.takeSample = { a with out := p :: a.out } := by
  obtain ⟨p, hp, b1, b2, _⟩ := c20_bound a h
  refine ⟨p, ⟨b1, b2⟩, ?_⟩
  obtain ⟨h1, h2, h3⟩ := hs
  have hc : (!a.control.on || !a.hasL || !a.hasR) = false := by rw [h1, h2, h3]; rfl
  unfold takeSample
  simp only [hc, Bool.false_eq_true, if_false, hp]

private theorem takeSample_off {a : Apu} (hs : ¬ Sounding a) : a.takeSample = a := by
  have hc : (!a.control.on || !a.hasL || !a.hasR) = true := by
    unfold Sounding at hs
    cases h1 : a.control.on <;> cases h2 : a.hasL <;> cases h3 : a.hasR <;> simp_all
  unfold takeSample
  simp only [hc, if_true]

/-- one clock, in full: what happens to the sampler-side state -/
private theorem clock_step {a : Apu} (h : MixOk a) :
    MixOk a.tickClock ∧ (Sounding a.tickClock ↔ Sounding a) ∧ a.tickClock.ticks = (a.ticks + 1) % two64 ∧
    a.tickClock.crash = a.crash ∧ a.tickClock.hasL = a.hasL ∧ a.tickClock.hasR = a.hasR ∧
    ∃ p, Bounded p ∧ a.tickClock.out = if a.ticks % 95 = 0 ∧ Sounding a then p :: a.out else a.out := by
  have hb : MixOk a.tickTimer.frameSeqPart := mix_frameSeqPart (mix_tickTimer h)
  have hio : a.tickTimer.frameSeqPart.io = a.io := by rw [io_frameSeqPart, io_tickTimer]
  have e : a.tickClock = a.tickTimer.frameSeqPart.samplerPart.incTicks := rfl
  rw [e]
  generalize a.tickTimer.frameSeqPart = b at hb hio
  have e1 : b.hasL = a.hasL := congrArg IoView.hasL hio
  have e2 : b.hasR = a.hasR := congrArg IoView.hasR hio
  have e3 : b.control.on = a.control.on := congrArg IoView.on hio
  have e4 : b.ticks = a.ticks := congrArg IoView.ticks hio
  have e5 : b.out = a.out := congrArg IoView.out hio
  have e6 : b.crash = a.crash := congrArg IoView.crash hio
  have hs : Sounding b ↔ Sounding a := by unfold Sounding; rw [e1, e2, e3]
  by_cases c : a.ticks % 95 = 0
  · by_cases d : Sounding a
    · obtain ⟨p, hp, ht⟩ := takeSample_on hb (hs.mpr d)
      have cb : b.ticks % samplerPeriod = 0 := by rw [samplerPeriod_eq, e4]; exact c
      have es : b.samplerPart = { b with out := p :: b.out } := by
        unfold samplerPart; rw [if_pos cb, ht]
      rw [es]
      refine ⟨⟨hb.c1, hb.c2, hb.c3, hb.c4, hb.vl, hb.vr⟩, ?_, ?_, e6, e1, e2, p, hp, ?_⟩
      · show (b.control.on = true ∧ b.hasL = true ∧ b.hasR = true) ↔ _
        exact hs
      · show (b.ticks + 1) % two64 = _; rw [e4]
      · rw [if_pos ⟨c, d⟩]; show p :: b.out = _; rw [e5]
    · have cb : b.ticks % samplerPeriod = 0 := by rw [samplerPeriod_eq, e4]; exact c
      have es : b.samplerPart = b := by
        unfold samplerPart; rw [if_pos cb, takeSample_off (fun x => d (hs.mp x))]
      rw [es]
      refine ⟨⟨hb.c1, hb.c2, hb.c3, hb.c4, hb.vl, hb.vr⟩, ?_, ?_, e6, e1, e2, (0, 0), ⟨by decide, by decide⟩, ?_⟩
      · show (b.control.on = true ∧ b.hasL = true ∧ b.hasR = true) ↔ _
        exact hs
      · show (b.ticks + 1) % two64 = _; rw [e4]
      · rw [if_neg (fun x => d x.2)]; exact e5
  · have cb : ¬ b.ticks % samplerPeriod = 0 := by rw [samplerPeriod_eq, e4]; exact c
    have es : b.samplerPart = b := by
      unfold samplerPart; rw [if_neg cb]
    rw [es]
    refine ⟨⟨hb.c1, hb.c2, hb.c3, hb.c4, hb.vl, hb.vr⟩, ?_, ?_, e6, e1, e2, (0, 0), ⟨by decide, by decide⟩, ?_⟩
    · show (b.control.on = true ∧ b.hasL = true ∧ b.hasR = true) ↔ _
      exact hs
    · show (b.ticks + 1) % two64 = _; rw [e4]
    · rw [if_neg (fun x => c x.1)]; exact e5

private theorem samplesIn_succ (t n : Nat) : samplesIn t (n + 1) = (if t % 95 = 0 then 1 else 0) + samplesIn (t + 1) n := by
  unfold samplesIn; split <;> omega

/-- **C20 (pacing).**  With sound on and both outputs attached, during n clocks exactly
    `samplesIn ticks n` sample pairs are emitted – one for every value of the clock counter that is a
    multiple of 95 – as long as the 64-bit clock counter does not wrap (139 000 years). -/
theorem c20_pace (n : Nat) : ∀ (a : Apu), MixOk a → Sounding a → a.ticks + n ≤ two64 →
    (clocks n a).out.length = a.out.length + samplesIn a.ticks n ∧ (clocks n a).crash = a.crash := by
  induction n with
  | zero => intro a _ _ _; exact ⟨by unfold samplesIn; simp [clocks], rfl⟩
  | succ k ih =>
    intro a h hs hn
    obtain ⟨h', hs', ht, hc, _, _, p, _, ho⟩ := clock_step h
    show (clocks k a.tickClock).out.length = _ ∧ (clocks k a.tickClock).crash = _
    have hol : a.tickClock.out.length = a.out.length + (if a.ticks % 95 = 0 then 1 else 0) := by
      rw [ho]; by_cases c : a.ticks % 95 = 0
      · rw [if_pos ⟨c, hs⟩, if_pos c]; rfl
      · rw [if_neg (fun x => c x.1), if_neg c]; rfl
    by_cases hw : a.ticks + 1 = two64
    · have hk : k = 0 := by omega
      subst hk
      refine ⟨?_, hc⟩
      show a.tickClock.out.length = _
      rw [hol, samplesIn_succ]
      have : samplesIn (a.ticks + 1) 0 = 0 := by unfold samplesIn; omega
      rw [this]; rfl
    · have ht' : a.tickClock.ticks = a.ticks + 1 := by rw [ht]; exact Nat.mod_eq_of_lt (by omega)
      obtain ⟨i1, i2⟩ := ih a.tickClock h' (hs'.mpr hs) (by rw [ht']; omega)
      refine ⟨?_, i2.trans hc⟩
      rw [i1, hol, ht', samplesIn_succ]; omega

/-- from `audio.New` with both outputs attached: n / 95 sample pairs after n clocks (the counter
    starts at 1: samples at clocks 95, 190, …); 44150 in the first emulated second -/
theorem c20_pace_new (n : Nat) (hn : n < two64) : (clocks n (Apu.new true true)).out.length = n / 95 := by
  obtain ⟨e4, e5, e3, e1, e2, _⟩ := new_fields true true
  have h := c20_pace n (Apu.new true true) (mix_new true true) ⟨e3, e4, e5⟩ (by rw [e1]; omega)
  rw [h.1, e1, e2]; unfold samplesIn; simp only [List.length_nil]; omega

example : samplesIn 1 4194304 = 44150 := by decide

/-- **C20 (silence).**  While sound is off or an output is not attached a machine cycle emits nothing;
    a register write never emits anything. -/
theorem c20_silent (a : Apu) (h : MixOk a) :
    (¬ Sounding a → a.endMachineCycle.out = a.out) ∧ ∀ addr v, (a.write addr v).out = a.out := by
  refine ⟨fun hs => ?_, fun addr v => ?_⟩
  · obtain ⟨h1, s1, _, _, _, _, p1, _, o1⟩ := clock_step h
    obtain ⟨h2, s2, _, _, _, _, p2, _, o2⟩ := clock_step h1
    obtain ⟨h3, s3, _, _, _, _, p3, _, o3⟩ := clock_step h2
    obtain ⟨h4, s4, _, _, _, _, p4, _, o4⟩ := clock_step h3
    have n1 : ¬ Sounding a.tickClock := fun c => hs (s1.mp c)
    have n2 : ¬ Sounding a.tickClock.tickClock := fun c => n1 (s2.mp c)
    have n3 : ¬ Sounding a.tickClock.tickClock.tickClock := fun c => n2 (s3.mp c)
    have e : a.endMachineCycle.out = a.tickClock.tickClock.tickClock.tickClock.out :=
      (Apu.io_fields (io_endMachineCycle a)).2.2.2.2.1
    rw [e, o4, if_neg (fun c => n3 c.2), o3, if_neg (fun c => n2 c.2), o2, if_neg (fun c => n1 c.2), o1, if_neg (fun c => hs c.2)]
  · have := att_writeB a addr (v % 256)
    exact congrArg (fun x => x.2.2.2) this

/-- what every reachable state satisfies -/
structure Good (a : Apu) : Prop where
  mix : MixOk a
  nocrash : a.crash = false
  bounded : ∀ p ∈ a.out, Bounded p

private theorem good_clock {a : Apu} (h : Good a) : Good a.tickClock := by
  obtain ⟨h1, _, _, hc, _, _, p, hp, ho⟩ := clock_step h.mix
  refine ⟨h1, hc.trans h.nocrash, fun q hq => ?_⟩
  rw [ho] at hq
  split at hq
  · rcases List.mem_cons.mp hq with e | e
    · rw [e]; exact hp
    · exact h.bounded q e
  · exact h.bounded q hq

private theorem good_step {a : Apu} (op : Op) (h : Good a) : Good (a.step op) := by
  cases op with
  | cycle =>
    have h4 := good_clock (good_clock (good_clock (good_clock h)))
    have e : a.step Op.cycle = a.tickClock.tickClock.tickClock.tickClock.clearTriggered := rfl
    rw [e]
    generalize a.tickClock.tickClock.tickClock.tickClock = x at h4
    exact ⟨mix_clearTriggered h4.mix, h4.nocrash, h4.bounded⟩
  | write ad v =>
    have e := att_writeB a ad (v % 256)
    have ec : (a.writeB ad (v % 256)).crash = a.crash := congrArg (fun x => x.2.2.1) e
    have eo : (a.writeB ad (v % 256)).out = a.out := congrArg (fun x => x.2.2.2) e
    exact ⟨mix_writeB ad (v % 256) (Nat.mod_lt _ (by decide)) h.mix, ec.trans h.nocrash,
      fun q hq => h.bounded q (by rw [← eo]; exact hq)⟩

private theorem good_run (ops : List Op) : ∀ {a : Apu}, Good a → Good (a.run ops) := by
  induction ops with
  | nil => intro a h; exact h
  | cons op ops ih => intro a h; exact ih (good_step op h)

/-- **C20 (bound and totality over all histories).**  After `audio.New` (outputs attached or not) and ANY
    history of bus writes and machine cycles: the range invariant holds, `takeSample` has never
    hit the `waveduty` index panic, and EVERY sample pair emitted so far has both numerators
    ≤ 16695 < 19200, i.e. every sample is in [0, 1). -/
theorem c20_bound_history (hl hr : Bool) (ops : List Op) : Good ((Apu.new hl hr).run ops) := by
  obtain ⟨_, _, _, _, e2, e3⟩ := new_fields hl hr
  exact good_run ops ⟨mix_new hl hr, e3, fun p hp => by rw [e2] at hp; cases hp⟩

private theorem detached_run (ops : List Op) : ∀ (a : Apu), MixOk a → (a.hasL = false ∨ a.hasR = false) → a.out = [] →
    (a.run ops).out = [] := by
  induction ops with
  | nil => intro a _ _ h; exact h
  | cons op ops ih =>
    intro a hm hd ho
    have hs : ¬ Sounding a := by
      intro c; rcases hd with d | d
      · rw [c.2.1] at d; cases d
      · rw [c.2.2] at d; cases d
    show ((a.step op).run ops).out = []
    apply ih _ (mix_step op hm)
    · cases op with
      | cycle =>
        obtain ⟨h1, _, _, _, l1, r1, _⟩ := clock_step hm
        obtain ⟨h2, _, _, _, l2, r2, _⟩ := clock_step h1
        obtain ⟨h3, _, _, _, l3, r3, _⟩ := clock_step h2
        obtain ⟨_, _, _, _, l4, r4, _⟩ := clock_step h3
        have ef := Apu.io_fields (io_endMachineCycle a)
        show a.endMachineCycle.hasL = false ∨ a.endMachineCycle.hasR = false
        rw [ef.1, ef.2.1, l4, l3, l2, l1, r4, r3, r2, r1]; exact hd
      | write ad v =>
        have e := att_writeB a ad (v % 256)
        have e1 : (a.writeB ad (v % 256)).hasL = a.hasL := congrArg (fun x => x.1) e
        have e2 : (a.writeB ad (v % 256)).hasR = a.hasR := congrArg (fun x => x.2.1) e
        show (a.writeB ad (v % 256)).hasL = false ∨ (a.writeB ad (v % 256)).hasR = false
        rw [e1, e2]; exact hd
    · cases op with
      | cycle =>
        show a.endMachineCycle.out = []
        rw [(c20_silent a hm).1 hs]; exact ho
      | write ad v =>
        show (a.write ad v).out = []
        rw [(c20_silent a hm).2]; exact ho

/-- **C20 (no outputs attached ⇒ no samples).**  If one of the two output channels is not attached,
    no history ever emits a sample. -/
theorem c20_detached (hl hr : Bool) (hd : hl = false ∨ hr = false) (ops : List Op) : ((Apu.new hl hr).run ops).out = [] := by
  obtain ⟨e4, e5, _, _, e2, _⟩ := new_fields hl hr
  exact detached_run ops _ (mix_new hl hr) (by rw [e4, e5]; exact hd) e2

/-- non-vacuity of the hypotheses of the pacing theorem: the state after New is `Sounding` and `MixOk` -/
example : Sounding (Apu.new true true) ∧ MixOk (Apu.new true true) ∧ (Apu.new true true).ticks + 1000 ≤ two64 :=
  ⟨⟨(new_fields true true).2.2.1, (new_fields true true).1, (new_fields true true).2.1⟩, mix_new true true,
   by rw [(new_fields true true).2.2.2.1]; decide⟩

end Tetro.C20
