import Tetro.Proofs.C06Route
import Tetro.Model.Serial
/-
C06/C07/C23 – obligations over the REGENERATED address decoder of memory/mapper.go.
`c06_arms`: the ordered case arms of Mapper.Read / Mapper.Write, re-read from the source on every run and
resolved handler by handler, are the documented ones (a mis-routed register, a changed bound, a swapped or
missing arm break it).  `c06_route_read/write` (Proofs/C06Route.lean): for ALL 65 536 addresses the documented arm list routes
exactly as the region/register-table description of the memory map says.
-/
namespace Tetro.C06
open Tetro.Model.Decoder Tetro.Model.Serial Tetro.Spec.MemMap

theorem c06_arms : genReadArms = expectedReadArms ∧ genWriteArms = expectedWriteArms := by decide +kernel

theorem c06_decoder_recognised : Gen.Decoder.unrecognised = [] := by decide

end Tetro.C06
