import Tetro.Gen.OamWriters
/-
C17 – OAM is only altered by CPU writes, DMA, or the mode-2 OAM bug: obligations over regenerated facts.

Who can store into OAM, who sets the `corrupt` flag and who reaches the OAM API from the CPU, the PPU and the
mapper is regenerated from the source on every run and must equal the lists the theorems were written
against:  Tetro.C17Oam (with `corrupt = false` and no pending flag, Read / TriggerWriteCorruption / Corrupt /
PPURead / ExitMode2 / ReadDMA leave all 160 bytes unchanged, Write changes exactly the addressed byte below
FEA0, a DMA tick at most the byte it stores; flags are only set while `corrupt` holds) and Tetro.C17Lcd
(for every schedule of PPU ticks and register writes: corrupt -> LCD on and mode 2; LCD off -> not corrupt).
The CPU model reaches OAM only through `Bus.read/write/trigger/corrupt` (by construction of `MicroOp.run`).
-/
namespace Tetro.C17

/-- only these functions of oam.go store into the OAM bytes -/
theorem c17_data_writers : Gen.OamWriters.dataWriters =
    ["writeCorruption", "readCorruption", "readWriteCorruption", "doubleWriteCorruption", "Write", "TickDMA"] := by decide

/-- the `corrupt` flag is set only by EnterMode2 and cleared only by ExitMode2 -/
theorem c17_corrupt_setters : Gen.OamWriters.corruptSetters = ["EnterMode2=true", "ExitMode2=false"] := by decide

/-- the pending read/write/double-write flags are set only in TriggerWriteCorruption, Read and Write (each under
    the `corrupt` test) and cleared in Corrupt -/
def expectedFlagSetters : List String := [
  "TriggerWriteCorruption: m.doubleWrite = true",
  "TriggerWriteCorruption: m.write = true",
  "Corrupt: m.read = false",
  "Corrupt: m.write = false",
  "Corrupt: m.doubleWrite = false",
  "Read: m.read = true",
  "Write: m.doubleWrite = true",
  "Write: m.write = true"
]
theorem c17_flag_setters : Gen.OamWriters.flagSetters = expectedFlagSetters := by decide

/-- the four corruption functions are called from Corrupt only -/
theorem c17_corruption_callers : Gen.OamWriters.corruptionCallers =
    ["Corrupt->readWriteCorruption", "Corrupt->readCorruption", "Corrupt->doubleWriteCorruption", "Corrupt->writeCorruption"] := by decide

/-- every call of the OAM API from the CPU, the PPU, the mapper: in particular `disable` calls ExitMode2 and
    only `enable` and the two mode-2 entries of EndMachineCycle call EnterMode2.  For the calls that cannot alter
    OAM outside the window (PPURead, Read, ReadDMA, TriggerWriteCorruption) only the calling PACKAGE is recorded. -/
def expectedExternalCalls : List String := [
  "cpu.ExecuteMachineCycle->Corrupt",
  "cpu.*->TriggerWriteCorruption",
  "ppu.EndMachineCycle->ExitMode2",
  "ppu.EndMachineCycle->EnterMode2",
  "ppu.*->PPURead",
  "ppu.enable->EnterMode2",
  "ppu.disable->ExitMode2",
  "memory.EndMachineCycle->TickDMA",
  "memory.*->Read",
  "memory.*->ReadDMA",
  "memory.Write->Write",
  "memory.Write->WriteDMA"
]
theorem c17_external_calls : Gen.OamWriters.externalCalls = expectedExternalCalls := by decide

end Tetro.C17
