import Tetro.Model.Joyp
import Tetro.Spec.Joyp
import Tetro.Lemmas.Bits
/-
C22 – JOYP reflects held buttons for the selected groups.
Refinement of the code model (`Model.Joyp`) to the documentation-shaped spec (`Spec.Joyp`)
through an abstraction function, for every history of button events and JOYP writes.
-/
namespace Tetro.C22
open Tetro.Model

/-- abstraction: which keys the model state says are held, and the select value -/
def abs (c : Joyp.Ctl) : Spec.Joyp.St :=
  { held := { up := !c.dir.getLsbD 2, down := !c.dir.getLsbD 3,
              left := !c.dir.getLsbD 1, right := !c.dir.getLsbD 0,
              a := !c.btn.getLsbD 0, b := !c.btn.getLsbD 1,
              start := !c.btn.getLsbD 3, select := !c.btn.getLsbD 2 },
    sel := c.joyp }

def specStep (s : Spec.Joyp.St) : Joyp.Op → Spec.Joyp.St
  | .write v => Spec.Joyp.write s v
  | .button b p => Spec.Joyp.button s b p

theorem abs_init : abs Joyp.init = Spec.Joyp.init := by decide

private theorem and10 : ∀ x : BitVec 8, (x &&& 0x10#8 = 0#8) ↔ x.getLsbD 4 = false := by
  apply forall_bv8; decide +kernel
private theorem and20 : ∀ x : BitVec 8, (x &&& 0x20#8 = 0#8) ↔ x.getLsbD 5 = false := by
  apply forall_bv8; decide +kernel

/-- one step of the model commutes with one step of the spec -/
theorem abs_step (c : Joyp.Ctl) (op : Joyp.Op) : abs (Joyp.step c op) = specStep (abs c) op := by
  cases op with
  | write v => rfl
  | button b p =>
    have hb : b = 0 ∨ b = 1 ∨ b = 2 ∨ b = 3 ∨ b = 4 ∨ b = 5 ∨ b = 6 ∨ b = 7 ∨ 8 ≤ b := by omega
    rcases hb with h|h|h|h|h|h|h|h|h
    all_goals first
      | (subst h; cases p <;>
          simp [Joyp.step, Joyp.button, specStep, Spec.Joyp.button, Spec.Joyp.press,
                Spec.Joyp.release, abs])
      | (obtain ⟨k, rfl⟩ : ∃ k, b = k + 8 := ⟨b - 8, by omega⟩
         cases p <;> simp [Joyp.step, Joyp.button, specStep, Spec.Joyp.button, Spec.Joyp.press,
                Spec.Joyp.release, abs])

/-- the value read from the model is the value the spec prescribes for the abstract state -/
theorem read_abs (c : Joyp.Ctl) : Joyp.read c = Spec.Joyp.read (abs c) := by
  apply BitVec.eq_of_getLsbD_eq
  intro i hi
  have hcases : i = 0 ∨ i = 1 ∨ i = 2 ∨ i = 3 ∨ i = 4 ∨ i = 5 ∨ i = 6 ∨ i = 7 := by omega
  have e4 := and10 c.joyp
  have e5 := and20 c.joyp
  rcases hcases with h|h|h|h|h|h|h|h <;> subst h <;>
    cases h4 : c.joyp[4] <;> cases h5 : c.joyp[5] <;>
    simp [h4, h5] at e4 e5 <;>
    simp [Joyp.read, Spec.Joyp.read, Spec.Joyp.lineLow, abs, h4, h5, e4, e5, BitVec.ofBoolListLE]

theorem run_abs (c : Joyp.Ctl) (ops : List Joyp.Op) :
    abs (Joyp.run c ops) = ops.foldl specStep (abs c) := by
  induction ops generalizing c with
  | nil => rfl
  | cons op ops ih => simp only [Joyp.run, List.foldl_cons] at *; rw [ih, abs_step]

/-- C22 (main): after ANY history of presses, releases and JOYP writes from power-on, a read of
    JOYP returns exactly what the documentation-shaped spec returns after the same history. -/
theorem c22_read_refines (ops : List Joyp.Op) :
    Joyp.read (Joyp.run Joyp.init ops) = Spec.Joyp.read (ops.foldl specStep Spec.Joyp.init) := by
  rw [read_abs, run_abs, abs_init]

/-- the spec's read has the documented shape: bits 6–7 one, bits 4–5 as last written -/
theorem c22_spec_shape (s : Spec.Joyp.St) :
    (Spec.Joyp.read s).getLsbD 7 = true ∧ (Spec.Joyp.read s).getLsbD 6 = true ∧
    (Spec.Joyp.read s).getLsbD 5 = s.sel.getLsbD 5 ∧ (Spec.Joyp.read s).getLsbD 4 = s.sel.getLsbD 4 := by
  simp [Spec.Joyp.read, BitVec.ofBoolListLE]

/-- opposite directions are never held together (spec-level invariant over all histories) -/
def NoOpp (s : Spec.Joyp.St) : Prop :=
  ¬(s.held.up = true ∧ s.held.down = true) ∧ ¬(s.held.left = true ∧ s.held.right = true)

theorem noOpp_step (s : Spec.Joyp.St) (op : Joyp.Op) (h : NoOpp s) : NoOpp (specStep s op) := by
  cases op with
  | write v => exact h
  | button b p =>
    have hb : b = 0 ∨ b = 1 ∨ b = 2 ∨ b = 3 ∨ b = 4 ∨ b = 5 ∨ b = 6 ∨ b = 7 ∨ 8 ≤ b := by omega
    unfold NoOpp at *
    rcases hb with h'|h'|h'|h'|h'|h'|h'|h'|h'
    all_goals first
      | (subst h'; cases p <;>
          simp_all [specStep, Spec.Joyp.button, Spec.Joyp.press, Spec.Joyp.release])
      | (obtain ⟨k, rfl⟩ : ∃ k, b = k + 8 := ⟨b - 8, by omega⟩
         cases p <;> simp_all [specStep, Spec.Joyp.button, Spec.Joyp.press, Spec.Joyp.release])

/-- C22 (opposites): in every reachable state of the code model no two opposite directions
    are held, hence they never read as pressed together. -/
theorem c22_no_opposites (ops : List Joyp.Op) : NoOpp (abs (Joyp.run Joyp.init ops)) := by
  rw [run_abs, abs_init]
  suffices ∀ s, NoOpp s → NoOpp (ops.foldl specStep s) from this _ (by unfold NoOpp; decide)
  induction ops with
  | nil => intro s h; exact h
  | cons op ops ih => intro s h; exact ih _ (noOpp_step s op h)

/-- non-vacuity: a history in which A and Left are held with both groups selected reads 0xCC -/
example : Joyp.read (Joyp.run Joyp.init [.button 4 true, .button 2 true, .write 0x00]) = 0xCC := by decide

end Tetro.C22
