import Tetro.Model.Render
import Tetro.Model.Lcd
import Tetro.Model.Whole
import Tetro.Proofs.Whole
import Tetro.Proofs.WholeSafe
import Tetro.Proofs.WholeTraces
import Tetro.Lemmas.BoardTrace

/-!
C15 inside the whole-machine model: the two models of `ppu.EndMachineCycle` keep the same clock.

`Model/Render.lean` (the pixel pipeline C15's theorems are about) and `Model/Lcd.lean` (the timing model
C13/C14 are about) both contain the mode / tick schedule of `EndMachineCycle`.  `Board.ppuStep` of the
whole-machine model runs both on every cycle and copies the LCD model's clock into the pixel state
(`syncPix`) before the pixel work.  The theorems here show that the PPU step itself never makes the two
clocks differ (so the copy only ever transports the effect of a CPU write to LCDC / LY made between two PPU
steps): whatever the scene and the pixel state, one call of `Render.tick` with the LCD on moves
`ticks`, `mode`, `ly` and `firstLine` exactly as `Lcd.tickOn` does.  So the frame-assembly theorem
`c15_frame` (tick counter of `Render`) and the schedule theorems of C13 speak about one and the same clock.
-/

namespace Tetro.C15Whole
open Tetro.Model Tetro.Model.Render Tetro.Model.Whole Tetro.WholeProofs Tetro.BoardTrace

/-- the four timing fields of a pixel state -/
def clock (st : PState) : Nat × Nat × Nat × Bool := (st.ticks, st.mode, st.ly, st.firstLine)

private theorem sprite_clock (s : Scene) (st st' : PState) (i : Nat)
    (h : checkOverlappingSprite s st i = some st') : clock st' = clock st := by
  unfold checkOverlappingSprite at h
  cases ho : oamAt s (mul8 i 4) with
  | none => rw [ho] at h; cases h
  | some y =>
    rw [ho, Option.bind_some] at h
    by_cases hi : i < 40
    · rw [dif_pos hi] at h; cases h; rfl
    · rw [dif_neg hi] at h; cases h

private theorem sprites_clock (s : Scene) (st st' : PState) (t : Nat)
    (h : checkOverlappingSprites s st t = some st') : clock st' = clock st := by
  unfold checkOverlappingSprites at h
  cases h1 : checkOverlappingSprite s st (mul8 t 2) with
  | none => rw [h1] at h; cases h
  | some st1 =>
    rw [h1, Option.bind_some] at h
    rw [sprite_clock s st1 st' _ h, sprite_clock s st st1 _ h1]

private theorem pixel_clock (s : Scene) (st st' : PState) (x : Nat)
    (h : renderPixelSt s st x = some st') : clock st' = clock st := by
  unfold renderPixelSt at h
  cases hp : pixelWith s (ovFun st.overlaps) x st.ly with
  | none => rw [hp] at h; cases h
  | some v => rw [hp, Option.bind_some] at h; cases h; rfl

private theorem pixel4_clock (s : Scene) (st st' : PState) (a b c d : Nat)
    (h : ((renderPixelSt s st a).bind fun s1 => (renderPixelSt s s1 b).bind fun s2 =>
          (renderPixelSt s s2 c).bind fun s3 => renderPixelSt s s3 d) = some st') :
    clock st' = clock st := by
  cases h1 : renderPixelSt s st a with
  | none => rw [h1] at h; cases h
  | some s1 =>
    rw [h1, Option.bind_some] at h
    cases h2 : renderPixelSt s s1 b with
    | none => rw [h2] at h; cases h
    | some s2 =>
      rw [h2, Option.bind_some] at h
      cases h3 : renderPixelSt s s2 c with
      | none => rw [h3] at h; cases h
      | some s3 =>
        rw [h3, Option.bind_some] at h
        rw [pixel_clock s s3 st' d h, pixel_clock s s2 s3 c h3, pixel_clock s s1 s2 b h2,
          pixel_clock s st s1 a h1]

/-- the work of one tick changes the clock only by the two-tick skip of the first line after switch-on -/
private theorem work_clock (s : Scene) (st st' : PState) (t : Nat) (h : tickWork s st t = some st') :
    clock st' = if st.mode = 0 ∧ st.firstLine = true then (st.ticks + 2, st.mode, st.ly, false)
                else clock st := by
  unfold tickWork at h
  split at h
  · next hm => rw [sprites_clock s st st' t h, if_neg (by rw [hm]; simp)]
  · next hm =>
    rw [if_neg (by rw [hm]; simp)]
    by_cases hl : mul8 (sub8 t 20) 4 < 160
    · simp only [hl, if_true] at h
      exact pixel4_clock s st st' _ _ _ _ h
    · simp only [hl, if_false] at h; cases h; rfl
  · next hm =>
    cases hf : st.firstLine
    · rw [hf] at h; simp only [Bool.false_eq_true, if_false] at h; cases h
      rw [if_neg (by simp)]
    · rw [hf] at h; simp only [if_true] at h; cases h
      rw [if_pos ⟨hm, rfl⟩]; simp [clock, hm]
  · next hm => cases h; rw [if_neg (by rw [hm]; simp)]
  · cases h

/-- the mode switch of the pixel model is the mode switch of the LCD model (inside a frame) -/
private theorem nextMode_agree (m t m' : Nat) (_hlt : t < 17556)
    (h : Render.nextMode m t (t / 114 % 256) (t % 114 % 256) = some m') : m' = Lcd.nextMode m t := by
  have e1 : t % 114 % 256 = t % 114 := by omega
  unfold Render.nextMode at h
  unfold Lcd.nextMode
  rw [e1] at h
  split at h
  · cases h; simp
  · cases h; simp
  · cases h; simp
  · cases h; simp
  · cases h

/-- **C15/C13 clock agreement, one call.**  LCD on, tick counter inside a frame: whatever the scene and the
    rest of the pixel state, a call of the pixel model's `EndMachineCycle` that does not panic leaves
    `ticks`, `mode`, `ly` and `firstLine` exactly as the LCD timing model's `tickOn` leaves them. -/
theorem c15_whole_clock (s : Scene) (hen : enabled s = true) (p : Lcd.Ppu) (st st' : PState)
    (hlt : p.ticks < 17556) (h : Render.tick s (syncPix p st) = some st') :
    clock st' = ((Lcd.tickOn p).p.ticks, (Lcd.tickOn p).p.mode, (Lcd.tickOn p).p.ly,
                 (Lcd.tickOn p).p.firstLine) := by
  unfold Render.tick at h
  rw [hen] at h
  simp only [Bool.not_true, Bool.false_eq_true, if_false, syncPix] at h
  cases hn : Render.nextMode p.mode p.ticks (p.ticks / 114 % 256) (p.ticks % 114 % 256) with
  | none => rw [hn] at h; cases h
  | some m =>
    rw [hn, Option.bind_some] at h
    have hm := nextMode_agree p.mode p.ticks m hlt hn
    cases hw : tickWork s { st with ticks := p.ticks, mode := m, ly := p.ticks / 114 % 256,
                                    firstLine := p.firstLine } (p.ticks % 114 % 256) with
    | none => rw [hw] at h; cases h
    | some w =>
      rw [hw, Option.bind_some] at h
      cases h
      have hc := work_clock s _ w _ hw
      simp only [clock] at hc
      unfold Lcd.tickOn
      simp only [clock]
      rw [← hm]
      by_cases hk : m = 0 ∧ p.firstLine = true
      · rw [if_pos hk] at hc
        injection hc with a hc; injection hc with b hc; injection hc with c d
        simp [a, b, c, d, hk]
      · rw [if_neg hk] at hc
        injection hc with a hc; injection hc with b hc; injection hc with c d
        simp [a, b, c, d, hk]

/-- **C15/C13 clock agreement inside the whole-machine model.**  One `ppu.EndMachineCycle` of the board
    (`Board.ppuStep`: pixel work of `Render.tick` on the scene of this cycle, timing of `Lcd.tick`) that does
    not panic leaves the pixel state's clock equal to the LCD model's clock - LCD on or off - provided the
    two models agree on the LCD-enable flag and the counter is inside a frame.  So the `syncPix` copy at the
    start of the next cycle changes nothing unless the CPU wrote LCDC / LY in between: the frame-assembly invariant of `c15_frame` and the schedule of
    C13 are statements about the same counter of the same machine. -/
theorem c15_whole_ppuStep (b : Board) (hflag : enabled (sceneOf b.m) = b.m.ppu.enabled)
    (hlt : b.m.ppu.ticks < 17556) (hc : (Board.ppuStep b).crashed = false) :
    syncPix (Board.ppuStep b).m.ppu (Board.ppuStep b).pix = (Board.ppuStep b).pix := by
  obtain ⟨m, apu, pix, crashed⟩ := b
  simp only at hflag hlt
  rw [Tetro.WholeProofs.whole_step_ppu] at hc ⊢
  simp only at hc ⊢
  cases hr : Render.tick (sceneOf m) (syncPix m.ppu pix) with
  | none => rw [hr] at hc; cases hc
  | some pix' =>
    cases ht : Machine.ppuTick m with
    | none => rw [hr, ht] at hc; cases hc
    | some m' =>
      simp only
      unfold Machine.ppuTick at ht
      cases hl : Lcd.tick m.ppu with
      | none => rw [hl] at ht; simp at ht
      | some r =>
        rw [hl] at ht
        simp only [Option.map_some, Option.some.injEq] at ht
        subst ht
        simp only
        cases he : m.ppu.enabled
        · -- LCD off: neither model moves
          rw [he] at hflag
          unfold Render.tick at hr
          rw [hflag] at hr
          simp only [Bool.not_false, if_true, Option.some.injEq] at hr
          unfold Lcd.tick at hl
          rw [he] at hl
          simp only [if_true, Option.some.injEq] at hl
          subst hr; subst hl
          rfl
        · rw [he] at hflag
          have hk := c15_whole_clock (sceneOf m) hflag m.ppu pix pix' hlt hr
          unfold Lcd.tick at hl
          rw [he] at hl
          simp only [Bool.true_eq_false, if_false] at hl
          split at hl
          · cases hl
          · simp only [Option.some.injEq] at hl
            subst hl
            simp only [clock] at hk
            injection hk with a hk; injection hk with b hk; injection hk with c d
            unfold syncPix
            rw [← a, ← b, ← c, ← d]

/-! ### the hypotheses follow from the board invariant -/

/-- the LCD model's counter stays inside a frame (from the simulation relation with the C13 specification) -/
theorem ticks_lt_of_rel (s : Tetro.Spec.Lcd.St) (p : Lcd.Ppu) (h : Tetro.LcdLemmas.Rel s p) :
    p.ticks < 17556 := by
  unfold Tetro.LcdLemmas.Rel at h
  obtain ⟨_, _, _, _, _, h⟩ := h
  cases hs : s.since with
  | none => rw [hs] at h; simp only [] at h; omega
  | some n => rw [hs] at h; simp only [] at h; rw [h.2.2.1]; exact Tetro.LcdLemmas.phase_lt _

private theorem low_bit7 : ∀ l : Fin 128, decide ((l.val % 256) &&& 0x80 > 0) = false ∧
    decide (((128 + l.val) % 256) &&& 0x80 > 0) = true := by decide +kernel

/-- both models read the LCD-enable flag from the same place: LCDC as it reads back -/
theorem flag_agree (m : Machine.Machine) (h : m.ppu.lcdcLow < 128) :
    enabled (sceneOf m) = m.ppu.enabled := by
  have hb := low_bit7 ⟨m.ppu.lcdcLow, h⟩
  simp only at hb
  unfold enabled sceneOf toByte Lcd.readLCDC
  simp only
  cases m.ppu.enabled
  · simp only [Bool.false_eq_true, if_false, Nat.zero_add]; exact hb.1
  · simp only [if_true]; exact hb.2

/-- **clock agreement from the board invariant** (`BoardOk`: no Go panic so far and the component invariants,
    preserved by every whole-machine cycle - `whole_no_crash_partial`): no hypothesis on this cycle is left
    except that the seven low LCDC bits are a 7-bit value. -/
theorem c15_whole_ppuStep_ok (b : Board) (h : Tetro.WholeSafe.BoardOk b) (hl : b.m.ppu.lcdcLow < 128) :
    syncPix (Board.ppuStep b).m.ppu (Board.ppuStep b).pix = (Board.ppuStep b).pix := by
  obtain ⟨s, hs⟩ := h.lcd
  exact c15_whole_ppuStep b (flag_agree b.m hl) (ticks_lt_of_rel s _ hs)
    (Tetro.WholeSafe.whole_ppu_step_total b h).alive

/-! ### `lcdcLow < 128` along every run -/

private theorem low_step (p : Lcd.Ppu) (op : Lcd.Op) (r : Lcd.TickRes) (h : p.lcdcLow < 128)
    (hs : Lcd.step p op = some r) : r.p.lcdcLow < 128 := by
  cases op with
  | tick =>
    have hs' : Lcd.tick p = some r := hs
    unfold Lcd.tick at hs'
    by_cases he : p.enabled = false
    · rw [if_pos he] at hs'; cases hs'; exact h
    · rw [if_neg he] at hs'
      by_cases hp : Lcd.tickPanics p
      · rw [if_pos hp] at hs'; cases hs'
      · rw [if_neg hp] at hs'; cases hs'; exact h
  | wLCDC v =>
    cases hs
    show v % 128 < 128
    exact Nat.mod_lt _ (by decide)
  | wSTAT v => cases hs; exact h
  | wLYC v => cases hs; exact h
  | wLY v => cases hs; exact h

/-- the seven low LCDC bits stay a 7-bit value along every schedule of LCD operations -/
theorem low_run (ops : List Lcd.Op) (p q : Lcd.Ppu) (h : p.lcdcLow < 128) (hr : Lcd.run p ops = some q) :
    q.lcdcLow < 128 := by
  induction ops generalizing p with
  | nil => cases hr; exact h
  | cons op ops ih =>
    unfold Lcd.run at hr
    cases hs : Lcd.step p op with
    | none => rw [hs] at hr; cases hr
    | some r => rw [hs] at hr; exact ih r.p (low_step p op r h hs) hr

/-- ... hence in every state of every run of the whole machine (the LCD goes through `lcdTrace`) -/
theorem whole_low (n : Nat) (w : Whole) (h : (Whole.run n w).stopped = false) (h0 : w.b.m.ppu.lcdcLow < 128) :
    (Whole.run n w).b.m.ppu.lcdcLow < 128 :=
  low_run _ _ _ h0 (Tetro.WholeTraces.whole_lcd_run n w h)

/-! ### non-vacuity -/

/-- the power-on board meets the hypotheses (LCD on in both models, counter 0), does not panic, and its
    pixel clock after the cycle is the LCD model's: tick 1 of line 0 in mode 2 -/
def exBoard : Board :=
  (powerOn (.none { rom := Cart.pagesOf { len := 0x8000, byte := fun _ => 0 }, imgLen := 0x8000 }) false false).b

example : enabled (sceneOf exBoard.m) = exBoard.m.ppu.enabled ∧ exBoard.m.ppu.enabled = true ∧
    exBoard.m.ppu.ticks < 17556 ∧ exBoard.m.ppu.lcdcLow < 128 ∧ (Board.ppuStep exBoard).crashed = false ∧
    clock (Board.ppuStep exBoard).pix = clock (syncPix (Board.ppuStep exBoard).m.ppu pixInit) := by
  decide +kernel

/-! ### whole cycles and whole runs -/

/-- **clock agreement at the end of every machine cycle.**  If the whole machine is running after a cycle,
    the pixel state's clock at the end of the cycle is the LCD model's clock: the steps after
    `ppu.EndMachineCycle` (DMA / RTC, APU, timer) touch neither. -/
theorem c15_whole_cycle (w : Whole) (h : w.cycle.stopped = false)
    (hflag : enabled (sceneOf (afterCpu w).2.m) = (afterCpu w).2.m.ppu.enabled)
    (hlt : (afterCpu w).2.m.ppu.ticks < 17556) :
    syncPix w.cycle.b.m.ppu w.cycle.b.pix = w.cycle.b.pix := by
  obtain ⟨hs, hc, hok⟩ := running_before w h
  have e := whole_cycle_steps w hs hc hok
  rw [e] at hok ⊢
  generalize (afterCpu w).2 = b0 at hok hflag hlt ⊢
  have h3 : b0.ppuStep.dmaStep.crashed = false := by
    have : b0.ppuStep.dmaStep.apuStep.timerStep.crashed = b0.ppuStep.dmaStep.crashed := by
      rw [whole_step_apu]; rfl
    rw [← this]; exact hok
  have ep : b0.ppuStep.dmaStep.apuStep.timerStep.pix = b0.ppuStep.dmaStep.pix := by
    rw [whole_step_apu]; rfl
  have em : b0.ppuStep.dmaStep.apuStep.timerStep.m.ppu = b0.ppuStep.dmaStep.m.ppu := by
    rw [whole_step_apu]; rfl
  show syncPix b0.ppuStep.dmaStep.apuStep.timerStep.m.ppu b0.ppuStep.dmaStep.apuStep.timerStep.pix
      = b0.ppuStep.dmaStep.apuStep.timerStep.pix
  rw [ep, em]
  rw [whole_step_dma] at h3 ⊢
  cases hd : Machine.endMachineCycle Serial.genReadArms b0.ppuStep.m with
  | none => rw [hd] at h3; cases h3
  | some m2 =>
    rw [hd] at h3
    have h1 : b0.ppuStep.crashed = false := h3
    obtain ⟨o, rfl⟩ := endMachineCycle_shape _ _ _ hd
    exact c15_whole_ppuStep b0 hflag hlt h1

/-- the same from the board invariant: no hypothesis about the middle of the cycle is left -/
theorem c15_whole_cycle_ok (w : Whole) (h : w.cycle.stopped = false) (hb : Tetro.WholeSafe.BoardOk w.b)
    (hl : w.b.m.ppu.lcdcLow < 128) : syncPix w.cycle.b.m.ppu w.cycle.b.pix = w.cycle.b.pix := by
  obtain ⟨hs, _, _⟩ := running_before w h
  have hb' : Tetro.WholeSafe.BoardOk (afterCpu w).2 := Tetro.WholeSafe.whole_cpu_part w.cpu w.b hb
  obtain ⟨s, hrel⟩ := hb'.lcd
  have hl' : (afterCpu w).2.m.ppu.lcdcLow < 128 :=
    low_run _ _ _ hl (Tetro.WholeTraces.whole_lcd_cpu w hs)
  exact c15_whole_cycle w h (flag_agree _ hl') (ticks_lt_of_rel s _ hrel)

/-- **C15/C13 clock agreement along every run.**  From any state that satisfies the board invariant (in
    particular every state `c11_whole_never_panics` reaches), after every machine cycle that leaves the machine
    running, the pixel pipeline's clock is the LCD model's clock. -/
theorem c15_whole_run (n : Nat) (w : Whole) (hb : Tetro.WholeSafe.BoardOk w.b) (hl : w.b.m.ppu.lcdcLow < 128)
    (h : (Whole.run (n + 1) w).stopped = false) :
    syncPix (Whole.run (n + 1) w).b.m.ppu (Whole.run (n + 1) w).b.pix = (Whole.run (n + 1) w).b.pix := by
  have e : Whole.run (n + 1) w = (Whole.run n w).cycle := run_add n 1 w
  rw [e] at h ⊢
  have hn : (Whole.run n w).stopped = false := (running_before _ h).1
  exact c15_whole_cycle_ok _ h (Tetro.WholeSafe.whole_run_no_crash n w hb).1 (whole_low n w hn hl)

/-! non-vacuity: the demo machine (all-NOP ROM-only cartridge) after its first cycle satisfies the hypotheses of
    `c15_whole_run`, so its pixel clock agrees with the LCD clock after each of its next 30 cycles
    (into mode 3 of line 0: sprite search, a mode switch and pixel work all happened) -/
section
open Tetro.WholeSafe Tetro.LcdLemmas
private theorem demo_ok : BoardOk demo.cycle.b := by
  refine ⟨by decide +kernel, ?_, ?_, ⟨?_, ?_⟩, by decide +kernel⟩
  · show (0x8000 : Nat) ≤ 0x8000; decide
  · obtain ⟨r, hr, hrel, _⟩ := step_rel _ _ .tick rel_init
    have e : Lcd.step Lcd.init .tick = some (Lcd.tickOn Lcd.init) := by decide +kernel
    rw [e] at hr
    have e2 : demo.cycle.b.m.ppu = (Lcd.tickOn Lcd.init).p := by decide +kernel
    rw [e2]
    exact ⟨_, (Option.some.inj hr) ▸ hrel⟩
  · show 0xfe00 ≤ demo.cycle.b.m.oam.ppuLastAccess.toNat ∧ demo.cycle.b.m.oam.ppuLastAccess.toNat ≤ 0xfe9f
    decide +kernel
  · intro h; exfalso; revert h; decide +kernel

private theorem demo_low : demo.cycle.b.m.ppu.lcdcLow < 128 := by decide +kernel
private theorem demo_running : (Whole.run (29 + 1) demo.cycle).stopped = false := by decide +kernel
example : syncPix (Whole.run (29 + 1) demo.cycle).b.m.ppu (Whole.run (29 + 1) demo.cycle).b.pix
    = (Whole.run (29 + 1) demo.cycle).b.pix :=
  c15_whole_run 29 demo.cycle demo_ok demo_low demo_running
example : (Whole.run 30 demo.cycle).b.m.ppu.mode = 3 ∧ (Whole.run 30 demo.cycle).b.m.ppu.ly = 0 := by
  decide +kernel
end

end Tetro.C15Whole
