import Tetro.Proofs.WholeTraces
import Tetro.Lemmas.BoardSerial
import Tetro.Lemmas.CartConstruct
import Tetro.Lemmas.BoardDma
import Tetro.Proofs.C23
import Tetro.Proofs.C19
import Tetro.Proofs.C21
/-
PROJECTION LAYER, part 2 (continues Proofs/WholeTraces.lean): the remaining component properties on runs of the
whole machine (`Model/Whole.lean`).  Same pattern: `whole_X_trace` (one cycle), `whole_X_run` (any run), `cNN_whole`
(the component theorem instantiated with the induced trace of a machine `gameboy.New` builds); the induced traces
are derived from `cpuWrites w`, the ghost log of the CPU's bus writes of a cycle (proved faithful in C17Whole).

1. SERIAL (C23).  `whole_serial_trace`, `whole_serial_run` (NO hypothesis: every state, running or stopped, every
   number of cycles – the end-of-cycle calls never touch the serial unit, panicking or not), `whole_serial_reads`,
   `c23_whole_from`, `c23_whole` (for every accepted image and every `n`: the writer's log is exactly the FF01 entries
   of the ghost write logs of the `n` cycles, in order; no writer: empty; FF01/FF02 read FF).
2. CARTRIDGE RAM (C09).  `whole_cart_built` (what `gameboy.New` builds is the start state of `c09_refines_*`, per
   supported type; Lemmas/CartConstruct.lean: `construct_shape`, `mbc1_new_small`, `c09_image`), `c09_whole` (window
   reads and `DumpRAM` = the abstract RAM model on the induced history), `c09_whole_ram`.
3. OAM DMA (C16).  `c16_whole_from` (any state), `c16_whole` (reachable states).  Helpers in Lemmas/BoardDma.lean:
   the engine's view `dview` of the OAM unit, `cpu_dma` (the CPU's part of a cycle), `end_cycle_dma` (the end of a
   cycle = ONE `TickDMA` whose byte source is the bus read of `Mapper.EndMachineCycle`), `dmaRd_low` (that read is
   `Board.read` below E000).  `bus` of `C16.c16_copy` is instantiated with the board reads of the run.
   HYPOTHESIS that cannot be dropped: the OAM-bug window is closed at the start of each cycle of the transfer (LCD
   off or PPU outside mode 2) – in the model, as in oam.go, the mode-2 corruption of C17 rewrites OAM rows also
   while a transfer runs, and CPU writes to FE00–FE9F are not blocked (`c16_whole_write_not_blocked`).
4. APU (C19/C21).  `whole_apu_flip` (a status bit that changes inside a cycle changes at one of the CPU's sound
   writes of that cycle or in `audio.EndMachineCycle`), `c19_whole_on_only_by_trigger`, `c19_whole_off_causes`,
   `c19_whole_off_causes_ch2`, `c19_whole_run`, `c21_whole_cycle`, `whole_apu_quiet_run`, `c21_whole` (channels 2 and 4:
   the closed form of C21 along ANY number of machine cycles without sound-register writes).  PARTIAL with respect
   to C19/C21 as a whole: the length-expiry theorems (`c19_length_exact`, `c19_256hz`: channel-level functions /
   clocks without NR52 writes) and C21 for channels 1 and 3 (sweep / length interaction, component level only) are
   not lifted.
5. CPU (C01–C05): NOT lifted.  `c01_program_refines` and all instruction-level theorems (C01–C05, Lemmas/Cpu*.lean)
   are stated for the flat bus `Exec.Flat` (memory = a function, reads pure, nothing changes between cycles); the
   board's reads have side effects and its I/O registers and IF change at the end of every cycle.  Lifting needs an
   ISA machine over an abstract bus with an environment step between cycles and the C02–C05 proofs redone over it.
   The statements that ARE generic over `[Cpu.Bus β]` (`CpuOk.cycle_ok`, `GhostBus.cycle_ghost/cycle_wr_addrs`,
   `CpuBusInv.cycle_preserves`, `CpuAddr.run_preserves_within`) are already instantiated with `Board` in
   Proofs/WholeNoCrash.lean (`whole_cpu_ok`) and Proofs/C17Whole.lean (`cpuWrites_faithful`, `cpuWrites_addrs`).
-/
namespace Tetro.WholeTraces2
open Tetro.Model Tetro.Model.Machine Tetro.Model.Whole Tetro.Model.Decoder
open Tetro.WholeProofs Tetro.BoardOam Tetro.BoardTrace Tetro.GhostBus Tetro.C17Whole Tetro.WholeNoCrash
open Tetro.WholeTraces Tetro.BoardSerial Tetro.CartConstruct Tetro.BoardDma

/-! ## 1. the serial unit -/

/-- the serial unit's view of the machine cycle that starts in `w`: ALL bus writes of the CPU in this cycle
    (address as a number, byte), in order – the alphabet of `C23.c23_log` (any address, any value) -/
def serialWritesOf (w : Whole) : List (Nat × BitVec 8) := (cpuWrites w).map busWriteOf

/-- **serial, one machine cycle** (EVERY state – running, stopped, stopping in this very cycle): the serial unit
    after the cycle is the unit before it with the CPU's bus writes of the cycle routed through `Serial.busWrite`
    by the documented write arms, in order; nothing else in the cycle touches it -/
theorem whole_serial_trace (w : Whole) :
    w.cycle.b.m.serial = Tetro.C23.runWrites expectedWriteArms w.b.m.serial (serialWritesOf w) :=
  cycle_serial w

/-- the bus writes of `n` machine cycles from `w`, in order -/
def serialTrace : Nat → Whole → List (Nat × BitVec 8)
  | 0, _ => []
  | n + 1, w => serialWritesOf w ++ serialTrace n w.cycle

/-- **serial, any run** (EVERY start state, EVERY number of cycles, no hypothesis): the serial unit goes through
    the history `serialTrace n w` of bus writes -/
theorem whole_serial_run (n : Nat) (w : Whole) :
    (Whole.run n w).b.m.serial = Tetro.C23.runWrites expectedWriteArms w.b.m.serial (serialTrace n w) := by
  induction n generalizing w with
  | zero => rfl
  | succ n ih =>
    show (Whole.run n w.cycle).b.m.serial = _
    rw [ih w.cycle, whole_serial_trace w]
    show _ = Tetro.C23.runWrites _ _ (serialWritesOf w ++ serialTrace n w.cycle)
    unfold Tetro.C23.runWrites
    rw [List.foldl_append]

theorem serialTrace_succ (n : Nat) (w : Whole) :
    serialTrace (n + 1) w = serialTrace n w ++ serialWritesOf (Whole.run n w) := by
  induction n generalizing w with
  | zero => show serialWritesOf w ++ [] = [] ++ serialWritesOf w; rw [List.append_nil, List.nil_append]
  | succ n ih =>
    show serialWritesOf w ++ serialTrace (n + 1) w.cycle =
      (serialWritesOf w ++ serialTrace n w.cycle) ++ serialWritesOf (Whole.run n w.cycle)
    rw [ih w.cycle, List.append_assoc]

/-- the values of the CPU's bus writes to FF01 (SB) among a list of bus writes, in order -/
def sbBytes (wr : List (Cpu.Word × Cpu.Byte)) : List (BitVec 8) :=
  wr.filterMap fun p => if p.1.toNat = 0xFF01 then some p.2 else none

/-- everything the program writes to SB during the first `n` machine cycles from `w0`: cycle by cycle, the values
    of the CPU's bus writes to FF01, in order -/
def sbOutput (n : Nat) (w0 : Whole) : List (BitVec 8) :=
  (List.range n).flatMap fun k => sbBytes (cpuWrites (Whole.run k w0))

private theorem sbWrites_append (a b : List (Nat × BitVec 8)) :
    Tetro.C23.sbWrites (a ++ b) = Tetro.C23.sbWrites a ++ Tetro.C23.sbWrites b := by
  unfold Tetro.C23.sbWrites
  rw [List.filter_append, List.map_append]

private theorem sbWrites_cycle (wr : List (Cpu.Word × Cpu.Byte)) :
    Tetro.C23.sbWrites (wr.map busWriteOf) = sbBytes wr := by
  induction wr with
  | nil => rfl
  | cons p wr ih =>
    unfold Tetro.C23.sbWrites sbBytes at ih ⊢
    rw [List.map_cons, List.filter_cons, List.filterMap_cons]
    by_cases h : p.1.toNat = 0xFF01
    · have h' : decide ((busWriteOf p).1 = 0xff01) = true := by
        show decide (p.1.toNat = 0xff01) = true
        rw [decide_eq_true_eq]; exact h
      rw [h', if_pos rfl, if_pos h, List.map_cons, ih]
      rfl
    · have h' : decide ((busWriteOf p).1 = 0xff01) = false := by
        show decide (p.1.toNat = 0xff01) = false
        rw [decide_eq_false_iff_not]; exact h
      rw [h', if_neg h]
      exact ih

/-- the SB bytes of the induced history are the cycle-by-cycle list -/
theorem sbWrites_serialTrace (n : Nat) (w0 : Whole) :
    Tetro.C23.sbWrites (serialTrace n w0) = sbOutput n w0 := by
  induction n with
  | zero => rfl
  | succ n ih =>
    unfold sbOutput at ih ⊢
    rw [serialTrace_succ, sbWrites_append, ih, List.range_succ, List.flatMap_append]
    congr 1
    unfold serialWritesOf
    rw [sbWrites_cycle]
    simp only [List.flatMap_cons, List.flatMap_nil, List.append_nil]

private theorem serialTrace_addr (n : Nat) (w : Whole) : ∀ x ∈ serialTrace n w, x.1 < 65536 := by
  induction n generalizing w with
  | zero => intro x hx; cases hx
  | succ n ih =>
    intro x hx
    rcases List.mem_append.mp hx with h | h
    · unfold serialWritesOf at h
      rw [List.mem_map] at h
      obtain ⟨p, _, rfl⟩ := h
      exact p.1.isLt
    · exact ih w.cycle x h

/-- what the program reads: FF01 (SB) and FF02 (SC) return FF, without side effect, in every board state -/
theorem whole_serial_reads (b : Board) : b.read 0xFF01 = (0xff, b) ∧ b.read 0xFF02 = (0xff, b) := by
  have e1 : rH 0xFF01 = .sb := by unfold rH; rw [Tetro.C06.c06_arms.1]; decide +kernel
  have e2 : rH 0xFF02 = .sc := by unfold rH; rw [Tetro.C06.c06_arms.1]; decide +kernel
  constructor
  · unfold Board.read Board.read?; rw [e1]; rfl
  · unfold Board.read Board.read?; rw [e2]; rfl

private theorem construct_serial (img : Cart.Image) (wr au : Bool) (w0 : Whole)
    (hc : Whole.construct img wr au = some w0) : w0.b.m.serial = Serial.init wr := by
  unfold Whole.construct at hc
  rw [Option.map_eq_some_iff] at hc
  obtain ⟨c, _, rfl⟩ := hc
  rfl

private theorem runWrites_writer (arms : List Arm) (s : Serial.Serial) (ws : List (Nat × BitVec 8)) :
    (Tetro.C23.runWrites arms s ws).writer = s.writer := by
  induction ws generalizing s with
  | nil => rfl
  | cons x ws ih =>
    show (Tetro.C23.runWrites arms (Serial.busWrite arms s x.1 x.2) ws).writer = _
    rw [ih]
    unfold Serial.busWrite Serial.writeSB
    repeat' split
    all_goals rfl

/-- **serial from any state with a writer** (the general form of `c23_whole`): after `n` machine cycles the log is
    the log before them followed by the values the CPU wrote to FF01 in those cycles, in order -/
theorem c23_whole_from (w : Whole) (hw : w.b.m.serial.writer = true) (n : Nat) :
    (Whole.run n w).b.m.serial.log = w.b.m.serial.log ++ sbOutput n w := by
  rw [whole_serial_run, Tetro.C23.c23_log _ (serialTrace_addr n w) _ hw, sbWrites_serialTrace]

/-- **C23 on the whole machine.**  For EVERY ROM image the loader accepts, with (`wr = true`) or without a serial
    writer configured, and EVERY number `n` of machine cycles (no hypothesis on the program: the statement also
    covers the cycle in which an undefined opcode stops the emulator, and the stopped machine afterwards):
    * with a writer, the bytes delivered to it so far are EXACTLY the values of the CPU's bus writes to FF01 over
      those `n` cycles, each once, in order (`sbOutput n w0` = cycle by cycle the FF01 entries of the ghost write
      log `cpuWrites`, which is proved faithful) – nothing else is ever appended, whatever other address the program
      writes (FF02 included), whatever the PPU, the DMA engine, the APU or the timer do;
    * without a writer the log stays empty;
    * a read of FF01 or of FF02 returns FF and has no side effect. -/
theorem c23_whole (img : Cart.Image) (wr au : Bool) (w0 : Whole) (hc : Whole.construct img wr au = some w0)
    (n : Nat) :
    (Whole.run n w0).b.m.serial.writer = wr ∧
    (wr = true → (Whole.run n w0).b.m.serial.log =
      (List.range n).flatMap fun k =>
        (cpuWrites (Whole.run k w0)).filterMap fun p => if p.1.toNat = 0xFF01 then some p.2 else none) ∧
    (wr = false → (Whole.run n w0).b.m.serial.log = []) ∧
    (Whole.run n w0).b.read 0xFF01 = (0xff, (Whole.run n w0).b) ∧
    (Whole.run n w0).b.read 0xFF02 = (0xff, (Whole.run n w0).b) := by
  have e0 := construct_serial img wr au w0 hc
  refine ⟨?_, ?_, ?_, (whole_serial_reads _).1, (whole_serial_reads _).2⟩
  · rw [whole_serial_run, runWrites_writer, e0]; rfl
  · intro hwr
    subst hwr
    have h := c23_whole_from w0 (by rw [e0]; rfl) n
    rw [e0] at h
    exact h
  · intro hwr
    subst hwr
    rw [whole_serial_run, Tetro.C23.c23_nil_writer _ _ (by rw [e0]; rfl), e0]
    rfl

/-! ## 2. cartridge RAM (C09) -/

private theorem construct_cart (img : Cart.Image) (wr au : Bool) (w0 : Whole)
    (hc : Whole.construct img wr au = some w0) : Cart.construct img = some w0.b.m.cart := by
  unfold Whole.construct at hc
  rw [Option.map_eq_some_iff] at hc
  obtain ⟨c, hc', rfl⟩ := hc
  exact hc'

/-- **what `gameboy.New` puts behind the cartridge window.**  The cartridge of a constructed machine is, per
    supported cartridge type, exactly the start state the `c09_refines_*` theorems are stated for (`Built`:
    `.none …`, `.mbc1 m0` with `Mbc1.new … = some m0`, `.mbc2 (Mbc2.new …)`, `.mbc3 (Mbc3.new …)`,
    `.mbc5 (Mbc5.new …)` over the page copy of the image, RAM filled with FF, `ramBanks img` RAM banks), and the ROM
    bank count is a power of two ≥ 2 matching the image length. -/
theorem whole_cart_built (img : Cart.Image) (wr au : Bool) (w0 : Whole)
    (hc : Whole.construct img wr au = some w0) :
    ∃ kind, Tetro.C08.ctrlOf (img.byte 0x0147) = some kind ∧ Built img w0.b.m.cart kind ∧
      img.len = romBanks img * 0x4000 ∧ ∃ j, romBanks img = 2 ^ (j + 1) :=
  construct_shape img _ (construct_cart img wr au w0 hc)

/-- **C09 on the whole machine.**  For EVERY image the loader accepts (of controller family `kind`; the only size
    hypothesis is the documented MBC5 maximum of 512 ROM banks – for MBC1 the bound follows from successful
    construction) and EVERY number `n` of machine cycles the emulator survives, whatever program runs:
    * a CPU read of any address in A000–BFFF returns what the documentation-shaped RAM model of C09 (`Spec/Cart.lean`)
      predicts for the INDUCED history `hist (cartTrace n w0)` (per cycle the CPU's writes below 8000 and in
      A000–BFFF, then a clock tick): `windowRead` = `ramRead` (gated by the last enable write, banked modulo the
      bank count, a cell holds the most recent write that reached it, else FF; FF for a ROM-only cartridge),
      `mbc2Read` for an MBC2, and the selected clock register for an MBC3 with a clock register selected
      (whose value is `c10_whole_clock_read`) – and the read has no side effect;
    * `DumpRAM` (`Cart.Mbc.dump`) shows the abstract contents (`DumpSpec`: empty for ROM only, the 512 half-bytes
      of an MBC2, `ramDump` = all banks' cells otherwise). -/
theorem c09_whole (img : Cart.Image) (wr au : Bool) (w0 : Whole) (hc : Whole.construct img wr au = some w0)
    (kind : Spec.Cart.Ctrl) (hkind : Tetro.C08.ctrlOf (img.byte 0x0147) = some kind)
    (hdoc : kind = .mbc5 → romBanks img ≤ 512)
    (n : Nat) (hx : (Whole.run n w0).cpu.regs.exited = false) :
    (∀ a, Tetro.C09.InWindow a →
      (Whole.run n w0).b.read a =
        (windowRead kind (ramBanks img) (Tetro.CartSim.hist (cartTrace n w0)) a, (Whole.run n w0).b)) ∧
    DumpSpec kind (ramBanks img) (Tetro.CartSim.hist (cartTrace n w0)) (Whole.run n w0).b.m.cart.dump := by
  have hs : (Whole.run n w0).stopped = false := by rw [constructed_running img wr au w0 hc n]; exact hx
  have hrun := whole_cart_run n w0 hs (construct_ok img wr au w0 hc)
  obtain ⟨c', e, r, d⟩ := c09_image img w0.b.m.cart (construct_cart img wr au w0 hc) kind hkind hdoc (cartTrace n w0)
  rw [hrun] at e
  cases e
  refine ⟨fun a ha => ?_, d⟩
  unfold Board.read
  rw [whole_cart_read _ a (Or.inr ha), r a ha]
  rfl

/-- … for the controllers with plain external RAM (MBC1, MBC5, and MBC3 while no clock register is selected) the
    read is `Spec.Cart.ramRead` itself -/
theorem c09_whole_ram (img : Cart.Image) (wr au : Bool) (w0 : Whole) (hc : Whole.construct img wr au = some w0)
    (kind : Spec.Cart.Ctrl) (hkind : Tetro.C08.ctrlOf (img.byte 0x0147) = some kind)
    (hdoc : kind = .mbc5 → romBanks img ≤ 512)
    (n : Nat) (hx : (Whole.run n w0).cpu.regs.exited = false)
    (hram : kind = .rom ∨ kind = .mbc1 ∨ kind = .mbc5 ∨
      (kind = .mbc3 ∧ Spec.Cart.clockSelected (Tetro.CartSim.hist (cartTrace n w0)) = none))
    (a : Nat) (ha : Tetro.C09.InWindow a) :
    (Whole.run n w0).b.read a =
      (Spec.Cart.ramRead kind (ramBanks img) (Tetro.CartSim.hist (cartTrace n w0)) a, (Whole.run n w0).b) := by
  rw [(c09_whole img wr au w0 hc kind hkind hdoc n hx).1 a ha]
  rcases hram with h | h | h | ⟨h, hsel⟩ <;> subst h
  · rfl
  · rfl
  · rfl
  · unfold windowRead
    simp only [hsel]

/-! ## 3. OAM DMA (C16) -/

/-- the byte source of the `t`-th `TickDMA` after the FF46 write (`t ≥ 1`): the engine's bus read in the cycle
    `t - 1` cycles after the one that starts in `w` -/
private def busOf (w : Whole) (t : Nat) : Oam.Addr → Oam.Byte := dmaRd (afterCpu (Whole.run (t - 1) w)).2

private theorem map_dview_some {x : Option Oam.Oam} {o : Oam.Oam} (h : x.map dview = some (dview o)) :
    ∃ t, x = some t ∧ dview t = dview o := by
  cases x with
  | none => cases h
  | some t => exact ⟨t, rfl, by simpa using h⟩

/-- the engine of the whole machine steps like `runTicks`: `j + 1` cycles after the cycle of the FF46 write its view
    of the OAM unit is the view after `j + 1` `TickDMA`s from the state right after `WriteDMA` -/
private theorem dma_prog (w : Whole) (xx : Cpu.Byte) (s0 : Oam.Oam)
    (h0 : dview (afterCpu w).2.m.oam = dview (Oam.writeDMA s0 xx))
    (hrun : (Whole.run 162 w).stopped = false)
    (hnone : ∀ j, 1 ≤ j → j ≤ 161 → NoDmaStart (cpuWrites (Whole.run j w)))
    (hoam : ∀ j ≤ 161, NoOamWrite (cpuWrites (Whole.run j w)))
    (hquiet : ∀ j ≤ 161, Tetro.C17.Quiet (Whole.run j w).b.m.oam)
    (hlcd : ∀ j ≤ 161, NoSwitchOn (Whole.run j w).b.m.ppu.enabled (cpuWrites (Whole.run j w))) :
    ∀ j, j ≤ 161 →
      (Oam.runTicks (Oam.writeDMA s0 xx) (busOf w) 0 (j + 1)).map dview =
        some (dview (Whole.run (j + 1) w).b.m.oam) := by
  intro j
  induction j with
  | zero =>
    intro _
    have hc : w.cycle.stopped = false := running_prefix 1 162 (by omega) w hrun
    show (Oam.tickDMA (Oam.writeDMA s0 xx) (dmaRd (afterCpu w).2)).map dview = some (dview w.cycle.b.m.oam)
    rw [← tickDMA_dview _ _ h0]
    exact end_cycle_dma w hc
  | succ j ih =>
    intro hj
    obtain ⟨t, ht, hv⟩ := map_dview_some (ih (by omega))
    have hs : (Whole.run (j + 1) w).stopped = false := running_prefix (j + 1) 162 (by omega) w hrun
    have hc : (Whole.run (j + 1) w).cycle.stopped = false := by
      rw [← whole_run_succ]; exact running_prefix (j + 2) 162 (by omega) w hrun
    obtain ⟨_, hview⟩ := cpu_dma (Whole.run (j + 1) w) hs (hquiet (j + 1) hj) (hlcd (j + 1) hj) (hoam (j + 1) hj)
    rw [lastDma_none _ (hnone (j + 1) (by omega) hj)] at hview
    have hview' : dview (afterCpu (Whole.run (j + 1) w)).2.m.oam = dview (Whole.run (j + 1) w).b.m.oam := hview
    show ((Oam.runTicks (Oam.writeDMA s0 xx) (busOf w) 0 (j + 1)).bind fun s' =>
      Oam.tickDMA s' (busOf w (0 + (j + 1) + 1))).map dview = _
    rw [ht, Option.bind_some, whole_run_succ (j + 1) w]
    have eb : busOf w (0 + (j + 1) + 1) = dmaRd (afterCpu (Whole.run (j + 1) w)).2 := by
      unfold busOf
      rw [show 0 + (j + 1) + 1 - 1 = j + 1 by omega]
    rw [eb, tickDMA_dview t _ (hv.trans hview'.symm)]
    exact end_cycle_dma _ hc

private theorem sourceAddr_low (xx k : Nat) (hxx : xx ≤ 0xF1) (hk : k < 160) : Spec.Dma.sourceAddr xx k < 0xE000 := by
  unfold Spec.Dma.sourceAddr
  split <;> omega

/-- **C16 on the whole machine, from any state.**  If in the machine cycle that starts in `w` the CPU writes FF46,
    every FF46 write of that cycle with the value `xx ≤ F1`, and in the following 161 cycles it writes FF46 no more;
    if during these 162 cycles the program does not write the 160 OAM bytes (no bus write into FE00–FE9F), the
    OAM-bug window is closed with no trigger pending at the start of each cycle (`Quiet`: in every reachable state
    with the LCD off or the PPU outside mode 2, see `c16_whole`) and the program does not switch the LCD on; and if
    the machine is running after the 162 cycles – whatever else the program does meanwhile (reads and writes
    anywhere else, the source area included; 16-bit INC/DEC, PUSH/POP with pointers into FE00–FEFF; interrupts) –
    then
    * the engine is busy after the CPU's part of the first cycle and at the next 161 cycle boundaries, idle after
      162 cycles;
    * for every `k < 160`, OAM byte `k` then holds the byte `Board.read` returns for the documented source address
      (`Spec.Dma.sourceAddr`: XX00 + k, pages E0–F1 through the echo rule from C000 + (XX−E0)·100h + k) on the board
      of the cycle in which the engine fetched it – cycle `k + 1` after the write's, after the CPU's part of that
      cycle (so a CPU write to the source in that very cycle IS seen, one a cycle later is not);
    * while it is busy a CPU read of FE00–FEFF at a cycle boundary returns FF (`c16_whole_block`). -/
theorem c16_whole_from (w : Whole) (xx : Cpu.Byte) (hxx : Spec.Dma.pageInRange xx.toNat)
    (hrun : (Whole.run 162 w).stopped = false)
    (hstart : (∃ p ∈ cpuWrites w, p.1.toNat = 0xFF46) ∧ ∀ p ∈ cpuWrites w, p.1.toNat = 0xFF46 → p.2 = xx)
    (hnone : ∀ j, 1 ≤ j → j ≤ 161 → NoDmaStart (cpuWrites (Whole.run j w)))
    (hoam : ∀ j ≤ 161, NoOamWrite (cpuWrites (Whole.run j w)))
    (hquiet : ∀ j ≤ 161, Tetro.C17.Quiet (Whole.run j w).b.m.oam)
    (hlcd : ∀ j ≤ 161, NoSwitchOn (Whole.run j w).b.m.ppu.enabled (cpuWrites (Whole.run j w))) :
    (afterCpu w).2.m.oam.dmaRunning = true ∧
    (∀ j, 1 ≤ j → j ≤ 161 → (Whole.run j w).b.m.oam.dmaRunning = true ∧
      ∀ a, 0xFE00 ≤ a ∧ a < 0xFF00 → (Whole.run j w).b.read a = (0xff, (Whole.run j w).b)) ∧
    (Whole.run 162 w).b.m.oam.dmaRunning = false ∧
    ∀ k (hk : k < 160), (Whole.run 162 w).b.m.oam.oam[k] =
      BitVec.ofNat 8 ((afterCpu (Whole.run (k + 1) w)).2.read (Spec.Dma.sourceAddr xx.toNat k)).1 := by
  have hs0 : w.stopped = false := running_prefix 0 162 (by omega) w hrun
  obtain ⟨_, hview⟩ := cpu_dma w hs0 (hquiet 0 (by omega)) (hlcd 0 (by omega)) (hoam 0 (by omega))
  rw [lastDma_some _ xx hstart.1 hstart.2] at hview
  obtain ⟨s0, h0⟩ := hview
  have hprog := dma_prog w xx s0 h0 hrun hnone hoam hquiet hlcd
  refine ⟨?_, ?_, ?_⟩
  · rw [(dview_eq h0).2.1]; rfl
  · intro j hj1 hj2
    obtain ⟨i, rfl⟩ : ∃ i, j = i + 1 := ⟨j - 1, by omega⟩
    obtain ⟨t, ht, hv⟩ := map_dview_some (hprog i (by omega))
    obtain ⟨t', ht', hb⟩ := Tetro.C16.c16_busy xx (busOf w) s0 (i + 1) (by unfold Spec.Dma.duration; omega)
    rw [ht] at ht'
    cases ht'
    have hr : (Whole.run (i + 1) w).b.m.oam.dmaRunning = true := by
      rw [← (dview_eq hv).2.1, hb]
      unfold Spec.Dma.busy Spec.Dma.duration
      exact decide_eq_true (by omega)
    exact ⟨hr, fun a ha => c16_whole_block _ a ha hr⟩
  · obtain ⟨t, ht, hdone, hbytes⟩ := Tetro.C16.c16_copy xx hxx (busOf w) s0
    obtain ⟨t', ht', hv⟩ := map_dview_some (hprog 161 (by omega))
    rw [show Spec.Dma.duration = 161 + 1 from rfl] at ht
    rw [ht] at ht'
    cases ht'
    obtain ⟨e1, e2, _⟩ := dview_eq hv
    refine ⟨by rw [← e2]; exact hdone, fun k hk => ?_⟩
    rw [show (Whole.run 162 w).b.m.oam.oam[k] = t.oam[k] by rw [e1], hbytes k hk]
    show dmaRd (afterCpu (Whole.run (k + 1) w)).2 (BitVec.ofNat 16 (Spec.Dma.sourceAddr xx.toNat k)) = _
    exact dmaRd_low _ _ (sourceAddr_low _ _ hxx hk)

/-- **C16 on the whole machine.**  For a machine `gameboy.New` built from any accepted image, at ANY point `t` of its
    run: if the CPU writes XX ≤ F1 to FF46 in cycle `t` and FF46 no more in the next 161 cycles, does not write
    FE00–FE9F and does not switch the LCD on during these 162 cycles, each of which starts with the LCD off or the
    PPU outside mode 2 (e.g. the whole transfer lies in VBlank, or the LCD is off – the usual places for a
    transfer), and no undefined opcode is executed, then after the 162 cycles the transfer is over and OAM byte
    `k < 160` is the byte the bus returned for the documented source address of byte `k` in the cycle in which the
    engine fetched it; meanwhile the engine is busy and CPU reads of FE00–FEFF return FF.
    (Why the LCD hypothesis: in mode 2 with the LCD on a 16-bit INC/DEC, PUSH/POP or write with a pointer into
    FE00–FEFF triggers the OAM-bug corruption of C17, which the emulator – like oam.go – applies to the 160 bytes
    also while a transfer runs.  The emulator does not block CPU WRITES to OAM during a transfer either:
    `c16_whole_write_not_blocked`.) -/
theorem c16_whole (img : Cart.Image) (wr au : Bool) (w0 : Whole) (hc : Whole.construct img wr au = some w0)
    (t : Nat) (xx : Cpu.Byte) (hxx : Spec.Dma.pageInRange xx.toNat)
    (hx : (Whole.run 162 (Whole.run t w0)).cpu.regs.exited = false)
    (hstart : (∃ p ∈ cpuWrites (Whole.run t w0), p.1.toNat = 0xFF46) ∧
      ∀ p ∈ cpuWrites (Whole.run t w0), p.1.toNat = 0xFF46 → p.2 = xx)
    (hnone : ∀ j, 1 ≤ j → j ≤ 161 → NoDmaStart (cpuWrites (Whole.run j (Whole.run t w0))))
    (hoam : ∀ j ≤ 161, NoOamWrite (cpuWrites (Whole.run j (Whole.run t w0))))
    (hmode : ∀ j ≤ 161, (Whole.run j (Whole.run t w0)).b.m.ppu.enabled = false ∨
      (Whole.run j (Whole.run t w0)).b.m.ppu.mode ≠ 2)
    (hlcd : ∀ j ≤ 161, NoSwitchOn (Whole.run j (Whole.run t w0)).b.m.ppu.enabled
      (cpuWrites (Whole.run j (Whole.run t w0)))) :
    (∀ j, 1 ≤ j → j ≤ 161 → (Whole.run j (Whole.run t w0)).b.m.oam.dmaRunning = true ∧
      ∀ a, 0xFE00 ≤ a ∧ a < 0xFF00 →
        (Whole.run j (Whole.run t w0)).b.read a = (0xff, (Whole.run j (Whole.run t w0)).b)) ∧
    (Whole.run 162 (Whole.run t w0)).b.m.oam.dmaRunning = false ∧
    ∀ k (hk : k < 160), (Whole.run 162 (Whole.run t w0)).b.m.oam.oam[k] =
      BitVec.ofNat 8
        ((afterCpu (Whole.run (k + 1) (Whole.run t w0))).2.read (Spec.Dma.sourceAddr xx.toNat k)).1 := by
  have hrun : (Whole.run 162 (Whole.run t w0)).stopped = false := by
    rw [← run_add] at hx ⊢
    rw [constructed_running img wr au w0 hc]; exact hx
  have hq : ∀ j ≤ 161, Tetro.C17.Quiet (Whole.run j (Whole.run t w0)).b.m.oam := by
    intro j hj
    have hok := oamOk_run (t + j) w0 (oamOk_construct img wr au w0 hc)
    rw [run_add] at hok
    exact hok.quiet (hmode j hj)
  exact (c16_whole_from (Whole.run t w0) xx hxx hrun hstart hnone hoam hq hlcd).2

/-! ## 4. the APU: channel status (C19) and waveform periods (C21) -/

section apu
open Tetro.Model.Apu Tetro.Model.Apu.Apu

/-- along a history, a Boolean observable that changes from `b` to `!b` changes at some operation -/
private theorem first_flip (p : Apu → Bool) (b : Bool) (a : Apu) (ops : List Op)
    (h1 : p a = b) (h2 : p (a.run ops) = !b) :
    ∃ pre op post, ops = pre ++ op :: post ∧ p (a.run pre) = b ∧ p ((a.run pre).step op) = !b := by
  induction ops generalizing a with
  | nil =>
    have : p a = !b := h2
    rw [h1] at this
    cases b <;> cases this
  | cons op ops ih =>
    by_cases hc : p (a.step op) = b
    · obtain ⟨pre, op', post, e, q1, q2⟩ := ih (a.step op) hc h2
      exact ⟨op :: pre, op', post, by rw [e]; rfl, q1, q2⟩
    · refine ⟨[], op, ops, rfl, h1, ?_⟩
      show p (a.step op) = !b
      cases hb : b <;> cases hp : p (a.step op) <;> simp_all

/-- a split of `ws ++ [y]` at an element different from `y` is a split of `ws` -/
private theorem split_snoc {α : Type} (pre post ws : List α) (x y : α)
    (h : pre ++ x :: post = ws ++ [y]) (hne : x ≠ y) :
    ∃ post', post = post' ++ [y] ∧ ws = pre ++ x :: post' := by
  rcases List.eq_nil_or_concat post with rfl | ⟨post', z, rfl⟩
  · have := List.append_inj' h rfl
    simp only [List.cons.injEq, and_true] at this
    exact absurd this.2 hne
  · rw [List.concat_eq_append] at h ⊢
    rw [show pre ++ x :: (post' ++ [z]) = (pre ++ x :: post') ++ [z] by simp] at h
    obtain ⟨e1, e2⟩ := List.append_inj' h rfl
    simp only [List.cons.injEq, and_true] at e2
    subst e2
    exact ⟨post', rfl, e1.symm⟩

/-- an element of the APU's operations of a cycle that is a write comes from a CPU bus write of this cycle to a
    sound register / wave RAM byte -/
theorem apuWrites_mem (w : Whole) (ad v : Nat) (h : Op.write ad v ∈ apuWrites (cpuWrites w)) :
    ∃ p ∈ cpuWrites w, p.1.toNat = ad ∧ p.2.toNat = v ∧ soundAddr ad = true := by
  unfold apuWrites at h
  rw [List.mem_filterMap] at h
  obtain ⟨p, hp, e⟩ := h
  unfold apuOp? at e
  split at e
  · rename_i hs
    injection e with e
    injection e with e1 e2
    exact ⟨p, hp, e1, e2, by rw [← e1]; exact hs⟩
  · cases e

/-- **where a status bit changes inside a machine cycle.**  If a Boolean observable `p` of the APU has the value
    `b` at the start of a cycle the machine survives and `!b` after it, then it changes at one operation of the
    APU's own trace of the cycle: at one of the CPU's writes to a sound register (`apuWrites (cpuWrites w)` split at
    that write; `a` = the APU state just before it), or in `audio.EndMachineCycle` after all of them. -/
theorem whole_apu_flip (w : Whole) (h : w.cycle.stopped = false) (p : Apu → Bool) (b : Bool)
    (h1 : p w.b.apu = b) (h2 : p w.cycle.b.apu = !b) :
    (∃ pre ad v post, apuWrites (cpuWrites w) = pre ++ Op.write ad v :: post ∧
        p (w.b.apu.run pre) = b ∧ p ((w.b.apu.run pre).write ad v) = !b) ∨
    (p (afterCpu w).2.apu = b ∧ p (afterCpu w).2.apu.endMachineCycle = !b) := by
  rw [whole_apu_trace w h] at h2
  obtain ⟨pre, op, post, e, q1, q2⟩ := first_flip p b w.b.apu (apuOpsOf w) h1 h2
  unfold apuOpsOf at e
  cases op with
  | write ad v =>
    obtain ⟨post', _, e'⟩ := split_snoc pre post _ (Op.write ad v) Op.cycle e.symm (by intro x; cases x)
    exact Or.inl ⟨pre, ad, v, post', e', q1, q2⟩
  | cycle =>
    right
    rcases List.eq_nil_or_concat post with rfl | ⟨post', z, rfl⟩
    · obtain ⟨e1, _⟩ := List.append_inj' e rfl
      rw [whole_apu_cpu w (running_before w h).1, e1]
      exact ⟨q1, q2⟩
    · exfalso
      rw [List.concat_eq_append] at e
      rw [show pre ++ Op.cycle :: (post' ++ [z]) = (pre ++ Op.cycle :: post') ++ [z] by simp] at e
      obtain ⟨e1, _⟩ := List.append_inj' e rfl
      have hm : Op.cycle ∈ apuWrites (cpuWrites w) := by rw [e1]; simp
      unfold apuWrites at hm
      rw [List.mem_filterMap] at hm
      obtain ⟨x, _, hx⟩ := hm
      unfold apuOp? at hx
      split at hx <;> cases hx

/-- a status bit never rises in `audio.EndMachineCycle` -/
private theorem no_rise_in_cycle (a : Apu) :
    (a.ch1.enabled = false → a.endMachineCycle.ch1.enabled = false) ∧
    (a.ch2.enabled = false → a.endMachineCycle.ch2.enabled = false) ∧
    (a.ch3.enabled = false → a.endMachineCycle.ch3.enabled = false) ∧
    (a.ch4.enabled = false → a.endMachineCycle.ch4.enabled = false) := by
  obtain ⟨c1, c2, c3, c4⟩ := Tetro.C19.c19_on_only_by_trigger a Op.cycle
  refine ⟨fun h => ?_, fun h => ?_, fun h => ?_, fun h => ?_⟩
  · cases hh : a.endMachineCycle.ch1.enabled
    · rfl
    · obtain ⟨v, e, _⟩ := c1 h hh; cases e
  · cases hh : a.endMachineCycle.ch2.enabled
    · rfl
    · obtain ⟨v, e, _⟩ := c2 h hh; cases e
  · cases hh : a.endMachineCycle.ch3.enabled
    · rfl
    · obtain ⟨v, e, _⟩ := c3 h hh; cases e
  · cases hh : a.endMachineCycle.ch4.enabled
    · rfl
    · obtain ⟨v, e, _⟩ := c4 h hh; cases e

/-- **C19 (on only by trigger) on the whole machine.**  In a machine cycle the emulator survives: if the status bit
    of a channel is 0 at the start of the cycle and 1 after it, then in THIS cycle the CPU wrote that channel's NRx4
    (FF14 / FF19 / FF1E / FF23) with bit 7 set – the write is an element of the ghost write log `cpuWrites w` – and
    at the moment of that write (`a` = the APU after the sound-register writes the CPU made before it in this cycle)
    sound was on, the channel's DAC enabled and, for channel 1, the sweep calculation on the new frequency did not
    overflow.  Nothing else in the machine (no other address, no end-of-cycle step) switches a channel on. -/
theorem c19_whole_on_only_by_trigger (w : Whole) (h : w.cycle.stopped = false) :
    (w.b.apu.ch1.enabled = false → w.cycle.b.apu.ch1.enabled = true →
      ∃ pre v post, apuWrites (cpuWrites w) = pre ++ Op.write 0xFF14 v :: post ∧
        (∃ p ∈ cpuWrites w, p.1.toNat = 0xFF14 ∧ p.2.toNat = v) ∧ trigOf (v % 256) = true ∧
        (w.b.apu.run pre).control.on = true ∧ Tetro.C19.Ch1TriggerOk (w.b.apu.run pre) (v % 256)) ∧
    (w.b.apu.ch2.enabled = false → w.cycle.b.apu.ch2.enabled = true →
      ∃ pre v post, apuWrites (cpuWrites w) = pre ++ Op.write 0xFF19 v :: post ∧
        (∃ p ∈ cpuWrites w, p.1.toNat = 0xFF19 ∧ p.2.toNat = v) ∧ trigOf (v % 256) = true ∧
        (w.b.apu.run pre).control.on = true ∧ (w.b.apu.run pre).ch2.dacEnabled = true) ∧
    (w.b.apu.ch3.enabled = false → w.cycle.b.apu.ch3.enabled = true →
      ∃ pre v post, apuWrites (cpuWrites w) = pre ++ Op.write 0xFF1E v :: post ∧
        (∃ p ∈ cpuWrites w, p.1.toNat = 0xFF1E ∧ p.2.toNat = v) ∧ trigOf (v % 256) = true ∧
        (w.b.apu.run pre).control.on = true ∧ (w.b.apu.run pre).ch3.dacEnabled = true) ∧
    (w.b.apu.ch4.enabled = false → w.cycle.b.apu.ch4.enabled = true →
      ∃ pre v post, apuWrites (cpuWrites w) = pre ++ Op.write 0xFF23 v :: post ∧
        (∃ p ∈ cpuWrites w, p.1.toNat = 0xFF23 ∧ p.2.toNat = v) ∧ trigOf (v % 256) = true ∧
        (w.b.apu.run pre).control.on = true ∧ (w.b.apu.run pre).ch4.dacEnabled = true) := by
  have hmem : ∀ pre ad v post, apuWrites (cpuWrites w) = pre ++ Op.write ad v :: post →
      ∃ p ∈ cpuWrites w, p.1.toNat = ad ∧ p.2.toNat = v := by
    intro pre ad v post e
    obtain ⟨p, hp, e1, e2, _⟩ := apuWrites_mem w ad v (by rw [e]; simp)
    exact ⟨p, hp, e1, e2⟩
  refine ⟨fun h1 h2 => ?_, fun h1 h2 => ?_, fun h1 h2 => ?_, fun h1 h2 => ?_⟩
  · rcases whole_apu_flip w h (fun a => a.ch1.enabled) false h1 h2 with ⟨pre, ad, v, post, e, q1, q2⟩ | ⟨q1, q2⟩
    · obtain ⟨v', ev, t, on, ok⟩ := (Tetro.C19.c19_on_only_by_trigger (w.b.apu.run pre) (Op.write ad v)).1 q1 q2
      injection ev with e1 e2
      subst e1 e2
      exact ⟨pre, v, post, e, hmem _ _ _ _ e, t, on, ok⟩
    · have := (no_rise_in_cycle _).1 q1
      rw [this] at q2; cases q2
  · rcases whole_apu_flip w h (fun a => a.ch2.enabled) false h1 h2 with ⟨pre, ad, v, post, e, q1, q2⟩ | ⟨q1, q2⟩
    · obtain ⟨v', ev, t, on, ok⟩ := (Tetro.C19.c19_on_only_by_trigger (w.b.apu.run pre) (Op.write ad v)).2.1 q1 q2
      injection ev with e1 e2
      subst e1 e2
      exact ⟨pre, v, post, e, hmem _ _ _ _ e, t, on, ok⟩
    · have := (no_rise_in_cycle _).2.1 q1
      rw [this] at q2; cases q2
  · rcases whole_apu_flip w h (fun a => a.ch3.enabled) false h1 h2 with ⟨pre, ad, v, post, e, q1, q2⟩ | ⟨q1, q2⟩
    · obtain ⟨v', ev, t, on, ok⟩ := (Tetro.C19.c19_on_only_by_trigger (w.b.apu.run pre) (Op.write ad v)).2.2.1 q1 q2
      injection ev with e1 e2
      subst e1 e2
      exact ⟨pre, v, post, e, hmem _ _ _ _ e, t, on, ok⟩
    · have := (no_rise_in_cycle _).2.2.1 q1
      rw [this] at q2; cases q2
  · rcases whole_apu_flip w h (fun a => a.ch4.enabled) false h1 h2 with ⟨pre, ad, v, post, e, q1, q2⟩ | ⟨q1, q2⟩
    · obtain ⟨v', ev, t, on, ok⟩ := (Tetro.C19.c19_on_only_by_trigger (w.b.apu.run pre) (Op.write ad v)).2.2.2 q1 q2
      injection ev with e1 e2
      subst e1 e2
      exact ⟨pre, v, post, e, hmem _ _ _ _ e, t, on, ok⟩
    · have := (no_rise_in_cycle _).2.2.2 q1
      rw [this] at q2; cases q2

/-- **C19 (off causes) on the whole machine.**  In a machine cycle the emulator survives: if the status bit of a
    channel (`p` = one of the four) is 1 at the start of the cycle and 0 after it, then it fell either
    * at one of the CPU's writes to a sound register in THIS cycle – an element of the ghost write log; with `a` the
      APU state just before that write, `a` and the write satisfy the hypotheses of `c19_off_causes_write`, which
      names the cause: power off (NR52 bit 7 clear), DAC disabled (NRx2 upper five bits zero / NR30 bit 7 clear), an
      NRx4 write that triggers without switching the channel on or expires the length counter by its extra clock,
      or the NR10 negate quirk; or
    * in one of the four clocks of `audio.EndMachineCycle` of this cycle (`c19_off_causes_clock` names the cause:
      length expiry at a 256 Hz length clock, or – channel 1 – a sweep overflow at a 128 Hz sweep clock). -/
theorem c19_whole_off_causes (w : Whole) (h : w.cycle.stopped = false) (p : Apu → Bool)
    (hp : p = (fun b => b.ch1.enabled) ∨ p = (fun b => b.ch2.enabled) ∨ p = (fun b => b.ch3.enabled) ∨
      p = (fun b => b.ch4.enabled))
    (h1 : p w.b.apu = true) (h2 : p w.cycle.b.apu = false) :
    (∃ pre ad v post, apuWrites (cpuWrites w) = pre ++ Op.write ad v :: post ∧
        (∃ x ∈ cpuWrites w, x.1.toNat = ad ∧ x.2.toNat = v) ∧
        p (w.b.apu.run pre) = true ∧ p ((w.b.apu.run pre).write ad v) = false) ∨
    (∃ i, i < 4 ∧ p (clocks i (afterCpu w).2.apu) = true ∧ p (clocks i (afterCpu w).2.apu).tickClock = false) := by
  rcases whole_apu_flip w h p true h1 h2 with ⟨pre, ad, v, post, e, q1, q2⟩ | ⟨q1, q2⟩
  · left
    obtain ⟨x, hx, e1, e2, _⟩ := apuWrites_mem w ad v (by rw [e]; simp)
    exact ⟨pre, ad, v, post, e, ⟨x, hx, e1, e2⟩, q1, q2⟩
  · exact Or.inr (Tetro.C19.c19_off_causes_cycle _ p hp q1 q2)

/-- … channel 2 spelled out: the causes of `c19_off_causes_write` and `c19_off_causes_clock` in place -/
theorem c19_whole_off_causes_ch2 (w : Whole) (h : w.cycle.stopped = false)
    (h1 : w.b.apu.ch2.enabled = true) (h2 : w.cycle.b.apu.ch2.enabled = false) :
    (∃ pre ad v post, apuWrites (cpuWrites w) = pre ++ Op.write ad v :: post ∧
        (∃ x ∈ cpuWrites w, x.1.toNat = ad ∧ x.2.toNat = v) ∧
        ((ad = 0xFF26 ∧ v % 256 < 128) ∨
         (ad = 0xFF17 ∧ (w.b.apu.run pre).control.on = true ∧ v % 256 / 8 = 0) ∨
         (ad = 0xFF19 ∧ (w.b.apu.run pre).control.on = true ∧
           ((trigOf (v % 256) = true ∧ (w.b.apu.run pre).ch2.dacEnabled = false) ∨
            (trigOf (v % 256) = true ∧ (w.b.apu.run pre).ch2.hasSweep = true) ∨
            Tetro.C19.ExtraClockExpiry (w.b.apu.run pre).ch2.lengthEnable (w.b.apu.run pre).ch2.length
              (dec8 (w.b.apu.run pre).ch2.length) (w.b.apu.run pre).frameSeqTicks (v % 256))))) ∨
    (∃ i, i < 4 ∧ Tetro.C19.LenClockNow (clocks i (afterCpu w).2.apu) ∧
        (clocks i (afterCpu w).2.apu).ch2.lengthEnable = true ∧ (clocks i (afterCpu w).2.apu).ch2.length > 0 ∧
        (clocks i (afterCpu w).2.apu).ch2.tickLength.length = 0) := by
  rcases c19_whole_off_causes w h (fun b => b.ch2.enabled) (Or.inr (Or.inl rfl)) h1 h2 with
    ⟨pre, ad, v, post, e, hx, q1, q2⟩ | ⟨i, hi, q1, q2⟩
  · exact Or.inl ⟨pre, ad, v, post, e, hx, (Tetro.C19.c19_off_causes_write _ ad v).2.1 q1 q2⟩
  · exact Or.inr ⟨i, hi, (Tetro.C19.c19_off_causes_clock _).2.1 q1 q2⟩

/-- the same two statements along the run of a constructed machine: between the cycle boundaries `n` and `n + 1` -/
theorem c19_whole_run (img : Cart.Image) (wr au : Bool) (w0 : Whole) (hc : Whole.construct img wr au = some w0)
    (n : Nat) (hx : (Whole.run (n + 1) w0).cpu.regs.exited = false) :
    (Whole.run n w0).b.apu = (Apu.new au au).run (apuTrace n w0) ∧
    (Whole.run (n + 1) w0).b.apu = ((Apu.new au au).run (apuTrace n w0)).run (apuOpsOf (Whole.run n w0)) ∧
    ((Whole.run n w0).b.apu.ch2.enabled = false → (Whole.run (n + 1) w0).b.apu.ch2.enabled = true →
      ∃ p ∈ cpuWrites (Whole.run n w0), p.1.toNat = 0xFF19 ∧ trigOf (p.2.toNat % 256) = true) ∧
    ((Whole.run n w0).b.apu.ch2.enabled = true → (Whole.run (n + 1) w0).b.apu.ch2.enabled = false →
      (∃ p ∈ cpuWrites (Whole.run n w0), p.1.toNat = 0xFF26 ∨ p.1.toNat = 0xFF17 ∨ p.1.toNat = 0xFF19) ∨
      (∃ i, i < 4 ∧ Tetro.C19.LenClockNow (clocks i (afterCpu (Whole.run n w0)).2.apu))) := by
  have hs : (Whole.run (n + 1) w0).stopped = false := by rw [constructed_running img wr au w0 hc]; exact hx
  have hs' : (Whole.run n w0).cycle.stopped = false := by rw [← whole_run_succ]; exact hs
  have hn : (Whole.run n w0).stopped = false := running_prefix n (n + 1) (by omega) w0 hs
  have e0 : w0.b.apu = Apu.new au au := by
    unfold Whole.construct at hc
    rw [Option.map_eq_some_iff] at hc
    obtain ⟨c, _, rfl⟩ := hc
    rfl
  have er := whole_apu_run n w0 hn
  rw [e0] at er
  refine ⟨er, ?_, ?_, ?_⟩
  · rw [whole_run_succ, whole_apu_trace _ hs', er]
  · intro h1 h2
    rw [whole_run_succ] at h2
    obtain ⟨pre, v, post, _, ⟨p, hp, e1, e2⟩, t, _⟩ := (c19_whole_on_only_by_trigger _ hs').2.1 h1 h2
    exact ⟨p, hp, e1, by rw [e2]; exact t⟩
  · intro h1 h2
    rw [whole_run_succ] at h2
    rcases c19_whole_off_causes_ch2 _ hs' h1 h2 with ⟨pre, ad, v, post, _, ⟨x, hx', e1, _⟩, hcause⟩ | ⟨i, hi, hl, _⟩
    · left
      refine ⟨x, hx', ?_⟩
      rw [e1]
      rcases hcause with c | c | c
      · exact Or.inl c.1
      · exact Or.inr (Or.inl c.1)
      · exact Or.inr (Or.inr c.1)
    · exact Or.inr ⟨i, hi, hl⟩

/-- a cycle in which the CPU writes no sound register is ONE `audio.EndMachineCycle` for the APU -/
theorem whole_apu_quiet_cycle (w : Whole) (h : w.cycle.stopped = false) (hq : apuWrites (cpuWrites w) = []) :
    w.cycle.b.apu = w.b.apu.endMachineCycle := by
  rw [whole_apu_trace w h]
  unfold apuOpsOf
  rw [hq]
  rfl

private theorem emc_clocks (a : Apu) : a.endMachineCycle = (clocks 4 a).clearTriggered := rfl
private theorem clearTriggered_duty (x : Apu) : x.clearTriggered.ch2.dutyIndex = x.ch2.dutyIndex := rfl
private theorem clearTriggered_lfsr (x : Apu) : x.clearTriggered.ch4.lfsr = x.ch4.lfsr := rfl

/-- **C21 on the whole machine, one machine cycle (channels 2 and 4).**  In a cycle the emulator survives and in
    which the CPU writes no sound register, with the channel's generator in a legal state (`SqOk` / `NoiseOk`: the
    11-bit frequency `f`, resp. divisor code `r` and shift `sh`) and not triggered in the previous cycle: the duty
    index of channel 2 advances by exactly the number of times the documented period 4·(2048−f) elapses in the 4
    clocks of the cycle, and the noise generator of channel 4 is clocked exactly as often as its documented period
    d(r)·2^s elapses. -/
theorem c21_whole_cycle (w : Whole) (h : w.cycle.stopped = false) (hq : apuWrites (cpuWrites w) = [])
    (h2 : w.b.apu.ch2.triggered = false) (h4 : w.b.apu.ch4.triggered = false) :
    (∀ f, Tetro.C21.SqOk w.b.apu.ch2 f →
      w.cycle.b.apu.ch2.dutyIndex =
        (w.b.apu.ch2.dutyIndex + Tetro.Countdown.stepsIn (4 * (2048 - f)) w.b.apu.ch2.timer 4) % 8) ∧
    (∀ r sh, Tetro.C21.NoiseOk w.b.apu.ch4 r sh →
      w.cycle.b.apu.ch4.lfsr =
        Tetro.Countdown.iter (lfsrStep w.b.apu.ch4.lfsrWidth)
          (Tetro.Countdown.stepsIn (Spec.Apu.noiseDivisor r * 2 ^ sh) w.b.apu.ch4.timer 4) w.b.apu.ch4.lfsr) := by
  rw [whole_apu_quiet_cycle w h hq, emc_clocks]
  refine ⟨fun f hf => ?_, fun r sh hn => ?_⟩
  · rw [clearTriggered_duty]
    exact Tetro.C21.c21_apu_square2 w.b.apu f hf h2 h4 4
  · rw [clearTriggered_lfsr]
    exact Tetro.C21.c21_apu_noise w.b.apu r sh hn h2 h4 4

/-! #### many machine cycles without sound-register writes -/

open Tetro.C21 in
private theorem sqTicks_gen_congr (n : Nat) :
    ∀ s t : Square, s.gen = t.gen → (sqTicks n s).gen = (sqTicks n t).gen := by
  induction n with
  | zero => intro s t h; exact h
  | succ k ih => intro s t h; exact ih _ _ (Square.gen_tickTimer_congr s t h)

open Tetro.C21 in
private theorem noiseTicks_gen_congr (n : Nat) :
    ∀ s t : Noise, s.gen = t.gen → (noiseTicks n s).gen = (noiseTicks n t).gen := by
  induction n with
  | zero => intro s t h; exact h
  | succ k ih => intro s t h; exact ih _ _ (Noise.gen_tickTimer_congr s t h)

open Tetro.C21 in
private theorem sqTicks_add (m n : Nat) (s : Square) : sqTicks (m + n) s = sqTicks n (sqTicks m s) := by
  induction m generalizing s with
  | zero => rw [Nat.zero_add]; rfl
  | succ k ih => rw [Nat.add_right_comm]; exact ih s.tickTimer

open Tetro.C21 in
private theorem noiseTicks_add (m n : Nat) (s : Noise) : noiseTicks (m + n) s = noiseTicks n (noiseTicks m s) := by
  induction m generalizing s with
  | zero => rw [Nat.zero_add]; rfl
  | succ k ih => rw [Nat.add_right_comm]; exact ih s.tickTimer

open Tetro.C21 in
private theorem sqTicks_triggered (n : Nat) (s : Square) : (sqTicks n s).triggered = s.triggered := by
  induction n generalizing s with
  | zero => rfl
  | succ k ih => show (sqTicks k s.tickTimer).triggered = _; rw [ih, Square.triggered_tickTimer]

open Tetro.C21 in
private theorem noiseTicks_triggered (n : Nat) (s : Noise) : (noiseTicks n s).triggered = s.triggered := by
  induction n generalizing s with
  | zero => rfl
  | succ k ih => show (noiseTicks k s.tickTimer).triggered = _; rw [ih, Noise.triggered_tickTimer]

open Tetro.C21 in
/-- `n` clocks of the whole APU act on the generators of channels 2 and 4 as `n` clocks of the generators alone
    (nothing triggered in the current machine cycle) -/
private theorem clocks_gens (n : Nat) : ∀ a : Apu, a.ch2.triggered = false → a.ch4.triggered = false →
    (clocks n a).ch2.gen = (sqTicks n a.ch2).gen ∧ (clocks n a).ch4.gen = (noiseTicks n a.ch4).gen := by
  induction n with
  | zero => intro a _ _; exact ⟨rfl, rfl⟩
  | succ k ih =>
    intro a h2 h4
    have hg := Apu.gens_tickClock a
    simp only [Apu.gens, Prod.mk.injEq, h2, h4, Bool.not_false, if_true] at hg
    obtain ⟨g2, g4⟩ := hg
    have t2 : a.tickClock.ch2.triggered = false := by
      have := congrArg (fun x => x.2.2.2) g2
      simp only [Square.gen] at this
      rw [this, Square.triggered_tickTimer]; exact h2
    have t4 : a.tickClock.ch4.triggered = false := by
      have := congrArg (fun x => x.2.2.2.2.2) g4
      simp only [Noise.gen] at this
      rw [this, Noise.triggered_tickTimer]; exact h4
    obtain ⟨i2, i4⟩ := ih a.tickClock t2 t4
    show (clocks k a.tickClock).ch2.gen = (sqTicks k a.ch2.tickTimer).gen ∧
         (clocks k a.tickClock).ch4.gen = (noiseTicks k a.ch4.tickTimer).gen
    exact ⟨i2.trans (sqTicks_gen_congr k _ _ g2), i4.trans (noiseTicks_gen_congr k _ _ g4)⟩

private theorem clearTriggered_gen2 (x : Apu) (h : x.ch2.triggered = false) : x.clearTriggered.ch2.gen = x.ch2.gen := by
  show (x.ch2.timer, x.ch2.dutyIndex, x.ch2.frequency, false) = (x.ch2.timer, x.ch2.dutyIndex, x.ch2.frequency, x.ch2.triggered)
  rw [h]
private theorem clearTriggered_gen4 (x : Apu) (h : x.ch4.triggered = false) : x.clearTriggered.ch4.gen = x.ch4.gen := by
  show (x.ch4.timer, x.ch4.lfsr, x.ch4.divisor, x.ch4.shift, x.ch4.lfsrWidth, false) =
    (x.ch4.timer, x.ch4.lfsr, x.ch4.divisor, x.ch4.shift, x.ch4.lfsrWidth, x.ch4.triggered)
  rw [h]

open Tetro.C21 in
/-- `m` machine cycles of the APU (4 clocks and `clearTriggered` each) act on the generators of channels 2 and 4 as
    `4·m` clocks of the generators alone -/
private theorem cycles_gens (m : Nat) : ∀ a : Apu, a.ch2.triggered = false → a.ch4.triggered = false →
    (cycles m a).ch2.gen = (sqTicks (4 * m) a.ch2).gen ∧ (cycles m a).ch4.gen = (noiseTicks (4 * m) a.ch4).gen := by
  induction m with
  | zero => intro a _ _; exact ⟨rfl, rfl⟩
  | succ k ih =>
    intro a h2 h4
    obtain ⟨g2, g4⟩ := clocks_gens 4 a h2 h4
    have c2 : (clocks 4 a).ch2.triggered = false := by
      have := congrArg (fun x => x.2.2.2) g2
      simp only [Square.gen] at this
      rw [this, sqTicks_triggered]; exact h2
    have c4 : (clocks 4 a).ch4.triggered = false := by
      have := congrArg (fun x => x.2.2.2.2.2) g4
      simp only [Noise.gen] at this
      rw [this, noiseTicks_triggered]; exact h4
    have e2 : a.endMachineCycle.ch2.gen = (sqTicks 4 a.ch2).gen := by
      rw [emc_clocks, clearTriggered_gen2 _ c2]; exact g2
    have e4 : a.endMachineCycle.ch4.gen = (noiseTicks 4 a.ch4).gen := by
      rw [emc_clocks, clearTriggered_gen4 _ c4]; exact g4
    obtain ⟨i2, i4⟩ := ih a.endMachineCycle rfl rfl
    show (cycles k a.endMachineCycle).ch2.gen = _ ∧ (cycles k a.endMachineCycle).ch4.gen = _
    rw [show 4 * (k + 1) = 4 + 4 * k by omega, sqTicks_add, noiseTicks_add]
    exact ⟨i2.trans (sqTicks_gen_congr _ _ _ e2), i4.trans (noiseTicks_gen_congr _ _ _ e4)⟩

/-- `m` machine cycles in none of which the CPU writes a sound register are `m` `audio.EndMachineCycle`s -/
theorem whole_apu_quiet_run (m : Nat) (w : Whole) (h : (Whole.run m w).stopped = false)
    (hq : ∀ j < m, apuWrites (cpuWrites (Whole.run j w)) = []) :
    (Whole.run m w).b.apu = cycles m w.b.apu := by
  induction m generalizing w with
  | zero => rfl
  | succ m ih =>
    have h1 : w.cycle.stopped = false := running_prefix 1 (m + 1) (by omega) w h
    show (Whole.run m w.cycle).b.apu = cycles m w.b.apu.endMachineCycle
    rw [ih w.cycle h (fun j hj => hq (j + 1) (by omega)), whole_apu_quiet_cycle w h1 (hq 0 (by omega))]

/-- **C21 on the whole machine (channels 2 and 4, any number of cycles).**  From any state of the whole machine at a
    cycle boundary (where no channel is marked as triggered in the current cycle – true after every machine cycle)
    with channel 2's generator in a legal state with 11-bit frequency `f` (resp. channel 4 with divisor code `r`,
    shift `sh`): along EVERY run of `m` machine cycles the emulator survives in which the CPU writes no sound
    register – whatever else the program does – the duty index of channel 2 has advanced by exactly the number of
    times the documented period 4·(2048−f) clocks elapses in the 4·m clocks (`stepsIn`: first step when the timer
    runs out, then one step per period), and the noise generator has been clocked exactly once per documented
    period d(r)·2^s. -/
theorem c21_whole (m : Nat) (w : Whole) (h : (Whole.run m w).stopped = false)
    (hq : ∀ j < m, apuWrites (cpuWrites (Whole.run j w)) = [])
    (h2 : w.b.apu.ch2.triggered = false) (h4 : w.b.apu.ch4.triggered = false) :
    (∀ f, Tetro.C21.SqOk w.b.apu.ch2 f →
      (Whole.run m w).b.apu.ch2.dutyIndex =
        (w.b.apu.ch2.dutyIndex + Tetro.Countdown.stepsIn (4 * (2048 - f)) w.b.apu.ch2.timer (4 * m)) % 8) ∧
    (∀ r sh, Tetro.C21.NoiseOk w.b.apu.ch4 r sh →
      (Whole.run m w).b.apu.ch4.lfsr =
        Tetro.Countdown.iter (lfsrStep w.b.apu.ch4.lfsrWidth)
          (Tetro.Countdown.stepsIn (Spec.Apu.noiseDivisor r * 2 ^ sh) w.b.apu.ch4.timer (4 * m))
          w.b.apu.ch4.lfsr) := by
  rw [whole_apu_quiet_run m w h hq]
  obtain ⟨g2, g4⟩ := cycles_gens m w.b.apu h2 h4
  refine ⟨fun f hf => ?_, fun r sh hn => ?_⟩
  · have := congrArg (fun x => x.2.1) g2
    simp only [Square.gen] at this
    rw [this]
    exact (Tetro.C21.c21_square f w.b.apu.ch2 hf (4 * m)).1
  · have := congrArg (fun x => x.2.1) g4
    simp only [Noise.gen] at this
    rw [this]
    exact (Tetro.C21.c21_noise r sh w.b.apu.ch4 hn (4 * m)).1

end apu

/-! ## non-vacuity: ROM-built machines meet the hypotheses, and the conclusions are not trivial -/

/-- a Boolean check at every cycle boundary of a run (evaluated once along the run, linear in `n`) -/
def allRun (P : Whole → Bool) : Nat → Whole → Bool
  | 0, _ => true
  | n + 1, w => P w && allRun P n w.cycle

theorem allRun_spec (P : Whole → Bool) (n : Nat) (w : Whole) (h : allRun P n w = true) :
    ∀ j < n, P (Whole.run j w) = true := by
  induction n generalizing w with
  | zero => intro j hj; omega
  | succ n ih =>
    have h' : (P w && allRun P n w.cycle) = true := h
    rw [Bool.and_eq_true] at h'
    intro j hj
    cases j with
    | zero => exact h'.1
    | succ j => exact ih w.cycle h'.2 j (by omega)

/-! ### serial -/

/-- `LD A,41; LDH (01),A; LD A,42; LDH (02),A; LDH (01),A`, then NOPs (32 KiB ROM-only image, code at 0100): writes
    41 to SB, 42 to SC (which must not reach the writer), 42 to SB -/
def serImg : Cart.Image :=
  { len := 0x8000,
    byte := fun i =>
      if 0x100 ≤ i ∧ i < 0x10a then [0x3E, 0x41, 0xE0, 0x01, 0x3E, 0x42, 0xE0, 0x02, 0xE0, 0x01].getD (i - 0x100) 0
      else 0 }

/-- the machine `gameboy.New` builds from it with a serial writer … -/
def serW : Whole := powerOn (.none { rom := Cart.pagesOf serImg, imgLen := 0x8000 }) true false
/-- … and without one -/
def serW0 : Whole := powerOn (.none { rom := Cart.pagesOf serImg, imgLen := 0x8000 }) false false

example : Whole.construct serImg true false = some serW := rfl
example : Whole.construct serImg false false = some serW0 := rfl

/-- the CPU performs the three writes in cycles 5, 10 and 13; only the two to FF01 are in `sbOutput`, in order, and
    they are what the writer has received (`c23_whole`); without a writer the log is empty -/
example : (List.range 14).map (fun k => (cpuWrites (Whole.run k serW)).map fun p => (p.1.toNat, p.2.toNat)) =
      [[], [], [], [], [(0xFF01, 0x41)], [], [], [], [], [(0xFF02, 0x42)], [], [], [(0xFF01, 0x42)], []] ∧
    sbOutput 14 serW = [0x41, 0x42] ∧ (Whole.run 14 serW).b.m.serial.log = [0x41, 0x42] ∧
    (Whole.run 14 serW0).b.m.serial.log = [] ∧ ((Whole.run 14 serW).b.read 0xFF01).1 = 0xff := by
  decide +kernel

example (n : Nat) : (Whole.run n serW).b.m.serial.log = sbOutput n serW :=
  (c23_whole serImg true false serW rfl n).2.1 rfl

/-! ### cartridge RAM -/

/-- a 64 KiB MBC1+RAM image (type 03, 4 ROM banks, RAM size code 03 = 4 banks of 8 KiB) whose program enables
    cartridge RAM and stores 5A at A010: `LD A,0A; LD (0000),A; LD A,5A; LD (A010),A` -/
def ramImg : Cart.Image :=
  { len := 0x10000,
    byte := fun i =>
      if i = 0x147 then 0x03 else if i = 0x148 then 0x01 else if i = 0x149 then 0x03
      else if 0x100 ≤ i ∧ i < 0x10a then
        [0x3E, 0x0A, 0xEA, 0x00, 0x00, 0x3E, 0x5A, 0xEA, 0x10, 0xA0].getD (i - 0x100) 0
      else i / 0x4000 }

def ramW : Whole := (Whole.construct ramImg false false).getD demo

private theorem ramW_constructed : Whole.construct ramImg false false = some ramW := by
  have h : (Whole.construct ramImg false false).isSome = true := by decide +kernel
  unfold ramW
  cases hc : Whole.construct ramImg false false with
  | none => rw [hc] at h; cases h
  | some w => rfl

/-- the hypotheses of `c09_whole` hold for it (MBC1, 4 RAM banks) … -/
example : Tetro.C08.ctrlOf (ramImg.byte 0x0147) = some .mbc1 ∧ ramBanks ramImg = 4 ∧
    (Whole.run 13 ramW).cpu.regs.exited = false ∧ Tetro.C09.InWindow 0xA010 :=
  ⟨by decide, by decide, by decide +kernel, ⟨by decide, by decide⟩⟩

/-- … its cartridge is the `Mbc1.new` state of `c09_refines_mbc1` (`whole_cart_built`) … -/
example : ∃ m0, Cart.Mbc1.new (Cart.pagesOf ramImg) 4 Cart.freshRam 4 = some m0 ∧ ramW.b.m.cart = .mbc1 m0 := by
  obtain ⟨kind, hk, hb, _⟩ := whole_cart_built ramImg false false ramW ramW_constructed
  have : kind = .mbc1 := by
    have e : Tetro.C08.ctrlOf (ramImg.byte 0x0147) = some .mbc1 := by decide
    rw [e] at hk
    injection hk with hk
    exact hk.symm
  subst this
  exact hb

/-- … and the conclusion is not trivial: before the enable write the window reads FF, after the store (cycle 12)
    the induced history makes the abstract RAM hold 5A at bank 0, offset 10, and that is what the CPU reads -/
example : Spec.Cart.ramRead .mbc1 4 (Tetro.CartSim.hist (cartTrace 5 ramW)) 0xA010 = 0xff ∧
    Spec.Cart.ramRead .mbc1 4 (Tetro.CartSim.hist (cartTrace 12 ramW)) 0xA010 = 0x5A ∧
    ((Whole.run 5 ramW).b.read 0xA010).1 = 0xff ∧ ((Whole.run 12 ramW).b.read 0xA010).1 = 0x5A := by
  decide +kernel

example (n : Nat) (hx : (Whole.run n ramW).cpu.regs.exited = false) (a : Nat) (ha : Tetro.C09.InWindow a) :
    ((Whole.run n ramW).b.read a).1 = Spec.Cart.ramRead .mbc1 4 (Tetro.CartSim.hist (cartTrace n ramW)) a := by
  rw [c09_whole_ram ramImg false false ramW ramW_constructed .mbc1 (by decide) (by intro h; cases h) n hx
    (Or.inr (Or.inl rfl)) a ha]
  rfl

/-! ### OAM DMA -/

/-- `LD A,11; LDH (40),A` switches the LCD off, `LD A,01; LDH (46),A` starts a transfer of page 01 – the program's
    own bytes at 0100–019F – then NOPs -/
def dmaImg : Cart.Image :=
  { len := 0x8000,
    byte := fun i =>
      if 0x100 ≤ i ∧ i < 0x108 then [0x3E, 0x11, 0xE0, 0x40, 0x3E, 0x01, 0xE0, 0x46].getD (i - 0x100) 0 else 0 }

def dmaW : Whole := powerOn (.none { rom := Cart.pagesOf dmaImg, imgLen := 0x8000 }) false false

private theorem dmaW_constructed : Whole.construct dmaImg false false = some dmaW := rfl

/-- the per-cycle hypotheses of `c16_whole`, as one Boolean -/
private def dmaCheck (w : Whole) : Bool :=
  decide (NoOamWrite (cpuWrites w)) && (!w.b.m.ppu.enabled || w.b.m.ppu.mode != 2) &&
  decide (NoSwitchOn w.b.m.ppu.enabled (cpuWrites w))

private theorem dmaW_checks : allRun dmaCheck 162 (Whole.run 9 dmaW) = true ∧
    allRun (fun w => decide (NoDmaStart (cpuWrites w))) 161 (Whole.run 10 dmaW) = true := by
  constructor <;> decide +kernel

/-- the FF46 write happens in cycle 10 (the cycle that starts in `Whole.run 9 dmaW`) … -/
example : (cpuWrites (Whole.run 9 dmaW)).map (fun p => (p.1.toNat, p.2.toNat)) = [(0xFF46, 0x01)] := by
  decide +kernel

/-- … all hypotheses of `c16_whole` hold from there (LCD off, no further FF46 write, no OAM write, 162 cycles
    survived), so its conclusion holds for this machine: -/
example :
    (Whole.run 162 (Whole.run 9 dmaW)).b.m.oam.dmaRunning = false ∧
    ∀ k (hk : k < 160), (Whole.run 162 (Whole.run 9 dmaW)).b.m.oam.oam[k] =
      BitVec.ofNat 8 ((afterCpu (Whole.run (k + 1) (Whole.run 9 dmaW))).2.read (Spec.Dma.sourceAddr 1 k)).1 := by
  have hc := allRun_spec _ _ _ dmaW_checks.1
  have hd := allRun_spec _ _ _ dmaW_checks.2
  have hchk : ∀ j ≤ 161, dmaCheck (Whole.run j (Whole.run 9 dmaW)) = true := fun j hj => hc j (by omega)
  refine (c16_whole dmaImg false false dmaW dmaW_constructed 9 1 (by decide) (by decide +kernel)
    (by decide +kernel) ?_ ?_ ?_ ?_).2
  · intro j h1 h2
    obtain ⟨i, rfl⟩ : ∃ i, j = i + 1 := ⟨j - 1, by omega⟩
    have := hd i (by omega)
    rw [decide_eq_true_eq] at this
    exact this
  · intro j hj
    have := hchk j hj
    unfold dmaCheck at this
    simp only [Bool.and_eq_true, decide_eq_true_eq] at this
    exact this.1.1
  · intro j hj
    have := hchk j hj
    unfold dmaCheck at this
    simp only [Bool.and_eq_true, Bool.or_eq_true, Bool.not_eq_true', bne_iff_ne] at this
    exact this.1.2
  · intro j hj
    have := hchk j hj
    unfold dmaCheck at this
    simp only [Bool.and_eq_true, decide_eq_true_eq] at this
    exact this.2

/-- … and it is not trivial: the engine is busy up to cycle boundary 161 after the write's cycle, idle at 162, and
    OAM then holds the program's own first bytes -/
example : (Whole.run 161 (Whole.run 9 dmaW)).b.m.oam.dmaRunning = true ∧
    (Whole.run 162 (Whole.run 9 dmaW)).b.m.oam.dmaRunning = false ∧
    (List.range 9).map (fun k => ((Whole.run 162 (Whole.run 9 dmaW)).b.m.oam.oam[k]?.getD 0).toNat) =
      [0x3E, 0x11, 0xE0, 0x40, 0x3E, 0x01, 0xE0, 0x46, 0x00] ∧
    ((Whole.run 100 (Whole.run 9 dmaW)).b.read 0xFE00).1 = 0xff := by
  decide +kernel

/-- **the window hypothesis matters.**  `LD HL,FE10; LD A,02; LDH (46),A`, 152 NOPs, `INC HL` (image bytes from 0200
    on: `i % 251`, so page 02 has 160 distinct bytes), started on a hand-made board in VBlank (LCD on, mode 1, 157
    cycles before line 0 begins; window closed).  The transfer of page 02 starts in cycle 8 and satisfies every
    hypothesis of `c16_whole_from` except `Quiet` in its last cycles: 151 cycles into it the PPU enters mode 2 and
    opens the OAM-bug window; the `INC HL` with HL = FE10 executed 3 cycles later triggers the write corruption of
    OAM row 3 (C17), which copies bytes 18–23 over bytes 26–31 – long after the engine stored them.  When the engine
    is done, OAM byte 26 holds source byte 18, not the byte the bus returned when byte 26 was fetched.  (A hand-made
    start state because reaching VBlank from power-on takes more than 16 000 cycles of the pixel pipeline.) -/
def bugDmaImg : Cart.Image :=
  { len := 0x8000,
    byte := fun i =>
      if 0x100 ≤ i ∧ i < 0x107 then [0x21, 0x10, 0xFE, 0x3E, 0x02, 0xE0, 0x46].getD (i - 0x100) 0
      else if i = 0x19F then 0x23
      else if 0x200 ≤ i then i % 251 else 0 }

def bugDmaW : Whole :=
  let base := powerOn (.none { rom := Cart.pagesOf bugDmaImg, imgLen := 0x8000 }) false false
  { base with b := { base.b with m := { base.b.m with
      ppu := { Lcd.init with mode := 1, ticks := 17399, ly := 152, firstLine := false, oamCorrupt := false },
      oam := { base.b.m.oam with corrupt := false } } } }

private def bugCheck (w : Whole) : Bool :=
  decide (NoOamWrite (cpuWrites w)) && decide (NoSwitchOn w.b.m.ppu.enabled (cpuWrites w))

example :
    -- the hypotheses of `c16_whole_from` other than `hquiet` hold …
    (Whole.run 162 (Whole.run 7 bugDmaW)).stopped = false ∧
    (cpuWrites (Whole.run 7 bugDmaW)).map (fun p => (p.1.toNat, p.2.toNat)) = [(0xFF46, 0x02)] ∧
    allRun (fun w => decide (NoDmaStart (cpuWrites w))) 161 (Whole.run 8 bugDmaW) = true ∧
    allRun bugCheck 162 (Whole.run 7 bugDmaW) = true ∧
    -- … the window is closed when the transfer starts and open 151 cycles later …
    (Whole.run 7 bugDmaW).b.m.oam.corrupt = false ∧ (Whole.run 151 (Whole.run 7 bugDmaW)).b.m.oam.corrupt = true ∧
    -- … and the conclusion fails at byte 26
    (Whole.run 162 (Whole.run 7 bugDmaW)).b.m.oam.dmaRunning = false ∧
    ((Whole.run 162 (Whole.run 7 bugDmaW)).b.m.oam.oam[26]?.getD 0).toNat = 28 ∧
    ((afterCpu (Whole.run 27 (Whole.run 7 bugDmaW))).2.read (Spec.Dma.sourceAddr 2 26)).1 = 36 ∧
    ((afterCpu (Whole.run 19 (Whole.run 7 bugDmaW))).2.read (Spec.Dma.sourceAddr 2 18)).1 = 28 := by
  decide +kernel

/-! ### APU -/

/-- `LD A,F0; LDH (17),A; LD A,87; LDH (19),A`: NR22 = F0 (DAC on), NR24 = 87 triggers channel 2 (f = 700h) -/
def sndImg : Cart.Image :=
  { len := 0x8000,
    byte := fun i =>
      if 0x100 ≤ i ∧ i < 0x108 then [0x3E, 0xF0, 0xE0, 0x17, 0x3E, 0x87, 0xE0, 0x19].getD (i - 0x100) 0 else 0 }

def sndW : Whole := powerOn (.none { rom := Cart.pagesOf sndImg, imgLen := 0x8000 }) false true

example : Whole.construct sndImg false true = some sndW := rfl

/-- the hypotheses of `c19_whole_on_only_by_trigger` (channel 2) hold in the cycle that starts in
    `Whole.run 9 sndW`: the status bit is 0 before it and 1 after it – and the trigger write is in the ghost log of
    exactly this cycle -/
example : (Whole.run 9 sndW).cycle.stopped = false ∧ (Whole.run 9 sndW).b.apu.ch2.enabled = false ∧
    (Whole.run 9 sndW).cycle.b.apu.ch2.enabled = true ∧
    (cpuWrites (Whole.run 9 sndW)).map (fun p => (p.1.toNat, p.2.toNat)) = [(0xFF19, 0x87)] ∧
    Apu.trigOf (0x87 % 256) = true := by
  decide +kernel

/-- the hypotheses of `c21_whole_cycle` hold in the next cycle: no sound-register write, channel 2 in a legal state
    with f = 700h, nothing triggered -/
example : (Whole.run 10 sndW).cycle.stopped = false ∧ apuWrites (cpuWrites (Whole.run 10 sndW)) = [] ∧
    (Whole.run 10 sndW).b.apu.ch2.triggered = false ∧ (Whole.run 10 sndW).b.apu.ch4.triggered = false := by
  decide +kernel
example : Tetro.C21.SqOk (Whole.run 10 sndW).b.apu.ch2 0x700 := by
  refine ⟨?_, ?_, ?_, ?_⟩ <;> decide +kernel

/-- `c21_whole` on a machine that plays channel 2 at the highest frequency (`NR23 = FF, NR24 = 87`: f = 7FFh, period
    4 clocks = one machine cycle): from the boundary after the trigger cycle (timer 4, duty index 1) the
    hypotheses hold for 4 cycles, the documented count is `stepsIn 4 4 16 = 3` steps, and the duty index is 4 -/
def hiImg : Cart.Image :=
  { len := 0x8000,
    byte := fun i =>
      if 0x100 ≤ i ∧ i < 0x10c then
        [0x3E, 0xF0, 0xE0, 0x17, 0x3E, 0xFF, 0xE0, 0x18, 0x3E, 0x87, 0xE0, 0x19].getD (i - 0x100) 0 else 0 }

def hiW : Whole := powerOn (.none { rom := Cart.pagesOf hiImg, imgLen := 0x8000 }) false true

example : Whole.construct hiImg false true = some hiW := rfl

example : (Whole.run 4 (Whole.run 15 hiW)).stopped = false ∧
    (∀ j < 4, apuWrites (cpuWrites (Whole.run j (Whole.run 15 hiW))) = []) ∧
    (Whole.run 15 hiW).b.apu.ch2.triggered = false ∧ (Whole.run 15 hiW).b.apu.ch4.triggered = false ∧
    (Whole.run 15 hiW).b.apu.ch2.timer = 4 ∧ (Whole.run 15 hiW).b.apu.ch2.dutyIndex = 1 ∧
    Tetro.Countdown.stepsIn (4 * (2048 - 0x7FF)) 4 (4 * 4) = 3 ∧
    (Whole.run 4 (Whole.run 15 hiW)).b.apu.ch2.dutyIndex = 4 := by
  decide +kernel
example : Tetro.C21.SqOk (Whole.run 15 hiW).b.apu.ch2 0x7FF := by
  refine ⟨?_, ?_, ?_, ?_⟩ <;> decide +kernel

end Tetro.WholeTraces2
