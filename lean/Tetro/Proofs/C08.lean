import Tetro.Model.Cart
import Tetro.Spec.Cart
import Tetro.Lemmas.CartSim
/-
C08 – cartridge ROM banking follows each controller's register semantics.

For every ROM content, every declared ROM size in the controller's documented range and EVERY
history of bus writes (any 16-bit address, any value) and machine cycles, a read of any address
below 0x8000 returns the byte of the bank given by the documentation-shaped closed form
`Spec.Cart.romBank` (a query on the history: last values written to the register regions, 0→1
remaps, mode-dependent low area, reduction modulo the bank count).  `c08_image` states the same
for every image `newMBC` accepts; `c08_rom_immutable` says no history changes ROM.
-/
namespace Tetro.C08
open Tetro.Model Tetro.Model.Cart Tetro.Spec.Cart Tetro.CartSim Tetro.CartWF

private theorem page_read {rom : Rom} {n b o : Nat} (hb : b < n) (ho : o < 0x4000) :
    page? rom n b o = some (rom b o) := page?_ok hb ho

/-- ROM only: 0000-3FFF shows bank 0 and 4000-7FFF bank 1, whatever is written. -/
theorem c08_none (m : NoMbc) (hlen : 0x8000 ≤ m.imgLen) (ops : List Op) (a : Nat) (ha : a < 0x8000) :
    ∃ c', run (.none m) ops = some c' ∧
      busRead c' a = some (romRead m.rom .rom 2 (hist ops) a) := by
  refine ⟨_, run0 m ops, ?_⟩
  simp only [busRead, Mbc.read, NoMbc.read, if_pos ha, romRead, romBank]
  rw [if_pos (by omega)]
  by_cases h : a < 0x4000
  · rw [if_pos h, Nat.div_eq_of_lt h]
  · rw [if_neg h]
    have : a / 0x4000 = 1 := by omega
    rw [this]

/-- MBC1, 2 … 128 banks (`k = 1 … 7`), any RAM bank count below 256. -/
theorem c08_mbc1 (rom : Rom) (k : Nat) (hk : 1 ≤ k ∧ k ≤ 7) (q : Nat) (hq : 0 < q ∧ q < 256)
    (ops : List Op) (a : Nat) (ha : a < 0x8000) :
    ∃ m0 c', Mbc1.new rom (2 ^ k) freshRam q = some m0 ∧ run (.mbc1 m0) ops = some c' ∧
      busRead c' a = some (romRead rom .mbc1 (2 ^ k) (hist ops) a) := by
  have hn : 0 < 2 ^ k := Nat.two_pow_pos k
  have hn' : 2 ^ k < 256 := by
    have : 2 ^ k ≤ 2 ^ 7 := Nat.pow_le_pow_right (by decide) hk.2
    omega
  obtain ⟨m0, e0, R0⟩ := rel1_init (rom := rom) hn hn' hq.1 hq.2
  obtain ⟨m', e, R⟩ := run1 hn hn' hq.1 hq.2 ops [] m0 R0
  rw [List.append_nil] at R
  rw [show (List.map toEv ops).reverse = hist ops from rfl] at R
  refine ⟨m0, _, e0, e, ?_⟩
  have hb0 : romBank .mbc1 (2 ^ k) (hist ops) 0 < 2 ^ k := by
    simp only [romBank]; rw [if_pos (by decide)]; exact Nat.mod_lt _ hn
  have hb1 : romBank .mbc1 (2 ^ k) (hist ops) 0x4000 < 2 ^ k := by
    simp only [romBank]; rw [if_neg (by decide)]; exact Nat.mod_lt _ hn
  simp only [busRead, Mbc.read, Mbc1.read, romRead, R.rom, R.romLen, R.rb0, R.rb1]
  by_cases h : a < 0x4000
  · rw [if_pos h, page_read hb0 h, Nat.mod_eq_of_lt h]
    simp only [hist, romBank, if_pos h, if_pos (by decide : (0:Nat) < 0x4000)]
  · rw [if_neg h, if_pos ha, page_read hb1 (by omega)]
    have : a - 0x4000 = a % 0x4000 := by omega
    rw [this]
    simp only [hist, romBank, if_neg h, if_neg (by decide : ¬ (0x4000:Nat) < 0x4000)]

/-- MBC2, 2 … 16 banks (`k = 1 … 4`). -/
theorem c08_mbc2 (rom : Rom) (k : Nat) (hk : 1 ≤ k ∧ k ≤ 4) (ops : List Op) (a : Nat) (ha : a < 0x8000) :
    ∃ c', run (.mbc2 (Mbc2.new rom (2 ^ k))) ops = some c' ∧
      busRead c' a = some (romRead rom .mbc2 (2 ^ k) (hist ops) a) := by
  have hn : 1 < 2 ^ k := by
    have : 2 ^ 1 ≤ 2 ^ k := Nat.pow_le_pow_right (by decide) hk.1
    omega
  obtain ⟨m', e, R⟩ := run2 (by omega) ops [] _ (rel2_init (rom := rom) hn)
  rw [List.append_nil] at R
  rw [show (List.map toEv ops).reverse = hist ops from rfl] at R
  refine ⟨_, e, ?_⟩
  have hb1 : romBank .mbc2 (2 ^ k) (hist ops) 0x4000 < 2 ^ k := by
    simp only [romBank]; rw [if_neg (by decide)]; exact Nat.mod_lt _ (by omega)
  simp only [busRead, Mbc.read, Mbc2.read, romRead, R.rom, R.romLen, R.rb]
  by_cases h : a < 0x4000
  · rw [if_pos h, page_read (by omega) h, Nat.mod_eq_of_lt h]
    simp only [romBank, if_pos h]
  · rw [if_neg h, if_pos ha, page_read hb1 (by omega)]
    have : a - 0x4000 = a % 0x4000 := by omega
    rw [this]
    simp only [hist, romBank, if_neg h, if_neg (by decide : ¬ (0x4000:Nat) < 0x4000)]

/-- MBC3, 2 … 128 banks (`k = 1 … 7`), any positive RAM bank count. -/
theorem c08_mbc3 (rom : Rom) (k : Nat) (hk : 1 ≤ k ∧ k ≤ 7) (q : Nat) (hq : 0 < q)
    (ops : List Op) (a : Nat) (ha : a < 0x8000) :
    ∃ c', run (.mbc3 (Mbc3.new rom (2 ^ k) freshRam q)) ops = some c' ∧
      busRead c' a = some (romRead rom .mbc3 (2 ^ k) (hist ops) a) := by
  have hn : 1 < 2 ^ k := by
    have : 2 ^ 1 ≤ 2 ^ k := Nat.pow_le_pow_right (by decide) hk.1
    omega
  obtain ⟨m', e, R⟩ := run3 (by omega) hq ops [] _ (rel3_init (rom := rom) (q := q) hn)
  rw [List.append_nil] at R
  rw [show (List.map toEv ops).reverse = hist ops from rfl] at R
  refine ⟨_, e, ?_⟩
  have hb1 : romBank .mbc3 (2 ^ k) (hist ops) 0x4000 < 2 ^ k := by
    simp only [romBank]; rw [if_neg (by decide)]; exact Nat.mod_lt _ (by omega)
  simp only [busRead, Mbc.read, Mbc3.read, romRead, R.rom, R.romLen, R.rb]
  by_cases h : a < 0x4000
  · rw [if_pos h, page_read (by omega) h, Nat.mod_eq_of_lt h]
    simp only [romBank, if_pos h]
  · rw [if_neg h, if_pos ha, page_read hb1 (by omega)]
    have : a - 0x4000 = a % 0x4000 := by omega
    rw [this]
    simp only [hist, romBank, if_neg h, if_neg (by decide : ¬ (0x4000:Nat) < 0x4000)]

private theorem size5_of_pow {k : Nat} (hk : 1 ≤ k ∧ k ≤ 9) : Size5 (2 ^ k) := by
  have : k = 1 ∨ k = 2 ∨ k = 3 ∨ k = 4 ∨ k = 5 ∨ k = 6 ∨ k = 7 ∨ k = 8 ∨ k = 9 := by omega
  rcases this with h|h|h|h|h|h|h|h|h <;> subst h <;> simp [Size5]

/-- MBC5, 2 … 512 banks (`k = 1 … 9`), any RAM bank count below 256.  The code keeps its 9-bit
    register reduced modulo the bank count at every write; this theorem shows the reads nevertheless
    follow the documented `(ROMB1<<8 | ROMB0) mod n` for every write order (lemmas `mbc5_lo/hi`). -/
theorem c08_mbc5 (rom : Rom) (k : Nat) (hk : 1 ≤ k ∧ k ≤ 9) (q : Nat) (hq : 0 < q ∧ q < 256)
    (ops : List Op) (a : Nat) (ha : a < 0x8000) :
    ∃ c', run (.mbc5 (Mbc5.new rom (2 ^ k) freshRam q)) ops = some c' ∧
      busRead c' a = some (romRead rom .mbc5 (2 ^ k) (hist ops) a) := by
  have hn : 1 < 2 ^ k := by
    have : 2 ^ 1 ≤ 2 ^ k := Nat.pow_le_pow_right (by decide) hk.1
    omega
  obtain ⟨m', e, R⟩ := run5 (size5_of_pow hk) hq.1 hq.2 ops [] _ (rel5_init (rom := rom) (q := q) hn)
  rw [List.append_nil] at R
  rw [show (List.map toEv ops).reverse = hist ops from rfl] at R
  refine ⟨_, e, ?_⟩
  have hb1 : romBank .mbc5 (2 ^ k) (hist ops) 0x4000 < 2 ^ k := by
    simp only [romBank]; rw [if_neg (by decide)]; exact Nat.mod_lt _ (by omega)
  simp only [busRead, Mbc.read, Mbc5.read, romRead, R.rom, R.romLen, R.rb]
  by_cases h : a < 0x4000
  · rw [if_pos h, page_read (by omega) h, Nat.mod_eq_of_lt h]
    simp only [romBank, if_pos h]
  · rw [if_neg h, if_pos ha, page_read hb1 (by omega)]
    have : a - 0x4000 = a % 0x4000 := by omega
    rw [this]
    simp only [hist, romBank, if_neg h, if_neg (by decide : ¬ (0x4000:Nat) < 0x4000)]

/-! ### every image `newMBC` accepts -/

/-- the controller family of a cartridge-type byte (the types `newMBC` supports) -/
def ctrlOf (t : Nat) : Option Ctrl :=
  if t = 0x00 then some .rom
  else if t = 0x01 ∨ t = 0x02 ∨ t = 0x03 then some .mbc1
  else if t = 0x05 ∨ t = 0x06 then some .mbc2
  else if t = 0x0f ∨ t = 0x10 ∨ t = 0x11 ∨ t = 0x12 ∨ t = 0x13 then some .mbc3
  else if t = 0x19 ∨ t = 0x1a ∨ t = 0x1b ∨ t = 0x1c ∨ t = 0x1d ∨ t = 0x1e then some .mbc5
  else none

/-- the documented maximum ROM size of each controller, in 16 KiB banks -/
def Documented : Ctrl → Nat → Prop
  | .rom, _ => True
  | .mbc1, n => n ≤ 128
  | .mbc2, n => n ≤ 16
  | .mbc3, n => n ≤ 128
  | .mbc5, n => n ≤ 512

private theorem pow_le {j b : Nat} (h : 2 ^ (j + 1) ≤ 2 ^ b) : j + 1 ≤ b := by
  by_cases hjb : j + 1 ≤ b
  · exact hjb
  · have : 2 ^ (b + 1) ≤ 2 ^ (j + 1) := Nat.pow_le_pow_right (by decide) (by omega)
    have : 2 ^ (b + 1) = 2 * 2 ^ b := by rw [Nat.pow_succ]; omega
    have : 0 < 2 ^ b := Nat.two_pow_pos b
    omega

/-- C08 for every image: if `newMBC` accepts the image and its size is within the documented range
    of its controller, then after EVERY history a read below 0x8000 returns the image byte at
    (documented bank) · 0x4000 + (address mod 0x4000). -/
theorem c08_image (img : Image) (c : Mbc) (hc : construct img = some c) (kind : Ctrl)
    (hkind : ctrlOf (img.byte 0x0147) = some kind) (hdoc : Documented kind (img.len / 0x4000))
    (ops : List Op) (a : Nat) (ha : a < 0x8000) :
    ∃ c', run c ops = some c' ∧
      busRead c' a = some (img.byte (romBank kind (img.len / 0x4000) (hist ops) a * 0x4000 + a % 0x4000)) := by
  unfold construct at hc
  split at hc
  · cases hc
  · cases hp : prepareROM (img.byte 0x0148) img with
    | none => rw [hp] at hc; cases hc
    | some n =>
      rw [hp] at hc
      obtain ⟨hlen, h2, j, hj⟩ := prepareROM_spec hp
      have hn : img.len / 0x4000 = n := by omega
      rw [hn] at hdoc ⊢
      simp only [Option.bind_some] at hc
      have hq := prepareRAM_range (img.byte 0x0147) (img.byte 0x0149)
      generalize prepareRAM (img.byte 0x0147) (img.byte 0x0149) = q at hq hc
      have hq' : 0 < q ∧ q < 256 := by rcases hq with h|h|h|h <;> subst h <;> decide
      unfold selectMbc at hc
      unfold ctrlOf at hkind
      simp only at hc
      split at hc
      · -- ROM only
        rename_i ht
        rw [if_pos ht] at hkind
        injection hkind with hkind; subst hkind
        injection hc with hc; subst hc
        obtain ⟨c', e, r⟩ := c08_none { rom := pagesOf img, imgLen := img.len } (by show 0x8000 ≤ img.len; omega) ops a ha
        refine ⟨c', e, ?_⟩
        rw [r]; simp only [romRead, pagesOf, romBank]
      · split at hc
        · -- MBC1
          rename_i ht0 ht
          rw [if_neg ht0, if_pos ht] at hkind
          injection hkind with hkind; subst hkind
          have hjk : j + 1 ≤ 7 := pow_le (by rw [← hj]; exact hdoc)
          obtain ⟨m0, c', e0, e, r⟩ := c08_mbc1 (pagesOf img) (j + 1) ⟨by omega, hjk⟩ q hq' ops a ha
          rw [← hj] at e0 r
          rw [e0] at hc
          injection hc with hc; subst hc
          exact ⟨c', e, by rw [r]; simp only [romRead, pagesOf]⟩
        · split at hc
          · -- MBC2
            rename_i ht0 ht1 ht
            rw [if_neg ht0, if_neg ht1, if_pos ht] at hkind
            injection hkind with hkind; subst hkind
            have hjk : j + 1 ≤ 4 := pow_le (by rw [← hj]; exact hdoc)
            obtain ⟨c', e, r⟩ := c08_mbc2 (pagesOf img) (j + 1) ⟨by omega, hjk⟩ ops a ha
            rw [← hj] at e r
            injection hc with hc; subst hc
            exact ⟨c', e, by rw [r]; simp only [romRead, pagesOf]⟩
          · split at hc
            · -- MBC3
              rename_i ht0 ht1 ht2 ht
              rw [if_neg ht0, if_neg ht1, if_neg ht2, if_pos ht] at hkind
              injection hkind with hkind; subst hkind
              have hjk : j + 1 ≤ 7 := pow_le (by rw [← hj]; exact hdoc)
              obtain ⟨c', e, r⟩ := c08_mbc3 (pagesOf img) (j + 1) ⟨by omega, hjk⟩ q hq'.1 ops a ha
              rw [← hj] at e r
              injection hc with hc; subst hc
              exact ⟨c', e, by rw [r]; simp only [romRead, pagesOf]⟩
            · split at hc
              · -- MBC5
                rename_i ht0 ht1 ht2 ht3 ht
                rw [if_neg ht0, if_neg ht1, if_neg ht2, if_neg ht3, if_pos ht] at hkind
                injection hkind with hkind; subst hkind
                have hjk : j + 1 ≤ 9 := pow_le (by rw [← hj]; exact hdoc)
                obtain ⟨c', e, r⟩ := c08_mbc5 (pagesOf img) (j + 1) ⟨by omega, hjk⟩ q hq' ops a ha
                rw [← hj] at e r
                injection hc with hc; subst hc
                exact ⟨c', e, by rw [r]; simp only [romRead, pagesOf]⟩
              · cases hc

/-! ### writes never change ROM -/

/-- the ROM a controller holds: contents and length -/
def romOf : Mbc → Rom × Nat
  | .none m => (m.rom, m.imgLen)
  | .mbc1 m => (m.rom, m.romLen)
  | .mbc2 m => (m.rom, m.romLen)
  | .mbc3 m => (m.rom, m.romLen)
  | .mbc5 m => (m.rom, m.romLen)

private theorem updateBanks_rom {m m' : Mbc1} (h : Mbc1.updateBanks m = some m') :
    (m'.rom, m'.romLen) = (m.rom, m.romLen) := by
  simp only [Mbc1.updateBanks, Option.bind_eq_some_iff] at h
  obtain ⟨_, _, _, _, _, _, h⟩ := h
  injection h with h; subst h; rfl

private theorem write1_rom {m m' : Mbc1} {a v : Nat} (h : Mbc1.write m a v = some m') :
    (m'.rom, m'.romLen) = (m.rom, m.romLen) := by
  unfold Mbc1.write at h
  repeat' split at h
  all_goals first
    | (have hh := updateBanks_rom h; exact hh)
    | (simp only [Option.bind_eq_some_iff] at h; obtain ⟨_, _, h⟩ := h; rw [← Option.some.inj h])
    | (rw [← Option.some.inj h])

private theorem write2_rom {m m' : Mbc2} {a v : Nat} (h : Mbc2.write m a v = some m') :
    (m'.rom, m'.romLen) = (m.rom, m.romLen) := by
  unfold Mbc2.write at h
  repeat' split at h
  all_goals first
    | (simp only [Option.bind_eq_some_iff] at h; obtain ⟨_, _, h⟩ := h; rw [← Option.some.inj h])
    | (rw [← Option.some.inj h])

private theorem write3_rom {m m' : Mbc3} {a v : Nat} (h : Mbc3.write m a v = some m') :
    (m'.rom, m'.romLen) = (m.rom, m.romLen) := by
  unfold Mbc3.write at h
  repeat' split at h
  all_goals first
    | (simp only [Option.bind_eq_some_iff] at h; obtain ⟨_, _, _, _, h⟩ := h; rw [← Option.some.inj h])
    | (simp only [Option.bind_eq_some_iff] at h; obtain ⟨_, _, h⟩ := h; rw [← Option.some.inj h])
    | (rw [← Option.some.inj h])

private theorem write5_rom {m m' : Mbc5} {a v : Nat} (h : Mbc5.write m a v = some m') :
    (m'.rom, m'.romLen) = (m.rom, m.romLen) := by
  unfold Mbc5.write at h
  repeat' split at h
  all_goals first
    | (simp only [Option.bind_eq_some_iff] at h; obtain ⟨_, _, h⟩ := h; rw [← Option.some.inj h])
    | (rw [← Option.some.inj h])

private theorem write_rom {c c' : Mbc} {a v : Nat} (h : Mbc.write c a v = some c') : romOf c' = romOf c := by
  cases c with
  | none m => simp only [Mbc.write, NoMbc.write, Option.map_some, Option.some.injEq] at h; subst h; rfl
  | mbc1 m =>
    simp only [Mbc.write, Option.map_eq_some_iff] at h
    obtain ⟨m', h, rfl⟩ := h
    exact write1_rom h
  | mbc2 m =>
    simp only [Mbc.write, Option.map_eq_some_iff] at h
    obtain ⟨m', h, rfl⟩ := h
    exact write2_rom h
  | mbc3 m =>
    simp only [Mbc.write, Option.map_eq_some_iff] at h
    obtain ⟨m', h, rfl⟩ := h
    exact write3_rom h
  | mbc5 m =>
    simp only [Mbc.write, Option.map_eq_some_iff] at h
    obtain ⟨m', h, rfl⟩ := h
    exact write5_rom h

/-- Writes never change ROM contents: for EVERY controller state (well-formed or not), every history
    that runs to completion leaves the ROM pages and their count exactly as they were. -/
theorem c08_rom_immutable (c : Mbc) (ops : List Op) (c' : Mbc) (h : run c ops = some c') :
    romOf c' = romOf c := by
  induction ops generalizing c with
  | nil => simp only [run, Option.some.injEq] at h; subst h; rfl
  | cons op ops ih =>
    simp only [run, Option.bind_eq_some_iff] at h
    obtain ⟨c1, h1, h2⟩ := h
    rw [ih c1 h2]
    cases op with
    | tick =>
      simp only [step, Option.some.injEq] at h1; subst h1
      cases c <;> rfl
    | write a v =>
      simp only [step, busWrite_eq] at h1
      exact write_rom h1

/-- non-vacuity: a 64-bank MBC1 image after `BANK2 := 1, BANK1 := 0x12, mode := 1` shows bank 0x20 in
    the low area and bank 0x32 in the high area -/
example : romBank .mbc1 64 (hist [.write 0x4000 0x01, .write 0x2100 0x12, .write 0x6000 0x01]) 0x0000 = 0x20
    ∧ romBank .mbc1 64 (hist [.write 0x4000 0x01, .write 0x2100 0x12, .write 0x6000 0x01]) 0x4000 = 0x32 := by
  decide +kernel

end Tetro.C08
