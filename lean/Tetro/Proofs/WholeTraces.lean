import Tetro.Lemmas.BoardTrace
import Tetro.Lemmas.TimerInv
import Tetro.Proofs.C13
import Tetro.Proofs.C14
import Tetro.Proofs.C08
import Tetro.Proofs.C10
import Tetro.Proofs.C18
import Tetro.Proofs.C20
import Tetro.Proofs.C22
/-
PROJECTION LAYER: along any run of the whole machine (`Model/Whole.lean`) each component goes through SOME
sequence of its OWN operations – so every component theorem that quantifies over all operation sequences
(`c12_refines`, `c13_refines`, `c14_requests`, …) speaks about everything a real program can do.

For a component X the pattern is
  * `whole_X_cpu`    the CPU's part of a cycle acts on X by the writes of `cpuWrites w` (the ghost write log of
                     Proofs/C17Whole.lean, proved faithful) that fall into X's addresses, in order;
  * `whole_X_trace`  one machine cycle = those writes followed by X's end-of-cycle step;
  * `whole_X_run`    by induction, n machine cycles = the concatenated trace;
  * `cNN_whole`      the component theorem instantiated with the induced trace of a machine `gameboy.New` builds.
The only hypothesis on the machine is that it is still RUNNING after the cycles in question
(`Whole.stopped = false`); for a constructed machine that means "no undefined opcode was executed"
(`regs.exited = false`), since it never panics (`c11_whole_never_panics`).

1. TIMER (C12).  `whole_timer_trace` (any number of timer writes in the cycle, in the free alphabet `Timer.Call`),
   `whole_timer_run_calls`, `c12_whole_regs` (DIV/TMA/TAC for EVERY program);  the guest alphabet of `c12_refines`
   (at most one timer write per machine cycle): `whole_timer_cycle`, `whole_timer_run`, `whole_timer_inv` (`MInv`
   holds at every cycle boundary of a constructed machine), `c12_whole` (DIV/TIMA/TMA/TAC and the request of every
   cycle = the documented timer's), `whole_timer_irq_spec` (IF bit 2).  The hypothesis `OneTimerWrite` is NOT
   vacuous and NOT always true: every micro-operation writes at most one byte, except the interrupt dispatch, which
   pushes both bytes of PC in ONE machine cycle (execution.go `handleInterrupt`); with SP ∈ {FF06, FF07, FF08}
   these are two timer registers.  `whole_one_timer_write` : it holds whenever SP is not one of these three values
   (or the micro-operation of the cycle writes at most one byte); the example at the end of §1 exhibits the
   exceptional cycle.
2. LCD (C13/C14).  `whole_lcd_trace`, `whole_lcd_run`, `c13_whole`, `whole_lcd_reads`, `whole_lcd_irq`,
   `c14_whole_requests`, `c14_whole_vblank`.
3. CARTRIDGE (C08/C10).  `whole_cart_trace`, `whole_cart_run` (needs the invariant of reachable states `WholeOk`: a
   well-formed controller never panics on a write), `whole_cart_read`, `c08_whole`, `c10_whole_clock_read`.  Reads
   (CPU and DMA engine) are not operations of the cartridge model: they have no effect on it.  No C09 corollary is
   stated (the `c09_refines_*` theorems are per controller, for `MbcN.new …` start states; `whole_cart_run` is what
   they need).
4. APU (C18/C20).  `whole_apu_trace`, `whole_apu_run`, `whole_apu_read`, `c18_whole`, `c20_whole`.
5. JOYPAD (C22).  `whole_joyp_trace`, `whole_joyp_run` (schedules of machine cycles AND button actions),
   `whole_joyp_read`, `c22_whole`.
Helpers: Lemmas/BoardTrace.lean (`cycle_fold`, `cpu_part_fold`, `end_cycle_shape`, `board_write_timer/cart/joyp/apu`,
`running_prefix`, `constructed_running`), Lemmas/TimerInv.lean (`minv_cycle`, `minv_run`).
-/
namespace Tetro.WholeTraces
open Tetro.Model Tetro.Model.Machine Tetro.Model.Whole
open Tetro.WholeProofs Tetro.BoardOam Tetro.BoardTrace Tetro.GhostBus Tetro.C17Whole Tetro.WholeNoCrash
open Tetro.Timer (Write Obs Call)

/-! ## 1. the timer -/

/-- the timer-register write a bus write is: FF04 DIV (value ignored), FF05 TIMA, FF06 TMA, FF07 TAC -/
def timerWrite? (p : Cpu.Word × Cpu.Byte) : Option Write :=
  if p.1.toNat = 0xFF04 then some .div
  else if p.1.toNat = 0xFF05 then some (.tima p.2.toNat)
  else if p.1.toNat = 0xFF06 then some (.tma p.2.toNat)
  else if p.1.toNat = 0xFF07 then some (.tac p.2.toNat)
  else none

/-- the timer-register writes among a list of bus writes, in order -/
def timerWrites (wr : List (Cpu.Word × Cpu.Byte)) : List Write := wr.filterMap timerWrite?

private theorem timer_fold (wr : List (Cpu.Word × Cpu.Byte)) (t : Timer.T) :
    wr.foldl (fun t p => timerAfterWrite t p.1.toNat p.2.toNat) t = (timerWrites wr).foldl Timer.applyWrite t := by
  induction wr generalizing t with
  | nil => rfl
  | cons p wr ih =>
    rw [List.foldl_cons, ih]
    unfold timerWrites
    rw [List.filterMap_cons]
    unfold timerAfterWrite timerWrite?
    by_cases h4 : p.1.toNat = 0xFF04
    · simp only [h4, if_true, List.foldl_cons]; rfl
    · by_cases h5 : p.1.toNat = 0xFF05
      · simp only [h5, if_true]; rfl
      · by_cases h6 : p.1.toNat = 0xFF06
        · simp only [h6, if_true]; rfl
        · by_cases h7 : p.1.toNat = 0xFF07
          · simp only [h7, if_true]; rfl
          · simp only [h4, h5, h6, h7, if_false]

private theorem frame_timer : Frame (fun m : Machine => m.timer) := ⟨fun _ _ => rfl, fun _ _ => rfl⟩

/-- **timer, the CPU's part of a cycle**: the timer after `cpu.ExecuteMachineCycle` is the timer before it with the
    writes to FF04–FF07 among the CPU's bus writes of this cycle applied in order – whatever else the CPU does -/
theorem whole_timer_cpu (w : Whole) (hs : w.stopped = false) :
    (afterCpu w).2.m.timer = (timerWrites (cpuWrites w)).foldl Timer.applyWrite w.b.m.timer := by
  rw [← timer_fold]
  exact cpu_part_fold (fun m => m.timer) frame_timer (fun t p => timerAfterWrite t p.1.toNat p.2.toNat)
    (fun b a v => board_write_timer b a.toNat v.toNat a.isLt) w hs

/-- the timer's operations in the machine cycle that starts in `w` (free alphabet of the timer model): the CPU's
    writes to FF04–FF07 in order, then `EndMachineCycle` -/
def timerCallsOf (w : Whole) : List Call := (timerWrites (cpuWrites w)).map Call.write ++ [Call.tick]

private theorem runCalls_writes (t : Timer.T) (ws : List Write) :
    Timer.runCalls t (ws.map Call.write) = ws.foldl Timer.applyWrite t := by
  induction ws generalizing t with
  | nil => rfl
  | cons x ws ih => exact ih _

/-- **timer, one machine cycle** (any number of timer writes in it).  If the machine is running after the cycle,
    its timer is the timer before the cycle, with the CPU's writes to FF04–FF07 of this cycle applied in order,
    stepped by ONE `EndMachineCycle`. -/
theorem whole_timer_trace (w : Whole) (h : w.cycle.stopped = false) :
    w.cycle.b.m.timer = Timer.endCycle ((timerWrites (cpuWrites w)).foldl Timer.applyWrite w.b.m.timer) ∧
    w.cycle.b.m.timer = Timer.runCalls w.b.m.timer (timerCallsOf w) := by
  obtain ⟨r, o, _, e⟩ := end_cycle_shape w h
  have hs := (running_before w h).1
  have e1 : w.cycle.b.m.timer = Timer.endCycle (afterCpu w).2.m.timer := by rw [e]
  rw [whole_timer_cpu w hs] at e1
  refine ⟨e1, ?_⟩
  rw [e1]
  unfold timerCallsOf Timer.runCalls
  rw [List.foldl_append]
  show _ = Timer.call (Timer.runCalls w.b.m.timer ((timerWrites (cpuWrites w)).map Call.write)) Call.tick
  rw [runCalls_writes]
  rfl

/-- the timer's operations during `n` machine cycles from `w` -/
def timerCalls : Nat → Whole → List Call
  | 0, _ => []
  | n + 1, w => timerCallsOf w ++ timerCalls n w.cycle

/-- **timer, any run** (free alphabet).  Along every run of the whole machine the timer goes through the sequence
    `timerCalls n w` of its own operations. -/
theorem whole_timer_run_calls (n : Nat) (w : Whole) (h : (Whole.run n w).stopped = false) :
    (Whole.run n w).b.m.timer = Timer.runCalls w.b.m.timer (timerCalls n w) := by
  induction n generalizing w with
  | zero => rfl
  | succ n ih =>
    have h1 : w.cycle.stopped = false := running_prefix 1 (n + 1) (by omega) w h
    show (Whole.run n w.cycle).b.m.timer = _
    rw [ih w.cycle h, (whole_timer_trace w h1).2]
    rw [show timerCalls (n + 1) w = timerCallsOf w ++ timerCalls n w.cycle from rfl]
    unfold Timer.runCalls
    rw [List.foldl_append]

/-- **C12 on the whole machine, DIV / TMA / TAC, EVERY program** (no hypothesis on the number of writes per
    cycle): the 16-bit counter, TMA and TAC after `n` machine cycles are the folds of the documented per-event
    functions over the induced operation sequence – the counter advances by 4 per cycle and is cleared by every
    write to FF04, TMA / TAC hold the last byte written to FF06 / FF07. -/
theorem c12_whole_regs (n : Nat) (w : Whole) (h : (Whole.run n w).stopped = false) :
    (Whole.run n w).b.m.timer.counter = (timerCalls n w).foldl Spec.Timer.sysEvent w.b.m.timer.counter ∧
    Timer.readDIV (Whole.run n w).b.m.timer = (timerCalls n w).foldl Spec.Timer.sysEvent w.b.m.timer.counter / 256 ∧
    Timer.readTMA (Whole.run n w).b.m.timer = (timerCalls n w).foldl Spec.Timer.tmaEvent w.b.m.timer.tma ∧
    Timer.readTAC (Whole.run n w).b.m.timer =
      (timerCalls n w).foldl Spec.Timer.tacEvent w.b.m.timer.tac % 8 + 0xf8 := by
  rw [whole_timer_run_calls n w h]
  obtain ⟨a, b, c⟩ := Tetro.C12.c12_regs_free w.b.m.timer (timerCalls n w)
  exact ⟨a, Tetro.C12.c12_div _ _, b, c⟩

/-! ### the guest alphabet of `c12_refines`: at most one timer write per machine cycle -/

/-- the CPU writes at most one timer register in the cycle that starts in `w` -/
def OneTimerWrite (w : Whole) : Prop := (timerWrites (cpuWrites w)).length ≤ 1

instance (w : Whole) : Decidable (OneTimerWrite w) := by unfold OneTimerWrite; infer_instance

/-- … in each of the first `n` cycles from `w` -/
def OneTimerWriteRun (n : Nat) (w : Whole) : Prop := ∀ k < n, OneTimerWrite (Whole.run k w)

/-- the timer write of the cycle (if any) -/
def timerSlot (w : Whole) : Option Write := (timerWrites (cpuWrites w)).head?

/-- the guest schedule of `n` machine cycles from `w` -/
def timerSched : Nat → Whole → List (Option Write)
  | 0, _ => []
  | n + 1, w => timerSlot w :: timerSched n w.cycle

private theorem one_fold (t : Timer.T) (ws : List Write) (h : ws.length ≤ 1) :
    ws.foldl Timer.applyWrite t = Timer.applyOpt t ws.head? := by
  match ws, h with
  | [], _ => rfl
  | [x], _ => rfl

/-- **timer, one machine cycle, guest alphabet**: the CPU's part is `applyOpt` of the slot, the whole cycle is
    `Timer.cycle` of it -/
theorem whole_timer_cycle (w : Whole) (h : w.cycle.stopped = false) (h1 : OneTimerWrite w) :
    (afterCpu w).2.m.timer = Timer.applyOpt w.b.m.timer (timerSlot w) ∧
    w.cycle.b.m.timer = Timer.cycle w.b.m.timer (timerSlot w) := by
  have hs := (running_before w h).1
  refine ⟨?_, ?_⟩
  · rw [whole_timer_cpu w hs, one_fold _ _ h1]; rfl
  · rw [(whole_timer_trace w h).1, one_fold _ _ h1]; rfl

private theorem oneRun_tail {n : Nat} {w : Whole} (h : OneTimerWriteRun (n + 1) w) :
    OneTimerWrite w ∧ OneTimerWriteRun n w.cycle :=
  ⟨h 0 (by omega), fun k hk => h (k + 1) (by omega)⟩

/-- **timer, any run, guest alphabet**: in exactly the shape `c12_refines` consumes -/
theorem whole_timer_run (n : Nat) (w : Whole) (h : (Whole.run n w).stopped = false) (h1 : OneTimerWriteRun n w) :
    (Whole.run n w).b.m.timer = Timer.run w.b.m.timer (timerSched n w) := by
  induction n generalizing w with
  | zero => rfl
  | succ n ih =>
    have hc : w.cycle.stopped = false := running_prefix 1 (n + 1) (by omega) w h
    obtain ⟨ha, hb⟩ := oneRun_tail h1
    show (Whole.run n w.cycle).b.m.timer = _
    rw [ih w.cycle h hb, (whole_timer_cycle w hc ha).2]
    rfl

private theorem slot_byte (w : Whole) : Tetro.C12.ByteW (timerSlot w) := by
  unfold timerSlot
  cases hh : (timerWrites (cpuWrites w)).head? with
  | none => trivial
  | some x =>
    have hm : x ∈ timerWrites (cpuWrites w) := List.mem_of_head? hh
    unfold timerWrites at hm
    rw [List.mem_filterMap] at hm
    obtain ⟨p, _, hp⟩ := hm
    unfold timerWrite? at hp
    repeat' split at hp
    all_goals first
      | (simp only [Option.some.injEq] at hp; subst hp; first | exact True.intro | exact p.2.isLt)
      | cases hp

/-- the induced schedule writes bytes (hypothesis `Bytes` of `c12_refines`) -/
theorem timerSched_bytes (n : Nat) (w : Whole) : Tetro.C12.Bytes (timerSched n w) := by
  induction n generalizing w with
  | zero => intro x hx; cases hx
  | succ n ih =>
    intro x hx
    rcases List.mem_cons.mp hx with rfl | hx
    · exact slot_byte w
    · exact ih w.cycle x hx

/-- **`MInv` holds at every cycle boundary** (hypothesis `MInv` of `c12_refines`): from a state whose timer
    satisfies it – in particular from power-on – after any number of machine cycles with at most one timer write
    each -/
theorem whole_timer_inv (n : Nat) (w : Whole) (h : (Whole.run n w).stopped = false) (h1 : OneTimerWriteRun n w)
    (hi : Tetro.C12.MInv w.b.m.timer) : Tetro.C12.MInv (Whole.run n w).b.m.timer := by
  rw [whole_timer_run n w h h1]
  exact Tetro.TimerInv.minv_run _ hi _ (timerSched_bytes n w)

/-- what a guest observes of the timer in the cycle that starts in `w`: the four registers as they read in the
    next cycle, and the request `timer.EndMachineCycle` returns in this one -/
def timerObsOf (w : Whole) : Obs :=
  { div := Timer.readDIV w.cycle.b.m.timer, tima := Timer.readTIMA w.cycle.b.m.timer,
    tma := Timer.readTMA w.cycle.b.m.timer, tac := Timer.readTAC w.cycle.b.m.timer,
    irq := Timer.endCycleIrq (afterCpu w).2.m.timer }

/-- … in each of `n` machine cycles from `w` -/
def timerObs : Nat → Whole → List Obs
  | 0, _ => []
  | n + 1, w => timerObsOf w :: timerObs n w.cycle

/-- the observations of the whole machine are those of the timer model on the induced schedule -/
theorem whole_timer_observe (n : Nat) (w : Whole) (h : (Whole.run n w).stopped = false)
    (h1 : OneTimerWriteRun n w) : timerObs n w = Timer.observe w.b.m.timer (timerSched n w) := by
  induction n generalizing w with
  | zero => rfl
  | succ n ih =>
    have hc : w.cycle.stopped = false := running_prefix 1 (n + 1) (by omega) w h
    obtain ⟨ha, hb⟩ := oneRun_tail h1
    obtain ⟨e1, e2⟩ := whole_timer_cycle w hc ha
    show timerObsOf w :: timerObs n w.cycle = Timer.cycleObs _ _ :: Timer.observe (Timer.cycle _ _) _
    rw [ih w.cycle h hb, ← e2]
    congr 1
    unfold timerObsOf Timer.cycleObs
    rw [e1, ← e2]

/-- **C12 on the whole machine, from any legal timer state** -/
theorem c12_whole_from (n : Nat) (w : Whole) (h : (Whole.run n w).stopped = false) (h1 : OneTimerWriteRun n w)
    (hi : Tetro.C12.MInv w.b.m.timer) :
    timerObs n w = Spec.Timer.observe (Tetro.C12.abs w.b.m.timer) (timerSched n w) := by
  rw [whole_timer_observe n w h h1]
  exact Tetro.C12.c12_refines _ hi _ (timerSched_bytes n w)

private theorem construct_timer (img : Cart.Image) (wr au : Bool) (w0 : Whole)
    (hc : Whole.construct img wr au = some w0) :
    w0.b.m.timer = Timer.init ∧ w0.b.m.ppu = Lcd.init := by
  unfold Whole.construct at hc
  rw [Option.map_eq_some_iff] at hc
  obtain ⟨c, _, rfl⟩ := hc
  exact ⟨rfl, rfl⟩

/-- **C12 on the whole machine.**  For EVERY ROM image the loader accepts and EVERY number `n` of machine cycles
    after which the emulator is still alive (no undefined opcode executed), if the program writes at most one
    timer register per machine cycle (`whole_one_timer_write`: always, unless an interrupt is dispatched with
    SP ∈ {FF06, FF07, FF08}), then in each of the `n` cycles DIV, TIMA, TMA, TAC as a read in the next cycle returns
    them and the timer's interrupt request are exactly what the documented timer (`Spec.Timer`: continuous
    falling-edge detector, relative reload phase, one request per overflow) produces from its power-on state for
    the induced schedule `timerSched n w0` = per cycle the CPU's write to FF04–FF07, if any. -/
theorem c12_whole (img : Cart.Image) (wr au : Bool) (w0 : Whole) (hc : Whole.construct img wr au = some w0)
    (n : Nat) (hx : (Whole.run n w0).cpu.regs.exited = false) (h1 : OneTimerWriteRun n w0) :
    timerObs n w0 = Spec.Timer.observe (Tetro.C12.abs Timer.init) (timerSched n w0) := by
  have hs : (Whole.run n w0).stopped = false := by rw [constructed_running img wr au w0 hc n]; exact hx
  have e := (construct_timer img wr au w0 hc).1
  have := c12_whole_from n w0 hs h1 (by rw [e]; exact Tetro.C12.c12_inv_init 0xabcc (by decide))
  rw [e] at this
  exact this

/-- **the timer request, on the whole machine** (`whole_timer_irq` restated against the specification).  In a
    cycle the machine survives, from a legal timer state and with at most one timer write: IF bit 2 is set at the
    end of the cycle iff the documented timer overflows (TIMA wraps FF→00) in THIS cycle for the cycle's write, or
    the bit was set after the CPU's part of the cycle. -/
theorem whole_timer_irq_spec (w : Whole) (h : w.cycle.stopped = false) (h1 : OneTimerWrite w)
    (hi : Tetro.C12.MInv w.b.m.timer) :
    w.cycle.b.m.intr.ifl.testBit 2 =
      (Spec.Timer.overflows (Tetro.C12.abs w.b.m.timer) (timerSlot w) || (afterCpu w).2.m.intr.ifl.testBit 2) := by
  obtain ⟨hs, hcs, hok⟩ := running_before w h
  rw [whole_timer_irq w hs hcs hok, (whole_timer_cycle w h h1).1]
  have := (Tetro.C12.c12_one_irq w.b.m.timer hi (timerSlot w) (slot_byte w)).1
  unfold Timer.cycleObs at this
  simp only [] at this
  rw [this]

/-- … for a constructed machine, at every cycle of its run -/
theorem c12_whole_irq (img : Cart.Image) (wr au : Bool) (w0 : Whole) (hc : Whole.construct img wr au = some w0)
    (n : Nat) (hx : (Whole.run (n + 1) w0).cpu.regs.exited = false) (h1 : OneTimerWriteRun (n + 1) w0) :
    (Whole.run (n + 1) w0).b.m.intr.ifl.testBit 2 =
      (Spec.Timer.overflows (Tetro.C12.abs (Whole.run n w0).b.m.timer) (timerSlot (Whole.run n w0)) ||
        (afterCpu (Whole.run n w0)).2.m.intr.ifl.testBit 2) := by
  have hs : (Whole.run (n + 1) w0).stopped = false := by rw [constructed_running img wr au w0 hc]; exact hx
  have hs' : (Whole.run n w0).cycle.stopped = false := by rw [← whole_run_succ]; exact hs
  have hn : (Whole.run n w0).stopped = false := running_prefix n (n + 1) (by omega) w0 hs
  rw [whole_run_succ]
  refine whole_timer_irq_spec _ hs' (h1 n (by omega)) ?_
  refine whole_timer_inv n w0 hn (fun k hk => h1 k (by omega)) ?_
  rw [(construct_timer img wr au w0 hc).1]
  exact Tetro.C12.c12_inv_init 0xabcc (by decide)

/-! ### when is there at most one timer write in a cycle -/

private def isTimerAddr (a : Cpu.Word) : Bool := decide (0xFF04 ≤ a.toNat ∧ a.toNat ≤ 0xFF07)

private theorem timerWrite?_isSome (p : Cpu.Word × Cpu.Byte) : (timerWrite? p).isSome = isTimerAddr p.1 := by
  unfold timerWrite? isTimerAddr
  repeat' split
  all_goals simp
  all_goals omega

private theorem timerWrites_length (wr : List (Cpu.Word × Cpu.Byte)) :
    (timerWrites wr).length = ((wr.map (·.1)).filter isTimerAddr).length := by
  induction wr with
  | nil => rfl
  | cons p wr ih =>
    have k := timerWrite?_isSome p
    simp only [timerWrites, List.filterMap_cons, List.map_cons, List.filter_cons] at ih ⊢
    cases hp : timerWrite? p with
    | none =>
      rw [hp] at k
      rw [← k]
      simpa using ih
    | some x =>
      rw [hp] at k
      rw [← k]
      simpa using ih

private theorem filter_le_one {α : Type} (p : α → Bool) (l : List α) (h : l.length ≤ 1) :
    (l.filter p).length ≤ 1 := Nat.le_trans (List.length_filter_le p l) h

/-- every micro-operation but the interrupt dispatch writes at most one byte -/
private theorem writeAddrs_length (μ : Cpu.MicroOp) (r : Cpu.Regs) (ime : Bool) :
    (writeAddrs μ r ime).length ≤ 1 ∨ writeAddrs μ r ime = [r.sp - 1, r.sp - 1 - 1] := by
  cases μ
  case handleInterrupt =>
    cases ime
    · exact Or.inl (Nat.zero_le 1)
    · exact Or.inr rfl
  all_goals exact Or.inl (by simp [writeAddrs])

private theorem next_sp {M : Type} [Cpu.Bus M] (t : Cpu.Tables) (c : Cpu.Cpu) (m : M) :
    (Cpu.next t c m).cpu.regs.sp = c.regs.sp := by
  unfold Cpu.next Cpu.checkInterrupts Cpu.fetch
  simp only []
  repeat' split
  all_goals first | rfl | (simp_all; done)

private theorem cycleWriteAddrs_shape (w : Whole) :
    (cycleWriteAddrs Cpu.Tables.gen w.cpu w.b).length ≤ 1 ∨
    cycleWriteAddrs Cpu.Tables.gen w.cpu w.b = [w.cpu.regs.sp - 1, w.cpu.regs.sp - 1 - 1] := by
  unfold cycleWriteAddrs
  split
  · exact Or.inl (by decide)
  · split
    · split
      · exact Or.inl (by decide)
      · unfold subWriteAddrs
        split
        · exact Or.inl (by decide)
        · rw [← next_sp Cpu.Tables.gen w.cpu w.b]
          exact writeAddrs_length _ _ _
    · unfold subWriteAddrs
      split
      · exact Or.inl (by decide)
      · exact writeAddrs_length _ _ _

private theorem two_pushes (sp : Cpu.Word) (h : ¬ (0xFF06 ≤ sp.toNat ∧ sp.toNat ≤ 0xFF08)) :
    (([sp - 1, sp - 1 - 1] : List Cpu.Word).filter isTimerAddr).length ≤ 1 := by
  have hlt := sp.isLt
  have e1 : (sp - 1).toNat = (sp.toNat + 65535) % 65536 := by
    rw [BitVec.toNat_sub]; simp; omega
  have e2 : (sp - 1 - 1).toNat = (sp.toNat + 65534) % 65536 := by
    rw [BitVec.toNat_sub, e1]; simp; omega
  simp only [List.filter_cons, List.filter_nil, isTimerAddr, e1, e2]
  repeat' split
  all_goals simp_all
  all_goals omega

/-- **at most one timer write per cycle** holds in every state in which SP is not FF06, FF07 or FF08 (only the
    interrupt dispatch writes two bytes in one machine cycle, at SP-1 and SP-2), and in every cycle whose
    micro-operation writes at most one byte -/
theorem whole_one_timer_write (w : Whole)
    (h : ¬ (0xFF06 ≤ w.cpu.regs.sp.toNat ∧ w.cpu.regs.sp.toNat ≤ 0xFF08) ∨
         (cycleWriteAddrs Cpu.Tables.gen w.cpu w.b).length ≤ 1) : OneTimerWrite w := by
  unfold OneTimerWrite
  cases hs : w.stopped
  · rw [timerWrites_length, cpuWrites_addrs w hs]
    rcases cycleWriteAddrs_shape w with h1 | h2
    · exact filter_le_one _ _ h1
    · rcases h with h | h
      · rw [h2]; exact two_pushes _ h
      · exact filter_le_one _ _ h
  · unfold cpuWrites; rw [hs, if_pos rfl]; exact Nat.zero_le 1

/-- … so a program that keeps SP away from FF06–FF08 (at the cycle boundaries of the run) writes at most one timer
    register per machine cycle -/
theorem whole_one_timer_write_run (n : Nat) (w : Whole)
    (h : ∀ k < n, ¬ (0xFF06 ≤ (Whole.run k w).cpu.regs.sp.toNat ∧ (Whole.run k w).cpu.regs.sp.toNat ≤ 0xFF08)) :
    OneTimerWriteRun n w := fun k hk => whole_one_timer_write _ (Or.inl (h k hk))

/-! ### non-vacuity (timer) -/

/-- the all-NOP machine of Proofs/Whole.lean: constructed, never exits, never writes -/
example : demo.b.m.timer = Timer.init ∧ (Whole.run 3 demo).stopped = false ∧ OneTimerWriteRun 3 demo ∧
    timerSched 3 demo = [none, none, none] := by
  refine ⟨rfl, by decide +kernel, ?_, by decide +kernel⟩
  intro k hk
  have : k = 0 ∨ k = 1 ∨ k = 2 := by omega
  rcases this with rfl | rfl | rfl <;> decide +kernel

/-- a program that sets the timer up and lets it overflow: `LD A,FE; LDH (05),A; LD A,05; LDH (07),A`, then NOPs
    (32 KiB ROM-only image, code at 0100) -/
def timerImg : Cart.Image :=
  { len := 0x8000,
    byte := fun i =>
      if i = 0x100 then 0x3E else if i = 0x101 then 0xFE else if i = 0x102 then 0xE0 else if i = 0x103 then 0x05
      else if i = 0x104 then 0x3E else if i = 0x105 then 0x05 else if i = 0x106 then 0xE0 else if i = 0x107 then 0x07
      else 0 }

def timerW : Whole := powerOn (.none { rom := Cart.pagesOf timerImg, imgLen := 0x8000 }) false false

private theorem timerW_constructed : Whole.construct timerImg false false = some timerW := rfl

/-- its induced schedule has the two writes in the cycles in which the CPU performs them (cycles 5 and 10) -/
example : timerSched 11 timerW =
    [none, none, none, none, some (.tima 0xFE), none, none, none, none, some (.tac 0x05), none] := by
  decide +kernel

example : (Whole.run 11 timerW).cpu.regs.exited = false := by decide +kernel

/-- … and `c12_whole` applies to it at every length (SP stays FFFE: no push ever reaches the timer) -/
example : OneTimerWriteRun 11 timerW := by
  intro k hk
  apply whole_one_timer_write
  left
  have : k = 0 ∨ k = 1 ∨ k = 2 ∨ k = 3 ∨ k = 4 ∨ k = 5 ∨ k = 6 ∨ k = 7 ∨ k = 8 ∨ k = 9 ∨ k = 10 := by omega
  rcases this with rfl | rfl | rfl | rfl | rfl | rfl | rfl | rfl | rfl | rfl | rfl <;> decide +kernel

/-- **the exceptional cycle exists.**  `LD SP,FF08; LD A,01; LDH (FF),A` enables the VBlank interrupt that is
    pending at power-on with IME set: the dispatch pushes PC = 0107 to FF07 and FF06 in ONE machine cycle (cycle 13),
    two timer writes without a tick between them – the guest alphabet of `c12_refines` does not contain this cycle,
    `whole_timer_trace` / `c12_whole_regs` (free alphabet) do. -/
def pushImg : Cart.Image :=
  { len := 0x8000,
    byte := fun i =>
      if i = 0x100 then 0x31 else if i = 0x101 then 0x08 else if i = 0x102 then 0xFF else if i = 0x103 then 0x3E
      else if i = 0x104 then 0x01 else if i = 0x105 then 0xE0 else if i = 0x106 then 0xFF else 0 }

def pushW : Whole := powerOn (.none { rom := Cart.pagesOf pushImg, imgLen := 0x8000 }) false false

example : Whole.construct pushImg false false = some pushW := rfl
example : (Whole.run 12 pushW).cpu.regs.sp = 0xFF08 ∧
    timerWrites (cpuWrites (Whole.run 12 pushW)) = [.tac 0x01, .tma 0x07] ∧ ¬ OneTimerWrite (Whole.run 12 pushW) ∧
    (Whole.run 13 pushW).stopped = false ∧
    Timer.readTMA (Whole.run 13 pushW).b.m.timer = 0x07 ∧ Timer.readTAC (Whole.run 13 pushW).b.m.timer = 0xf9 := by
  decide +kernel

/-- `whole_timer_irq_spec` on the machine `demoTimer` of Proofs/Whole.lean (one cycle before a TIMA overflow, IF = 0):
    its hypotheses hold, the documented timer reports the overflow for this cycle, and IF bit 2 is raised by it -/
example : demoTimer.cycle.stopped = false ∧ OneTimerWrite demoTimer ∧ timerSlot demoTimer = none ∧
    Spec.Timer.overflows (Tetro.C12.abs demoTimer.b.m.timer) none = true ∧
    (afterCpu demoTimer).2.m.intr.ifl.testBit 2 = false ∧ demoTimer.cycle.b.m.intr.ifl.testBit 2 = true := by
  decide +kernel
example : Tetro.C12.MInv demoTimer.b.m.timer :=
  ⟨by decide, by decide, by decide, by decide, by decide, rfl, by decide, by decide⟩

/-! ## 2. the LCD -/

/-- the LCD operation a bus write is: FF40 LCDC, FF41 STAT, FF44 LY, FF45 LYC -/
def lcdOp? (p : Cpu.Word × Cpu.Byte) : Option Lcd.Op :=
  if p.1.toNat = 0xFF40 then some (.wLCDC p.2.toNat)
  else if p.1.toNat = 0xFF41 then some (.wSTAT p.2.toNat)
  else if p.1.toNat = 0xFF44 then some (.wLY p.2.toNat)
  else if p.1.toNat = 0xFF45 then some (.wLYC p.2.toNat)
  else none

/-- the LCD register writes among a list of bus writes, in order -/
def lcdWrites (wr : List (Cpu.Word × Cpu.Byte)) : List Lcd.Op := wr.filterMap lcdOp?

private def lcdAfter (p : Lcd.Ppu) (a v : Nat) : Lcd.Ppu :=
  if a = 0xFF40 then Lcd.wLCDC p v
  else if a = 0xFF41 then Lcd.wSTAT p v
  else if a = 0xFF44 then Lcd.wLY p v
  else if a = 0xFF45 then Lcd.wLYC p v
  else p

private theorem lcd_fold (wr : List (Cpu.Word × Cpu.Byte)) (p : Lcd.Ppu) :
    Lcd.run p (lcdWrites wr) = some (wr.foldl (fun p x => lcdAfter p x.1.toNat x.2.toNat) p) := by
  induction wr generalizing p with
  | nil => rfl
  | cons x wr ih =>
    rw [List.foldl_cons, ← ih]
    unfold lcdWrites
    rw [List.filterMap_cons]
    unfold lcdOp? lcdAfter
    by_cases h0 : x.1.toNat = 0xFF40
    · simp only [h0, if_true]; rfl
    · by_cases h1 : x.1.toNat = 0xFF41
      · simp only [h1, if_true]; rfl
      · by_cases h4 : x.1.toNat = 0xFF44
        · simp only [h4, if_true]; rfl
        · by_cases h5 : x.1.toNat = 0xFF45
          · simp only [h5, if_true]; rfl
          · simp only [h0, h1, h4, h5, if_false]

private theorem frame_ppu : Frame (fun m : Machine => m.ppu) := ⟨fun _ _ => rfl, fun _ _ => rfl⟩

/-- **LCD, the CPU's part of a cycle**: the LCD state goes through the writes to FF40 / FF41 / FF44 / FF45 among
    the CPU's bus writes of this cycle, in order (register writes never panic) -/
theorem whole_lcd_cpu (w : Whole) (hs : w.stopped = false) :
    Lcd.run w.b.m.ppu (lcdWrites (cpuWrites w)) = some (afterCpu w).2.m.ppu := by
  rw [lcd_fold]
  congr 1
  exact (cpu_part_fold (fun m => m.ppu) frame_ppu (fun p x => lcdAfter p x.1.toNat x.2.toNat)
    (fun b a v => board_write_ppu b a.toNat v.toNat a.isLt) w hs).symm

/-- the LCD's operations in the machine cycle that starts in `w`: the CPU's register writes, then one `.tick`
    (`ppu.EndMachineCycle`) -/
def lcdOpsOf (w : Whole) : List Lcd.Op := lcdWrites (cpuWrites w) ++ [Lcd.Op.tick]

/-- **LCD, one machine cycle.**  If the machine is running after the cycle, its LCD state is the one the LCD model
    reaches from the state before the cycle by the CPU's register writes of this cycle followed by one `.tick`
    (in particular that tick does not panic). -/
theorem whole_lcd_trace (w : Whole) (h : w.cycle.stopped = false) :
    Lcd.run w.b.m.ppu (lcdOpsOf w) = some w.cycle.b.m.ppu := by
  obtain ⟨r, o, hr, e⟩ := end_cycle_shape w h
  have hs := (running_before w h).1
  unfold lcdOpsOf
  rw [Tetro.LcdLemmas.run_append, whole_lcd_cpu w hs, Option.bind_some]
  have e1 : w.cycle.b.m.ppu = r.p := by rw [e]
  rw [e1]
  simp only [Lcd.run, Lcd.step, hr]

/-- the LCD's operations during `n` machine cycles from `w` -/
def lcdTrace : Nat → Whole → List Lcd.Op
  | 0, _ => []
  | n + 1, w => lcdOpsOf w ++ lcdTrace n w.cycle

/-- **LCD, any run.**  Along every run of the whole machine the LCD state goes through the `Lcd.Op` sequence
    `lcdTrace n w`. -/
theorem whole_lcd_run (n : Nat) (w : Whole) (h : (Whole.run n w).stopped = false) :
    Lcd.run w.b.m.ppu (lcdTrace n w) = some (Whole.run n w).b.m.ppu := by
  induction n generalizing w with
  | zero => rfl
  | succ n ih =>
    have h1 : w.cycle.stopped = false := running_prefix 1 (n + 1) (by omega) w h
    show Lcd.run w.b.m.ppu (lcdOpsOf w ++ lcdTrace n w.cycle) = some (Whole.run n w.cycle).b.m.ppu
    rw [Tetro.LcdLemmas.run_append, whole_lcd_trace w h1, Option.bind_some]
    exact ih w.cycle h

theorem lcdTrace_succ (n : Nat) (w : Whole) :
    lcdTrace (n + 1) w = lcdTrace n w ++ lcdOpsOf (Whole.run n w) := by
  induction n generalizing w with
  | zero => show lcdOpsOf w ++ [] = [] ++ lcdOpsOf w; rw [List.append_nil, List.nil_append]
  | succ n ih =>
    show lcdOpsOf w ++ lcdTrace (n + 1) w.cycle = (lcdOpsOf w ++ lcdTrace n w.cycle) ++ lcdOpsOf (Whole.run n w.cycle)
    rw [ih w.cycle, List.append_assoc]

/-- at a cycle boundary no write to FF44 is pending: every cycle of the trace ends with `.tick` -/
theorem lcdTrace_fresh (n : Nat) (w : Whole) : Tetro.C13.lyFresh (lcdTrace n w) = true := by
  cases n with
  | zero => rfl
  | succ n =>
    rw [lcdTrace_succ]
    unfold Tetro.C13.lyFresh lcdOpsOf
    rw [← List.append_assoc, List.foldl_append]
    rfl

/-- the operations up to (not including) the PPU step of cycle `n + 1`: `n` whole cycles and the CPU's register
    writes of the next one -/
def lcdBefore (n : Nat) (w : Whole) : List Lcd.Op := lcdTrace n w ++ lcdWrites (cpuWrites (Whole.run n w))

theorem whole_lcd_before (n : Nat) (w : Whole) (h : (Whole.run n w).stopped = false) :
    Lcd.run w.b.m.ppu (lcdBefore n w) = some (afterCpu (Whole.run n w)).2.m.ppu := by
  unfold lcdBefore
  rw [Tetro.LcdLemmas.run_append, whole_lcd_run n w h, Option.bind_some]
  exact whole_lcd_cpu _ h

/-- **C13 on the whole machine.**  For EVERY ROM image the loader accepts and EVERY number `n` of machine cycles
    after which the emulator is still alive: the LCD state is the one the LCD model reaches from power-on by the
    induced operation sequence `lcdTrace n w0` (per cycle the CPU's writes to FF40/41/44/45, then a tick); STAT
    bits 0–1 and LY are the CLOSED FORM of the number of cycles since the program last switched the LCD on
    (`sinceOf`: 112-cycle first line, 114-cycle lines, modes 2/3/0 and 1, LY = 0 and mode 0 while off). -/
theorem c13_whole (img : Cart.Image) (wr au : Bool) (w0 : Whole) (hc : Whole.construct img wr au = some w0)
    (n : Nat) (hx : (Whole.run n w0).cpu.regs.exited = false) :
    Lcd.run Lcd.init (lcdTrace n w0) = some (Whole.run n w0).b.m.ppu ∧
    Lcd.readSTAT (Whole.run n w0).b.m.ppu % 4 = (Spec.Lcd.view (Tetro.LcdLemmas.sinceOf (lcdTrace n w0))).mode ∧
    Lcd.readLY (Whole.run n w0).b.m.ppu = (Spec.Lcd.view (Tetro.LcdLemmas.sinceOf (lcdTrace n w0))).ly := by
  have hs : (Whole.run n w0).stopped = false := by rw [constructed_running img wr au w0 hc n]; exact hx
  have hrun := whole_lcd_run n w0 hs
  rw [(construct_timer img wr au w0 hc).2] at hrun
  obtain ⟨p, hp, hm, hf, _⟩ := Tetro.C13.c13_refines (lcdTrace n w0)
  rw [hrun] at hp
  cases hp
  exact ⟨hrun, hm, hf (lcdTrace_fresh n w0)⟩

/-- what the program reads: FF44 returns `readLY` and FF41 `readSTAT` of the LCD state, without side effect -/
theorem whole_lcd_reads (b : Board) :
    b.read 0xFF44 = (Lcd.readLY b.m.ppu, b) ∧ b.read 0xFF41 = (Lcd.readSTAT b.m.ppu, b) := by
  have e1 : rH 0xFF44 = .ly := by unfold rH; rw [Tetro.C06.c06_arms.1]; decide +kernel
  have e2 : rH 0xFF41 = .stat := by unfold rH; rw [Tetro.C06.c06_arms.1]; decide +kernel
  constructor
  · unfold Board.read Board.read?; rw [e1]; rfl
  · unfold Board.read Board.read?; rw [e2]; rfl

private theorem req_bit (i : Intr) (b : Bool) (k j : Nat) :
    (i.request b k).ifl.testBit j = ((b && decide (k = j)) || i.ifl.testBit j) := by
  unfold Intr.request
  cases b
  · simp
  · simp only [if_true, Nat.testBit_or, Nat.one_shiftLeft, Nat.testBit_two_pow, Bool.true_and]
    rw [Bool.or_comm]

/-- **the LCD's requests, on the whole machine.**  In a cycle the machine survives the PPU step is `Lcd.tick` of
    the LCD state after the CPU's part; IF bit 0 (VBlank) / bit 1 (STAT) is set at the end of the cycle iff that
    tick requests it or the bit was set after the CPU's part of the cycle – nothing else in the cycle touches
    them. -/
theorem whole_lcd_irq (w : Whole) (h : w.cycle.stopped = false) :
    ∃ r, Lcd.tick (afterCpu w).2.m.ppu = some r ∧ w.cycle.b.m.ppu = r.p ∧
      w.cycle.b.m.intr.ifl.testBit 0 = (r.vbl || (afterCpu w).2.m.intr.ifl.testBit 0) ∧
      w.cycle.b.m.intr.ifl.testBit 1 = (r.stat || (afterCpu w).2.m.intr.ifl.testBit 1) := by
  obtain ⟨r, o, hr, e⟩ := end_cycle_shape w h
  refine ⟨r, hr, by rw [e], ?_, ?_⟩
  · rw [e]
    simp only [req_bit]
    simp
  · rw [e]
    simp only [req_bit]
    simp

/-- **C14 on the whole machine, both requests.**  For EVERY accepted image and EVERY cycle `n + 1` the emulator
    survives, with `ops` = everything the LCD went through before the PPU step of that cycle (`lcdBefore`): the
    VBlank request bit is set at the end of the cycle iff line 144 begins with this cycle (LCD on, `k` cycles since
    switch-on, `vblankBegins (k+1)`) or it was set after the CPU's part; the STAT bit likewise for a request `r`
    that satisfies the acceptance relation `statReqOk` of C14 (the OR of the enabled sources' events). -/
theorem c14_whole_requests (img : Cart.Image) (wr au : Bool) (w0 : Whole) (hc : Whole.construct img wr au = some w0)
    (n : Nat) (hx : (Whole.run (n + 1) w0).cpu.regs.exited = false) :
    ((Whole.run (n + 1) w0).b.m.intr.ifl.testBit 0 = true ↔
      ((∃ k, Tetro.LcdLemmas.sinceOf (lcdBefore n w0) = some k ∧ Spec.Lcd.vblankBegins (k + 1)) ∨
        (afterCpu (Whole.run n w0)).2.m.intr.ifl.testBit 0 = true)) ∧
    (∃ r : Bool, Spec.Lcd.statReqOk (Tetro.LcdLemmas.specRun Spec.Lcd.St.init (lcdBefore n w0)) r ∧
      (Whole.run (n + 1) w0).b.m.intr.ifl.testBit 1 = (r || (afterCpu (Whole.run n w0)).2.m.intr.ifl.testBit 1)) := by
  have hs : (Whole.run (n + 1) w0).stopped = false := by rw [constructed_running img wr au w0 hc]; exact hx
  have hs' : (Whole.run n w0).cycle.stopped = false := by rw [← whole_run_succ]; exact hs
  have hn : (Whole.run n w0).stopped = false := running_prefix n (n + 1) (by omega) w0 hs
  have hb := whole_lcd_before n w0 hn
  rw [(construct_timer img wr au w0 hc).2] at hb
  obtain ⟨q, r, hq, hr, hv, hst⟩ := Tetro.C14.c14_requests (lcdBefore n w0)
  obtain ⟨q', r', hq', hr', hv'⟩ := Tetro.C14.c14_vblank (lcdBefore n w0)
  rw [hb] at hq hq'
  cases hq
  cases hq'
  rw [hr] at hr'
  cases hr'
  obtain ⟨r2, hr2, _, h0, h1⟩ := whole_lcd_irq _ hs'
  rw [hr] at hr2
  cases hr2
  rw [whole_run_succ]
  refine ⟨?_, r.stat, hst, h1⟩
  rw [h0, Bool.or_eq_true, hv']

/-- **C14 (VBlank) on the whole machine**: the VBlank request of a cycle, alone -/
theorem c14_whole_vblank (img : Cart.Image) (wr au : Bool) (w0 : Whole) (hc : Whole.construct img wr au = some w0)
    (n : Nat) (hx : (Whole.run (n + 1) w0).cpu.regs.exited = false) :
    ((Whole.run (n + 1) w0).b.m.intr.ifl.testBit 0 = true ↔
      ((∃ k, Tetro.LcdLemmas.sinceOf (lcdBefore n w0) = some k ∧ Spec.Lcd.vblankBegins (k + 1)) ∨
        (afterCpu (Whole.run n w0)).2.m.intr.ifl.testBit 0 = true)) :=
  (c14_whole_requests img wr au w0 hc n hx).1

/-! ### non-vacuity (LCD) -/

/-- the machine of C17Whole's examples whose program switches the LCD off (`offW`, constructed): its induced LCD
    trace contains the LCDC write in the cycle the CPU performs it; before it the closed form counts the cycles since
    power-on, after it the LCD is off and `c13_whole` says LY = 0, mode 0 -/
example : lcdTrace 7 offW = [.tick, .tick, .tick, .tick, .wLCDC 0x11, .tick, .tick, .tick] ∧
    Tetro.LcdLemmas.sinceOf (lcdTrace 4 offW) = some 4 ∧ Tetro.LcdLemmas.sinceOf (lcdTrace 5 offW) = none ∧
    (Whole.run 7 offW).cpu.regs.exited = false := by decide +kernel

example : Whole.construct offImg false false = some offW := rfl

/-- `c14_whole_requests` on the all-NOP machine: its hypothesis holds, the trace up to the PPU step of cycle 4 is
    three ticks (the first VBlank request comes at cycle 16 415, `c14_vblank_once`) -/
example : (Whole.run 4 demo).cpu.regs.exited = false ∧ lcdBefore 3 demo = [.tick, .tick, .tick] ∧
    Tetro.LcdLemmas.sinceOf (lcdBefore 3 demo) = some 3 := by decide +kernel

/-- `whole_lcd_irq` with both requests raised: the all-NOP machine with the LCD state at the last cycle of line 143
    (mode 0, VBlank STAT source enabled, IF = 0): the PPU step of this cycle enters line 144 and requests VBlank and
    STAT; IF becomes 03.  (Reaching this point from power-on takes 16 415 cycles of the pixel pipeline – too many
    for kernel evaluation, hence a hand-made start state; `c14_vblank_once` places the event.) -/
def demoVbl : Whole :=
  { demo with b := { demo.b with m := { demo.b.m with
      ppu := { Lcd.init with mode := 0, ticks := 144 * 114, ly := 143, firstLine := false, oamCorrupt := false,
                             vblInt := true },
      oam := { demo.b.m.oam with corrupt := false },
      intr := { demo.b.m.intr with ifl := 0 } } } }

example : demoVbl.cycle.stopped = false ∧
    (Lcd.tick (afterCpu demoVbl).2.m.ppu).map (fun r => (r.vbl, r.stat)) = some (true, true) ∧
    (afterCpu demoVbl).2.m.intr.ifl = 0 ∧ demoVbl.cycle.b.m.intr.ifl = 3 ∧ demoVbl.cycle.b.m.ppu.mode = 1 := by
  decide +kernel

/-! ## 3. the cartridge -/

/-- the cartridge operation a bus write is: a write to 0000–7FFF (control registers) or A000–BFFF (external RAM /
    clock registers).  Reads – the CPU's and the DMA engine's – have no effect on the cartridge model. -/
def cartOp? (p : Cpu.Word × Cpu.Byte) : Option Cart.Op :=
  if Cart.cartAddr p.1.toNat then some (.write p.1 p.2) else none

def cartWrites (wr : List (Cpu.Word × Cpu.Byte)) : List Cart.Op := wr.filterMap cartOp?

private theorem cart_fold (wr : List (Cpu.Word × Cpu.Byte)) (c : Cart.Mbc) (hwf : Tetro.CartWF.WellFormed c) :
    Cart.run c (cartWrites wr) = some (wr.foldl (fun c p => cartAfterWrite c p.1.toNat p.2.toNat) c) := by
  induction wr generalizing c with
  | nil => rfl
  | cons p wr ih =>
    rw [List.foldl_cons]
    unfold cartWrites
    rw [List.filterMap_cons]
    unfold cartOp?
    cases hc : Cart.cartAddr p.1.toNat
    · have e : cartAfterWrite c p.1.toNat p.2.toNat = c := by
        unfold cartAfterWrite Cart.busWrite; rw [hc]; rfl
      rw [e]
      exact ih c hwf
    · obtain ⟨c1, e1, w1⟩ := Tetro.CartWF.write_ok hwf p.1.toNat p.2.toNat
      have e : cartAfterWrite c p.1.toNat p.2.toNat = c1 := by
        unfold cartAfterWrite Cart.busWrite; rw [hc, if_pos rfl, e1]; rfl
      rw [e]
      simp only [if_true]
      show (Cart.step c (.write p.1 p.2)).bind (fun c' => Cart.run c' (cartWrites wr)) = _
      have es : Cart.step c (.write p.1 p.2) = some c1 := by
        show Cart.busWrite c p.1.toNat p.2.toNat = some c1
        unfold Cart.busWrite; rw [hc, if_pos rfl, e1]
      rw [es, Option.bind_some]
      exact ih c1 w1

private theorem frame_cart : Frame (fun m : Machine => m.cart) := ⟨fun _ _ => rfl, fun _ _ => rfl⟩

/-- in a reachable state the cartridge is well formed -/
theorem wholeOk_cart {w : Whole} (h : WholeOk w) : Tetro.CartWF.WellFormed w.b.m.cart := by
  rcases h.board with hb | ⟨hf, _⟩
  · exact hb.cart
  · exact hf.cart

/-- **cartridge, the CPU's part of a cycle**: the controller goes through the CPU's writes below 8000 and in
    A000–BFFF, in order, and none of them panics -/
theorem whole_cart_cpu (w : Whole) (hs : w.stopped = false) (hwf : Tetro.CartWF.WellFormed w.b.m.cart) :
    Cart.run w.b.m.cart (cartWrites (cpuWrites w)) = some (afterCpu w).2.m.cart := by
  rw [cart_fold _ _ hwf]
  congr 1
  exact (cpu_part_fold (fun m => m.cart) frame_cart (fun c p => cartAfterWrite c p.1.toNat p.2.toNat)
    (fun b a v => board_write_cart b a.toNat v.toNat a.isLt) w hs).symm

/-- the cartridge's operations in the machine cycle that starts in `w`: the CPU's writes, then the clock tick of
    `mapper.EndMachineCycle` -/
def cartOpsOf (w : Whole) : List Cart.Op := cartWrites (cpuWrites w) ++ [Cart.Op.tick]

/-- **cartridge, one machine cycle** -/
theorem whole_cart_trace (w : Whole) (h : w.cycle.stopped = false) (hwf : Tetro.CartWF.WellFormed w.b.m.cart) :
    Cart.run w.b.m.cart (cartOpsOf w) = some w.cycle.b.m.cart := by
  obtain ⟨r, o, _, e⟩ := end_cycle_shape w h
  have hs := (running_before w h).1
  unfold cartOpsOf
  rw [cart_run_append, whole_cart_cpu w hs hwf, Option.bind_some]
  have e1 : w.cycle.b.m.cart = (afterCpu w).2.m.cart.tick := by rw [e]
  rw [e1]
  rfl

def cartTrace : Nat → Whole → List Cart.Op
  | 0, _ => []
  | n + 1, w => cartOpsOf w ++ cartTrace n w.cycle

/-- **cartridge, any run.**  Along every run of a machine that satisfies the invariant of reachable states the
    cartridge goes through the `Cart.Op` sequence `cartTrace n w`: per cycle the CPU's writes into the cartridge's
    address ranges, then one clock tick. -/
theorem whole_cart_run (n : Nat) (w : Whole) (h : (Whole.run n w).stopped = false) (hok : WholeOk w) :
    Cart.run w.b.m.cart (cartTrace n w) = some (Whole.run n w).b.m.cart := by
  induction n generalizing w with
  | zero => rfl
  | succ n ih =>
    have h1 : w.cycle.stopped = false := running_prefix 1 (n + 1) (by omega) w h
    show Cart.run w.b.m.cart (cartOpsOf w ++ cartTrace n w.cycle) = some (Whole.run n w.cycle).b.m.cart
    rw [cart_run_append, whole_cart_trace w h1 (wholeOk_cart hok), Option.bind_some]
    exact ih w.cycle h (whole_cycle_ok w hok)

private theorem not_sound_low {a : Nat} (h : a < 0xFF00) : soundAddr a = false := by
  unfold soundAddr
  simp only [Bool.or_eq_false_iff, Bool.and_eq_false_iff, decide_eq_false_iff_not]
  omega

/-- a bus read in the cartridge's ranges is the controller's read and has no side effect -/
theorem whole_cart_read (b : Board) (a : Nat) (ha : a < 0x8000 ∨ (0xa000 ≤ a ∧ a < 0xc000)) :
    b.read? a = (Cart.busRead b.m.cart a).map fun v => (v, b) := by
  have ha' : a < 65536 := by omega
  unfold Board.read?
  rw [(whole_apu_addresses a ha').1, not_sound_low (by omega)]
  simp only [Bool.false_eq_true, if_false]
  have er : rH a = .mbc := by
    unfold rH
    rw [Tetro.C06.c06_arms.1, Tetro.BusRoute.route_read ha']
    unfold Tetro.Spec.MemMap.regionOf
    rcases ha with h | h
    · rw [if_pos h]
    · rw [if_neg (by omega), if_neg (by omega), if_pos h.2]
  rw [er]
  show Option.map _ (b.m.cart.read a) = Option.map _ (b.m.cart.read a)
  cases b.m.cart.read a <;> rfl

private theorem construct_cart (img : Cart.Image) (wr au : Bool) (w0 : Whole)
    (hc : Whole.construct img wr au = some w0) : Cart.construct img = some w0.b.m.cart := by
  unfold Whole.construct at hc
  rw [Option.map_eq_some_iff] at hc
  obtain ⟨c, hc', rfl⟩ := hc
  exact hc'

/-- **C08 on the whole machine.**  For EVERY image the loader accepts whose size is within the documented range of
    its controller, after EVERY number of machine cycles the emulator survives, a CPU read of any address below 8000
    returns the image byte at (documented bank)·4000h + (address mod 4000h), where the bank is the closed form
    `Spec.Cart.romBank` of the induced history `cartTrace n w0` of control-register writes – whatever program runs. -/
theorem c08_whole (img : Cart.Image) (wr au : Bool) (w0 : Whole) (hc : Whole.construct img wr au = some w0)
    (kind : Spec.Cart.Ctrl) (hkind : Tetro.C08.ctrlOf (img.byte 0x0147) = some kind)
    (hdoc : Tetro.C08.Documented kind (img.len / 0x4000))
    (n : Nat) (hx : (Whole.run n w0).cpu.regs.exited = false) (a : Nat) (ha : a < 0x8000) :
    (Whole.run n w0).b.read a =
      (img.byte (Spec.Cart.romBank kind (img.len / 0x4000) (Tetro.CartSim.hist (cartTrace n w0)) a * 0x4000
        + a % 0x4000), (Whole.run n w0).b) := by
  have hs : (Whole.run n w0).stopped = false := by rw [constructed_running img wr au w0 hc n]; exact hx
  have hrun := whole_cart_run n w0 hs (construct_ok img wr au w0 hc)
  obtain ⟨c', e, r⟩ := Tetro.C08.c08_image img w0.b.m.cart (construct_cart img wr au w0 hc) kind hkind hdoc
    (cartTrace n w0) a ha
  rw [hrun] at e
  cases e
  unfold Board.read
  rw [whole_cart_read _ a (Or.inl ha), r]
  rfl

/-- **C10 on the whole machine (clock read through an MBC3).**  A reachable machine whose cartridge started as an
    MBC3 (any ROM/RAM size): while RAM access is enabled and a clock register `sel` is selected by the induced
    history, a CPU read anywhere in A000–BFFF returns the masked field latched at the most recent 0-then-1 write
    sequence to 6000–7FFF, the clock having ticked once per machine cycle of the run. -/
theorem c10_whole_clock_read (w : Whole) (hok : WholeOk w) (rom : Cart.Rom) (k : Nat) (hk : 1 < k) (q : Nat)
    (hq : 0 < q) (hcart : w.b.m.cart = .mbc3 (Cart.Mbc3.new rom k Cart.freshRam q))
    (n : Nat) (h : (Whole.run n w).stopped = false) (sel : Nat)
    (hsel : Spec.Cart.clockSelected (Tetro.CartSim.hist (cartTrace n w)) = some sel)
    (a : Nat) (ha : Tetro.C09.InWindow a) :
    (Whole.run n w).b.read a =
      (Spec.Rtc.readReg (Tetro.C10.snapshot (Spec.Cart.clockEvents (Tetro.CartSim.hist (cartTrace n w)))) sel,
       (Whole.run n w).b) := by
  have hrun := whole_cart_run n w h hok
  obtain ⟨c', e, r⟩ := Tetro.C10.c10_mbc3_clock_read rom k hk q hq (cartTrace n w) sel hsel a ha
  rw [hcart] at hrun
  rw [hrun] at e
  cases e
  unfold Board.read
  rw [whole_cart_read _ a (Or.inr ha), r]
  rfl

/-! ## 4. the APU -/

/-- the APU operation a bus write is: a write to a sound register or wave RAM, under its own address -/
def apuOp? (p : Cpu.Word × Cpu.Byte) : Option Apu.Apu.Op :=
  if soundAddr p.1.toNat then some (.write p.1.toNat p.2.toNat) else none

def apuWrites (wr : List (Cpu.Word × Cpu.Byte)) : List Apu.Apu.Op := wr.filterMap apuOp?

/-- **APU, the CPU's part of a cycle** (reads of sound registers do not change the APU) -/
theorem whole_apu_cpu (w : Whole) (hs : w.stopped = false) :
    (afterCpu w).2.apu = w.b.apu.run (apuWrites (cpuWrites w)) := by
  have h := cycle_fold (M := Board) (fun b => b.apu)
    (fun (x : Apu.Apu) (p : Cpu.Word × Cpu.Byte) => if soundAddr p.1.toNat then x.write p.1.toNat p.2.toNat else x)
    (fun b a => board_read_apu b a.toNat)
    (fun b a v => board_write_apu b a.toNat v.toNat a.isLt)
    (fun b a => rfl) (fun b => board_corrupt_apu b)
    (fun b v => rfl) (fun b k => rfl) Cpu.Tables.gen w.cpu w.b
  have e : cpuWrites w = (Cpu.cycle Cpu.Tables.gen w.cpu ({ bus := w.b, wr := [] } : Ghost Board)).2.wr := by
    unfold cpuWrites; rw [hs]; rfl
  rw [e]
  unfold afterCpu
  rw [h]
  unfold apuWrites Apu.Apu.run
  refine fold_filterMap apuOp? _ Apu.Apu.step ?_ _ _
  intro x p
  unfold apuOp?
  cases soundAddr p.1.toNat <;> rfl

/-- the APU's operations in the machine cycle that starts in `w`: the CPU's writes, then `audio.EndMachineCycle` -/
def apuOpsOf (w : Whole) : List Apu.Apu.Op := apuWrites (cpuWrites w) ++ [Apu.Apu.Op.cycle]

/-- **APU, one machine cycle** -/
theorem whole_apu_trace (w : Whole) (h : w.cycle.stopped = false) :
    w.cycle.b.apu = w.b.apu.run (apuOpsOf w) := by
  rw [end_cycle_apu w h, whole_apu_cpu w (running_before w h).1]
  unfold apuOpsOf Apu.Apu.run
  rw [List.foldl_append]
  rfl

def apuTrace : Nat → Whole → List Apu.Apu.Op
  | 0, _ => []
  | n + 1, w => apuOpsOf w ++ apuTrace n w.cycle

/-- **APU, any run** -/
theorem whole_apu_run (n : Nat) (w : Whole) (h : (Whole.run n w).stopped = false) :
    (Whole.run n w).b.apu = w.b.apu.run (apuTrace n w) := by
  induction n generalizing w with
  | zero => rfl
  | succ n ih =>
    have h1 : w.cycle.stopped = false := running_prefix 1 (n + 1) (by omega) w h
    show (Whole.run n w.cycle).b.apu = _
    rw [ih w.cycle h, whole_apu_trace w h1]
    rw [show apuTrace (n + 1) w = apuOpsOf w ++ apuTrace n w.cycle from rfl]
    unfold Apu.Apu.run
    rw [List.foldl_append]

private theorem construct_apu (img : Cart.Image) (wr au : Bool) (w0 : Whole)
    (hc : Whole.construct img wr au = some w0) :
    w0.b.apu = Apu.Apu.new au au ∧ w0.b.m.joyp = Joyp.init := by
  unfold Whole.construct at hc
  rw [Option.map_eq_some_iff] at hc
  obtain ⟨c, _, rfl⟩ := hc
  exact ⟨rfl, rfl⟩

/-- a bus read of a sound register / wave RAM byte is the APU model's read -/
theorem whole_apu_read (b : Board) (a : Nat) (ha : soundAddr a = true) :
    b.read? a = (b.apu.read a).map fun v => (v, b) := by
  have ha' : a < 65536 := by
    unfold soundAddr at ha
    simp only [Bool.or_eq_true, Bool.and_eq_true, decide_eq_true_eq] at ha
    omega
  unfold Board.read?
  rw [(whole_apu_addresses a ha').1, ha]
  rfl

/-- **C18 on the whole machine (read-back).**  For EVERY accepted image and EVERY number of machine cycles the
    emulator survives, a CPU read of each of the 20 registers NR10–NR51 returns the byte the program last wrote to
    it while sound was on (0 if none since power-on or the last power-off), ORed with its DMG mask – the history
    being the induced one, `apuTrace n w0`. -/
theorem c18_whole (img : Cart.Image) (wr au : Bool) (w0 : Whole) (hc : Whole.construct img wr au = some w0)
    (n : Nat) (hx : (Whole.run n w0).cpu.regs.exited = false) (addr m : Nat)
    (hm : Spec.Apu.mask addr = some m) (hsound : soundAddr addr = true) :
    (Whole.run n w0).b.read addr =
      ((Tetro.C18.lastWritten (apuTrace n w0)).val addr ||| m, (Whole.run n w0).b) := by
  have hs : (Whole.run n w0).stopped = false := by rw [constructed_running img wr au w0 hc n]; exact hx
  have hrun := whole_apu_run n w0 hs
  rw [(construct_apu img wr au w0 hc).1] at hrun
  unfold Board.read
  rw [whole_apu_read _ addr hsound, hrun, Tetro.C18.c18_readback au au (apuTrace n w0) addr m hm]
  rfl

/-- **C20 on the whole machine (bound).**  In every reachable state of a constructed machine the APU satisfies the
    range invariant, has not hit the `waveduty` index panic, and every sample pair emitted so far is in [0, 1). -/
theorem c20_whole (img : Cart.Image) (wr au : Bool) (w0 : Whole) (hc : Whole.construct img wr au = some w0)
    (n : Nat) (hx : (Whole.run n w0).cpu.regs.exited = false) : Tetro.C20.Good (Whole.run n w0).b.apu := by
  have hs : (Whole.run n w0).stopped = false := by rw [constructed_running img wr au w0 hc n]; exact hx
  rw [whole_apu_run n w0 hs, (construct_apu img wr au w0 hc).1]
  exact Tetro.C20.c20_bound_history au au _

/-! ## 5. the joypad -/

/-- the joypad operation a bus write is: a write to FF00 -/
def joypOp? (p : Cpu.Word × Cpu.Byte) : Option Joyp.Op :=
  if p.1.toNat = 0xFF00 then some (.write p.2) else none

def joypWrites (wr : List (Cpu.Word × Cpu.Byte)) : List Joyp.Op := wr.filterMap joypOp?

private theorem frame_joyp : Frame (fun m : Machine => m.joyp) := ⟨fun _ _ => rfl, fun _ _ => rfl⟩

/-- **joypad, one machine cycle**: the register goes through the CPU's writes to FF00; nothing else in the cycle
    touches it -/
theorem whole_joyp_trace (w : Whole) (h : w.cycle.stopped = false) :
    w.cycle.b.m.joyp = Joyp.run w.b.m.joyp (joypWrites (cpuWrites w)) := by
  obtain ⟨r, o, _, e⟩ := end_cycle_shape w h
  have hs := (running_before w h).1
  have e1 : w.cycle.b.m.joyp = (afterCpu w).2.m.joyp := by rw [e]
  rw [e1, cpu_part_fold (fun m => m.joyp) frame_joyp (fun j p => joypAfterWrite j p.1.toNat p.2.toNat)
    (fun b a v => board_write_joyp b a.toNat v.toNat a.isLt) w hs]
  unfold joypWrites Joyp.run
  refine fold_filterMap joypOp? _ Joyp.step ?_ _ _
  intro x p
  unfold joypOp? joypAfterWrite
  by_cases h0 : p.1.toNat = 0xFF00
  · simp only [h0, if_true]
    show Joyp.write x (BitVec.ofNat 8 p.2.toNat) = Joyp.write x p.2
    rw [BitVec.ofNat_toNat, BitVec.setWidth_eq]
  · simp only [h0, if_false]

/-- an event of the emulator's main loop: a machine cycle, or a button action between two cycles -/
abbrev Event := Option (Nat × Bool)

def runEvents (evs : List Event) (w : Whole) : Whole :=
  evs.foldl (fun w e => match e with | none => w.cycle | some kb => w.button kb.1 kb.2) w

/-- the joypad's operations during a schedule of cycles and button actions -/
def joypTrace : List Event → Whole → List Joyp.Op
  | [], _ => []
  | none :: evs, w => joypWrites (cpuWrites w) ++ joypTrace evs w.cycle
  | some kb :: evs, w => Joyp.Op.button kb.1 kb.2 :: joypTrace evs (w.button kb.1 kb.2)

private theorem events_running (evs : List Event) (w : Whole) (h : (runEvents evs w).stopped = false) :
    w.stopped = false := by
  induction evs generalizing w with
  | nil => exact h
  | cons e evs ih =>
    cases e with
    | none => exact (running_before w (ih w.cycle h)).1
    | some kb => exact ih (w.button kb.1 kb.2) h

/-- **joypad, any schedule of machine cycles and button actions** -/
theorem whole_joyp_run (evs : List Event) (w : Whole) (h : (runEvents evs w).stopped = false) :
    (runEvents evs w).b.m.joyp = Joyp.run w.b.m.joyp (joypTrace evs w) := by
  induction evs generalizing w with
  | nil => rfl
  | cons e evs ih =>
    cases e with
    | none =>
      have h1 : w.cycle.stopped = false := events_running evs w.cycle h
      show (runEvents evs w.cycle).b.m.joyp = Joyp.run w.b.m.joyp (joypWrites (cpuWrites w) ++ joypTrace evs w.cycle)
      rw [ih w.cycle h, whole_joyp_trace w h1]
      unfold Joyp.run
      rw [List.foldl_append]
    | some kb =>
      show (runEvents evs (w.button kb.1 kb.2)).b.m.joyp = _
      rw [ih (w.button kb.1 kb.2) h]
      rfl

/-- a bus read of FF00 is `ReadJOYP` -/
theorem whole_joyp_read (b : Board) : b.read 0xFF00 = ((Joyp.read b.m.joyp).toNat, b) := by
  have e : rH 0xFF00 = .joyp := by unfold rH; rw [Tetro.C06.c06_arms.1]; decide +kernel
  unfold Board.read Board.read?
  rw [e]
  rfl

/-- **C22 on the whole machine.**  For EVERY accepted image and EVERY schedule of machine cycles and button presses
    / releases the emulator survives, a CPU read of FF00 returns what the documentation-shaped joypad specification
    returns after the induced history (the button actions and the program's writes to FF00, in order). -/
theorem c22_whole (img : Cart.Image) (wr au : Bool) (w0 : Whole) (hc : Whole.construct img wr au = some w0)
    (evs : List Event) (h : (runEvents evs w0).stopped = false) :
    (runEvents evs w0).b.read 0xFF00 =
      ((Spec.Joyp.read ((joypTrace evs w0).foldl Tetro.C22.specStep Spec.Joyp.init)).toNat, (runEvents evs w0).b) := by
  rw [whole_joyp_read, whole_joyp_run evs w0 h, (construct_apu img wr au w0 hc).2, Tetro.C22.c22_read_refines]

/-! ### non-vacuity (cartridge, APU, joypad) -/

/-- a 64 KiB MBC1 image (4 banks, every byte outside the code = its bank number) whose program writes NR12, selects
    the button group of the joypad and switches ROM bank 2 in:
    `LD A,F3; LDH (12),A; LD A,10; LDH (00),A; LD A,02; LD (2100),A` -/
def allImg : Cart.Image :=
  { len := 0x10000,
    byte := fun i =>
      if i = 0x147 then 0x01 else if i = 0x148 then 0x01 else if i = 0x149 then 0x00
      else if 0x100 ≤ i ∧ i < 0x10d then
        [0x3E, 0xF3, 0xE0, 0x12, 0x3E, 0x10, 0xE0, 0x00, 0x3E, 0x02, 0xEA, 0x00, 0x21].getD (i - 0x100) 0
      else i / 0x4000 }

/-- the machine `gameboy.New` builds from it (speakers attached) -/
def allW : Whole := (Whole.construct allImg false true).getD demo

private theorem allW_constructed : Whole.construct allImg false true = some allW := by
  have h : (Whole.construct allImg false true).isSome = true := by decide +kernel
  unfold allW
  cases hc : Whole.construct allImg false true with
  | none => rw [hc] at h; cases h
  | some w => rfl

/-- the hypotheses of `c08_whole` hold for it … -/
example : Tetro.C08.ctrlOf (allImg.byte 0x0147) = some .mbc1 ∧ Tetro.C08.Documented .mbc1 (allImg.len / 0x4000) ∧
    (Whole.run 16 allW).cpu.regs.exited = false :=
  ⟨by decide, by show (0x10000 / 0x4000 : Nat) ≤ 128; decide, by decide +kernel⟩

/-- … and its conclusion is not trivial: the induced history contains the bank switch (performed in cycle 16), the
    documented bank of 4000–7FFF becomes 2 and the CPU reads bank 2 there -/
example : Spec.Cart.romBank .mbc1 4 (Tetro.CartSim.hist (cartTrace 15 allW)) 0x4000 = 1 ∧
    Spec.Cart.romBank .mbc1 4 (Tetro.CartSim.hist (cartTrace 16 allW)) 0x4000 = 2 ∧
    ((Whole.run 15 allW).b.read 0x4000).1 = 1 ∧ ((Whole.run 16 allW).b.read 0x4000).1 = 2 := by decide +kernel

example (n : Nat) (hx : (Whole.run n allW).cpu.regs.exited = false) (a : Nat) (ha : a < 0x8000) :
    ((Whole.run n allW).b.read a).1 =
      allImg.byte (Spec.Cart.romBank .mbc1 4 (Tetro.CartSim.hist (cartTrace n allW)) a * 0x4000 + a % 0x4000) := by
  rw [c08_whole allImg false true allW allW_constructed .mbc1 (by decide)
    (by show (0x10000 / 0x4000 : Nat) ≤ 128; decide) n hx a ha]
  rfl

/-- APU: the induced history has the NR12 write in the cycle the CPU performs it; `c18_whole` then says FF12 reads
    F3 (mask 00) -/
example : apuTrace 6 allW = [.cycle, .cycle, .cycle, .cycle, .write 0xFF12 0xF3, .cycle, .cycle] ∧
    Spec.Apu.mask 0xFF12 = some 0 ∧ soundAddr 0xFF12 = true ∧
    (Tetro.C18.lastWritten (apuTrace 6 allW)).val 0xFF12 = 0xF3 ∧ ((Whole.run 6 allW).b.read 0xFF12).1 = 0xF3 := by
  decide +kernel

/-- joypad: A is pressed before the first cycle and released after ten cycles; the program selects the button group
    in between; FF00 reads DE (A low) while it is held -/
example : (joypTrace [some (4, true), none, none, none, none, none, none, none, none, none, none, some (4, false)]
        allW).map (fun op => match op with | .write v => (0, v.toNat, false) | .button k p => (1, k, p))
      = [(1, 4, true), (0, 0x10, false), (1, 4, false)] ∧
    (runEvents [some (4, true), none, none, none, none, none, none, none, none, none, none] allW).stopped = false ∧
    ((runEvents [some (4, true), none, none, none, none, none, none, none, none, none, none] allW).b.read 0xFF00).1
      = 0xDE := by
  decide +kernel

/-- an MBC3 image (type 0F, 4 ROM banks) whose program enables RAM access and selects clock register 08:
    `LD A,0A; LD (0000),A; LD A,08; LD (4000),A` -/
def rtcImg : Cart.Image :=
  { len := 0x10000,
    byte := fun i =>
      if i = 0x147 then 0x0F else if i = 0x148 then 0x01 else if i = 0x149 then 0x00
      else if 0x100 ≤ i ∧ i < 0x10a then
        [0x3E, 0x0A, 0xEA, 0x00, 0x00, 0x3E, 0x08, 0xEA, 0x00, 0x40].getD (i - 0x100) 0
      else 0 }

def rtcW : Whole := (Whole.construct rtcImg false false).getD demo

private theorem rtcW_constructed : Whole.construct rtcImg false false = some rtcW := by
  have h : (Whole.construct rtcImg false false).isSome = true := by decide +kernel
  unfold rtcW
  cases hc : Whole.construct rtcImg false false with
  | none => rw [hc] at h; cases h
  | some w => rfl

/-- the hypotheses of `c10_whole_clock_read` hold for it after 12 cycles -/
example : WholeOk rtcW := construct_ok _ _ _ _ rtcW_constructed
example : rtcW.b.m.cart = .mbc3 (Cart.Mbc3.new (Cart.pagesOf rtcImg) 4 Cart.freshRam 1) := rfl
example : (Whole.run 12 rtcW).stopped = false ∧
    Spec.Cart.clockSelected (Tetro.CartSim.hist (cartTrace 12 rtcW)) = some 8 ∧ Tetro.C09.InWindow 0xA000 :=
  ⟨by decide +kernel, by decide +kernel, by decide, by decide⟩

end Tetro.WholeTraces
