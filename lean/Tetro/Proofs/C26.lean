import Tetro.Gen.FrameLoop
/-
C26 – the frame loop steps every component once per machine cycle and stops on request.  (partial)

Tie to the code: the canonical source text of runFrame / Run / Cleanup / Mapper.EndMachineCycle is
regenerated on every run and must equal the text the loop model below was written from (a changed loop
bound, a reordered, missing or duplicated component call, a changed cancellation test break these
obligations; the `multi` correspondence then searches for a frame on which runFrame and the documented
loop differ).  `context`, goroutines and the real display/speakers are not modelled.
-/
namespace Tetro.C26

def expectedRunFrame : String := "func (gb *Gameboy) runFrame(ctx context.Context) bool { for mtick := 0; mtick < 17556; mtick++ { gb.cpu.ExecuteMachineCycle() gb.ppu.EndMachineCycle() gb.mapper.EndMachineCycle() gb.audio.EndMachineCycle() timerInterruptRequested := gb.timer.EndMachineCycle() if timerInterruptRequested { gb.interrupts.RequestTimer() } } frame := gb.ppu.Frame() if gb.display != nil { return gb.display.RenderFrame(frame) } return false }"
def expectedRun : String := "func (gb *Gameboy) Run(ctx context.Context) { defer gb.Cleanup() for { select { case <-ctx.Done(): return default: if gb.runFrame(ctx) { return } } } }"
def expectedCleanup : String := "func (gb *Gameboy) Cleanup() { if gb.speakers != nil { gb.speakers.Cleanup() } if gb.display != nil { gb.display.Cleanup() } }"
def expectedMapperEnd : String := "func (m *Mapper) EndMachineCycle() { m.oam.TickDMA(m.Read) m.rtc.tick() }"

theorem c26_runFrame_src : Gen.FrameLoop.gameboyRunFrame = expectedRunFrame := by rfl
theorem c26_run_src : Gen.FrameLoop.gameboyRun = expectedRun := by rfl
theorem c26_cleanup_src : Gen.FrameLoop.gameboyCleanup = expectedCleanup := by rfl
theorem c26_mapper_end_src : Gen.FrameLoop.mapperEndMachineCycle = expectedMapperEnd := by rfl

/-! ### loop model (written from the text above) -/

inductive Comp | cpu | ppu | dma | rtc | audio | timer
deriving DecidableEq, Repr

/-- one iteration of the loop body: CPU first, then video, memory (DMA then clock), audio, timer -/
def cycleCalls : List Comp := [.cpu, .ppu, .dma, .rtc, .audio, .timer]

/-- the calls made by `runFrame`, in order -/
def frameCalls : List Comp := (List.replicate 17556 cycleCalls).flatten

theorem count_flatten_replicate (c : Comp) (n : Nat) :
    ((List.replicate n cycleCalls).flatten).count c = n * cycleCalls.count c := by
  induction n with
  | zero => simp
  | succ k ih => rw [List.replicate_succ, List.flatten_cons, List.count_append, ih]; simp [Nat.succ_mul]; omega

/-- every component advances exactly 17 556 times per frame -/
theorem c26_once_per_cycle (c : Comp) : frameCalls.count c = 17556 := by
  unfold frameCalls
  rw [count_flatten_replicate]
  cases c <;> decide

/-- in every machine cycle the CPU acts first and each of the other components advances exactly once -/
theorem c26_cycle_order : cycleCalls.head? = some .cpu ∧ cycleCalls.Nodup ∧ cycleCalls.length = 6 := by decide

/-- clock cycles per frame: 17 556 machine cycles of 4 clocks -/
theorem c26_clocks_per_frame : 17556 * 4 = 70224 ∧ 154 * 114 = 17556 := by decide

/-- the timer's return value is the only source of the timer request in the loop:
    the request is raised in a cycle iff the timer tick of that cycle reported an overflow -/
def irqAfter (timerSaysOverflow : Bool) (ifl : Bool) : Bool := if timerSaysOverflow then true else ifl

theorem c26_timer_irq (ov ifl : Bool) : irqAfter ov ifl = (ov || ifl) := by cases ov <;> cases ifl <;> rfl

/-! ### Run: the outer loop.  Time is measured in frame boundaries: the context is seen cancelled at
boundary k iff `cancelAt ≤ k`; the display asks to close at the end of frame number `closeAfter`. -/

structure RunResult where
  frames   : Nat
  cleanups : Nat
deriving DecidableEq, Repr

/-- `fuel` bounds the unrolling; the loop stops when the context is done (checked BEFORE each frame) or when
    the frame just rendered made the display ask to close -/
def runLoop (cancelAt closeAfter : Option Nat) : Nat → Nat → RunResult
  | 0, k => ⟨k, 0⟩                                       -- out of fuel: still running, no cleanup yet
  | fuel + 1, k =>
    if (match cancelAt with | some c => decide (c ≤ k) | none => false) then ⟨k, 1⟩
    else if (match closeAfter with | some c => decide (c ≤ k + 1) | none => false) then ⟨k + 1, 1⟩
    else runLoop cancelAt closeAfter fuel (k + 1)

/-- once the context is cancelled during frame k (seen at boundary k+1) no further frame is started:
    at most the frame in progress completes, then Cleanup runs exactly once -/
theorem c26_cancel (c : Nat) (fuel k : Nat) (hk : k ≤ c) (hf : c - k < fuel) :
    (runLoop (some c) none fuel k) = ⟨c, 1⟩ := by
  induction fuel generalizing k with
  | zero => omega
  | succ f ih =>
    unfold runLoop
    by_cases h : c ≤ k
    · have : k = c := by omega
      subst this; simp
    · simp [h]
      exact ih (k + 1) (by omega) (by omega)

/-- the display asking to close after its j-th frame (j ≥ 1) stops Run after exactly j frames, Cleanup once -/
theorem c26_close (j : Nat) (fuel k : Nat) (hj : k < j) (hf : j - k ≤ fuel) (hfuel : 0 < fuel) :
    (runLoop none (some j) fuel k) = ⟨j, 1⟩ := by
  induction fuel generalizing k with
  | zero => omega
  | succ f ih =>
    unfold runLoop
    by_cases h : j ≤ k + 1
    · have : k + 1 = j := by omega
      simp [this]
    · simp [h]
      exact ih (k + 1) (by omega) (by omega) (by omega)

example : runLoop (some 3) none 10 0 = ⟨3, 1⟩ := by decide
example : runLoop none (some 4) 10 0 = ⟨4, 1⟩ := by decide

end Tetro.C26
