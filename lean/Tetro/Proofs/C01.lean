import Tetro.Lemmas.CpuFamLd
import Tetro.Lemmas.CpuFamAlu
import Tetro.Lemmas.CpuFam16
import Tetro.Lemmas.CpuFamRot
import Tetro.Lemmas.CpuFamStack
import Tetro.Lemmas.CpuFamCond
import Tetro.Lemmas.CpuFamMisc
import Tetro.Lemmas.CpuFLow
import Tetro.Proofs.C01Tables
/-
C01 – every SM83 instruction has its documented effect.

`c01_instr_effect`: for EVERY instruction of the ISA spec, from EVERY register/flag/memory state,
running the documented machine-cycle schedule (`micro`, which `c01_tables` proves to be exactly what
dispatch.go contains) on the code-shaped model over the flat bus gives exactly the architectural
state `exec` prescribes – registers, the four flags, SP, PC, halted/haltbug/stopped/EI-pending, all of
memory, IME, IE, IF – plain structure equality, so "nothing else architectural changes" is included.
The definitions `runList`, `effective`, `FLow`, `WellFormed`, `FSafe`, `TablesFSafe` used in the
statements live in `Tetro.Lemmas.CpuDefs`; the per-family proofs in `Tetro.Lemmas.CpuFam*`.
-/
namespace Tetro.C01
open Tetro.Model.Cpu Tetro.Spec.Isa

/-! ### the side condition `WellFormed` is exactly "produced by the decoder" -/

private theorem decode_wf_fin : ∀ op : Fin 256, ∀ i, decode op.val = some i → WellFormed i := by
  decide +kernel

/-- every instruction the unprefixed decoder produces is well formed -/
theorem c01_decode_wf (op : Nat) (hop : op < 256) (i : Instr) (h : decode op = some i) : WellFormed i :=
  decode_wf_fin ⟨op, hop⟩ i h

private theorem decodeCB_wf_fin : ∀ op : Fin 256, WellFormed (decodeCB op.val) := by decide +kernel

/-- every instruction the CB decoder produces is well formed -/
theorem c01_decodeCB_wf (op : Nat) (hop : op < 256) : WellFormed (decodeCB op) :=
  decodeCB_wf_fin ⟨op, hop⟩

/-! ### main theorem -/

/-- C01 (main): for every instruction i, from every register/flag/memory state with F's low nibble clear
    (PC already past the opcode), running the documented schedule on the code model gives exactly the
    documented architectural effect, and nothing else architectural changes. -/
theorem c01_instr_effect (i : Instr) (r : Regs) (m : Flat) (hf : FLow r) (hi : WellFormed i) :
    let s := runList (effective i r) r m
    abs s.1 s.2 = exec i (abs r m) := by
  have h : Holds i := by
    cases i with
    | nop => exact holds_nop
    | stop => exact holds_stop
    | halt => exact holds_halt
    | di => exact holds_di
    | ei => exact holds_ei
    | ld dst src => exact holds_ld dst src hi
    | ldN dst => exact holds_ldN dst
    | ldRpNN rp => exact holds_ldRpNN rp
    | ldNNSP => exact holds_ldNNSP
    | ldSPHL => exact holds_ldSPHL
    | ldHLSPe => exact holds_ldHLSPe
    | addSPe => exact holds_addSPe
    | ldAInd i => exact holds_ldAInd i
    | ldIndA i => exact holds_ldIndA i
    | push rp => exact holds_push rp
    | pop rp => exact holds_pop rp
    | alu op src => exact holds_alu op src
    | aluN op => exact holds_aluN op
    | inc l => exact holds_inc l
    | dec l => exact holds_dec l
    | inc16 rp => exact holds_inc16 rp
    | dec16 rp => exact holds_dec16 rp
    | addHL rp => exact holds_addHL rp
    | rlca => exact holds_rlca
    | rrca => exact holds_rrca
    | rla => exact holds_rla
    | rra => exact holds_rra
    | daa => exact holds_daa
    | cpl => exact holds_cpl
    | scf => exact holds_scf
    | ccf => exact holds_ccf
    | jp => exact holds_jp
    | jpCC cc => exact holds_jpCC cc
    | jpHL => exact holds_jpHL
    | jr => exact holds_jr
    | jrCC cc => exact holds_jrCC cc
    | call => exact holds_call
    | callCC cc => exact holds_callCC cc
    | ret => exact holds_ret
    | retCC cc => exact holds_retCC cc
    | reti => exact holds_reti
    | rst t => exact holds_rst t
    | rot op l => exact holds_rot op l
    | bit n l => exact holds_bit n l hi
    | res n l => exact holds_res n l hi
    | set n l => exact holds_set n l hi
  exact h r m hf

/-- non-vacuity: the power-on registers satisfy `FLow`, `SET 7,(HL)` is well formed -/
example : FLow Regs.init ∧ WellFormed (.set 7 .hlm) := by decide

/-- the excluded constructor arguments really are junk: `LD (HL),(HL)` is not an instruction (its opcode
    slot 0x76 is HALT), and no opcode decodes to it -/
example : ¬ WellFormed (.ld .hlm .hlm) ∧ decode 0x76 = some .halt := by decide

/-- the not-met test of a conditional instruction is evaluated by the execution loop at cycle `early`,
    i.e. after the operand fetches; those do not touch F, so testing the flags at the start (as
    `effective` does) is the same -/
theorem c01_early_test_stable (i : Instr) (c : Cond) (early last : Nat) (h : earlyOf i = some (c, early, last))
    (r : Regs) (m : Flat) : c.holds (runList ((micro i).take early) r m).1 = c.holds r := by
  cases i <;> simp [earlyOf] at h
  all_goals
    obtain ⟨rfl, rfl, rfl⟩ := h
    rename_i cc
    cases cc <;> simp [micro, MicroOp.run, notMet, Cond.holds, zf_def, cf_def]

/-! ### the same statement per opcode of the regenerated tables -/

/-- the micro-operations the execution loop runs for an unprefixed opcode according to tables `t`:
    it stops after the early cycle count when the early test holds -/
def tableOps (t : Tables) (op : Nat) (r : Regs) : List MicroOp :=
  match t.earlyOf op with
  | some (c, early, _) => if c.holds r then (t.normal.getD op []).take early else t.normal.getD op []
  | none => t.normal.getD op []

private theorem spec_normal_fin : ∀ op : Fin 256,
    specTables.normal.getD op.val [] = (match decode op.val with | some i => micro i | none => [.fatal]) ∧
    specTables.earlyOf op.val = (match decode op.val with | some i => earlyOf i | none => none) := by
  decide +kernel

private theorem spec_prefixed_fin : ∀ op : Fin 256,
    specTables.prefixed.getD op.val [] = micro (decodeCB op.val) := by
  decide +kernel

private theorem cb_no_early_fin : ∀ op : Fin 256, earlyOf (decodeCB op.val) = none := by decide +kernel

/-- what dispatch.go makes the CPU run for a defined unprefixed opcode has the documented effect of the
    instruction the opcode decodes to -/
theorem c01_opcode_effect (op : Nat) (hop : op < 256) (i : Instr) (hd : decode op = some i)
    (r : Regs) (m : Flat) (hf : FLow r) :
    let s := runList (tableOps Tables.gen op r) r m
    abs s.1 s.2 = exec i (abs r m) := by
  have h := spec_normal_fin ⟨op, hop⟩
  simp only [hd] at h
  have e : tableOps Tables.gen op r = effective i r := by
    rw [c01_tables]
    unfold tableOps effective
    rw [h.1, h.2]
    rfl
  rw [e]
  exact c01_instr_effect i r m hf (c01_decode_wf op hop i hd)

/-- non-vacuity: 0xC4 is CALL NZ,nn (conditional: 3 cycles not taken, 6 taken) and the tables say so -/
example : decode 0xC4 = some (.callCC .nz) ∧ Tables.gen.earlyOf 0xC4 = some (.zf, 3, 6) := by
  decide +kernel

/-- the same for the CB-prefixed opcodes (no conditional ones there) -/
theorem c01_opcode_effect_cb (op : Nat) (hop : op < 256) (r : Regs) (m : Flat) (hf : FLow r) :
    let s := runList (Tables.gen.prefixed.getD op []) r m
    abs s.1 s.2 = exec (decodeCB op) (abs r m) := by
  have e : Tables.gen.prefixed.getD op [] = effective (decodeCB op) r := by
    rw [c01_tables, spec_prefixed_fin ⟨op, hop⟩]
    unfold effective
    rw [cb_no_early_fin ⟨op, hop⟩]
  rw [e]
  exact c01_instr_effect (decodeCB op) r m hf (c01_decodeCB_wf op hop)

/-! ### the low nibble of F -/

/- The statement first asked for,
     theorem c01_f_low_micro (μ : MicroOp) (r : Regs) (m : Flat) (hf : FLow r) : FLow (μ.run r m).1
   is FALSE: the micro-operation vocabulary contains generic byte helpers that can be pointed at the F
   cell (`ld8 f a`, `pop f`, `inc8 f`, …); see the counterexample below.  dispatch.go uses none of them
   (`c01_tables_fsafe`), so the theorem is stated for the `FSafe` micro-operations. -/

/-- the low nibble of F stays clear under every micro-operation that does not use F as the destination
    cell of a generic byte helper -/
theorem c01_f_low_micro (μ : MicroOp) (hμ : FSafe μ = true) (r : Regs) (m : Flat) (hf : FLow r) :
    FLow (μ.run r m).1 :=
  flow_micro μ hμ r m hf

/-- non-vacuity: the flag-writing helpers are `FSafe` -/
example : FSafe .popF = true ∧ FSafe (.alu .adc .m) = true ∧ FSafe .daa = true ∧ FSafe (.pop .a) = true := by
  decide

/-- without `FSafe` the statement fails: `ld8 f a` copies A into F -/
example : ∃ (μ : MicroOp) (r : Regs), FLow r ∧ ∀ m : Flat, ¬ FLow (μ.run r m).1 :=
  ⟨.ld8 .f .a, Regs.init, by decide, fun _ => (by decide : ¬ ((0x01 : Byte) &&& 0x0f = 0))⟩

/-- every entry of the tables regenerated from dispatch.go is `FSafe` (POP AF goes through `popF`) -/
theorem c01_tables_fsafe : TablesFSafe Tables.gen = true := by decide +kernel

/-- … hence the low nibble of F is clear in every state reachable from power-on by machine cycles,
    whatever `FSafe` tables the CPU runs with … -/
theorem c01_f_low (t : Tables) (ht : TablesFSafe t = true) (n : Nat) (m : Flat) :
    FLow (cycles t n Cpu.init m).1.regs :=
  (cycles_inv t ht n Cpu.init m ⟨by decide, rfl⟩).1

/-- … in particular with the tables of dispatch.go -/
theorem c01_f_low_gen (n : Nat) (m : Flat) : FLow (cycles Tables.gen n Cpu.init m).1.regs :=
  c01_f_low Tables.gen c01_tables_fsafe n m

end Tetro.C01
