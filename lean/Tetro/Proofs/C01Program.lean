import Tetro.Lemmas.CpuGlue
/-
C01–C05 composed: the cycle-level CPU model refines the instruction-level machine of
`Spec/IsaMachine.lean`, for whole programs.

* `c01_step_refines` – from EVERY boundary state of the model (finished, alive, F's low nibble clear) and
  every flat bus: let `(s', ev, n) = specStep (abs c.regs m)`.  Unless `ev` is `undefined`, the model is
  inside the instruction / interrupt sequence for cycles 1 … n-1, at a boundary again after exactly `n`
  machine cycles, and the architectural view of the state reached is exactly `s'` – all registers, the
  four flags, SP, PC, halted/haltbug/stopped/EI latch, ALL of memory, IME, IE, IF (structure equality
  on `St`; only the scratch cells u8a/u8b/m8a/m8b, which are not architectural, are outside).
* `c01_program_refines` – by induction, for every number `k` of specification steps: running the model
  for the SUM of the documented cycle counts reaches the `k`-fold iterate of `specStep`, provided no
  undefined opcode is met.  One theorem containing "every instruction / dispatch / HALT has its
  documented effect" (C01/C04/C05) and "emulated time advances exactly as documented for every program"
  (C02).
* `c01_program_boundaries` – the model's boundaries in that run are exactly the spec's step times.
* `c01_undefined_stops` – when the spec step is `undefined` (one of the 11 undefined opcodes at a fetch
  boundary) the next machine cycle sets `exited` and the model never moves again (C11's deliberate stop).
* `…_gen` – the same over the tables regenerated from dispatch.go (`c01_tables`).
-/
namespace Tetro.C01
open Tetro.Model.Cpu Tetro.Spec.Isa Tetro.Exec Tetro.Glue

/-- `n` machine cycles of the model from `(c, m)` realise one specification step to `s'` -/
private def Realises (c : Cpu) (m : Flat) (n : Nat) (s' : St) : Prop :=
  (∀ j, 0 < j → j < n → (cycles specTables j c m).1.isFinished = false) ∧
  Boundary (cycles specTables n c m).1 ∧ FLow (cycles specTables n c m).1.regs ∧
  abs (cycles specTables n c m).1.regs (cycles specTables n c m).2 = s'

/-! ### the five cases -/

private theorem dispatch_case (c : Cpu) (m : Flat) (hb : Boundary c) (hf : FLow c.regs)
    (hp : pendingBits m ≠ 0) (hime : m.ime = true) :
    Realises c m (if c.regs.halted then 6 else 5) (dispatchTo (abs c.regs m) (prioritySource (pendingBits m))) := by
  obtain ⟨k, hk5, hs, _⟩ := C04.c04_priority_ie_if m hp
  rw [prioritySource_eq _ k hs]
  cases hh : c.regs.halted
  · show Realises c m 5 _
    obtain ⟨hbefore, hfin, hcr, hregs, hbus⟩ := C04.c04_dispatch c m hb hh hime k hs
    refine ⟨hbefore, ⟨hfin, hcr, ?_⟩, ?_, ?_⟩
    · rw [hregs]; exact hb.running
    · rw [hregs]; exact hf
    · rw [hregs, hbus, ← abs_dispatch c.regs m k hk5]
      simp [abs, hh]
  · show Realises c m 6 _
    obtain ⟨hbefore, hfin, hcr, hregs, hbus⟩ := C05.c05_wake_ime1 c m hb hh hime k hs
    refine ⟨hbefore, ⟨hfin, hcr, ?_⟩, ?_, ?_⟩
    · rw [hregs]; exact hb.running
    · rw [hregs]; exact hf
    · rw [hregs, hbus, ← abs_dispatch c.regs m k hk5]

private theorem wake_case (c : Cpu) (m : Flat) (hb : Boundary c) (hf : FLow c.regs)
    (hh : c.regs.halted = true) (hime : m.ime = false) (hp : pendingBits m ≠ 0) :
    Realises c m 1 { abs c.regs m with halted := false } := by
  obtain ⟨hfin, hcr, hregs, hbus, _⟩ := C05.c05_wake_ime0 c m hb hh hime hp
  rw [← cycles_one] at hfin hcr hregs hbus
  refine ⟨fun j h0 h1 => absurd h1 (by omega), ⟨hfin, hcr, ?_⟩, ?_, ?_⟩
  · rw [hregs]; exact hb.running
  · rw [hregs]; exact hf
  · rw [hregs, hbus]; rfl

private theorem still_case (c : Cpu) (m : Flat) (hb : Boundary c) (hf : FLow c.regs)
    (h : cycle specTables c m = (c, m)) : Realises c m 1 (abs c.regs m) := by
  rw [Realises, cycles_one, h]
  exact ⟨fun j h0 h1 => absurd h1 (by omega), hb, hf, rfl⟩

private theorem stopped_cycle (t : Tables) (c : Cpu) (m : Flat) (hb : Boundary c)
    (hh : c.regs.halted = false) (hs : c.regs.stopped = true)
    (hno : ¬(pendingBits m ≠ 0 ∧ m.ime = true)) : cycle t c m = (c, m) := by
  simp [cycle, hb.finished, hb.alive, hb.running, next, checkInterrupts_none t c.regs m hh hno, hh, hs]

private theorem instr_case (c : Cpu) (m : Flat) (h : AtFetch c m) (hf : FLow c.regs) (i : Instr)
    (hi : instrAt c.regs.pc m = some i) :
    Realises c m (cyclesOf i (takenOf i (abs c.regs m)))
      (exec i (abs (fetchRegs c.regs (decide (m.read c.regs.pc = 0xcb)))
        { m with ime := m.ime || c.regs.eiPending })) := by
  rw [takenOf_abs]
  obtain ⟨_, hbefore, hfin, hcr, hex, hregs, hbus⟩ := C02.c02_cycles c m i h hi
  have hne := instrAt_ne_ldhlhl _ _ _ hi
  have hf0 : FLow (fetchRegs c.regs (decide (m.read c.regs.pc = 0xcb))) := hf
  have htake := take_effective i hne (fetchRegs c.regs (decide (m.read c.regs.pc = 0xcb))) c.regs m rfl
  refine ⟨hbefore, ⟨hfin, hcr, hex⟩, ?_, ?_⟩
  · rw [hregs]
    exact flow_runList _ (all_take _ _ _ (micro_fsafe c m i hf hi)) _ _ hf0
  · rw [hregs, hbus, htake, ← runList_eq]
    exact c01_instr_effect i _ _ hf0 (instrAt_wf _ _ i hi)

/-! ### one step -/

/-- the statement of `c01_step_refines` for a given outcome of `specStep` -/
private theorem step_realises (c : Cpu) (m : Flat) (hb : Boundary c) (hf : FLow c.regs)
    (hdef : (specStep (abs c.regs m)).2.1 ≠ .undefined) :
    0 < (specStep (abs c.regs m)).2.2 ∧
    Realises c m (specStep (abs c.regs m)).2.2 (specStep (abs c.regs m)).1 := by
  by_cases hd : pending (abs c.regs m) ≠ 0 ∧ (abs c.regs m).bus.ime = true
  · rw [specStep_dispatch _ hd]
    refine ⟨?_, dispatch_case c m hb hf hd.1 hd.2⟩
    show 0 < if c.regs.halted = true then 6 else 5
    split <;> omega
  · have hd' : ¬(pendingBits m ≠ 0 ∧ m.ime = true) := hd
    cases hh : c.regs.halted
    · cases hs : c.regs.stopped
      · have hat : AtFetch c m := ⟨hb.finished, hb.alive, hb.running, hh, hs, hd'⟩
        rw [specStep_instr _ hd hh hs] at hdef ⊢
        cases hi : instrAt c.regs.pc m with
        | none => rw [instrStep_abs_none c.regs m hi] at hdef; exact absurd rfl hdef
        | some i =>
          rw [instrStep_abs_some c.regs m i hi]
          refine ⟨?_, instr_case c m hat hf i hi⟩
          show 0 < cyclesOf i (takenOf i (abs c.regs m))
          rw [takenOf_abs]
          exact (C02.c02_cycles c m i hat hi).1
      · rw [specStep_stopped _ hd hh hs]
        exact ⟨Nat.one_pos, still_case c m hb hf (stopped_cycle _ c m hb hh hs hd')⟩
    · by_cases hp : pending (abs c.regs m) = 0
      · rw [specStep_idle _ hd hh hp]
        exact ⟨Nat.one_pos, still_case c m hb hf (C05.c05_idle_cycle _ c m hb hh hp)⟩
      · rw [specStep_wake _ hd hh hp]
        have hime : m.ime = false := by
          cases h : m.ime
          · rfl
          · exact absurd ⟨hp, h⟩ hd'
        exact ⟨Nat.one_pos, wake_case c m hb hf hh hime hp⟩

/-- C01–C05, one step.  From every boundary state of the model with F's low nibble clear, on every flat
    bus: let `(s', ev, n) = specStep (abs c.regs m)`; unless `ev = undefined`, `n > 0`, the model is NOT at
    a boundary after 1 … n-1 machine cycles, it IS at a boundary (alive, not exited) after exactly `n`,
    F's low nibble is clear again, and the architectural view of the state reached is exactly `s'`. -/
theorem c01_step_refines (c : Cpu) (m : Flat) (hb : Boundary c) (hf : FLow c.regs)
    (hdef : (specStep (abs c.regs m)).2.1 ≠ .undefined) :
    let s' := (specStep (abs c.regs m)).1
    let n := (specStep (abs c.regs m)).2.2
    0 < n ∧
    (∀ j, 0 < j → j < n → (cycles specTables j c m).1.isFinished = false) ∧
    Boundary (cycles specTables n c m).1 ∧
    FLow (cycles specTables n c m).1.regs ∧
    abs (cycles specTables n c m).1.regs (cycles specTables n c m).2 = s' :=
  step_realises c m hb hf hdef

/-! ### whole programs -/

/-- C01–C05 / C02, whole programs.  From every boundary state, for every number `k` of specification
    steps on which no undefined opcode is met: after exactly the SUM of the documented machine-cycle
    counts the model is at a boundary whose architectural view is the `k`-fold iterate of `specStep`. -/
theorem c01_program_refines (k : Nat) (c : Cpu) (m : Flat) (hb : Boundary c) (hf : FLow c.regs)
    (hdef : Defined k (abs c.regs m)) :
    let s' := (specRun k (abs c.regs m)).1
    let n := (specRun k (abs c.regs m)).2
    Boundary (cycles specTables n c m).1 ∧
    FLow (cycles specTables n c m).1.regs ∧
    abs (cycles specTables n c m).1.regs (cycles specTables n c m).2 = s' := by
  induction k generalizing c m with
  | zero => exact ⟨hb, hf, rfl⟩
  | succ k ih =>
    obtain ⟨hd1, hdk⟩ := hdef
    obtain ⟨_, _, hb1, hf1, ha1⟩ := c01_step_refines c m hb hf hd1
    rw [← ha1] at hdk
    have h := ih _ _ hb1 hf1 hdk
    rw [ha1] at h
    show Boundary (cycles specTables ((specStep (abs c.regs m)).2.2 +
          (specRun k (specStep (abs c.regs m)).1).2) c m).1 ∧
      FLow (cycles specTables ((specStep (abs c.regs m)).2.2 +
          (specRun k (specStep (abs c.regs m)).1).2) c m).1.regs ∧
      abs (cycles specTables ((specStep (abs c.regs m)).2.2 +
          (specRun k (specStep (abs c.regs m)).1).2) c m).1.regs
        (cycles specTables ((specStep (abs c.regs m)).2.2 +
          (specRun k (specStep (abs c.regs m)).1).2) c m).2 =
        (specRun k (specStep (abs c.regs m)).1).1
    rw [cycles_add]
    exact h

/-- the total machine-cycle count of `k` steps splits as the first `j` steps plus the rest -/
theorem c01_specRun_add (j k : Nat) (s : St) :
    specRun (j + k) s = ((specRun k (specRun j s).1).1, (specRun j s).2 + (specRun k (specRun j s).1).2) := by
  induction j generalizing s with
  | zero => simp [specRun]
  | succ j ih =>
    rw [Nat.add_right_comm]
    simp only [specRun, ih, Nat.add_assoc]

private theorem defined_le (j k : Nat) (s : St) (h : Defined (j + k) s) : Defined j s := by
  induction j generalizing s with
  | zero => trivial
  | succ j ih =>
    rw [Nat.add_right_comm] at h
    exact ⟨h.1, ih _ h.2⟩

private theorem defined_after (j k : Nat) (s : St) (h : Defined (j + k) s) :
    Defined k (specRun j s).1 := by
  induction j generalizing s with
  | zero => rw [Nat.zero_add] at h; exact h
  | succ j ih =>
    rw [Nat.add_right_comm] at h
    exact ih _ h.2

/-- the boundaries of the model during such a run are exactly the specification's step times: at the
    start time `t_j` of step `j < k` the model is at a boundary showing the `j`-th iterate, and it is at no
    boundary strictly between `t_j` and `t_j +` the cycle count of step `j` -/
theorem c01_program_boundaries (k : Nat) (c : Cpu) (m : Flat) (hb : Boundary c) (hf : FLow c.regs)
    (hdef : Defined k (abs c.regs m)) (j : Nat) (hj : j < k) :
    let sj := specRun j (abs c.regs m)
    Boundary (cycles specTables sj.2 c m).1 ∧
    abs (cycles specTables sj.2 c m).1.regs (cycles specTables sj.2 c m).2 = sj.1 ∧
    ∀ d, 0 < d → d < (specStep sj.1).2.2 → (cycles specTables (sj.2 + d) c m).1.isFinished = false := by
  obtain ⟨e, rfl⟩ : ∃ e, k = j + (e + 1) := ⟨k - j - 1, by omega⟩
  obtain ⟨hbj, hfj, haj⟩ := c01_program_refines j c m hb hf (defined_le j _ _ hdef)
  have hdj := (defined_after j _ _ hdef).1
  refine ⟨hbj, haj, fun d h0 h1 => ?_⟩
  rw [← haj] at hdj h1
  rw [cycles_add]
  exact (c01_step_refines _ _ hbj hfj hdj).2.1 d h0 h1

/-! ### the undefined opcodes -/

/-- the `undefined` event is exactly: no dispatch, running, and the byte at PC is one of the 11
    undefined opcodes -/
theorem c01_undefined_event (s : St) :
    (specStep s).2.1 = .undefined ↔
      ¬(pending s ≠ 0 ∧ s.bus.ime = true) ∧ s.halted = false ∧ s.stopped = false ∧ nextInstr s = none := by
  by_cases hd : pending s ≠ 0 ∧ s.bus.ime = true
  · rw [specStep_dispatch _ hd]
    exact ⟨fun h => Event.noConfusion h, fun h => absurd hd h.1⟩
  · cases hh : s.halted
    · cases hs : s.stopped
      · rw [specStep_instr _ hd hh hs, instrStep_undefined_iff]
        exact ⟨fun h => ⟨hd, rfl, rfl, h⟩, fun h => h.2.2.2⟩
      · rw [specStep_stopped _ hd hh hs]
        exact ⟨fun h => Event.noConfusion h, fun h => Bool.noConfusion h.2.2.1⟩
    · by_cases hp : pending s = 0
      · rw [specStep_idle _ hd hh hp]
        exact ⟨fun h => Event.noConfusion h, fun h => Bool.noConfusion h.2.1⟩
      · rw [specStep_wake _ hd hh hp]
        exact ⟨fun h => Event.noConfusion h, fun h => Bool.noConfusion h.2.1⟩

private theorem cycle_exited (t : Tables) (c : Cpu) (m : Flat) (h : c.regs.exited = true) :
    cycle t c m = (c, m) := by
  simp [cycle, h]

/-- the only deliberate stop: at a boundary where the specification step is `undefined`, the next machine
    cycle sets `exited`, and from then on the model does not move -/
theorem c01_undefined_stops (c : Cpu) (m : Flat) (hb : Boundary c)
    (hu : (specStep (abs c.regs m)).2.1 = .undefined) :
    (cycle specTables c m).1.regs.exited = true ∧
    ∀ n, cycles specTables n (cycle specTables c m).1 (cycle specTables c m).2 = cycle specTables c m := by
  obtain ⟨hd, hh, hs, hi⟩ := (c01_undefined_event _).mp hu
  have hi' : instrAt c.regs.pc m = none := hi
  have hat : AtFetch c m := ⟨hb.finished, hb.alive, hb.running, hh, hs, hd⟩
  have hex : (cycle specTables c m).1.regs.exited = true := by
    rw [(C04.c04_no_dispatch c m hb hh hs hd).2.1]
    unfold stepSub
    rw [fetch_undefined c c.regs m hi', fetch_cycle]
    rfl
  refine ⟨hex, fun n => ?_⟩
  induction n with
  | zero => rfl
  | succ n ih =>
    rw [cycles_succ]
    rw [cycle_exited _ _ _ hex]; exact ih

/-! ### the same statements for the tables regenerated from dispatch.go (`c01_tables : Tables.gen = specTables`) -/

theorem c01_step_refines_gen (c : Cpu) (m : Flat) (hb : Boundary c) (hf : FLow c.regs)
    (hdef : (specStep (abs c.regs m)).2.1 ≠ .undefined) :
    let s' := (specStep (abs c.regs m)).1
    let n := (specStep (abs c.regs m)).2.2
    0 < n ∧
    (∀ j, 0 < j → j < n → (cycles Tables.gen j c m).1.isFinished = false) ∧
    Boundary (cycles Tables.gen n c m).1 ∧
    FLow (cycles Tables.gen n c m).1.regs ∧
    abs (cycles Tables.gen n c m).1.regs (cycles Tables.gen n c m).2 = s' := by
  rw [c01_tables]; exact c01_step_refines c m hb hf hdef

theorem c01_program_refines_gen (k : Nat) (c : Cpu) (m : Flat) (hb : Boundary c) (hf : FLow c.regs)
    (hdef : Defined k (abs c.regs m)) :
    let s' := (specRun k (abs c.regs m)).1
    let n := (specRun k (abs c.regs m)).2
    Boundary (cycles Tables.gen n c m).1 ∧
    FLow (cycles Tables.gen n c m).1.regs ∧
    abs (cycles Tables.gen n c m).1.regs (cycles Tables.gen n c m).2 = s' := by
  rw [c01_tables]; exact c01_program_refines k c m hb hf hdef

theorem c01_program_boundaries_gen (k : Nat) (c : Cpu) (m : Flat) (hb : Boundary c) (hf : FLow c.regs)
    (hdef : Defined k (abs c.regs m)) (j : Nat) (hj : j < k) :
    let sj := specRun j (abs c.regs m)
    Boundary (cycles Tables.gen sj.2 c m).1 ∧
    abs (cycles Tables.gen sj.2 c m).1.regs (cycles Tables.gen sj.2 c m).2 = sj.1 ∧
    ∀ d, 0 < d → d < (specStep sj.1).2.2 → (cycles Tables.gen (sj.2 + d) c m).1.isFinished = false := by
  rw [c01_tables]; exact c01_program_boundaries k c m hb hf hdef j hj

theorem c01_undefined_stops_gen (c : Cpu) (m : Flat) (hb : Boundary c)
    (hu : (specStep (abs c.regs m)).2.1 = .undefined) :
    (cycle Tables.gen c m).1.regs.exited = true ∧
    ∀ n, cycles Tables.gen n (cycle Tables.gen c m).1 (cycle Tables.gen c m).2 = cycle Tables.gen c m := by
  rw [c01_tables]; exact c01_undefined_stops c m hb hu

/-- from power-on: the power-on CPU is at a boundary with F = B0 -/
theorem c01_program_from_reset (k : Nat) (m : Flat) (hdef : Defined k (abs Regs.init m)) :
    abs (cycles Tables.gen (specRun k (abs Regs.init m)).2 Cpu.init m).1.regs
        (cycles Tables.gen (specRun k (abs Regs.init m)).2 Cpu.init m).2 =
      (specRun k (abs Regs.init m)).1 :=
  (c01_program_refines_gen k Cpu.init m ⟨by decide, rfl, rfl⟩ (by decide) hdef).2.2

/-! ### non-vacuity: concrete programs, the model and the specification evaluated independently -/

/-- `HALT ; INC B ; …` at 0x0100, IME clear, Timer and Joypad requested and enabled (the halt bug) -/
def exHaltBug : Flat := ⟨fun a => if a = 0x0100 then 0x76 else 0x04, false, 0x1f, 0x14⟩
/-- `EI ; NOP ; …` at 0x0100, IME clear, Timer requested and enabled -/
def exEiNop : Flat := ⟨fun a => if a = 0x0100 then 0xfb else 0x00, false, 0x1f, 0x04⟩
/-- the undefined opcode 0xD3 everywhere -/
def exUndefined : Flat := ⟨fun _ => 0xd3, false, 0, 0⟩
/-- a halted / a stopped power-on CPU -/
def exHalted : Cpu := { Cpu.init with regs := { Regs.init with halted := true } }
def exStopped : Cpu := { Cpu.init with regs := { Regs.init with stopped := true } }

/-- the hypotheses of `c01_step_refines` / `c01_program_refines` hold at power-on -/
example : Boundary Cpu.init ∧ FLow Cpu.init.regs ∧
    (specStep (abs Cpu.init.regs exHaltBug)).2.1 ≠ .undefined ∧ Defined 3 (abs Cpu.init.regs exHaltBug) ∧
    Defined 3 (abs Cpu.init.regs exEiNop) := by
  refine ⟨⟨?_, ?_, ?_⟩, ?_, ?_, ?_, ?_⟩ <;> decide +kernel

/-- halt bug, specification side: HALT does not idle, INC B is executed twice, 3 machine cycles in all,
    B = 0 + 2, PC has advanced past the two bytes only -/
example : specTrace 3 (abs Regs.init exHaltBug) =
      [.instr .halt, .instr (.inc (.r .b)), .instr (.inc (.r .b))] ∧
    (specRun 3 (abs Regs.init exHaltBug)).2 = 3 ∧
    (specRun 1 (abs Regs.init exHaltBug)).1.haltbug = true ∧
    (specRun 3 (abs Regs.init exHaltBug)).1.b = 2 ∧
    (specRun 3 (abs Regs.init exHaltBug)).1.pc = 0x0102 ∧
    (specRun 3 (abs Regs.init exHaltBug)).1.haltbug = false := by
  decide +kernel

/-- halt bug, model side, evaluated independently: after those 3 machine cycles the model shows the same
    architectural state (what `c01_program_refines` proves for every program) -/
example : (abs (cycles specTables 3 Cpu.init exHaltBug).1.regs (cycles specTables 3 Cpu.init exHaltBug).2).same
      (specRun 3 (abs Regs.init exHaltBug)).1 = true ∧
    (cycles Tables.gen 3 Cpu.init exHaltBug).1.regs.b = 2 := by
  decide +kernel

/-- EI delay, specification side: EI (1 cycle), NOP (1 cycle, IME set by its fetch), then – and only
    then – the Timer interrupt is dispatched (5 cycles): 7 machine cycles, PC = 0x50, return address
    0x0102 on the stack, IME clear, IF acknowledged -/
example : specTrace 3 (abs Regs.init exEiNop) = [.instr .ei, .instr .nop, .dispatch 2] ∧
    (specRun 3 (abs Regs.init exEiNop)).2 = 7 ∧
    (specRun 1 (abs Regs.init exEiNop)).1.bus.ime = false ∧
    (specRun 2 (abs Regs.init exEiNop)).1.bus.ime = true ∧
    (specRun 3 (abs Regs.init exEiNop)).1.pc = 0x0050 ∧
    (specRun 3 (abs Regs.init exEiNop)).1.sp = 0xfffc ∧
    (specRun 3 (abs Regs.init exEiNop)).1.rd 0xfffd = 0x01 ∧
    (specRun 3 (abs Regs.init exEiNop)).1.rd 0xfffc = 0x02 ∧
    (specRun 3 (abs Regs.init exEiNop)).1.bus.ime = false ∧
    (specRun 3 (abs Regs.init exEiNop)).1.bus.ifl = 0x00 := by
  decide +kernel

/-- EI delay, model side, evaluated independently -/
example : (abs (cycles specTables 7 Cpu.init exEiNop).1.regs (cycles specTables 7 Cpu.init exEiNop).2).same
      (specRun 3 (abs Regs.init exEiNop)).1 = true ∧
    (cycles specTables 7 Cpu.init exEiNop).2.read 0xfffd = 0x01 ∧
    (cycles specTables 7 Cpu.init exEiNop).2.read 0xfffc = 0x02 ∧
    (cycles specTables 2 Cpu.init exEiNop).1.isFinished = true ∧
    (cycles specTables 4 Cpu.init exEiNop).1.isFinished = false := by
  decide +kernel

/-- a halted CPU with IME set is woken by a dispatch taking 6 cycles; with IME clear it wakes in one cycle
    without dispatching; with nothing pending it idles; a stopped CPU idles -/
example : (specStep (abs exHalted.regs ⟨fun _ => 0, true, 0x1f, 0x04⟩)).2 = (.dispatch 2, 6) ∧
    (specStep (abs exHalted.regs ⟨fun _ => 0, false, 0x1f, 0x04⟩)).2 = (.wake, 1) ∧
    (specStep (abs exHalted.regs ⟨fun _ => 0, true, 0x1b, 0x04⟩)).2 = (.idle, 1) ∧
    (specStep (abs exStopped.regs ⟨fun _ => 0, false, 0x1f, 0x04⟩)).2 = (.idle, 1) ∧
    Boundary exHalted ∧ Boundary exStopped ∧ FLow exHalted.regs ∧ FLow exStopped.regs := by
  refine ⟨?_, ?_, ?_, ?_, ⟨?_, ?_, ?_⟩, ⟨?_, ?_, ?_⟩, ?_, ?_⟩ <;> decide +kernel

/-- STOP mode as the code has it (and hence the machine): a stopped CPU with IME set still dispatches an
    enabled request (5 cycles), stays `stopped`, and idles at the vector from then on -/
example : specTrace 3 (abs exStopped.regs ⟨fun _ => 0, true, 0x1f, 0x10⟩) = [.dispatch 4, .idle, .idle] ∧
    (specRun 3 (abs exStopped.regs ⟨fun _ => 0, true, 0x1f, 0x10⟩)).1.stopped = true ∧
    (specRun 3 (abs exStopped.regs ⟨fun _ => 0, true, 0x1f, 0x10⟩)).1.pc = 0x0060 ∧
    (cycles Tables.gen 7 exStopped (⟨fun _ => 0, true, 0x1f, 0x10⟩ : Flat)).1.regs.pc = 0x0060 ∧
    (cycles Tables.gen 7 exStopped (⟨fun _ => 0, true, 0x1f, 0x10⟩ : Flat)).1.regs.stopped = true := by
  decide +kernel

/-- the hypothesis of `c01_undefined_stops`: 0xD3 at PC is an `undefined` step, and the model exits -/
example : Boundary Cpu.init ∧ (specStep (abs Cpu.init.regs exUndefined)).2.1 = .undefined ∧
    (cycle Tables.gen Cpu.init exUndefined).1.regs.exited = true := by
  refine ⟨⟨?_, ?_, ?_⟩, ?_, ?_⟩ <;> decide +kernel

end Tetro.C01
