import Tetro.Model.Render
import Tetro.Spec.Render
import Tetro.Lemmas.RenderPixel
import Tetro.Lemmas.RenderTick
/-
C15 – rendered frames equal the DMG composition of VRAM, OAM and registers.

Layers (all `private` except the property statements):
  bits        mask tests of the code  = bit tests of the documentation (brute force over one byte)
  tile fetch  readTilePixel           = Spec.tileColour, and every VRAM index is in range
  map         mapPixel                = Spec.mapColour  (tile map lookup + addressing mode)
  bg / window findBackgroundPixel, windowHit, findWindowPixel = Spec.bgColour, windowCovers, windowColour
  objects     objLoop (first overlapping object in OAM order with an opaque pixel, flags overwritten by
              every visited candidate) = first `hit` in OAM order, by induction over the OAM index list;
              Spec.topObject (ten-per-line selection + X priority) = the same, under the property's
              restrictions `atMostTen` and `orderedByX`
  pixel       c15_pixel: modelPixel = some dmgPixel   (`some` = the code does not panic)
  frame       c15_line, c15_frame: the tick schedule of EndMachineCycle assembles exactly these pixels
-/
namespace Tetro.C15
open Tetro.Model.Render Tetro.Spec.Render

/-- `checkOverlappingSprite` decides exactly "screen line ly meets an 8-line object whose Y byte is Y",
    for every Y byte – in particular for Y in 1..15 (object clipped by the top edge) -/
theorem c15_overlaps (Y : Fin 256) (ly : Nat) :
    overlapTest Y.val ly = (decide ((Y.val : Int) - 16 ≤ (ly : Int)) && decide ((ly : Int) < (Y.val : Int) - 16 + 8)) :=
  overlapTest_eq Y ly

/-! ### the pixel theorem -/

/-- C15, pixel level.  For every scene that meets the property's restrictions on line y (LCD and background
    enabled, 8x8 objects, window off or WX ≥ 7, at most ten objects on the line, those objects in X order
    in OAM) and every screen pixel, `renderPixel` – with `spriteOverlaps` as evaluated for line y – does not
    panic (`some`) and writes exactly the shade of the DMG composition. VRAM and OAM contents are arbitrary. -/
theorem c15_pixel (s : Scene) (x y : Nat) (hx : x < 160) (hy : y < 144)
    (hr : regsInProperty s) (h10 : atMostTen s y) (hsort : orderedByX s y) :
    modelPixel s x y = some (dmgPixel s x y) := by
  obtain ⟨_, h0, h8, hw⟩ := hr
  unfold modelPixel pixelWith dmgPixel
  rw [topObject_eq s x y h10 hsort, spritesEnabled_eq, h0]
  rw [bgWin_eq s x y (by omega) (by omega) h0 hw]
  have hcle : bgWinColour s x y ≤ 3 := by
    unfold bgWinColour windowColour bgColour mapColour
    repeat' split
    all_goals first | omega | exact tileColour_le _ _ _ _
  cases h1 : lcdcBit s 1
  · -- objects disabled
    simp [bgShade_eq s _ hcle]
  · obtain ⟨r, hr, hm⟩ := objLoop_spec s x y hx hy h8 (List.range 40)
      (fun i hi => List.mem_range.mp hi) {} rfl
    simp only [if_true, hr, Option.bind_some, true_and]
    cases hf : (List.range 40).find? (hit s x y) with
    | none =>
      rw [hf] at hm
      simp only [] at hm
      simp [hm, bgShade_eq s _ hcle]
    | some i =>
      rw [hf] at hm
      simp only [] at hm
      subst hm
      have hh := List.find?_some hf
      unfold hit at hh
      simp only [Bool.and_eq_true, bne_iff_ne, ne_eq] at hh
      have hpos : 1 ≤ (accOf s x y i).pixel := by unfold accOf; simp only []; omega
      have hle : (accOf s x y i).pixel ≤ 3 := by
        unfold accOf objColour; exact tileColour_le _ _ _ _
      have hsh := objShade_eq s (accOf s x y i) hpos hle
      by_cases hb : (obj s i).attr.testBit 7 = true
      · have hbe : (accOf s x y i).behind = true := hb
        by_cases hc : bgWinColour s x y = 0
        · have c1 : ¬ ((accOf s x y i).pixel > 0 ∧ (accOf s x y i).behind = false) := by simp [hbe]
          have c2 : (bgWinColour s x y = 0 ∧ (accOf s x y i).pixel ≠ 0 ∧ (accOf s x y i).behind = true) :=
            ⟨hc, by omega, hbe⟩
          have c3 : ¬ ((obj s i).attr.testBit 7 = true ∧ bgWinColour s x y ≠ 0) := by simp [hc]
          simp only [if_neg c1, if_pos c2, if_neg c3, hsh]
          rfl
        · have c1 : ¬ ((accOf s x y i).pixel > 0 ∧ (accOf s x y i).behind = false) := by simp [hbe]
          have c2 : ¬ (bgWinColour s x y = 0 ∧ (accOf s x y i).pixel ≠ 0 ∧ (accOf s x y i).behind = true) := by
            simp [hc]
          have c3 : ((obj s i).attr.testBit 7 = true ∧ bgWinColour s x y ≠ 0) := ⟨hb, hc⟩
          simp only [if_neg c1, if_neg c2, if_pos c3, bgShade_eq s _ hcle]
      · have hbe : (accOf s x y i).behind = false := by
          show (obj s i).attr.testBit 7 = false
          simpa using hb
        have c1 : ((accOf s x y i).pixel > 0 ∧ (accOf s x y i).behind = false) := ⟨by omega, hbe⟩
        have c3 : ¬ ((obj s i).attr.testBit 7 = true ∧ bgWinColour s x y ≠ 0) := by simp [hb]
        simp only [if_pos c1, if_neg c3, hsh]
        rfl

/-- `renderPixel` never panics: for EVERY scene (no restriction at all), every content of `spriteOverlaps`
    and every pair of 8-bit coordinates all VRAM / OAM / palette / pattern indices are in range. -/
theorem c15_no_panic (s : Scene) (ov : Nat → Bool) (x y : Nat) : ∃ v, pixelWith s ov x y = some v :=
  pixelWith_some s ov x y

/-- the executable form of the ordering restriction (used by the driver to tag lines) is the stated one -/
theorem c15_ordered_iff (s : Scene) (y : Nat) : orderedByXb s y = true ↔ orderedByX s y := by
  unfold orderedByXb orderedByX
  simp only [List.all_eq_true, List.mem_range, Bool.or_eq_true, Bool.not_eq_true', Bool.and_eq_false_iff,
    decide_eq_true_eq]
  constructor
  · intro h i j hij hj hi hjl
    rcases h j hj i hij with h | h
    · rcases h with h | h
      · rw [hi] at h; cases h
      · rw [hjl] at h; cases h
    · exact h
  · intro h j hj i hij
    cases hi : onLine s (obj s i) y
    · exact Or.inl (Or.inl rfl)
    · cases hjl : onLine s (obj s j) y
      · exact Or.inl (Or.inr rfl)
      · exact Or.inr (h i j hij hj hi hjl)

/-- C15, line level: overlaps evaluated for line y, then its 160 pixels = the DMG composition of that line -/
theorem c15_line (s : Scene) (y : Nat) (hy : y < 144)
    (hr : regsInProperty s) (h10 : atMostTen s y) (hsort : orderedByX s y) :
    renderLine s y = (List.range 160).map fun x => some (dmgPixel s x y) := by
  unfold renderLine
  apply List.map_congr_left
  intro x hx
  exact c15_pixel s x y (List.mem_range.mp hx) hy hr h10 hsort

/-- C15, frame assembly (tick level).  With the scene held constant and the LCD on, run EndMachineCycle from
    any state at the start of line 0 (tick counter 0; mode 1 = coming from v-blank, or mode 2 = just switched
    on, in which case the first line is two ticks short) – whatever `spriteOverlaps` and the old frame contain.
    Then no call panics, after one frame (17556 calls, 17554 after switch-on) the counter is 0 again in mode 1
    (so the statement applies to every following frame as well), and every pixel of the emitted frame is
    `modelPixel`: all 40 objects were tested against line y at ticks 0..19 of line y, before the first pixel
    of line y was rendered at tick 20. -/
theorem c15_frame (s : Scene) (hon : lcdcBit s 7 = true) (st0 : PState)
    (h0 : st0.ticks = 0) (hm : st0.mode = 1 ∨ st0.mode = 2) :
    ∃ st, run s (if st0.firstLine then 17554 else 17556) st0 = some st ∧
      st.ticks = 0 ∧ st.mode = 1 ∧ st.firstLine = false ∧
      ∀ x y, x < 160 → y < 144 → getPix st.frame x y = modelPixel s x y := by
  have hen : enabled s = true := by rw [enabled_eq]; exact hon
  have inv0 : TickInv s st0.firstLine 0 st0 := by
    constructor
    · rw [h0]
    · rfl
    · intro _; omega
    · unfold modeOK; rw [if_pos rfl]; exact hm
    · intro i _ _ h; omega
    · intro x y _ _ h; omega
  have hN : cnt st0.firstLine (if st0.firstLine then 17554 else 17556) = 17556 := by
    cases st0.firstLine <;> simp [cnt]
  obtain ⟨st, hr, inv⟩ := run_inv s hen st0.firstLine st0 inv0 (if st0.firstLine then 17554 else 17556)
    (by rw [hN]; omega)
  rw [hN] at inv
  refine ⟨st, hr, ?_, ?_, ?_, ?_⟩
  · rw [inv.hticks]
  · have := inv.hmode
    unfold modeOK at this
    rw [if_neg (by omega), if_neg (by omega), if_neg (by omega)] at this
    exact this
  · rw [inv.hfl]; cases st0.firstLine <;> simp
  · intro x y hx hy
    exact inv.hfr x y hx hy (by omega)

/-- C15 as stated: for a scene that meets the property's restrictions on every line, the frame emitted after
    one full frame of EndMachineCycle calls is the DMG composition, pixel for pixel. -/
theorem c15_frame_dmg (s : Scene) (hr : regsInProperty s)
    (hlines : ∀ y, y < 144 → atMostTen s y ∧ orderedByX s y)
    (st0 : PState) (h0 : st0.ticks = 0) (hm : st0.mode = 1 ∨ st0.mode = 2) :
    ∃ st, run s (if st0.firstLine then 17554 else 17556) st0 = some st ∧
      ∀ x y, x < 160 → y < 144 → getPix st.frame x y = some (dmgPixel s x y) := by
  obtain ⟨st, hrun, _, _, _, hpix⟩ := c15_frame s hr.1 st0 h0 hm
  refine ⟨st, hrun, ?_⟩
  intro x y hx hy
  rw [hpix x y hx hy]
  exact c15_pixel s x y hx hy hr (hlines y hy).1 (hlines y hy).2

/-! ### non-vacuity: a concrete scene inside the property's restrictions that exercises every layer -/

/-- LCDC=F3 (LCD, window map 9C00, window, 8000 addressing, BG map 9800, 8x8, objects, BG), window at
    screen (80,72); tile 0 blank, tile 1 solid colour 3, tile 2 = columns 1,1,3,3,2,2,0,0 on every row except
    row 7 which is blank; BG map alternates tiles 0/1 by column, window map is all tile 2;
    objects: #0 Y=12 X=20 (clipped by the top edge), #1 Y=40 X=4 x-flipped (clipped by the left edge),
    #2 Y=60 X=30 solid, OBP1, behind the background, #3 Y=100 X=100 y-flipped, OBP1, over the window,
    #4 Y=140 X=164 (clipped by the right edge), #5 Y=156 X=90 (clipped by the bottom edge) -/
def exScene : Scene :=
  { lcdc := 0xF3, scx := 0, scy := 0, wx := 87, wy := 72, bgp := 0xE5, obp0 := 0xD2, obp1 := 0x1B,
    vram := fun i =>
      if 16 ≤ i ∧ i < 32 then 0xFF
      else if 32 ≤ i ∧ i < 46 then (if i % 2 = 0 then 0xF0 else 0x3C)
      else if 0x1800 ≤ i ∧ i < 0x1C00 then (if i % 2 = 0 then 0 else 1)
      else if 0x1C00 ≤ i ∧ i < 0x2000 then 2
      else 0,
    oam := fun i =>
      match i with
      | 0 => 12 | 1 => 20 | 2 => 2 | 3 => 0x00
      | 4 => 40 | 5 => 4 | 6 => 2 | 7 => 0x20
      | 8 => 60 | 9 => 30 | 10 => 1 | 11 => 0x90
      | 12 => 100 | 13 => 100 | 14 => 2 | 15 => 0x50
      | 16 => 140 | 17 => 164 | 18 => 2 | 19 => 0x00
      | 20 => 156 | 21 => 90 | 22 => 2 | 23 => 0x00
      | _ => 0 }

/-- the scene satisfies the hypotheses of `c15_pixel` / `c15_frame_dmg` on every line -/
example : regsInProperty exScene := by decide
example : ∀ y, y < 144 → atMostTen exScene y ∧ orderedByXb exScene y = true := by decide +kernel
/-- object 0 (Y=12) is met by lines 0..3 although its top is above the screen; object 5 by lines 140..143 -/
example : modelOverlaps exScene 0 0 = true ∧ modelOverlaps exScene 3 0 = true ∧ modelOverlaps exScene 4 0 = false ∧
    modelOverlaps exScene 139 5 = false ∧ modelOverlaps exScene 143 5 = true := by decide +kernel
/-- top-clipped object: line 0 shows tile row 4 (colours 1,1,3,3,2,2 through OBP0=D2, then BG colour 0) -/
example : (List.range 8).map (fun k => modelPixel exScene (12 + k) 0)
    = [some 0, some 0, some 3, some 3, some 1, some 1, some 1, some 1] := by decide +kernel
example : (List.range 8).map (fun k => dmgPixel exScene (12 + k) 0) = [0, 0, 3, 3, 1, 1, 1, 1] := by decide +kernel
/-- left-clipped, x-flipped object at X=4: only its last four columns (tile columns 3,2,1,0) are on screen -/
example : (List.range 5).map (fun k => modelPixel exScene k 24)
    = [some 3, some 3, some 0, some 0, some 1] := by decide +kernel
/-- behind-background object (OBP1: colour 3 → shade 0): visible over BG colour 0 (x=22,23), hidden by BG
    colour 3 (x=24..29); x=21 is plain BG colour 0 (shade 1) -/
example : (List.range 9).map (fun k => modelPixel exScene (21 + k) 44)
    = [some 1, some 0, some 0, some 3, some 3, some 3, some 3, some 3, some 3] := by decide +kernel
/-- window from (80,72): BG tile 1 up to x=79, then window tile 2 -/
example : (List.range 8).map (fun k => modelPixel exScene (76 + k) 72)
    = [some 3, some 3, some 3, some 3, some 1, some 1, some 3, some 3] := by decide +kernel
/-- y-flipped OBP1 object over the window: its line 91 shows tile row 0 (x=94,95: colour 3 → shade 0) while its
    line 84 shows the blank tile row 7, so the window is seen through it -/
example : (List.range 6).map (fun k => modelPixel exScene (92 + k) 91)
    = [some 2, some 2, some 0, some 0, some 1, some 1] := by decide +kernel
example : (List.range 6).map (fun k => modelPixel exScene (92 + k) 84)
    = [some 2, some 2, some 1, some 1, some 1, some 1] := by decide +kernel
/-- right-edge object (X=164: columns 0..3 on screen) and bottom-edge object (Y=156: rows 0..3 on screen) -/
example : (List.range 6).map (fun k => modelPixel exScene (154 + k) 124)
    = [some 3, some 3, some 0, some 0, some 3, some 3] := by decide +kernel
example : (List.range 10).map (fun k => modelPixel exScene (80 + k) 143)
    = [some 1, some 1, some 0, some 0, some 3, some 3, some 1, some 1, some 1, some 1] := by decide +kernel
/-- and on whole lines the model agrees with the specification, as `c15_pixel` says -/
example : ∀ x, x < 160 → modelPixel exScene x 44 = some (dmgPixel exScene x 44) := by decide +kernel
example : ∀ x, x < 160 → modelPixel exScene x 91 = some (dmgPixel exScene x 91) := by decide +kernel
/-- the palette is selected by attribute bit 4 (object 3 has attr 0x50: bit 4 set, bit 3 clear): the DMG shows
    colour 3 through OBP1 (shade 0); a renderer that looked at bit 3 – the behaviour of /repo before commit
    95a6b76 – would take OBP0 and show shade 3 -/
example : dmgPixel exScene 94 91 = shade exScene.obp1.val 3 ∧ shade exScene.obp1.val 3 = 0 ∧
    shade exScene.obp0.val 3 = 3 := by decide +kernel
/-- start states of `c15_frame`: the state `ppu.enable()` leaves (arbitrary overlaps and old frame) -/
example (ov : Vector Bool 40) (fr : Vector Nat (160 * 144)) :
    (afterEnable ov fr).ticks = 0 ∧ ((afterEnable ov fr).mode = 1 ∨ (afterEnable ov fr).mode = 2) :=
  ⟨rfl, Or.inr rfl⟩

end Tetro.C15
