import Tetro.Proofs.WholeNoCrash
import Tetro.Proofs.C17Oam
import Tetro.Proofs.C16
import Tetro.Lemmas.BoardOam
import Tetro.Lemmas.GhostBus
import Tetro.Lemmas.CpuAfterCorrupt
/-
C17 on the WHOLE-machine model (`Model/Whole.lean`): OAM is altered only by CPU writes to FE00–FE9F, by OAM DMA, or
by the mode-2 corruption, and the corruption window is open only while the LCD is on and in mode 2 – stated for
everything the whole machine can do, not per component.

1. WINDOW.  `OamWindowInv b` : `oam.corrupt → LCD on ∧ mode 2` (the OAM unit's own flag against the LCD model's own
   fields).  It holds after `construct` and is preserved by EVERY step of a machine cycle – each of the nine
   CPU-side bus operations at any address with any value (incl. LCDC/STAT/LY/LYC writes), `ppuStep`, `dmaStep`,
   `apuStep`, `timerStep` – hence by `Whole.cycle` and `Whole.run n` (`c17_whole_window_*`,
   `c17_whole_corrupt_implies_mode2`, `c17_whole_off_not_corrupt`).  This is `C17Lcd.c17_corrupt_implies_mode2`
   lifted from schedules of PPU operations to the whole machine.  No other invariant is needed for it.

2. FRAME on the board (`c17_whole_frame`): with the window closed and no trigger pending (`Quiet`, from C17Oam),
   every board operation (`BoardOp`: bus read, bus write, OAM-bug trigger, `Corrupt()`, IME/IF updates,
   `ppu/mapper/audio/timer.EndMachineCycle`) leaves all 160 bytes unchanged, except a bus write to FE00–FE9F
   (exactly that byte) and a DMA tick while a transfer runs (at most the byte it stores).  The byte effect of a
   write (`c17_whole_write_bytes`) holds in EVERY state.  The read-blocking part of C16 on the board is
   `c16_whole_block`.  (NOTE: in the model, as in oam.go, a CPU WRITE to FE00–FE9F is NOT blocked while a DMA
   transfer runs – C16 only speaks about reads; see `c16_whole_write_not_blocked`.)

3. MACHINE CYCLE (`c17_whole_cycle`).  "The CPU wrote address a in this cycle" is expressed by running the SAME
   CPU model on the board wrapped with a ghost write log (`Lemmas/GhostBus.lean`; `cpuWrites w`; the wrapper does
   not interfere: `cpuWrites_faithful`; what it logs are the write addresses of the one micro-operation executed in
   the cycle: `cpuWrites_addrs`).  If the window is closed at the start of the cycle, no transfer runs,
   and the program in this cycle neither writes FF46 nor switches the LCD on, then every OAM byte that differs
   after the cycle was the target of a CPU bus write in this cycle.

4. LCD OFF (`c17_whole_lcd_off`, `c17_whole_lcd_off_reachable`): from a state with the LCD off and no transfer
   running, as long as the program keeps the LCD off and starts no transfer, after any number of cycles OAM
   differs only at addresses the CPU wrote.

`WholeOk` is NOT needed for 1–3 (a Go panic leaves the machine record as it was); it is used in `OamOk`, the
invariant of reachable states (window invariant + no trigger pending at cycle boundaries), which gives 4 its
hypothesis-free form for constructed machines.
-/
namespace Tetro.C17Whole
open Tetro.Model Tetro.Model.Whole Tetro.Model.Machine Tetro.Model.Oam Tetro.Model.Decoder
open Tetro.WholeProofs Tetro.WholeNoCrash Tetro.BoardOam Tetro.GhostBus Tetro.C17

/-! ## 1. the window is open only while the LCD is on and in mode 2 -/

/-- the OAM unit's corruption window is open only while the LCD is on and the PPU is in mode 2 -/
def OamWindowInv (b : Board) : Prop :=
  b.m.oam.corrupt = true → b.m.ppu.enabled = true ∧ b.m.ppu.mode = 2

/-- the same on the two components (what the steps are proved about) -/
private def Win (o : Oam) (p : Lcd.Ppu) : Prop := o.corrupt = true → p.enabled = true ∧ p.mode = 2

private theorem writeFlags_corrupt (s : Oam) : (writeFlags s).corrupt = s.corrupt := by
  unfold writeFlags
  split
  · split <;> rfl
  · rfl

private theorem cpuWrite_corrupt (s : Oam) (a v : Nat) (h : 0xFE00 ≤ a ∧ a < 0xFF00) :
    ((cpuWrite s (BitVec.ofNat 16 a) (BitVec.ofNat 8 v)).getD s).corrupt = s.corrupt := by
  obtain ⟨o, ho, f1, _⟩ := cpuWrite_fields s a v h
  rw [ho]
  show o.corrupt = _
  rw [f1, writeFlags_corrupt]

private theorem win_lcdc (o : Oam) (p : Lcd.Ppu) (v : Nat) (h : Win o p) :
    Win (oamAfterLcdc p (v.testBit 7) o) (Lcd.wLCDC p v) := by
  unfold Win oamAfterLcdc Lcd.wLCDC Lcd.lcdcSwitch at *
  by_cases h1 : v.testBit 7 = true ∧ p.enabled = false
  · rw [if_pos h1, if_pos h1]
    intro _
    exact ⟨rfl, rfl⟩
  · rw [if_neg h1, if_neg h1]
    by_cases h2 : v.testBit 7 = false ∧ p.enabled = true
    · rw [if_pos h2, if_pos h2]
      intro hc
      cases hc
    · rw [if_neg h2, if_neg h2]
      exact h

private theorem win_write (m : Machine) (a v : Nat) (h : Win m.oam m.ppu) :
    Win (oamAfterWrite m a v) (ppuAfterWrite m a v) := by
  unfold oamAfterWrite ppuAfterWrite
  by_cases h1 : 0xFE00 ≤ a ∧ a < 0xFF00
  · rw [if_pos h1, if_neg (by omega), if_neg (by omega), if_neg (by omega), if_neg (by omega)]
    intro hc
    rw [cpuWrite_corrupt _ _ _ h1] at hc
    exact h hc
  · rw [if_neg h1]
    by_cases h2 : a = 0xFF40
    · rw [if_pos h2, if_pos h2]
      exact win_lcdc _ _ _ h
    · rw [if_neg h2, if_neg h2]
      by_cases h3 : a = 0xFF46
      · rw [if_pos h3, if_neg (by omega), if_neg (by omega), if_neg (by omega)]
        exact h
      · rw [if_neg h3]
        split
        · exact h
        · split
          · exact h
          · split
            · exact h
            · exact h

private theorem swCorrupt_mode2 (m t : Nat) (c : Bool) (h : c = true → m = 2)
    (hs : Lcd.swCorrupt m t c = true) : Lcd.nextMode m t = 2 := by
  unfold Lcd.swCorrupt at hs
  unfold Lcd.nextMode
  by_cases h2 : m = 2
  · rw [if_pos h2] at hs ⊢
    by_cases h20 : t % 114 = 20
    · rw [if_pos h20] at hs; cases hs
    · rw [if_neg h20]
  · rw [if_neg h2] at hs ⊢
    have hc : c = false := by
      cases c
      · rfl
      · exact absurd (h rfl) h2
    subst hc
    by_cases h3 : m = 3
    · rw [if_pos h3] at hs; cases hs
    · rw [if_neg h3] at hs ⊢
      by_cases h0 : m = 0
      · rw [if_pos h0] at hs ⊢
        by_cases ht : t % 114 = 0
        · rw [if_pos ht] at hs ⊢
          by_cases hl : t / 114 % 256 = 144
          · rw [if_pos hl] at hs; cases hs
          · rw [if_neg hl]
        · rw [if_neg ht] at hs; cases hs
      · rw [if_neg h0] at hs ⊢
        by_cases ht : t = 0
        · rw [if_pos ht]
        · rw [if_neg ht] at hs; cases hs

private theorem win_ppuTick (m m' : Machine) (hm : ppuTick m = some m') (h : Win m.oam m.ppu) : Win m'.oam m'.ppu := by
  rcases ppuTick_cases m m' hm with ⟨_, e1, e2⟩ | ⟨hen, e1, e2⟩
  · rw [e1, e2]; exact h
  · rw [e1, e2]
    intro hc
    rw [(oamAfterTick_fields _ _).2.2.2.2.2.2] at hc
    refine ⟨hen, ?_⟩
    exact swCorrupt_mode2 _ _ _ (fun hcc => (h hcc).2) hc

private theorem win_dma (arms : List Arm) (m m' : Machine) (hm : endMachineCycle arms m = some m')
    (h : Win m.oam m.ppu) : Win m'.oam m'.ppu := by
  obtain ⟨e1, rd, e2⟩ := endMachineCycle_oam arms m m' hm
  have := (tickDMA_shape e2).2.2.1
  unfold Win
  rw [e1, this]
  exact h

/-- **window, bus read**: at any address -/
theorem c17_whole_window_read (b : Board) (a : Nat) (h : OamWindowInv b) : OamWindowInv (b.read a).2 := by
  obtain ⟨e1, e2⟩ := board_read_oam b a
  unfold OamWindowInv
  rw [e1]
  rcases e2 with e | ⟨_, _, e⟩ <;> rw [e] <;> exact h

/-- **window, bus write**: at any address with any value – LCDC, STAT, LY, LYC, DMA, OAM included -/
theorem c17_whole_window_write (b : Board) (a v : Nat) (ha : a < 65536) (h : OamWindowInv b) :
    OamWindowInv (b.write a v) := by
  unfold OamWindowInv
  rw [board_write_oam b a v ha, board_write_ppu b a v ha]
  exact win_write b.m a v h

/-- **window, OAM-bug trigger** (16-bit INC/DEC, PUSH/POP) -/
theorem c17_whole_window_trigger (b : Board) (a : Cpu.Word) (h : OamWindowInv b) :
    OamWindowInv (b.setOam (triggerWriteCorruption b.m.oam a)) := by
  have e : (triggerWriteCorruption b.m.oam a).corrupt = b.m.oam.corrupt := by
    unfold triggerWriteCorruption
    split
    · rfl
    · split <;> rfl
  intro hc
  exact h (e ▸ hc)

/-- **window, `Corrupt()`** -/
theorem c17_whole_window_corrupt (b : Board) (h : OamWindowInv b) : OamWindowInv b.corrupt := by
  rcases board_corrupt_m b with e | e | ⟨o, ho, e⟩
  · rw [e]; exact h
  · rw [e]; exact h
  · rw [e]
    have : o.corrupt = b.m.oam.corrupt := by
      rcases corruptStep_shape ho with ⟨_, _, e⟩ | ⟨_, m, e⟩ <;> rw [e]
    intro hc
    exact h (this ▸ hc)

/-- **window, IME / IF updates** -/
theorem c17_whole_window_setIntr (b : Board) (i : Intr) (h : OamWindowInv b) : OamWindowInv (b.setIntr i) := h

/-- **window, `ppu.EndMachineCycle`**: the mode switch opens the window exactly when it enters mode 2 -/
theorem c17_whole_window_ppuStep (b : Board) (h : OamWindowInv b) : OamWindowInv b.ppuStep := by
  rcases board_ppuStep_m b with e | e
  · unfold OamWindowInv; rw [e]; exact h
  · exact win_ppuTick _ _ e h

/-- **window, `mapper.EndMachineCycle`** (DMA tick with its bus read, RTC tick) -/
theorem c17_whole_window_dmaStep (b : Board) (h : OamWindowInv b) : OamWindowInv b.dmaStep := by
  rcases board_dmaStep_m b with e | e
  · unfold OamWindowInv; rw [e]; exact h
  · exact win_dma _ _ _ e h

/-- **window, `audio.EndMachineCycle`** -/
theorem c17_whole_window_apuStep (b : Board) (h : OamWindowInv b) : OamWindowInv b.apuStep := by
  unfold OamWindowInv; rw [apuStep_m]; exact h

/-- **window, `timer.EndMachineCycle`** -/
theorem c17_whole_window_timerStep (b : Board) (h : OamWindowInv b) : OamWindowInv b.timerStep := h

private theorem guard_pres (P : Board → Prop) (f : Board → Board) (hf : ∀ b, P b → P (f b)) (b : Board) (h : P b) :
    P (Board.guard f b) := by
  unfold Board.guard
  split
  · exact h
  · exact hf b h

private theorem endCycle_pres (P : Board → Prop) (h1 : ∀ b, P b → P b.ppuStep) (h2 : ∀ b, P b → P b.dmaStep)
    (h3 : ∀ b, P b → P b.apuStep) (h4 : ∀ b, P b → P b.timerStep) (b : Board) (h : P b) : P b.endCycle := by
  unfold Board.endCycle
  exact guard_pres P _ h4 _ (guard_pres P _ h3 _ (guard_pres P _ h2 _ (guard_pres P _ h1 _ h)))

/-- **window, the CPU's part of a machine cycle**: whatever instruction is executing -/
theorem c17_whole_window_cpu (c : Cpu.Cpu) (b : Board) (h : OamWindowInv b) :
    OamWindowInv (Cpu.cycle Cpu.Tables.gen c b).2 := by
  refine Tetro.CpuBusInv.cycle_preserves OamWindowInv ?_ ?_ ?_ ?_ ?_ ?_ _ _ _ h
  · intro m a hm; exact c17_whole_window_read m a.toNat hm
  · intro m a v hm; exact c17_whole_window_write m a.toNat v.toNat a.isLt hm
  · intro m a hm; exact c17_whole_window_trigger m a hm
  · intro m hm; exact c17_whole_window_corrupt m hm
  · intro m v hm; exact c17_whole_window_setIntr m _ hm
  · intro m k hm; exact c17_whole_window_setIntr m _ hm

/-- **window, the four calls after the CPU's** -/
theorem c17_whole_window_endCycle (b : Board) (h : OamWindowInv b) : OamWindowInv b.endCycle :=
  endCycle_pres OamWindowInv c17_whole_window_ppuStep c17_whole_window_dmaStep c17_whole_window_apuStep
    c17_whole_window_timerStep b h

/-- a predicate on the board that the CPU's part and the four end-of-cycle calls preserve is preserved by
    a machine cycle -/
private theorem cycle_pres (P : Board → Prop) (hc : ∀ c b, P b → P (Cpu.cycle Cpu.Tables.gen c b).2)
    (he : ∀ b, P b → P b.endCycle) (w : Whole) (h : P w.b) : P w.cycle.b := by
  cases hs : w.stopped
  · rw [whole_cycle_order w hs]
    have h1 : P (afterCpu w).2 := hc w.cpu w.b h
    split
    · exact h1
    · exact he _ h1
  · rw [whole_cycle_stopped w hs]; exact h

/-- **window, a machine cycle** – every state, whatever the guest program does -/
theorem c17_whole_window_cycle (w : Whole) (h : OamWindowInv w.b) : OamWindowInv w.cycle.b :=
  cycle_pres OamWindowInv c17_whole_window_cpu c17_whole_window_endCycle w h

/-- **window, any number of machine cycles** -/
theorem c17_whole_window_run (n : Nat) (w : Whole) (h : OamWindowInv w.b) : OamWindowInv (Whole.run n w).b := by
  induction n generalizing w with
  | zero => exact h
  | succ n ih => exact ih w.cycle (c17_whole_window_cycle w h)

/-- **window, power-on**: `ppu.New` switches the LCD on in mode 2 and opens the window -/
theorem c17_whole_window_construct (img : Cart.Image) (wr au : Bool) (w : Whole)
    (h : Whole.construct img wr au = some w) : OamWindowInv w.b := by
  unfold Whole.construct at h
  rw [Option.map_eq_some_iff] at h
  obtain ⟨c, _, rfl⟩ := h
  intro _
  exact ⟨rfl, rfl⟩

/-- **C17 (window) for the whole machine.**  For every image the loader accepts and every number of machine
    cycles of whatever program: the corruption window is open only while the LCD is on and in mode 2 … -/
theorem c17_whole_corrupt_implies_mode2 (img : Cart.Image) (wr au : Bool) (w : Whole)
    (h : Whole.construct img wr au = some w) (n : Nat) :
    (Whole.run n w).b.m.oam.corrupt = true →
      (Whole.run n w).b.m.ppu.enabled = true ∧ (Whole.run n w).b.m.ppu.mode = 2 :=
  c17_whole_window_run n w (c17_whole_window_construct img wr au w h)

/-- … so with the LCD off – however and whenever the program switched it off – the window is closed. -/
theorem c17_whole_off_not_corrupt (img : Cart.Image) (wr au : Bool) (w : Whole)
    (h : Whole.construct img wr au = some w) (n : Nat) (hoff : (Whole.run n w).b.m.ppu.enabled = false) :
    (Whole.run n w).b.m.oam.corrupt = false := by
  cases hc : (Whole.run n w).b.m.oam.corrupt
  · rfl
  · have := (c17_whole_corrupt_implies_mode2 img wr au w h n hc).1
    rw [hoff] at this; cases this

/-! ## 1b. no trigger is pending at a cycle boundary (reachable states) -/

/-- `doubleWrite` is only ever set together with `write` (so `Corrupt()`, which looks at `read`/`write`, never
    leaves a lone `doubleWrite` behind) -/
def DoubleInv (b : Board) : Prop := b.m.oam.doubleWrite = true → b.m.oam.write = true

/-- no read/write trigger pending (or the board has panicked) -/
def Settled (b : Board) : Prop := (b.m.oam.read = false ∧ b.m.oam.write = false) ∨ b.crashed = true

private def Dbl (o : Oam) : Prop := o.doubleWrite = true → o.write = true

private theorem dbl_writeFlags (s : Oam) (h : Dbl s) : Dbl (writeFlags s) := by
  unfold writeFlags
  split
  · split
    · rename_i hw; intro _; exact hw
    · intro _; rfl
  · exact h

private theorem dbl_write (m : Machine) (a v : Nat) (h : Dbl m.oam) : Dbl (oamAfterWrite m a v) := by
  unfold oamAfterWrite
  split
  · rename_i h1
    obtain ⟨o, ho, _, _, f3, f4, _⟩ := cpuWrite_fields m.oam a v h1
    rw [ho]
    show Dbl o
    unfold Dbl
    rw [f3, f4]
    exact dbl_writeFlags _ h
  · split
    · unfold oamAfterLcdc
      split
      · exact h
      · split <;> exact h
    · split <;> exact h

private theorem double_cpu (c : Cpu.Cpu) (b : Board) (h : DoubleInv b) : DoubleInv (Cpu.cycle Cpu.Tables.gen c b).2 := by
  refine Tetro.CpuBusInv.cycle_preserves DoubleInv ?_ ?_ ?_ ?_ ?_ ?_ _ _ _ h
  · intro m a hm
    show DoubleInv (m.read a.toNat).2
    rcases (board_read_oam m a.toNat).2 with e | ⟨_, _, e⟩ <;> unfold DoubleInv <;> rw [e] <;> exact hm
  · intro m a v hm
    show DoubleInv (m.write a.toNat v.toNat)
    unfold DoubleInv
    rw [board_write_oam m _ _ a.isLt]
    exact dbl_write m.m _ _ hm
  · intro m a hm
    show Dbl (triggerWriteCorruption m.m.oam a)
    unfold triggerWriteCorruption
    split
    · exact hm
    · split
      · rename_i hw; intro _; exact hw
      · intro _; rfl
  · intro m hm
    show DoubleInv m.corrupt
    rcases board_corrupt_m m with e | e | ⟨o, ho, e⟩
    · rw [e]; exact hm
    · rw [e]; exact hm
    · rw [e]
      rcases corruptStep_shape ho with ⟨_, _, e⟩ | ⟨_, x, e⟩
      · rw [e]; exact hm
      · rw [e]; intro hd; cases hd
  · intro m v hm; exact hm
  · intro m k hm; exact hm

/-- the OAM-bug flags and the DMA engine after `ppu.EndMachineCycle`: only the window flag can differ -/
private theorem ppuStep_flags (b : Board) :
    b.ppuStep.m.oam.oam = b.m.oam.oam ∧ b.ppuStep.m.oam.read = b.m.oam.read ∧
    b.ppuStep.m.oam.write = b.m.oam.write ∧ b.ppuStep.m.oam.doubleWrite = b.m.oam.doubleWrite ∧
    b.ppuStep.m.oam.dmaRunning = b.m.oam.dmaRunning ∧ b.ppuStep.m.oam.dmaCycle = b.m.oam.dmaCycle ∧
    (b.m.ppu.enabled = false → b.ppuStep.m.oam = b.m.oam ∧ b.ppuStep.m.ppu = b.m.ppu) := by
  rcases board_ppuStep_m b with e | e
  · rw [e]; exact ⟨rfl, rfl, rfl, rfl, rfl, rfl, fun _ => ⟨rfl, rfl⟩⟩
  · rcases ppuTick_cases _ _ e with ⟨_, e1, e2⟩ | ⟨hen, e1, e2⟩
    · rw [e1, e2]; exact ⟨rfl, rfl, rfl, rfl, rfl, rfl, fun _ => ⟨rfl, rfl⟩⟩
    · rw [e2]
      obtain ⟨f1, f2, f3, f4, f5, f6, _⟩ := oamAfterTick_fields b.m.ppu b.m.oam
      exact ⟨f1, f2, f3, f4, f5, f6, fun hoff => by rw [hen] at hoff; cases hoff⟩

/-- … and after `mapper.EndMachineCycle`: the flags are untouched, an idle engine does nothing, a running one
    stores at most one byte -/
private theorem dmaStep_flags (b : Board) :
    b.dmaStep.m.ppu = b.m.ppu ∧ b.dmaStep.m.oam.corrupt = b.m.oam.corrupt ∧ b.dmaStep.m.oam.read = b.m.oam.read ∧
    b.dmaStep.m.oam.write = b.m.oam.write ∧ b.dmaStep.m.oam.doubleWrite = b.m.oam.doubleWrite ∧
    (b.m.oam.dmaRunning = false → b.dmaStep.m.oam = b.m.oam) ∧
    (∀ k (hk : k < 160), k ≠ dmaStoreIndex b.m.oam → b.dmaStep.m.oam.oam[k] = b.m.oam.oam[k]) := by
  rcases board_dmaStep_m b with e | e
  · rw [e]; exact ⟨rfl, rfl, rfl, rfl, rfl, fun _ => rfl, fun _ _ _ => rfl⟩
  · obtain ⟨e1, rd, e2⟩ := endMachineCycle_oam _ _ _ e
    obtain ⟨_, _, f1, _, f2, f3, f4, f5, f6⟩ := tickDMA_shape e2
    exact ⟨e1, f1, f2, f3, f4, f5, f6⟩

private theorem double_end (b : Board) (h : DoubleInv b) : DoubleInv b.endCycle := by
  refine endCycle_pres DoubleInv ?_ ?_ ?_ ?_ b h
  · intro b hb
    obtain ⟨_, _, f3, f4, _⟩ := ppuStep_flags b
    unfold DoubleInv; rw [f3, f4]; exact hb
  · intro b hb
    obtain ⟨_, _, _, f3, f4, _⟩ := dmaStep_flags b
    unfold DoubleInv; rw [f3, f4]; exact hb
  · intro b hb; unfold DoubleInv; rw [apuStep_m]; exact hb
  · intro b hb; exact hb

private theorem settled_corrupt (b : Board) : Settled b.corrupt := by
  unfold Board.corrupt
  split
  · rename_i hc
    left
    simp only [Bool.and_eq_true, Bool.not_eq_true'] at hc
    exact hc
  · cases ho : corruptStep b.m.oam with
    | none => exact Or.inr rfl
    | some o =>
      left
      rcases corruptStep_shape ho with ⟨h1, h2, e⟩ | ⟨_, x, e⟩
      · rw [e]; exact ⟨h1, h2⟩
      · rw [e]; exact ⟨rfl, rfl⟩

private theorem settled_end (b : Board) (h : Settled b) : Settled b.endCycle := by
  refine endCycle_pres Settled ?_ ?_ ?_ ?_ b h
  · intro b hb
    rcases hb with hb | hb
    · obtain ⟨_, f2, f3, _⟩ := ppuStep_flags b
      left; rw [f2, f3]; exact hb
    · right
      rw [whole_step_ppu]
      cases Render.tick (sceneOf b.m) (syncPix b.m.ppu b.pix) with
      | none => rfl
      | some p => cases ppuTick b.m <;> first | rfl | exact hb
  · intro b hb
    rcases hb with hb | hb
    · obtain ⟨_, _, f2, f3, _⟩ := dmaStep_flags b
      left; rw [f2, f3]; exact hb
    · right
      rw [whole_step_dma]
      cases endMachineCycle Serial.genReadArms b.m <;> first | rfl | exact hb
  · intro b hb
    have e : b.apuStep.crashed = b.crashed := by rw [whole_step_apu]
    unfold Settled; rw [apuStep_m, e]; exact hb
  · intro b hb; exact hb

/-- **the invariant of reachable states**, as far as OAM is concerned: the never-panics invariant, the window
    invariant, and no OAM-bug trigger pending between machine cycles -/
structure OamOk (w : Whole) : Prop where
  ok      : WholeOk w
  window  : OamWindowInv w.b
  double  : DoubleInv w.b
  settled : w.b.m.oam.read = false ∧ w.b.m.oam.write = false

/-- in a reachable state the OAM unit is `Quiet` as soon as the LCD is off (or the PPU not in mode 2) -/
theorem OamOk.quiet {w : Whole} (h : OamOk w) (hoff : w.b.m.ppu.enabled = false ∨ w.b.m.ppu.mode ≠ 2) :
    Quiet w.b.m.oam := by
  have hc : w.b.m.oam.corrupt = false := by
    cases hc : w.b.m.oam.corrupt
    · rfl
    · obtain ⟨h1, h2⟩ := h.window hc
      rcases hoff with e | e
      · rw [e] at h1; cases h1
      · exact absurd h2 e
  have hd : w.b.m.oam.doubleWrite = false := by
    cases hd : w.b.m.oam.doubleWrite
    · rfl
    · have := h.double hd
      rw [h.settled.2] at this; cases this
  exact ⟨hc, h.settled.1, h.settled.2, hd⟩

/-- every machine cycle keeps `OamOk` -/
theorem oamOk_cycle (w : Whole) (h : OamOk w) : OamOk w.cycle := by
  have hok := whole_cycle_ok w h.ok
  refine ⟨hok, c17_whole_window_cycle w h.window, cycle_pres DoubleInv double_cpu double_end w h.double, ?_⟩
  cases hs : w.stopped
  · have hnp := hok.no_panic
    rw [whole_cycle_order w hs] at hnp ⊢
    have hq : Settled (afterCpu w).2 ∨ (afterCpu w).1.crashed = true :=
      Tetro.CpuAfterCorrupt.cycle_after_corrupt Settled settled_corrupt _ _ _ (Or.inl h.settled)
    by_cases hst : cpuStopped w = true
    · rw [if_pos hst] at hnp ⊢
      rcases hq with (hq | hq) | hq
      · exact hq
      · have : (afterCpu w).2.dead = true := by unfold Board.dead; rw [hq]; rfl
        have h2 : (afterCpu w).2.dead = false := hnp.1
        rw [this] at h2; cases h2
      · have h2 : (afterCpu w).1.crashed = false := hnp.2
        rw [hq] at h2; cases h2
    · rw [if_neg hst] at hnp ⊢
      have h2 : (afterCpu w).1.crashed = false := hnp.2
      have hq' : Settled (afterCpu w).2 := by
        rcases hq with hq | hq
        · exact hq
        · rw [hq] at h2; cases h2
      have he : Settled (afterCpu w).2.endCycle := settled_end _ hq'
      rcases he with he | he
      · exact he
      · have h3 : (afterCpu w).2.endCycle.dead = false := hnp.1
        have : (afterCpu w).2.endCycle.dead = true := by unfold Board.dead; rw [he]; rfl
        rw [this] at h3; cases h3
  · rw [whole_cycle_stopped w hs]; exact h.settled

theorem oamOk_run (n : Nat) (w : Whole) (h : OamOk w) : OamOk (Whole.run n w) := by
  induction n generalizing w with
  | zero => exact h
  | succ n ih => exact ih w.cycle (oamOk_cycle w h)

/-- every machine `gameboy.New` builds satisfies `OamOk` -/
theorem oamOk_construct (img : Cart.Image) (wr au : Bool) (w : Whole) (h : Whole.construct img wr au = some w) :
    OamOk w := by
  refine ⟨construct_ok img wr au w h, c17_whole_window_construct img wr au w h, ?_, ?_⟩
  · unfold Whole.construct at h
    rw [Option.map_eq_some_iff] at h
    obtain ⟨c, _, rfl⟩ := h
    intro hd; cases hd
  · unfold Whole.construct at h
    rw [Option.map_eq_some_iff] at h
    obtain ⟨c, _, rfl⟩ := h
    exact ⟨rfl, rfl⟩

/-! ## 2. the frame statement on the board -/

/-- everything that can happen to the board during a machine cycle -/
inductive BoardOp where
  | read (a : Nat)                 -- `Mapper.Read`
  | write (a v : Nat)              -- `Mapper.Write`
  | trigger (a : Cpu.Word)         -- `oam.TriggerWriteCorruption`
  | corrupt                        -- `oam.Corrupt()`
  | setIntr (i : Intr)             -- IME / IF updates by the CPU
  | ppu                            -- `ppu.EndMachineCycle`
  | dma                            -- `mapper.EndMachineCycle`
  | apu                            -- `audio.EndMachineCycle`
  | timer                          -- `timer.EndMachineCycle`

def BoardOp.apply : BoardOp → Board → Board
  | .read a, b => (b.read a).2
  | .write a v, b => b.write a v
  | .trigger a, b => b.setOam (triggerWriteCorruption b.m.oam a)
  | .corrupt, b => b.corrupt
  | .setIntr i, b => b.setIntr i
  | .ppu, b => b.ppuStep
  | .dma, b => b.dmaStep
  | .apu, b => b.apuStep
  | .timer, b => b.timerStep

/-- what one board operation may do to the 160 bytes when the OAM unit is `Quiet` -/
def BoardEffect (b : Board) (op : BoardOp) (b' : Board) : Prop :=
  match op with
  | .write a v =>
      ∀ k (hk : k < 160), b'.m.oam.oam[k] =
        if 0xFE00 ≤ a ∧ a < 0xFEA0 ∧ k = a - 0xFE00 then BitVec.ofNat 8 v else b.m.oam.oam[k]
  | .dma =>
      (b.m.oam.dmaRunning = false → b'.m.oam = b.m.oam) ∧
      ∀ k (hk : k < 160), k ≠ dmaStoreIndex b.m.oam → b'.m.oam.oam[k] = b.m.oam.oam[k]
  | _ => b'.m.oam.oam = b.m.oam.oam

/-- the operations that open the window: an LCDC write that switches the LCD on, and the PPU entering mode 2 -/
def BoardOp.opens (b : Board) : BoardOp → Prop
  | .write a v => a = 0xFF40 ∧ v.testBit 7 = true ∧ b.m.ppu.enabled = false
  | .ppu => b.m.ppu.enabled = true
  | _ => False

/-- **the byte effect of a bus write, in EVERY state** (window open or not, transfer running or not): a write to
    FE00–FE9F changes exactly the addressed byte, a write to any other of the 65 536 addresses – FF46, which only
    starts a transfer, and FF40 included – changes none -/
theorem c17_whole_write_bytes (b : Board) (a v : Nat) (ha : a < 65536) (k : Nat) (hk : k < 160) :
    (b.write a v).m.oam.oam[k] =
      if 0xFE00 ≤ a ∧ a < 0xFEA0 ∧ k = a - 0xFE00 then BitVec.ofNat 8 v else b.m.oam.oam[k] := by
  rw [show (b.write a v).m.oam.oam[k] = (oamAfterWrite b.m a v).oam[k] by
    congr 2; exact board_write_oam b a v ha]
  unfold oamAfterWrite
  by_cases h1 : 0xFE00 ≤ a ∧ a < 0xFF00
  · obtain ⟨o, ho, _, _, _, _, _, f6⟩ := cpuWrite_fields b.m.oam a v h1
    rw [if_pos h1, ho]
    show o.oam[k] = _
    rw [f6 k hk]
    by_cases hx : a < 0xFEA0 ∧ k = a - 0xFE00
    · rw [if_pos hx, if_pos ⟨h1.1, hx.1, hx.2⟩]
    · rw [if_neg hx, if_neg (fun e => hx ⟨e.2.1, e.2.2⟩)]
  · have hrhs : ¬ (0xFE00 ≤ a ∧ a < 0xFEA0 ∧ k = a - 0xFE00) := fun e => h1 ⟨e.1, by have := e.2.1; omega⟩
    have e : (if a = 0xFF40 then oamAfterLcdc b.m.ppu (v.testBit 7) b.m.oam
        else if a = 0xFF46 then writeDMA b.m.oam (BitVec.ofNat 8 v) else b.m.oam).oam = b.m.oam.oam := by
      split
      · unfold oamAfterLcdc
        split
        · rfl
        · split <;> rfl
      · split <;> rfl
    rw [if_neg h1, if_neg hrhs, e]

/-- **C17 (frame) on the whole-machine board.**  With the window closed and no trigger pending, every board
    operation that does not open the window leaves the OAM unit `Quiet`, and leaves all 160 bytes unchanged –
    except `Mapper.Write` to FE00–FE9F (exactly the addressed byte) and a DMA tick while a transfer runs (at most the
    byte it stores). -/
theorem c17_whole_frame (b : Board) (op : BoardOp) (hq : Quiet b.m.oam)
    (ha : ∀ a v, op = .write a v → a < 65536) :
    (¬ op.opens b → Quiet (op.apply b).m.oam) ∧ BoardEffect b op (op.apply b) := by
  obtain ⟨hc, hr, hw, hd⟩ := hq
  cases op with
  | read a =>
    have e : (b.read a).2.m.oam = b.m.oam := by
      rcases (board_read_oam b a).2 with e | ⟨_, h2, _⟩
      · exact e
      · rw [hc] at h2; cases h2
    exact ⟨fun _ => by show Quiet (b.read a).2.m.oam; rw [e]; exact ⟨hc, hr, hw, hd⟩,
      by show (b.read a).2.m.oam.oam = _; rw [e]⟩
  | write a v =>
    have ha' := ha a v rfl
    refine ⟨fun hno => ?_, fun k hk => c17_whole_write_bytes b a v ha' k hk⟩
    show Quiet (b.write a v).m.oam
    rw [board_write_oam b a v ha']
    unfold oamAfterWrite
    split
    · rename_i h1
      obtain ⟨o, ho, f1, f2, f3, f4, _, _⟩ := cpuWrite_fields b.m.oam a v h1
      have e := (writeFlags_fields b.m.oam).2.2.2.1 hc
      rw [ho]
      show Quiet o
      rw [e] at f1 f2 f3 f4
      exact ⟨f1.trans hc, f2.trans hr, f3.trans hw, f4.trans hd⟩
    · split
      · rename_i h2
        unfold oamAfterLcdc
        split
        · rename_i h3
          exact absurd ⟨h2, h3.1, h3.2⟩ hno
        · split <;> exact ⟨by first | rfl | exact hc, hr, hw, hd⟩
      · split <;> exact ⟨hc, hr, hw, hd⟩
  | trigger a =>
    have e : triggerWriteCorruption b.m.oam a = b.m.oam := by simp [triggerWriteCorruption, hc]
    exact ⟨fun _ => by show Quiet (triggerWriteCorruption b.m.oam a); rw [e]; exact ⟨hc, hr, hw, hd⟩,
      by show (triggerWriteCorruption b.m.oam a).oam = _; rw [e]⟩
  | corrupt =>
    have e : b.corrupt = b := by unfold Board.corrupt; rw [hr, hw]; rfl
    exact ⟨fun _ => by show Quiet b.corrupt.m.oam; rw [e]; exact ⟨hc, hr, hw, hd⟩,
      by show b.corrupt.m.oam.oam = _; rw [e]⟩
  | setIntr i => exact ⟨fun _ => ⟨hc, hr, hw, hd⟩, rfl⟩
  | ppu =>
    obtain ⟨f1, f2, f3, f4, _, _, f7⟩ := ppuStep_flags b
    refine ⟨fun hno => ?_, f1⟩
    have hoff : b.m.ppu.enabled = false := by
      cases he : b.m.ppu.enabled
      · rfl
      · exact absurd he hno
    show Quiet b.ppuStep.m.oam
    rw [(f7 hoff).1]; exact ⟨hc, hr, hw, hd⟩
  | dma =>
    obtain ⟨_, g1, g2, g3, g4, g5, g6⟩ := dmaStep_flags b
    exact ⟨fun _ => ⟨g1.trans hc, g2.trans hr, g3.trans hw, g4.trans hd⟩, g5, g6⟩
  | apu =>
    have e : b.apuStep.m = b.m := apuStep_m b
    exact ⟨fun _ => by show Quiet b.apuStep.m.oam; rw [e]; exact ⟨hc, hr, hw, hd⟩,
      by show b.apuStep.m.oam.oam = _; rw [e]⟩
  | timer => exact ⟨fun _ => ⟨hc, hr, hw, hd⟩, rfl⟩

/-- **C16 (blocking) on the board**: while a transfer runs, a bus read of FE00–FEFF returns 0xFF and changes
    nothing on the board -/
theorem c16_whole_block (b : Board) (a : Nat) (ha : 0xFE00 ≤ a ∧ a < 0xFF00) (hrun : b.m.oam.dmaRunning = true) :
    b.read a = (0xff, b) := by
  have ha' : a < 65536 := by omega
  have hs : soundAddr a = false := by
    unfold soundAddr
    simp only [Bool.or_eq_false_iff, Bool.and_eq_false_iff, decide_eq_false_iff_not]
    omega
  have er : rH a = .oam := by
    unfold rH
    rw [Tetro.C06.c06_arms.1, Tetro.BusRoute.route_read ha']
    unfold Tetro.Spec.MemMap.regionOf
    rw [if_neg (by omega), if_neg (by omega), if_neg (by omega), if_neg (by omega), if_neg (by omega),
      if_pos (by omega)]
  unfold Board.read Board.read?
  rw [(whole_apu_addresses a ha').1, hs, er]
  simp only [Bool.false_eq_true, if_false, readVal, readEff, (Tetro.C16.c16_block b.m.oam _ hrun).1,
    Option.map_some]
  rfl

/-- NOT blocked, in the model as in oam.go (`Write` has no `dmaRunning` test; C16 only speaks about reads): a CPU
    write to FE00–FE9F while a transfer runs does store the byte -/
theorem c16_whole_write_not_blocked (b : Board) (a v : Nat) (ha : 0xFE00 ≤ a ∧ a < 0xFEA0) :
    (b.write a v).m.oam.oam[a - 0xFE00]'(by omega) = BitVec.ofNat 8 v := by
  rw [c17_whole_write_bytes b a v (by omega) _ (by omega), if_pos ⟨ha.1, ha.2, rfl⟩]

/-! ## 3. a machine cycle: OAM differs only where the CPU wrote -/

/-- the bus writes (address, value) the CPU performs in the machine cycle that starts in `w`, in order: the log of
    the SAME CPU model run on the board wrapped with a ghost write log (`Lemmas/GhostBus.lean`) -/
def cpuWrites (w : Whole) : List (Cpu.Word × Cpu.Byte) :=
  if w.stopped then [] else (Cpu.cycle Cpu.Tables.gen w.cpu ({ bus := w.b, wr := [] } : Ghost Board)).2.wr

/-- the ghost log does not interfere: the instrumented CPU cycle computes the CPU state and the board of the real
    one -/
theorem cpuWrites_faithful (w : Whole) :
    (Cpu.cycle Cpu.Tables.gen w.cpu ({ bus := w.b, wr := [] } : Ghost Board)).1 = (afterCpu w).1 ∧
    (Cpu.cycle Cpu.Tables.gen w.cpu ({ bus := w.b, wr := [] } : Ghost Board)).2.bus = (afterCpu w).2 :=
  cycle_ghost Cpu.Tables.gen w.cpu { bus := w.b, wr := [] }

/-- … and what it logs is explicit: the addresses are those written by the ONE micro-operation the CPU executes in
    this cycle (`GhostBus.writeAddrs`, a function of the micro-operation and the registers it starts from;
    instruction fetch and the interrupt check write nothing) -/
theorem cpuWrites_addrs (w : Whole) (hs : w.stopped = false) :
    (cpuWrites w).map (·.1) = cycleWriteAddrs Cpu.Tables.gen w.cpu w.b := by
  have h := cycle_wr_addrs Cpu.Tables.gen w.cpu ({ bus := w.b, wr := [] } : Ghost Board)
  unfold cpuWrites
  rw [hs]
  simp only [Bool.false_eq_true, if_false]
  rw [h]
  rfl

/-- the program starts no OAM DMA transfer: no write to FF46 -/
def NoDmaStart (wr : List (Cpu.Word × Cpu.Byte)) : Prop := ∀ p ∈ wr, p.1.toNat ≠ 0xFF46

/-- every LCDC write has bit 7 clear -/
def LcdcOff (wr : List (Cpu.Word × Cpu.Byte)) : Prop := ∀ p ∈ wr, p.1.toNat = 0xFF40 → p.2.toNat.testBit 7 = false
/-- every LCDC write has bit 7 set -/
def LcdcOn (wr : List (Cpu.Word × Cpu.Byte)) : Prop := ∀ p ∈ wr, p.1.toNat = 0xFF40 → p.2.toNat.testBit 7 = true

/-- the program does not switch the LCD on: it never writes LCDC with bit 7 set, or the LCD is on (`en`) and it
    never writes LCDC with bit 7 clear (in particular: it does not write LCDC at all) -/
def NoSwitchOn (en : Bool) (wr : List (Cpu.Word × Cpu.Byte)) : Prop := LcdcOff wr ∨ (en = true ∧ LcdcOn wr)

instance (wr : List (Cpu.Word × Cpu.Byte)) : Decidable (NoDmaStart wr) := by unfold NoDmaStart; infer_instance
instance (wr : List (Cpu.Word × Cpu.Byte)) : Decidable (LcdcOff wr) := by unfold LcdcOff; infer_instance
instance (wr : List (Cpu.Word × Cpu.Byte)) : Decidable (LcdcOn wr) := by unfold LcdcOn; infer_instance
instance (en : Bool) (wr : List (Cpu.Word × Cpu.Byte)) : Decidable (NoSwitchOn en wr) := by
  unfold NoSwitchOn; infer_instance

/-- what is tracked through the nine bus operations of the instrumented board, relative to the board `b0` the
    cycle started from -/
private structure Tracked (b0 : Board) (g : Ghost Board) : Prop where
  quiet : Quiet g.bus.m.oam
  idle  : g.bus.m.oam.dmaRunning = false
  on    : b0.m.ppu.enabled = true → LcdcOn g.wr → g.bus.m.ppu.enabled = true
  off   : b0.m.ppu.enabled = false → LcdcOff g.wr → g.bus.m.ppu.enabled = false
  bytes : ∀ k (hk : k < 160), g.bus.m.oam.oam[k] ≠ b0.m.oam.oam[k] → ∃ p ∈ g.wr, p.1.toNat = 0xFE00 + k

private def Track (b0 : Board) (g : Ghost Board) : Prop :=
  NoDmaStart g.wr → NoSwitchOn b0.m.ppu.enabled g.wr → Tracked b0 g

private theorem track_same (b0 : Board) (g : Ghost Board) (b' : Board) (h : Track b0 g)
    (e1 : b'.m.oam = g.bus.m.oam) (e2 : b'.m.ppu = g.bus.m.ppu) : Track b0 { bus := b', wr := g.wr } := by
  intro h1 h2
  obtain ⟨q, i, on, off, by_⟩ := h h1 h2
  refine ⟨?_, ?_, ?_, ?_, ?_⟩
  · show Quiet b'.m.oam; rw [e1]; exact q
  · show b'.m.oam.dmaRunning = false; rw [e1]; exact i
  · intro a b; show b'.m.ppu.enabled = true; rw [e2]; exact on a b
  · intro a b; show b'.m.ppu.enabled = false; rw [e2]; exact off a b
  · intro k hk; show b'.m.oam.oam[k] ≠ _ → _; rw [show b'.m.oam.oam[k] = g.bus.m.oam.oam[k] by rw [e1]]
    exact by_ k hk

private theorem lcdcOff_prefix {wr : List (Cpu.Word × Cpu.Byte)} {x} (h : LcdcOff (wr ++ [x])) : LcdcOff wr :=
  fun p hp => h p (List.mem_append_left _ hp)
private theorem lcdcOn_prefix {wr : List (Cpu.Word × Cpu.Byte)} {x} (h : LcdcOn (wr ++ [x])) : LcdcOn wr :=
  fun p hp => h p (List.mem_append_left _ hp)

private theorem wLCDC_enabled (p : Lcd.Ppu) (v : Nat) :
    (Lcd.wLCDC p v).enabled = (if v.testBit 7 = true ∧ p.enabled = false then true
      else if v.testBit 7 = false ∧ p.enabled = true then false else p.enabled) := by
  unfold Lcd.wLCDC Lcd.lcdcSwitch
  split
  · rfl
  · split <;> rfl

private theorem ppuAfterWrite_enabled (m : Machine) (a v : Nat) (h : a ≠ 0xFF40) :
    (ppuAfterWrite m a v).enabled = m.ppu.enabled := by
  unfold ppuAfterWrite
  rw [if_neg h]
  split
  · rfl
  · split
    · rfl
    · split <;> rfl

private theorem track_write (b0 : Board) (g : Ghost Board) (a : Cpu.Word) (v : Cpu.Byte) (h : Track b0 g) :
    Track b0 (Cpu.Bus.write g a v) := by
  intro h1 h2
  have hmem : (a, v) ∈ g.wr ++ [(a, v)] := List.mem_append_right _ (List.mem_singleton.mpr rfl)
  have h1' : NoDmaStart g.wr := fun p hp => h1 p (List.mem_append_left _ hp)
  have h2' : NoSwitchOn b0.m.ppu.enabled g.wr := by
    rcases h2 with h2 | ⟨e, h2⟩
    · exact Or.inl (lcdcOff_prefix h2)
    · exact Or.inr ⟨e, lcdcOn_prefix h2⟩
  obtain ⟨q, i, on, off, by_⟩ := h h1' h2'
  have hdma : a.toNat ≠ 0xFF46 := h1 _ hmem
  have hlt := a.isLt
  -- the board after the write
  have eo : (g.bus.write a.toNat v.toNat).m.oam = oamAfterWrite g.bus.m a.toNat v.toNat :=
    board_write_oam _ _ _ hlt
  have ep : (g.bus.write a.toNat v.toNat).m.ppu = ppuAfterWrite g.bus.m a.toNat v.toNat :=
    board_write_ppu _ _ _ hlt
  -- the LCD is not switched on by this write
  have hnoopen : ¬ (BoardOp.write a.toNat v.toNat).opens g.bus := by
    rintro ⟨x1, x2, x3⟩
    rcases h2 with h2 | ⟨e, h2⟩
    · have := h2 _ hmem x1
      rw [x2] at this; cases this
    · have := on e (lcdcOn_prefix h2)
      rw [x3] at this; cases this
  obtain ⟨fq, fb⟩ := c17_whole_frame g.bus (.write a.toNat v.toNat) q (fun a' v' e => by cases e; exact hlt)
  refine ⟨fq hnoopen, ?_, ?_, ?_, ?_⟩
  · show (g.bus.write a.toNat v.toNat).m.oam.dmaRunning = false
    rw [eo]
    unfold oamAfterWrite
    split
    · rename_i hr
      obtain ⟨o, ho, _, _, _, _, f5, _⟩ := cpuWrite_fields g.bus.m.oam a.toNat v.toNat hr
      rw [ho]
      show o.dmaRunning = false
      rw [f5, (writeFlags_fields _).2.2.1]
      exact i
    · split
      · unfold oamAfterLcdc
        split
        · exact i
        · split <;> exact i
      · first
          | exact i
          | (rw [if_neg hdma]; exact i)
  · intro e hon
    show (g.bus.write a.toNat v.toNat).m.ppu.enabled = true
    rw [ep]
    have hen := on e (lcdcOn_prefix hon)
    by_cases h40 : a.toNat = 0xFF40
    · have hb := hon _ hmem h40
      unfold ppuAfterWrite
      rw [if_pos h40, wLCDC_enabled, hen, hb]
      rfl
    · rw [ppuAfterWrite_enabled _ _ _ h40]; exact hen
  · intro e hoff
    show (g.bus.write a.toNat v.toNat).m.ppu.enabled = false
    rw [ep]
    have hen := off e (lcdcOff_prefix hoff)
    by_cases h40 : a.toNat = 0xFF40
    · have hb := hoff _ hmem h40
      unfold ppuAfterWrite
      rw [if_pos h40, wLCDC_enabled, hen, hb]
      rfl
    · rw [ppuAfterWrite_enabled _ _ _ h40]; exact hen
  · intro k hk hne
    have hb : (g.bus.write a.toNat v.toNat).m.oam.oam[k] =
        if 0xFE00 ≤ a.toNat ∧ a.toNat < 0xFEA0 ∧ k = a.toNat - 0xFE00 then BitVec.ofNat 8 v.toNat
        else g.bus.m.oam.oam[k] := fb k hk
    have hne' : (g.bus.write a.toNat v.toNat).m.oam.oam[k] ≠ b0.m.oam.oam[k] := hne
    rw [hb] at hne'
    by_cases hx : 0xFE00 ≤ a.toNat ∧ a.toNat < 0xFEA0 ∧ k = a.toNat - 0xFE00
    · exact ⟨(a, v), hmem, by show a.toNat = 0xFE00 + k; omega⟩
    · rw [if_neg hx] at hne'
      obtain ⟨p, hp, e⟩ := by_ k hk hne'
      exact ⟨p, List.mem_append_left _ hp, e⟩

/-- the CPU's part of a cycle on the instrumented board keeps `Track` -/
private theorem track_cpu (b0 : Board) (c : Cpu.Cpu) (g : Ghost Board) (h : Track b0 g) :
    Track b0 (Cpu.cycle Cpu.Tables.gen c g).2 := by
  refine Tetro.CpuBusInv.cycle_preserves (Track b0) ?_ ?_ ?_ ?_ ?_ ?_ _ _ _ h
  · intro g a hg
    show Track b0 { bus := (g.bus.read a.toNat).2, wr := g.wr }
    intro h1 h2
    have q := (hg h1 h2).quiet
    have e : (g.bus.read a.toNat).2.m.oam = g.bus.m.oam := by
      rcases (board_read_oam g.bus a.toNat).2 with e | ⟨_, x, _⟩
      · exact e
      · rw [q.1] at x; cases x
    exact track_same b0 g _ hg e (board_read_oam g.bus a.toNat).1 h1 h2
  · intro g a v hg; exact track_write b0 g a v hg
  · intro g a hg
    show Track b0 { bus := g.bus.setOam (triggerWriteCorruption g.bus.m.oam a), wr := g.wr }
    intro h1 h2
    have q := (hg h1 h2).quiet
    have e : triggerWriteCorruption g.bus.m.oam a = g.bus.m.oam := by simp [triggerWriteCorruption, q.1]
    exact track_same b0 g _ hg e rfl h1 h2
  · intro g hg
    show Track b0 { bus := g.bus.corrupt, wr := g.wr }
    intro h1 h2
    have q := (hg h1 h2).quiet
    have e : g.bus.corrupt = g.bus := by unfold Board.corrupt; rw [q.2.1, q.2.2.1]; rfl
    exact track_same b0 g _ hg (by rw [e]) (by rw [e]) h1 h2
  · intro g v hg; exact track_same b0 g _ hg rfl rfl
  · intro g k hg; exact track_same b0 g _ hg rfl rfl

/-- board `x` relative to board `b`: same bytes, trigger flags; DMA engine idle; if the LCD was off in `b` the
    OAM unit is the same and the LCD is off -/
private def EndRel (b x : Board) : Prop :=
  x.m.oam.oam = b.m.oam.oam ∧ x.m.oam.read = b.m.oam.read ∧ x.m.oam.write = b.m.oam.write ∧
  x.m.oam.doubleWrite = b.m.oam.doubleWrite ∧ x.m.oam.dmaRunning = false ∧
  (b.m.ppu.enabled = false → x.m.oam = b.m.oam ∧ x.m.ppu.enabled = false)

/-- what the four end-of-cycle calls do to the OAM unit when no transfer runs: nothing to the bytes, the trigger
    flags and the DMA engine; with the LCD off nothing at all, and the LCD stays off -/
private theorem endCycle_oam (b : Board) (hd : b.m.oam.dmaRunning = false) : EndRel b b.endCycle := by
  have h0 : EndRel b b := ⟨rfl, rfl, rfl, rfl, hd, fun e => ⟨rfl, e⟩⟩
  refine endCycle_pres (EndRel b) ?_ ?_ ?_ ?_ b h0
  · intro x ⟨p1, p2, p3, p4, p5, p6⟩
    obtain ⟨f1, f2, f3, f4, f5, _, f7⟩ := ppuStep_flags x
    refine ⟨f1.trans p1, f2.trans p2, f3.trans p3, f4.trans p4, f5.trans p5, fun e => ?_⟩
    obtain ⟨q1, q2⟩ := p6 e
    obtain ⟨r1, r2⟩ := f7 q2
    exact ⟨r1.trans q1, by rw [r2]; exact q2⟩
  · intro x ⟨p1, p2, p3, p4, p5, p6⟩
    obtain ⟨g0, _, _, _, _, g5, _⟩ := dmaStep_flags x
    have e : x.dmaStep.m.oam = x.m.oam := g5 p5
    unfold EndRel
    rw [e, g0]
    exact ⟨p1, p2, p3, p4, p5, p6⟩
  · intro x hx
    unfold EndRel
    rw [apuStep_m]
    exact hx
  · intro x hx; exact hx

/-- **C17 on the whole machine, one machine cycle.**  If at the start of the cycle the window is closed and no
    trigger is pending (`Quiet`: true of every reachable state with the LCD off or the PPU outside mode 2,
    `OamOk.quiet`), no DMA transfer runs, and the CPU in this cycle neither writes FF46 nor switches the LCD on –
    whatever else it does: reads and writes anywhere, 16-bit INC/DEC and PUSH/POP with pointers into FE00–FEFF,
    interrupt dispatch – then
      * every OAM byte that differs after the cycle was the target of a CPU bus write in this cycle,
      * still no transfer runs and no trigger is pending,
      * the window is open after the cycle only if the PPU entered mode 2 at the end of it (LCD on),
      * an LCD that was off and was not written with bit 7 set is still off. -/
theorem c17_whole_cycle (w : Whole) (hq : Quiet w.b.m.oam) (hidle : w.b.m.oam.dmaRunning = false)
    (hdma : NoDmaStart (cpuWrites w)) (hwin : NoSwitchOn w.b.m.ppu.enabled (cpuWrites w)) :
    (∀ k (hk : k < 160), w.cycle.b.m.oam.oam[k] ≠ w.b.m.oam.oam[k] →
        ∃ p ∈ cpuWrites w, p.1.toNat = 0xFE00 + k) ∧
    w.cycle.b.m.oam.dmaRunning = false ∧
    (w.cycle.b.m.oam.read = false ∧ w.cycle.b.m.oam.write = false ∧ w.cycle.b.m.oam.doubleWrite = false) ∧
    (w.cycle.b.m.oam.corrupt = true → w.cycle.b.m.ppu.enabled = true ∧ w.cycle.b.m.ppu.mode = 2) ∧
    (w.b.m.ppu.enabled = false → LcdcOff (cpuWrites w) → w.cycle.b.m.ppu.enabled = false ∧ Quiet w.cycle.b.m.oam) := by
  cases hs : w.stopped
  · -- the CPU's part, on the instrumented board
    have hcw : cpuWrites w = (Cpu.cycle Cpu.Tables.gen w.cpu ({ bus := w.b, wr := [] } : Ghost Board)).2.wr := by
      unfold cpuWrites; rw [hs]; rfl
    have h0 : Track w.b ({ bus := w.b, wr := [] } : Ghost Board) := fun _ _ =>
      ⟨hq, hidle, fun e _ => e, fun e _ => e, fun k hk hne => absurd rfl hne⟩
    have ht := track_cpu w.b w.cpu _ h0
    rw [hcw] at hdma hwin ⊢
    obtain ⟨q, i, _, off, by_⟩ := ht hdma hwin
    rw [(cpuWrites_faithful w).2] at q i off by_
    -- the rest of the cycle
    have hwindow : OamWindowInv (afterCpu w).2 := fun hc => by rw [q.1] at hc; cases hc
    rw [whole_cycle_order w hs]
    split
    · exact ⟨by_, i, ⟨q.2.1, q.2.2.1, q.2.2.2⟩, hwindow, fun e hoff => ⟨off e hoff, q⟩⟩
    · obtain ⟨e1, e2, e3, e4, e5, e6⟩ := endCycle_oam (afterCpu w).2 i
      have hend : (Board.guard Board.timerStep (Board.guard Board.apuStep (Board.guard Board.dmaStep
          (Board.guard Board.ppuStep (afterCpu w).2)))) = (afterCpu w).2.endCycle := rfl
      rw [hend]
      refine ⟨?_, e5, ⟨e2.trans q.2.1, e3.trans q.2.2.1, e4.trans q.2.2.2⟩,
        c17_whole_window_endCycle _ hwindow, fun e hoff => ?_⟩
      · intro k hk
        show (afterCpu w).2.endCycle.m.oam.oam[k] ≠ _ → _
        rw [show (afterCpu w).2.endCycle.m.oam.oam[k] = (afterCpu w).2.m.oam.oam[k] by rw [e1]]
        exact by_ k hk
      · obtain ⟨r1, r2⟩ := e6 (off e hoff)
        exact ⟨r2, by show Quiet (afterCpu w).2.endCycle.m.oam; rw [r1]; exact q⟩
  · rw [whole_cycle_stopped w hs]
    refine ⟨fun k hk hne => absurd rfl hne, hidle, ⟨hq.2.1, hq.2.2.1, hq.2.2.2⟩, ?_, fun e _ => ⟨e, hq⟩⟩
    intro hc
    rw [hq.1] at hc; cases hc

/-- … in particular: a cycle in which the CPU performs no bus write into FE00–FE9F leaves all 160 bytes as they
    were -/
theorem c17_whole_cycle_unchanged (w : Whole) (hq : Quiet w.b.m.oam) (hidle : w.b.m.oam.dmaRunning = false)
    (hdma : NoDmaStart (cpuWrites w)) (hwin : NoSwitchOn w.b.m.ppu.enabled (cpuWrites w))
    (hno : ∀ p ∈ cpuWrites w, ¬ (0xFE00 ≤ p.1.toNat ∧ p.1.toNat < 0xFEA0)) :
    w.cycle.b.m.oam.oam = w.b.m.oam.oam := by
  apply Vector.ext
  intro k hk
  apply Classical.byContradiction
  intro hne
  obtain ⟨p, hp, e⟩ := (c17_whole_cycle w hq hidle hdma hwin).1 k hk hne
  exact hno p hp (by omega)

/-- … the same with "performs no such write" read off the micro-operation being executed: if none of the write
    addresses of the micro-operation of this cycle (`GhostBus.cycleWriteAddrs`: a function of the sub-instruction
    list, its index and the registers) is in FE00–FE9F or is FF40 or FF46, OAM is unchanged – whatever the
    micro-operation reads, and whichever pointers its 16-bit INC/DEC or POP move through FE00–FEFF -/
theorem c17_whole_cycle_unchanged_microop (w : Whole) (hq : Quiet w.b.m.oam) (hidle : w.b.m.oam.dmaRunning = false)
    (hw : ∀ a ∈ cycleWriteAddrs Cpu.Tables.gen w.cpu w.b,
      ¬ (0xFE00 ≤ a.toNat ∧ a.toNat < 0xFEA0) ∧ a.toNat ≠ 0xFF40 ∧ a.toNat ≠ 0xFF46) :
    w.cycle.b.m.oam.oam = w.b.m.oam.oam := by
  cases hs : w.stopped
  · have hmem : ∀ p ∈ cpuWrites w, p.1 ∈ cycleWriteAddrs Cpu.Tables.gen w.cpu w.b := by
      intro p hp
      rw [← cpuWrites_addrs w hs]
      exact List.mem_map.mpr ⟨p, hp, rfl⟩
    exact c17_whole_cycle_unchanged w hq hidle (fun p hp => (hw _ (hmem p hp)).2.2)
      (Or.inl fun p hp e => absurd e (hw _ (hmem p hp)).2.1) (fun p hp => (hw _ (hmem p hp)).1)
  · rw [whole_cycle_stopped w hs]

/-! ## 4. LCD off: any number of cycles -/

/-- **C17 (LCD off) on the whole machine.**  From ANY state with the LCD off, the OAM unit `Quiet` and no DMA
    transfer running: as long as the program keeps the LCD off (never writes LCDC with bit 7 set) and starts no
    transfer (never writes FF46), after any number `n` of machine cycles – whatever else the program does: 16-bit
    INC/DEC, PUSH/POP, reads and writes with pointers in FE00–FEFF – the LCD is still off, the window closed, and
    every OAM byte that differs from the start was the target of a CPU bus write in one of the `n` cycles. -/
theorem c17_whole_lcd_off (w : Whole) (n : Nat) (hoff : w.b.m.ppu.enabled = false) (hq : Quiet w.b.m.oam)
    (hidle : w.b.m.oam.dmaRunning = false)
    (hprog : ∀ j < n, NoDmaStart (cpuWrites (Whole.run j w)) ∧ LcdcOff (cpuWrites (Whole.run j w))) :
    (Whole.run n w).b.m.ppu.enabled = false ∧ Quiet (Whole.run n w).b.m.oam ∧
    (Whole.run n w).b.m.oam.dmaRunning = false ∧
    ∀ k (hk : k < 160), (Whole.run n w).b.m.oam.oam[k] ≠ w.b.m.oam.oam[k] →
      ∃ j < n, ∃ p ∈ cpuWrites (Whole.run j w), p.1.toNat = 0xFE00 + k := by
  induction n with
  | zero => exact ⟨hoff, hq, hidle, fun k hk hne => absurd rfl hne⟩
  | succ n ih =>
    obtain ⟨i1, i2, i3, i4⟩ := ih fun j hj => hprog j (Nat.lt_succ_of_lt hj)
    obtain ⟨p1, p2⟩ := hprog n (Nat.lt_succ_self n)
    obtain ⟨c1, c2, _, _, c5⟩ := c17_whole_cycle (Whole.run n w) i2 i3 p1 (Or.inl p2)
    obtain ⟨d1, d2⟩ := c5 i1 p2
    rw [whole_run_succ]
    refine ⟨d1, d2, c2, fun k hk hne => ?_⟩
    by_cases hx : (Whole.run n w).cycle.b.m.oam.oam[k] = (Whole.run n w).b.m.oam.oam[k]
    · rw [hx] at hne
      obtain ⟨j, hj, r⟩ := i4 k hk hne
      exact ⟨j, Nat.lt_succ_of_lt hj, r⟩
    · exact ⟨n, Nat.lt_succ_self n, c1 k hk hx⟩

/-- … and if the CPU performs no bus write into FE00–FE9F in these cycles, OAM is unchanged -/
theorem c17_whole_lcd_off_unchanged (w : Whole) (n : Nat) (hoff : w.b.m.ppu.enabled = false) (hq : Quiet w.b.m.oam)
    (hidle : w.b.m.oam.dmaRunning = false)
    (hprog : ∀ j < n, NoDmaStart (cpuWrites (Whole.run j w)) ∧ LcdcOff (cpuWrites (Whole.run j w)))
    (hno : ∀ j < n, ∀ p ∈ cpuWrites (Whole.run j w), ¬ (0xFE00 ≤ p.1.toNat ∧ p.1.toNat < 0xFEA0)) :
    (Whole.run n w).b.m.oam.oam = w.b.m.oam.oam := by
  apply Vector.ext
  intro k hk
  apply Classical.byContradiction
  intro hne
  obtain ⟨j, hj, p, hp, e⟩ := (c17_whole_lcd_off w n hoff hq hidle hprog).2.2.2 k hk hne
  exact hno j hj p hp (by omega)

/-- **C17 (LCD off), reachable states.**  For a machine built by `gameboy.New` from any accepted image, at ANY point
    `t` of its run at which the LCD is off – however and whenever the program switched it off – and no transfer
    runs: as long as the program keeps the LCD off and starts no transfer, OAM differs `n` cycles later only at
    addresses the CPU wrote in between. -/
theorem c17_whole_lcd_off_reachable (img : Cart.Image) (wr au : Bool) (w0 : Whole)
    (hc : Whole.construct img wr au = some w0) (t n : Nat)
    (hoff : (Whole.run t w0).b.m.ppu.enabled = false) (hidle : (Whole.run t w0).b.m.oam.dmaRunning = false)
    (hprog : ∀ j < n, NoDmaStart (cpuWrites (Whole.run j (Whole.run t w0))) ∧
                      LcdcOff (cpuWrites (Whole.run j (Whole.run t w0)))) :
    ∀ k (hk : k < 160), (Whole.run n (Whole.run t w0)).b.m.oam.oam[k] ≠ (Whole.run t w0).b.m.oam.oam[k] →
      ∃ j < n, ∃ p ∈ cpuWrites (Whole.run j (Whole.run t w0)), p.1.toNat = 0xFE00 + k :=
  (c17_whole_lcd_off (Whole.run t w0) n hoff
    ((oamOk_run t w0 (oamOk_construct img wr au w0 hc)).quiet (Or.inl hoff)) hidle hprog).2.2.2

/-! ## non-vacuity: concrete machines meet the hypotheses, and the hypotheses matter -/

/-- a 32 KiB ROM-only image whose program switches the LCD off in mode 2 and then walks pointers through OAM:
    `LD A,11; LDH (40),A; LD HL,FE10; LD (HL),5A; LD SP,FE20; PUSH BC; INC HL; LD A,(HL+); JR` -/
def offImg : Cart.Image :=
  { len := 0x8000,
    byte := fun i => match i with
      | 0x100 => 0x3E | 0x101 => 0x11 | 0x102 => 0xE0 | 0x103 => 0x40
      | 0x104 => 0x21 | 0x105 => 0x10 | 0x106 => 0xFE
      | 0x107 => 0x36 | 0x108 => 0x5A
      | 0x109 => 0x31 | 0x10A => 0x20 | 0x10B => 0xFE
      | 0x10C => 0xC5 | 0x10D => 0x23 | 0x10E => 0x2A | 0x10F => 0x18 | 0x110 => 0xFE
      | _ => 0 }

/-- the machine `gameboy.New` builds from it -/
def offW : Whole := powerOn (.none { rom := Cart.pagesOf offImg, imgLen := 0x8000 }) false false

private theorem offW_constructed : Whole.construct offImg false false = some offW := rfl

/-- the constructed machine satisfies the invariant of reachable states, at every point of its run -/
example (t : Nat) : OamOk (Whole.run t offW) := oamOk_run t _ (oamOk_construct _ _ _ _ offW_constructed)

/-- window invariant, both sides: at power-on the window is open (LCD on, mode 2); five cycles later the program
    has switched the LCD off in mode 2 and the window is closed -/
example : offW.b.m.oam.corrupt = true ∧ offW.b.m.ppu.enabled = true ∧ offW.b.m.ppu.mode = 2 ∧
    (Whole.run 4 offW).b.m.oam.corrupt = true ∧ (Whole.run 4 offW).b.m.ppu.mode = 2 ∧
    cpuWrites (Whole.run 4 offW) = [(0xFF40, 0x11)] ∧
    (Whole.run 5 offW).b.m.ppu.enabled = false ∧ (Whole.run 5 offW).b.m.oam.corrupt = false := by decide +kernel

/-- the hypotheses of `c17_whole_lcd_off_reachable` at t = 5, n = 15 (the program keeps the LCD off and starts
    no transfer) … -/
example : (Whole.run 5 offW).b.m.ppu.enabled = false ∧ (Whole.run 5 offW).b.m.oam.dmaRunning = false ∧
    ∀ j < 15, NoDmaStart (cpuWrites (Whole.run j (Whole.run 5 offW))) ∧
              LcdcOff (cpuWrites (Whole.run j (Whole.run 5 offW))) := by decide +kernel

/-- … and its conclusion is not empty: in these 15 cycles OAM changes at FE10 (`LD (HL),5A`) and FE1E (`PUSH BC`),
    each the target of a CPU write in one of the cycles; the 16-bit `INC HL`, the `LD A,(HL+)` and the `PUSH` with
    pointers inside FE00–FEFF change nothing else -/
example : (Whole.run 15 (Whole.run 5 offW)).b.m.oam.oam[0x10] = 0x5A ∧
    (Whole.run 15 (Whole.run 5 offW)).b.m.oam.oam[0x1E] = 0x13 ∧ (Whole.run 5 offW).b.m.oam.oam[0x10] = 0 ∧
    cpuWrites (Whole.run 5 (Whole.run 5 offW)) = [(0xFE10, 0x5A)] ∧
    cpuWrites (Whole.run 11 (Whole.run 5 offW)) = [(0xFE1F, 0x00)] ∧
    cpuWrites (Whole.run 12 (Whole.run 5 offW)) = [(0xFE1E, 0x13)] ∧
    ((Whole.run 15 (Whole.run 5 offW)).b.m.oam.oam.toList.zipIdx.filter (·.1 ≠ 0)).map (·.2) = [0x10, 0x1E] := by
  decide +kernel

/-- a `Quiet` board (LCD off) for `c17_whole_frame`, with a write into OAM, a write to FF46 and a read -/
example : Quiet (Whole.run 5 offW).b.m.oam := ⟨by decide +kernel, by decide +kernel, by decide +kernel, by decide +kernel⟩
example : ((Whole.run 5 offW).b.write 0xFE13 0x77).m.oam.oam[0x13] = 0x77 ∧
    ((Whole.run 5 offW).b.write 0xFF46 0xC0).m.oam.dmaRunning = true ∧
    ((Whole.run 5 offW).b.write 0xFF46 0xC0).m.oam.oam = (Whole.run 5 offW).b.m.oam.oam := by decide +kernel

/-- `c16_whole_block`: a board with a transfer running -/
example : ((Whole.run 5 offW).b.write 0xFF46 0xC0).read 0xFE13 = (0xff, (Whole.run 5 offW).b.write 0xFF46 0xC0) :=
  c16_whole_block _ _ (by decide) (by decide +kernel)

/-- an image whose program writes OAM with the LCD ON, outside mode 2 (16 NOPs, then `LD HL,FE10; LD (HL),5A`:
    the write happens in machine cycle 21, the first one the PPU spends in mode 3) -/
def onImg : Cart.Image :=
  { len := 0x8000,
    byte := fun i => match i with
      | 0x110 => 0x21 | 0x111 => 0x10 | 0x112 => 0xFE | 0x113 => 0x36 | 0x114 => 0x5A
      | _ => 0 }
def onW : Whole := powerOn (.none { rom := Cart.pagesOf onImg, imgLen := 0x8000 }) false false
private theorem onW_constructed : Whole.construct onImg false false = some onW := rfl

/-- the hypotheses of `c17_whole_cycle` with the LCD on, in mode 3, in a cycle in which the CPU writes FE10 … -/
example : (Whole.run 21 onW).b.m.ppu.enabled = true ∧ (Whole.run 21 onW).b.m.ppu.mode = 3 ∧
    (Whole.run 21 onW).b.m.oam.dmaRunning = false ∧ cpuWrites (Whole.run 21 onW) = [(0xFE10, 0x5A)] ∧
    NoDmaStart (cpuWrites (Whole.run 21 onW)) ∧
    NoSwitchOn (Whole.run 21 onW).b.m.ppu.enabled (cpuWrites (Whole.run 21 onW)) ∧
    (Whole.run 21 onW).b.m.oam.oam[0x10] = 0 ∧ (Whole.run 21 onW).cycle.b.m.oam.oam[0x10] = 0x5A := by decide +kernel
/-- … where `Quiet` comes from the invariant of reachable states -/
example : Quiet (Whole.run 21 onW).b.m.oam :=
  (oamOk_run 21 _ (oamOk_construct _ _ _ _ onW_constructed)).quiet (Or.inr (by decide +kernel))

/-- the hypothesis `Quiet` matters: the documented mode-2 corruption IS in the model.  `LD HL,FE30; LD (HL),5A; NOP;
    LD A,(HL)` right after power-on (LCD on, mode 2, window open): in machine cycle 8 the CPU only READS FE30 – it
    performs no bus write at all – and OAM byte FE38, which the CPU never wrote, changes from 00 to 5A -/
def bugImg : Cart.Image :=
  { len := 0x8000,
    byte := fun i => match i with
      | 0x100 => 0x21 | 0x101 => 0x30 | 0x102 => 0xFE | 0x103 => 0x36 | 0x104 => 0x5A | 0x106 => 0x7E
      | _ => 0 }
def bugW : Whole := powerOn (.none { rom := Cart.pagesOf bugImg, imgLen := 0x8000 }) false false
example : Whole.construct bugImg false false = some bugW := rfl
example : (Whole.run 8 bugW).b.m.oam.corrupt = true ∧ (Whole.run 8 bugW).b.m.ppu.mode = 2 ∧
    cpuWrites (Whole.run 8 bugW) = [] ∧
    (Whole.run 8 bugW).b.m.oam.oam[0x38] = 0 ∧ (Whole.run 8 bugW).cycle.b.m.oam.oam[0x38] = 0x5A := by decide +kernel

end Tetro.C17Whole
