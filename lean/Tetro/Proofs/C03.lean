import Tetro.Lemmas.BusPlan
import Tetro.Lemmas.LogBusCycle
import Tetro.Proofs.C02
/-
C03 – memory reads and writes happen in the documented machine cycle.

The CPU model is generic in its bus, so it is run on a RECORDING bus (`Model/LogBus.lean`: the flat bus
plus a log of every read and write, in order).  Layers:

* `c03_logbus_sim`, `c03_logbus_sim_cycles` – recording does not change behaviour (micro-operation level
  and `ExecuteMachineCycle` level);
* `c03_access_sound`, `c03_at_most_one_access` – what ONE micro-operation appends to the log: its operand
  fetch (readParamA/B: the byte at PC) and its data accesses, given by a hand-written tag function, at most
  one per micro-operation (two for the interrupt dispatch);
* `c03_plan` – for EVERY instruction and EVERY state, the data accesses logged while running the effective
  schedule (all of `micro i`, or its not-taken prefix), numbered by the machine cycle (= index of the
  micro-operation, C02) that made them, are exactly the documented `busPlan i`, with the addresses of the
  documentation evaluated on the state at instruction start (SP tracked through PUSH/POP/CALL/RET/RST,
  HL taken before the post-increment/decrement, operands as fetched);
* `c03_plan_table`(`_gen`) – the same indexed by opcode over the documented tables and, via `c01_tables`,
  over the tables regenerated from dispatch.go;
* `c03_cycle_accesses`(`_gen`) – the same for the real `cycle` function from a fetch boundary: machine
  cycle k+1 appends to the log (cycle 1 only) the opcode fetch, then the operand fetch of its
  micro-operation, then exactly the documented data accesses of cycle k+1, and nothing else;
* `c03_value_read_then`, `c03_write_effect`, `c03_no_write_no_change` – the value a reading micro-operation
  consumes is the value the bus holds in THAT cycle, a writing micro-operation changes memory by exactly
  that write, and a micro-operation without a write access leaves memory, IE and IF unchanged;
* `c03_documented_examples` – LD A,(nn) reads in cycle 4, PUSH writes in cycles 3 and 4, INC (HL) reads
  in cycle 2 and writes in cycle 3.
-/
namespace Tetro.C03
open Tetro.Model.Cpu Tetro.Spec.Isa Tetro.Exec Tetro.BusLog

/-! ### recording does not change behaviour -/

/-- Any micro-operation run on the recording bus yields the same registers and the same flat bus as run on
    the flat bus directly. -/
theorem c03_logbus_sim (μ : MicroOp) (r : Regs) (m : LogBus) :
    (μ.run r m).1 = (μ.run r m.flat).1 ∧ (μ.run r m).2.flat = (μ.run r m.flat).2 := by
  rw [run_lb]; exact ⟨rfl, rfl⟩

/-- The same for any number of machine cycles of `ExecuteMachineCycle`, any tables. -/
theorem c03_logbus_sim_cycles (t : Tables) (k : Nat) (c : Cpu) (m : LogBus) :
    (cycles t k c m).1 = (cycles t k c m.flat).1 ∧ (cycles t k c m).2.flat = (cycles t k c m.flat).2 :=
  cycles_lb t k c m

/-! ### one micro-operation -/

/-- The log after a micro-operation = the log before ++ its operand fetch ++ its data accesses. -/
theorem c03_access_sound (μ : MicroOp) (r : Regs) (m : LogBus) :
    (μ.run r m).2.log = m.log ++ opFetch μ r ++ dataAccess μ r m.flat := by
  rw [run_lb]

/-- Every micro-operation makes at most one data access, except the interrupt dispatch (the two pushes of
    PC, or nothing when IME is clear), and a micro-operation that fetches an operand makes none. -/
theorem c03_at_most_one_access (μ : MicroOp) (r : Regs) (f : Flat) :
    (μ ≠ .handleInterrupt → (dataAccess μ r f).length ≤ 1) ∧
    (dataAccess .handleInterrupt r f).length = (if f.ime then 2 else 0) ∧
    (opFetch μ r ≠ [] → dataAccess μ r f = []) := by
  refine ⟨fun h => ?_, ?_, fun h => ?_⟩
  · cases μ with
    | handleInterrupt => exact absurd rfl h
    | alu op s => cases s <;> simp [dataAccess]
    | _ => simp [dataAccess]
  · simp only [dataAccess]; split <;> rfl
  · cases μ <;> simp [opFetch] at h <;> rfl

/-! ### one instruction -/

/-- C03, schedule level.  For every instruction `i`, all registers `r` (PC just past the opcode bytes) and
    every recording bus `m`: the DATA accesses logged while the effective schedule runs – the first
    `cyclesOf i taken` micro-operations of `micro i`, `taken` decided by the flags exactly as in C02 –
    each numbered by the machine cycle that made it, are the documented accesses `busPlan i taken` with
    their address expressions evaluated on the architectural state at instruction start.
    (No side condition is needed: it also holds for the encodings `decode` never produces.) -/
theorem c03_plan (i : Instr) (r : Regs) (m : LogBus) :
    let taken := (condOf i).all fun cc => cc.holds (abs r m.flat)
    runTrace ((micro i).take (cyclesOf i taken)) 1 r m =
      (busPlan i taken).map fun p => (p.1, p.2.1, p.2.2.eval (abs r m.flat)) := by
  intro taken
  rw [runTrace_eq]
  exact planOf_micro i r m.flat

/-- a concrete run: PUSH BC from SP = FFFE logs a write to FFFD in cycle 3 and to FFFC in cycle 4;
    POP AF, RET NZ (Z clear) and LD (HL+),A likewise -/
example : runTrace (micro (.push .bc)) 1 Regs.init ⟨⟨fun _ => 0, false, 0, 0⟩, []⟩ =
    [(3, .wr, 0xfffd), (4, .wr, 0xfffc)] := by decide
example : runTrace (micro (.pop .af)) 1 Regs.init ⟨⟨fun _ => 0, false, 0, 0⟩, []⟩ =
    [(2, .rd, 0xfffe), (3, .rd, 0xffff)] := by decide
example : runTrace (micro (.retCC .nz)) 1 { Regs.init with f := 0 } ⟨⟨fun _ => 0, false, 0, 0⟩, []⟩ =
    [(3, .rd, 0xfffe), (4, .rd, 0xffff)] := by decide
example : runTrace (micro (.ldIndA .hli)) 1 Regs.init ⟨⟨fun _ => 0, false, 0, 0⟩, []⟩ =
    [(2, .wr, 0x014d)] := by decide

/-- C03, table level: for every opcode that decodes to `i`, the schedule stored in the documented tables
    is `micro i`, so its logged data accesses follow `busPlan i`; likewise all 256 CB-prefixed opcodes. -/
theorem c03_plan_table (op : Nat) (hop : op < 256) (r : Regs) (m : LogBus) :
    (∀ i, decode op = some i →
      let taken := (condOf i).all fun cc => cc.holds (abs r m.flat)
      runTrace ((specTables.normal.getD op []).take (cyclesOf i taken)) 1 r m =
        (busPlan i taken).map fun p => (p.1, p.2.1, p.2.2.eval (abs r m.flat))) ∧
    runTrace (specTables.prefixed.getD op []) 1 r m =
      (busPlan (decodeCB op) true).map fun p => (p.1, p.2.1, p.2.2.eval (abs r m.flat)) := by
  refine ⟨fun i hi => ?_, ?_⟩
  · rw [spec_normal op hop, hi]; exact c03_plan i r m
  · rw [spec_prefixed op hop]
    have h := c03_plan (decodeCB op) r m
    have hc : condOf (decodeCB op) = none := (C02.c02_table_length op hop).2.2
    have hl : (micro (decodeCB op)).length = cyclesOf (decodeCB op) true :=
      micro_length _ (decodeCB_ne_ldhlhl op)
    simp only [hc, Option.all_none] at h
    rwa [← hl, List.take_length] at h

/-- the same for the tables regenerated from dispatch.go -/
theorem c03_plan_table_gen (op : Nat) (hop : op < 256) (r : Regs) (m : LogBus) :
    (∀ i, decode op = some i →
      let taken := (condOf i).all fun cc => cc.holds (abs r m.flat)
      runTrace ((Tables.gen.normal.getD op []).take (cyclesOf i taken)) 1 r m =
        (busPlan i taken).map fun p => (p.1, p.2.1, p.2.2.eval (abs r m.flat))) ∧
    runTrace (Tables.gen.prefixed.getD op []) 1 r m =
      (busPlan (decodeCB op) true).map fun p => (p.1, p.2.1, p.2.2.eval (abs r m.flat)) := by
  rw [C01.c01_tables]; exact c03_plan_table op hop r m

example : decode 0xfa = some (.ldAInd .nn) := by decide

/-! ### the value read is the value of that cycle; a write changes memory in that cycle -/

/-- A micro-operation whose only access is a read of address `a` (operand fetch or data read) consumes the
    value the bus holds when THAT micro-operation runs: on two buses that agree at `a` it leaves the same
    registers.  With C02 (micro-operation k runs in machine cycle k on the bus state the previous cycles
    left) the instruction sees the value present in its documented cycle. -/
theorem c03_value_read_then (μ : MicroOp) (r : Regs) (f f' : Flat) (a : Word)
    (h : opFetch μ r ++ dataAccess μ r f = [(.rd, a)]) (hv : f.read a = f'.read a) :
    (μ.run r f).1 = (μ.run r f').1 := by
  cases μ with
  | alu op s => cases s <;> simp [opFetch, dataAccess] at h <;> subst h <;> simp [MicroOp.run, hv]
  | handleInterrupt =>
    simp only [opFetch, dataAccess, List.nil_append] at h
    split at h <;> simp at h
  | loadA i => simp [opFetch, dataAccess] at h; subst h; simp [MicroOp.run, hv]
  | _ => simp [opFetch, dataAccess] at h <;> subst h <;> simp [MicroOp.run, hv, inc16F, dec16F, incSP]

/-- non-vacuity: `ldRM a` (LD A,(HL)) reads HL; two memories that differ elsewhere agree there -/
example : opFetch (.ldRM .a) Regs.init ++ dataAccess (.ldRM .a) Regs.init ⟨fun _ => 0, false, 0, 0⟩ =
    [(.rd, 0x014d)] := by decide
example : (⟨fun _ => 0, false, 0, 0⟩ : Flat).read 0x014d =
    (⟨fun x => if x = 0x014d then 0 else 7, false, 0, 0⟩ : Flat).read 0x014d := by decide

/-- and it really depends on that value: LD A,(HL) leaves in A what the bus holds at HL at that moment -/
theorem c03_read_value_used (r : Regs) (f : Flat) : ((MicroOp.ldRM .a).run r f).1.a = f.read r.hl := rfl

/-- A micro-operation whose only data access is a write to `a` changes the bus by exactly one write to `a`. -/
theorem c03_write_effect (μ : MicroOp) (r : Regs) (f : Flat) (a : Word)
    (h : dataAccess μ r f = [(.wr, a)]) : ∃ v, (μ.run r f).2 = f.write a v := by
  cases μ with
  | alu op s => cases s <;> simp [dataAccess] at h
  | handleInterrupt => simp only [dataAccess] at h; split at h <;> simp at h
  | _ => simp [dataAccess] at h <;> subst h <;>
      simp [MicroOp.run, pushCell, decSP, inc16F, dec16F] <;> exact ⟨_, rfl⟩

example : dataAccess (.push .b) Regs.init ⟨fun _ => 0, false, 0, 0⟩ = [(.wr, 0xfffd)] := by decide

/-- A micro-operation without a write access leaves memory, IE and IF as they were (only IME can change):
    memory changes only in the cycles that log a write. -/
theorem c03_no_write_no_change (μ : MicroOp) (r : Regs) (f : Flat)
    (h : ∀ a, (Kind.wr, a) ∉ dataAccess μ r f) :
    (μ.run r f).2.mem = f.mem ∧ (μ.run r f).2.ie = f.ie ∧ (μ.run r f).2.ifl = f.ifl := by
  cases μ with
  | alu op s => cases s <;> simp [MicroOp.run]
  | inc16 k => cases k <;> simp [MicroOp.run, inc16F, incSP]
  | dec16 k => cases k <;> simp [MicroOp.run, dec16F, decSP]
  | handleInterrupt =>
    cases hi : f.ime
    · simp [MicroOp.run, handleInterruptF, hi]
    · simp [dataAccess, hi] at h
      exact absurd rfl (h (r.sp - 1)).1
  | _ => first
    | (simp [MicroOp.run, inc16F, dec16F, incSP]; done)
    | (exfalso; simp [dataAccess] at h)

example : ∀ a, (Kind.wr, a) ∉ dataAccess (.pop .b) Regs.init ⟨fun _ => 0, false, 0, 0⟩ := by
  intro a; simp [dataAccess]

/-! ### the cycle-level statement -/

/-- operand fetch of the `k`-th micro-operation of a schedule -/
def opFetchAt (ops : List MicroOp) (k : Nat) (r : Regs) : List (Kind × Word) :=
  match ops[k]? with
  | some μ => opFetch μ r
  | none => []

private theorem taken_fetch (i : Instr) (r : Regs) (cb : Bool) (m m' : Flat) :
    takenOf i (abs (fetchRegs r cb) m') = (condOf i).all fun cc => cc.holds (abs r m) := by
  unfold takenOf
  cases condOf i with
  | none => rfl
  | some cc => cases cc <;> rfl

/-- the length the model decides (`lenOf`) is the documented one: both are THE point where the CPU is at
    a boundary again (C02 on one side, `run_loaded` on the other) -/
private theorem lenOf_eq (c : Cpu) (m : Flat) (i : Instr) (h : AtFetch c m)
    (hi : instrAt c.regs.pc m = some i) :
    lenOf (fetch specTables c c.regs m).cpu (fetch specTables c c.regs m).bus =
      cyclesOf i ((condOf i).all fun cc => cc.holds (abs c.regs m)) := by
  obtain ⟨hL, hE, hne⟩ := fetch_spec_loaded c m i h hi
  have hn := next_fetch' specTables c m h
  have hr := run_loaded specTables c m h.boundary _ _ hn hL hE hne
  have hpos := lenOf_pos _ (fetch specTables c c.regs m).bus hE hne
  obtain ⟨h0, hbefore, hfin, _⟩ := C02.c02_cycles c m i h hi
  obtain ⟨ha, _, hfin', _⟩ := hr
  rcases Nat.lt_trichotomy (lenOf (fetch specTables c c.regs m).cpu (fetch specTables c c.regs m).bus)
    (cyclesOf i ((condOf i).all fun cc => cc.holds (abs c.regs m))) with hlt | heq | hgt
  · have := hbefore _ hpos hlt
    rw [hfin'] at this; cases this
  · exact heq
  · have := (ha _ h0 hgt).2
    rw [hfin] at this; cases this

/-- C03, cycle level.  From a fetch boundary where the opcode byte(s) decode to `i`, running the real
    `cycle` function on the recording bus: for every k < n = `cyclesOf i taken`, machine cycle k+1 appends
    to the log exactly
      (cycle 1 only) the opcode fetch,
      the operand fetch of its micro-operation (if it is readParamA/B),
      the documented data accesses of cycle k+1 (`busPlan i taken` filtered by cycle, addresses
      evaluated on the state the fetch left),
    and the registers and the bus before that cycle are the in-order run of the first k micro-operations.
    So a device on the bus sees every data access in the documented machine cycle and no other access. -/
theorem c03_cycle_accesses (c : Cpu) (m : LogBus) (i : Instr) (h : AtFetch c m.flat)
    (hi : instrAt c.regs.pc m.flat = some i) :
    let taken := (condOf i).all fun cc => cc.holds (abs c.regs m.flat)
    let n := cyclesOf i taken
    let r0 := fetchRegs c.regs (decide (m.flat.read c.regs.pc = 0xcb))
    let m0 : Flat := { m.flat with ime := m.flat.ime || c.regs.eiPending }
    ∀ k, k < n →
      (0 < k → (cycles specTables k c m).1.regs = (runList ((micro i).take k) r0 m0).1 ∧
               (cycles specTables k c m).2.flat = (runList ((micro i).take k) r0 m0).2) ∧
      (cycles specTables (k + 1) c m).2.log =
        (cycles specTables k c m).2.log
          ++ (if k = 0 then fetchReads c.regs m.flat else [])
          ++ opFetchAt (micro i) k (runList ((micro i).take k) r0 m0).1
          ++ ((busPlan i taken).filter fun p => p.1 == k + 1).map
               fun p => (p.2.1, p.2.2.eval (abs r0 m0)) := by
  intro taken n r0 m0 k hk
  obtain ⟨hL, hE, hne⟩ := fetch_spec_loaded c m.flat i h hi
  have hn := next_fetch' specTables c m.flat h
  have hr := run_loaded specTables c m.flat h.boundary _ _ hn hL hE hne
  have hle := lenOf_le _ (fetch specTables c c.regs m.flat).bus hE
  rw [lenOf_eq c m.flat i h hi] at hr hle
  have hfs := fetch_spec c c.regs m.flat i hi
  rw [hfs] at hr hle hn
  dsimp only at hr hle
  have hk2 : k < (micro i).length := Nat.lt_of_lt_of_le hk hle
  have hget : (micro i)[k]? = some (micro i)[k] := List.getElem?_eq_getElem hk2
  have hda := dataAccess_at i r0 m0 k (by rw [taken_fetch i c.regs _ m.flat m0]; exact hk) hk2
  rw [taken_fetch i c.regs _ m.flat m0] at hda
  obtain ⟨ha, _⟩ := hr
  rw [cycles_log_succ]
  by_cases hk0 : k = 0
  · subst hk0
    refine ⟨fun h0 => absurd h0 (Nat.lt_irrefl 0), ?_⟩
    have hci := checkInterrupts_none specTables c.regs m.flat h.2.2.2.1 h.2.2.2.2.2
    have hcl : cycleLog specTables c m.flat =
        fetchReads c.regs m.flat ++ (opFetch (micro i)[0] r0 ++ dataAccess (micro i)[0] r0 m0) := by
      unfold cycleLog
      rw [h.2.1, h.2.2.1, h.1, hn]
      simp only [Bool.or_self, Bool.false_eq_true, if_false, if_true, nextLog, hci, h.2.2.2.1,
        h.2.2.2.2.1, stepLog, hget]
      rfl
    simp only [List.take_zero, runList_nil] at hda
    simp only [cycles_zero, hcl, if_true, opFetchAt, hget, List.take_zero, runList_nil,
      List.append_assoc]
    rw [hda]
  · have h0 : 0 < k := Nat.pos_of_ne_zero hk0
    obtain ⟨hst, hnf⟩ := ha k h0 hk
    have hcyc := c03_logbus_sim_cycles specTables k c m
    refine ⟨fun _ => ⟨by rw [hcyc.1, hst]; rfl, by rw [hcyc.2, hst]; rfl⟩, ?_⟩
    have hex := after_exited _ hL (fetch specTables c c.regs m.flat).bus k
    rw [hfs] at hex
    dsimp only at hex
    have hcl : cycleLog specTables (cycles specTables k c m.flat).1 (cycles specTables k c m.flat).2 =
        opFetch (micro i)[k] (runList ((micro i).take k) r0 m0).1 ++
          dataAccess (micro i)[k] (runList ((micro i).take k) r0 m0).1 (runList ((micro i).take k) r0 m0).2 := by
      unfold cycleLog
      rw [hnf, hst, hex]
      have hcr : (after { c with regs := r0, ops := micro i, cycle := 0, early := earlyOf i } m0 k).1.crashed
          = false := h.2.1
      rw [hcr]
      simp only [Bool.or_self, Bool.false_eq_true, if_false, stepLog, after, hget]
      rfl
    simp only [hcl, if_neg hk0, opFetchAt, hget, List.append_nil, List.append_assoc]
    rw [hda]

/-- the same for the tables regenerated from dispatch.go -/
theorem c03_cycle_accesses_gen (c : Cpu) (m : LogBus) (i : Instr) (h : AtFetch c m.flat)
    (hi : instrAt c.regs.pc m.flat = some i) :
    let taken := (condOf i).all fun cc => cc.holds (abs c.regs m.flat)
    let n := cyclesOf i taken
    let r0 := fetchRegs c.regs (decide (m.flat.read c.regs.pc = 0xcb))
    let m0 : Flat := { m.flat with ime := m.flat.ime || c.regs.eiPending }
    ∀ k, k < n →
      (0 < k → (cycles Tables.gen k c m).1.regs = (runList ((micro i).take k) r0 m0).1 ∧
               (cycles Tables.gen k c m).2.flat = (runList ((micro i).take k) r0 m0).2) ∧
      (cycles Tables.gen (k + 1) c m).2.log =
        (cycles Tables.gen k c m).2.log
          ++ (if k = 0 then fetchReads c.regs m.flat else [])
          ++ opFetchAt (micro i) k (runList ((micro i).take k) r0 m0).1
          ++ ((busPlan i taken).filter fun p => p.1 == k + 1).map
               fun p => (p.2.1, p.2.2.eval (abs r0 m0)) := by
  rw [C01.c01_tables]; exact c03_cycle_accesses c m i h hi

/-- non-vacuity: PUSH BC (0xC5) at 0x0100 on an otherwise empty recording bus is a fetch boundary -/
example : AtFetch Cpu.init (⟨⟨fun _ => 0xc5, false, 0, 0⟩, []⟩ : LogBus).flat := by
  refine ⟨?_, ?_, ?_, ?_, ?_, ?_⟩ <;> decide
example : instrAt Cpu.init.regs.pc (⟨⟨fun _ => 0xc5, false, 0, 0⟩, []⟩ : LogBus).flat =
    some (.push .bc) := by decide
/-- … and the real `cycle` function logs, over its 4 cycles: opcode fetch, nothing, nothing, write FFFD, write FFFC -/
example : (cycles specTables 4 Cpu.init (⟨⟨fun _ => 0xc5, false, 0, 0⟩, []⟩ : LogBus)).2.log =
    [(.rd, 0x0100), (.wr, 0xfffd), (.wr, 0xfffc)] := by decide +kernel
example : (cycles specTables 2 Cpu.init (⟨⟨fun _ => 0xc5, false, 0, 0⟩, []⟩ : LogBus)).2.log =
    [(.rd, 0x0100)] := by decide +kernel

/-! ### the examples of the property text -/

/-- LD A,(nn) reads (nn) in cycle 4; PUSH rr writes SP-1 in cycle 3 and SP-2 in cycle 4; INC (HL) reads
    (HL) in cycle 2 and writes it in cycle 3 – as documented plans and as logged runs, for all states. -/
theorem c03_documented_examples (rp : Rp2) (r : Regs) (m : LogBus) :
    busPlan (.ldAInd .nn) true = [(4, .rd, .nn)] ∧
    busPlan (.push rp) true = [(3, .wr, .spMinus 1), (4, .wr, .spMinus 2)] ∧
    busPlan (.inc .hlm) true = [(2, .rd, .hl), (3, .wr, .hl)] ∧
    runTrace (micro (.ldAInd .nn)) 1 r m =
      [(4, .rd, w16 (m.flat.read (r.pc + 1)) (m.flat.read r.pc))] ∧
    runTrace (micro (.push rp)) 1 r m = [(3, .wr, r.sp - 1), (4, .wr, r.sp - 2)] ∧
    runTrace (micro (.inc .hlm)) 1 r m = [(2, .rd, r.hl), (3, .wr, r.hl)] := by
  refine ⟨rfl, rfl, rfl, ?_, ?_, ?_⟩
  · have := c03_plan (.ldAInd .nn) r m
    simpa [condOf, cyclesOf, micro, busPlan, AExpr.eval, imm16, St.rd] using this
  · have := c03_plan (.push rp) r m
    cases rp <;> simpa [condOf, cyclesOf, micro, busPlan, AExpr.eval, sub_ofNat_one] using this
  · have := c03_plan (.inc .hlm) r m
    simpa [condOf, cyclesOf, micro, busPlan, AExpr.eval] using this

end Tetro.C03
