import Tetro.Model.Oam
import Tetro.Spec.Dma
import Tetro.Lemmas.Oam
/-
C16 – an OAM DMA transfer copies 160 bytes and blocks OAM meanwhile.

Theorems about the code model `Model.Oam` against the documentation-shaped `Spec.Dma`.
Every statement about "after the write to FF46" is for an ARBITRARY state before the write
(any history, including a transfer in progress), so "the last write to FF46" of the property
is covered: whatever happened before, the state after `writeDMA` is some state `s`.
-/
namespace Tetro.C16
open Tetro.Model Tetro.Model.Oam

/-! ### the progress invariant of a transfer -/

/-- `n` machine cycles (`n ≤ 161`) after the write: the transfer runs, `dmaCycle = n`, the latch
    holds the byte sampled in cycle `n`, and the bytes `k ≤ n-3` have landed with the value the bus
    had in cycle `k+2`. `B` is the (mirrored) base address, `bus t` the bus of cycle `t`. -/
structure Prog (B : Nat) (bus : Nat → Addr → Byte) (n : Nat) (s : Oam) : Prop where
  running : s.dmaRunning = true
  cyc : s.dmaCycle.toNat = n
  base : s.dmaBaseAddr.toNat = B
  latch : 2 ≤ n → s.dmaRead = bus n (BitVec.ofNat 16 (B + (n - 2)))
  landed : ∀ k (h : k < 160), k + 3 ≤ n → s.oam[k] = bus (k + 2) (BitVec.ofNat 16 (B + k))

/-- the transfer is over: all 160 bytes hold what the bus returned when they were sampled -/
structure Done (B : Nat) (bus : Nat → Addr → Byte) (s : Oam) : Prop where
  stopped : s.dmaRunning = false
  all : ∀ k (h : k < 160), s.oam[k] = bus (k + 2) (BitVec.ofNat 16 (B + k))

private theorem toNat_ofNat16 (x : Nat) (h : x < 65536) : (BitVec.ofNat 16 x).toNat = x := by
  simp [BitVec.toNat_ofNat]; omega

private theorem incCycle_toNat (s : Oam) :
    (incCycle s).dmaCycle.toNat = (s.dmaCycle.toNat + 1) % 65536 := by
  simp [incCycle, add16, BitVec.toNat_ofNat]

/-- one `TickDMA` advances the invariant (cycles 0..160) -/
private theorem prog_tick {B : Nat} {bus : Nat → Addr → Byte} {n : Nat} {s : Oam}
    (hB : B + 160 < 65536) (hn : n ≤ 160) (p : Prog B bus n s) :
    ∃ s', tickDMA s (bus (n + 1)) = some s' ∧ Prog B bus (n + 1) s' ∧
      s'.dma = s.dma ∧ s'.ppuLastAccess = s.ppuLastAccess ∧ s'.corrupt = s.corrupt ∧
      s'.read = s.read ∧ s'.write = s.write ∧ s'.doubleWrite = s.doubleWrite := by
  obtain ⟨hr, hc, hb, hl, hd⟩ := p
  have hc' : s.dmaCycle.toNat < 65535 := by omega
  by_cases h0 : n = 0
  · subst h0
    refine ⟨incCycle s, by simp [tickDMA, hr, hc], ⟨hr, ?_, hb, ?_, ?_⟩, rfl, rfl, rfl, rfl, rfl, rfl⟩
    · rw [incCycle_toNat, hc]
    · intro h; omega
    · intro k h h3; omega
  by_cases h1 : n = 1
  · subst h1
    refine ⟨incCycle { s with dmaRead := bus 2 s.dmaBaseAddr }, by simp [tickDMA, hr, hc],
      ⟨hr, ?_, hb, ?_, ?_⟩, rfl, rfl, rfl, rfl, rfl, rfl⟩
    · rw [incCycle_toNat]; show (s.dmaCycle.toNat + 1) % 65536 = _; omega
    · intro _
      have e : BitVec.ofNat 16 (B + (1 + 1 - 2)) = s.dmaBaseAddr := by
        apply BitVec.eq_of_toNat_eq
        rw [toNat_ofNat16 _ (by omega)]; omega
      rw [e]; rfl
    · intro k h h3; omega
  · -- cycles 2..160: store byte n-2, sample byte n-1
    have hidx : sub16 s.dmaCycle.toNat 2 = n - 2 := by simp [sub16, hc]; omega
    have hlt : n - 2 < 160 := by omega
    have hst : st s.oam (sub16 s.dmaCycle.toNat 2) s.dmaRead = some (s.oam.set (n - 2) s.dmaRead hlt) := by
      simp only [st, hidx]; rw [dif_pos hlt]
    have c0 : ¬ s.dmaCycle.toNat = 0 := by omega
    have c1 : ¬ s.dmaCycle.toNat = 1 := by omega
    have c161 : ¬ s.dmaCycle.toNat = 161 := by omega
    refine ⟨incCycle { s with oam := s.oam.set (n - 2) s.dmaRead hlt,
                              dmaRead := bus (n + 1) (BitVec.ofNat 16
                                (sub16 (add16 s.dmaBaseAddr.toNat s.dmaCycle.toNat) 1)) }, ?_,
      ⟨hr, ?_, hb, ?_, ?_⟩, rfl, rfl, rfl, rfl, rfl, rfl⟩
    · simp [tickDMA, hr, c0, c1, c161, hst]
    · rw [incCycle_toNat]; show (s.dmaCycle.toNat + 1) % 65536 = _; omega
    · intro _
      have e : sub16 (add16 s.dmaBaseAddr.toNat s.dmaCycle.toNat) 1 = B + (n + 1 - 2) := by
        simp only [sub16, add16, hb, hc]; omega
      rw [← e]; rfl
    · intro k h h3
      show (s.oam.set (n - 2) s.dmaRead hlt)[k] = _
      rw [Vector.getElem_set]
      split
      · next e =>
        have e2 : n - 2 + 2 = n := by omega
        rw [hl (by omega), ← e, e2]
      · next e => exact hd k h (by omega)

/-- `TickDMA` number 162 (cycle 161) stores the last byte and ends the transfer -/
private theorem prog_last {B : Nat} {bus : Nat → Addr → Byte} {s : Oam} (p : Prog B bus 161 s) :
    ∃ s', tickDMA s (bus 162) = some s' ∧ Done B bus s' ∧
      s'.dma = s.dma ∧ s'.ppuLastAccess = s.ppuLastAccess ∧ s'.corrupt = s.corrupt ∧
      s'.read = s.read ∧ s'.write = s.write ∧ s'.doubleWrite = s.doubleWrite := by
  obtain ⟨hr, hc, hb, hl, hd⟩ := p
  refine ⟨incCycle { s with oam := s.oam.set 159 s.dmaRead (by omega), dmaRunning := false }, ?_,
    ⟨rfl, ?_⟩, rfl, rfl, rfl, rfl, rfl, rfl⟩
  · simp [tickDMA, hr, hc, st]
  · intro k h
    show (s.oam.set 159 s.dmaRead (by omega))[k] = _
    rw [Vector.getElem_set]
    split
    · next e => rw [hl (by omega), ← e]
    · next e => exact hd k h (by omega)

private theorem runTicks_succ (s : Oam) (bus : Nat → Addr → Byte) (t0 n : Nat) :
    runTicks s bus t0 (n + 1) = (runTicks s bus t0 n).bind fun s' => tickDMA s' (bus (t0 + n + 1)) := rfl

/-- once the transfer is over, `TickDMA` does nothing -/
private theorem tick_idle (s : Oam) (rd : Addr → Byte) (h : s.dmaRunning = false) :
    tickDMA s rd = some s := by simp [tickDMA, h]

/-- base address after `WriteDMA`, as a number -/
private theorem base_writeDMA (s : Oam) (xx : Byte) :
    (writeDMA s xx).dmaBaseAddr.toNat = Spec.Dma.sourceAddr xx.toNat 0 := by
  have hx := xx.isLt
  simp only [writeDMA, startDMA, Spec.Dma.sourceAddr, Nat.shiftLeft_eq, sub16]
  split <;> split <;> simp [BitVec.toNat_ofNat] <;> omega

private theorem sourceAddr_add (xx k : Nat) :
    Spec.Dma.sourceAddr xx k = Spec.Dma.sourceAddr xx 0 + k := by
  simp only [Spec.Dma.sourceAddr]; split <;> omega

private theorem sourceAddr_bound (xx : Nat) (h : xx < 256) : Spec.Dma.sourceAddr xx 0 + 160 < 65536 := by
  simp only [Spec.Dma.sourceAddr]; split <;> omega

/-- the state right after the FF46 write satisfies the invariant at 0 -/
private theorem prog_start (s : Oam) (xx : Byte) (bus : Nat → Addr → Byte) :
    Prog (Spec.Dma.sourceAddr xx.toNat 0) bus 0 (writeDMA s xx) :=
  ⟨rfl, rfl, base_writeDMA s xx, by intro h; omega, by intro k h h3; omega⟩

/-- `n ≤ 161` ticks after the write the invariant holds at `n` (and nothing panicked) -/
private theorem prog_run (s : Oam) (xx : Byte) (bus : Nat → Addr → Byte) :
    ∀ n, n ≤ 161 → ∃ t, runTicks (writeDMA s xx) bus 0 n = some t ∧
      Prog (Spec.Dma.sourceAddr xx.toNat 0) bus n t ∧ t.dma = xx
  | 0, _ => ⟨_, rfl, prog_start s xx bus, rfl⟩
  | n + 1, h => by
    obtain ⟨t, ht, pt, hd⟩ := prog_run s xx bus n (by omega)
    obtain ⟨t', ht', pt', hd', _⟩ := prog_tick (sourceAddr_bound _ xx.isLt) (by omega) pt
    refine ⟨t', ?_, pt', by rw [hd', hd]⟩
    rw [runTicks_succ, ht, Option.bind_some, Nat.zero_add]; exact ht' 

/-- 162 ticks after the write the transfer is over -/
private theorem done_run (s : Oam) (xx : Byte) (bus : Nat → Addr → Byte) :
    ∃ t, runTicks (writeDMA s xx) bus 0 162 = some t ∧
      Done (Spec.Dma.sourceAddr xx.toNat 0) bus t ∧ t.dma = xx := by
  obtain ⟨t, ht, pt, hd⟩ := prog_run s xx bus 161 (by omega)
  obtain ⟨t', ht', dt', hd', _⟩ := prog_last pt
  refine ⟨t', ?_, dt', by rw [hd', hd]⟩
  rw [show (162 : Nat) = 161 + 1 from rfl, runTicks_succ, ht, Option.bind_some]; exact ht' 

/-! ### the property theorems -/

/-- C16 (copy).  For every page XX ≤ F1, every state `s` before the write (any history), and every
    evolution of the bus (`bus t` = the read function seen by the `t`-th `TickDMA` after the write):
    the 162 ticks do not panic, afterwards `dmaRunning = false` and OAM byte `k` is what the
    documentation prescribes, `Spec.Dma.oamAfter`: the value the bus returned for the source address
    of byte `k` in machine cycle `k+2`. -/
theorem c16_copy (xx : Byte) (_hxx : Spec.Dma.pageInRange xx.toNat) (bus : Nat → Addr → Byte) (s : Oam) :
    ∃ t, runTicks (writeDMA s xx) bus 0 Spec.Dma.duration = some t ∧ t.dmaRunning = false ∧
      ∀ k (h : k < 160),
        t.oam[k] = Spec.Dma.oamAfter xx.toNat (fun c a => bus c (BitVec.ofNat 16 a)) k := by
  obtain ⟨t, ht, dt, _⟩ := done_run s xx bus
  refine ⟨t, ht, dt.stopped, fun k h => ?_⟩
  rw [dt.all k h]
  simp only [Spec.Dma.oamAfter, Spec.Dma.sampleTick]
  rw [sourceAddr_add xx.toNat k]

/-- non-vacuity of `c16_copy`: page C1, a bus that returns (low address byte + cycle number): byte 5
    is sampled in cycle 7 from C105 → 0x05 + 7 -/
example :
    ((runTicks (writeDMA init 0xC1) (fun c a => a.setWidth 8 + BitVec.ofNat 8 c) 0 162).map
      fun t => (t.dmaRunning, t.oam[5], t.oam[159])) = some (false, 0x0c, 0x40) := by decide +kernel
example : Spec.Dma.pageInRange (0xC1 : Byte).toNat := by decide

/-- C16 (mirror): the base address the code computes (`XX<<8`, minus 0x2000 from E000 up) is the
    documented source: XX00 below E0, and the work-RAM original C000 + (XX−E0)·100h of the echo
    page for E0–F1.  (For F2–FF, outside the property, the code applies the same echo rule.) -/
theorem c16_mirror (s : Oam) (xx : Byte) (k : Nat) (hk : k < 160) :
    (startDMA s xx).dmaBaseAddr.toNat + k = Spec.Dma.sourceAddr xx.toNat k ∧
    (xx.toNat < 0xE0 → Spec.Dma.sourceAddr xx.toNat k = xx.toNat * 256 + k) ∧
    (0xE0 ≤ xx.toNat → Spec.Dma.sourceAddr xx.toNat k = xx.toNat * 256 + k - 0x2000 ∧
        0xC000 ≤ Spec.Dma.sourceAddr xx.toNat k ∧ Spec.Dma.sourceAddr xx.toNat k < 0xE000) := by
  have hb := base_writeDMA s xx
  have hx := xx.isLt
  refine ⟨?_, ?_, ?_⟩
  · have : (startDMA s xx).dmaBaseAddr = (writeDMA s xx).dmaBaseAddr := rfl
    rw [this, hb, sourceAddr_add xx.toNat k]
  · intro h; simp only [Spec.Dma.sourceAddr]; split <;> omega
  · intro h; simp only [Spec.Dma.sourceAddr]; split <;> omega

/-- C16 (block): while a transfer runs, a CPU read of ANY address routed to OAM (FE00–FEFF, in fact
    any address) returns 0xFF and changes nothing; a PPU read returns 0xFF too. -/
theorem c16_block (s : Oam) (a : Addr) (h : s.dmaRunning = true) :
    cpuRead s a = some (s, 0xff) ∧ ppuRead s a = some ({ s with ppuLastAccess := a }, 0xff) := by
  simp [cpuRead, ppuRead, h]

/-- C16 (busy): the transfer runs during the whole window – after `n < 162` ticks `dmaRunning`
    still holds, i.e. (by `c16_block`) every OAM read in the window returns 0xFF, exactly as long
    as `Spec.Dma.busy` says. -/
theorem c16_busy (xx : Byte) (bus : Nat → Addr → Byte) (s : Oam) (n : Nat) (hn : n ≤ Spec.Dma.duration) :
    ∃ t, runTicks (writeDMA s xx) bus 0 n = some t ∧ t.dmaRunning = Spec.Dma.busy n := by
  simp only [Spec.Dma.duration] at hn
  by_cases h : n ≤ 161
  · obtain ⟨t, ht, pt, _⟩ := prog_run s xx bus n h
    refine ⟨t, ht, ?_⟩
    rw [pt.running]; simp only [Spec.Dma.busy, Spec.Dma.duration]
    exact (decide_eq_true (by omega : n < 162)).symm
  · have : n = 162 := by omega
    subst this
    obtain ⟨t, ht, dt, _⟩ := done_run s xx bus
    exact ⟨t, ht, by rw [dt.stopped]; simp [Spec.Dma.busy, Spec.Dma.duration]⟩

example : (runTicks (writeDMA init 0x80) (fun _ _ => 0x5a) 0 161).map (·.dmaRunning) = some true := by
  decide +kernel

/-- C16 (restart): a write to FF46 during a running transfer (at any point, in any state) restarts
    it from cycle 0 with the new page; OAM itself is not touched by the write, so the bytes already
    copied stay until the new transfer overwrites them (which `c16_copy`, applied to the state at
    the restart, says it does completely). -/
theorem c16_restart (s : Oam) (yy : Byte) :
    (writeDMA s yy).dmaRunning = true ∧ (writeDMA s yy).dmaCycle = 0 ∧
    (writeDMA s yy).oam = s.oam ∧
    (writeDMA s yy).dmaBaseAddr.toNat = Spec.Dma.sourceAddr yy.toNat 0 :=
  ⟨rfl, rfl, rfl, base_writeDMA s yy⟩

/-- C16 (restart keeps the copied prefix): `n ≤ 161` ticks into a transfer of page XX the bytes
    `k ≤ n−3` hold their final values, and they still do right after a restart with page YY. -/
theorem c16_restart_keeps (xx yy : Byte) (bus : Nat → Addr → Byte) (s : Oam) (n : Nat) (hn : n ≤ 161) :
    ∃ t, runTicks (writeDMA s xx) bus 0 n = some t ∧
      ∀ k (h : k < 160), k + 3 ≤ n →
        (writeDMA t yy).oam[k] = Spec.Dma.oamAfter xx.toNat (fun c a => bus c (BitVec.ofNat 16 a)) k := by
  obtain ⟨t, ht, pt, _⟩ := prog_run s xx bus n hn
  refine ⟨t, ht, fun k h h3 => ?_⟩
  show t.oam[k] = _
  rw [pt.landed k h h3]
  simp only [Spec.Dma.oamAfter, Spec.Dma.sampleTick]
  rw [sourceAddr_add xx.toNat k]

example : ((runTicks (writeDMA init 0xC1) (fun c a => a.setWidth 8 + BitVec.ofNat 8 c) 0 40).map
      fun t => ((writeDMA t 0x12).oam[37], (writeDMA t 0x12).oam[38], (writeDMA t 0x12).dmaCycle)) =
      some (0x25 + 39, 0, 0) := by decide +kernel

/-- C16 (read-back, one step): FF46 reads the value just written, and no other exported operation
    changes what FF46 reads. -/
theorem c16_readback_step (s : Oam) (v : Byte) :
    readDMA (writeDMA s v) = v ∧
    ∀ (op : Op) (s' : Oam), (∀ w, op ≠ .writeDMA w) → step s op = some s' → readDMA s' = readDMA s := by
  refine ⟨rfl, ?_⟩
  intro op s' hop hs
  cases op with
  | read a =>
    simp only [step] at hs
    rw [Option.map_eq_some_iff] at hs
    obtain ⟨p, hp, rfl⟩ := hs
    rcases cpuRead_shape hp with e | ⟨_, _, e⟩ <;> rw [e] <;> rfl
  | write a v =>
    have hf : (writeFlags s).dma = s.dma := by
      unfold writeFlags
      split
      · split <;> rfl
      · rfl
    obtain ⟨h1, h2⟩ := cpuWrite_shape (show cpuWrite s a v = some s' from hs)
    by_cases hlt : a.toNat < 0xfea0
    · obtain ⟨hi, e⟩ := h1 hlt; rw [e]; exact hf
    · rw [h2 (by omega)]; exact hf
  | ppuRead a =>
    simp only [step] at hs
    rw [Option.map_eq_some_iff] at hs
    obtain ⟨p, hp, rfl⟩ := hs
    rw [ppuRead_shape hp]; rfl
  | trigger a =>
    simp only [step, triggerWriteCorruption] at hs
    cases hs
    split
    · rfl
    · split <;> rfl
  | corrupt =>
    rcases corruptStep_shape (show corruptStep s = some s' from hs) with ⟨_, _, e⟩ | ⟨_, m, e⟩ <;>
      rw [e] <;> rfl
  | enter => cases hs; rfl
  | exit => cases hs; rfl
  | writeDMA w => exact absurd rfl (hop w)
  | readDMA => cases hs; rfl
  | tick rd => exact (tickDMA_shape (show tickDMA s rd = some s' from hs)).1

/-- C16 (read-back): after a write of `v` to FF46, FF46 reads `v` after ANY history of other
    operations (ticks, CPU/PPU accesses, corruption, …) that contains no further FF46 write. -/
theorem c16_readback (s : Oam) (v : Byte) (ops : List Op) (s' : Oam)
    (hno : ∀ op ∈ ops, ∀ w, op ≠ .writeDMA w) (hrun : run (writeDMA s v) ops = some s') :
    readDMA s' = v := by
  suffices ∀ (ops : List Op) (t : Oam), (∀ op ∈ ops, ∀ w, op ≠ .writeDMA w) → run t ops = some s' →
      readDMA s' = readDMA t from this ops _ hno hrun
  intro ops
  induction ops with
  | nil => intro t _ h; cases h; rfl
  | cons op ops ih =>
    intro t hno h
    simp only [run] at h
    rw [Option.bind_eq_some_iff] at h
    obtain ⟨t', ht', h⟩ := h
    rw [ih t' (fun o ho => hno o (List.mem_cons_of_mem _ ho)) h]
    exact (c16_readback_step t 0).2 op t' (hno op List.mem_cons_self) ht'

example : (run (writeDMA init 0xE5) [.tick (fun _ => 1), .read 0xfe00, .ppuRead 0xfe20, .enter, .write 0xfe10 7, .corrupt,
    .tick (fun _ => 2), .readDMA]).map readDMA = some 0xE5 := by decide +kernel

/-- C16 (done unblocks): after the 162 ticks a CPU read of FE00+k (k < 160) returns the byte the
    transfer put there – the documented source byte – and FEA0–FEFF read 0. -/
theorem c16_done_unblocks (xx : Byte) (_hxx : Spec.Dma.pageInRange xx.toNat) (bus : Nat → Addr → Byte)
    (s : Oam) :
    ∃ t, runTicks (writeDMA s xx) bus 0 Spec.Dma.duration = some t ∧
      (∀ k, k < 160 → ∃ p, cpuRead t (BitVec.ofNat 16 (0xfe00 + k)) = some p ∧
          p.2 = Spec.Dma.cpuSees Spec.Dma.duration
                  (Spec.Dma.oamAfter xx.toNat (fun c a => bus c (BitVec.ofNat 16 a)) k)) ∧
      (∀ k, 160 ≤ k → k < 256 → ∃ p, cpuRead t (BitVec.ofNat 16 (0xfe00 + k)) = some p ∧ p.2 = 0) := by
  obtain ⟨t, ht, hstop, hall⟩ := c16_copy xx _hxx bus s
  refine ⟨t, ht, ?_, ?_⟩
  · intro k hk
    have ha : (BitVec.ofNat 16 (0xfe00 + k)).toNat = 0xfe00 + k := toNat_ofNat16 _ (by omega)
    obtain ⟨p, hp, hv⟩ := cpuRead_value (s := t) (a := BitVec.ofNat 16 (0xfe00 + k)) (by omega) (by omega)
    refine ⟨p, hp, ?_⟩
    rw [hv, hstop]
    simp only [ha, Nat.add_sub_cancel_left, Spec.Dma.cpuSees, Spec.Dma.busy, Spec.Dma.duration]
    rw [dif_pos hk, hall k hk]
    simp
  · intro k h1 h2
    have ha : (BitVec.ofNat 16 (0xfe00 + k)).toNat = 0xfe00 + k := toNat_ofNat16 _ (by omega)
    obtain ⟨p, hp, hv⟩ := cpuRead_value (s := t) (a := BitVec.ofNat 16 (0xfe00 + k)) (by omega) (by omega)
    refine ⟨p, hp, ?_⟩
    rw [hv, hstop]
    simp only [ha, Nat.add_sub_cancel_left]
    rw [dif_neg (by omega)]
    simp

/-- C16 (blocked, spec form): `n < 162` ticks after the write a CPU read of any OAM address returns
    what the documentation says, 0xFF, whatever OAM holds. -/
theorem c16_block_window (xx : Byte) (bus : Nat → Addr → Byte) (s : Oam) (n : Nat)
    (hn : n < Spec.Dma.duration) (a : Addr) :
    ∃ t, runTicks (writeDMA s xx) bus 0 n = some t ∧
      ∀ stored, (cpuRead t a).map (·.2) = some (Spec.Dma.cpuSees n stored) := by
  obtain ⟨t, ht, hb⟩ := c16_busy xx bus s n (Nat.le_of_lt hn)
  refine ⟨t, ht, fun stored => ?_⟩
  simp only [Spec.Dma.duration] at hn
  have hbusy : Spec.Dma.busy n = true := by
    simp only [Spec.Dma.busy, Spec.Dma.duration]; exact decide_eq_true (by omega : n < 162)
  rw [hbusy] at hb
  rw [(c16_block t a hb).1]
  simp [Spec.Dma.cpuSees, hbusy]

end Tetro.C16
