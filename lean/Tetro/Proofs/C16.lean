import Tetro.Model.Oam
import Tetro.Spec.Dma
import Tetro.Lemmas.Oam
/-
C16 – an OAM DMA transfer copies 160 bytes and blocks OAM meanwhile.

Theorems about the code model `Model.Oam` against the documentation-shaped `Spec.Dma`.
Every statement about "after the write to FF46" is for an ARBITRARY state before the write
(any history, including a transfer in progress), so "the last write to FF46" of the property
is covered: whatever happened before, the state after `writeDMA` is some state `s`.
-/
namespace Tetro.C16
open Tetro.Model Tetro.Model.Oam

/-! ### the progress invariant of a transfer -/

/-- `n` machine cycles (`n ≤ 161`) after the write: the transfer runs, `dmaCycle = n`, the latch
    holds the byte sampled in cycle `n`, and the bytes `k ≤ n-3` have landed with the value the bus
    had in cycle `k+2`. `B` is the (mirrored) base address, `bus t` the bus of cycle `t`. -/
structure Prog (B : Nat) (bus : Nat → Addr → Byte) (n : Nat) (s : Oam) : Prop where
  running : s.dmaRunning = true
  cyc : s.dmaCycle.toNat = n
  base : s.dmaBaseAddr.toNat = B
  latch : 2 ≤ n → s.dmaRead = bus n (BitVec.ofNat 16 (B + (n - 2)))
  landed : ∀ k (h : k < 160), k + 3 ≤ n → s.oam[k] = bus (k + 2) (BitVec.ofNat 16 (B + k))

/-- the transfer is over: all 160 bytes hold what the bus returned when they were sampled -/
structure Done (B : Nat) (bus : Nat → Addr → Byte) (s : Oam) : Prop where
  stopped : s.dmaRunning = false
  all : ∀ k (h : k < 160), s.oam[k] = bus (k + 2) (BitVec.ofNat 16 (B + k))

private theorem toNat_ofNat16 (x : Nat) (h : x < 65536) : (BitVec.ofNat 16 x).toNat = x := by
  simp [BitVec.toNat_ofNat]; omega

private theorem incCycle_toNat (s : Oam) :
    (incCycle s).dmaCycle.toNat = (s.dmaCycle.toNat + 1) % 65536 := by
  simp [incCycle, add16, BitVec.toNat_ofNat]

/-- one `TickDMA` advances the invariant (cycles 0..160) -/
private theorem prog_tick {B : Nat} {bus : Nat → Addr → Byte} {n : Nat} {s : Oam}
    (hB : B + 160 < 65536) (hn : n ≤ 160) (p : Prog B bus n s) :
    ∃ s', tickDMA s (bus (n + 1)) = some s' ∧ Prog B bus (n + 1) s' ∧
      s'.dma = s.dma ∧ s'.ppuLastAccess = s.ppuLastAccess ∧ s'.corrupt = s.corrupt ∧
      s'.read = s.read ∧ s'.write = s.write ∧ s'.doubleWrite = s.doubleWrite := by
  obtain ⟨hr, hc, hb, hl, hd⟩ := p
  have hc' : s.dmaCycle.toNat < 65535 := by omega
  by_cases h0 : n = 0
  · subst h0
    refine ⟨incCycle s, by simp [tickDMA, hr, hc], ⟨hr, ?_, hb, ?_, ?_⟩, rfl, rfl, rfl, rfl, rfl, rfl⟩
    · rw [incCycle_toNat, hc]
    · intro h; omega
    · intro k h h3; omega
  by_cases h1 : n = 1
  · subst h1
    refine ⟨incCycle { s with dmaRead := bus 2 s.dmaBaseAddr }, by simp [tickDMA, hr, hc],
      ⟨hr, ?_, hb, ?_, ?_⟩, rfl, rfl, rfl, rfl, rfl, rfl⟩
    · rw [incCycle_toNat]; show (s.dmaCycle.toNat + 1) % 65536 = _; omega
    · intro _
      have e : BitVec.ofNat 16 (B + (1 + 1 - 2)) = s.dmaBaseAddr := by
        apply BitVec.eq_of_toNat_eq
        rw [toNat_ofNat16 _ (by omega)]; omega
      rw [e]; rfl
    · intro k h h3; omega
  · -- cycles 2..160: store byte n-2, sample byte n-1
    have hidx : sub16 s.dmaCycle.toNat 2 = n - 2 := by simp [sub16, hc]; omega
    have hlt : n - 2 < 160 := by omega
    have hst : st s.oam (sub16 s.dmaCycle.toNat 2) s.dmaRead = some (s.oam.set (n - 2) s.dmaRead hlt) := by
      simp only [st, hidx]; rw [dif_pos hlt]
    have c0 : ¬ s.dmaCycle.toNat = 0 := by omega
    have c1 : ¬ s.dmaCycle.toNat = 1 := by omega
    have c161 : ¬ s.dmaCycle.toNat = 161 := by omega
    refine ⟨incCycle { s with oam := s.oam.set (n - 2) s.dmaRead hlt,
                              dmaRead := bus (n + 1) (BitVec.ofNat 16
                                (sub16 (add16 s.dmaBaseAddr.toNat s.dmaCycle.toNat) 1)) }, ?_,
      ⟨hr, ?_, hb, ?_, ?_⟩, rfl, rfl, rfl, rfl, rfl, rfl⟩
    · simp [tickDMA, hr, c0, c1, c161, hst]
    · rw [incCycle_toNat]; show (s.dmaCycle.toNat + 1) % 65536 = _; omega
    · intro _
      have e : sub16 (add16 s.dmaBaseAddr.toNat s.dmaCycle.toNat) 1 = B + (n + 1 - 2) := by
        simp only [sub16, add16, hb, hc]; omega
      rw [← e]; rfl
    · intro k h h3
      show (s.oam.set (n - 2) s.dmaRead hlt)[k] = _
      rw [Vector.getElem_set]
      split
      · next e =>
        have e2 : n - 2 + 2 = n := by omega
        rw [hl (by omega), ← e, e2]
      · next e => exact hd k h (by omega)

/-- `TickDMA` number 162 (cycle 161) stores the last byte and ends the transfer -/
private theorem prog_last {B : Nat} {bus : Nat → Addr → Byte} {s : Oam} (p : Prog B bus 161 s) :
    ∃ s', tickDMA s (bus 162) = some s' ∧ Done B bus s' ∧
      s'.dma = s.dma ∧ s'.ppuLastAccess = s.ppuLastAccess ∧ s'.corrupt = s.corrupt ∧
      s'.read = s.read ∧ s'.write = s.write ∧ s'.doubleWrite = s.doubleWrite := by
  obtain ⟨hr, hc, hb, hl, hd⟩ := p
  refine ⟨incCycle { s with oam := s.oam.set 159 s.dmaRead (by omega), dmaRunning := false }, ?_,
    ⟨rfl, ?_⟩, rfl, rfl, rfl, rfl, rfl, rfl⟩
  · simp [tickDMA, hr, hc, st]
  · intro k h
    show (s.oam.set 159 s.dmaRead (by omega))[k] = _
    rw [Vector.getElem_set]
    split
    · next e => rw [hl (by omega), ← e]
    · next e => exact hd k h (by omega)

private theorem runTicks_succ (s : Oam) (bus : Nat → Addr → Byte) (t0 n : Nat) :
    runTicks s bus t0 (n + 1) = (runTicks s bus t0 n).bind fun s' => tickDMA s' (bus (t0 + n + 1)) := rfl

/-- once the transfer is over, `TickDMA` does nothing -/
private theorem tick_idle (s : Oam) (rd : Addr → Byte) (h : s.dmaRunning = false) :
    tickDMA s rd = some s := by simp [tickDMA, h]

private theorem c16_block' (s : Oam) (a : Addr) (h : s.dmaRunning = true) :
    cpuRead s a = some (s, 0xff) ∧ ppuRead s a = some ({ s with ppuLastAccess := a }, 0xff) := by
  simp [cpuRead, ppuRead, h]

/-- base address after `WriteDMA`, as a number -/
private theorem base_writeDMA (s : Oam) (xx : Byte) :
    (writeDMA s xx).dmaBaseAddr.toNat = Spec.Dma.sourceAddr xx.toNat 0 := by
  have hx := xx.isLt
  simp only [writeDMA, startDMA, Spec.Dma.sourceAddr, Nat.shiftLeft_eq, sub16]
  split <;> split <;> simp [BitVec.toNat_ofNat] <;> omega

private theorem sourceAddr_add (xx k : Nat) :
    Spec.Dma.sourceAddr xx k = Spec.Dma.sourceAddr xx 0 + k := by
  simp only [Spec.Dma.sourceAddr]; split <;> omega

private theorem sourceAddr_bound (xx : Nat) (h : xx < 256) : Spec.Dma.sourceAddr xx 0 + 160 < 65536 := by
  simp only [Spec.Dma.sourceAddr]; split <;> omega

/-- the state right after the FF46 write satisfies the invariant at 0 -/
private theorem prog_start (s : Oam) (xx : Byte) (bus : Nat → Addr → Byte) :
    Prog (Spec.Dma.sourceAddr xx.toNat 0) bus 0 (writeDMA s xx) :=
  ⟨rfl, rfl, base_writeDMA s xx, by intro h; omega, by intro k h h3; omega⟩

/-- `n ≤ 161` ticks after the write the invariant holds at `n` (and nothing panicked) -/
private theorem prog_run (s : Oam) (xx : Byte) (bus : Nat → Addr → Byte) :
    ∀ n, n ≤ 161 → ∃ t, runTicks (writeDMA s xx) bus 0 n = some t ∧
      Prog (Spec.Dma.sourceAddr xx.toNat 0) bus n t ∧ t.dma = xx
  | 0, _ => ⟨_, rfl, prog_start s xx bus, rfl⟩
  | n + 1, h => by
    obtain ⟨t, ht, pt, hd⟩ := prog_run s xx bus n (by omega)
    obtain ⟨t', ht', pt', hd', _⟩ := prog_tick (sourceAddr_bound _ xx.isLt) (by omega) pt
    refine ⟨t', ?_, pt', by rw [hd', hd]⟩
    rw [runTicks_succ, ht, Option.bind_some, Nat.zero_add]; exact ht' 

/-- 162 ticks after the write the transfer is over -/
private theorem done_run (s : Oam) (xx : Byte) (bus : Nat → Addr → Byte) :
    ∃ t, runTicks (writeDMA s xx) bus 0 162 = some t ∧
      Done (Spec.Dma.sourceAddr xx.toNat 0) bus t ∧ t.dma = xx := by
  obtain ⟨t, ht, pt, hd⟩ := prog_run s xx bus 161 (by omega)
  obtain ⟨t', ht', dt', hd', _⟩ := prog_last pt
  refine ⟨t', ?_, dt', by rw [hd', hd]⟩
  rw [show (162 : Nat) = 161 + 1 from rfl, runTicks_succ, ht, Option.bind_some]; exact ht' 

/-! ### the property theorems -/

/-- C16 (copy).  For every page XX ≤ F1, every state `s` before the write (any history), and every
    evolution of the bus (`bus t` = the read function seen by the `t`-th `TickDMA` after the write):
    the 162 ticks do not panic, afterwards `dmaRunning = false` and OAM byte `k` is what the
    documentation prescribes, `Spec.Dma.oamAfter`: the value the bus returned for the source address
    of byte `k` in machine cycle `k+2`. -/
theorem c16_copy (xx : Byte) (_hxx : Spec.Dma.pageInRange xx.toNat) (bus : Nat → Addr → Byte) (s : Oam) :
    ∃ t, runTicks (writeDMA s xx) bus 0 Spec.Dma.duration = some t ∧ t.dmaRunning = false ∧
      ∀ k (h : k < 160),
        t.oam[k] = Spec.Dma.oamAfter xx.toNat (fun c a => bus c (BitVec.ofNat 16 a)) k := by
  obtain ⟨t, ht, dt, _⟩ := done_run s xx bus
  refine ⟨t, ht, dt.stopped, fun k h => ?_⟩
  rw [dt.all k h]
  simp only [Spec.Dma.oamAfter, Spec.Dma.sampleTick]
  rw [sourceAddr_add xx.toNat k]

/-- non-vacuity of `c16_copy`: page C1, a bus that returns (low address byte + cycle number): byte 5
    is sampled in cycle 7 from C105 → 0x05 + 7 -/
example :
    ((runTicks (writeDMA init 0xC1) (fun c a => a.setWidth 8 + BitVec.ofNat 8 c) 0 162).map
      fun t => (t.dmaRunning, t.oam[5], t.oam[159])) = some (false, 0x0c, 0x40) := by decide +kernel
example : Spec.Dma.pageInRange (0xC1 : Byte).toNat := by decide

/-! #### the same with OAM accesses between the ticks -/

/-- what the CPU and the PPU may do to the OAM object between two ticks of a transfer -/
inductive Probe where
  | cpu (a : Addr)   -- `Read(a)`
  | ppu (a : Addr)   -- `PPURead(a)`
  | ff46             -- `ReadDMA()`

def Probe.op : Probe → Op
  | .cpu a => .read a
  | .ppu a => .ppuRead a
  | .ff46 => .readDMA

/-- `n` ticks; the probes `probes i` are performed between tick `i` and tick `i+1` -/
def runProbed (s : Oam) (bus : Nat → Addr → Byte) (probes : Nat → List Probe) : Nat → Option Oam
  | 0 => some s
  | n + 1 => (runProbed s bus probes n).bind fun t =>
      (run t ((probes n).map Probe.op)).bind fun u => tickDMA u (bus (n + 1))

private theorem runProbed_succ (s : Oam) (bus : Nat → Addr → Byte) (probes : Nat → List Probe) (n : Nat) :
    runProbed s bus probes (n + 1) = (runProbed s bus probes n).bind fun t =>
      (run t ((probes n).map Probe.op)).bind fun u => tickDMA u (bus (n + 1)) := rfl

private theorem prog_probes {B : Nat} {bus : Nat → Addr → Byte} {n : Nat} (ps : List Probe) :
    ∀ {t : Oam}, Prog B bus n t → ∃ u, run t (ps.map Probe.op) = some u ∧ Prog B bus n u := by
  induction ps with
  | nil => intro t p; exact ⟨t, rfl, p⟩
  | cons q ps ih =>
    intro t p
    have h1 : ∃ t', step t q.op = some t' ∧ Prog B bus n t' := by
      cases q with
      | cpu a => exact ⟨t, by simp only [Probe.op, step, (c16_block' t a p.running).1]; rfl, p⟩
      | ppu a =>
        exact ⟨{ t with ppuLastAccess := a },
          by simp only [Probe.op, step, (c16_block' t a p.running).2]; rfl,
          ⟨p.running, p.cyc, p.base, p.latch, p.landed⟩⟩
      | ff46 => exact ⟨t, rfl, p⟩
    obtain ⟨t', ht', p'⟩ := h1
    obtain ⟨u, hu, pu⟩ := ih p'
    exact ⟨u, by simp only [List.map_cons, run, ht', Option.bind_some]; exact hu, pu⟩

private theorem prog_runProbed (s : Oam) (xx : Byte) (bus : Nat → Addr → Byte) (probes : Nat → List Probe) :
    ∀ n, n ≤ 161 → ∃ t, runProbed (writeDMA s xx) bus probes n = some t ∧
      Prog (Spec.Dma.sourceAddr xx.toNat 0) bus n t
  | 0, _ => ⟨_, rfl, prog_start s xx bus⟩
  | n + 1, h => by
    obtain ⟨t, ht, pt⟩ := prog_runProbed s xx bus probes n (by omega)
    obtain ⟨u, hu, pu⟩ := prog_probes (probes n) pt
    obtain ⟨t', ht', pt', _⟩ := prog_tick (sourceAddr_bound _ xx.isLt) (by omega) pu
    exact ⟨t', by rw [runProbed_succ, ht, Option.bind_some, hu, Option.bind_some]; exact ht', pt'⟩

/-- C16 (copy, with OAM accesses at every cycle).  As `c16_copy`, but between any two ticks the CPU
    may read any OAM address and FF46 and the PPU may read OAM, any number of times (`probes` is
    arbitrary): nothing panics, each such read returns 0xFF (`c16_block`, the transfer is running),
    and the result of the transfer is the same documented one. -/
theorem c16_copy_probed (xx : Byte) (_hxx : Spec.Dma.pageInRange xx.toNat) (bus : Nat → Addr → Byte)
    (probes : Nat → List Probe) (s : Oam) :
    ∃ t, runProbed (writeDMA s xx) bus probes Spec.Dma.duration = some t ∧ t.dmaRunning = false ∧
      ∀ k (h : k < 160),
        t.oam[k] = Spec.Dma.oamAfter xx.toNat (fun c a => bus c (BitVec.ofNat 16 a)) k := by
  obtain ⟨t, ht, pt⟩ := prog_runProbed s xx bus probes 161 (by omega)
  obtain ⟨u, hu, pu⟩ := prog_probes (probes 161) pt
  obtain ⟨t', ht', dt', _⟩ := prog_last pu
  refine ⟨t', ?_, dt'.stopped, fun k h => ?_⟩
  · show runProbed _ _ _ (161 + 1) = _
    rw [runProbed_succ, ht, Option.bind_some, hu, Option.bind_some]; exact ht'
  · rw [dt'.all k h]
    simp only [Spec.Dma.oamAfter, Spec.Dma.sampleTick]
    rw [sourceAddr_add xx.toNat k]

example : ((runProbed (writeDMA init 0xC1) (fun c a => a.setWidth 8 + BitVec.ofNat 8 c)
      (fun i => [.cpu (0xfe00 + BitVec.ofNat 16 i), .ppu 0xfe04, .ff46]) 162).map
      fun t => (t.dmaRunning, t.oam[5], t.oam[159], t.ppuLastAccess)) = some (false, 0x0c, 0x40, 0xfe04) := by
  decide +kernel

/-- C16 (mirror): the base address the code computes (`XX<<8`, minus 0x2000 from E000 up) is the
    documented source: XX00 below E0, and the work-RAM original C000 + (XX−E0)·100h of the echo
    page for E0–F1.  (For F2–FF, outside the property, the code applies the same echo rule.) -/
theorem c16_mirror (s : Oam) (xx : Byte) (k : Nat) (hk : k < 160) :
    (startDMA s xx).dmaBaseAddr.toNat + k = Spec.Dma.sourceAddr xx.toNat k ∧
    (xx.toNat < 0xE0 → Spec.Dma.sourceAddr xx.toNat k = xx.toNat * 256 + k) ∧
    (0xE0 ≤ xx.toNat → Spec.Dma.sourceAddr xx.toNat k = xx.toNat * 256 + k - 0x2000 ∧
        0xC000 ≤ Spec.Dma.sourceAddr xx.toNat k ∧ Spec.Dma.sourceAddr xx.toNat k < 0xE000) := by
  have hb := base_writeDMA s xx
  have hx := xx.isLt
  refine ⟨?_, ?_, ?_⟩
  · have : (startDMA s xx).dmaBaseAddr = (writeDMA s xx).dmaBaseAddr := rfl
    rw [this, hb, sourceAddr_add xx.toNat k]
  · intro h; simp only [Spec.Dma.sourceAddr]; split <;> omega
  · intro h; simp only [Spec.Dma.sourceAddr]; split <;> omega

/-- C16 (block): while a transfer runs, a CPU read of ANY address routed to OAM (FE00–FEFF, in fact
    any address) returns 0xFF and changes nothing; a PPU read returns 0xFF too. -/
theorem c16_block (s : Oam) (a : Addr) (h : s.dmaRunning = true) :
    cpuRead s a = some (s, 0xff) ∧ ppuRead s a = some ({ s with ppuLastAccess := a }, 0xff) :=
  c16_block' s a h

/-- C16 (busy): the transfer runs during the whole window – after `n < 162` ticks `dmaRunning`
    still holds, i.e. (by `c16_block`) every OAM read in the window returns 0xFF, exactly as long
    as `Spec.Dma.busy` says. -/
theorem c16_busy (xx : Byte) (bus : Nat → Addr → Byte) (s : Oam) (n : Nat) (hn : n ≤ Spec.Dma.duration) :
    ∃ t, runTicks (writeDMA s xx) bus 0 n = some t ∧ t.dmaRunning = Spec.Dma.busy n := by
  simp only [Spec.Dma.duration] at hn
  by_cases h : n ≤ 161
  · obtain ⟨t, ht, pt, _⟩ := prog_run s xx bus n h
    refine ⟨t, ht, ?_⟩
    rw [pt.running]; simp only [Spec.Dma.busy, Spec.Dma.duration]
    exact (decide_eq_true (by omega : n < 162)).symm
  · have : n = 162 := by omega
    subst this
    obtain ⟨t, ht, dt, _⟩ := done_run s xx bus
    exact ⟨t, ht, by rw [dt.stopped]; simp [Spec.Dma.busy, Spec.Dma.duration]⟩

example : (runTicks (writeDMA init 0x80) (fun _ _ => 0x5a) 0 161).map (·.dmaRunning) = some true := by
  decide +kernel

/-- C16 (restart): a write to FF46 during a running transfer (at any point, in any state) restarts
    it from cycle 0 with the new page; OAM itself is not touched by the write, so the bytes already
    copied stay until the new transfer overwrites them (which `c16_copy`, applied to the state at
    the restart, says it does completely). -/
theorem c16_restart (s : Oam) (yy : Byte) :
    (writeDMA s yy).dmaRunning = true ∧ (writeDMA s yy).dmaCycle = 0 ∧
    (writeDMA s yy).oam = s.oam ∧
    (writeDMA s yy).dmaBaseAddr.toNat = Spec.Dma.sourceAddr yy.toNat 0 :=
  ⟨rfl, rfl, rfl, base_writeDMA s yy⟩

/-- C16 (restart keeps the copied prefix): `n ≤ 161` ticks into a transfer of page XX the bytes
    `k ≤ n−3` hold their final values, and they still do right after a restart with page YY. -/
theorem c16_restart_keeps (xx yy : Byte) (bus : Nat → Addr → Byte) (s : Oam) (n : Nat) (hn : n ≤ 161) :
    ∃ t, runTicks (writeDMA s xx) bus 0 n = some t ∧
      ∀ k (h : k < 160), k + 3 ≤ n →
        (writeDMA t yy).oam[k] = Spec.Dma.oamAfter xx.toNat (fun c a => bus c (BitVec.ofNat 16 a)) k := by
  obtain ⟨t, ht, pt, _⟩ := prog_run s xx bus n hn
  refine ⟨t, ht, fun k h h3 => ?_⟩
  show t.oam[k] = _
  rw [pt.landed k h h3]
  simp only [Spec.Dma.oamAfter, Spec.Dma.sampleTick]
  rw [sourceAddr_add xx.toNat k]

example : ((runTicks (writeDMA init 0xC1) (fun c a => a.setWidth 8 + BitVec.ofNat 8 c) 0 40).map
      fun t => ((writeDMA t 0x12).oam[37], (writeDMA t 0x12).oam[38], (writeDMA t 0x12).dmaCycle)) =
      some (0x25 + 39, 0, 0) := by decide +kernel

/-- C16 (read-back, one step): FF46 reads the value just written, and no other exported operation
    changes what FF46 reads. -/
theorem c16_readback_step (s : Oam) (v : Byte) :
    readDMA (writeDMA s v) = v ∧
    ∀ (op : Op) (s' : Oam), (∀ w, op ≠ .writeDMA w) → step s op = some s' → readDMA s' = readDMA s := by
  refine ⟨rfl, ?_⟩
  intro op s' hop hs
  cases op with
  | read a =>
    simp only [step] at hs
    rw [Option.map_eq_some_iff] at hs
    obtain ⟨p, hp, rfl⟩ := hs
    rcases cpuRead_shape hp with e | ⟨_, _, e⟩ <;> rw [e] <;> rfl
  | write a v =>
    have hf : (writeFlags s).dma = s.dma := by
      unfold writeFlags
      split
      · split <;> rfl
      · rfl
    obtain ⟨h1, h2⟩ := cpuWrite_shape (show cpuWrite s a v = some s' from hs)
    by_cases hlt : a.toNat < 0xfea0
    · obtain ⟨hi, e⟩ := h1 hlt; rw [e]; exact hf
    · rw [h2 (by omega)]; exact hf
  | ppuRead a =>
    simp only [step] at hs
    rw [Option.map_eq_some_iff] at hs
    obtain ⟨p, hp, rfl⟩ := hs
    rw [ppuRead_shape hp]; rfl
  | trigger a =>
    simp only [step, triggerWriteCorruption] at hs
    cases hs
    split
    · rfl
    · split <;> rfl
  | corrupt =>
    rcases corruptStep_shape (show corruptStep s = some s' from hs) with ⟨_, _, e⟩ | ⟨_, m, e⟩ <;>
      rw [e] <;> rfl
  | enter => cases hs; rfl
  | exit => cases hs; rfl
  | writeDMA w => exact absurd rfl (hop w)
  | readDMA => cases hs; rfl
  | tick rd => exact (tickDMA_shape (show tickDMA s rd = some s' from hs)).1

/-- C16 (read-back): after a write of `v` to FF46, FF46 reads `v` after ANY history of other
    operations (ticks, CPU/PPU accesses, corruption, …) that contains no further FF46 write. -/
theorem c16_readback (s : Oam) (v : Byte) (ops : List Op) (s' : Oam)
    (hno : ∀ op ∈ ops, ∀ w, op ≠ .writeDMA w) (hrun : run (writeDMA s v) ops = some s') :
    readDMA s' = v := by
  suffices ∀ (ops : List Op) (t : Oam), (∀ op ∈ ops, ∀ w, op ≠ .writeDMA w) → run t ops = some s' →
      readDMA s' = readDMA t from this ops _ hno hrun
  intro ops
  induction ops with
  | nil => intro t _ h; cases h; rfl
  | cons op ops ih =>
    intro t hno h
    simp only [run] at h
    rw [Option.bind_eq_some_iff] at h
    obtain ⟨t', ht', h⟩ := h
    rw [ih t' (fun o ho => hno o (List.mem_cons_of_mem _ ho)) h]
    exact (c16_readback_step t 0).2 op t' (hno op List.mem_cons_self) ht'

example : (run (writeDMA init 0xE5) [.tick (fun _ => 1), .read 0xfe00, .ppuRead 0xfe20, .enter, .write 0xfe10 7, .corrupt,
    .tick (fun _ => 2), .readDMA]).map readDMA = some 0xE5 := by decide +kernel

/-- C16 (done unblocks): after the 162 ticks a CPU read of FE00+k (k < 160) returns the byte the
    transfer put there – the documented source byte – and FEA0–FEFF read 0. -/
theorem c16_done_unblocks (xx : Byte) (_hxx : Spec.Dma.pageInRange xx.toNat) (bus : Nat → Addr → Byte)
    (s : Oam) :
    ∃ t, runTicks (writeDMA s xx) bus 0 Spec.Dma.duration = some t ∧
      (∀ k, k < 160 → ∃ p, cpuRead t (BitVec.ofNat 16 (0xfe00 + k)) = some p ∧
          p.2 = Spec.Dma.cpuSees Spec.Dma.duration
                  (Spec.Dma.oamAfter xx.toNat (fun c a => bus c (BitVec.ofNat 16 a)) k)) ∧
      (∀ k, 160 ≤ k → k < 256 → ∃ p, cpuRead t (BitVec.ofNat 16 (0xfe00 + k)) = some p ∧ p.2 = 0) := by
  obtain ⟨t, ht, hstop, hall⟩ := c16_copy xx _hxx bus s
  refine ⟨t, ht, ?_, ?_⟩
  · intro k hk
    have ha : (BitVec.ofNat 16 (0xfe00 + k)).toNat = 0xfe00 + k := toNat_ofNat16 _ (by omega)
    obtain ⟨p, hp, hv⟩ := cpuRead_value (s := t) (a := BitVec.ofNat 16 (0xfe00 + k)) (by omega) (by omega)
    refine ⟨p, hp, ?_⟩
    rw [hv, hstop]
    simp only [ha, Nat.add_sub_cancel_left, Spec.Dma.cpuSees, Spec.Dma.busy, Spec.Dma.duration]
    rw [dif_pos hk, hall k hk]
    simp
  · intro k h1 h2
    have ha : (BitVec.ofNat 16 (0xfe00 + k)).toNat = 0xfe00 + k := toNat_ofNat16 _ (by omega)
    obtain ⟨p, hp, hv⟩ := cpuRead_value (s := t) (a := BitVec.ofNat 16 (0xfe00 + k)) (by omega) (by omega)
    refine ⟨p, hp, ?_⟩
    rw [hv, hstop]
    simp only [ha, Nat.add_sub_cancel_left]
    rw [dif_neg (by omega)]
    simp

/-- C16 (blocked, spec form): `n < 162` ticks after the write a CPU read of any OAM address returns
    what the documentation says, 0xFF, whatever OAM holds. -/
theorem c16_block_window (xx : Byte) (bus : Nat → Addr → Byte) (s : Oam) (n : Nat)
    (hn : n < Spec.Dma.duration) (a : Addr) :
    ∃ t, runTicks (writeDMA s xx) bus 0 n = some t ∧
      ∀ stored, (cpuRead t a).map (·.2) = some (Spec.Dma.cpuSees n stored) := by
  obtain ⟨t, ht, hb⟩ := c16_busy xx bus s n (Nat.le_of_lt hn)
  refine ⟨t, ht, fun stored => ?_⟩
  simp only [Spec.Dma.duration] at hn
  have hbusy : Spec.Dma.busy n = true := by
    simp only [Spec.Dma.busy, Spec.Dma.duration]; exact decide_eq_true (by omega : n < 162)
  rw [hbusy] at hb
  rw [(c16_block t a hb).1]
  simp [Spec.Dma.cpuSees, hbusy]

/-! ### the event view: any history of exported calls from power-on -/

/-- the DMA-relevant events of one exported call -/
def evOf : Op → List Spec.Dma.Ev
  | .writeDMA v => [.writeFF46 v]
  | .tick _ => [.cycle]
  | _ => []

/-- the DMA-relevant events of a history, in chronological order -/
def hist : List Op → List Spec.Dma.Ev
  | [] => []
  | op :: ops => evOf op ++ hist ops

/-- the engine state agrees with what looking back through the events says -/
private def RelO (s : Oam) : Option (BitVec 8 × Nat) → Prop
  | none => s.dmaRunning = false ∧ s.dma = 0
  | some p => s.dma = p.1 ∧
      (if p.2 < 162 then s.dmaRunning = true ∧ s.dmaCycle.toNat = p.2 else s.dmaRunning = false)

private theorem relO_congr {s t : Oam} {o : Option (BitVec 8 × Nat)} (h1 : t.dma = s.dma)
    (h2 : t.dmaRunning = s.dmaRunning) (h3 : t.dmaCycle = s.dmaCycle) (h : RelO s o) : RelO t o := by
  cases o with
  | none => unfold RelO at h ⊢; rw [h1, h2]; exact h
  | some p => unfold RelO at h ⊢; rw [h1, h2, h3]; exact h

private theorem writeFlags_engine (s : Oam) :
    (writeFlags s).dma = s.dma ∧ (writeFlags s).dmaRunning = s.dmaRunning ∧
    (writeFlags s).dmaCycle = s.dmaCycle := by
  unfold writeFlags
  split
  · split <;> exact ⟨rfl, rfl, rfl⟩
  · exact ⟨rfl, rfl, rfl⟩

private theorem relO_step (s s' : Oam) (op : Op) (r : List Spec.Dma.Ev)
    (h : RelO s (Spec.Dma.lookBack r)) (hs : step s op = some s') :
    RelO s' (Spec.Dma.lookBack (evOf op ++ r)) := by
  cases op with
  | read a =>
    simp only [step] at hs
    rw [Option.map_eq_some_iff] at hs
    obtain ⟨p, hp, rfl⟩ := hs
    rcases cpuRead_shape hp with e | ⟨_, _, e⟩ <;> rw [e] <;> exact relO_congr rfl rfl rfl h
  | write a v =>
    obtain ⟨h1, h2⟩ := cpuWrite_shape (show cpuWrite s a v = some s' from hs)
    obtain ⟨f1, f2, f3⟩ := writeFlags_engine s
    by_cases hlt : a.toNat < 0xfea0
    · obtain ⟨hi, e⟩ := h1 hlt; rw [e]; exact relO_congr f1 f2 f3 h
    · rw [h2 (by omega)]; exact relO_congr f1 f2 f3 h
  | ppuRead a =>
    simp only [step] at hs
    rw [Option.map_eq_some_iff] at hs
    obtain ⟨p, hp, rfl⟩ := hs
    rw [ppuRead_shape hp]; exact relO_congr rfl rfl rfl h
  | trigger a =>
    simp only [step, triggerWriteCorruption] at hs
    cases hs
    split
    · exact h
    · split <;> exact relO_congr rfl rfl rfl h
  | corrupt =>
    rcases corruptStep_shape (show corruptStep s = some s' from hs) with ⟨_, _, e⟩ | ⟨_, m, e⟩ <;>
      rw [e] <;> exact relO_congr rfl rfl rfl h
  | enter => cases hs; exact relO_congr rfl rfl rfl h
  | exit => cases hs; exact relO_congr rfl rfl rfl h
  | readDMA => cases hs; exact h
  | writeDMA w =>
    cases hs
    show RelO (writeDMA s w) (some (w, 0))
    exact ⟨rfl, by rw [if_pos (by omega)]; exact ⟨rfl, rfl⟩⟩
  | tick rd =>
    have ht : tickDMA s rd = some s' := hs
    obtain ⟨hdma, _, _, _, _, _, _, hidle, _⟩ := tickDMA_shape ht
    obtain ⟨hgo, hend⟩ := tickDMA_engine ht
    show RelO s' ((Spec.Dma.lookBack r).map fun p => (p.1, p.2 + 1))
    cases ho : Spec.Dma.lookBack r with
    | none =>
      rw [ho] at h
      rw [hidle h.1]; exact h
    | some p =>
      rw [ho] at h
      obtain ⟨hd, hc⟩ := h
      show RelO s' (some (p.1, p.2 + 1))
      refine ⟨by rw [hdma, hd], ?_⟩
      show if p.2 + 1 < 162 then _ else _
      by_cases h1 : p.2 < 161
      · rw [if_pos (by omega)] at hc
        rw [if_pos (by omega)]
        obtain ⟨hr', hc'⟩ := hgo hc.1 (by omega)
        exact ⟨hr', by omega⟩
      · rw [if_neg (by omega)]
        by_cases h2 : p.2 = 161
        · rw [if_pos (by omega)] at hc
          exact hend hc.1 (by omega)
        · rw [if_neg (by omega)] at hc
          rw [hidle hc]; exact hc

private theorem evOf_reverse (op : Op) : (evOf op).reverse = evOf op := by
  cases op <;> rfl

private theorem relO_run (ops : List Op) :
    ∀ (s s' : Oam) (pre : List Spec.Dma.Ev), RelO s (Spec.Dma.lastStart pre) → run s ops = some s' →
      RelO s' (Spec.Dma.lastStart (pre ++ hist ops)) := by
  induction ops with
  | nil => intro s s' pre h hs; cases hs; simpa [hist] using h
  | cons op ops ih =>
    intro s s' pre h hs
    simp only [run] at hs
    rw [Option.bind_eq_some_iff] at hs
    obtain ⟨t, ht, hs⟩ := hs
    have h1 : RelO t (Spec.Dma.lastStart (pre ++ evOf op)) := by
      unfold Spec.Dma.lastStart at h ⊢
      rw [List.reverse_append, evOf_reverse]
      exact relO_step s t op _ h ht
    have := ih t s' (pre ++ evOf op) h1 hs
    rw [List.append_assoc] at this
    exact this

/-- C16 (event view).  After ANY history of exported calls on a fresh `New()` object that does not
    panic – CPU/PPU reads and writes, OAM-bug triggers, `Corrupt`, mode changes, FF46 writes and
    ticks in any order – the code's `dmaRunning` (which blocks OAM reads, `c16_block`) is exactly
    the documentation's "fewer than 162 machine cycles since the most recent write to FF46", and
    FF46 reads the most recently written value (0 if never written). -/
theorem c16_events (ops : List Op) (s' : Oam) (h : run init ops = some s') :
    s'.dmaRunning = Spec.Dma.transferRunning (hist ops) ∧ readDMA s' = Spec.Dma.ff46 (hist ops) := by
  have h0 : RelO init (Spec.Dma.lastStart []) := ⟨rfl, rfl⟩
  have hr := relO_run ops init s' [] h0 h
  rw [List.nil_append] at hr
  unfold Spec.Dma.transferRunning Spec.Dma.ff46
  cases ho : Spec.Dma.lastStart (hist ops) with
  | none => rw [ho] at hr; exact ⟨hr.1, hr.2⟩
  | some p =>
    rw [ho] at hr
    obtain ⟨hd, hc⟩ := hr
    refine ⟨?_, hd⟩
    show _ = Spec.Dma.busy p.2
    simp only [Spec.Dma.busy, Spec.Dma.duration]
    by_cases h1 : p.2 < 162
    · rw [if_pos h1] at hc; rw [hc.1]; exact (decide_eq_true h1).symm
    · rw [if_neg h1] at hc; rw [hc]; exact (decide_eq_false h1).symm

example : (run init [.writeDMA 0x12, .tick (fun _ => 0), .writeDMA 0x34, .tick (fun _ => 0), .read 0xfe00]).map
    (fun t => (t.dmaRunning, readDMA t)) = some (true, 0x34) := by decide +kernel
example : Spec.Dma.lastStart (hist [.writeDMA 0x12, .tick (fun _ => 0), .writeDMA 0x34, .tick (fun _ => 0),
    .read 0xfe00]) = some (0x34, 1) := by decide

end Tetro.C16
