import Tetro.Lemmas.SpecTables
import Tetro.Proofs.C01Tables
import Tetro.Proofs.C02
/-
C05 – HALT idles until an enabled request and reproduces the halt bug.  Machine-cycle level, flat
bus, documented tables (`…_gen`: the tables regenerated from dispatch.go, via `c01_tables`).

* `c05_halt_exec` / `c05_halt_cycle` – what HALT decides (IME, pending) and that it takes one cycle;
* `c05_idle` – halted and nothing pending: `cycle` is the identity, for ANY bus with nothing pending,
  hence for any number of cycles while no enabled request appears;
* `c05_wake_ime1` – halted, IME set, request: dispatched after exactly 6 cycles, return address = PC
  (the byte after HALT);
* `c05_wake_ime0` – halted, IME clear, request: one cycle, only `halted` changes; next cycle fetches;
* `c05_haltbug` – a fetch under the halt bug does not advance PC past the opcode (CB: by one only) and
  clears the flag; `c05_haltbug_twice` – hence the byte is fetched and executed again.
-/
namespace Tetro.C05
open Tetro.Model.Cpu Tetro.Spec.Isa Tetro.Exec

/-! ### HALT itself -/

/-- the HALT micro-operation: IME set → halted; IME clear and nothing pending → halted; IME clear and
    something pending → NOT halted, halt bug armed.  The bus is untouched. -/
theorem c05_halt_exec (r : Regs) (m : Flat) :
    (m.ime = true → MicroOp.halt.run r m = ({ r with halted := true }, m)) ∧
    (m.ime = false → pendingBits m = 0 → MicroOp.halt.run r m = ({ r with halted := true }, m)) ∧
    (m.ime = false → pendingBits m ≠ 0 → MicroOp.halt.run r m = ({ r with haltbug := true }, m)) := by
  refine ⟨fun h => ?_, fun h hp => ?_, fun h hp => ?_⟩
  · simp [MicroOp.run, haltF, h]
  · simp [MicroOp.run, haltF, h, hp]
  · have hp' : ¬ pendingBits m = 0#8 := hp
    simp [MicroOp.run, haltF, h, hp']

private theorem instrAt_of_byte (pc : Word) (m : Flat) (b : Byte) (i : Instr) (hb : m.read pc = b)
    (hcb : b ≠ 0xcb) (hd : decode b.toNat = some i) : instrAt pc m = some i := by
  unfold instrAt; rw [hb, if_neg hcb, hd]

/-- HALT (0x76) occupies one machine cycle; the decision is taken on the bus the fetch left (a pending EI
    has taken effect), the registers are those the fetch left -/
theorem c05_halt_cycle (c : Cpu) (m : Flat) (h : AtFetch c m) (hop : m.read c.regs.pc = 0x76) :
    (cycle specTables c m).1.isFinished = true ∧
    (cycle specTables c m).1.crashed = false ∧
    (cycle specTables c m).1.regs =
      haltF (fetchRegs c.regs false) ({ m with ime := m.ime || c.regs.eiPending } : Flat) ∧
    (cycle specTables c m).2 = { m with ime := m.ime || c.regs.eiPending } := by
  have hi : instrAt c.regs.pc m = some .halt := instrAt_of_byte _ _ _ _ hop (by decide) (by decide)
  obtain ⟨_, _, hfin, hcr, _, hregs, hbus⟩ := C02.c02_cycles c m .halt h hi
  have hd : decide (m.read c.regs.pc = 0xcb) = false := by rw [hop]; decide
  simp only [cyclesOf] at hfin hcr hregs hbus
  rw [cycles_one] at hfin hcr hregs hbus
  rw [hd] at hregs hbus
  exact ⟨hfin, hcr, by rw [hregs]; rfl, by rw [hbus]; rfl⟩

example : AtFetch Cpu.init (⟨fun _ => 0x76, false, 0x1f, 0x14⟩ : Flat) ∧
    (⟨fun _ => 0x76, false, 0x1f, 0x14⟩ : Flat).read Cpu.init.regs.pc = 0x76 := by
  refine ⟨⟨?_, ?_, ?_, ?_, ?_, ?_⟩, ?_⟩ <;> decide

/-! ### idling -/

/-- C05 idle, one cycle: halted, at a boundary, nothing enabled is requested on the bus presented in this
    cycle → nothing changes at all (any tables). -/
theorem c05_idle_cycle (t : Tables) (c : Cpu) (m : Flat) (hb : Boundary c) (hh : c.regs.halted = true)
    (hp : pendingBits m = 0) : cycle t c m = (c, m) := by
  have hp' : pendingBits m = 0#8 := hp
  simp [cycle, hb.finished, hb.alive, hb.running, next, checkInterrupts, hp', hh]

/-- C05 idle: for any number of cycles -/
theorem c05_idle (t : Tables) (n : Nat) (c : Cpu) (m : Flat) (hb : Boundary c) (hh : c.regs.halted = true)
    (hp : pendingBits m = 0) : cycles t n c m = (c, m) := by
  induction n with
  | zero => rfl
  | succ n ih => rw [cycles_succ, c05_idle_cycle t c m hb hh hp]; exact ih

/-- non-vacuity: the power-on CPU, halted, with IF ≠ 0 but nothing ENABLED pending -/
example : Boundary { Cpu.init with regs := { Regs.init with halted := true } } ∧
    pendingBits (⟨fun _ => 0, true, 0x03, 0x14⟩ : Flat) = 0 := by
  refine ⟨⟨?_, ?_, ?_⟩, ?_⟩ <;> decide

/-! ### waking up -/

private theorem pendingSource_zero : pendingSource 0 = none := by decide

private theorem pending_of_source (m : Flat) (k : Nat) (h : pendingSource (pendingBits m) = some k) :
    pendingBits m ≠ 0 := by
  intro e; rw [e, pendingSource_zero] at h; cases h

private theorem sub_one_one (x : Word) : x - 1#16 - 1#16 = x - 2#16 := by bv_omega

private theorem handleInterruptF_flat (r : Regs) (m : Flat) (k : Nat) (hime : m.ime = true)
    (hk : pendingSource (pendingBits m) = some k) :
    handleInterruptF r m =
      ({ r with pc := BitVec.ofNat 16 (0x40 + 8 * k), sp := r.sp - 2, m8a := lo8 r.pc, m8b := hi8 r.pc },
       (({ m with ime := false, ifl := m.ifl &&& ~~~((1 : Byte) <<< k) } : Flat).write
          (r.sp - 1) (hi8 r.pc)).write (r.sp - 2) (lo8 r.pc)) := by
  have hp : pendingBits ({ m with ime := false } : Flat) = pendingBits m := rfl
  simp [handleInterruptF, hime, hp, hk, pushCell, decSP, rstTo, Regs.get, sub_one_one]

private theorem long_eq : specTables.long = [.nop, .nop, .nop, .nop, .nop, .handleInterrupt] := rfl

/-- what `next` loads when a halted CPU with IME set sees a request -/
private def longCpu (c : Cpu) : Cpu :=
  { c with regs := { c.regs with halted := false }, ops := specTables.long, cycle := 0, early := none }

private theorem next_long (c : Cpu) (m : Flat) (hh : c.regs.halted = true) (hime : m.ime = true)
    (hp : pendingBits m ≠ 0) :
    next specTables c m = { cpu := longCpu c, bus := m, halted := false } := by
  have hp' : ¬ pendingBits m = 0#8 := hp
  simp [next, checkInterrupts, hp', hime, hh, longCpu]

/-- C05 wake-up with IME set.  Halted at a boundary, IME set, source `k` the highest-priority pending one:
    the interrupt is dispatched after exactly 6 machine cycles (one more than from a running CPU,
    `c04_dispatch`): inside the sequence for cycles 1–5, at a boundary after 6 with `halted` clear,
    PC = 0x40 + 8k, the pushed return address = the PC of the halted CPU (the byte after HALT), IME
    clear, bit k of IF cleared. -/
theorem c05_wake_ime1 (c : Cpu) (m : Flat) (hb : Boundary c) (hh : c.regs.halted = true)
    (hime : m.ime = true) (k : Nat) (hk : pendingSource (pendingBits m) = some k) :
    (∀ j, 0 < j → j < 6 → (cycles specTables j c m).1.isFinished = false) ∧
    (cycles specTables 6 c m).1.isFinished = true ∧
    (cycles specTables 6 c m).1.crashed = false ∧
    (cycles specTables 6 c m).1.regs =
      { c.regs with halted := false, pc := BitVec.ofNat 16 (0x40 + 8 * k), sp := c.regs.sp - 2,
                    m8a := lo8 c.regs.pc, m8b := hi8 c.regs.pc } ∧
    (cycles specTables 6 c m).2 =
      (({ m with ime := false, ifl := m.ifl &&& ~~~((1 : Byte) <<< k) } : Flat).write
          (c.regs.sp - 1) (hi8 c.regs.pc)).write (c.regs.sp - 2) (lo8 c.regs.pc) := by
  have hn := next_long c m hh hime (pending_of_source m k hk)
  have hL : Loaded (longCpu c) :=
    ⟨rfl, hb.alive, hb.running, (by decide : MicroOp.fatal ∉ specTables.long)⟩
  have hE : EarlyOk (longCpu c) := by
    intro e he; cases he
  have hr := run_loaded specTables c m hb _ m hn hL hE (by decide : 0 < specTables.long.length)
  have hlen : lenOf (longCpu c) m = 6 := rfl
  rw [hlen] at hr
  obtain ⟨ha, hb6, hfin, hcr, _⟩ := hr
  have hrun : runList (List.take 6 specTables.long) { c.regs with halted := false } m =
      handleInterruptF { c.regs with halted := false } m := by
    simp [long_eq, MicroOp.run]
  refine ⟨fun j h0 hj => (ha j h0 hj).2, hfin, hcr, ?_, ?_⟩
  · rw [hb6]
    show (runList (List.take 6 specTables.long) { c.regs with halted := false } m).1 = _
    rw [hrun, handleInterruptF_flat _ m k hime hk]
  · rw [hb6]
    show (runList (List.take 6 specTables.long) { c.regs with halted := false } m).2 = _
    rw [hrun, handleInterruptF_flat _ m k hime hk]

theorem c05_wake_ime1_gen (c : Cpu) (m : Flat) (hb : Boundary c) (hh : c.regs.halted = true)
    (hime : m.ime = true) (k : Nat) (hk : pendingSource (pendingBits m) = some k) :
    (∀ j, 0 < j → j < 6 → (cycles Tables.gen j c m).1.isFinished = false) ∧
    (cycles Tables.gen 6 c m).1.isFinished = true ∧
    (cycles Tables.gen 6 c m).1.crashed = false ∧
    (cycles Tables.gen 6 c m).1.regs =
      { c.regs with halted := false, pc := BitVec.ofNat 16 (0x40 + 8 * k), sp := c.regs.sp - 2,
                    m8a := lo8 c.regs.pc, m8b := hi8 c.regs.pc } ∧
    (cycles Tables.gen 6 c m).2 =
      (({ m with ime := false, ifl := m.ifl &&& ~~~((1 : Byte) <<< k) } : Flat).write
          (c.regs.sp - 1) (hi8 c.regs.pc)).write (c.regs.sp - 2) (lo8 c.regs.pc) := by
  rw [C01.c01_tables]; exact c05_wake_ime1 c m hb hh hime k hk

example : Boundary { Cpu.init with regs := { Regs.init with halted := true } } ∧
    (⟨fun _ => 0, true, 0x1f, 0x14⟩ : Flat).ime = true ∧
    pendingSource (pendingBits (⟨fun _ => 0, true, 0x1f, 0x14⟩ : Flat)) = some 2 := by
  refine ⟨⟨?_, ?_, ?_⟩, ?_, ?_⟩ <;> decide

/-- C05 wake-up with IME clear.  Halted at a boundary, IME clear, an enabled request: after ONE cycle the
    CPU is at a boundary again with `halted` clear and nothing else changed – registers, PC, SP, IF,
    IE, IME and memory untouched, no push – and (not stopped) that boundary is a FETCH boundary: the
    following cycle starts the instruction after HALT. -/
theorem c05_wake_ime0 (c : Cpu) (m : Flat) (hb : Boundary c) (hh : c.regs.halted = true)
    (hime : m.ime = false) (hp : pendingBits m ≠ 0) :
    (cycle specTables c m).1.isFinished = true ∧
    (cycle specTables c m).1.crashed = false ∧
    (cycle specTables c m).1.regs = { c.regs with halted := false } ∧
    (cycle specTables c m).2 = m ∧
    (c.regs.stopped = false → AtFetch (cycle specTables c m).1 (cycle specTables c m).2) := by
  have hp' : ¬ pendingBits m = 0#8 := hp
  have hc : cycle specTables c m =
      ({ c with regs := { c.regs with halted := false }, ops := [.handleInterrupt], cycle := 1,
                early := none }, m) := by
    have hv : specTables.veryShort = [.handleInterrupt] := rfl
    simp [cycle, hb.finished, hb.alive, hb.running, next, checkInterrupts, hp', hime, hh, stepSub, hv,
      MicroOp.run, handleInterruptF]
  rw [hc]
  refine ⟨rfl, hb.alive, rfl, rfl, fun hs => ⟨rfl, hb.alive, hb.running, rfl, hs, ?_⟩⟩
  intro hx; rw [hime] at hx; cases hx.2

theorem c05_wake_ime0_gen (c : Cpu) (m : Flat) (hb : Boundary c) (hh : c.regs.halted = true)
    (hime : m.ime = false) (hp : pendingBits m ≠ 0) :
    (cycle Tables.gen c m).1.isFinished = true ∧
    (cycle Tables.gen c m).1.crashed = false ∧
    (cycle Tables.gen c m).1.regs = { c.regs with halted := false } ∧
    (cycle Tables.gen c m).2 = m ∧
    (c.regs.stopped = false → AtFetch (cycle Tables.gen c m).1 (cycle Tables.gen c m).2) := by
  rw [C01.c01_tables]; exact c05_wake_ime0 c m hb hh hime hp

example : Boundary { Cpu.init with regs := { Regs.init with halted := true } } ∧
    (⟨fun _ => 0, false, 0x1f, 0x14⟩ : Flat).ime = false ∧
    pendingBits (⟨fun _ => 0, false, 0x1f, 0x14⟩ : Flat) ≠ 0 := by
  refine ⟨⟨?_, ?_, ?_⟩, ?_, ?_⟩ <;> decide

/-! ### the halt bug -/

/-- C05 halt bug, the fetch.  With `haltbug` set, the opcode is read at PC and PC is NOT advanced past it
    (for a CB-prefixed instruction: advanced by one only), and the flag is cleared; without it PC advances
    by one (CB: two).  The schedule loaded is the one of the byte(s) at PC in both cases. -/
theorem c05_haltbug (t : Tables) (c : Cpu) (r : Regs) (m : Flat) :
    (fetch t c r m).cpu.regs.haltbug = false ∧
    (m.read r.pc ≠ 0xcb →
      (fetch t c r m).cpu.ops = t.normal.getD (m.read r.pc).toNat [] ∧
      (fetch t c r m).cpu.early = t.earlyOf (m.read r.pc).toNat ∧
      (r.haltbug = true → (fetch t c r m).cpu.regs.pc = r.pc) ∧
      (r.haltbug = false → (fetch t c r m).cpu.regs.pc = r.pc + 1)) ∧
    (m.read r.pc = 0xcb →
      (fetch t c r m).cpu.ops = t.prefixed.getD (m.read (r.pc + 1)).toNat [] ∧
      (r.haltbug = true → (fetch t c r m).cpu.regs.pc = r.pc + 1) ∧
      (r.haltbug = false → (fetch t c r m).cpu.regs.pc = r.pc + 1 + 1)) := by
  refine ⟨fetch_haltbug t c r m, fun hcb => ?_, fun hcb => ?_⟩
  · rw [fetch_flat, if_neg hcb]
    refine ⟨rfl, rfl, fun hb => ?_, fun hb => ?_⟩ <;> simp [fetchRegs, hb]
  · rw [fetch_flat, if_pos hcb]
    refine ⟨rfl, fun hb => ?_, fun hb => ?_⟩ <;> simp [fetchRegs, hb]

/-- C05 halt bug, executed twice.  At a fetch boundary with the halt bug armed and a non-prefixed
    instruction `i` at PC: `i` runs its documented cycles with PC still pointing AT its opcode; if `i`
    itself leaves PC, that byte and the control flags alone (any non-jump one-byte instruction), the next
    boundary fetches the SAME instruction again, this time advancing PC normally. -/
theorem c05_haltbug_twice (c : Cpu) (m : Flat) (i : Instr) (h : AtFetch c m)
    (hbug : c.regs.haltbug = true) (hcb : m.read c.regs.pc ≠ 0xcb)
    (hi : instrAt c.regs.pc m = some i) :
    let n := cyclesOf i ((condOf i).all fun cc => cc.holds (abs c.regs m))
    let s := cycles specTables n c m
    -- first execution: PC was not advanced by the fetch
    s.1.isFinished = true ∧
    s.1.regs = (runList ((micro i).take n) { fetchRegs c.regs false with pc := c.regs.pc }
                  { m with ime := m.ime || c.regs.eiPending }).1 ∧
    -- second fetch
    (s.1.regs.pc = c.regs.pc → s.2.read c.regs.pc = m.read c.regs.pc →
      instrAt s.1.regs.pc s.2 = some i ∧
      (fetch specTables s.1 s.1.regs s.2).cpu.ops = micro i ∧
      (s.1.regs.haltbug = false → (fetch specTables s.1 s.1.regs s.2).cpu.regs.pc = c.regs.pc + 1)) := by
  intro n s
  obtain ⟨_, _, hfin, _, _, hregs, _⟩ := C02.c02_cycles c m i h hi
  have hd : decide (m.read c.regs.pc = 0xcb) = false := decide_eq_false hcb
  rw [hd] at hregs
  have hr0 : fetchRegs c.regs false = { fetchRegs c.regs false with pc := c.regs.pc } := by
    simp [fetchRegs, hbug]
  refine ⟨hfin, ?_, fun hpc hbyte => ?_⟩
  · rw [← hr0]; exact hregs
  · have hi2 : instrAt s.1.regs.pc s.2 = some i := by
      unfold instrAt at hi ⊢
      rw [hpc, hbyte, if_neg hcb]
      rw [if_neg hcb] at hi
      exact hi
    have hcb2 : s.2.read s.1.regs.pc ≠ 0xcb := by rw [hpc, hbyte]; exact hcb
    refine ⟨hi2, by rw [fetch_spec s.1 s.1.regs s.2 i hi2], fun hb2 => ?_⟩
    rw [((c05_haltbug specTables s.1 s.1.regs s.2).2.1 hcb2).2.2.2 hb2, hpc]

/-- non-vacuity: INC B (0x04) everywhere, halt bug armed, IME clear -/
example : AtFetch { Cpu.init with regs := { Regs.init with haltbug := true } }
      (⟨fun _ => 0x04, false, 0x1f, 0x14⟩ : Flat) ∧
    instrAt Regs.init.pc (⟨fun _ => 0x04, false, 0x1f, 0x14⟩ : Flat) = some (.inc (.r .b)) := by
  refine ⟨⟨?_, ?_, ?_, ?_, ?_, ?_⟩, ?_⟩ <;> decide

/-! ### the halt bug end to end: `HALT ; INC B` with IME clear and a request pending increments B twice -/

private theorem flat_ime_self (m : Flat) (b : Bool) (h : m.ime = false) (hb : b = false) :
    ({ m with ime := m.ime || b } : Flat) = m := by
  cases m; simp_all

private theorem inc_b_b (r : Regs) : (inc r .b).b = r.b + 1 := by
  simp [inc, Regs.set, Regs.get, Regs.setZf, Regs.setNf, Regs.setHf]

/-- one INC B at a fetch boundary (IME clear, no EI latch): one cycle, B+1, PC advanced unless the halt bug
    is armed, bus untouched, and the next boundary is again a fetch boundary -/
private theorem inc_b_step (c : Cpu) (m : Flat) (h : AtFetch c m) (hep : c.regs.eiPending = false)
    (hime : m.ime = false) (hop : m.read c.regs.pc = 0x04) :
    AtFetch (cycle specTables c m).1 (cycle specTables c m).2 ∧
    (cycle specTables c m).2 = m ∧
    (cycle specTables c m).1.regs = inc (fetchRegs c.regs false) .b := by
  have hi : instrAt c.regs.pc m = some (.inc (.r .b)) :=
    instrAt_of_byte _ _ _ _ hop (by decide) (by decide)
  obtain ⟨_, _, hfin, hcr, hex, hregs, hbus⟩ := C02.c02_cycles c m _ h hi
  have hd : decide (m.read c.regs.pc = 0xcb) = false := by rw [hop]; decide
  have hc1 : cyclesOf (.inc (.r .b)) ((condOf (.inc (.r .b))).all fun cc => cc.holds (abs c.regs m)) = 1 :=
    rfl
  rw [hc1] at hfin hcr hex hregs hbus
  rw [cycles_one] at hfin hcr hex hregs hbus
  rw [hd, flat_ime_self m _ hime hep] at hregs hbus
  have hregs' : (cycle specTables c m).1.regs = inc (fetchRegs c.regs false) .b := by rw [hregs]; rfl
  have hbus' : (cycle specTables c m).2 = m := by rw [hbus]; rfl
  refine ⟨⟨hfin, hcr, hex, ?_, ?_, ?_⟩, hbus', hregs'⟩
  · rw [hregs']; exact h.2.2.2.1
  · rw [hregs']; exact h.2.2.2.2.1
  · intro hx; rw [hbus', hime] at hx; cases hx.2

/-- C05 halt bug, end to end.  `HALT ; INC B` at a fetch boundary with IME clear and an enabled request
    pending: HALT does not idle, and after 3 machine cycles (HALT, INC B, INC B) B has been incremented
    TWICE while PC has advanced past the two bytes only; IF/IE/IME/memory untouched (no dispatch). -/
theorem c05_haltbug_inc_b (c : Cpu) (m : Flat) (h : AtFetch c m) (hep : c.regs.eiPending = false)
    (hbug : c.regs.haltbug = false) (hime : m.ime = false) (hp : pendingBits m ≠ 0)
    (h0 : m.read c.regs.pc = 0x76) (h1 : m.read (c.regs.pc + 1) = 0x04) :
    (cycle specTables c m).1.regs.halted = false ∧
    (cycle specTables c m).1.regs.haltbug = true ∧
    (cycles specTables 3 c m).1.isFinished = true ∧
    (cycles specTables 3 c m).1.regs.b = c.regs.b + 2 ∧
    (cycles specTables 3 c m).1.regs.pc = c.regs.pc + 2 ∧
    (cycles specTables 3 c m).1.regs.haltbug = false ∧
    (cycles specTables 3 c m).2 = m := by
  -- HALT
  obtain ⟨hfin1, hcr1, hregs1, hbus1⟩ := c05_halt_cycle c m h h0
  rw [flat_ime_self m _ hime hep] at hregs1 hbus1
  have hhalt := (c05_halt_exec (fetchRegs c.regs false) m).2.2 hime hp
  have hregs1' : (cycle specTables c m).1.regs = { fetchRegs c.regs false with haltbug := true } := by
    rw [hregs1]; exact congrArg Prod.fst hhalt
  have hat1 : AtFetch (cycle specTables c m).1 (cycle specTables c m).2 := by
    refine ⟨hfin1, hcr1, ?_, ?_, ?_, ?_⟩
    · rw [hregs1']; exact h.2.2.1
    · rw [hregs1']; exact h.2.2.2.1
    · rw [hregs1']; exact h.2.2.2.2.1
    · intro hx; rw [hbus1, hime] at hx; cases hx.2
  have hpc1 : (cycle specTables c m).1.regs.pc = c.regs.pc + 1 := by
    rw [hregs1']; simp [fetchRegs, hbug]
  -- first INC B: the fetch does not advance PC
  have hop1 : (cycle specTables c m).2.read (cycle specTables c m).1.regs.pc = 0x04 := by
    rw [hbus1, hpc1]; exact h1
  obtain ⟨hat2, hbus2', hregs2⟩ := inc_b_step _ _ hat1 (by rw [hregs1']; rfl) (by rw [hbus1]; exact hime) hop1
  have hbus2 := hbus2'.trans hbus1
  have hpc2 : (cycle specTables (cycle specTables c m).1 (cycle specTables c m).2).1.regs.pc =
      c.regs.pc + 1 := by
    rw [hregs2, hregs1']; simp [inc, fetchRegs, hbug, Regs.set, Regs.setZf, Regs.setNf, Regs.setHf]
  -- second INC B: the same byte again, PC advances
  have hop2 : (cycle specTables (cycle specTables c m).1 (cycle specTables c m).2).2.read
      (cycle specTables (cycle specTables c m).1 (cycle specTables c m).2).1.regs.pc = 0x04 := by
    rw [hbus2, hpc2]; exact h1
  obtain ⟨hat3, hbus3', hregs3⟩ := inc_b_step _ _ hat2 (by rw [hregs2]; rfl) (by rw [hbus2]; exact hime) hop2
  have hbus3 := hbus3'.trans hbus2
  have h3 : cycles specTables 3 c m =
      cycle specTables (cycle specTables (cycle specTables c m).1 (cycle specTables c m).2).1
        (cycle specTables (cycle specTables c m).1 (cycle specTables c m).2).2 := rfl
  rw [h3]
  refine ⟨by rw [hregs1']; exact h.2.2.2.1, by rw [hregs1'], hat3.1, ?_, ?_, ?_, hbus3⟩
  · have hfb : ∀ r : Regs, (fetchRegs r false).b = r.b := fun _ => rfl
    rw [hregs3, inc_b_b, hfb, hregs2, inc_b_b, hfb, hregs1']
    show c.regs.b + 1 + 1 = c.regs.b + 2
    bv_omega
  · rw [hregs3]
    have : (inc (fetchRegs (cycle specTables (cycle specTables c m).1
        (cycle specTables c m).2).1.regs false) .b).pc =
        (cycle specTables (cycle specTables c m).1 (cycle specTables c m).2).1.regs.pc + 1 := by
      rw [hregs2]
      simp [inc, fetchRegs, Regs.set, Regs.setZf, Regs.setNf, Regs.setHf]
    rw [this, hpc2]; bv_omega
  · rw [hregs3]; simp [inc, fetchRegs, Regs.set, Regs.setZf, Regs.setNf, Regs.setHf]

/-- non-vacuity: HALT at 0x0100, INC B at 0x0101, IME clear, Timer and Joypad requested and enabled -/
example : AtFetch Cpu.init (⟨fun a => if a = 0x0100 then 0x76 else 0x04, false, 0x1f, 0x14⟩ : Flat) ∧
    pendingBits (⟨fun a => if a = 0x0100 then 0x76 else 0x04, false, 0x1f, 0x14⟩ : Flat) ≠ 0 ∧
    (⟨fun a => if a = 0x0100 then 0x76 else 0x04, false, 0x1f, 0x14⟩ : Flat).read Cpu.init.regs.pc = 0x76 ∧
    (⟨fun a => if a = 0x0100 then 0x76 else 0x04, false, 0x1f, 0x14⟩ : Flat).read (Cpu.init.regs.pc + 1) = 0x04 := by
  refine ⟨⟨?_, ?_, ?_, ?_, ?_, ?_⟩, ?_, ?_, ?_⟩ <;> decide

/-! ### the same statements for the tables regenerated from dispatch.go (`c01_tables : Tables.gen = specTables`) -/

theorem c05_halt_cycle_gen (c : Cpu) (m : Flat) (h : AtFetch c m) (hop : m.read c.regs.pc = 0x76) :
    (cycle Tables.gen c m).1.isFinished = true ∧
    (cycle Tables.gen c m).1.crashed = false ∧
    (cycle Tables.gen c m).1.regs =
      haltF (fetchRegs c.regs false) ({ m with ime := m.ime || c.regs.eiPending } : Flat) ∧
    (cycle Tables.gen c m).2 = { m with ime := m.ime || c.regs.eiPending } := by
  rw [C01.c01_tables]; exact c05_halt_cycle c m h hop

theorem c05_haltbug_twice_gen (c : Cpu) (m : Flat) (i : Instr) (h : AtFetch c m)
    (hbug : c.regs.haltbug = true) (hcb : m.read c.regs.pc ≠ 0xcb)
    (hi : instrAt c.regs.pc m = some i) :
    let n := cyclesOf i ((condOf i).all fun cc => cc.holds (abs c.regs m))
    let s := cycles Tables.gen n c m
    -- first execution: PC was not advanced by the fetch
    s.1.isFinished = true ∧
    s.1.regs = (runList ((micro i).take n) { fetchRegs c.regs false with pc := c.regs.pc }
                  { m with ime := m.ime || c.regs.eiPending }).1 ∧
    -- second fetch
    (s.1.regs.pc = c.regs.pc → s.2.read c.regs.pc = m.read c.regs.pc →
      instrAt s.1.regs.pc s.2 = some i ∧
      (fetch Tables.gen s.1 s.1.regs s.2).cpu.ops = micro i ∧
      (s.1.regs.haltbug = false → (fetch Tables.gen s.1 s.1.regs s.2).cpu.regs.pc = c.regs.pc + 1)) := by
  rw [C01.c01_tables]; exact c05_haltbug_twice c m i h hbug hcb hi

theorem c05_haltbug_inc_b_gen (c : Cpu) (m : Flat) (h : AtFetch c m) (hep : c.regs.eiPending = false)
    (hbug : c.regs.haltbug = false) (hime : m.ime = false) (hp : pendingBits m ≠ 0)
    (h0 : m.read c.regs.pc = 0x76) (h1 : m.read (c.regs.pc + 1) = 0x04) :
    (cycle Tables.gen c m).1.regs.halted = false ∧
    (cycle Tables.gen c m).1.regs.haltbug = true ∧
    (cycles Tables.gen 3 c m).1.isFinished = true ∧
    (cycles Tables.gen 3 c m).1.regs.b = c.regs.b + 2 ∧
    (cycles Tables.gen 3 c m).1.regs.pc = c.regs.pc + 2 ∧
    (cycles Tables.gen 3 c m).1.regs.haltbug = false ∧
    (cycles Tables.gen 3 c m).2 = m := by
  rw [C01.c01_tables]; exact c05_haltbug_inc_b c m h hep hbug hime hp h0 h1

end Tetro.C05
