import Tetro.Proofs.WholeSafe
import Tetro.Proofs.C01Tables
import Tetro.Proofs.C11Cart
import Tetro.Lemmas.CpuOk
import Tetro.Lemmas.ApuOk
import Tetro.Lemmas.CpuAddr
/-
The whole machine never panics: for EVERY ROM image the loader accepts and EVERY number of machine cycles, none
of the three panic flags of the whole-machine model (`Board.crashed`, `Apu.crashed`, `Cpu.crashed`) is ever set.
The only way the machine stops is `regs.exited` (the `fatal` sub-instruction of an undefined opcode = the
emulator's deliberate `os.Exit`).

This closes the two gaps of `Proofs/WholeSafe.lean` (`whole_no_crash_partial`):

(1) the CPU's own panic (sub-instruction index past the list) and the APU's sticky flags:
    `CpuOk` (Lemmas/CpuOk.lean, generic over the bus and the tables; the tables regenerated from dispatch.go
    satisfy `TablesOk` by `c01_tables`) and `ApuOk` (Lemmas/ApuOk.lean: C20's range invariant + both flags clear
    + last-accessed wave index < 16; preserved by a write of ANY value at ANY address and by a machine cycle);

(2) the very first machine cycle after power-on.  `oam.New` leaves `ppuLastAccess = 0` (outside FE00–FE9F) and
    `ppu.New` opens the OAM-bug window (`WriteLCDC(0x91)` → `EnterMode2`), so the OAM unit is NOT `Safe` at
    power-on: a CPU access to FE00–FEFF in the first cycle would make `Corrupt()` index `oam[512]`.  What
    prevents it is the CPU's power-on state: the first cycle fetches the opcode byte(s) at PC = 0100/0101
    (cartridge ROM), and the FIRST sub-instruction of every one of the 512 opcode rows is either internal or an
    immediate-operand fetch at PC (0101) – checked row by row by kernel evaluation (`first_rows`: with the power-on
    registers every bus address it uses is below 8000); at the end of that cycle `ppu.EndMachineCycle` (mode 2,
    LCD on) sets `ppuLastAccess`.  (The hypothesis matters: the same machine with PC = FE00 panics in its first
    cycle – see the examples at the end.)
    So the board invariant is `BoardOk' w := BoardOk w.b ∨ (FirstOk w.b ∧ (the CPU is in its power-on state
    ∨ it has exited))` – it mentions the CPU because the safety of the first cycle depends on the CPU's registers.

Main theorems: `whole_cycle_ok`, `construct_ok`, `c11_whole_never_panics`, `whole_button_ok`.
-/
namespace Tetro.WholeNoCrash
open Tetro.Model Tetro.Model.Whole Tetro.Model.Machine Tetro.Model.Decoder Tetro.Model.Oam
open Tetro.WholeSafe Tetro.WholeProofs Tetro.CartWF Tetro.C17 Tetro.BusRoute Tetro.LcdLemmas
open Tetro.CpuOk Tetro.ApuOk Tetro.CpuAddr

/-! ### A. the CPU: the regenerated tables satisfy `TablesOk` -/

private theorem spec_tables_ok : TablesOk Tetro.Spec.Isa.specTables :=
  ⟨by decide +kernel, by decide +kernel, by decide +kernel, by decide, by decide, by decide⟩

/-- every row of the dispatch tables regenerated from dispatch.go is non-empty and every early-finish record
    is a positive index inside its row -/
theorem whole_tables_ok : TablesOk Cpu.Tables.gen := by
  rw [Tetro.C01.c01_tables]; exact spec_tables_ok

/-- **A. the CPU never panics**, on any bus: a machine cycle with the regenerated tables keeps `CpuOk` -/
theorem whole_cpu_ok {β : Type} [Cpu.Bus β] (c : Cpu.Cpu) (b : β) (h : CpuOk c) :
    CpuOk (Cpu.cycle Cpu.Tables.gen c b).1 :=
  Tetro.CpuOk.cycle_ok _ whole_tables_ok c b h

/-! ### B. the APU on the board -/

private theorem board_read_apu (b : Board) (a : Nat) : (b.read a).2.apu = b.apu := by
  unfold Board.read Board.read?
  cases apuAddr? (rH a) a with
  | some ad => simp only []; cases b.apu.read ad <;> rfl
  | none => simp only []; cases readVal (rH a) b.m a <;> rfl

private theorem board_write_apu_ok (b : Board) (a v : Nat) (h : ApuOk b.apu) : ApuOk (b.write a v).apu := by
  unfold Board.write Board.write?
  cases apuAddr? (wH a) a with
  | some ad => exact Tetro.ApuOk.write_ok _ _ _ h
  | none => simp only []; cases writeH (wH a) b.m a v <;> exact h

private theorem board_corrupt_apu (b : Board) : b.corrupt.apu = b.apu := by
  unfold Board.corrupt
  split
  · rfl
  · cases Oam.corruptStep b.m.oam <;> rfl

/-- board invariant of WholeSafe plus the APU invariant -/
def BoardAll (b : Board) : Prop := BoardOk b ∧ ApuOk b.apu

/-- the CPU's part of a cycle keeps both (it reaches the board only through the nine bus operations) -/
theorem whole_cpu_part_all (c : Cpu.Cpu) (b : Board) (h : BoardAll b) : BoardAll (Cpu.cycle Cpu.Tables.gen c b).2 := by
  refine Tetro.CpuBusInv.cycle_preserves BoardAll ?_ ?_ ?_ ?_ ?_ ?_ _ _ _ h
  · intro m a hm
    exact ⟨whole_board_read m hm.1 a.toNat a.isLt, by
      show ApuOk (m.read a.toNat).2.apu
      rw [board_read_apu]; exact hm.2⟩
  · intro m a v hm
    exact ⟨whole_board_write m hm.1 a.toNat v.toNat a.isLt, board_write_apu_ok m _ _ hm.2⟩
  · intro m a hm; exact ⟨whole_board_trigger m hm.1 a, hm.2⟩
  · intro m hm
    exact ⟨whole_board_corrupt m hm.1, by
      show ApuOk m.corrupt.apu
      rw [board_corrupt_apu]; exact hm.2⟩
  · intro m v hm
    exact ⟨whole_cpu_setIntr m hm.1 _, hm.2⟩
  · intro m k hm
    exact ⟨whole_cpu_setIntr m hm.1 _, hm.2⟩

private theorem guard_apu (f : Board → Board) (hf : ∀ b, ApuOk b.apu → ApuOk (f b).apu) (b : Board)
    (h : ApuOk b.apu) : ApuOk (Board.guard f b).apu := by
  unfold Board.guard
  split
  · exact h
  · exact hf b h

private theorem ppuStep_apu (b : Board) : b.ppuStep.apu = b.apu := by
  rw [whole_step_ppu]
  cases Render.tick (sceneOf b.m) (syncPix b.m.ppu b.pix) with
  | none => rfl
  | some p => cases ppuTick b.m <;> rfl

private theorem dmaStep_apu (b : Board) : b.dmaStep.apu = b.apu := by
  rw [whole_step_dma]
  cases endMachineCycle Serial.genReadArms b.m <;> rfl

/-- the four steps after the CPU's keep the APU invariant (only `audio.EndMachineCycle` touches the APU) -/
theorem whole_end_cycle_apu (b : Board) (h : ApuOk b.apu) : ApuOk b.endCycle.apu := by
  unfold Board.endCycle
  refine guard_apu Board.timerStep (fun b hb => hb) _ ?_
  refine guard_apu Board.apuStep (fun b hb => by rw [whole_step_apu]; exact Tetro.ApuOk.cycle_ok _ hb) _ ?_
  refine guard_apu Board.dmaStep (fun b hb => by rw [dmaStep_apu]; exact hb) _ ?_
  exact guard_apu Board.ppuStep (fun b hb => by rw [ppuStep_apu]; exact hb) _ h

/-! ### C. the first machine cycle after power-on -/

/-- no OAM-bug trigger pending -/
def NoTrig (o : Oam) : Prop := o.read = false ∧ o.write = false ∧ o.doubleWrite = false

/-- what holds of the board from power-on until the first `ppu.EndMachineCycle`: as `BoardOk`, but instead of
    `ppuLastAccess ∈ [FE00, FE9F]` no trigger is pending, and the LCD is in its power-on state -/
structure FirstOk (b : Board) : Prop where
  alive : b.crashed = false
  cart  : WellFormed b.m.cart
  ppu   : b.m.ppu = Lcd.init
  dma   : DmaOk b.m.oam
  quiet : NoTrig b.m.oam
  apu   : ApuOk b.apu

/-- the addresses the first cycle can put on the bus: the cartridge's ROM area -/
def far (a : Cpu.Word) : Bool := decide (a.toNat < 0x8000)

private theorem far_lt {a : Cpu.Word} (h : far a = true) : a.toNat < 0x8000 := by
  unfold far at h
  simpa using h

private theorem not_sound {a : Nat} (h : a < 0x8000) : soundAddr a = false := by
  unfold soundAddr
  simp only [Bool.or_eq_false_iff, Bool.and_eq_false_iff, decide_eq_false_iff_not]
  omega

private theorem first_read_nat (b : Board) (h : FirstOk b) (a : Nat) (ha : a < 0x8000) : FirstOk (b.read a).2 := by
  have ha' : a < 65536 := by omega
  unfold Board.read Board.read?
  rw [(whole_apu_addresses a ha').1, not_sound ha]
  simp only [Bool.false_eq_true, if_false]
  have er : rH a = route expectedReadArms a := by unfold rH; rw [Tetro.C06.c06_arms.1]
  rw [er]
  have hr := range_read ha'
  generalize route expectedReadArms a = hd at hr ⊢
  cases hd <;> simp only [inRange, Bool.or_eq_true, Bool.and_eq_true, decide_eq_true_eq, beq_iff_eq,
    Bool.true_and, Bool.false_eq_true] at hr
  case mbc =>
    have := Tetro.CartWF.read_ok h.cart a
    simp only [Cart.busRead, Option.isSome_iff_exists] at this
    obtain ⟨v, hv⟩ := this
    have e : readVal .mbc b.m a = some v := hv
    rw [e]
    exact ⟨h.alive, h.cart, h.ppu, h.dma, h.quiet, h.apu⟩
  all_goals (exfalso; omega)

private theorem first_write_nat (b : Board) (h : FirstOk b) (a v : Nat) (ha : a < 0x8000) : FirstOk (b.write a v) := by
  have ha' : a < 65536 := by omega
  unfold Board.write Board.write?
  rw [(whole_apu_addresses a ha').2, not_sound ha]
  simp only [Bool.false_eq_true, if_false]
  have ew : wH a = route expectedWriteArms a := by unfold wH; rw [Tetro.C06.c06_arms.2]
  rw [ew]
  have hr := range_write ha'
  generalize route expectedWriteArms a = hd at hr ⊢
  cases hd <;> simp only [inRange, Bool.or_eq_true, Bool.and_eq_true, decide_eq_true_eq, beq_iff_eq,
    Bool.true_and, Bool.false_eq_true, Bool.not_false] at hr
  case mbc =>
    obtain ⟨c', e, w⟩ := Tetro.CartWF.write_ok h.cart a v
    have e' : writeH .mbc b.m a v = some { b.m with cart := c' } := by simp only [writeH, e, Option.map_some]
    rw [e']
    exact ⟨h.alive, w, h.ppu, h.dma, h.quiet, h.apu⟩
  all_goals (exfalso; omega)

private theorem first_read (b : Board) (a : Cpu.Word) (ha : far a = true) (h : FirstOk b) :
    FirstOk (Cpu.Bus.read b a).2 := first_read_nat b h a.toNat (far_lt ha)

private theorem first_write (b : Board) (a : Cpu.Word) (v : Cpu.Byte) (ha : far a = true) (h : FirstOk b) :
    FirstOk (Cpu.Bus.write b a v) := first_write_nat b h a.toNat v.toNat (far_lt ha)

private theorem first_trigger (b : Board) (a : Cpu.Word) (ha : far a = true) (h : FirstOk b) :
    FirstOk (Cpu.Bus.trigger b a) := by
  have e : Oam.triggerWriteCorruption b.m.oam a = b.m.oam := by
    have hc := far_lt ha
    unfold Oam.triggerWriteCorruption
    rw [if_pos]
    simp only [Bool.or_eq_true, decide_eq_true_eq]
    omega
  show FirstOk (b.setOam (Oam.triggerWriteCorruption b.m.oam a))
  rw [e]
  exact ⟨h.alive, h.cart, h.ppu, h.dma, h.quiet, h.apu⟩

private theorem first_corrupt (b : Board) (h : FirstOk b) : FirstOk (Cpu.Bus.corrupt b) := by
  show FirstOk b.corrupt
  unfold Board.corrupt
  rw [h.quiet.1, h.quiet.2.1]
  exact h

private theorem first_setIme (b : Board) (v : Bool) (h : FirstOk b) : FirstOk (Cpu.Bus.setIme b v) :=
  ⟨h.alive, h.cart, h.ppu, h.dma, h.quiet, h.apu⟩

/-- the registers the first sub-instruction starts from: `cpu.New`'s values, PC after the opcode byte(s) -/
def regs1 : Cpu.Regs := { Cpu.Regs.init with pc := 0x0101 }
def regs2 : Cpu.Regs := { Cpu.Regs.init with pc := 0x0102 }

private def headWithin (row : List Cpu.MicroOp) (r : Cpu.Regs) : Bool :=
  match row with
  | [] => false
  | μ :: _ => within far μ r

/-- row by row: the first sub-instruction of each of the 512 opcode rows, started from the power-on registers,
    puts on the bus only addresses below 8000 (in fact only PC, for an immediate operand) -/
private theorem first_rows :
    (∀ op < 256, headWithin (Tetro.Spec.Isa.specTables.normal.getD op []) regs1 = true) ∧
    (∀ op < 256, headWithin (Tetro.Spec.Isa.specTables.prefixed.getD op []) regs2 = true) := by
  constructor <;> decide +kernel

private theorem first_stepSub (c : Cpu.Cpu) (b : Board) (h : FirstOk b) (hc : c.cycle = 0)
    (hw : headWithin c.ops c.regs = true) : FirstOk (Cpu.stepSub c b).2 := by
  unfold Cpu.stepSub
  rw [hc]
  cases hops : c.ops with
  | nil => rw [hops] at hw; cases hw
  | cons μ rest =>
    rw [hops] at hw
    simp only [List.getElem?_cons_zero]
    exact first_corrupt _ (run_preserves_within far FirstOk first_read first_write first_trigger first_setIme
      μ c.regs b hw h)

/-- the CPU's part of the first cycle keeps `FirstOk` -/
theorem whole_first_cpu (b : Board) (h : FirstOk b) (hp : Cpu.pendingBits b = 0) :
    FirstOk (Cpu.cycle Cpu.Tables.gen Cpu.Cpu.init b).2 := by
  rw [Tetro.C01.c01_tables]
  have e1 : Cpu.cycle Tetro.Spec.Isa.specTables Cpu.Cpu.init b =
      (if (Cpu.next Tetro.Spec.Isa.specTables Cpu.Cpu.init b).halted then
        ((Cpu.next Tetro.Spec.Isa.specTables Cpu.Cpu.init b).cpu, (Cpu.next Tetro.Spec.Isa.specTables Cpu.Cpu.init b).bus)
       else Cpu.stepSub (Cpu.next Tetro.Spec.Isa.specTables Cpu.Cpu.init b).cpu
        (Cpu.next Tetro.Spec.Isa.specTables Cpu.Cpu.init b).bus) := rfl
  have e2 : Cpu.next Tetro.Spec.Isa.specTables Cpu.Cpu.init b =
      Cpu.fetch Tetro.Spec.Isa.specTables Cpu.Cpu.init Cpu.Regs.init b := by
    unfold Cpu.next Cpu.checkInterrupts
    rw [hp]
    rfl
  rw [e1, e2]
  unfold Cpu.fetch
  simp only []
  have hpc : far Cpu.Regs.init.pc = true := by decide
  have hpc1 : far (Cpu.Regs.init.pc + 1) = true := by decide
  have hb1 : FirstOk (Cpu.Bus.read b Cpu.Regs.init.pc).2 := first_read b _ hpc h
  have eei : (if Cpu.Regs.init.eiPending = true then Cpu.Bus.setIme b true else b) = b := rfl
  rw [eei]
  generalize Cpu.Bus.read b Cpu.Regs.init.pc = op at hb1 ⊢
  split
  · -- CB prefix
    have hb2 : FirstOk (Cpu.Bus.read op.2 (Cpu.Regs.init.pc + 1)).2 := first_read _ _ hpc1 hb1
    generalize Cpu.Bus.read op.2 (Cpu.Regs.init.pc + 1) = op2 at hb2 ⊢
    simp only [Bool.false_eq_true, if_false]
    exact first_stepSub _ _ hb2 rfl (first_rows.2 op2.1.toNat op2.1.isLt)
  · simp only [Bool.false_eq_true, if_false]
    exact first_stepSub _ _ hb1 rfl (first_rows.1 op.1.toNat op.1.isLt)

private theorem guard_alive (f : Board → Board) (b : Board) (h : b.crashed = false) : Board.guard f b = f b := by
  unfold Board.guard; rw [h]; rfl

/-- the rest of the first cycle: `ppu.EndMachineCycle` runs the sprite search of mode 2 and leaves
    `ppuLastAccess` inside OAM, so the board invariant of WholeSafe holds from here on -/
theorem whole_first_end (b : Board) (h : FirstOk b) : BoardOk b.endCycle := by
  have h1 : BoardOk b.ppuStep := by
    refine whole_ppu_step_mode2 b h.alive h.cart ?_ h.dma h.apu.la ?_ ?_
    · rw [h.ppu]; exact ⟨_, rel_init⟩
    · rw [h.ppu]; decide
    · rw [h.ppu]; decide
  unfold Board.endCycle
  rw [guard_alive _ _ h.alive]
  have h2 := whole_dma_step_total _ h1
  rw [guard_alive _ _ h1.alive]
  have h3 := whole_apu_step_total _ h2
  rw [guard_alive _ _ h2.alive]
  rw [guard_alive _ _ h3.alive]
  exact whole_timer_step_total _ h3

/-! ### D. the invariant of the whole machine -/

/-- the CPU as `cpu.New` leaves it and no enabled interrupt requested -/
def AtPowerOn (w : Whole) : Prop := w.cpu = Cpu.Cpu.init ∧ Cpu.pendingBits w.b = 0

/-- the board part: the invariant of WholeSafe, or – until the first `ppu.EndMachineCycle` – `FirstOk` with the
    CPU in its power-on state (or exited in the very first cycle: an undefined opcode at 0100) -/
def BoardOk' (w : Whole) : Prop :=
  BoardOk w.b ∨ (FirstOk w.b ∧ (AtPowerOn w ∨ w.cpu.regs.exited = true))

/-- **the invariant**: board, CPU, APU -/
structure WholeOk (w : Whole) : Prop where
  board : BoardOk' w
  cpu   : CpuOk w.cpu
  apu   : ApuOk w.b.apu

/-- the invariant excludes all three panic flags -/
theorem WholeOk.no_panic {w : Whole} (h : WholeOk w) : w.b.dead = false ∧ w.cpu.crashed = false := by
  refine ⟨?_, h.cpu.alive⟩
  have hc : w.b.crashed = false := by
    rcases h.board with hb | ⟨hf, _⟩
    · exact hb.alive
    · exact hf.alive
  unfold Board.dead
  rw [hc, h.apu.not_crashed]; rfl

/-- **every machine cycle keeps the invariant**, whatever the guest program does -/
theorem whole_cycle_ok (w : Whole) (h : WholeOk w) : WholeOk w.cycle := by
  cases hs : w.stopped
  · rw [whole_cycle_order w hs]
    have hcpu : CpuOk (afterCpu w).1 := whole_cpu_ok w.cpu w.b h.cpu
    rcases h.board with hb | ⟨hf, hp | hx⟩
    · -- the general case
      have hall : BoardAll (afterCpu w).2 := whole_cpu_part_all w.cpu w.b ⟨hb, h.apu⟩
      split
      · exact ⟨Or.inl hall.1, hcpu, hall.2⟩
      · exact ⟨Or.inl (whole_end_cycle_total _ hall.1), hcpu, whole_end_cycle_apu _ hall.2⟩
    · -- the first cycle after power-on
      have hf' : FirstOk (afterCpu w).2 := by
        unfold afterCpu
        rw [hp.1]
        exact whole_first_cpu w.b hf hp.2
      cases hst : cpuStopped w
      · simp only [Bool.false_eq_true, if_false]
        exact ⟨Or.inl (whole_first_end _ hf'), hcpu, whole_end_cycle_apu _ hf'.apu⟩
      · simp only [if_true]
        have hx : (afterCpu w).1.regs.exited = true := by
          unfold cpuStopped at hst
          have hd : (afterCpu w).2.dead = false := by
            unfold Board.dead; rw [hf'.alive, hf'.apu.not_crashed]; rfl
          rw [hcpu.alive, hd] at hst
          simpa using hst
        exact ⟨Or.inr ⟨hf', Or.inr hx⟩, hcpu, hf'.apu⟩
    · -- exited: the machine is stopped
      unfold Whole.stopped at hs
      rw [hx] at hs
      simp at hs
  · rw [whole_cycle_stopped w hs]; exact h

theorem whole_run_ok (n : Nat) (w : Whole) (h : WholeOk w) : WholeOk (Whole.run n w) := by
  induction n generalizing w with
  | zero => exact h
  | succ n ih => exact ih w.cycle (whole_cycle_ok w h)

private theorem powerOn_first (c : Cart.Mbc) (wr au : Bool) (hc : WellFormed c) : FirstOk (Whole.powerOn c wr au).b := by
  refine ⟨rfl, hc, rfl, ?_, ⟨rfl, rfl, rfl⟩, Tetro.ApuOk.new_ok au au⟩
  intro hrun
  have e : (Whole.powerOn c wr au).b.m.oam.dmaRunning = false := rfl
  rw [e] at hrun
  cases hrun

private theorem powerOn_pending (c : Cart.Mbc) (wr au : Bool) : Cpu.pendingBits (Whole.powerOn c wr au).b = 0 := by
  have e : Cpu.pendingBits (Whole.powerOn c wr au).b = byteOf Intr.init.ie &&& byteOf Intr.init.ifl &&& 0x1f := rfl
  rw [e]
  decide

/-- every machine `gameboy.New` builds satisfies the invariant -/
theorem construct_ok (img : Cart.Image) (wr au : Bool) (w : Whole) (h : Whole.construct img wr au = some w) : WholeOk w := by
  unfold Whole.construct at h
  rw [Option.map_eq_some_iff] at h
  obtain ⟨c, hc, rfl⟩ := h
  have hwf : WellFormed c := by
    rcases Tetro.C11Cart.c11_construct_total img with e | ⟨c', e, hw⟩
    · rw [e] at hc; cases hc
    · rw [e] at hc; cases hc; exact hw
  have hf := powerOn_first c wr au hwf
  exact ⟨Or.inr ⟨hf, Or.inl ⟨rfl, powerOn_pending c wr au⟩⟩, init_ok, hf.apu⟩

/-- **C11 for the whole machine: it never panics.**  For EVERY ROM image the loader accepts, serial writer and
    speakers configured or not, after EVERY number of machine cycles none of the panic flags of the model – board
    (cartridge, VRAM/WRAM/HRAM, OAM + DMA + OAM bug, PPU timing and pixels), APU (`waveduty` and wave-RAM
    indices), CPU (sub-instruction index) – is set: the only way the machine stops is `regs.exited`, the
    emulator's deliberate `os.Exit` on an undefined opcode. -/
theorem c11_whole_never_panics (img : Cart.Image) (wr au : Bool) (w : Whole) (h : Whole.construct img wr au = some w)
    (n : Nat) : (Whole.run n w).b.dead = false ∧ (Whole.run n w).cpu.crashed = false :=
  (whole_run_ok n w (construct_ok img wr au w h)).no_panic

/-- button presses and releases (any button number) keep the invariant -/
theorem whole_button_ok (w : Whole) (k : Nat) (pressed : Bool) (h : WholeOk w) : WholeOk (w.button k pressed) := by
  refine ⟨?_, h.cpu, h.apu⟩
  rcases h.board with hb | ⟨hf, hp⟩
  · exact Or.inl ⟨hb.alive, hb.cart, hb.lcd, hb.oam, hb.la⟩
  · exact Or.inr ⟨⟨hf.alive, hf.cart, hf.ppu, hf.dma, hf.quiet, hf.apu⟩, hp⟩

/-- …so the machine never panics under any schedule of cycles and button events -/
theorem whole_events_ok (evs : List (Option (Nat × Bool))) (w : Whole) (h : WholeOk w) :
    WholeOk (evs.foldl (fun w e => match e with | none => w.cycle | some kb => w.button kb.1 kb.2) w) := by
  induction evs generalizing w with
  | nil => exact h
  | cons e evs ih =>
    cases e with
    | none => exact ih _ (whole_cycle_ok w h)
    | some kb => exact ih _ (whole_button_ok w kb.1 kb.2 h)

/-! ### non-vacuity -/

/-- a 32 KiB ROM-only cartridge filled with one byte, powered on with speakers attached -/
def romOf (byte : Nat) : Whole := Whole.powerOn (.none { rom := fun _ _ => byte, imgLen := 0x8000 }) false true

private theorem romOf_ok (byte : Nat) : WholeOk (romOf byte) :=
  have hf := powerOn_first (.none { rom := fun _ _ => byte, imgLen := 0x8000 }) false true
    (by show (0x8000 : Nat) ≤ 0x8000; decide)
  ⟨Or.inr ⟨hf, Or.inl ⟨rfl, powerOn_pending _ _ _⟩⟩, init_ok, hf.apu⟩

/-- the `demo` machine of Proofs/Whole.lean (all-NOP ROM, nothing attached) satisfies the invariant at power-on
    (through its second disjunct: `ppuLastAccess = 0` there) … -/
example : WholeOk demo :=
  have hf := powerOn_first (.none { rom := fun _ _ => 0, imgLen := 0x8000 }) false false
    (by show (0x8000 : Nat) ≤ 0x8000; decide)
  ⟨Or.inr ⟨hf, Or.inl ⟨rfl, powerOn_pending _ _ _⟩⟩, init_ok, hf.apu⟩
example : demo.b.m.oam.ppuLastAccess = 0 ∧ demo.b.m.oam.corrupt = true := by decide +kernel
/-- … and from the end of its first cycle through the first (`ppuLastAccess = FE04`) -/
example : demo.cycle.b.m.oam.ppuLastAccess = 0xfe04 := by decide +kernel

/-- a machine in the middle of a multi-cycle instruction: the ROM is all `JP C3C3` (4 cycles); after two cycles the
    CPU is at sub-instruction index 2 of 4, not at a boundary, and the state satisfies the invariant -/
example : WholeOk (Whole.run 2 (romOf 0xc3)) := whole_run_ok 2 _ (romOf_ok 0xc3)
example : (Whole.run 2 (romOf 0xc3)).cpu.cycle = 2 ∧ (Whole.run 2 (romOf 0xc3)).cpu.ops.length = 4 ∧
    (Whole.run 2 (romOf 0xc3)).cpu.isFinished = false ∧ (Whole.run 2 (romOf 0xc3)).stopped = false := by
  decide +kernel

/-- `CpuOk` in the middle of a conditional instruction with an early-finish record (RET NZ: may finish at 2, last
    cycle 5, five sub-instructions) -/
example : CpuOk { regs := Cpu.Regs.init, ops := Cpu.Tables.gen.normal.getD 0xc0 [], cycle := 3,
                  early := Cpu.Tables.gen.earlyOf 0xc0, crashed := false } := by
  rw [Tetro.C01.c01_tables]
  exact ⟨rfl, by decide +kernel, by decide +kernel⟩

/-- the deliberate exit is not a panic: a ROM of undefined opcodes (D3) stops the machine in its first cycle with
    `exited` set and no panic flag, and it stays so -/
example : (Whole.run 3 (romOf 0xd3)).cpu.regs.exited = true ∧ (Whole.run 3 (romOf 0xd3)).stopped = true ∧
    (Whole.run 3 (romOf 0xd3)).b.dead = false ∧ (Whole.run 3 (romOf 0xd3)).cpu.crashed = false := by decide +kernel
example (n : Nat) : (Whole.run n (romOf 0xd3)).b.dead = false ∧ (Whole.run n (romOf 0xd3)).cpu.crashed = false :=
  (whole_run_ok n _ (romOf_ok 0xd3)).no_panic

/-- `ApuOk` with the wave channel running and a wave-RAM write redirected to the last-accessed byte -/
example : ApuOk ((Apu.Apu.new true true).run [.write 0xFF1A 0x80, .write 0xFF1E 0x87, .cycle, .cycle,
    .write 0xFF30 0x12, .cycle]) := Tetro.ApuOk.run_ok _ _ (Tetro.ApuOk.new_ok true true)
example : ((Apu.Apu.new true true).run [.write 0xFF1A 0x80, .write 0xFF1E 0x87, .cycle, .cycle,
    .write 0xFF30 0x12, .cycle]).ch3.enabled = true := by decide +kernel

/-- the power-on hypothesis of the first cycle is needed: the model DOES panic (`Corrupt()` indexes `oam[512]`)
    from a state that differs from power-on only in PC = FE00 – such a state is not constructible -/
example : ({ romOf 0 with cpu := { Cpu.Cpu.init with regs := { Cpu.Regs.init with pc := 0xfe00 } } } : Whole).cycle.b.crashed
    = true := by decide +kernel

end Tetro.WholeNoCrash
