import Tetro.Lemmas.SpecTables
import Tetro.Lemmas.Bits
import Tetro.Proofs.C01Tables
import Tetro.Proofs.C02
/-
C04 – interrupts are dispatched by priority exactly when enabled and requested; EI is delayed by one
instruction, DI and RETI act immediately.  Machine-cycle level, flat bus, documented tables.

A *boundary* is a state in which `isFinished` holds and the emulator is alive (`Exec.Boundary`).
NOTE on the statement: the two pushes of the dispatch go through the ordinary bus write, so if SP-1 or
SP-2 is FF0F/FFFF the push itself lands in IF/IE.  `c04_dispatch` therefore states the resulting bus
exactly (as two `Flat.write`s after the IME/IF update) and `c04_dispatch_frame` gives the "IF has
exactly bit k cleared, IE and all other memory unchanged" reading when the stack is not on FF0F/FFFF.
The scratch cells m8a/m8b (not architectural) hold the return address afterwards.
-/
namespace Tetro.C04
open Tetro.Model.Cpu Tetro.Spec.Isa Tetro.Exec

/-! ### priority -/

/-- `handleInterrupt` picks the LOWEST set bit of the pending mask: bit k is set, no lower bit is
    (VBlank 0 < STAT 1 < Timer 2 < Serial 3 < Joypad 4), and some source is picked whenever the mask is
    non-zero.  All 256 byte values (hence all 32×32 IE/IF combinations, see `c04_priority_ie_if`). -/
theorem c04_priority : ∀ p : Byte, p &&& 0x1f ≠ 0 →
    ∃ k, k < 5 ∧ pendingSource (p &&& 0x1f) = some k ∧ p.getLsbD k = true ∧
      ∀ j, j < k → p.getLsbD j = false := by
  apply Tetro.forall_bv8; decide +kernel

theorem c04_priority_ie_if (m : Flat) (h : pendingBits m ≠ 0) :
    ∃ k, k < 5 ∧ pendingSource (pendingBits m) = some k ∧
      m.ie.getLsbD k = true ∧ m.ifl.getLsbD k = true ∧
      ∀ j, j < k → (m.ie.getLsbD j && m.ifl.getLsbD j) = false := by
  obtain ⟨k, hk, hs, hb, hl⟩ := c04_priority (m.ie &&& m.ifl) h
  have hb' : m.ie.getLsbD k = true ∧ m.ifl.getLsbD k = true := by simpa using hb
  refine ⟨k, hk, hs, hb'.1, hb'.2, fun j hj => ?_⟩
  simpa using hl j hj

example : pendingBits (⟨fun _ => 0, true, 0x1f, 0x14⟩ : Flat) ≠ 0 := by decide
example : pendingSource (pendingBits (⟨fun _ => 0, true, 0x1f, 0x14⟩ : Flat)) = some 2 := by decide

private theorem pendingSource_zero : pendingSource 0 = none := by decide

private theorem pending_of_source (m : Flat) (k : Nat) (h : pendingSource (pendingBits m) = some k) :
    pendingBits m ≠ 0 := by
  intro e; rw [e, pendingSource_zero] at h; cases h

/-! ### the dispatch -/

private theorem sub_one_one (x : Word) : x - 1#16 - 1#16 = x - 2#16 := by bv_omega

/-- `handleInterrupt` with IME set and source `k` chosen -/
private theorem handleInterruptF_flat (r : Regs) (m : Flat) (k : Nat) (hime : m.ime = true)
    (hk : pendingSource (pendingBits m) = some k) :
    handleInterruptF r m =
      ({ r with pc := BitVec.ofNat 16 (0x40 + 8 * k), sp := r.sp - 2, m8a := lo8 r.pc, m8b := hi8 r.pc },
       (({ m with ime := false, ifl := m.ifl &&& ~~~((1 : Byte) <<< k) } : Flat).write
          (r.sp - 1) (hi8 r.pc)).write (r.sp - 2) (lo8 r.pc)) := by
  have hp : pendingBits ({ m with ime := false } : Flat) = pendingBits m := rfl
  simp [handleInterruptF, hime, hp, hk, pushCell, decSP, rstTo, Regs.get, sub_one_one]

private theorem short_eq : specTables.short = [.nop, .nop, .nop, .nop, .handleInterrupt] := rfl
private theorem long_eq : specTables.long = [.nop, .nop, .nop, .nop, .nop, .handleInterrupt] := rfl

private theorem next_short (c : Cpu) (m : Flat) (hh : c.regs.halted = false) (hime : m.ime = true)
    (hp : pendingBits m ≠ 0) :
    next specTables c m =
      { cpu := { c with ops := specTables.short, cycle := 0, early := none }, bus := m, halted := false } := by
  have hp' : ¬ pendingBits m = 0#8 := hp
  simp [next, checkInterrupts, hp', hime, hh]

/-- C04 dispatch.  At a boundary (not halted) with IME set and source `k` the highest-priority pending
    one: the CPU is inside the interrupt sequence for cycles 1–4 and at a boundary after exactly 5;
    then PC = 0x40 + 8k, SP = SP-2, every other architectural register and flag unchanged; IME is
    clear, bit k of IF is cleared, the old PC has been pushed (high byte to SP-1, then low byte to
    SP-2). -/
theorem c04_dispatch (c : Cpu) (m : Flat) (hb : Boundary c) (hh : c.regs.halted = false)
    (hime : m.ime = true) (k : Nat) (hk : pendingSource (pendingBits m) = some k) :
    (∀ j, 0 < j → j < 5 → (cycles specTables j c m).1.isFinished = false) ∧
    (cycles specTables 5 c m).1.isFinished = true ∧
    (cycles specTables 5 c m).1.crashed = false ∧
    (cycles specTables 5 c m).1.regs =
      { c.regs with pc := BitVec.ofNat 16 (0x40 + 8 * k), sp := c.regs.sp - 2,
                    m8a := lo8 c.regs.pc, m8b := hi8 c.regs.pc } ∧
    (cycles specTables 5 c m).2 =
      (({ m with ime := false, ifl := m.ifl &&& ~~~((1 : Byte) <<< k) } : Flat).write
          (c.regs.sp - 1) (hi8 c.regs.pc)).write (c.regs.sp - 2) (lo8 c.regs.pc) := by
  have hn := next_short c m hh hime (pending_of_source m k hk)
  have hL : Loaded { c with ops := specTables.short, cycle := 0, early := none } :=
    ⟨rfl, hb.alive, hb.running, (by decide : MicroOp.fatal ∉ specTables.short)⟩
  have hE : EarlyOk { c with ops := specTables.short, cycle := 0, early := none } := by
    intro e he; cases he
  have hr := run_loaded specTables c m hb _ m hn hL hE (by decide : 0 < specTables.short.length)
  have hlen : lenOf { c with ops := specTables.short, cycle := 0, early := none } m = 5 := rfl
  rw [hlen] at hr
  obtain ⟨ha, hb5, hfin, hcr, _⟩ := hr
  have hrun : runList (List.take 5 specTables.short) c.regs m = handleInterruptF c.regs m := by
    simp [short_eq, MicroOp.run]
  refine ⟨fun j h0 hj => (ha j h0 hj).2, hfin, hcr, ?_, ?_⟩
  · rw [hb5]
    show (runList (List.take 5 specTables.short) c.regs m).1 = _
    rw [hrun, handleInterruptF_flat c.regs m k hime hk]
  · rw [hb5]
    show (runList (List.take 5 specTables.short) c.regs m).2 = _
    rw [hrun, handleInterruptF_flat c.regs m k hime hk]

/-- the same for the tables regenerated from dispatch.go -/
theorem c04_dispatch_gen (c : Cpu) (m : Flat) (hb : Boundary c) (hh : c.regs.halted = false)
    (hime : m.ime = true) (k : Nat) (hk : pendingSource (pendingBits m) = some k) :
    (∀ j, 0 < j → j < 5 → (cycles Tables.gen j c m).1.isFinished = false) ∧
    (cycles Tables.gen 5 c m).1.isFinished = true ∧
    (cycles Tables.gen 5 c m).1.crashed = false ∧
    (cycles Tables.gen 5 c m).1.regs =
      { c.regs with pc := BitVec.ofNat 16 (0x40 + 8 * k), sp := c.regs.sp - 2,
                    m8a := lo8 c.regs.pc, m8b := hi8 c.regs.pc } ∧
    (cycles Tables.gen 5 c m).2 =
      (({ m with ime := false, ifl := m.ifl &&& ~~~((1 : Byte) <<< k) } : Flat).write
          (c.regs.sp - 1) (hi8 c.regs.pc)).write (c.regs.sp - 2) (lo8 c.regs.pc) := by
  rw [C01.c01_tables]; exact c04_dispatch c m hb hh hime k hk

/-- non-vacuity: power-on CPU, IME set, IE = 1F, IF = Timer|Joypad: Timer (k = 2) is dispatched -/
example : Boundary Cpu.init ∧ Cpu.init.regs.halted = false ∧ (⟨fun _ => 0, true, 0x1f, 0x14⟩ : Flat).ime = true ∧
    pendingSource (pendingBits (⟨fun _ => 0, true, 0x1f, 0x14⟩ : Flat)) = some 2 := by
  refine ⟨⟨?_, ?_, ?_⟩, ?_, ?_, ?_⟩ <;> decide

/-- clearing bit k of a byte: bit j survives iff it was set and j ≠ k -/
theorem c04_clear_bit (x : Byte) (k j : Nat) :
    (x &&& ~~~((1 : Byte) <<< k)).getLsbD j = (x.getLsbD j && decide (j ≠ k)) := by
  by_cases hj : j < 8
  · by_cases hjk : j = k
    · subst hjk; simp [hj]
    · have : ¬ (j - k = 0 ∧ k ≤ j) := by omega
      simp [hj, hjk]
      intro _; omega
  · simp [BitVec.getLsbD_of_ge x j (by omega)]

private theorem write_plain (m : Flat) (a : Word) (v : Byte) (h1 : a ≠ 0xff0f) (h2 : a ≠ 0xffff) :
    m.write a v = { m with mem := fun x => if x = a then v else m.mem x } := by
  unfold Flat.write; rw [if_neg h1, if_neg h2]

/-- C04 dispatch, the frame: when the stack is not on the IF/IE registers, the bus after the dispatch
    differs from the bus before only in IME (cleared), bit k of IF (cleared: `c04_clear_bit`) and the
    two stack bytes, which hold the old PC. -/
theorem c04_dispatch_frame (c : Cpu) (m : Flat) (hb : Boundary c) (hh : c.regs.halted = false)
    (hime : m.ime = true) (k : Nat) (hk : pendingSource (pendingBits m) = some k)
    (h1 : c.regs.sp - 1 ≠ 0xff0f) (h2 : c.regs.sp - 1 ≠ 0xffff)
    (h3 : c.regs.sp - 2 ≠ 0xff0f) (h4 : c.regs.sp - 2 ≠ 0xffff) :
    (cycles specTables 5 c m).2 =
      { mem := fun x => if x = c.regs.sp - 2 then lo8 c.regs.pc
                        else if x = c.regs.sp - 1 then hi8 c.regs.pc else m.mem x,
        ime := false, ie := m.ie, ifl := m.ifl &&& ~~~((1 : Byte) <<< k) } := by
  rw [(c04_dispatch c m hb hh hime k hk).2.2.2.2, write_plain _ _ _ h1 h2, write_plain _ _ _ h3 h4]

example : (Cpu.init.regs.sp - 1 ≠ 0xff0f) ∧ (Cpu.init.regs.sp - 1 ≠ 0xffff) ∧
    (Cpu.init.regs.sp - 2 ≠ 0xff0f) ∧ (Cpu.init.regs.sp - 2 ≠ 0xffff) := by decide

/-- the pushed bytes are the old PC -/
theorem c04_return_address (pc : Word) : mk16 (hi8 pc) (lo8 pc) = pc := by
  simp only [mk16, hi8, lo8]
  apply BitVec.eq_of_getLsbD_eq
  intro i hi
  rw [BitVec.getLsbD_append]
  by_cases h : i < 8
  · simp [h]
  · have : 8 + (i - 8) = i := by omega
    simp [h, this]; omega

/-! ### no dispatch -/

/-- C04 otherwise.  At a boundary of a running CPU where NOT (IME set and something pending), no
    interrupt sequence is started: the cycle is the first cycle of the instruction fetched at PC, and
    the fetch leaves IF, IE and memory untouched (only IME may change: a pending EI takes effect). -/
theorem c04_no_dispatch (c : Cpu) (m : Flat) (hb : Boundary c) (hh : c.regs.halted = false)
    (hs : c.regs.stopped = false) (hno : ¬(pendingBits m ≠ 0 ∧ m.ime = true)) :
    next specTables c m = fetch specTables c c.regs m ∧
    cycle specTables c m =
      stepSub (fetch specTables c c.regs m).cpu (fetch specTables c c.regs m).bus ∧
    (fetch specTables c c.regs m).bus = { m with ime := m.ime || c.regs.eiPending } ∧
    (match instrAt c.regs.pc m with
     | some i => (fetch specTables c c.regs m).cpu.ops = micro i
     | none => (fetch specTables c c.regs m).cpu.ops = [.fatal]) := by
  have hf : AtFetch c m := ⟨hb.finished, hb.alive, hb.running, hh, hs, hno⟩
  refine ⟨next_fetch _ c m hf, ?_, fetch_bus _ c c.regs m, ?_⟩
  · rw [cycle_boundary specTables c m hb (by rw [next_fetch _ c m hf]; exact fetch_halted _ _ _ _),
      next_fetch _ c m hf]
  · cases hi : instrAt c.regs.pc m with
    | none => exact fetch_undefined c c.regs m hi
    | some i => show (fetch specTables c c.regs m).cpu.ops = micro i; rw [fetch_spec c c.regs m i hi]

/-- non-vacuity: pending but IME clear -/
example : Boundary Cpu.init ∧ Cpu.init.regs.halted = false ∧ Cpu.init.regs.stopped = false ∧
    ¬(pendingBits (⟨fun _ => 0, false, 0x1f, 0x14⟩ : Flat) ≠ 0 ∧
      (⟨fun _ => 0, false, 0x1f, 0x14⟩ : Flat).ime = true) := by
  refine ⟨⟨?_, ?_, ?_⟩, ?_, ?_, ?_⟩ <;> decide

/-- the address a micro-operation writes in its cycle (`none`: it performs no bus write);
    `handleInterrupt` (two pushes) is treated by `c04_dispatch` -/
def writeAddr (μ : MicroOp) (r : Regs) : Option Word :=
  match μ with
  | .ldMR _ | .storeAHLI | .storeAHLD | .incM | .decM | .rotM _ | .resM _ | .setM _ => some r.hl
  | .storeA i => some (i.addr r)
  | .writeLowSP => some r.u16
  | .writeHighSP => some (r.u16 + 1)
  | .push _ => some (r.sp - 1)
  | _ => none

private theorem write_ifl (m : Flat) (a : Word) (v : Byte) (h : a ≠ 0xff0f) : (m.write a v).ifl = m.ifl := by
  unfold Flat.write
  rw [if_neg h]
  split <;> rfl

private theorem hl_set_m8a (r : Regs) (v : Byte) : (r.set .m8a v).hl = r.hl := rfl

/-- IF is only ever changed by a bus write to FF0F (or by the dispatch): a micro-operation other than
    `handleInterrupt` that does not write FF0F in its cycle leaves IF untouched. -/
theorem c04_if_frame (μ : MicroOp) (r : Regs) (m : Flat) (hμ : μ ≠ .handleInterrupt)
    (hw : writeAddr μ r ≠ some 0xff0f) : (μ.run r m).2.ifl = m.ifl := by
  cases μ with
  | handleInterrupt => exact absurd rfl hμ
  | alu op s => cases s <;> rfl
  | inc16 k => cases k <;> rfl
  | dec16 k => cases k <;> rfl
  | ldMR s => exact write_ifl _ _ _ (by simpa [writeAddr] using hw)
  | storeA i => exact write_ifl _ _ _ (by simpa [writeAddr] using hw)
  | storeAHLI => exact write_ifl _ _ _ (by simpa [writeAddr] using hw)
  | storeAHLD => exact write_ifl _ _ _ (by simpa [writeAddr] using hw)
  | writeLowSP => exact write_ifl _ _ _ (by simpa [writeAddr] using hw)
  | writeHighSP => exact write_ifl _ _ _ (by simpa [writeAddr] using hw)
  | push k => exact write_ifl _ _ _ (by simpa [writeAddr, decSP] using hw)
  | incM =>
    have : (inc r .m8a).hl = r.hl := by simp [inc, Regs.hl, Regs.set, Regs.setZf, Regs.setNf, Regs.setHf]
    exact write_ifl _ _ _ (by rw [this]; simpa [writeAddr] using hw)
  | decM =>
    have : (dec r .m8a).hl = r.hl := by simp [dec, Regs.hl, Regs.set, Regs.setZf, Regs.setNf, Regs.setHf]
    exact write_ifl _ _ _ (by rw [this]; simpa [writeAddr] using hw)
  | rotM op =>
    have : (rotF op r .m8a).hl = r.hl := by
      simp [rotF, Regs.hl, Regs.set, Regs.setZf, Regs.setNf, Regs.setHf, Regs.setCf]
    exact write_ifl _ _ _ (by rw [this]; simpa [writeAddr] using hw)
  | resM n => exact write_ifl _ _ _ (by rw [hl_set_m8a]; simpa [writeAddr] using hw)
  | setM n => exact write_ifl _ _ _ (by rw [hl_set_m8a]; simpa [writeAddr] using hw)
  | _ => rfl

example : writeAddr (.inc8 .b) Regs.init ≠ some 0xff0f := by decide

/-- hence a whole schedule without bus writes (register-only instructions, loads, jumps) leaves IF alone -/
theorem c04_if_untouched (ops : List MicroOp) (h : ∀ μ ∈ ops, μ ≠ .handleInterrupt ∧ ∀ r, writeAddr μ r = none)
    (r : Regs) (m : Flat) : (runList ops r m).2.ifl = m.ifl := by
  induction ops generalizing r m with
  | nil => rfl
  | cons x xs ih =>
    have hx := h x (by simp)
    rw [runList_cons, ih (fun μ hμ => h μ (by simp [hμ]))]
    exact c04_if_frame x r m hx.1 (by rw [hx.2 r]; simp)

/-- composed with C02: an instruction whose schedule performs no bus write leaves IF (as the interrupt
    logic sees it) exactly as it was at its fetch boundary, for its whole documented duration -/
theorem c04_instr_if_untouched (c : Cpu) (m : Flat) (i : Instr) (h : AtFetch c m)
    (hi : instrAt c.regs.pc m = some i)
    (hw : ∀ μ ∈ micro i, μ ≠ .handleInterrupt ∧ ∀ r, writeAddr μ r = none) :
    (cycles specTables (cyclesOf i ((condOf i).all fun cc => cc.holds (abs c.regs m))) c m).2.ifl = m.ifl := by
  obtain ⟨_, _, _, _, _, _, hbus⟩ := C02.c02_cycles c m i h hi
  rw [hbus, c04_if_untouched _ (fun μ hμ => hw μ (List.mem_of_mem_take hμ))]

example : ∀ μ ∈ micro (.inc (.r .b)), μ ≠ .handleInterrupt ∧ ∀ r, writeAddr μ r = none := by
  intro μ hμ
  simp [micro] at hμ
  subst hμ
  exact ⟨by decide, fun _ => rfl⟩

/-! ### EI, DI, RETI -/

private theorem instrAt_of_byte (pc : Word) (m : Flat) (b : Byte) (i : Instr) (hb : m.read pc = b)
    (hcb : b ≠ 0xcb) (hd : decode b.toNat = some i) : instrAt pc m = some i := by
  unfold instrAt; rw [hb, if_neg hcb, hd]

/-- C04 EI.  EI (0xFB) occupies one cycle, sets the EI latch and does not itself change IME (IME after the
    cycle is the IME before, or-ed with a latch left by an immediately preceding EI).  If IME was clear,
    the boundary after EI is a FETCH boundary whatever is pending (no dispatch between EI and the next
    instruction); that fetch sets IME and consumes the latch – so the earliest dispatch is at the
    boundary after the instruction that follows EI. -/
theorem c04_ei_delay (c : Cpu) (m : Flat) (h : AtFetch c m) (hop : m.read c.regs.pc = 0xfb) :
    (cycle specTables c m).1.isFinished = true ∧
    (cycle specTables c m).1.regs = { fetchRegs c.regs false with eiPending := true } ∧
    (cycle specTables c m).2 = { m with ime := m.ime || c.regs.eiPending } ∧
    (m.ime = false → c.regs.eiPending = false →
      AtFetch (cycle specTables c m).1 (cycle specTables c m).2 ∧
      (cycle specTables c m).2.ime = false ∧
      (fetch specTables (cycle specTables c m).1 (cycle specTables c m).1.regs
          (cycle specTables c m).2).bus.ime = true ∧
      (fetch specTables (cycle specTables c m).1 (cycle specTables c m).1.regs
          (cycle specTables c m).2).cpu.regs.eiPending = false) := by
  have hi : instrAt c.regs.pc m = some .ei := instrAt_of_byte _ _ _ _ hop (by decide) (by decide)
  obtain ⟨_, _, hfin, hcr, hex, hregs, hbus⟩ := C02.c02_cycles c m .ei h hi
  have hd : decide (m.read c.regs.pc = 0xcb) = false := by rw [hop]; decide
  simp only [cyclesOf] at hfin hcr hex hregs hbus
  rw [cycles_one] at hfin hcr hex hregs hbus
  rw [hd] at hregs hbus
  have hregs' : (cycle specTables c m).1.regs = { fetchRegs c.regs false with eiPending := true } := by
    rw [hregs]; rfl
  have hbus' : (cycle specTables c m).2 = { m with ime := m.ime || c.regs.eiPending } := by
    rw [hbus]; rfl
  refine ⟨hfin, hregs', hbus', fun hime hep => ?_⟩
  have hime' : (cycle specTables c m).2.ime = false := by rw [hbus']; simp [hime, hep]
  refine ⟨⟨hfin, hcr, hex, ?_, ?_, ?_⟩, hime', ?_, fetch_eiPending _ _ _ _⟩
  · rw [hregs']; exact h.2.2.2.1
  · rw [hregs']; exact h.2.2.2.2.1
  · intro hx; rw [hime'] at hx; cases hx.2
  · rw [fetch_bus, hregs']; simp

/-- C04 EI, composed with C02: with IME clear before EI, the instruction `i` that follows EI is executed in
    full (its documented `n` cycles, with IME set from its first cycle) whatever is pending – cycles
    2 … n of the pair are inside `i`, the next boundary is after 1+n cycles, and the state there is the
    in-order run of the schedule of `i`.  Only at THAT boundary can a dispatch happen (`c04_dispatch`). -/
theorem c04_ei_following_instruction (c : Cpu) (m : Flat) (i : Instr) (h : AtFetch c m)
    (hop : m.read c.regs.pc = 0xfb) (hime : m.ime = false) (hep : c.regs.eiPending = false)
    (hi : instrAt (cycle specTables c m).1.regs.pc (cycle specTables c m).2 = some i) :
    let s1 := cycle specTables c m
    let n := cyclesOf i ((condOf i).all fun cc => cc.holds (abs s1.1.regs s1.2))
    let r0 := fetchRegs s1.1.regs (decide (s1.2.read s1.1.regs.pc = 0xcb))
    let m0 : Flat := { s1.2 with ime := true }
    0 < n ∧
    (∀ k, 0 < k → k < n → (cycles specTables (1 + k) c m).1.isFinished = false) ∧
    (cycles specTables (1 + n) c m).1.isFinished = true ∧
    (cycles specTables (1 + n) c m).1.regs = (runList ((micro i).take n) r0 m0).1 ∧
    (cycles specTables (1 + n) c m).2 = (runList ((micro i).take n) r0 m0).2 := by
  intro s1 n r0 m0
  obtain ⟨_, hregs, _, hrest⟩ := c04_ei_delay c m h hop
  obtain ⟨hat, _, _, _⟩ := hrest hime hep
  obtain ⟨hpos, hbefore, hfin, _, _, hr, hb⟩ := C02.c02_cycles s1.1 s1.2 i hat hi
  have hm0 : ({ s1.2 with ime := s1.2.ime || s1.1.regs.eiPending } : Flat) = m0 := by
    show _ = ({ s1.2 with ime := true } : Flat)
    rw [show s1.1.regs.eiPending = true from by rw [hregs]]
    simp
  rw [hm0] at hr hb
  refine ⟨hpos, fun k h0 hk => ?_, ?_, ?_, ?_⟩
  · rw [cycles_add, cycles_one]; exact hbefore k h0 hk
  · rw [cycles_add, cycles_one]; exact hfin
  · rw [cycles_add, cycles_one]; exact hr
  · rw [cycles_add, cycles_one]; exact hb

/-- non-vacuity: EI at 0x0100 with IME clear and a request pending -/
example : AtFetch Cpu.init (⟨fun _ => 0xfb, false, 0x1f, 0x14⟩ : Flat) ∧
    (⟨fun _ => 0xfb, false, 0x1f, 0x14⟩ : Flat).read Cpu.init.regs.pc = 0xfb := by
  refine ⟨⟨?_, ?_, ?_, ?_, ?_, ?_⟩, ?_⟩ <;> decide

example : instrAt (cycle specTables Cpu.init (⟨fun _ => 0xfb, false, 0x1f, 0x14⟩ : Flat)).1.regs.pc
    (cycle specTables Cpu.init (⟨fun _ => 0xfb, false, 0x1f, 0x14⟩ : Flat)).2 = some .ei := by
  decide +kernel

/-- C04 DI.  DI (0xF3) occupies one cycle after which IME is clear and no EI latch is left (even when the
    preceding instruction was EI): the boundary after DI never dispatches. -/
theorem c04_di_immediate (c : Cpu) (m : Flat) (h : AtFetch c m) (hop : m.read c.regs.pc = 0xf3) :
    (cycle specTables c m).1.isFinished = true ∧
    (cycle specTables c m).2.ime = false ∧
    (cycle specTables c m).1.regs.eiPending = false ∧
    AtFetch (cycle specTables c m).1 (cycle specTables c m).2 := by
  have hi : instrAt c.regs.pc m = some .di := instrAt_of_byte _ _ _ _ hop (by decide) (by decide)
  obtain ⟨_, _, hfin, hcr, hex, hregs, hbus⟩ := C02.c02_cycles c m .di h hi
  have hd : decide (m.read c.regs.pc = 0xcb) = false := by rw [hop]; decide
  simp only [cyclesOf] at hfin hcr hex hregs hbus
  rw [cycles_one] at hfin hcr hex hregs hbus
  rw [hd] at hregs hbus
  have hregs' : (cycle specTables c m).1.regs = { fetchRegs c.regs false with eiPending := false } := by
    rw [hregs]; rfl
  have hime' : (cycle specTables c m).2.ime = false := by rw [hbus]; rfl
  refine ⟨hfin, hime', by rw [hregs'], hfin, hcr, hex, ?_, ?_, ?_⟩
  · rw [hregs']; exact h.2.2.2.1
  · rw [hregs']; exact h.2.2.2.2.1
  · intro hx; rw [hime'] at hx; cases hx.2

example : AtFetch Cpu.init (⟨fun _ => 0xf3, true, 0, 0⟩ : Flat) ∧
    (⟨fun _ => 0xf3, true, 0, 0⟩ : Flat).read Cpu.init.regs.pc = 0xf3 := by
  refine ⟨⟨?_, ?_, ?_, ?_, ?_, ?_⟩, ?_⟩ <;> decide

/-- C04 RETI.  RETI (0xD9) occupies four cycles; at its final boundary IME is set (so a pending request
    is dispatched at that very boundary, `c04_dispatch`), PC is the popped word and SP = SP+2. -/
theorem c04_reti_immediate (c : Cpu) (m : Flat) (h : AtFetch c m) (hop : m.read c.regs.pc = 0xd9) :
    (∀ k, 0 < k → k < 4 → (cycles specTables k c m).1.isFinished = false) ∧
    (cycles specTables 4 c m).1.isFinished = true ∧
    (cycles specTables 4 c m).2.ime = true ∧
    (cycles specTables 4 c m).1.regs.pc = mk16 (m.read (c.regs.sp + 1)) (m.read c.regs.sp) ∧
    (cycles specTables 4 c m).1.regs.sp = c.regs.sp + 2 := by
  have hi : instrAt c.regs.pc m = some .reti := instrAt_of_byte _ _ _ _ hop (by decide) (by decide)
  obtain ⟨_, hbefore, hfin, hcr, hex, hregs, hbus⟩ := C02.c02_cycles c m .reti h hi
  have hd : decide (m.read c.regs.pc = 0xcb) = false := by rw [hop]; decide
  simp only [cyclesOf] at hbefore hfin hcr hex hregs hbus
  rw [hd] at hregs hbus
  refine ⟨hbefore, hfin, ?_, ?_, ?_⟩
  · rw [hbus]; simp [micro, MicroOp.run, incSP]
  · rw [hregs]; simp [micro, MicroOp.run, incSP, Regs.set, fetchRegs]
  · rw [hregs]; simp [micro, MicroOp.run, incSP, Regs.set, fetchRegs]
    bv_omega

example : AtFetch Cpu.init (⟨fun _ => 0xd9, false, 0, 0⟩ : Flat) ∧
    (⟨fun _ => 0xd9, false, 0, 0⟩ : Flat).read Cpu.init.regs.pc = 0xd9 := by
  refine ⟨⟨?_, ?_, ?_, ?_, ?_, ?_⟩, ?_⟩ <;> decide

/-! ### the same statements for the tables regenerated from dispatch.go (`c01_tables : Tables.gen = specTables`) -/

theorem c04_dispatch_frame_gen (c : Cpu) (m : Flat) (hb : Boundary c) (hh : c.regs.halted = false)
    (hime : m.ime = true) (k : Nat) (hk : pendingSource (pendingBits m) = some k)
    (h1 : c.regs.sp - 1 ≠ 0xff0f) (h2 : c.regs.sp - 1 ≠ 0xffff)
    (h3 : c.regs.sp - 2 ≠ 0xff0f) (h4 : c.regs.sp - 2 ≠ 0xffff) :
    (cycles Tables.gen 5 c m).2 =
      { mem := fun x => if x = c.regs.sp - 2 then lo8 c.regs.pc
                        else if x = c.regs.sp - 1 then hi8 c.regs.pc else m.mem x,
        ime := false, ie := m.ie, ifl := m.ifl &&& ~~~((1 : Byte) <<< k) } := by
  rw [C01.c01_tables]; exact c04_dispatch_frame c m hb hh hime k hk h1 h2 h3 h4

theorem c04_no_dispatch_gen (c : Cpu) (m : Flat) (hb : Boundary c) (hh : c.regs.halted = false)
    (hs : c.regs.stopped = false) (hno : ¬(pendingBits m ≠ 0 ∧ m.ime = true)) :
    next Tables.gen c m = fetch Tables.gen c c.regs m ∧
    cycle Tables.gen c m =
      stepSub (fetch Tables.gen c c.regs m).cpu (fetch Tables.gen c c.regs m).bus ∧
    (fetch Tables.gen c c.regs m).bus = { m with ime := m.ime || c.regs.eiPending } ∧
    (match instrAt c.regs.pc m with
     | some i => (fetch Tables.gen c c.regs m).cpu.ops = micro i
     | none => (fetch Tables.gen c c.regs m).cpu.ops = [.fatal]) := by
  rw [C01.c01_tables]; exact c04_no_dispatch c m hb hh hs hno

theorem c04_instr_if_untouched_gen (c : Cpu) (m : Flat) (i : Instr) (h : AtFetch c m)
    (hi : instrAt c.regs.pc m = some i)
    (hw : ∀ μ ∈ micro i, μ ≠ .handleInterrupt ∧ ∀ r, writeAddr μ r = none) :
    (cycles Tables.gen (cyclesOf i ((condOf i).all fun cc => cc.holds (abs c.regs m))) c m).2.ifl = m.ifl := by
  rw [C01.c01_tables]; exact c04_instr_if_untouched c m i h hi hw

theorem c04_ei_delay_gen (c : Cpu) (m : Flat) (h : AtFetch c m) (hop : m.read c.regs.pc = 0xfb) :
    (cycle Tables.gen c m).1.isFinished = true ∧
    (cycle Tables.gen c m).1.regs = { fetchRegs c.regs false with eiPending := true } ∧
    (cycle Tables.gen c m).2 = { m with ime := m.ime || c.regs.eiPending } ∧
    (m.ime = false → c.regs.eiPending = false →
      AtFetch (cycle Tables.gen c m).1 (cycle Tables.gen c m).2 ∧
      (cycle Tables.gen c m).2.ime = false ∧
      (fetch Tables.gen (cycle Tables.gen c m).1 (cycle Tables.gen c m).1.regs
          (cycle Tables.gen c m).2).bus.ime = true ∧
      (fetch Tables.gen (cycle Tables.gen c m).1 (cycle Tables.gen c m).1.regs
          (cycle Tables.gen c m).2).cpu.regs.eiPending = false) := by
  rw [C01.c01_tables]; exact c04_ei_delay c m h hop

theorem c04_di_immediate_gen (c : Cpu) (m : Flat) (h : AtFetch c m) (hop : m.read c.regs.pc = 0xf3) :
    (cycle Tables.gen c m).1.isFinished = true ∧
    (cycle Tables.gen c m).2.ime = false ∧
    (cycle Tables.gen c m).1.regs.eiPending = false ∧
    AtFetch (cycle Tables.gen c m).1 (cycle Tables.gen c m).2 := by
  rw [C01.c01_tables]; exact c04_di_immediate c m h hop

theorem c04_reti_immediate_gen (c : Cpu) (m : Flat) (h : AtFetch c m) (hop : m.read c.regs.pc = 0xd9) :
    (∀ k, 0 < k → k < 4 → (cycles Tables.gen k c m).1.isFinished = false) ∧
    (cycles Tables.gen 4 c m).1.isFinished = true ∧
    (cycles Tables.gen 4 c m).2.ime = true ∧
    (cycles Tables.gen 4 c m).1.regs.pc = mk16 (m.read (c.regs.sp + 1)) (m.read c.regs.sp) ∧
    (cycles Tables.gen 4 c m).1.regs.sp = c.regs.sp + 2 := by
  rw [C01.c01_tables]; exact c04_reti_immediate c m h hop

end Tetro.C04
