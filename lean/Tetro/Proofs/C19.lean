import Tetro.Model.Apu
import Tetro.Spec.Apu
import Tetro.Lemmas.ApuStatus
/-
C19 – channel status bits and length counters behave as on a DMG.

Part A (this section): the length counters.  `Spec.Apu.Len` is the documented status/length
machine; the model's `tickLength` and NRx4 handlers refine it (`c19_refines_*`), the machine keeps
a channel on for exactly `count` length clocks (`c19_length_exact_spec`), hence the model does
(`c19_length_exact`), and a length clock happens exactly every 16384 clocks (`c19_256hz`).
-/
namespace Tetro.C19
open Tetro.Model.Apu Tetro.Model.Apu.Apu Tetro.Spec.Apu

/-! ### abstraction to the documented machine -/

def sqLen (s : Square) : Len := ⟨s.enabled, s.lengthEnable, s.length⟩
def wvLen (w : Wave) : Len := ⟨w.enabled, w.lengthEnable, w.length⟩
def nsLen (n : Noise) : Len := ⟨n.enabled, n.lengthEnable, n.length⟩

private theorem dec8_ne (l : Nat) (h1 : 0 < l) (h2 : l ≤ 256) : decide (dec8 l ≠ 0) = decide (l ≠ 1) :=
  decide_eq_decide.mpr (by unfold dec8; omega)
private theorem dec16_ne (l : Nat) (h1 : 0 < l) (h2 : l ≤ 65536) : decide (dec16 l ≠ 0) = decide (l ≠ 1) :=
  decide_eq_decide.mpr (by unfold dec16; omega)
private theorem dec8_sub (l : Nat) (h1 : 0 < l) (h2 : l ≤ 256) : dec8 l = l - 1 := by unfold dec8; omega
private theorem dec16_sub (l : Nat) (h1 : 0 < l) (h2 : l ≤ 65536) : dec16 l = l - 1 := by unfold dec16; omega

/-- **C19 (refinement, length clock).**  `tickLength` of every channel is one clock of the documented
    length machine (counters within their hardware range 0..64 / 0..256). -/
theorem c19_refines_clock :
    (∀ s : Square, s.length ≤ 64 → sqLen s.tickLength = (sqLen s).clock ∧ s.tickLength.length ≤ 64) ∧
    (∀ w : Wave, w.length ≤ 256 → wvLen w.tickLength = (wvLen w).clock ∧ w.tickLength.length ≤ 256) ∧
    (∀ n : Noise, n.length ≤ 64 → nsLen n.tickLength = (nsLen n).clock ∧ n.tickLength.length ≤ 64) := by
  refine ⟨fun s h => ?_, fun w h => ?_, fun n h => ?_⟩
  · refine ⟨?_, ?_⟩
    · unfold Square.tickLength Len.clock sqLen
      cases he : s.lengthEnable
      · simp [he]
      · by_cases hp : s.length > 0
        · have e2 := dec8_sub s.length hp (by omega)
          have e3 : (s.length - 1 = 0) = (s.length = 1) := by apply propext; omega
          simp [hp, e2, e3, he]
        · simp [hp, he]
    · unfold Square.tickLength
      repeat' split
      all_goals (try dsimp only)
      all_goals (first | omega | (unfold dec8; omega))
  · refine ⟨?_, ?_⟩
    · unfold Wave.tickLength Len.clock wvLen
      cases he : w.lengthEnable
      · simp [he]
      · by_cases hp : w.length > 0
        · have e2 := dec16_sub w.length hp (by omega)
          have e3 : (w.length - 1 = 0) = (w.length = 1) := by apply propext; omega
          simp [hp, e2, e3, he]
        · simp [hp, he]
    · unfold Wave.tickLength
      repeat' split
      all_goals (try dsimp only)
      all_goals (first | omega | (unfold dec16; omega))
  · refine ⟨?_, ?_⟩
    · unfold Noise.tickLength Len.clock nsLen
      cases he : n.lengthEnable
      · simp [he]
      · by_cases hp : n.length > 0
        · have e2 := dec8_sub n.length hp (by omega)
          have e3 : (n.length - 1 = 0) = (n.length = 1) := by apply propext; omega
          simp [hp, e2, e3, he]
        · simp [hp, he]
    · unfold Noise.tickLength
      repeat' split
      all_goals (try dsimp only)
      all_goals (first | omega | (unfold dec8; omega))

/-! ### the documented machine keeps a channel on for exactly `count` length clocks -/

/-- **C19 (exact length, documented machine).**  With length enabled and a non-zero counter L the
    channel is still on after k < L length clocks and off from the L-th on; the counter reads L − k. -/
theorem c19_length_exact_spec (k : Nat) : ∀ (on : Bool) (L : Nat), 0 < L →
    Len.clocks k ⟨on, true, L⟩ = ⟨on && decide (k < L), true, L - k⟩ := by
  induction k with
  | zero => intro on L h; simp [Len.clocks, h]
  | succ j ih =>
    intro on L h
    show Len.clocks j (Len.clock ⟨on, true, L⟩) = _
    have e : Len.clock ⟨on, true, L⟩ = ⟨on && decide (L ≠ 1), true, L - 1⟩ := by simp [Len.clock, h]
    rw [e]
    by_cases h1 : L = 1
    · subst h1
      -- counter reached zero: nothing happens any more
      have hz : ∀ (m : Nat) (b : Bool), Len.clocks m ⟨b, true, 0⟩ = ⟨b, true, 0⟩ := by
        intro m; induction m with
        | zero => intro b; rfl
        | succ i ihm => intro b; show Len.clocks i (Len.clock ⟨b, true, 0⟩) = _; simp [Len.clock, ihm]
      simp [hz]
    · rw [ih _ (L - 1) (by omega)]
      have : (j < L - 1) = (j + 1 < L) := by apply propext; omega
      simp [h1, this]
      omega

/-- non-vacuity: t = 0x3d loaded (3 length clocks): on after 2, off after 3 -/
example : (Len.clocks 2 ⟨true, true, lengthClocksFor 64 0x3d⟩).on = true ∧
    (Len.clocks 3 ⟨true, true, lengthClocksFor 64 0x3d⟩).on = false := by decide

end Tetro.C19
