import Tetro.Model.Apu
import Tetro.Spec.Apu
import Tetro.Lemmas.ApuStatus
/-
C19 – channel status bits and length counters behave as on a DMG.

Part A (this section): the length counters.  `Spec.Apu.Len` is the documented status/length
machine; the model's `tickLength` and NRx4 handlers refine it (`c19_refines_*`), the machine keeps
a channel on for exactly `count` length clocks (`c19_length_exact_spec`), hence the model does
(`c19_length_exact`), and a length clock happens exactly every 16384 clocks (`c19_256hz`).
-/
namespace Tetro.C19
open Tetro.Model.Apu Tetro.Model.Apu.Apu Tetro.Spec.Apu

/-! ### abstraction to the documented machine -/

def sqLen (s : Square) : Len := ⟨s.enabled, s.lengthEnable, s.length⟩
def wvLen (w : Wave) : Len := ⟨w.enabled, w.lengthEnable, w.length⟩
def nsLen (n : Noise) : Len := ⟨n.enabled, n.lengthEnable, n.length⟩

private theorem dec8_ne (l : Nat) (h1 : 0 < l) (h2 : l ≤ 256) : decide (dec8 l ≠ 0) = decide (l ≠ 1) :=
  decide_eq_decide.mpr (by unfold dec8; omega)
private theorem dec16_ne (l : Nat) (h1 : 0 < l) (h2 : l ≤ 65536) : decide (dec16 l ≠ 0) = decide (l ≠ 1) :=
  decide_eq_decide.mpr (by unfold dec16; omega)
private theorem dec8_sub (l : Nat) (h1 : 0 < l) (h2 : l ≤ 256) : dec8 l = l - 1 := by unfold dec8; omega
private theorem dec16_sub (l : Nat) (h1 : 0 < l) (h2 : l ≤ 65536) : dec16 l = l - 1 := by unfold dec16; omega

/-- **C19 (refinement, length clock).**  `tickLength` of every channel is one clock of the documented
    length machine (counters within their hardware range 0..64 / 0..256). -/
theorem c19_refines_clock :
    (∀ s : Square, s.length ≤ 64 → sqLen s.tickLength = (sqLen s).clock ∧ s.tickLength.length ≤ 64) ∧
    (∀ w : Wave, w.length ≤ 256 → wvLen w.tickLength = (wvLen w).clock ∧ w.tickLength.length ≤ 256) ∧
    (∀ n : Noise, n.length ≤ 64 → nsLen n.tickLength = (nsLen n).clock ∧ n.tickLength.length ≤ 64) := by
  refine ⟨fun s h => ?_, fun w h => ?_, fun n h => ?_⟩
  · refine ⟨?_, ?_⟩
    · unfold Square.tickLength Len.clock sqLen
      cases he : s.lengthEnable
      · simp [he]
      · by_cases hp : s.length > 0
        · have e2 := dec8_sub s.length hp (by omega)
          have e3 : (s.length - 1 = 0) = (s.length = 1) := by apply propext; omega
          simp [hp, e2, e3, he]
        · simp [hp, he]
    · unfold Square.tickLength
      repeat' split
      all_goals (try dsimp only)
      all_goals (first | omega | (unfold dec8; omega))
  · refine ⟨?_, ?_⟩
    · unfold Wave.tickLength Len.clock wvLen
      cases he : w.lengthEnable
      · simp [he]
      · by_cases hp : w.length > 0
        · have e2 := dec16_sub w.length hp (by omega)
          have e3 : (w.length - 1 = 0) = (w.length = 1) := by apply propext; omega
          simp [hp, e2, e3, he]
        · simp [hp, he]
    · unfold Wave.tickLength
      repeat' split
      all_goals (try dsimp only)
      all_goals (first | omega | (unfold dec16; omega))
  · refine ⟨?_, ?_⟩
    · unfold Noise.tickLength Len.clock nsLen
      cases he : n.lengthEnable
      · simp [he]
      · by_cases hp : n.length > 0
        · have e2 := dec8_sub n.length hp (by omega)
          have e3 : (n.length - 1 = 0) = (n.length = 1) := by apply propext; omega
          simp [hp, e2, e3, he]
        · simp [hp, he]
    · unfold Noise.tickLength
      repeat' split
      all_goals (try dsimp only)
      all_goals (first | omega | (unfold dec8; omega))


/-! ### NRx4 refines the documented machine -/

/-- the frequency-sweep calculation of channel 1 on a 16-bit register (as in `calculateFrequency`) -/
def sweepCalc (inc : Bool) (f sh : Nat) : Nat :=
  if !inc then (f + (65536 - (f >>> sh)) % 65536) % 65536 else (f + (f >>> sh)) % 65536

/-- for an 11-bit frequency the 16-bit calculation is the documented f ± (f >> shift) -/
theorem sweepCalc_doc (inc : Bool) (f sh : Nat) (hf : f < 2048) :
    sweepCalc inc f sh = if inc then f + (f >>> sh) else f - (f >>> sh) := by
  have hle := Nat.shiftRight_le f sh
  unfold sweepCalc
  generalize f >>> sh = x at hle
  cases inc
  · simp only [Bool.not_false, if_true, Bool.false_eq_true, if_false]; omega
  · simp only [Bool.not_true, Bool.false_eq_true, if_false, if_true]; omega

/-- status of a square right after a trigger: DAC on and (channel 1, shift ≠ 0) no sweep overflow -/
def sqTrigOk (s : Square) : Bool :=
  s.dacEnabled && (!s.hasSweep || !decide (s.sweepShift > 0) || decide (sweepCalc s.sweepIncrease s.frequency s.sweepShift ≤ 2047))
def wvTrigOk (w : Wave) : Bool := w.dacEnabled
def nsTrigOk (n : Noise) : Bool := n.dacEnabled

private theorem sq_trig_fields (s : Square) :
    s.trigger.length = (if s.length = 0 then 64 else s.length) ∧ s.trigger.lengthEnable = s.lengthEnable ∧
    s.trigger.enabled = sqTrigOk s := by
  unfold Square.trigger Square.dacGate Square.triggerSweep Square.trigBase sqTrigOk sweepCalc
  cases hs : s.hasSweep
  · simp
  · by_cases h : s.sweepShift > 0
    · simp [h, Square.sweepReload, Square.calcState, Square.calcValue, Bool.and_comm]
    · simp [h, Square.sweepReload]

private theorem wv_trig_fields (w : Wave) :
    w.trigger.length = (if w.length = 0 then 256 else w.length) ∧ w.trigger.lengthEnable = w.lengthEnable ∧
    w.trigger.enabled = wvTrigOk w := by
  unfold Wave.trigger Wave.trigBody Wave.trigHead wvTrigOk
  refine ⟨?_, ?_, ?_⟩ <;> (repeat' split) <;> rfl

private theorem ns_trig_fields (n : Noise) :
    n.trigger.length = (if n.length = 0 then 64 else n.length) ∧ n.trigger.lengthEnable = n.lengthEnable ∧
    n.trigger.enabled = nsTrigOk n := ⟨rfl, rfl, rfl⟩

private theorem sq_extra (s : Square) (fs : Nat) (le tr : Bool) (h : s.length ≤ 64) :
    sqLen (s.extraLenClock fs le tr) =
      ⟨(if (!s.lengthEnable && le && decide (s.length > 0) && decide (fs % 2 = 1)) = true then s.enabled && !(decide (s.length - 1 = 0) && !tr) else s.enabled),
       s.lengthEnable,
       (if (!s.lengthEnable && le && decide (s.length > 0) && decide (fs % 2 = 1)) = true then s.length - 1 else s.length)⟩ := by
  unfold Square.extraLenClock sqLen
  by_cases c : (!s.lengthEnable && le && decide (s.length > 0) && decide (fs % 2 = 1)) = true
  · have hp : s.length > 0 := by simp at c; omega
    simp only [c, if_true, dec8_sub s.length hp (by omega)]
  · simp [c]

/-- NRx4 on a square channel refines the documented machine (outside the documented-open corner) -/
private theorem sq_nrx4 (s0 : Square) (fs v : Nat) (h0 : s0.length ≤ 64)
    (hc : ¬ Len.fullRetrigger 64 (sqLen s0) (leOf v) (trigOf v) (decide (fs % 2 = 1))) :
    sqLen (s0.writeNRx4 fs v) =
      Len.writeNRx4 64 (sqLen s0) (leOf v) (trigOf v) (decide (fs % 2 = 1)) (sqTrigOk (s0.setFreqHi v)) := by
  have hpre : sqLen (s0.setFreqHi v) = sqLen s0 := rfl
  have h : (s0.setFreqHi v).length ≤ 64 := h0
  rw [← hpre] at hc ⊢
  unfold Square.writeNRx4 Square.setLE Square.trigPart
  generalize s0.setFreqHi v = s at *
  generalize hle : leOf v = le at *
  generalize htr : trigOf v = tr at *
  have hok' : sqTrigOk (s.extraLenClock fs le tr) = sqTrigOk s := by
    unfold Square.extraLenClock; split <;> rfl
  have hx' := sq_extra s fs le tr h
  generalize s.extraLenClock fs le tr = x at hx' hok'
  simp only [sqLen, Len.mk.injEq] at hx'
  obtain ⟨x1, x2, x3⟩ := hx'
  obtain ⟨t1, t2, t3⟩ := sq_trig_fields x
  have e1 : (x.trigger.trigLenClock fs le).enabled = sqTrigOk x := by
    unfold Square.trigLenClock; split <;> exact t3
  have e2 : (x.trigger.trigLenClock fs le).length =
      if (le && decide (x.trigger.length = 64) && decide (fs % 2 = 1)) = true then dec8 x.trigger.length else x.trigger.length := by
    unfold Square.trigLenClock; split <;> rfl
  have hcorner : ¬ (tr = true ∧ le = true ∧ (fs % 2 = 1) ∧ s.lengthEnable = true ∧ s.length = 64) := by
    intro ⟨a1, a2, a3, a4, a5⟩; apply hc
    exact ⟨a1, a2, by simp [a3], a4, a5⟩
  simp only [sqLen, Len.writeNRx4]
  rw [hok'] at e1
  rcases Bool.eq_false_or_eq_true s.lengthEnable with hl | hl <;> cases le <;> by_cases f : fs % 2 = 1 <;> by_cases z : s.length > 0 <;> cases tr <;>
    simp [hl, f, z] at x1 x3 hcorner ⊢ <;>
    (try simp [e1, e2, t1, x1, x3, f, dec8])
  all_goals (repeat' split)
  all_goals omega

private theorem wv_extra (s : Wave) (fs : Nat) (le tr : Bool) (h : s.length ≤ 256) :
    wvLen (s.extraLenClock fs le tr) =
      ⟨(if (!s.lengthEnable && le && decide (s.length > 0) && decide (fs % 2 = 1)) = true then s.enabled && !(decide (s.length - 1 = 0) && !tr) else s.enabled),
       s.lengthEnable,
       (if (!s.lengthEnable && le && decide (s.length > 0) && decide (fs % 2 = 1)) = true then s.length - 1 else s.length)⟩ := by
  unfold Wave.extraLenClock wvLen
  by_cases c : (!s.lengthEnable && le && decide (s.length > 0) && decide (fs % 2 = 1)) = true
  · have hp : s.length > 0 := by simp at c; omega
    simp only [c, if_true, dec16_sub s.length hp (by omega)]
  · simp [c]

/-- NRx4 on the wave channel refines the documented machine (outside the documented-open corner) -/
private theorem wv_nrx4 (s0 : Wave) (fs v : Nat) (h0 : s0.length ≤ 256)
    (hc : ¬ Len.fullRetrigger 256 (wvLen s0) (leOf v) (trigOf v) (decide (fs % 2 = 1))) :
    wvLen (s0.writeNR34 fs v) =
      Len.writeNRx4 256 (wvLen s0) (leOf v) (trigOf v) (decide (fs % 2 = 1)) (wvTrigOk (s0.setFreqHi v)) := by
  have hpre : wvLen (s0.setFreqHi v) = wvLen s0 := rfl
  have h : (s0.setFreqHi v).length ≤ 256 := h0
  rw [← hpre] at hc ⊢
  unfold Wave.writeNR34 Wave.setLE Wave.trigPart
  generalize s0.setFreqHi v = s at *
  generalize hle : leOf v = le at *
  generalize htr : trigOf v = tr at *
  have hok' : wvTrigOk (s.extraLenClock fs le tr) = wvTrigOk s := by
    unfold Wave.extraLenClock wvTrigOk; split <;> rfl
  have hx' := wv_extra s fs le tr h
  generalize s.extraLenClock fs le tr = x at hx' hok'
  simp only [wvLen, Len.mk.injEq] at hx'
  obtain ⟨x1, x2, x3⟩ := hx'
  obtain ⟨t1, t2, t3⟩ := wv_trig_fields x
  have e1 : (x.trigger.trigLenClock fs le).enabled = wvTrigOk x := by
    unfold Wave.trigLenClock; split <;> exact t3
  have e2 : (x.trigger.trigLenClock fs le).length =
      if (le && decide (x.trigger.length = 256) && decide (fs % 2 = 1)) = true then dec16 x.trigger.length else x.trigger.length := by
    unfold Wave.trigLenClock; split <;> rfl
  have hcorner : ¬ (tr = true ∧ le = true ∧ (fs % 2 = 1) ∧ s.lengthEnable = true ∧ s.length = 256) := by
    intro ⟨a1, a2, a3, a4, a5⟩; apply hc
    exact ⟨a1, a2, by simp [a3], a4, a5⟩
  simp only [wvLen, Len.writeNRx4]
  rw [hok'] at e1
  rcases Bool.eq_false_or_eq_true s.lengthEnable with hl | hl <;> cases le <;> by_cases f : fs % 2 = 1 <;> by_cases z : s.length > 0 <;> cases tr <;>
    simp [hl, f, z] at x1 x3 hcorner ⊢ <;>
    (try simp [e1, e2, t1, x1, x3, f, dec16])
  all_goals (repeat' split)
  all_goals omega

private theorem ns_extra (s : Noise) (fs : Nat) (le tr : Bool) (h : s.length ≤ 64) :
    nsLen (s.extraLenClock fs le tr) =
      ⟨(if (!s.lengthEnable && le && decide (s.length > 0) && decide (fs % 2 = 1)) = true then s.enabled && !(decide (s.length - 1 = 0) && !tr) else s.enabled),
       s.lengthEnable,
       (if (!s.lengthEnable && le && decide (s.length > 0) && decide (fs % 2 = 1)) = true then s.length - 1 else s.length)⟩ := by
  unfold Noise.extraLenClock nsLen
  by_cases c : (!s.lengthEnable && le && decide (s.length > 0) && decide (fs % 2 = 1)) = true
  · have hp : s.length > 0 := by simp at c; omega
    simp only [c, if_true, dec8_sub s.length hp (by omega)]
  · simp [c]

/-- NRx4 on the noise channel refines the documented machine (outside the documented-open corner) -/
private theorem ns_nrx4 (s0 : Noise) (fs v : Nat) (h0 : s0.length ≤ 64)
    (hc : ¬ Len.fullRetrigger 64 (nsLen s0) (leOf v) (trigOf v) (decide (fs % 2 = 1))) :
    nsLen (s0.writeNR44 fs v) =
      Len.writeNRx4 64 (nsLen s0) (leOf v) (trigOf v) (decide (fs % 2 = 1)) (nsTrigOk (s0)) := by
  have hpre : nsLen (s0) = nsLen s0 := rfl
  have h : (s0).length ≤ 64 := h0
  rw [← hpre] at hc ⊢
  unfold Noise.writeNR44 Noise.setLE Noise.trigPart
  generalize s0 = s at *
  generalize hle : leOf v = le at *
  generalize htr : trigOf v = tr at *
  have hok' : nsTrigOk (s.extraLenClock fs le tr) = nsTrigOk s := by
    unfold Noise.extraLenClock; split <;> rfl
  have hx' := ns_extra s fs le tr h
  generalize s.extraLenClock fs le tr = x at hx' hok'
  simp only [nsLen, Len.mk.injEq] at hx'
  obtain ⟨x1, x2, x3⟩ := hx'
  obtain ⟨t1, t2, t3⟩ := ns_trig_fields x
  have e1 : (x.trigger.trigLenClock fs le).enabled = nsTrigOk x := by
    unfold Noise.trigLenClock; split <;> exact t3
  have e2 : (x.trigger.trigLenClock fs le).length =
      if (le && decide (x.trigger.length = 64) && decide (fs % 2 = 1)) = true then dec8 x.trigger.length else x.trigger.length := by
    unfold Noise.trigLenClock; split <;> rfl
  have hcorner : ¬ (tr = true ∧ le = true ∧ (fs % 2 = 1) ∧ s.lengthEnable = true ∧ s.length = 64) := by
    intro ⟨a1, a2, a3, a4, a5⟩; apply hc
    exact ⟨a1, a2, by simp [a3], a4, a5⟩
  simp only [nsLen, Len.writeNRx4]
  rw [hok'] at e1
  rcases Bool.eq_false_or_eq_true s.lengthEnable with hl | hl <;> cases le <;> by_cases f : fs % 2 = 1 <;> by_cases z : s.length > 0 <;> cases tr <;>
    simp [hl, f, z] at x1 x3 hcorner ⊢ <;>
    (try simp [e1, e2, t1, x1, x3, f, dec8])
  all_goals (repeat' split)
  all_goals omega

/-- **C19 (refinement, NRx4).**  The NRx4 handlers of all four channels – frequency bits, the extra
    length clock in the first half of a frame-sequencer period, trigger with reload of an expired
    counter, length enable – are the documented machine `Len.writeNRx4`, with the status after a
    trigger = DAC enabled (∧ no sweep overflow for channel 1); excluded is only the corner the
    documentation leaves open (`Len.fullRetrigger`: trigger in the first half with length already
    enabled and the counter exactly full, where the code clocks the counter once). -/
theorem c19_refines_nrx4 :
    (∀ (s : Square) (fs v : Nat), s.length ≤ 64 →
      ¬ Len.fullRetrigger 64 (sqLen s) (leOf v) (trigOf v) (decide (fs % 2 = 1)) →
      sqLen (s.writeNRx4 fs v) = Len.writeNRx4 64 (sqLen s) (leOf v) (trigOf v) (decide (fs % 2 = 1)) (sqTrigOk (s.setFreqHi v))) ∧
    (∀ (w : Wave) (fs v : Nat), w.length ≤ 256 →
      ¬ Len.fullRetrigger 256 (wvLen w) (leOf v) (trigOf v) (decide (fs % 2 = 1)) →
      wvLen (w.writeNR34 fs v) = Len.writeNRx4 256 (wvLen w) (leOf v) (trigOf v) (decide (fs % 2 = 1)) w.dacEnabled) ∧
    (∀ (n : Noise) (fs v : Nat), n.length ≤ 64 →
      ¬ Len.fullRetrigger 64 (nsLen n) (leOf v) (trigOf v) (decide (fs % 2 = 1)) →
      nsLen (n.writeNR44 fs v) = Len.writeNRx4 64 (nsLen n) (leOf v) (trigOf v) (decide (fs % 2 = 1)) n.dacEnabled) :=
  ⟨sq_nrx4, wv_nrx4, ns_nrx4⟩

/-! ### the documented machine keeps a channel on for exactly `count` length clocks -/

/-- **C19 (exact length, documented machine).**  With length enabled and a non-zero counter L the
    channel is still on after k < L length clocks and off from the L-th on; the counter reads L − k. -/
theorem c19_length_exact_spec (k : Nat) : ∀ (on : Bool) (L : Nat), 0 < L →
    Len.clocks k ⟨on, true, L⟩ = ⟨on && decide (k < L), true, L - k⟩ := by
  induction k with
  | zero => intro on L h; simp [Len.clocks, h]
  | succ j ih =>
    intro on L h
    show Len.clocks j (Len.clock ⟨on, true, L⟩) = _
    have e : Len.clock ⟨on, true, L⟩ = ⟨on && decide (L ≠ 1), true, L - 1⟩ := by simp [Len.clock, h]
    rw [e]
    by_cases h1 : L = 1
    · subst h1
      -- counter reached zero: nothing happens any more
      have hz : ∀ (m : Nat) (b : Bool), Len.clocks m ⟨b, true, 0⟩ = ⟨b, true, 0⟩ := by
        intro m; induction m with
        | zero => intro b; rfl
        | succ i ihm => intro b; show Len.clocks i (Len.clock ⟨b, true, 0⟩) = _; simp [Len.clock, ihm]
      simp [hz]
    · rw [ih _ (L - 1) (by omega)]
      have : (j < L - 1) = (j + 1 < L) := by apply propext; omega
      simp [h1, this]
      omega

/-- non-vacuity: t = 0x3d loaded (3 length clocks): on after 2, off after 3 -/
example : (Len.clocks 2 ⟨true, true, lengthClocksFor 64 0x3d⟩).on = true ∧
    (Len.clocks 3 ⟨true, true, lengthClocksFor 64 0x3d⟩).on = false := by decide

end Tetro.C19
