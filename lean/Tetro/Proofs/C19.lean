import Tetro.Model.Apu
import Tetro.Spec.Apu
import Tetro.Lemmas.ApuStatus
import Tetro.Lemmas.ApuClk
import Tetro.Lemmas.ApuStatusW
import Tetro.Lemmas.ApuOff
/-
C19 – channel status bits and length counters behave as on a DMG.

Part A (this section): the length counters.  `Spec.Apu.Len` is the documented status/length
machine; the model's `tickLength` and NRx4 handlers refine it (`c19_refines_*`), the machine keeps
a channel on for exactly `count` length clocks (`c19_length_exact_spec`), hence the model does
(`c19_length_exact`), and a length clock happens exactly every 16384 clocks (`c19_256hz`).
-/
namespace Tetro.C19
open Tetro.Model.Apu Tetro.Model.Apu.Apu Tetro.Spec.Apu

/-! ### abstraction to the documented machine -/

def sqLen (s : Square) : Len := ⟨s.enabled, s.lengthEnable, s.length⟩
def wvLen (w : Wave) : Len := ⟨w.enabled, w.lengthEnable, w.length⟩
def nsLen (n : Noise) : Len := ⟨n.enabled, n.lengthEnable, n.length⟩

private theorem dec8_ne (l : Nat) (h1 : 0 < l) (h2 : l ≤ 256) : decide (dec8 l ≠ 0) = decide (l ≠ 1) :=
  decide_eq_decide.mpr (by unfold dec8; omega)
private theorem dec16_ne (l : Nat) (h1 : 0 < l) (h2 : l ≤ 65536) : decide (dec16 l ≠ 0) = decide (l ≠ 1) :=
  decide_eq_decide.mpr (by unfold dec16; omega)
private theorem dec8_sub (l : Nat) (h1 : 0 < l) (h2 : l ≤ 256) : dec8 l = l - 1 := by unfold dec8; omega
private theorem dec16_sub (l : Nat) (h1 : 0 < l) (h2 : l ≤ 65536) : dec16 l = l - 1 := by unfold dec16; omega

/-- **C19 (refinement, length clock).**  `tickLength` of every channel is one clock of the documented
    length machine (counters within their hardware range 0..64 / 0..256). -/
theorem c19_refines_clock :
    (∀ s : Square, s.length ≤ 64 → sqLen s.tickLength = (sqLen s).clock ∧ s.tickLength.length ≤ 64) ∧
    (∀ w : Wave, w.length ≤ 256 → wvLen w.tickLength = (wvLen w).clock ∧ w.tickLength.length ≤ 256) ∧
    (∀ n : Noise, n.length ≤ 64 → nsLen n.tickLength = (nsLen n).clock ∧ n.tickLength.length ≤ 64) := by
  refine ⟨fun s h => ?_, fun w h => ?_, fun n h => ?_⟩
  · refine ⟨?_, ?_⟩
    · unfold Square.tickLength Len.clock sqLen
      cases he : s.lengthEnable
      · simp [he]
      · by_cases hp : s.length > 0
        · have e2 := dec8_sub s.length hp (by omega)
          have e3 : (s.length - 1 = 0) = (s.length = 1) := by apply propext; omega
          simp [hp, e2, e3, he]
        · simp [hp, he]
    · unfold Square.tickLength
      repeat' split
      all_goals (try dsimp only)
      all_goals (first | omega | (unfold dec8; omega))
  · refine ⟨?_, ?_⟩
    · unfold Wave.tickLength Len.clock wvLen
      cases he : w.lengthEnable
      · simp [he]
      · by_cases hp : w.length > 0
        · have e2 := dec16_sub w.length hp (by omega)
          have e3 : (w.length - 1 = 0) = (w.length = 1) := by apply propext; omega
          simp [hp, e2, e3, he]
        · simp [hp, he]
    · unfold Wave.tickLength
      repeat' split
      all_goals (try dsimp only)
      all_goals (first | omega | (unfold dec16; omega))
  · refine ⟨?_, ?_⟩
    · unfold Noise.tickLength Len.clock nsLen
      cases he : n.lengthEnable
      · simp [he]
      · by_cases hp : n.length > 0
        · have e2 := dec8_sub n.length hp (by omega)
          have e3 : (n.length - 1 = 0) = (n.length = 1) := by apply propext; omega
          simp [hp, e2, e3, he]
        · simp [hp, he]
    · unfold Noise.tickLength
      repeat' split
      all_goals (try dsimp only)
      all_goals (first | omega | (unfold dec8; omega))


/-! ### NRx4 refines the documented machine -/

/-- the frequency-sweep calculation of channel 1 on a 16-bit register (as in `calculateFrequency`) -/
def sweepCalc (inc : Bool) (f sh : Nat) : Nat :=
  if !inc then (f + (65536 - (f >>> sh)) % 65536) % 65536 else (f + (f >>> sh)) % 65536

/-- for an 11-bit frequency the 16-bit calculation is the documented f ± (f >> shift) -/
theorem c19_sweep_calc_doc (inc : Bool) (f sh : Nat) (hf : f < 2048) :
    sweepCalc inc f sh = if inc then f + (f >>> sh) else f - (f >>> sh) := by
  have hle := Nat.shiftRight_le f sh
  unfold sweepCalc
  generalize f >>> sh = x at hle
  cases inc
  · simp only [Bool.not_false, if_true, Bool.false_eq_true, if_false]; omega
  · simp only [Bool.not_true, Bool.false_eq_true, if_false, if_true]; omega

/-- status of a square right after a trigger: DAC on and (channel 1, shift ≠ 0) no sweep overflow -/
def sqTrigOk (s : Square) : Bool :=
  s.dacEnabled && (!s.hasSweep || !decide (s.sweepShift > 0) || decide (sweepCalc s.sweepIncrease s.frequency s.sweepShift ≤ 2047))
def wvTrigOk (w : Wave) : Bool := w.dacEnabled
def nsTrigOk (n : Noise) : Bool := n.dacEnabled

private theorem sq_trig_fields (s : Square) :
    s.trigger.length = (if s.length = 0 then 64 else s.length) ∧ s.trigger.lengthEnable = s.lengthEnable ∧
    s.trigger.enabled = sqTrigOk s := by
  unfold Square.trigger Square.dacGate Square.triggerSweep Square.trigBase sqTrigOk sweepCalc
  cases hs : s.hasSweep
  · simp
  · by_cases h : s.sweepShift > 0
    · simp [h, Square.sweepReload, Square.calcState, Square.calcValue, Bool.and_comm]
    · simp [h, Square.sweepReload]

private theorem wv_trig_fields (w : Wave) :
    w.trigger.length = (if w.length = 0 then 256 else w.length) ∧ w.trigger.lengthEnable = w.lengthEnable ∧
    w.trigger.enabled = wvTrigOk w := by
  unfold Wave.trigger Wave.trigBody Wave.trigHead wvTrigOk
  refine ⟨?_, ?_, ?_⟩ <;> (repeat' split) <;> rfl

private theorem ns_trig_fields (n : Noise) :
    n.trigger.length = (if n.length = 0 then 64 else n.length) ∧ n.trigger.lengthEnable = n.lengthEnable ∧
    n.trigger.enabled = nsTrigOk n := ⟨rfl, rfl, rfl⟩

private theorem sq_extra (s : Square) (fs : Nat) (le tr : Bool) (h : s.length ≤ 64) :
    sqLen (s.extraLenClock fs le tr) =
      ⟨(if (!s.lengthEnable && le && decide (s.length > 0) && decide (fs % 2 = 1)) = true then s.enabled && !(decide (s.length - 1 = 0) && !tr) else s.enabled),
       s.lengthEnable,
       (if (!s.lengthEnable && le && decide (s.length > 0) && decide (fs % 2 = 1)) = true then s.length - 1 else s.length)⟩ := by
  unfold Square.extraLenClock sqLen
  by_cases c : (!s.lengthEnable && le && decide (s.length > 0) && decide (fs % 2 = 1)) = true
  · have hp : s.length > 0 := by simp at c; omega
    simp only [c, if_true, dec8_sub s.length hp (by omega)]
  · simp [c]

/-- NRx4 on a square channel refines the documented machine (outside the documented-open corner) -/
private theorem sq_nrx4 (s0 : Square) (fs v : Nat) (h0 : s0.length ≤ 64)
    (hc : ¬ Len.fullRetrigger 64 (sqLen s0) (leOf v) (trigOf v) (decide (fs % 2 = 1))) :
    sqLen (s0.writeNRx4 fs v) =
      Len.writeNRx4 64 (sqLen s0) (leOf v) (trigOf v) (decide (fs % 2 = 1)) (sqTrigOk (s0.setFreqHi v)) := by
  have hpre : sqLen (s0.setFreqHi v) = sqLen s0 := rfl
  have h : (s0.setFreqHi v).length ≤ 64 := h0
  rw [← hpre] at hc ⊢
  unfold Square.writeNRx4 Square.setLE Square.trigPart
  generalize s0.setFreqHi v = s at *
  generalize hle : leOf v = le at *
  generalize htr : trigOf v = tr at *
  have hok' : sqTrigOk (s.extraLenClock fs le tr) = sqTrigOk s := by
    unfold Square.extraLenClock; split <;> rfl
  have hx' := sq_extra s fs le tr h
  generalize s.extraLenClock fs le tr = x at hx' hok'
  simp only [sqLen, Len.mk.injEq] at hx'
  obtain ⟨x1, x2, x3⟩ := hx'
  obtain ⟨t1, t2, t3⟩ := sq_trig_fields x
  have e1 : (x.trigger.trigLenClock fs le).enabled = sqTrigOk x := by
    unfold Square.trigLenClock; split <;> exact t3
  have e2 : (x.trigger.trigLenClock fs le).length =
      if (le && decide (x.trigger.length = 64) && decide (fs % 2 = 1)) = true then dec8 x.trigger.length else x.trigger.length := by
    unfold Square.trigLenClock; split <;> rfl
  have hcorner : ¬ (tr = true ∧ le = true ∧ (fs % 2 = 1) ∧ s.lengthEnable = true ∧ s.length = 64) := by
    intro ⟨a1, a2, a3, a4, a5⟩; apply hc
    exact ⟨a1, a2, by simp [a3], a4, a5⟩
  simp only [sqLen, Len.writeNRx4]
  rw [hok'] at e1
  rcases Bool.eq_false_or_eq_true s.lengthEnable with hl | hl <;> cases le <;> by_cases f : fs % 2 = 1 <;> by_cases z : s.length > 0 <;> cases tr <;>
    simp [hl, f, z] at x1 x3 hcorner ⊢ <;>
    (try simp [e1, e2, t1, x1, x3, f, dec8])
  all_goals (repeat' split)
  all_goals omega

private theorem wv_extra (s : Wave) (fs : Nat) (le tr : Bool) (h : s.length ≤ 256) :
    wvLen (s.extraLenClock fs le tr) =
      ⟨(if (!s.lengthEnable && le && decide (s.length > 0) && decide (fs % 2 = 1)) = true then s.enabled && !(decide (s.length - 1 = 0) && !tr) else s.enabled),
       s.lengthEnable,
       (if (!s.lengthEnable && le && decide (s.length > 0) && decide (fs % 2 = 1)) = true then s.length - 1 else s.length)⟩ := by
  unfold Wave.extraLenClock wvLen
  by_cases c : (!s.lengthEnable && le && decide (s.length > 0) && decide (fs % 2 = 1)) = true
  · have hp : s.length > 0 := by simp at c; omega
    simp only [c, if_true, dec16_sub s.length hp (by omega)]
  · simp [c]

/-- NRx4 on the wave channel refines the documented machine (outside the documented-open corner) -/
private theorem wv_nrx4 (s0 : Wave) (fs v : Nat) (h0 : s0.length ≤ 256)
    (hc : ¬ Len.fullRetrigger 256 (wvLen s0) (leOf v) (trigOf v) (decide (fs % 2 = 1))) :
    wvLen (s0.writeNR34 fs v) =
      Len.writeNRx4 256 (wvLen s0) (leOf v) (trigOf v) (decide (fs % 2 = 1)) (wvTrigOk (s0.setFreqHi v)) := by
  have hpre : wvLen (s0.setFreqHi v) = wvLen s0 := rfl
  have h : (s0.setFreqHi v).length ≤ 256 := h0
  rw [← hpre] at hc ⊢
  unfold Wave.writeNR34 Wave.setLE Wave.trigPart
  generalize s0.setFreqHi v = s at *
  generalize hle : leOf v = le at *
  generalize htr : trigOf v = tr at *
  have hok' : wvTrigOk (s.extraLenClock fs le tr) = wvTrigOk s := by
    unfold Wave.extraLenClock wvTrigOk; split <;> rfl
  have hx' := wv_extra s fs le tr h
  generalize s.extraLenClock fs le tr = x at hx' hok'
  simp only [wvLen, Len.mk.injEq] at hx'
  obtain ⟨x1, x2, x3⟩ := hx'
  obtain ⟨t1, t2, t3⟩ := wv_trig_fields x
  have e1 : (x.trigger.trigLenClock fs le).enabled = wvTrigOk x := by
    unfold Wave.trigLenClock; split <;> exact t3
  have e2 : (x.trigger.trigLenClock fs le).length =
      if (le && decide (x.trigger.length = 256) && decide (fs % 2 = 1)) = true then dec16 x.trigger.length else x.trigger.length := by
    unfold Wave.trigLenClock; split <;> rfl
  have hcorner : ¬ (tr = true ∧ le = true ∧ (fs % 2 = 1) ∧ s.lengthEnable = true ∧ s.length = 256) := by
    intro ⟨a1, a2, a3, a4, a5⟩; apply hc
    exact ⟨a1, a2, by simp [a3], a4, a5⟩
  simp only [wvLen, Len.writeNRx4]
  rw [hok'] at e1
  rcases Bool.eq_false_or_eq_true s.lengthEnable with hl | hl <;> cases le <;> by_cases f : fs % 2 = 1 <;> by_cases z : s.length > 0 <;> cases tr <;>
    simp [hl, f, z] at x1 x3 hcorner ⊢ <;>
    (try simp [e1, e2, t1, x1, x3, f, dec16])
  all_goals (repeat' split)
  all_goals omega

private theorem ns_extra (s : Noise) (fs : Nat) (le tr : Bool) (h : s.length ≤ 64) :
    nsLen (s.extraLenClock fs le tr) =
      ⟨(if (!s.lengthEnable && le && decide (s.length > 0) && decide (fs % 2 = 1)) = true then s.enabled && !(decide (s.length - 1 = 0) && !tr) else s.enabled),
       s.lengthEnable,
       (if (!s.lengthEnable && le && decide (s.length > 0) && decide (fs % 2 = 1)) = true then s.length - 1 else s.length)⟩ := by
  unfold Noise.extraLenClock nsLen
  by_cases c : (!s.lengthEnable && le && decide (s.length > 0) && decide (fs % 2 = 1)) = true
  · have hp : s.length > 0 := by simp at c; omega
    simp only [c, if_true, dec8_sub s.length hp (by omega)]
  · simp [c]

/-- NRx4 on the noise channel refines the documented machine (outside the documented-open corner) -/
private theorem ns_nrx4 (s0 : Noise) (fs v : Nat) (h0 : s0.length ≤ 64)
    (hc : ¬ Len.fullRetrigger 64 (nsLen s0) (leOf v) (trigOf v) (decide (fs % 2 = 1))) :
    nsLen (s0.writeNR44 fs v) =
      Len.writeNRx4 64 (nsLen s0) (leOf v) (trigOf v) (decide (fs % 2 = 1)) (nsTrigOk (s0)) := by
  have hpre : nsLen (s0) = nsLen s0 := rfl
  have h : (s0).length ≤ 64 := h0
  rw [← hpre] at hc ⊢
  unfold Noise.writeNR44 Noise.setLE Noise.trigPart
  generalize s0 = s at *
  generalize hle : leOf v = le at *
  generalize htr : trigOf v = tr at *
  have hok' : nsTrigOk (s.extraLenClock fs le tr) = nsTrigOk s := by
    unfold Noise.extraLenClock; split <;> rfl
  have hx' := ns_extra s fs le tr h
  generalize s.extraLenClock fs le tr = x at hx' hok'
  simp only [nsLen, Len.mk.injEq] at hx'
  obtain ⟨x1, x2, x3⟩ := hx'
  obtain ⟨t1, t2, t3⟩ := ns_trig_fields x
  have e1 : (x.trigger.trigLenClock fs le).enabled = nsTrigOk x := by
    unfold Noise.trigLenClock; split <;> exact t3
  have e2 : (x.trigger.trigLenClock fs le).length =
      if (le && decide (x.trigger.length = 64) && decide (fs % 2 = 1)) = true then dec8 x.trigger.length else x.trigger.length := by
    unfold Noise.trigLenClock; split <;> rfl
  have hcorner : ¬ (tr = true ∧ le = true ∧ (fs % 2 = 1) ∧ s.lengthEnable = true ∧ s.length = 64) := by
    intro ⟨a1, a2, a3, a4, a5⟩; apply hc
    exact ⟨a1, a2, by simp [a3], a4, a5⟩
  simp only [nsLen, Len.writeNRx4]
  rw [hok'] at e1
  rcases Bool.eq_false_or_eq_true s.lengthEnable with hl | hl <;> cases le <;> by_cases f : fs % 2 = 1 <;> by_cases z : s.length > 0 <;> cases tr <;>
    simp [hl, f, z] at x1 x3 hcorner ⊢ <;>
    (try simp [e1, e2, t1, x1, x3, f, dec8])
  all_goals (repeat' split)
  all_goals omega

/-- **C19 (refinement, NRx4).**  The NRx4 handlers of all four channels – frequency bits, the extra
    length clock in the first half of a frame-sequencer period, trigger with reload of an expired
    counter, length enable – are the documented machine `Len.writeNRx4`, with the status after a
    trigger = DAC enabled (∧ no sweep overflow for channel 1); excluded is only the corner the
    documentation leaves open (`Len.fullRetrigger`: trigger in the first half with length already
    enabled and the counter exactly full, where the code clocks the counter once). -/
theorem c19_refines_nrx4 :
    (∀ (s : Square) (fs v : Nat), s.length ≤ 64 →
      ¬ Len.fullRetrigger 64 (sqLen s) (leOf v) (trigOf v) (decide (fs % 2 = 1)) →
      sqLen (s.writeNRx4 fs v) = Len.writeNRx4 64 (sqLen s) (leOf v) (trigOf v) (decide (fs % 2 = 1)) (sqTrigOk (s.setFreqHi v))) ∧
    (∀ (w : Wave) (fs v : Nat), w.length ≤ 256 →
      ¬ Len.fullRetrigger 256 (wvLen w) (leOf v) (trigOf v) (decide (fs % 2 = 1)) →
      wvLen (w.writeNR34 fs v) = Len.writeNRx4 256 (wvLen w) (leOf v) (trigOf v) (decide (fs % 2 = 1)) w.dacEnabled) ∧
    (∀ (n : Noise) (fs v : Nat), n.length ≤ 64 →
      ¬ Len.fullRetrigger 64 (nsLen n) (leOf v) (trigOf v) (decide (fs % 2 = 1)) →
      nsLen (n.writeNR44 fs v) = Len.writeNRx4 64 (nsLen n) (leOf v) (trigOf v) (decide (fs % 2 = 1)) n.dacEnabled) :=
  ⟨sq_nrx4, wv_nrx4, ns_nrx4⟩

/-! ### the documented machine keeps a channel on for exactly `count` length clocks -/

/-- **C19 (exact length, documented machine).**  With length enabled and a non-zero counter L the
    channel is still on after k < L length clocks and off from the L-th on; the counter reads L − k. -/
theorem c19_length_exact_spec (k : Nat) : ∀ (on : Bool) (L : Nat), 0 < L →
    Len.clocks k ⟨on, true, L⟩ = ⟨on && decide (k < L), true, L - k⟩ := by
  induction k with
  | zero => intro on L h; simp [Len.clocks, h]
  | succ j ih =>
    intro on L h
    show Len.clocks j (Len.clock ⟨on, true, L⟩) = _
    have e : Len.clock ⟨on, true, L⟩ = ⟨on && decide (L ≠ 1), true, L - 1⟩ := by simp [Len.clock, h]
    rw [e]
    by_cases h1 : L = 1
    · subst h1
      -- counter reached zero: nothing happens any more
      have hz : ∀ (m : Nat) (b : Bool), Len.clocks m ⟨b, true, 0⟩ = ⟨b, true, 0⟩ := by
        intro m; induction m with
        | zero => intro b; rfl
        | succ i ihm => intro b; show Len.clocks i (Len.clock ⟨b, true, 0⟩) = _; simp [Len.clock, ihm]
      simp [hz]
    · rw [ih _ (L - 1) (by omega)]
      have : (j < L - 1) = (j + 1 < L) := by apply propext; omega
      simp [h1, this]
      omega

/-- non-vacuity: t = 0x3d loaded (3 length clocks): on after 2, off after 3 -/
example : (Len.clocks 2 ⟨true, true, lengthClocksFor 64 0x3d⟩).on = true ∧
    (Len.clocks 3 ⟨true, true, lengthClocksFor 64 0x3d⟩).on = false := by decide


/-! ### exact length on the code model -/

def sqLenTicks : Nat → Square → Square
  | 0, s => s
  | k + 1, s => sqLenTicks k s.tickLength
def wvLenTicks : Nat → Wave → Wave
  | 0, w => w
  | k + 1, w => wvLenTicks k w.tickLength
def nsLenTicks : Nat → Noise → Noise
  | 0, n => n
  | k + 1, n => nsLenTicks k n.tickLength

private theorem sq_lenTicks (k : Nat) : ∀ s : Square, s.length ≤ 64 → sqLen (sqLenTicks k s) = Len.clocks k (sqLen s) := by
  induction k with
  | zero => intro s _; rfl
  | succ j ih =>
    intro s h
    obtain ⟨e, hb⟩ := c19_refines_clock.1 s h
    show sqLen (sqLenTicks j s.tickLength) = Len.clocks j (sqLen s).clock
    rw [ih _ hb, e]
private theorem wv_lenTicks (k : Nat) : ∀ w : Wave, w.length ≤ 256 → wvLen (wvLenTicks k w) = Len.clocks k (wvLen w) := by
  induction k with
  | zero => intro s _; rfl
  | succ j ih =>
    intro s h
    obtain ⟨e, hb⟩ := c19_refines_clock.2.1 s h
    show wvLen (wvLenTicks j s.tickLength) = Len.clocks j (wvLen s).clock
    rw [ih _ hb, e]
private theorem ns_lenTicks (k : Nat) : ∀ n : Noise, n.length ≤ 64 → nsLen (nsLenTicks k n) = Len.clocks k (nsLen n) := by
  induction k with
  | zero => intro s _; rfl
  | succ j ih =>
    intro s h
    obtain ⟨e, hb⟩ := c19_refines_clock.2.2 s h
    show nsLen (nsLenTicks j s.tickLength) = Len.clocks j (nsLen s).clock
    rw [ih _ hb, e]

/-- a trigger with length enable on the documented machine, counter loaded with `cnt`: the counter
    afterwards, plus the extra clock this write performed, is `cnt` – except that a counter expired
    by the extra clock is reloaded (M − 1 more clocks: the write is in the first half) -/
private theorem spec_trigger (M : Nat) (hM : 1 < M) (on0 en fh ok : Bool) (cnt : Nat) (h1 : 0 < cnt) (h2 : cnt ≤ M) :
    ∃ c, Len.writeNRx4 M ⟨on0, en, cnt⟩ true true fh ok = ⟨ok, true, c⟩ ∧ 0 < c ∧ c ≤ M ∧
      (c + (if (!en && fh) = true then 1 else 0) = cnt ∨ ((!en && fh) = true ∧ cnt = 1 ∧ c = M - 1)) := by
  cases en <;> cases fh <;> simp [Len.writeNRx4, h1]
  all_goals (repeat' split)
  all_goals (first | omega | (refine ⟨by omega, by omega, ?_⟩; omega) | skip)

/-- **C19 (exact length).**  A channel whose length register was written with data t and which is then
    triggered with length enable (NRx4 bits 7 and 6) stays on – if the trigger switched it on at all:
    DAC enabled, no sweep overflow – for exactly c further length clocks, where c plus the extra
    length clock performed by the NRx4 write itself (length newly enabled in the first half of a
    frame-sequencer period) is 64 − t (256 − t for channel 3); if that extra clock already expired
    the counter (t = 63 resp. 255) the trigger reloads it and c = 63 (255).  Excluded: the
    documented-open corner `Len.fullRetrigger` (length already enabled, t = 0, first half). -/
theorem c19_length_exact :
    (∀ (s : Square) (on : Bool) (t fs v : Nat), trigOf v = true → leOf v = true →
      ¬ (s.lengthEnable = true ∧ fs % 2 = 1 ∧ t % 64 = 0) →
      ∃ c, 0 < c ∧
        (c + (if (!s.lengthEnable && decide (fs % 2 = 1)) = true then 1 else 0) = lengthClocksFor 64 t ∨
          ((!s.lengthEnable && decide (fs % 2 = 1)) = true ∧ t % 64 = 63 ∧ c = 63)) ∧
        ∀ k, sqLen (sqLenTicks k ((sqWriteNRx1 on s t).writeNRx4 fs v)) =
          ⟨sqTrigOk ((sqWriteNRx1 on s t).setFreqHi v) && decide (k < c), true, c - k⟩) ∧
    (∀ (w : Wave) (t fs v : Nat), t < 256 → trigOf v = true → leOf v = true →
      ¬ (w.lengthEnable = true ∧ fs % 2 = 1 ∧ t = 0) →
      ∃ c, 0 < c ∧
        (c + (if (!w.lengthEnable && decide (fs % 2 = 1)) = true then 1 else 0) = lengthClocksFor 256 t ∨
          ((!w.lengthEnable && decide (fs % 2 = 1)) = true ∧ t = 255 ∧ c = 255)) ∧
        ∀ k, wvLen (wvLenTicks k ((w.writeNR31 t).writeNR34 fs v)) = ⟨w.dacEnabled && decide (k < c), true, c - k⟩) ∧
    (∀ (n : Noise) (t fs v : Nat), trigOf v = true → leOf v = true →
      ¬ (n.lengthEnable = true ∧ fs % 2 = 1 ∧ t % 64 = 0) →
      ∃ c, 0 < c ∧
        (c + (if (!n.lengthEnable && decide (fs % 2 = 1)) = true then 1 else 0) = lengthClocksFor 64 t ∨
          ((!n.lengthEnable && decide (fs % 2 = 1)) = true ∧ t % 64 = 63 ∧ c = 63)) ∧
        ∀ k, nsLen (nsLenTicks k ((n.writeNR41 t).writeNR44 fs v)) = ⟨n.dacEnabled && decide (k < c), true, c - k⟩) := by
  refine ⟨?_, ?_, ?_⟩
  · intro s on t fs v htr hle hcor
    have hlen : (sqWriteNRx1 on s t).length = 64 - t % 64 := rfl
    have hen : (sqWriteNRx1 on s t).lengthEnable = s.lengthEnable := rfl
    have hb : (sqWriteNRx1 on s t).length ≤ 64 := by rw [hlen]; omega
    have hnc : ¬ Len.fullRetrigger 64 (sqLen (sqWriteNRx1 on s t)) (leOf v) (trigOf v) (decide (fs % 2 = 1)) := by
      intro ⟨_, _, a3, a4, a5⟩
      apply hcor
      refine ⟨a4, by simpa using a3, ?_⟩
      have : 64 - t % 64 = 64 := a5
      omega
    have href := c19_refines_nrx4.1 _ fs v hb hnc
    rw [htr, hle] at href
    obtain ⟨c, hc, c0, cM, hcount⟩ := spec_trigger 64 (by decide) (sqWriteNRx1 on s t).enabled s.lengthEnable
      (decide (fs % 2 = 1)) (sqTrigOk ((sqWriteNRx1 on s t).setFreqHi v)) (64 - t % 64) (by omega) (by omega)
    have hs2 : sqLen ((sqWriteNRx1 on s t).writeNRx4 fs v) = ⟨sqTrigOk ((sqWriteNRx1 on s t).setFreqHi v), true, c⟩ := by
      rw [href]; exact hc
    refine ⟨c, c0, ?_, fun k => ?_⟩
    · unfold lengthClocksFor
      rcases hcount with h | ⟨h1, h2, h3⟩
      · left; exact h
      · right; exact ⟨h1, by omega, h3⟩
    · have hb2 : ((sqWriteNRx1 on s t).writeNRx4 fs v).length ≤ 64 := by
        have := congrArg Len.count hs2; simp only [sqLen] at this; omega
      rw [sq_lenTicks k _ hb2, hs2, c19_length_exact_spec k _ c c0]
  · intro w t fs v ht htr hle hcor
    have hlen : (w.writeNR31 t).length = 256 - t := by show sub16 256 t = _; unfold sub16; omega
    have hen : (w.writeNR31 t).lengthEnable = w.lengthEnable := rfl
    have hb : (w.writeNR31 t).length ≤ 256 := by rw [hlen]; omega
    have hsl : wvLen (w.writeNR31 t) = ⟨w.enabled, w.lengthEnable, 256 - t⟩ := by
      show (⟨_, _, (w.writeNR31 t).length⟩ : Len) = _; rw [hlen]; rfl
    have hnc : ¬ Len.fullRetrigger 256 (wvLen (w.writeNR31 t)) (leOf v) (trigOf v) (decide (fs % 2 = 1)) := by
      rw [hsl]
      intro ⟨_, _, a3, a4, a5⟩
      apply hcor
      refine ⟨a4, by simpa using a3, ?_⟩
      have : 256 - t = 256 := a5
      omega
    have href := c19_refines_nrx4.2.1 _ fs v hb hnc
    rw [htr, hle, hsl] at href
    obtain ⟨c, hc, c0, cM, hcount⟩ := spec_trigger 256 (by decide) w.enabled w.lengthEnable
      (decide (fs % 2 = 1)) (w.writeNR31 t).dacEnabled (256 - t) (by omega) (by omega)
    have hs2 : wvLen ((w.writeNR31 t).writeNR34 fs v) = ⟨w.dacEnabled, true, c⟩ := by
      rw [href]; exact hc
    refine ⟨c, c0, ?_, fun k => ?_⟩
    · unfold lengthClocksFor
      rcases hcount with h | ⟨h1, h2, h3⟩
      · left; rw [Nat.mod_eq_of_lt ht]; exact h
      · right; exact ⟨h1, by omega, h3⟩
    · have hb2 : ((w.writeNR31 t).writeNR34 fs v).length ≤ 256 := by
        have := congrArg Len.count hs2; simp only [wvLen] at this; omega
      rw [wv_lenTicks k _ hb2, hs2, c19_length_exact_spec k _ c c0]
  · intro n t fs v htr hle hcor
    have hlen : (n.writeNR41 t).length = 64 - t % 64 := rfl
    have hb : (n.writeNR41 t).length ≤ 64 := by rw [hlen]; omega
    have hnc : ¬ Len.fullRetrigger 64 (nsLen (n.writeNR41 t)) (leOf v) (trigOf v) (decide (fs % 2 = 1)) := by
      intro ⟨_, _, a3, a4, a5⟩
      apply hcor
      refine ⟨a4, by simpa using a3, ?_⟩
      have : 64 - t % 64 = 64 := a5
      omega
    have href := c19_refines_nrx4.2.2 _ fs v hb hnc
    rw [htr, hle] at href
    obtain ⟨c, hc, c0, cM, hcount⟩ := spec_trigger 64 (by decide) (n.writeNR41 t).enabled n.lengthEnable
      (decide (fs % 2 = 1)) (n.writeNR41 t).dacEnabled (64 - t % 64) (by omega) (by omega)
    have hs2 : nsLen ((n.writeNR41 t).writeNR44 fs v) = ⟨n.dacEnabled, true, c⟩ := by
      rw [href]; exact hc
    refine ⟨c, c0, ?_, fun k => ?_⟩
    · unfold lengthClocksFor
      rcases hcount with h | ⟨h1, h2, h3⟩
      · left; exact h
      · right; exact ⟨h1, by omega, h3⟩
    · have hb2 : ((n.writeNR41 t).writeNR44 fs v).length ≤ 64 := by
        have := congrArg Len.count hs2; simp only [nsLen] at this; omega
      rw [ns_lenTicks k _ hb2, hs2, c19_length_exact_spec k _ c c0]

/-- non-vacuity: channel 2, NR21 = 0x3d (t = 61: 3 length clocks), DAC on, length not yet enabled,
    trigger + length enable in the SECOND half (no extra clock): on after 2 length clocks, off after 3;
    the same in the FIRST half: the write itself is the first of the 3 clocks, off after 2 more -/
example :
    (sqLenTicks 2 ((sqWriteNRx1 true { dacEnabled := true } 0x3d).writeNRx4 0 0xC0)).enabled = true ∧
    (sqLenTicks 3 ((sqWriteNRx1 true { dacEnabled := true } 0x3d).writeNRx4 0 0xC0)).enabled = false ∧
    (sqLenTicks 1 ((sqWriteNRx1 true { dacEnabled := true } 0x3d).writeNRx4 1 0xC0)).enabled = true ∧
    (sqLenTicks 2 ((sqWriteNRx1 true { dacEnabled := true } 0x3d).writeNRx4 1 0xC0)).enabled = false := by decide

/-- the documented-open corner, as the code behaves: length already enabled, counter full (t = 0),
    trigger in the first half: the code clocks the counter (63 left), the documentation reads as 64 -/
theorem c19_full_retrigger_code :
    ((sqWriteNRx1 true { dacEnabled := true, lengthEnable := true } 0x00).writeNRx4 1 0xC0).length = 63 := by decide


/-! ### length clocks happen at 256 Hz -/

/-- in this clock `tickClock` clocks the four length counters -/
def LenClockNow (a : Apu) : Prop := a.ticks % 8192 = 0 ∧ a.frameSeqTicks % 2 = 0

/-- position inside the 16384-clock length period; 0 = a length clock happens in this clock -/
def lenPhase (a : Apu) : Nat :=
  ((if a.ticks % 8192 = 0 then a.frameSeqTicks else a.frameSeqTicks + 1) % 2) * 8192 + a.ticks % 8192

private theorem phase_arith (t f : Nat) (h : f < 512) :
    ((if (t + 1) % 18446744073709551616 % 8192 = 0 then
          (if t % 8192 = 0 then (if (f + 1) % 18446744073709551616 ≥ 512 then 0 else (f + 1) % 18446744073709551616) else f)
        else (if t % 8192 = 0 then (if (f + 1) % 18446744073709551616 ≥ 512 then 0 else (f + 1) % 18446744073709551616) else f) + 1) % 2) * 8192
      + (t + 1) % 18446744073709551616 % 8192
      = (((if t % 8192 = 0 then f else f + 1) % 2) * 8192 + t % 8192 + 1) % 16384 ∧
    (if t % 8192 = 0 then (if (f + 1) % 18446744073709551616 ≥ 512 then 0 else (f + 1) % 18446744073709551616) else f) < 512 := by
  have ht : (t + 1) % 18446744073709551616 % 8192 = (t + 1) % 8192 := by omega
  have hf : (f + 1) % 18446744073709551616 = f + 1 := by omega
  rw [ht, hf]
  by_cases c : t % 8192 = 0
  · have c1 : ¬ (t + 1) % 8192 = 0 := by omega
    simp only [c, c1, if_true, if_false]
    by_cases w : f + 1 ≥ 512
    · simp only [w, if_true]; omega
    · simp only [w, if_false]; omega
  · simp only [c, if_false]
    by_cases c1 : (t + 1) % 8192 = 0
    · simp only [c1, if_true]; omega
    · simp only [c1, if_false]; omega

private theorem phase_step (a : Apu) (h : a.frameSeqTicks < 512) :
    lenPhase a.tickClock = (lenPhase a + 1) % 16384 ∧ a.tickClock.frameSeqTicks < 512 := by
  have e := clk_tickClock a
  simp only [clk, Prod.mk.injEq] at e
  obtain ⟨e1, e2⟩ := e
  unfold lenPhase
  rw [e1, e2]
  exact phase_arith a.ticks a.frameSeqTicks h

private theorem phase_clocks (i : Nat) : ∀ (a : Apu), a.frameSeqTicks < 512 →
    lenPhase (clocks i a) = (lenPhase a + i) % 16384 ∧ (clocks i a).frameSeqTicks < 512 := by
  induction i with
  | zero =>
    intro a h
    refine ⟨?_, h⟩
    show lenPhase a = (lenPhase a + 0) % 16384
    have : lenPhase a < 16384 := by unfold lenPhase; split <;> omega
    omega
  | succ j ih =>
    intro a h
    obtain ⟨p1, p2⟩ := phase_step a h
    obtain ⟨q1, q2⟩ := ih a.tickClock p2
    refine ⟨?_, q2⟩
    show lenPhase (clocks j a.tickClock) = _
    rw [q1, p1]; omega

/-- **C19 (256 Hz).**  From any state whose step counter is in range (always, after New or a
    power-on): the length counters are clocked in the i-th following clock exactly when
    (phase + i) is a multiple of 16384 – i.e. once every 16384 clocks (256 Hz), for ever, also across
    the wrap of the step counter at 512 and of the 64-bit clock counter. -/
theorem c19_256hz (a : Apu) (h : a.frameSeqTicks < 512) (i : Nat) :
    LenClockNow (clocks i a) ↔ (lenPhase a + i) % 16384 = 0 := by
  obtain ⟨p, _⟩ := phase_clocks i a h
  rw [← p]
  unfold LenClockNow lenPhase
  constructor
  · intro ⟨h1, h2⟩; rw [if_pos h1]; omega
  · intro hz; split at hz <;> omega

/-- … and `LenClockNow` is exactly when a clock applies `tickLength` to the length fields of all four
    channels; in every other clock they are untouched (timers, envelopes and the sweep never write
    them). -/
theorem c19_length_clocked_at (a : Apu) :
    (LenClockNow a → a.tickClock.lens = a.lensClocked) ∧ (¬ LenClockNow a → a.tickClock.lens = a.lens) := by
  have e := lens_tickClock a
  unfold LenClockNow
  exact ⟨fun h => by rw [e, if_pos h], fun h => by rw [e, if_neg h]⟩

/-- after New the first length clock happens in the 8192nd clock (clock counter = 8192, step 0), the
    next ones every 16384 clocks -/
example : lenPhase (Apu.new true true) = 8193 ∧ (Apu.new true true).frameSeqTicks < 512 ∧ (8193 + 8191) % 16384 = 0 := by decide


/-! ### Part B: the status bits -/

private theorem sq_nrx4_enabled (s : Square) (fs v : Nat) :
    (s.writeNRx4 fs v).enabled =
      if trigOf v = true then sqTrigOk (s.setFreqHi v) else ((s.setFreqHi v).extraLenClock fs (leOf v) false).enabled := by
  unfold Square.writeNRx4 Square.setLE Square.trigPart
  cases ht : trigOf v
  · simp only [Bool.false_eq_true, if_false]
  · simp only [if_true]
    have hok : sqTrigOk ((s.setFreqHi v).extraLenClock fs (leOf v) true) = sqTrigOk (s.setFreqHi v) := by
      unfold Square.extraLenClock; split <;> rfl
    rw [← hok, ← (sq_trig_fields _).2.2]
    unfold Square.trigLenClock; split <;> rfl

private theorem wv_nr34_enabled (w : Wave) (fs v : Nat) :
    (w.writeNR34 fs v).enabled =
      if trigOf v = true then w.dacEnabled else ((w.setFreqHi v).extraLenClock fs (leOf v) false).enabled := by
  unfold Wave.writeNR34 Wave.setLE Wave.trigPart
  cases ht : trigOf v
  · simp only [Bool.false_eq_true, if_false]
  · simp only [if_true]
    have hok : wvTrigOk ((w.setFreqHi v).extraLenClock fs (leOf v) true) = w.dacEnabled := by
      unfold Wave.extraLenClock wvTrigOk; split <;> rfl
    rw [← hok, ← (wv_trig_fields _).2.2]
    unfold Wave.trigLenClock; split <;> rfl

private theorem ns_nr44_enabled (n : Noise) (fs v : Nat) :
    (n.writeNR44 fs v).enabled =
      if trigOf v = true then n.dacEnabled else (n.extraLenClock fs (leOf v) false).enabled := by
  unfold Noise.writeNR44 Noise.setLE Noise.trigPart
  cases ht : trigOf v
  · simp only [Bool.false_eq_true, if_false]
  · simp only [if_true]
    have hok : nsTrigOk (n.extraLenClock fs (leOf v) true) = n.dacEnabled := by
      unfold Noise.extraLenClock nsTrigOk; split <;> rfl
    rw [← hok, ← (ns_trig_fields _).2.2]
    unfold Noise.trigLenClock; split <;> rfl

/-- the conditions under which a trigger of channel 1 leaves the channel on: DAC enabled and, if the
    sweep shift is non-zero, the immediate sweep calculation on the new frequency does not overflow -/
def Ch1TriggerOk (a : Apu) (w : Nat) : Prop :=
  a.ch1.dacEnabled = true ∧
  (a.ch1.hasSweep = true → a.ch1.sweepShift > 0 →
    sweepCalc a.ch1.sweepIncrease (a.ch1.frequency % 256 + (w % 8) * 256) a.ch1.sweepShift ≤ 2047)

private theorem sqTrigOk_iff (s : Square) : sqTrigOk s = true ↔
    (s.dacEnabled = true ∧ (s.hasSweep = true → s.sweepShift > 0 → sweepCalc s.sweepIncrease s.frequency s.sweepShift ≤ 2047)) := by
  unfold sqTrigOk
  cases s.dacEnabled <;> cases s.hasSweep <;> by_cases h : s.sweepShift > 0 <;> simp [h]

/-- **C19 (on only by trigger).**  For EVERY state and every operation of a history (a bus write or a
    machine cycle): if a channel's status bit goes from 0 to 1, the operation is a write to that
    channel's NRx4 with bit 7 set, made while sound is on, the channel's DAC is enabled and – for
    channel 1 – the sweep calculation on the new frequency does not overflow.  (Being true for every
    state it is in particular an invariant of all histories.) -/
theorem c19_on_only_by_trigger (a : Apu) (op : Op) :
    (a.ch1.enabled = false → (a.step op).ch1.enabled = true →
      ∃ v, op = .write 0xFF14 v ∧ trigOf (v % 256) = true ∧ a.control.on = true ∧ Ch1TriggerOk a (v % 256)) ∧
    (a.ch2.enabled = false → (a.step op).ch2.enabled = true →
      ∃ v, op = .write 0xFF19 v ∧ trigOf (v % 256) = true ∧ a.control.on = true ∧ a.ch2.dacEnabled = true) ∧
    (a.ch3.enabled = false → (a.step op).ch3.enabled = true →
      ∃ v, op = .write 0xFF1E v ∧ trigOf (v % 256) = true ∧ a.control.on = true ∧ a.ch3.dacEnabled = true) ∧
    (a.ch4.enabled = false → (a.step op).ch4.enabled = true →
      ∃ v, op = .write 0xFF23 v ∧ trigOf (v % 256) = true ∧ a.control.on = true ∧ a.ch4.dacEnabled = true) := by
  cases op with
  | cycle =>
    have e : a.step Op.cycle = a.endMachineCycle := rfl
    rw [e]
    have h := status_endMachineCycle a
    generalize a.endMachineCycle = b at h
    obtain ⟨g1, g2, g3, g4⟩ := h
    refine ⟨fun h0 h1 => ?_, fun h0 h1 => ?_, fun h0 h1 => ?_, fun h0 h1 => ?_⟩
    · have this : a.ch1.enabled = true := g1 h1
      rw [h0] at this; cases this
    · have this : a.ch2.enabled = true := g2 h1
      rw [h0] at this; cases this
    · have this : a.ch3.enabled = true := g3 h1
      rw [h0] at this; cases this
    · have this : a.ch4.enabled = true := g4 h1
      rw [h0] at this; cases this
  | write ad v =>
    have hs := status_writeB a ad (v % 256)
    have e : a.step (Op.write ad v) = a.writeB ad (v % 256) := rfl
    rw [e]
    refine ⟨fun h0 h1 => ?_, fun h0 h1 => ?_, fun h0 h1 => ?_, fun h0 h1 => ?_⟩
    · have h1' : (a.writeB ad (v % 256)).ch1.enabled = true := h1
      by_cases e : ad = 0xFF14
      · subst e
        rw [writeB_FF14] at h1'
        unfold writeNR14 at h1'
        cases hon : a.control.on
        · rw [hon] at h1'; simp only [Bool.not_false, if_true] at h1'; rw [h0] at h1'; cases h1'
        · rw [hon] at h1'; simp only [Bool.not_true, Bool.false_eq_true, if_false] at h1'
          have h2 : (a.ch1.writeNRx4 a.frameSeqTicks (v % 256)).enabled = true := h1'
          rw [sq_nrx4_enabled] at h2
          cases ht : trigOf (v % 256)
          · rw [ht] at h2; simp only [Bool.false_eq_true, if_false] at h2
            have h3 : a.ch1.enabled = true := Square.en_extraLenClock (a.ch1.setFreqHi (v % 256)) _ _ _ h2
            rw [h0] at h3; cases h3
          · rw [ht] at h2; simp only [if_true] at h2
            refine ⟨v, rfl, ht, rfl, ?_⟩
            exact (sqTrigOk_iff _).mp h2
      · have := hs.1 e h1'; rw [h0] at this; cases this
    · have h1' : (a.writeB ad (v % 256)).ch2.enabled = true := h1
      by_cases e : ad = 0xFF19
      · subst e
        rw [writeB_FF19] at h1'
        unfold writeNR24 at h1'
        cases hon : a.control.on
        · rw [hon] at h1'; simp only [Bool.not_false, if_true] at h1'; rw [h0] at h1'; cases h1'
        · rw [hon] at h1'; simp only [Bool.not_true, Bool.false_eq_true, if_false] at h1'
          have h2 : (a.ch2.writeNRx4 a.frameSeqTicks (v % 256)).enabled = true := h1'
          rw [sq_nrx4_enabled] at h2
          cases ht : trigOf (v % 256)
          · rw [ht] at h2; simp only [Bool.false_eq_true, if_false] at h2
            have h3 : a.ch2.enabled = true := Square.en_extraLenClock (a.ch2.setFreqHi (v % 256)) _ _ _ h2
            rw [h0] at h3; cases h3
          · rw [ht] at h2; simp only [if_true] at h2
            exact ⟨v, rfl, ht, rfl, ((sqTrigOk_iff _).mp h2).1⟩
      · have := hs.2.1 e h1'; rw [h0] at this; cases this
    · have h1' : (a.writeB ad (v % 256)).ch3.enabled = true := h1
      by_cases e : ad = 0xFF1E
      · subst e
        rw [writeB_FF1E] at h1'
        unfold writeNR34 at h1'
        cases hon : a.control.on
        · rw [hon] at h1'; simp only [Bool.not_false, if_true] at h1'; rw [h0] at h1'; cases h1'
        · rw [hon] at h1'; simp only [Bool.not_true, Bool.false_eq_true, if_false] at h1'
          have h2 : (a.ch3.writeNR34 a.frameSeqTicks (v % 256)).enabled = true := h1'
          rw [wv_nr34_enabled] at h2
          cases ht : trigOf (v % 256)
          · rw [ht] at h2; simp only [Bool.false_eq_true, if_false] at h2
            have h3 : a.ch3.enabled = true := Wave.en_extraLenClock (a.ch3.setFreqHi (v % 256)) _ _ _ h2
            rw [h0] at h3; cases h3
          · rw [ht] at h2; simp only [if_true] at h2
            exact ⟨v, rfl, ht, rfl, h2⟩
      · have := hs.2.2.1 e h1'; rw [h0] at this; cases this
    · have h1' : (a.writeB ad (v % 256)).ch4.enabled = true := h1
      by_cases e : ad = 0xFF23
      · subst e
        rw [writeB_FF23] at h1'
        unfold writeNR44 at h1'
        cases hon : a.control.on
        · rw [hon] at h1'; simp only [Bool.not_false, if_true] at h1'; rw [h0] at h1'; cases h1'
        · rw [hon] at h1'; simp only [Bool.not_true, Bool.false_eq_true, if_false] at h1'
          have h2 : (a.ch4.writeNR44 a.frameSeqTicks (v % 256)).enabled = true := h1'
          rw [ns_nr44_enabled] at h2
          cases ht : trigOf (v % 256)
          · rw [ht] at h2; simp only [Bool.false_eq_true, if_false] at h2
            have h3 : a.ch4.enabled = true := Noise.en_extraLenClock _ _ _ _ h2
            rw [h0] at h3; cases h3
          · rw [ht] at h2; simp only [if_true] at h2
            exact ⟨v, rfl, ht, rfl, h2⟩
      · have := hs.2.2.2 e h1'; rw [h0] at this; cases this

/-- non-vacuity: after New all channels are off; NR22 := F0 (DAC on) then NR24 := 80 (trigger) switches channel 2 on -/
example : (Apu.new true true).ch2.enabled = false ∧
    (((Apu.new true true).step (.write 0xFF17 0xF0)).step (.write 0xFF19 0x80)).ch2.enabled = true := by decide


/-! ### what can switch a channel off -/

/-- the sweep unit's overflow check fails: the first calculation, or the second one made after the
    frequency update, exceeds 2047 -/
def SweepOverflow (s : Square) : Prop :=
  sweepCalc s.sweepIncrease s.shadowFrequency s.sweepShift > 2047 ∨
  sweepCalc s.sweepIncrease (sweepCalc s.sweepIncrease s.shadowFrequency s.sweepShift) s.sweepShift > 2047

private theorem sq_off_tickLength (s : Square) (h1 : s.enabled = true) (h2 : s.tickLength.enabled = false) :
    s.lengthEnable = true ∧ s.length > 0 ∧ s.tickLength.length = 0 := by
  unfold Square.tickLength at h2 ⊢
  by_cases he : s.lengthEnable = true
  · have hn : ¬ ((!s.lengthEnable) = true) := by rw [he]; decide
    rw [if_neg hn] at h2 ⊢
    by_cases hp : s.length > 0
    · rw [if_pos hp] at h2 ⊢
      refine ⟨he, hp, ?_⟩
      have : (s.enabled && decide (dec8 s.length ≠ 0)) = false := h2
      rw [h1] at this; simpa using this
    · rw [if_neg hp] at h2; rw [h1] at h2; cases h2
  · have hn : (!s.lengthEnable) = true := by simpa using he
    rw [if_pos hn] at h2; rw [h1] at h2; cases h2

private theorem wv_off_tickLength (s : Wave) (h1 : s.enabled = true) (h2 : s.tickLength.enabled = false) :
    s.lengthEnable = true ∧ s.length > 0 ∧ s.tickLength.length = 0 := by
  unfold Wave.tickLength at h2 ⊢
  by_cases he : s.lengthEnable = true
  · have hn : ¬ ((!s.lengthEnable) = true) := by rw [he]; decide
    rw [if_neg hn] at h2 ⊢
    by_cases hp : s.length > 0
    · rw [if_pos hp] at h2 ⊢
      refine ⟨he, hp, ?_⟩
      have : (s.enabled && decide (dec16 s.length ≠ 0)) = false := h2
      rw [h1] at this; simpa using this
    · rw [if_neg hp] at h2; rw [h1] at h2; cases h2
  · have hn : (!s.lengthEnable) = true := by simpa using he
    rw [if_pos hn] at h2; rw [h1] at h2; cases h2

private theorem ns_off_tickLength (s : Noise) (h1 : s.enabled = true) (h2 : s.tickLength.enabled = false) :
    s.lengthEnable = true ∧ s.length > 0 ∧ s.tickLength.length = 0 := by
  unfold Noise.tickLength at h2 ⊢
  by_cases he : s.lengthEnable = true
  · have hn : ¬ ((!s.lengthEnable) = true) := by rw [he]; decide
    rw [if_neg hn] at h2 ⊢
    by_cases hp : s.length > 0
    · rw [if_pos hp] at h2 ⊢
      refine ⟨he, hp, ?_⟩
      have : (s.enabled && decide (dec8 s.length ≠ 0)) = false := h2
      rw [h1] at this; simpa using this
    · rw [if_neg hp] at h2; rw [h1] at h2; cases h2
  · have hn : (!s.lengthEnable) = true := by simpa using he
    rw [if_pos hn] at h2; rw [h1] at h2; cases h2

private theorem calcValue_eq (s : Square) : s.calcValue = sweepCalc s.sweepIncrease s.shadowFrequency s.sweepShift := rfl

private theorem sq_off_tickSweep (s : Square) (h1 : s.enabled = true) (h2 : s.tickSweep.enabled = false) :
    s.sweepEnabled = true ∧ SweepOverflow s := by
  unfold Square.tickSweep at h2
  by_cases he : s.sweepEnabled = true
  case neg =>
    have hn : (!s.sweepEnabled) = true := by simpa using he
    rw [if_pos hn] at h2; rw [h1] at h2; cases h2
  case pos =>
    refine ⟨he, ?_⟩
    have hn : ¬ ((!s.sweepEnabled) = true) := by rw [he]; decide
    rw [if_neg hn] at h2
    by_cases c1 : dec8 s.sweepTimer = 0
    · rw [if_pos c1] at h2
      by_cases c2 : s.sweepPeriod = 0
      · rw [if_pos c2] at h2
        have : s.enabled = false := h2
        rw [h1] at this; cases this
      · rw [if_neg c2] at h2
        generalize hx : ({ s with sweepTimer := s.sweepPeriod } : Square) = x at h2
        have x1 : x.enabled = true := by rw [← hx]; exact h1
        have x2 : x.calcValue = sweepCalc s.sweepIncrease s.shadowFrequency s.sweepShift := by rw [← hx]; rfl
        have x3 : x.sweepIncrease = s.sweepIncrease ∧ x.sweepShift = s.sweepShift := by rw [← hx]; exact ⟨rfl, rfl⟩
        unfold Square.sweepStep at h2
        unfold SweepOverflow
        by_cases c3 : x.calcValue < 2048 ∧ x.sweepShift > 0
        · rw [if_pos c3] at h2
          -- second calculation on the stored frequency
          have e2 : ((x.calcState.storeFreq x.calcValue).calcState).enabled =
              (x.enabled && decide (x.calcValue ≤ 2047) && decide (sweepCalc x.sweepIncrease x.calcValue x.sweepShift ≤ 2047)) := rfl
          rw [e2, x1, x3.1, x3.2, x2] at h2
          simp only [Bool.true_and, Bool.and_eq_false_iff, decide_eq_false_iff_not] at h2
          rcases h2 with h | h
          · left; omega
          · right; omega
        · rw [if_neg c3] at h2
          have e1 : x.calcState.enabled = (x.enabled && decide (x.calcValue ≤ 2047)) := rfl
          rw [e1, x1, x2] at h2
          simp only [Bool.true_and, decide_eq_false_iff_not] at h2
          left; omega
    · rw [if_neg c1] at h2
      have : s.enabled = false := h2
      rw [h1] at this; cases this

/-- **C19 (off causes, one clock).**  If a status bit falls during one clock, then: the clock is a
    length clock and the channel's enabled, non-zero length counter reaches zero in it; or – channel 1
    only – the clock is a sweep clock (frame-sequencer steps 2 and 6), the sweep unit is active and
    its overflow check fails. -/
theorem c19_off_causes_clock (a : Apu) :
    (a.ch1.enabled = true → a.tickClock.ch1.enabled = false →
      (LenClockNow a ∧ a.ch1.lengthEnable = true ∧ a.ch1.length > 0 ∧ a.ch1.tickLength.length = 0) ∨
      (a.ticks % 8192 = 0 ∧ SweepStep a.frameSeqTicks ∧ a.ch1.sweepEnabled = true ∧ SweepOverflow a.ch1)) ∧
    (a.ch2.enabled = true → a.tickClock.ch2.enabled = false →
      LenClockNow a ∧ a.ch2.lengthEnable = true ∧ a.ch2.length > 0 ∧ a.ch2.tickLength.length = 0) ∧
    (a.ch3.enabled = true → a.tickClock.ch3.enabled = false →
      LenClockNow a ∧ a.ch3.lengthEnable = true ∧ a.ch3.length > 0 ∧ a.ch3.tickLength.length = 0) ∧
    (a.ch4.enabled = true → a.tickClock.ch4.enabled = false →
      LenClockNow a ∧ a.ch4.lengthEnable = true ∧ a.ch4.length > 0 ∧ a.ch4.tickLength.length = 0) := by
  have hl := lts_tickClock a
  simp only [lts, ltsClocked] at hl
  refine ⟨fun h1 h2 => ?_, fun h1 h2 => ?_, fun h1 h2 => ?_, fun h1 h2 => ?_⟩
  · -- channel 1
    have hc := ch1_tickClock a
    obtain ⟨t1, t2⟩ := ch1_tickTimer a
    generalize a.tickTimer.ch1 = t at hc t1 t2
    simp only [Square.lt, Prod.mk.injEq] at t1
    simp only [Square.swp, Prod.mk.injEq] at t2
    by_cases c : a.ticks % 8192 = 0
    · rw [if_pos c] at hc
      rw [hc] at h2
      unfold ch1Seq at h2
      simp only at h2
      have ht : t.enabled = true := by rw [t1.1]; exact h1
      -- after the length part
      by_cases c1 : a.frameSeqTicks % 2 = 0
      · rw [if_pos c1] at h2
        cases hs1 : t.tickLength.enabled
        · left
          obtain ⟨l1, l2, l3⟩ := sq_off_tickLength t ht hs1
          refine ⟨⟨c, c1⟩, by rw [← t1.2.1]; exact l1, by rw [← t1.2.2]; exact l2, ?_⟩
          have hcg := Square.lt_tickLength_congr t a.ch1 (by simp only [Square.lt, t1.1, t1.2.1, t1.2.2])
          simp only [Square.lt, Prod.mk.injEq] at hcg
          rw [← hcg.2.2]; exact l3
        · right
          have hsw : t.tickLength.swp = a.ch1.swp := by
            rw [Square.swp_tickLength]; simp only [Square.swp, t2.1, t2.2.1, t2.2.2.1, t2.2.2.2.1, t2.2.2.2.2.1, t2.2.2.2.2.2]
          generalize t.tickLength = s1 at h2 hs1 hsw
          have key : ∀ s2 : Square, s2.enabled = true → s2.swp = a.ch1.swp →
              (if sub64 a.frameSeqTicks 2 % 4 = 0 then s2.tickSweep else s2).enabled = false →
              a.ticks % 8192 = 0 ∧ SweepStep a.frameSeqTicks ∧ a.ch1.sweepEnabled = true ∧ SweepOverflow a.ch1 := by
            intro s2 e2 w2 hf
            by_cases c2 : sub64 a.frameSeqTicks 2 % 4 = 0
            · rw [if_pos c2] at hf
              obtain ⟨o1, o2⟩ := sq_off_tickSweep s2 e2 hf
              simp only [Square.swp, Prod.mk.injEq] at w2
              refine ⟨c, c2, by rw [← w2.1]; exact o1, ?_⟩
              unfold SweepOverflow at o2 ⊢
              rw [← w2.2.1, ← w2.2.2.1, ← w2.2.2.2.1]; exact o2
            · rw [if_neg c2] at hf; rw [e2] at hf; cases hf
          by_cases c3 : sub64 a.frameSeqTicks 7 % 8 = 0
          · rw [if_pos c3] at h2
            exact key _ (by rw [Square.en_tickVolumeEnvelope]; exact hs1) (by rw [Square.swp_tickVolumeEnvelope]; exact hsw) h2
          · rw [if_neg c3] at h2
            exact key _ hs1 hsw h2
      · rw [if_neg c1] at h2
        right
        have hsw : t.swp = a.ch1.swp := by
          simp only [Square.swp, t2.1, t2.2.1, t2.2.2.1, t2.2.2.2.1, t2.2.2.2.2.1, t2.2.2.2.2.2]
        have key : ∀ s2 : Square, s2.enabled = true → s2.swp = a.ch1.swp →
            (if sub64 a.frameSeqTicks 2 % 4 = 0 then s2.tickSweep else s2).enabled = false →
            a.ticks % 8192 = 0 ∧ SweepStep a.frameSeqTicks ∧ a.ch1.sweepEnabled = true ∧ SweepOverflow a.ch1 := by
          intro s2 e2 w2 hf
          by_cases c2 : sub64 a.frameSeqTicks 2 % 4 = 0
          · rw [if_pos c2] at hf
            obtain ⟨o1, o2⟩ := sq_off_tickSweep s2 e2 hf
            simp only [Square.swp, Prod.mk.injEq] at w2
            refine ⟨c, c2, by rw [← w2.1]; exact o1, ?_⟩
            unfold SweepOverflow at o2 ⊢
            rw [← w2.2.1, ← w2.2.2.1, ← w2.2.2.2.1]; exact o2
          · rw [if_neg c2] at hf; rw [e2] at hf; cases hf
        by_cases c3 : sub64 a.frameSeqTicks 7 % 8 = 0
        · rw [if_pos c3] at h2
          exact key _ (by rw [Square.en_tickVolumeEnvelope]; exact ht) (by rw [Square.swp_tickVolumeEnvelope]; exact hsw) h2
        · rw [if_neg c3] at h2
          exact key _ ht hsw h2
    · rw [if_neg c] at hc
      rw [hc, t1.1, h1] at h2; cases h2
  · by_cases c : a.ticks % 8192 = 0 ∧ a.frameSeqTicks % 2 = 0
    · rw [if_pos c] at hl
      simp only [Prod.mk.injEq] at hl
      have e := hl.1; simp only [Square.lt, Prod.mk.injEq] at e
      exact ⟨c, sq_off_tickLength a.ch2 h1 (by rw [← e.1]; exact h2)⟩
    · rw [if_neg c] at hl
      simp only [Prod.mk.injEq] at hl
      have e := hl.1; simp only [Square.lt, Prod.mk.injEq] at e
      rw [e.1, h1] at h2; cases h2
  · by_cases c : a.ticks % 8192 = 0 ∧ a.frameSeqTicks % 2 = 0
    · rw [if_pos c] at hl
      simp only [Prod.mk.injEq] at hl
      have e := hl.2.1; simp only [Wave.lt, Prod.mk.injEq] at e
      exact ⟨c, wv_off_tickLength a.ch3 h1 (by rw [← e.1]; exact h2)⟩
    · rw [if_neg c] at hl
      simp only [Prod.mk.injEq] at hl
      have e := hl.2.1; simp only [Wave.lt, Prod.mk.injEq] at e
      rw [e.1, h1] at h2; cases h2
  · by_cases c : a.ticks % 8192 = 0 ∧ a.frameSeqTicks % 2 = 0
    · rw [if_pos c] at hl
      simp only [Prod.mk.injEq] at hl
      have e := hl.2.2; simp only [Noise.lt, Prod.mk.injEq] at e
      exact ⟨c, ns_off_tickLength a.ch4 h1 (by rw [← e.1]; exact h2)⟩
    · rw [if_neg c] at hl
      simp only [Prod.mk.injEq] at hl
      have e := hl.2.2; simp only [Noise.lt, Prod.mk.injEq] at e
      rw [e.1, h1] at h2; cases h2


/-- the extra length clock of an NRx4 write expires the counter (and the write does not trigger):
    length newly enabled, in the first half of a frame-sequencer period, counter at its last clock -/
def ExtraClockExpiry (le0 : Bool) (len dec : Nat) (fs w : Nat) : Prop :=
  trigOf w = false ∧ le0 = false ∧ leOf w = true ∧ fs % 2 = 1 ∧ len > 0 ∧ dec = 0

private theorem sq_extra_off (s : Square) (fs : Nat) (le : Bool) (h1 : s.enabled = true)
    (h2 : (s.extraLenClock fs le false).enabled = false) :
    s.lengthEnable = false ∧ le = true ∧ fs % 2 = 1 ∧ s.length > 0 ∧ dec8 s.length = 0 := by
  unfold Square.extraLenClock at h2
  by_cases c : (!s.lengthEnable && le && decide (s.length > 0) && decide (fs % 2 = 1)) = true
  · rw [if_pos c] at h2
    have h3 : (s.enabled && !(decide (dec8 s.length = 0) && !false)) = false := h2
    rw [h1] at h3
    simp at c h3
    exact ⟨c.1.1.1, c.1.1.2, c.2, c.1.2, h3⟩
  · rw [if_neg c] at h2; rw [h1] at h2; cases h2

private theorem wv_extra_off (s : Wave) (fs : Nat) (le : Bool) (h1 : s.enabled = true)
    (h2 : (s.extraLenClock fs le false).enabled = false) :
    s.lengthEnable = false ∧ le = true ∧ fs % 2 = 1 ∧ s.length > 0 ∧ dec16 s.length = 0 := by
  unfold Wave.extraLenClock at h2
  by_cases c : (!s.lengthEnable && le && decide (s.length > 0) && decide (fs % 2 = 1)) = true
  · rw [if_pos c] at h2
    have h3 : (s.enabled && !(decide (dec16 s.length = 0) && !false)) = false := h2
    rw [h1] at h3
    simp at c h3
    exact ⟨c.1.1.1, c.1.1.2, c.2, c.1.2, h3⟩
  · rw [if_neg c] at h2; rw [h1] at h2; cases h2

private theorem ns_extra_off (s : Noise) (fs : Nat) (le : Bool) (h1 : s.enabled = true)
    (h2 : (s.extraLenClock fs le false).enabled = false) :
    s.lengthEnable = false ∧ le = true ∧ fs % 2 = 1 ∧ s.length > 0 ∧ dec8 s.length = 0 := by
  unfold Noise.extraLenClock at h2
  by_cases c : (!s.lengthEnable && le && decide (s.length > 0) && decide (fs % 2 = 1)) = true
  · rw [if_pos c] at h2
    have h3 : (s.enabled && !(decide (dec8 s.length = 0) && !false)) = false := h2
    rw [h1] at h3
    simp at c h3
    exact ⟨c.1.1.1, c.1.1.2, c.2, c.1.2, h3⟩
  · rw [if_neg c] at h2; rw [h1] at h2; cases h2

private theorem nr52_off (a : Apu) (w : Nat) (hw : w < 256) :
    (a.writeNR52 w).status ≠ a.status → w < 128 := by
  intro h
  unfold writeNR52 at h
  by_cases c : w / 128 = 0
  · omega
  · rw [if_neg c] at h
    exfalso; apply h
    unfold powerOn; split <;> rfl

/-- **C19 (off causes, writes).**  If a bus write makes a status bit fall, the write is one of:
    NR52 with bit 7 clear (power off); the channel's NRx2 with the upper five bits zero / NR30 with
    bit 7 clear (DAC disabled), made while sound is on; the channel's NRx4 made while sound is on,
    either triggering with the DAC disabled (or, channel 1, with a sweep overflow) or expiring the
    length counter by the extra length clock; or – channel 1, the real-DMG quirk – NR10 clearing the
    negate bit after a sweep calculation was made in negate mode.  (The disjunct `hasSweep = true` of
    channel 2 covers model states in which channel 2 would own a sweep unit; `audio.New` gives it
    none and nothing ever changes that.) -/
theorem c19_off_causes_write (a : Apu) (ad v : Nat) :
    (a.ch1.enabled = true → (a.write ad v).ch1.enabled = false →
      (ad = 0xFF26 ∧ v % 256 < 128) ∨
      (ad = 0xFF12 ∧ a.control.on = true ∧ v % 256 / 8 = 0) ∨
      (ad = 0xFF10 ∧ a.control.on = true ∧ v % 256 / 8 % 2 = 0 ∧ a.ch1.sweepDescending = true) ∨
      (ad = 0xFF14 ∧ a.control.on = true ∧
        ((trigOf (v % 256) = true ∧ ¬ Ch1TriggerOk a (v % 256)) ∨
         ExtraClockExpiry a.ch1.lengthEnable a.ch1.length (dec8 a.ch1.length) a.frameSeqTicks (v % 256)))) ∧
    (a.ch2.enabled = true → (a.write ad v).ch2.enabled = false →
      (ad = 0xFF26 ∧ v % 256 < 128) ∨
      (ad = 0xFF17 ∧ a.control.on = true ∧ v % 256 / 8 = 0) ∨
      (ad = 0xFF19 ∧ a.control.on = true ∧
        ((trigOf (v % 256) = true ∧ a.ch2.dacEnabled = false) ∨
         (trigOf (v % 256) = true ∧ a.ch2.hasSweep = true) ∨
         ExtraClockExpiry a.ch2.lengthEnable a.ch2.length (dec8 a.ch2.length) a.frameSeqTicks (v % 256)))) ∧
    (a.ch3.enabled = true → (a.write ad v).ch3.enabled = false →
      (ad = 0xFF26 ∧ v % 256 < 128) ∨
      (ad = 0xFF1A ∧ a.control.on = true ∧ v % 256 < 128) ∨
      (ad = 0xFF1E ∧ a.control.on = true ∧
        ((trigOf (v % 256) = true ∧ a.ch3.dacEnabled = false) ∨
         ExtraClockExpiry a.ch3.lengthEnable a.ch3.length (dec16 a.ch3.length) a.frameSeqTicks (v % 256)))) ∧
    (a.ch4.enabled = true → (a.write ad v).ch4.enabled = false →
      (ad = 0xFF26 ∧ v % 256 < 128) ∨
      (ad = 0xFF21 ∧ a.control.on = true ∧ v % 256 / 8 = 0) ∨
      (ad = 0xFF23 ∧ a.control.on = true ∧
        ((trigOf (v % 256) = true ∧ a.ch4.dacEnabled = false) ∨
         ExtraClockExpiry a.ch4.lengthEnable a.ch4.length (dec8 a.ch4.length) a.frameSeqTicks (v % 256)))) := by
  have e : a.write ad v = a.writeB ad (v % 256) := rfl
  rw [e]
  have hw : v % 256 < 256 := Nat.mod_lt _ (by decide)
  generalize v % 256 = w at hw ⊢
  have heq := status_writeB_eq a ad w
  -- power off
  have hpow : ∀ (p : Apu → Bool), (∀ b : Apu, b.status = a.status → p b = p a) → p a = true → p (a.writeNR52 w) = false → w < 128 := by
    intro p hp h1 h2
    apply nr52_off a w hw
    intro hst
    rw [hp _ hst, h1] at h2; cases h2
  refine ⟨fun h1 h2 => ?_, fun h1 h2 => ?_, fun h1 h2 => ?_, fun h1 h2 => ?_⟩
  · by_cases e52 : ad = 0xFF26
    · subst e52; left; rw [writeB_FF26] at h2
      exact ⟨rfl, hpow (fun b => b.ch1.enabled) (fun b hb => by simp only [status, Prod.mk.injEq] at hb; exact hb.1) h1 h2⟩
    by_cases e12 : ad = 0xFF12
    · subst e12; right; left; rw [writeB_FF12] at h2
      unfold writeNR12 at h2
      by_cases hon : a.control.on = true
      · have hn : ¬ ((!a.control.on) = true) := by rw [hon]; decide
        rw [if_neg hn] at h2
        have h3 : (a.ch1.enabled && (decide (w / 16 > 0) || decide (w / 8 % 2 > 0))) = false := h2
        rw [h1] at h3; simp at h3
        exact ⟨rfl, hon, by omega⟩
      · have hn : (!a.control.on) = true := by simpa using hon
        rw [if_pos hn, h1] at h2; cases h2
    by_cases e10 : ad = 0xFF10
    · subst e10; right; right; left; rw [writeB_FF10] at h2
      unfold writeNR10 at h2
      by_cases hon : a.control.on = true
      · have hn : ¬ ((!a.control.on) = true) := by rw [hon]; decide
        rw [if_neg hn] at h2
        have h3 : (a.ch1.enabled && !(decide (w / 8 % 2 = 0) && a.ch1.sweepDescending)) = false := h2
        rw [h1] at h3; simp at h3
        exact ⟨rfl, hon, h3.1, h3.2⟩
      · have hn : (!a.control.on) = true := by simpa using hon
        rw [if_pos hn, h1] at h2; cases h2
    by_cases e14 : ad = 0xFF14
    · subst e14; right; right; right; rw [writeB_FF14] at h2
      unfold writeNR14 at h2
      by_cases hon : a.control.on = true
      · have hn : ¬ ((!a.control.on) = true) := by rw [hon]; decide
        rw [if_neg hn] at h2
        have h3 : (a.ch1.writeNRx4 a.frameSeqTicks w).enabled = false := h2
        rw [sq_nrx4_enabled] at h3
        refine ⟨rfl, hon, ?_⟩
        by_cases ht : trigOf w = true
        · left; rw [if_pos ht] at h3
          refine ⟨ht, fun hok => ?_⟩
          have := (sqTrigOk_iff (a.ch1.setFreqHi w)).mpr hok
          rw [this] at h3; cases h3
        · right; rw [if_neg ht] at h3
          have ht' : trigOf w = false := by simpa using ht
          obtain ⟨x1, x2, x3, x4, x5⟩ := sq_extra_off (a.ch1.setFreqHi w) _ _ h1 h3
          exact ⟨ht', x1, x2, x3, x4, x5⟩
      · have hn : (!a.control.on) = true := by simpa using hon
        rw [if_pos hn, h1] at h2; cases h2
    · rw [heq.1 e10 e12 e14 e52, h1] at h2; cases h2
  · by_cases e52 : ad = 0xFF26
    · subst e52; left; rw [writeB_FF26] at h2
      exact ⟨rfl, hpow (fun b => b.ch2.enabled) (fun b hb => by simp only [status, Prod.mk.injEq] at hb; exact hb.2.1) h1 h2⟩
    by_cases e12 : ad = 0xFF17
    · subst e12; right; left; rw [writeB_FF17] at h2
      unfold writeNR22 at h2
      by_cases hon : a.control.on = true
      · have hn : ¬ ((!a.control.on) = true) := by rw [hon]; decide
        rw [if_neg hn] at h2
        have h3 : (a.ch2.enabled && (decide (w / 16 > 0) || decide (w / 8 % 2 > 0))) = false := h2
        rw [h1] at h3; simp at h3
        exact ⟨rfl, hon, by omega⟩
      · have hn : (!a.control.on) = true := by simpa using hon
        rw [if_pos hn, h1] at h2; cases h2
    by_cases e14 : ad = 0xFF19
    · subst e14; right; right; rw [writeB_FF19] at h2
      unfold writeNR24 at h2
      by_cases hon : a.control.on = true
      · have hn : ¬ ((!a.control.on) = true) := by rw [hon]; decide
        rw [if_neg hn] at h2
        have h3 : (a.ch2.writeNRx4 a.frameSeqTicks w).enabled = false := h2
        rw [sq_nrx4_enabled] at h3
        refine ⟨rfl, hon, ?_⟩
        by_cases ht : trigOf w = true
        · rw [if_pos ht] at h3
          by_cases hd : a.ch2.dacEnabled = true
          · right; left
            refine ⟨ht, ?_⟩
            cases hs : a.ch2.hasSweep
            · exfalso
              have : sqTrigOk (a.ch2.setFreqHi w) = true := by
                unfold sqTrigOk
                have d1 : (a.ch2.setFreqHi w).dacEnabled = true := hd
                have d2 : (a.ch2.setFreqHi w).hasSweep = false := hs
                rw [d1, d2]; rfl
              rw [this] at h3; cases h3
            · rfl
          · left; exact ⟨ht, by simpa using hd⟩
        · right; right; rw [if_neg ht] at h3
          have ht' : trigOf w = false := by simpa using ht
          obtain ⟨x1, x2, x3, x4, x5⟩ := sq_extra_off (a.ch2.setFreqHi w) _ _ h1 h3
          exact ⟨ht', x1, x2, x3, x4, x5⟩
      · have hn : (!a.control.on) = true := by simpa using hon
        rw [if_pos hn, h1] at h2; cases h2
    · rw [heq.2.1 e12 e14 e52, h1] at h2; cases h2
  · by_cases e52 : ad = 0xFF26
    · subst e52; left; rw [writeB_FF26] at h2
      exact ⟨rfl, hpow (fun b => b.ch3.enabled) (fun b hb => by simp only [status, Prod.mk.injEq] at hb; exact hb.2.2.1) h1 h2⟩
    by_cases e12 : ad = 0xFF1A
    · subst e12; right; left; rw [writeB_FF1A] at h2
      unfold writeNR30 at h2
      by_cases hon : a.control.on = true
      · have hn : ¬ ((!a.control.on) = true) := by rw [hon]; decide
        rw [if_neg hn] at h2
        have h3 : (a.ch3.enabled && decide (w / 128 % 2 > 0)) = false := h2
        rw [h1] at h3; simp at h3
        exact ⟨rfl, hon, by omega⟩
      · have hn : (!a.control.on) = true := by simpa using hon
        rw [if_pos hn, h1] at h2; cases h2
    by_cases e14 : ad = 0xFF1E
    · subst e14; right; right; rw [writeB_FF1E] at h2
      unfold writeNR34 at h2
      by_cases hon : a.control.on = true
      · have hn : ¬ ((!a.control.on) = true) := by rw [hon]; decide
        rw [if_neg hn] at h2
        have h3 : (a.ch3.writeNR34 a.frameSeqTicks w).enabled = false := h2
        rw [wv_nr34_enabled] at h3
        refine ⟨rfl, hon, ?_⟩
        by_cases ht : trigOf w = true
        · left; rw [if_pos ht] at h3; exact ⟨ht, h3⟩
        · right; rw [if_neg ht] at h3
          have ht' : trigOf w = false := by simpa using ht
          obtain ⟨x1, x2, x3, x4, x5⟩ := wv_extra_off (a.ch3.setFreqHi w) _ _ h1 h3
          exact ⟨ht', x1, x2, x3, x4, x5⟩
      · have hn : (!a.control.on) = true := by simpa using hon
        rw [if_pos hn, h1] at h2; cases h2
    · rw [heq.2.2.1 e12 e14 e52, h1] at h2; cases h2
  · by_cases e52 : ad = 0xFF26
    · subst e52; left; rw [writeB_FF26] at h2
      exact ⟨rfl, hpow (fun b => b.ch4.enabled) (fun b hb => by simp only [status, Prod.mk.injEq] at hb; exact hb.2.2.2) h1 h2⟩
    by_cases e12 : ad = 0xFF21
    · subst e12; right; left; rw [writeB_FF21] at h2
      unfold writeNR42 at h2
      by_cases hon : a.control.on = true
      · have hn : ¬ ((!a.control.on) = true) := by rw [hon]; decide
        rw [if_neg hn] at h2
        have h3 : (a.ch4.enabled && (decide (w / 16 > 0) || decide (w / 8 % 2 > 0))) = false := h2
        rw [h1] at h3; simp at h3
        exact ⟨rfl, hon, by omega⟩
      · have hn : (!a.control.on) = true := by simpa using hon
        rw [if_pos hn, h1] at h2; cases h2
    by_cases e14 : ad = 0xFF23
    · subst e14; right; right; rw [writeB_FF23] at h2
      unfold writeNR44 at h2
      by_cases hon : a.control.on = true
      · have hn : ¬ ((!a.control.on) = true) := by rw [hon]; decide
        rw [if_neg hn] at h2
        have h3 : (a.ch4.writeNR44 a.frameSeqTicks w).enabled = false := h2
        rw [ns_nr44_enabled] at h3
        refine ⟨rfl, hon, ?_⟩
        by_cases ht : trigOf w = true
        · left; rw [if_pos ht] at h3; exact ⟨ht, h3⟩
        · right; rw [if_neg ht] at h3
          have ht' : trigOf w = false := by simpa using ht
          obtain ⟨x1, x2, x3, x4, x5⟩ := ns_extra_off a.ch4 _ _ h1 h3
          exact ⟨ht', x1, x2, x3, x4, x5⟩
      · have hn : (!a.control.on) = true := by simpa using hon
        rw [if_pos hn, h1] at h2; cases h2
    · rw [heq.2.2.2 e12 e14 e52, h1] at h2; cases h2

/-- **C19 (off causes, machine cycle).**  If a status bit falls during a machine cycle it falls in one
    of its four clocks (where `c19_off_causes_clock` names the cause); writes: `c19_off_causes_write`.
    Together: over all histories a channel is switched off only by DAC disable, power off, length
    expiry, sweep overflow (channel 1), a trigger that does not switch it on, or the NR10 quirk. -/
theorem c19_off_causes_cycle (a : Apu) (p : Apu → Bool)
    (hp : p = (fun b => b.ch1.enabled) ∨ p = (fun b => b.ch2.enabled) ∨ p = (fun b => b.ch3.enabled) ∨ p = (fun b => b.ch4.enabled))
    (h1 : p a = true) (h2 : p a.endMachineCycle = false) :
    ∃ i, i < 4 ∧ p (clocks i a) = true ∧ p (clocks i a).tickClock = false := by
  have e : p a.endMachineCycle = p a.tickClock.tickClock.tickClock.tickClock := by
    unfold endMachineCycle
    generalize a.tickClock.tickClock.tickClock.tickClock = x
    rcases hp with h | h | h | h <;> subst h <;> rfl
  rw [e] at h2
  cases c1 : p a.tickClock
  · exact ⟨0, by omega, h1, c1⟩
  cases c2 : p a.tickClock.tickClock
  · exact ⟨1, by omega, c1, c2⟩
  cases c3 : p a.tickClock.tickClock.tickClock
  · exact ⟨2, by omega, c2, c3⟩
  · exact ⟨3, by omega, c3, h2⟩

/-- non-vacuity (length expiry in a clock): channel 2 on, length enabled, counter 1, at a length clock -/
example : ({ ch2 := { enabled := true, lengthEnable := true, length := 1 }, ticks := 8192, frameSeqTicks := 0 } : Apu).tickClock.ch2.enabled = false := by
  decide

end Tetro.C19
