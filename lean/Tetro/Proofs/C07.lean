import Tetro.Lemmas.BusFrame
import Tetro.Proofs.C06
/-
C07 – a write changes only the state documented for its address.

`footprint a b` (Spec/BusSpec.lean) is the documented effect set of a write to `a`: `a` itself, its echo mirror,
the ROM/RAM windows for a cartridge control write (the RAM window for a cartridge RAM write), and the side
effects DIV→TIMA, TAC→TIMA, TMA→TIMA (reload cycle), LCDC→STAT/LY, DMA→OAM.  The theorems are about the
machine bus model behind the documented decoder (see the header of Proofs/C06.lean for the tie to mapper.go).

FULL statement of the property (proved in Proofs/C07Whole.lean as `c07_frame_whole`, with the sound block as ONE footprint):
    ∀ s a v b, a < 0x10000 → b < 0x10000 → busWrite W s a v = some s' → ¬ footprint a b → peek R s' b = peek R s b
  where for a in FF10–FF3F the footprint is the documented one inside the sound unit (NR52 power-off clears the
  registers, trigger/envelope/sweep/DAC writes change NR52 status bits, wave RAM).
Proved here: `c07_frame_partial` = the same statement for every written address OUTSIDE FF10–FF3F (all of
cartridge, VRAM, WRAM/echo, OAM, I/O, HRAM, IE) and EVERY read address.  Missing: writes to FF10–FF3F – the APU
is a stub in the bus model (`ApuStub`), its side effects are covered by C18/C19's own checks; in
`Spec.BusSpec.footprint` the sound unit is one opaque block (`apuAddr a ∧ apuAddr b`).
-/
namespace Tetro.C07
open Tetro.Model.Decoder Tetro.Model.Machine Tetro.Model Tetro.BusRoute Tetro.BusBasic Tetro.BusFrame Tetro.Spec.BusSpec

/-- C07 (all writes outside the sound unit): in EVERY machine state, a write to `a` leaves what every address
    `b` outside the documented footprint of `a` reads unchanged – this includes panicking reads (`none`), i.e.
    a write can neither repair nor break a location it does not own. -/
theorem c07_frame_partial (s s' : Machine) (a v b : Nat) (ha : a < 0x10000) (hb : b < 0x10000) (hna : ¬ apuAddr a)
    (hw : busWrite W s a v = some s') (hf : ¬ footprint a b) : peek R s' b = peek R s b :=
  frame s s' a v b ha hb hna hw hf

/-- the whole address space at once: the set of addresses whose read value differs after the write is
    contained in the footprint -/
theorem c07_changed_subset_footprint (s s' : Machine) (a v : Nat) (ha : a < 0x10000) (hna : ¬ apuAddr a)
    (hw : busWrite W s a v = some s') :
    ∀ b < 0x10000, peek R s' b ≠ peek R s b → footprint a b := by
  intro b hb hne
  by_cases hf : footprint a b
  · exact hf
  · exact absurd (frame s s' a v b ha hb hna hw hf) hne

/-- a write to ordinary memory (VRAM, WRAM top, OAM, HRAM, IE) or to a register without side effects changes at
    most the one address written -/
theorem c07_single_cell (s s' : Machine) (a v b : Nat) (ha : a < 0x10000) (hb : b < 0x10000)
    (hcls : (0x8000 ≤ a ∧ a < 0xa000) ∨ (0xde00 ≤ a ∧ a < 0xe000) ∨ (0xfe00 ≤ a ∧ a < 0xff04) ∨ a = 0xff05
      ∨ (0xff08 ≤ a ∧ a < 0xff10) ∨ (0xff41 ≤ a ∧ a ≤ 0xff45) ∨ (0xff47 ≤ a ∧ a < 0x10000))
    (hw : busWrite W s a v = some s') (hne : b ≠ a) : peek R s' b = peek R s b := by
  refine frame s s' a v b ha hb (by simp only [apuAddr]; omega) hw ?_
  simp only [footprint, mirrorOf, sideEffect, apuAddr, cartAddr]
  intro h
  rcases h with h | h | h | h | h
  · exact hne h
  · split at h
    · omega
    · split at h
      · omega
      · cases h
  all_goals omega

/-- a cartridge control write changes nothing outside the cartridge windows -/
theorem c07_cart_control (s s' : Machine) (a v b : Nat) (ha : a < 0x8000) (hb : b < 0x10000) (hnb : ¬ cartAddr b)
    (hw : busWrite W s a v = some s') : peek R s' b = peek R s b := by
  refine frame s s' a v b (by omega) hb (by simp only [apuAddr]; omega) hw ?_
  simp only [cartAddr] at hnb
  simp only [footprint, mirrorOf, sideEffect, apuAddr, cartAddr]
  intro h
  rcases h with h | h | h | h | h
  · omega
  · rw [if_neg (by omega), if_neg (by omega)] at h; cases h
  all_goals omega

/-- a READ changes nothing that can be read (the only mutation of `Mapper.Read` is the OAM-bug flag) -/
theorem c07_read_changes_nothing (s s' : Machine) (a r b : Nat) (hb : b < 0x10000)
    (hr : busRead R s a = some (r, s')) : peek R s' b = peek R s b := by
  unfold busRead at hr
  rw [Option.map_eq_some_iff] at hr
  obtain ⟨_, _, e⟩ := hr
  have : s' = readEff (route R a) s a := (Prod.mk.inj e).2.symm
  rw [this]
  exact (read_keeps s (route R a) a b hb).1

/-! ### non-vacuity -/

open Tetro.C06 (demo)

/-- a concrete write, a concrete address outside its footprint -/
example : (0xff07 : Nat) < 0x10000 ∧ ¬ apuAddr 0xff07 ∧ ¬ footprint 0xff07 0xff04 ∧ footprint 0xff07 0xff05 := by decide
example : ∃ s', busWrite W demo 0xff07 0x05 = some s' :=
  ⟨{ demo with timer := Timer.writeTAC demo.timer 5 }, by simp only [busWrite, rW_tac, writeH]⟩

/-- the side-effect entries of the footprint are needed: there is a state in which the DIV write changes TIMA -/
example : ∃ (t : Timer.T), Timer.readTIMA (Timer.writeDIV t) ≠ Timer.readTIMA t :=
  ⟨{ counter := 0x0200, tac := 0x04, tima := 0x10, tma := 0, lastEdgeSet := true, reloadDelay := 0,
     reloading := false, interrupt := false }, by decide⟩

/-- … and the echo entry: the footprint of a WRAM address contains exactly itself and its mirror -/
example : footprint 0xc123 0xe123 ∧ footprint 0xe123 0xc123 ∧ ¬ footprint 0xc123 0xc124 ∧ ¬ footprint 0xde00 0xfe00 := by
  decide

end Tetro.C07
