import Tetro.Lemmas.Lcd
/-
C17, PPU side – the OAM-bug window (`oam.corrupt`, mirrored as `Ppu.oamCorrupt`: set by
`EnterMode2`, cleared by `ExitMode2`) is open only while the LCD is on and in mode 2, for every
schedule of machine cycles and LCDC/STAT/LYC/LY writes from power-on.  This is the invariant that
fix 5cf1f5f (`disable()` calls `oam.ExitMode2()`) establishes; `oldBehaviour_breaks_invariant`
shows that it fails for the code before the fix.  The OAM side (corruption functions are only
reached when `corrupt` is set) is proved elsewhere.
-/
namespace Tetro.C17Lcd
open Tetro.Model.Lcd Tetro.Spec.Lcd Tetro.LcdLemmas

private theorem window_of_rel (s : St) (p : Ppu) (h : Rel s p) :
    (p.oamCorrupt = true ↔ p.enabled = true ∧ p.mode = 2) ∧
    (p.oamCorrupt = true ↔ ∃ n, s.since = some n ∧ modeAt n = 2) := by
  unfold Rel at h
  obtain ⟨_, _, _, _, _, h⟩ := h
  cases hs : s.since with
  | none =>
    rw [hs] at h
    obtain ⟨he, _, _, _, hc⟩ := h
    simp [he, hc]
  | some n =>
    rw [hs] at h
    obtain ⟨he, hm, _, _, _, hc⟩ := h
    simp only [he, hm, true_and, hc, modeAt, Option.some.injEq, exists_eq_left']

/-- **C17 (window, exact).**  After every schedule: `corrupt` is set iff the LCD is on and the PPU
    is in mode 2 – equivalently iff the closed-form mode of the time since switch-on is 2. -/
theorem c17_corrupt_iff_mode2 (ops : List Op) :
    ∃ p, run init ops = some p ∧
      (p.oamCorrupt = true ↔ p.enabled = true ∧ p.mode = 2) ∧
      (p.oamCorrupt = true ↔ ∃ n, sinceOf ops = some n ∧ modeAt n = 2) := by
  obtain ⟨p, hp, hrel⟩ := run_rel ops St.init init rel_init
  have h := window_of_rel _ p hrel
  rw [specRun_init_since] at h
  exact ⟨p, hp, h⟩

/-- **C17 (PPU side).**  In every state reachable from power-on, an open OAM-bug window implies
    LCD on and mode 2. -/
theorem c17_corrupt_implies_mode2 (ops : List Op) (p : Ppu) (h : run init ops = some p) :
    p.oamCorrupt = true → p.enabled = true ∧ p.mode = 2 := by
  obtain ⟨q, hq, hw, _⟩ := c17_corrupt_iff_mode2 ops
  rw [h] at hq; cases hq
  exact hw.mp

/-- **C17 (LCD off).**  With the LCD off – however and whenever it was switched off – the window
    is closed. -/
theorem c17_off_not_corrupt (ops : List Op) (p : Ppu) (h : run init ops = some p) :
    p.enabled = false → p.oamCorrupt = false := by
  intro he
  cases hc : p.oamCorrupt with
  | false => rfl
  | true =>
    have := (c17_corrupt_implies_mode2 ops p h hc).1
    rw [he] at this; cases this

/-- non-vacuity: the hypotheses are met by a schedule that switches the LCD off in mode 2 (5 cycles
    into a line); the window is open before the switch and closed after it -/
example :
    (run init (List.replicate 5 .tick)).map (fun p => (p.enabled, p.oamCorrupt, p.mode))
      = some (true, true, 2) ∧
    (run init (List.replicate 5 .tick ++ [.wLCDC 0x11])).map (fun p => (p.enabled, p.oamCorrupt, p.mode))
      = some (false, false, 0) := by decide

/-! ### the behaviour before fix 5cf1f5f -/

/-- `ppu.disable` as it was: no `oam.ExitMode2()` -/
def disableOld (p : Ppu) : Ppu := { p with enabled := false, ly := 0, ticks := 0, mode := 0 }

def wLCDCOld (p : Ppu) (v : Nat) : Ppu :=
  { (if v.testBit 7 = true ∧ p.enabled = false then enable p
     else if v.testBit 7 = false ∧ p.enabled = true then disableOld p else p)
    with lcdcLow := v % 128 }

/-- without `ExitMode2` in `disable`, switching the LCD off at power-on (mode 2) leaves the window
    open with the LCD off and the mode register at 0: both C17 statements fail -/
theorem oldBehaviour_breaks_invariant :
    (wLCDCOld init 0x11).oamCorrupt = true ∧ (wLCDCOld init 0x11).enabled = false ∧
    (wLCDCOld init 0x11).mode = 0 := by decide

end Tetro.C17Lcd
